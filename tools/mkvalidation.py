#!/usr/bin/python3
"""Summarise the logs of tools/validate_all.sh (build/*.log) into docs/validation_last_run.md."""
import os, re, subprocess, time
R = os.path.dirname(os.path.dirname(os.path.abspath(__file__)))
def rd(p):
    try: return open(os.path.join(os.environ.get("VALIDATION_BUILD", os.path.join(R, "build")), p)).read().splitlines()
    except Exception: return []
out = ["# Last full validation run", "",
       "Produced by `tools/validate_all.sh` (logs in `build/`, not committed) and summarised by `tools/mkvalidation.py`.", ""]
head = subprocess.run(["git", "-C", "/repo", "rev-parse", "--short", "HEAD"], capture_output=True, text=True).stdout.strip()
vh = os.environ.get("VALIDATION_COMMIT") or subprocess.run(["git", "-C", R, "rev-parse", "--short", "HEAD"], capture_output=True, text=True).stdout.strip()
out += ["* /repo HEAD: `%s`; /verif commit validated: `%s`; %s" % (head, vh, time.strftime("%Y-%m-%d %H:%M")), ""]
sw = rd("sweep_q123.log")
runs = [l for l in sw if l.startswith("seed=")]
bad = [l for l in runs if " rc=0 " not in l]
out += ["## Unchanged tree, quick tier, seeds 1-3", "", "%d check runs, %d with a non-zero exit status." % (len(runs), len(bad))] + ["    " + l for l in bad] + [""]
th = rd("thorough1.log")
runs = [l for l in th if l.startswith("seed=")]
bad = [l for l in runs if " rc=0 " not in l]
out += ["## Unchanged tree, thorough tier, seed 1", "", "%d check runs, %d with a non-zero exit status." % (len(runs), len(bad))] + ["    " + l for l in bad]
out += ["", "| check | summary |", "|---|---|"] + ["| %s | %s |" % (l.split()[1], " ".join(l.split()[3:])[:150]) for l in runs] + [""]
ra = [l for l in rd("runall.log") if l.strip()]
det = [l for l in ra if "exit=1" in l]
nof = [l for l in det if "no-failing-input-found" in l]
out += ["## Seeded changes (each against the quick check of its own property)", "",
        "%d runs, %d detected (exit 1 with a VIOLATION line), %d of them without a concrete failing input." % (len(ra), len(det), len(nof))]
out += ["    " + l for l in ra if "exit=1" not in l] + ["    " + l[:110] for l in nof] + [""]
rw = [l for l in rd("rewrites.log") if re.match(r"R\d+ ", l)]
ok = [l for l in rw if l.endswith("exit=0 violations=0")]
out += ["## Behaviour-preserving rewrites (each against all 20 quick checks)", "",
        "%d runs, %d exit 0 without a VIOLATION line." % (len(rw), len(ok))] + ["    " + l for l in rw if l not in ok] + [""]
open(os.path.join(R, "docs", "validation_last_run.md"), "w").write("\n".join(out) + "\n")
print("\n".join(out[:12]))

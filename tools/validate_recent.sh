#!/bin/bash
# Reduced validation after late changes: unchanged-tree sweeps (quick seeds 1-3, thorough seed 1), the seeded changes
# of the given generations (default: G47 and later), the false-alarm test.  Same conventions as validate_all.sh.
cd "$(dirname "$0")/.."
mkdir -p build
./check setup > build/setup.log 2>&1
tools/sweep.sh quick 1 2 3 > build/sweep_q123.log 2>&1
(for d in seeded/C*; do m=$(basename $d); g=${m##*-G}; case $g in ''|*[!0-9]*) continue;; esac; [ "$g" -ge ${FROM_GEN:-47} ] || continue; python3 tools/mutants.py run $m 2>&1 | grep -v "^WARNING" | tail -1 | cut -c1-160; done) > build/runall.log 2>&1
tools/rewrites.sh build/rewrites.log > /dev/null 2>&1
tools/sweep.sh thorough 1 > build/thorough1.log 2>&1
echo "== sweep quick"; grep -c "rc=0" build/sweep_q123.log; grep -v "rc=0" build/sweep_q123.log
echo "== mutants"; grep -c "exit=1" build/runall.log; grep -v "exit=1" build/runall.log
echo "== rewrites"; grep -c "exit=0 violations=0" build/rewrites.log; grep -v "exit=0 violations=0" build/rewrites.log
echo "== thorough"; grep -c "rc=0" build/thorough1.log; grep -v "rc=0" build/thorough1.log
echo finished > build/master.done

#!/usr/bin/python3
"""Seeded-change corpus management.

  tools/mutants.py import <Cxx> <letter>      copy a sub-agent's delivery from /tmp/mut/<Cxx>.out into seeded/<Cxx>-<letter>/
  tools/mutants.py confirm <id>               in a scratch worktree: patch compiles, existing tests pass, demo fails with / passes without
  tools/mutants.py run <id> [Cxx ...]         apply to /repo, run the quick checks (default: the mutant's own property), revert
  tools/mutants.py runall [Cxx-all]           run every seeded change against its property's check (and report)
"""
import json, os, shutil, subprocess, sys, time

ROOT = os.path.dirname(os.path.dirname(os.path.abspath(__file__)))
SEEDED = os.path.join(ROOT, "seeded")
REPO = os.environ.get("VERIF_REPO", "/repo")
ENV = dict(os.environ, GOFLAGS="-mod=mod", GOPROXY="off", GOSUMDB="off", GOTOOLCHAIN="local")


def sh(cmd, cwd=None, timeout=1800):
    p = subprocess.run(cmd, cwd=cwd, env=ENV, shell=isinstance(cmd, str), stdout=subprocess.PIPE, stderr=subprocess.STDOUT, text=True, timeout=timeout)
    return p.returncode, p.stdout


def meta_path(mid):
    return os.path.join(SEEDED, mid, "meta.json")


def load_meta(mid):
    try:
        return json.load(open(meta_path(mid)))
    except Exception:
        return {"id": mid}


def save_meta(mid, m):
    json.dump(m, open(meta_path(mid), "w"), indent=1)


def cmd_import(prop, letter):
    src = "/tmp/mut/%s.out" % prop
    mid = "%s-%s" % (prop, letter)
    if letter.startswith("G"):
        # second generation: /tmp/mut/<Gn>.out/<Cxx>.diff, demo_<Cxx>_test.go
        src = "/tmp/mut/%s.out" % letter
        mid = "%s-%s" % (prop, letter)
        d = os.path.join(SEEDED, mid)
        os.makedirs(d, exist_ok=True)
        shutil.copy(os.path.join(src, "%s.diff" % prop), os.path.join(d, "patch.diff"))
        shutil.copy(os.path.join(src, "demo_%s_test.go" % prop), os.path.join(d, "demo_test.go"))
        if os.path.exists(os.path.join(src, "notes.md")):
            shutil.copy(os.path.join(src, "notes.md"), os.path.join(d, "notes.md"))
        m = load_meta(mid)
        m.update({"id": mid, "property": prop, "source": "independent sub-agent (%s) given only property texts and a scratch worktree" % os.environ.get("GEN_DESC", "later generation: asked for conjunctions of conditions")})
        save_meta(mid, m)
        print("imported", mid)
        return
    d = os.path.join(SEEDED, mid)
    os.makedirs(d, exist_ok=True)
    shutil.copy(os.path.join(src, "%s.diff" % letter), os.path.join(d, "patch.diff"))
    shutil.copy(os.path.join(src, "demo_%s_test.go" % letter), os.path.join(d, "demo_test.go"))
    if os.path.exists(os.path.join(src, "notes.md")):
        shutil.copy(os.path.join(src, "notes.md"), os.path.join(d, "notes.md"))
    m = load_meta(mid)
    m.update({"id": mid, "property": prop, "source": "independent sub-agent given only the property text and a scratch worktree"})
    save_meta(mid, m)
    print("imported", mid)


def cmd_confirm(mid):
    d = os.path.join(SEEDED, mid)
    flags = load_meta(mid).get("demo_flags", "")
    wt = "/tmp/mconf-%d" % os.getpid()
    rc, out = sh(["git", "-C", "/repo", "worktree", "add", "-q", "--detach", wt, "HEAD"])
    if rc != 0:
        print(out); return 2
    res = {}
    try:
        rc, out = sh(["git", "apply", os.path.join(d, "patch.diff")], cwd=wt)
        res["applies"] = rc == 0
        if rc != 0:
            print("patch does not apply:", out)
        rc, out = sh("go build ./... && go vet -vet=off . ; go test -count=1 ./...", cwd=wt)
        res["existing_suite_passes_with_patch"] = rc == 0 and "FAIL" not in out
        shutil.copy(os.path.join(d, "demo_test.go"), os.path.join(wt, "zz_demo_test.go"))
        rc, out = sh("go test %s -count=1 ./..." % flags, cwd=wt)
        res["demo_fails_with_patch"] = rc != 0
        res["demo_output_with_patch"] = out[-1500:]
        sh(["git", "checkout", "--", "."], cwd=wt)
        rc, out = sh("go test %s -count=1 ./..." % flags, cwd=wt)
        res["demo_passes_without_patch"] = rc == 0
    finally:
        sh(["git", "-C", "/repo", "worktree", "remove", "--force", wt])
        shutil.rmtree(wt, ignore_errors=True)
    ok = all(res.get(k) for k in ("applies", "existing_suite_passes_with_patch", "demo_fails_with_patch", "demo_passes_without_patch"))
    res["confirmed"] = ok
    m = load_meta(mid)
    m["confirmation"] = res
    m["what_i_ran_to_confirm"] = "scratch worktree of /repo HEAD: git apply patch.diff; go test ./... (existing suite green); add demo_test.go; go test ./... (must fail); git checkout -- .; go test ./... (must pass); worktree removed"
    save_meta(mid, m)
    print(mid, "confirmed" if ok else "NOT CONFIRMED", {k: v for k, v in res.items() if k != "demo_output_with_patch"})
    return 0 if ok else 1


def cmd_run(mid, props):
    d = os.path.join(SEEDED, mid)
    m = load_meta(mid)
    if not props:
        props = [m.get("property", mid.split("-")[0])]
    rc, out = sh(["git", "-C", REPO, "status", "--porcelain"])
    if out.strip():
        print("refusing: %s is not clean:\n" % REPO + out); return 2
    rc, out = sh(["git", "-C", REPO, "apply", os.path.join(d, "patch.diff")])
    if rc != 0:
        print("patch does not apply to /repo:", out); return 2
    results = {}
    try:
        for p in props:
            t0 = time.time()
            tier = os.environ.get("VERIF_TIER", "quick")
            rc, out = sh([os.path.join(ROOT, "check"), p, "--tier", tier], cwd=ROOT, timeout=3600)
            viol = [l for l in out.splitlines() if l.startswith("VIOLATION")]
            results[p] = {"exit": rc, "violation_lines": viol, "tail": out.splitlines()[-3:], "wall_s": round(time.time() - t0, 1)}
            print(mid, p, "exit=%d" % rc, viol[:1])
    finally:
        sh(["git", "-C", REPO, "checkout", "--", "."])
        rc, out = sh(["git", "-C", REPO, "status", "--porcelain"])
        if out.strip():
            print("WARNING: /repo not clean after revert:\n" + out)
    # harvest the killing input into the corpus of the property (only stateful/kernel transcripts)
    for p, r in results.items():
        for v in r["violation_lines"]:
            try:
                rp = v.split("replay=")[1].split()[0]
                rec = json.load(open(rp))
                lines = rec.get("transcript") or []
                if lines and p not in ("C11", "C18", "C19") and not lines[0].startswith(("goref ", "kpanic ", "gencrash ", "c16panic ", "r19 ")) and sum(len(l) for l in lines) < 300000:
                    cd = os.path.join(ROOT, "corpus", p)
                    os.makedirs(cd, exist_ok=True)
                    open(os.path.join(cd, mid + ".txt"), "w").write("\n".join(lines) + "\n")
            except Exception as e:
                print("corpus harvest failed:", e)
    m.setdefault("check_results", {}).update(results)
    m["caught_by"] = sorted(p for p, r in m["check_results"].items() if r["exit"] == 1)
    m["caught_with_concrete_input_by"] = sorted(p for p, r in m["check_results"].items()
                                              if r["exit"] == 1 and any("no-failing-input-found" not in v for v in r["violation_lines"]))
    save_meta(mid, m)
    return 0


def main():
    a = sys.argv[1:]
    if a[0] == "import":
        return cmd_import(a[1], a[2])
    if a[0] == "confirm":
        return cmd_confirm(a[1])
    if a[0] == "run":
        return cmd_run(a[1], a[2:])
    if a[0] == "runall":
        for mid in sorted(os.listdir(SEEDED)):
            if os.path.isdir(os.path.join(SEEDED, mid)):
                cmd_run(mid, a[1:])
        return 0


if __name__ == "__main__":
    sys.exit(main())

#!/bin/bash
# False-alarm test: apply each behaviour-preserving rewrite of /repo (seeded/rewrites/R*.diff), run every
# quick check (4 at a time), revert.  Every check must exit 0 on every rewrite.
cd "$(dirname "$0")/.."
R=${VERIF_REPO:-/repo}
out=${1:-$PWD/build/rewrites.log}
: > $out
./check setup >/dev/null 2>&1
for d in ${REWRITES:-seeded/rewrites/R*.diff}; do
  n=$(basename $d .diff)
  git -C $R checkout -q -- . && git -C $R apply $PWD/$d || { echo "$n apply-failed" >> $out; continue; }
  ./check C01 >/dev/null 2>&1   # builds the harness for this tree once
  printf "%s\n" C01 C02 C03 C04 C05 C06 C07 C08 C09 C10 C11 C12 C13 C14 C15 C16 C17 C18 C19 C20 | \
    xargs -P 4 -I{} sh -c 'o=$(./check {} --tier quick 2>&1); rc=$?; echo "'$n' {} exit=$rc violations=$(echo "$o" | grep -c "^VIOLATION")"' >> $out
  git -C $R checkout -q -- .
done
git -C $R status --short >> $out
echo done >> $out

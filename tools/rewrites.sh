#!/bin/bash
# False-alarm test: apply each behaviour-preserving rewrite of /repo (seeded/rewrites/R*.diff), run every
# quick check, revert.  Every check must pass on every rewrite.
cd /verif
out=${1:-/verif/build/rewrites.log}
: > $out
for d in seeded/rewrites/R*.diff; do
  n=$(basename $d .diff)
  git -C /repo checkout -q -- . && git -C /repo apply /verif/$d || { echo "$n apply-failed" >> $out; continue; }
  for p in C01 C02 C03 C04 C05 C06 C07 C08 C09 C10 C11 C12 C13 C14 C15 C16 C17 C18 C19 C20; do
    r=$(./check $p --tier quick 2>&1 | grep -c "^VIOLATION")
    rc=${PIPESTATUS[0]}
    echo "$n $p violations=$r" >> $out
  done
  git -C /repo checkout -q -- .
done
git -C /repo status --short >> $out
echo done >> $out

#!/bin/bash
# unchanged-tree sweep over several seeds; prints only lines that matter
./check setup >/dev/null 2>&1 || { echo "setup failed"; exit 2; }
tier=${1:-quick}; shift
seeds=${@:-2 3 4 5}
for s in $seeds; do
  for p in C01 C02 C03 C04 C05 C06 C07 C08 C09 C10 C11 C12 C13 C14 C15 C16 C17 C18 C19 C20; do
    out=$(VERIF_SEED=$s ./check $p --tier $tier 2>&1); rc=$?
    echo "seed=$s $p rc=$rc $(echo "$out" | grep -v '^KNOWN' | tail -1)"
    echo "$out" | grep -E "VIOLATION|ERROR" 
  done
done

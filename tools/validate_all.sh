#!/bin/bash
cd /verif
tools/sweep.sh quick 1 2 3 > build/sweep_q123.log 2>&1
(for d in seeded/C*; do m=$(basename $d); python3 tools/mutants.py run $m 2>&1 | grep -v "^WARNING" | tail -1 | cut -c1-140; done) > build/runall.log 2>&1
tools/rewrites.sh build/rewrites.log > /dev/null 2>&1
tools/sweep.sh thorough 1 > build/thorough1.log 2>&1
echo finished > build/master.done

#!/bin/bash
# For each seeded change given (default: all), apply it in a scratch worktree and report what the regenerated tie
# (translator + equivalence modules) says, without running any correspondence: ok / untranslatable / failed per module.
cd "$(dirname "$0")/.."
WT=/tmp/gentie-wt-$$
git -C /repo worktree add -q --detach $WT HEAD || exit 2
for d in ${@:-seeded/C*}; do
  m=$(basename $d .diff)
  pf=$PWD/seeded/$m/patch.diff
  case $d in *.diff) pf=$PWD/$d;; esac
  git -C $WT checkout -q -- . && git -C $WT apply $pf || { echo "$m apply-failed"; continue; }
  VERIF_REPO=$WT python3 - <<PY
import importlib.machinery, importlib.util, json, sys
l = importlib.machinery.SourceFileLoader("chk", "$PWD/check")
spec = importlib.util.spec_from_loader("chk", l); chk = importlib.util.module_from_spec(spec); l.exec_module(chk)
try:
    c = chk.lean_build_and_audit()
    print("$m", " ".join("%s=%s" % (k.split(".")[-1], v["status"]) for k, v in c["gen"].items() if v["status"] != "ok") or "all-ok")
except Exception as e:
    print("$m", "ERROR", str(e)[:200])
PY
done
git -C /repo worktree remove --force $WT
# leave /verif/lean/SignalGen/Generated.lean as the clean tree defines it
python3 - <<PY
import importlib.machinery, importlib.util
l = importlib.machinery.SourceFileLoader("chk", "$PWD/check")
spec = importlib.util.spec_from_loader("chk", l); chk = importlib.util.module_from_spec(spec); l.exec_module(chk)
chk.lean_build_and_audit()
PY

#!/usr/bin/python3
"""Regenerates /verif/MANIFEST.json from lean/obligations.json and the per-property table below."""
import json, os, subprocess
ROOT = os.path.dirname(os.path.dirname(os.path.abspath(__file__)))
obl = json.load(open(os.path.join(ROOT, "lean/obligations.json")))
regen = json.load(open(os.path.join(ROOT, "lean/regenerated.json")))
REGEN = {}
for mod, ms in regen["modules"].items():
    for p in ms["properties"]:
        REGEN.setdefault(p, []).append((mod, [n for n in ms["needs"]]))

HOOK_COMMITS = ["8271f3e"]

TEXT = {
 "C01": ("Lean theorems about the model's Write/Read/WriteStriped/ReadStriped (closed forms of what is stored/returned, frame conditions, round trips) for every shape and length; the model is tied to /repo by replaying generated operation transcripts of the real code (all 169 kind pairs) on it.", "5/C01"),
 "C02": ("Lean theorems about the model's Slice: closed form, panics exactly outside 0<=start<=end<=Capacity for every int argument (64-bit wrap modelled), shape, storage identity, composition; tie: transcript replay of real Slice calls incl. overflow arguments and nested slices.", "5/C02"),
 "C03": ("Lean theorems about the model's Append for every admissible growth capacity (contents, length, aligned capacity, in place vs fresh block, self-append); tie: transcript replay with window destinations, sibling views over spare capacity, self-append.", "5/C03"),
 "C04": ("Lean theorems: one-step behaviour of AppendSample and an invariant by induction over any number of calls (storage identity, capacity, saturation, write window); tie: transcript replay with alias views.", "5/C04"),
 "C05": ("Lean theorems about the generic conversion loop (prefix, frame, return value) for any per-sample kernel, and about float-to-float (exact / nearest / no clip); tie: transcript replay of all 169 instantiations.", "5/C05"),
 "C06": ("Lean theorems for all 121 integer kind pairs and all sample values at once: closed form of the wrapped kernels, order preservation, reference levels; tie: kernel transcripts (8-bit exhaustive, boundary-dense 16/32/64-bit) replayed on the model.", "5/C06"),
 "C07": ("Lean theorems for all 121 integer kind pairs: neighbour rounding when narrowing, identity at equal depth, widen-then-narrow round trip; tie: kernel and round-trip transcripts.", "5/C07"),
 "C08": ("Lean theorems about the float-to-fixed kernels over an executable IEEE-754 model (clipping, zero, monotonicity, one-step accuracy); tie: kernel transcripts compared bit-exactly with the soft-float model.", "5/C08"),
 "C09": ("Lean theorems about the fixed-to-float kernels (range, endpoints, order, accuracy, injectivity/round trip where true); known finding for UnsignedAsFloat; tie: kernel + round-trip transcripts.", "5/C09"),
 "C10": ("Lean theorem: an inductive invariant of the pool state machine over all get/use/put histories gives freshness of every Get; tie: pool history transcripts with sync.Pool's choices resolved by observation and validated.", "5/C10"),
 "C11": ("Lean theorem over all schedules of the goroutine-tagged pool machine (exclusive ownership, fresh buffers); partial: sync.Pool linearisability and the Go memory model are sampled with the race detector, not proved.", "5/C11"),
 "C12": ("Lean theorems: well-formedness invariant of views preserved by every operation over unbounded histories, exact visibility of stores (visible_iff), isolation after growth; tie: bounded-exhaustive and random history transcripts, every live view compared after every step.", "5/C12"),
 "C13": ("Lean theorems about Alloc (shape, zero, fresh block, depth table for all 13 kinds incl. named types); tie: transcript replay over 26 instantiations.", "5/C13"),
 "C14": ("Lean theorems about the channel view (index, read, write-one-cell, read-back, shape, non-aliasing of channels); tie: transcript replay over every channel and index.", "5/C14"),
 "C15": ("Lean theorems: each guarded entry point returns the panic with the input heap, i.e. nothing was stored before the guard; tie: malformed-stream transcripts with full dumps.", "5/C15"),
 "C16": ("Lean theorems: complete 64-row table of the three bounds by kernel evaluation, clamp algebra for all values, Scale for all depth pairs and integer types; tie: transcript replay of the real functions.", "5/C16"),
 "C17": ("Lean theorems about Frequency over the executable IEEE-754 model; tie: transcripts compared bit-exactly.", "5/C17"),
 "C18": ("Lean theorem: the model's heap-object accounting of every steady-state operation is zero (Slice: one header); partial: the compiler/runtime side is measured (AllocsPerRun <= model count).", "5/C18"),
 "C19": ("Lean theorem: operations with disjoint write footprints commute, so every interleaving equals the sequential run; partial: that the real functions touch no more than the modelled footprint is sampled with the race detector.", "5/C19"),
 "C20": ("Lean theorems: zero-channel / zero-capacity / zero-length buffers are inert through every entry point of the model; tie: degenerate-allocator transcripts.", "5/C20"),
}
PENDING = "correspondence check exists and passes; the property's theorems are still being written, so it is not claimed yet"

checks, na = [], []
for i in range(1, 21):
    pid = "C%02d" % i
    o = obl.get(pid)
    if not o or not o.get("theorems"):
        na.append({"property_id": pid, "reason": PENDING})
        continue
    partial = o.get("partial") or []
    nim = o.get("not_in_model") or []
    note = "Trusted: Lean 4.33 kernel; axioms propext, Classical.choice, Quot.sound only (audited on every run); the hand-written model of Go semantics; the Go harness and Lean driver of the correspondence run, which samples."
    if nim:
        note += " Not in the model: " + "; ".join(nim) + "."
    if partial:
        note += " Partial theorems: " + "; ".join(partial) + "."
    technique = "machine-checked Lean 4 proof about a hand-written model + differential correspondence check of model against /repo"
    text = TEXT[pid][0]
    if pid in REGEN or pid in regen.get("skeleton_properties", {}):
        fns = sorted({f for _, ns in REGEN.get(pid, []) for f in ns})
        text += " Regenerated tie: on every run harness/go2lean translates " + (", ".join(fns) if fns else "the conversion functions' skeleton") + " from the current Go source to Lean and the theorems of " + ", ".join(m for m, _ in REGEN.get(pid, [])) + " prove the regenerated definitions equal to the model for all inputs" + (" (the conversions' skeleton - guard first, min length, early return, canonical loop, return value - is recognised by the translator)" if pid in regen.get("skeleton_properties", {}) else "") + "."
        technique = "machine-checked Lean 4 proof about a hand-written model, tied to /repo twice: definitions regenerated from the Go source by a translator and proved equal to the model on every run + differential correspondence check of model against /repo"
        note += " The translator (harness/go2lean) is trusted for the functions it translates; a function outside its fragment falls back on the correspondence run alone (escalated), a translated function that is no longer provably equal to the model is a broken proof obligation."
    checks.append({
        "property_id": pid,
        "quick_cmd": "./check %s --tier quick" % pid,
        "thorough_cmd": "./check %s --tier thorough" % pid,
        "evidence_file": "/verif/evidence/%s.json" % pid,
        "replay_cmd_template": "./check replay {path}",
        "engine": "lean4-proof+correspondence",
        "level_claimed": {"category": "proof", "text": text, "design_ref": TEXT[pid][1]},
        "level_note": note,
        "technique": technique,
    })

m = {
 "version": 1,
 "setup_cmd": "./check setup",
 "hooks": {
  "guard": "verif",
  "enable": "go build -tags verif (the harness module replaces pipelined.dev/signal with /repo)",
  "baseline_off_cmd": "cd /repo && go test -mod=mod -json -vet=off -count=1 -timeout 25m ./...",
  "source_commits": HOOK_COMMITS,
  "add_only": True,
 },
 "engines": [
  {"name": "lean4-proof+correspondence", "path": "/verif/check",
   "serves_properties": [c["property_id"] for c in checks],
   "kind_free_text": "Lean 4 theorems about a hand-written executable model (lean/SignalModel, proofs in lean/SignalProofs); Go->Lean translator (harness/go2lean) regenerating the numeric core into lean/SignalGen/Generated.lean with equivalence theorems in lean/SignalGen/Eq; Go harness (harness/corr) runs the real code and the compiled Lean driver replays its transcript on the model and evaluates the property predicates on the implementation's observations"},
 ],
 "checks": checks,
 "not_applicable": na,
 "notes": "See DESIGN.md. known_findings.jsonl lists the one known finding (C09, UnsignedAsFloat) and the repaired defects.",
}
json.dump(m, open(os.path.join(ROOT, "MANIFEST.json"), "w"), indent=1)
print("claimed:", [c["property_id"] for c in checks], "pending:", [n["property_id"] for n in na])

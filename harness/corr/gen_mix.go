package main

// Mixed histories and prepared buffers.
//
// The seeded changes of the eighth generation keep a little hidden state (a flag, a cached value, a
// high-water mark) that one function maintains and another forgets; they manifest only in histories
// that route data through the forgetting function.  Two generators answer that class as a whole:
//
//   genMix           random histories over the WHOLE API on one small world (allocations, windows also
//                    into the spare capacity, all writers, channel views, both appends, all nine
//                    conversions between live views, readers, a pool with gets / puts of buffers,
//                    windows and foreign buffers, GC) - every step is replayed on the model and every
//                    live view is compared over its whole capacity;
//   preparedCheck    the kernel sequences of C05-C09 re-run through source and destination buffers that
//                    reached their contents by different routes (windows taken before or after the
//                    parent was written, writers, channel views, single-sample appends, Append,
//                    a conversion followed by Append, recycled pool buffers); a result may depend only
//                    on the sample, so any difference from the plain run is handed to the model.

import (
	"fmt"
	"math"
	"runtime"
	"strings"
	"sync"

	"pipelined.dev/signal"
)

func mixVal(r *Rng, k Kind) uint64 {
	if k.IsFloat() {
		fs := []float64{0.5, -0.5, 0.25, -0.25, 1, -1, 1.5, -2.5, 0, 0.75, -0.125, 3}
		return floatCell(fs[r.Intn(len(fs))], k)
	}
	n := r.Range(1, 100)
	if k.IsSigned() && r.Bool() {
		n = -n
	}
	if r.Intn(8) == 0 {
		n = 0
	}
	return small(k, n)
}

func mixVals(r *Rng, k Kind, n int) []uint64 {
	out := make([]uint64, n)
	for i := range out {
		out[i] = mixVal(r, k)
	}
	return out
}

// blkOf: the storage block of a view (-1 for a view without storage)
func (w *World) blkOf(v int) int {
	b := w.views[v]
	if b == nil {
		return -1
	}
	ptr, cells, _ := b.Raw()
	if len(cells) == 0 {
		return -1
	}
	i, _, ok := w.findBlock(ptr)
	if !ok {
		return -1
	}
	return i
}

func genMix(w *World, r *Rng, tier string, tag string) {
	reps, steps := 50, 18
	if tier == "thorough" {
		reps, steps = 500, 32
	}
	defer func() { chanViewMode = 0 }()
	for rep := 0; rep < reps; rep++ {
		ka := r.Kind()
		kb := ka
		if r.Intn(3) != 0 {
			kb = r.Kind()
		}
		ch := r.Range(1, 3)
		chanViewMode = rep % 3
		w.Case(fmt.Sprintf("%s mix %s %s ch%d cv%d", tag, ka, kb, ch, chanViewMode))
		w.st.shape("mix/ch%d/%v/%v", ch, ka.IsFloat(), kb.IsFloat())
		K := r.Range(1, 6)
		PL := r.Range(0, K)
		pool := w.Pool(ka, ch, PL, K)
		blocked := map[int]bool{} // storage blocks handed back to the pool: not to be touched
		held := []int{}           // buffers obtained from the pool and not put back
		usable := func(v int) bool {
			if v < 0 || v >= len(w.views) || w.views[v] == nil {
				return false
			}
			b := w.blkOf(v)
			return b < 0 || !blocked[b]
		}
		live := func(k Kind, any bool) []int {
			var out []int
			for v := range w.views {
				if usable(v) && (any || w.views[v].Kind() == k) {
					out = append(out, v)
				}
			}
			return out
		}
		pick := func(vs []int) int {
			if len(vs) == 0 {
				return -1
			}
			return vs[r.Intn(len(vs))]
		}
		a0 := w.Alloc(ka, false, ch, r.Range(0, K), K)
		w.Alloc(kb, false, ch, r.Range(0, K+1), K+1)
		if r.Bool() {
			fillAll(w, a0, rep)
		}
		for s := 0; s < steps; s++ {
			if len(w.views) > 14 {
				break
			}
			v := pick(live(0, true))
			if v < 0 {
				break
			}
			b := w.views[v]
			k := b.Kind()
			switch x := r.Intn(100); {
			case x < 14: // window, also into the spare capacity and empty
				c := b.Capacity()
				s0 := r.Range(0, c)
				e0 := r.Range(s0, c)
				w.Slice(v, s0, e0)
			case x < 24:
				w.Write(v, k, mixVals(r, k, lenChoice(r, b.Len())))
			case x < 30:
				cols := make([][]uint64, b.Channels())
				for c := range cols {
					if r.Intn(5) != 0 {
						cols[c] = mixVals(r, k, lenChoice(r, b.Length()))
					}
				}
				w.WriteStriped(v, k, cols)
			case x < 38:
				if b.Len() > 0 {
					w.Set(v, r.Intn(b.Len()), mixVal(r, k))
				}
			case x < 46:
				if b.Length() > 0 && b.Channels() > 0 {
					c := r.Intn(b.Channels())
					i := r.Intn(b.Length())
					if b.Channels()*i+c < b.Len() {
						w.ChanSet(v, c, i, mixVal(r, k))
						w.ChanGet(v, c, i)
					}
				}
			case x < 56:
				n := r.Range(1, 3)
				for i := 0; i < n; i++ {
					w.AppendSample(v, mixVal(r, k))
				}
			case x < 64: // append: another live view of the kind, itself, or a fresh buffer
				var src int
				switch r.Intn(4) {
				case 0:
					src = v
				case 1:
					fr := r.Range(0, 3)
					src = w.Alloc(k, false, b.Channels(), fr, fr+r.Intn(2))
					if src >= 0 {
						w.Write(src, k, mixVals(r, k, w.views[src].Len()))
					}
				default:
					src = pick(live(k, false))
				}
				if src >= 0 && usable(src) && w.views[src].Len() <= 24 {
					w.Append(v, src)
				}
			case x < 78: // one of the nine conversions between two live views
				d := pick(live(0, true))
				if d >= 0 {
					w.Conv(v, d)
				}
			case x < 81:
				w.Read(v, k, mixVals(r, k, lenChoice(r, b.Len())))
			case x < 84:
				cols := make([][]uint64, b.Channels())
				for c := range cols {
					cols[c] = mixVals(r, k, lenChoice(r, b.Length()))
				}
				w.ReadStriped(v, k, cols)
			case x < 91:
				if len(held) < 3 {
					g := w.PGet(pool)
					if g >= 0 {
						held = append(held, g)
						if bl := w.blkOf(g); bl >= 0 {
							delete(blocked, bl)
						}
					}
				}
			case x < 98:
				// put: a held buffer, a window of it from frame 0, a window not from frame 0 (rejected),
				// or a foreign buffer (rejected unless its total capacity happens to match)
				if len(held) == 0 {
					continue
				}
				hi := r.Intn(len(held))
				h := held[hi]
				if !usable(h) {
					continue
				}
				pv := h
				switch r.Intn(5) {
				case 0:
					pv = w.Slice(h, 0, r.Range(0, w.views[h].Capacity()))
				case 1:
					if w.views[h].Capacity() >= 1 {
						pv = w.Slice(h, 1, w.views[h].Capacity())
					}
				case 2:
					pv = w.Alloc(ka, false, 1, 0, maxInt(0, ch*K-r.Range(1, ch)))
				}
				if pv < 0 {
					continue
				}
				bl := w.blkOf(pv)
				if p := w.PPut(pool, pv); p == "" {
					if bl >= 0 {
						blocked[bl] = true
					}
					if w.blkOf(h) == bl || pv == h {
						held = append(held[:hi], held[hi+1:]...)
					}
				}
			default:
				w.GC()
			}
		}
	}
}

// ---------------------------------------------------------------------------------------------------
// prepared buffers for the kernel sequences

const nPrepPaths = 12

// prepBuf builds a buffer of kind k that holds vals (len(vals) samples, one channel unless the path
// says otherwise), reaching that content by route `path`. The caller reads the samples back: route 8
// leaves the outputs of a conversion in the first half.
func prepBuf(r *Rng, k Kind, vals []uint64, path int) DynBuf {
	n := len(vals)
	switch path {
	case 1: // window taken while the parent is still all zero, values stored through the parent
		pad := 1 + r.Intn(3)
		parent := Alloc(k, false, signal.Allocator{Channels: 1, Length: n + 2*pad, Capacity: n + 2*pad})
		win := parent.Slice(pad, pad+n)
		for i, v := range vals {
			parent.SetSample(pad+i, v)
		}
		return win
	case 2: // window taken after the parent was written
		pad := 1 + r.Intn(3)
		parent := Alloc(k, false, signal.Allocator{Channels: 1, Length: n + 2*pad, Capacity: n + 2*pad})
		for i := 0; i < n+2*pad; i++ {
			parent.SetSample(i, stalePatternAt(k, i))
		}
		for i, v := range vals {
			parent.SetSample(pad+i, v)
		}
		return parent.Slice(pad, pad+n)
	case 3: // interleaved writer
		b := Alloc(k, false, signal.Allocator{Channels: 1, Length: n, Capacity: n})
		writeCall(k, k)(NewSlice(k, vals, false), b)
		return b
	case 4: // striped writer
		b := Alloc(k, false, signal.Allocator{Channels: 1, Length: n, Capacity: n})
		writeStripedCall(k, k)([]DynSlice{NewSlice(k, vals, false)}, b)
		return b
	case 5: // channel view
		b := Alloc(k, false, signal.Allocator{Channels: 1, Length: n, Capacity: n})
		for i, v := range vals {
			b.ChanSet(0, i, v)
		}
		return b
	case 6: // single-sample appends into the spare capacity
		b := Alloc(k, false, signal.Allocator{Channels: 1, Length: 0, Capacity: n})
		for _, v := range vals {
			b.AppendSample(v)
		}
		return b
	case 7: // Append of another buffer (growing)
		b := Alloc(k, false, signal.Allocator{Channels: 1, Length: 0, Capacity: 0})
		o := Alloc(k, false, signal.Allocator{Channels: 1, Length: n, Capacity: n})
		for i, v := range vals {
			o.SetSample(i, v)
		}
		b.Append(o)
		return b
	case 8: // a conversion covers the whole buffer, then Append brings the second half
		h := n / 2
		b := Alloc(k, false, signal.Allocator{Channels: 1, Length: h, Capacity: n})
		var first DynBuf
		if k.IsFloat() {
			first = Alloc(I16, false, signal.Allocator{Channels: 1, Length: h, Capacity: h})
			for i := 0; i < h; i++ {
				first.SetSample(i, small(I16, (i%7-3)*1000))
			}
		} else {
			first = Alloc(k, false, signal.Allocator{Channels: 1, Length: h, Capacity: h})
			for i := 0; i < h; i++ {
				first.SetSample(i, vals[i])
			}
		}
		if h > 0 {
			convCall(first.Kind(), k)(first, b)
		}
		o := Alloc(k, false, signal.Allocator{Channels: 1, Length: n - h, Capacity: n - h})
		for i := h; i < n; i++ {
			o.SetSample(i-h, vals[i])
		}
		b.Append(o)
		return b
	case 9: // a pool buffer that was written through a channel view, put back and handed out again
		p := NewPool(k, signal.Allocator{Channels: 1, Length: n, Capacity: n})
		g := p.Get()
		for i := 0; i < n; i++ {
			g.ChanSet(0, i, stalePatternAt(k, i+1))
		}
		p.Put(g)
		g = p.Get()
		for i, v := range vals {
			g.SetSample(i, v)
		}
		return g
	case 10: // an EMPTY window (Slice(p, p)) refilled by single-sample appends: shape and bit depth come from Slice
		pad := r.Intn(3)
		parent := Alloc(k, false, signal.Allocator{Channels: 1, Length: pad, Capacity: pad + n})
		win := parent.Slice(pad, pad)
		for _, v := range vals {
			win.AppendSample(v)
		}
		return win
	case 11: // an empty window refilled by an in-place Append
		pad := r.Intn(3)
		parent := Alloc(k, false, signal.Allocator{Channels: 1, Length: pad + n, Capacity: pad + n})
		win := parent.Slice(pad, pad)
		o := Alloc(k, false, signal.Allocator{Channels: 1, Length: n, Capacity: n})
		for i, v := range vals {
			o.SetSample(i, v)
		}
		win.Append(o)
		return win
	}
	b := Alloc(k, false, signal.Allocator{Channels: 1, Length: n, Capacity: n})
	for i, v := range vals {
		b.SetSample(i, v)
	}
	return b
}

var prepCounter int

// overlappedCheck: source and destination are windows of ONE parent, the destination starting one sample before
// the source. The conversion loop reads sample i before it writes position i, so every result is still the kernel
// of the sample the source held before the call (same kind only); a loop that runs from the top, or in blocks,
// reads samples it has already overwritten.
func (g *Kern) overlappedCheck(k Kind, xs, ys []uint64) {
	n := len(xs)
	if n < 3 || n > 40 {
		return
	}
	parent := Alloc(k, false, signal.Allocator{Channels: 1, Length: n + 1, Capacity: n + 1})
	parent.SetSample(0, stalePattern(k))
	for i, x := range xs {
		parent.SetSample(i+1, x)
	}
	src, dst := parent.Slice(1, n+1), parent.Slice(0, n)
	if p := try(func() { convCall(k, k)(src, dst) }); p != "" {
		fmt.Fprintf(g.out, "kpanic %s %s %s overlapping-windows %s\n", convName(k, k), k, k, strings.ReplaceAll(p, " ", "_"))
		g.st.lines++
		return
	}
	differs := false
	out := make([]uint64, n)
	for i := range out {
		out[i] = dst.Sample(i)
		if out[i] != ys[i] {
			differs = true
		}
	}
	g.st.branch("overlapped-windows-run")
	if !differs {
		return
	}
	g.st.branch("overlapped-windows-differ")
	fmt.Fprintf(g.out, "kseq %s %s %s\n", convName(k, k), k, k)
	for i := range xs {
		if k.IsFloat() && math.IsNaN(cellToFloat(xs[i], k)) {
			continue
		}
		fmt.Fprintf(g.out, "k %s %s\n", cellString(xs[i], k), cellString(out[i], k))
	}
	g.st.lines += n + 1
}

// preparedCheck re-runs a kernel sequence through prepared source and destination buffers. Where the
// source holds exactly xs the result must equal the plain run ys; otherwise (route 8) the pairs are
// emitted as they are. Differences and route-8 runs go to the model as kernel sequences.
func (g *Kern) preparedCheck(sk, dk Kind, xs, ys []uint64) {
	n := len(xs)
	if n < 2 || n > 40 {
		return
	}
	if sk == dk {
		g.overlappedCheck(sk, xs, ys)
	}
	r := &Rng{s: uint64(prepCounter)*7919 + 17}
	for t := 0; t < 3; t++ {
		prepCounter++
		ps := prepCounter % nPrepPaths
		pd := (prepCounter / nPrepPaths) % nPrepPaths
		var src, dst DynBuf
		stale := make([]uint64, n)
		for i := range stale {
			stale[i] = stalePatternAt(dk, i)
		}
		var p string
		p = try(func() {
			src = prepBuf(r, sk, xs, ps)
			dst = prepBuf(r, dk, stale, pd)
		})
		if p != "" || src == nil || dst == nil || src.Len() != n || dst.Len() != n {
			fmt.Fprintf(g.out, "kpanic %s %s %s prepared-src%d-dst%d %s\n", convName(sk, dk), sk, dk, ps, pd, strings.ReplaceAll(p+"_or_wrong_length", " ", "_"))
			g.st.lines++
			continue
		}
		in := make([]uint64, n)
		same := true
		for i := range in {
			in[i] = src.Sample(i)
			if in[i] != xs[i] {
				same = false
			}
		}
		if p := try(func() { convCall(sk, dk)(src, dst) }); p != "" {
			fmt.Fprintf(g.out, "kpanic %s %s %s prepared-src%d-dst%d %s\n", convName(sk, dk), sk, dk, ps, pd, strings.ReplaceAll(p, " ", "_"))
			g.st.lines++
			continue
		}
		out := make([]uint64, n)
		differs := !same
		for i := range out {
			out[i] = dst.Sample(i)
			if same && out[i] != ys[i] {
				differs = true
			}
		}
		g.st.Branches[fmt.Sprintf("prepared-src%d", ps)]++
		if !differs {
			continue
		}
		g.st.branch("prepared-run-emitted")
		fmt.Fprintf(g.out, "kseq %s %s %s\n", convName(sk, dk), sk, dk)
		for i := range in {
			if sk.IsFloat() && math.IsNaN(cellToFloat(in[i], sk)) {
				continue
			}
			fmt.Fprintf(g.out, "k %s %s\n", cellString(in[i], sk), cellString(out[i], dk))
		}
		g.st.lines += n + 1
	}
}

// genC10Routes: get a buffer, dirty it through exactly ONE route (nothing else touches it), put it back,
// get again: whatever the route, the buffer handed out next is fresh. A change that tracks dirtiness in
// some store paths and forgets another is invisible as soon as a second route is used.
func genC10Routes(w *World, r *Rng, tier string) {
	reps := 2
	if tier == "thorough" {
		reps = 12
	}
	defer func() { chanViewMode = 0 }()
	for rep := 0; rep < reps; rep++ {
		for route := 0; route < 12; route++ {
			k := r.Kind()
			ch := r.Range(1, 3)
			K := r.Range(2, 5)
			L := r.Range(1, K)
			if route >= 7 {
				L = r.Range(0, K-1) // routes through the spare capacity need some
			}
			chanViewMode = (rep + route) % 3
			w.Case(fmt.Sprintf("C10 route%d %s ch%d L%d K%d", route, k, ch, L, K))
			p := w.Pool(k, ch, L, K)
			g := w.PGet(p)
			if g < 0 {
				continue
			}
			b := w.views[g]
			switch route {
			case 0:
				if b.Len() > 0 {
					w.Set(g, r.Intn(b.Len()), mixVal(r, k)|1)
				}
			case 1:
				if b.Length() > 0 {
					w.ChanSet(g, r.Intn(ch), r.Intn(b.Length()), small(k, 77))
				}
			case 2:
				w.Write(g, k, mixVals(r, k, b.Len()))
			case 3:
				cols := make([][]uint64, ch)
				for c := range cols {
					cols[c] = mixVals(r, k, b.Length())
				}
				w.WriteStriped(g, k, cols)
			case 4: // destination of a conversion
				src := w.Alloc(k, false, ch, b.Length(), b.Length())
				w.Write(src, k, mixVals(r, k, w.views[src].Len()))
				w.Conv(src, g)
				w.Drop(src)
			case 5: // written through a window inside the length
				if b.Length() > 0 {
					win := w.Slice(g, 0, b.Length())
					if win >= 0 {
						w.Write(win, k, mixVals(r, k, w.views[win].Len()))
						w.Drop(win)
					}
				}
			case 6: // destination of a conversion through a window
				if b.Length() > 0 {
					win := w.Slice(g, 0, b.Length())
					src := w.Alloc(k, false, ch, b.Length(), b.Length())
					w.Write(src, k, mixVals(r, k, w.views[src].Len()))
					if win >= 0 {
						w.Conv(src, win)
						w.Drop(win)
					}
					w.Drop(src)
				}
			case 7:
				for i := 0; i < 1+r.Intn(ch*(K-L)); i++ {
					w.AppendSample(g, small(k, 55+i))
				}
			case 8: // Append within the capacity
				src := w.Alloc(k, false, ch, K-L, K-L)
				w.Write(src, k, mixVals(r, k, w.views[src].Len()))
				w.Append(g, src)
				w.Drop(src)
			case 9: // a window reaching into the spare capacity, written; the parent's length stays
				win := w.Slice(g, b.Length(), K)
				if win >= 0 {
					w.Write(win, k, mixVals(r, k, w.views[win].Len()))
					w.Drop(win)
				}
			case 11:
				// the caller keeps only a WINDOW of the buffer and drops the buffer itself (never put back); after
				// a collection the window still reads what was written, and the pool hands out other storage
				win := w.Slice(g, 0, K)
				if win >= 0 {
					w.Write(win, k, mixVals(r, k, w.views[win].Len()))
					w.Drop(g)
					w.GC()
					w.GC()
					g2 := w.PGet(p)
					if g2 >= 0 {
						w.Write(g2, k, mixVals(r, k, w.views[g2].Len()))
					}
					w.GC()
					w.PGet(p)
				}
				continue
			case 10: // single-sample appends through a window at the end of the length
				win := w.Slice(g, b.Length(), b.Length())
				if win >= 0 {
					for i := 0; i < ch*(K-L); i++ {
						w.AppendSample(win, small(k, 33+i))
					}
					w.Drop(win)
				}
			}
			w.PPut(p, g)
			w.PGet(p)
			w.PGet(p)
		}
	}
}

// ---------------------------------------------------------------------------------------------------
// genBigRef: Append on buffers far larger than a transcript can carry, judged against plain Go slices.
// C12 is worded against "a reference model built from plain Go slices" and C03 as "old contents
// followed by the source's": here that reference is literally `append` on a []uint64 with the same
// aliasing between destination and source. One `goref` line per scenario; a mismatch is a concrete
// failing input (kind, shape, window, position), no model involved.
func genBigRef(g *Kern, r *Rng, tier string) {
	type sc struct {
		k        Kind
		ch, L, K int // frames
		a, n     int // source window [a, a+n) frames of the destination's storage; n < 0: separate buffer of -n frames
		self     bool
	}
	var list []sc
	for _, tot := range []int{1<<16 + 5, 1<<20 + 1<<19, 4 << 20} {
		for _, ch := range []int{1, 2} {
			K := tot / ch
			k := []Kind{I8, I16, F32, U8}[(tot+ch)%4]
			if tot >= 4<<20 {
				k = I8
			}
			list = append(list,
				sc{k, ch, 100, K, 50, 3 * K / 8, false},    // overlapping source: starts inside, reaches far beyond
				sc{k, ch, K / 3, K, K/3 - 7, K / 2, false}, // overlapping, long destination
				sc{k, ch, K / 4, K, 0, -(K / 2), false},    // separate source, in place
				sc{k, ch, K / 2, K, 0, -(K/2 + 9), false},  // separate source, has to grow
				sc{k, ch, K/2 - 3, K, 0, 0, true},          // self append, in place
			)
		}
	}
	if tier != "thorough" {
		// quick: every scenario kind once per size, alternating channel counts
		var q []sc
		for i, s := range list {
			if (i/5)%2 == (i%5)%2 {
				q = append(q, s)
			}
		}
		list = q
	}
	for _, s := range list {
		total := s.ch * s.K
		val := func(i int) uint64 {
			if s.k.IsFloat() {
				return floatCell(float64(i*7%251-125), s.k)
			}
			return normCell(uint64(int64(i*7%251-125)), s.k)
		}
		backing := make([]uint64, total)
		base := Alloc(s.k, false, signal.Allocator{Channels: s.ch, Length: s.L, Capacity: s.K})
		full := base.Slice(0, s.K)
		for i := 0; i < total; i++ {
			backing[i] = val(i)
			full.SetSample(i, backing[i])
		}
		refDst := backing[: s.L*s.ch : total]
		var src DynBuf
		var refSrc []uint64
		desc := ""
		switch {
		case s.self:
			src, refSrc = base, refDst
			desc = "self"
		case s.n < 0:
			m := -s.n
			src = Alloc(s.k, false, signal.Allocator{Channels: s.ch, Length: m, Capacity: m})
			refSrc = make([]uint64, m*s.ch)
			for i := range refSrc {
				refSrc[i] = val(i + 13)
				src.SetSample(i, refSrc[i])
			}
			desc = fmt.Sprintf("separate[%d]", m)
		default:
			src = base.Slice(s.a, s.a+s.n)
			refSrc = backing[s.a*s.ch : (s.a+s.n)*s.ch]
			desc = fmt.Sprintf("window[%d,%d)", s.a, s.a+s.n)
		}
		oldCap := base.Cap()
		refDst = append(refDst, refSrc...) // plain Go slices
		label := fmt.Sprintf("kind=%s ch=%d L=%d K=%d src=%s", s.k, s.ch, s.L, s.K, desc)
		if p := try(func() { base.Append(src) }); p != "" {
			fmt.Fprintf(g.out, "goref C03,C12 append-equals-plain-slices mismatch %s panic=%s\n", label, strings.ReplaceAll(p, " ", "_"))
			g.st.lines++
			continue
		}
		bad := ""
		if base.Len() != len(refDst) {
			bad = fmt.Sprintf("len got=%d want=%d", base.Len(), len(refDst))
		}
		for i := 0; bad == "" && i < len(refDst); i++ {
			if base.Sample(i) != refDst[i] {
				bad = fmt.Sprintf("pos=%d got=%s want=%s", i, cellString(base.Sample(i), s.k), cellString(refDst[i], s.k))
			}
		}
		if bad == "" && base.Cap() == oldCap && len(refDst) <= total {
			// in place: the shared storage is exactly what plain slices leave behind
			for i := 0; i < total; i++ {
				if full.Sample(i) != backing[i] {
					bad = fmt.Sprintf("storage pos=%d got=%s want=%s", i, cellString(full.Sample(i), s.k), cellString(backing[i], s.k))
					break
				}
			}
		}
		if bad == "" && (base.Cap() < base.Len() || base.Cap()%s.ch != 0) {
			bad = fmt.Sprintf("cap=%d len=%d", base.Cap(), base.Len())
		}
		st := "ok"
		if bad != "" {
			st = "mismatch"
		}
		fmt.Fprintf(g.out, "goref C03,C12 append-equals-plain-slices %s %s %s\n", st, label, bad)
		g.st.lines++
		g.st.cases++
		g.st.Branches["goref-"+st]++
		g.st.Shapes[fmt.Sprintf("goref/%s/ch%d/total%d", desc[:4], s.ch, total)]++
	}
}

// genManyAllocs: a long run of small allocations of one multi-byte element type, every buffer checked when it is
// made (shape, zero over the whole capacity) and filled with its own stamp; the last 48 are re-read after each new
// allocation. Allocators that carve small buffers out of shared chunks go wrong at a chunk boundary, far from the
// first call. One `goref` line per run.
func genManyAllocs(g *Kern, r *Rng, tier string) {
	runs := []struct {
		k        Kind
		ch, L, K int
		n        int
	}{{I32, 2, 3, 5, 6000}, {F64, 1, 2, 2, 9000}, {I16, 3, 1, 4, 12000}, {U8, 2, 8, 8, 20000}, {I64, 4, 2, 2, 5000}}
	if tier == "thorough" {
		for i := range runs {
			runs[i].n *= 8
		}
	}
	// single large allocations around the sizes at which allocators change strategy (32 KiB, 64 KiB, 1 MiB, 4 MiB),
	// none a multiple of a page: exactly the requested shape, zero over the whole capacity
	for _, bytes := range []int{32<<10 - 24, 32<<10 + 8, 40000, 64<<10 + 40, 1<<20 + 72, 4<<20 + 136} {
		for _, k := range []Kind{F64, I16, U8, I32} {
			for _, ch := range []int{1, 2, 3} {
				K := bytes / (k.Width() / 8) / ch
				L := K / 25
				bad := ""
				var b DynBuf
				if p := try(func() { b = Alloc(k, false, signal.Allocator{Channels: ch, Length: L, Capacity: K}) }); p != "" {
					bad = "panic=" + strings.ReplaceAll(p, " ", "_")
				} else if b.Channels() != ch || b.Length() != L || b.Capacity() != K || b.Len() != ch*L || b.Cap() != ch*K {
					bad = fmt.Sprintf("shape got=ch%d/L%d/K%d/len%d/cap%d", b.Channels(), b.Length(), b.Capacity(), b.Len(), b.Cap())
				} else {
					_, cells, _ := b.Raw()
					if len(cells) != ch*K {
						bad = fmt.Sprintf("storage=%d", len(cells))
					}
					for j, x := range cells {
						if x != 0 {
							bad = fmt.Sprintf("not-zero pos=%d", j)
							break
						}
					}
				}
				st := "ok"
				if bad != "" {
					st = "mismatch"
				}
				fmt.Fprintf(g.out, "goref C13 large-allocation %s kind=%s ch=%d L=%d K=%d %s\n", st, k, ch, L, K, bad)
				g.st.lines++
				g.st.Branches["goref-bigalloc-"+st]++
			}
		}
	}
	for _, c := range runs {
		var recent []DynBuf
		bad := ""
		for i := 0; i < c.n && bad == ""; i++ {
			var b DynBuf
			if p := try(func() { b = Alloc(c.k, false, signal.Allocator{Channels: c.ch, Length: c.L, Capacity: c.K}) }); p != "" {
				bad = fmt.Sprintf("allocation=%d panic=%s", i, strings.ReplaceAll(p, " ", "_"))
				break
			}
			if b.Channels() != c.ch || b.Length() != c.L || b.Capacity() != c.K || b.Len() != c.ch*c.L || b.Cap() != c.ch*c.K || b.BitDepth() != c.k.Width() {
				bad = fmt.Sprintf("allocation=%d shape", i)
				break
			}
			_, cells, _ := b.Raw()
			for j, x := range cells {
				if x != 0 {
					bad = fmt.Sprintf("allocation=%d not-zero pos=%d", i, j)
				}
			}
			full := b.Slice(0, c.K)
			stamp := small(c.k, 1+i%100)
			for j := 0; j < full.Len(); j++ {
				full.SetSample(j, stamp)
			}
			recent = append(recent, full)
			if len(recent) > 48 {
				recent = recent[1:]
			}
			for a, old := range recent {
				want := small(c.k, 1+(i-(len(recent)-1-a))%100)
				for j := 0; j < old.Len(); j++ {
					if old.Sample(j) != want {
						bad = fmt.Sprintf("allocation=%d overwrote an earlier buffer pos=%d", i, j)
					}
				}
			}
		}
		st := "ok"
		if bad != "" {
			st = "mismatch"
		}
		fmt.Fprintf(g.out, "goref C13 many-small-allocations %s kind=%s ch=%d L=%d K=%d n=%d %s\n", st, c.k, c.ch, c.L, c.K, c.n, bad)
		g.st.lines++
		g.st.cases++
		g.st.Branches["goref-allocs-"+st]++
	}
}

// genZeroValue: the zero value `signal.Buffer[T]{}` as an operand. It has no channels: appending or converting
// between it and a buffer WITH channels is a shape mismatch and panics before anything is modified (C15); with other
// zero-channel or zero-value buffers it is inert, and nothing panics (C20).
func genZeroValue(w *World, r *Rng, tier string, tag string) {
	reps := 4
	if tier == "thorough" {
		reps = 30
	}
	for rep := 0; rep < reps; rep++ {
		k, k2 := r.Kind(), r.Kind()
		ch := r.Range(1, 3)
		w.Case(fmt.Sprintf("%s zero-value %s %s ch%d", tag, k, k2, ch))
		z := w.ZeroValue(k)
		z2 := w.ZeroValue(k2)
		zc := w.Alloc(k, false, 0, r.Range(0, 2), r.Range(2, 3)) // zero channels through Alloc
		full := w.Alloc(k, false, ch, 2, 3)
		fillAll(w, full, rep)
		other := w.Alloc(k2, false, ch, 2, 2)
		fillAll(w, other, rep+7)
		// inert among themselves
		w.Append(z, zc)
		w.Append(zc, z)
		w.Append(z, z)
		w.AppendSample(z, mixVal(r, k))
		w.Conv(z, z2)
		w.Conv(z2, z)
		w.Conv(zc, z2)
		w.Write(z, k, mixVals(r, k, 3))
		w.Read(z, k, mixVals(r, k, 3))
		w.WriteStriped(z, k, [][]uint64{})
		w.ReadStriped(z, k, [][]uint64{})
		w.Slice(z, 0, 0)
		// shape mismatches with buffers that have channels
		w.Append(full, z)
		w.Append(z, full)
		w.Conv(z2, full)
		w.Conv(other, z)
		w.Conv(z, other)
	}
}

// genStripedAliased: striped writes whose rows are prefixes of one another (passed as slices of ONE backing array by
// World.WriteStriped): same first element address, different lengths, over buffers holding stale data
func genStripedAliased(w *World, r *Rng, tier string) {
	reps := 12
	if tier == "thorough" {
		reps = 120
	}
	for rep := 0; rep < reps; rep++ {
		k := r.Kind()
		ch := r.Range(2, 4)
		fr := r.Range(2, 7)
		w.Case(fmt.Sprintf("C01 striped-aliased %s ch%d fr%d", k, ch, fr))
		b := w.Alloc(k, false, ch, fr, fr)
		fillAll(w, b, rep+3)
		mono := mixVals(r, k, r.Range(1, fr+1))
		cols := make([][]uint64, ch)
		for c := range cols {
			n := len(mono)
			if c > 0 {
				n = r.Range(0, len(mono))
			}
			if rep%4 == 3 && c == ch-1 {
				n = len(mono) // the longest row last
			}
			cols[c] = append([]uint64{}, mono[:n]...)
		}
		if rep%3 == 0 {
			cols[0], cols[ch-1] = cols[ch-1], cols[0]
		}
		w.WriteStriped(b, k, cols)
		w.ReadStriped(b, k, cols)
	}
}

// genGrowMany: twenty and more GROWING appends on one buffer (each source is just long enough to force a
// reallocation), judged natively against plain slices: after every one the capacity is a whole number of frames that
// is at least the length, and the contents are the old contents followed by the source's (C03, C12)
func genGrowMany(g *Kern, r *Rng, tier string) {
	for _, ch := range []int{2, 3, 5} {
		bad := ""
		label := fmt.Sprintf("kind=i16 ch=%d appends=22", ch)
		p := try(func() {
			b := signal.Alloc[int16](signal.Allocator{Channels: ch, Length: 1, Capacity: 1})
			var ref []int16
			for i := 0; i < ch; i++ {
				b.SetSample(i, int16(i+1))
				ref = append(ref, int16(i+1))
			}
			for it := 0; it < 22 && bad == ""; it++ {
				frames := (b.Cap()-b.Len())/ch + 1 + it%2
				if b.Len()+frames*ch > 6<<20 {
					break
				}
				src := signal.Alloc[int16](signal.Allocator{Channels: ch, Length: frames, Capacity: frames})
				for i := 0; i < src.Len(); i++ {
					src.SetSample(i, int16((i*7+it)%251-125))
					ref = append(ref, int16((i*7+it)%251-125))
				}
				b.Append(src)
				if b.Len() != len(ref) || b.Cap() < b.Len() || b.Cap()%ch != 0 || b.Capacity() != b.Cap()/ch {
					bad = fmt.Sprintf("after %d growing appends: Len=%d (want %d) Cap=%d Capacity=%d", it+1, b.Len(), len(ref), b.Cap(), b.Capacity())
				}
				for i := 0; bad == "" && i < len(ref); i += 1 + len(ref)/4096 {
					if b.Sample(i) != ref[i] {
						bad = fmt.Sprintf("after %d growing appends: pos=%d got=%d want=%d", it+1, i, b.Sample(i), ref[i])
					}
				}
			}
		})
		if p != "" {
			bad = "panic=" + strings.ReplaceAll(p, " ", "_")
		}
		g.goref("C03,C12", "many-growing-appends", strings.ReplaceAll(bad, " ", "_"), label)
	}
}

// genBulkPool: a hundred buffers of one pool held at the same time, stamped, verified, put back, for several rounds
// (more than 256 puts): buffers held together never share storage and every one is fresh when handed out (C10)
func genBulkPool(g *Kern, r *Rng, tier string) { genBulkPoolFor(g, r, tier, "C10") }

func genBulkPoolFor(g *Kern, r *Rng, tier string, props string) {
	rounds := 6
	if tier == "thorough" {
		rounds = 30
	}
	for _, held := range []int{70, 100, 130, 4097, 5000} {
		bad := ""
		label := fmt.Sprintf("kind=i32 ch=2 L=1 K=3 held=%d rounds=%d", held, rounds)
		p := try(func() {
			pool := signal.PoolAlloc[int32](signal.Allocator{Channels: 2, Length: 1, Capacity: 3})
			for rd := 0; rd < rounds && bad == ""; rd++ {
				bufs := make([]*signal.Buffer[int32], held)
				for i := range bufs {
					b := pool.Get()
					if b.Channels() != 2 || b.Length() != 1 || b.Capacity() != 3 {
						bad = fmt.Sprintf("round=%d buffer=%d shape", rd, i)
					}
					full := b.Slice(0, 3)
					for j := 0; j < full.Len(); j++ {
						if full.Sample(j) != 0 {
							bad = fmt.Sprintf("round=%d buffer=%d not zero at %d", rd, i, j)
						}
						full.SetSample(j, int32(rd*1000+i+1))
					}
					bufs[i] = b
				}
				for i, b := range bufs {
					full := b.Slice(0, 3)
					for j := 0; j < full.Len() && bad == ""; j++ {
						if full.Sample(j) != int32(rd*1000+i+1) {
							bad = fmt.Sprintf("round=%d buffer=%d shares storage with another held buffer (pos %d holds %d)", rd, i, j, full.Sample(j))
						}
					}
				}
				for _, b := range bufs {
					pool.Put(b)
				}
			}
		})
		if p != "" {
			bad = "panic=" + strings.ReplaceAll(p, " ", "_")
		}
		g.goref(props, "bulk-pool", strings.ReplaceAll(bad, " ", "_"), label)
	}
}

// genConcurrentPool: "buffers that are checked out at the same time never share storage" with the gets and puts
// issued by several goroutines at once (C10's clause does not say the checking-out is sequential): every goroutine
// stamps the whole capacity of the buffer it holds with its own value, yields, and finds its stamps intact; every
// buffer is zero and of the allocator's shape when handed out. Small and page-sized buffers; rounds in which all
// goroutines get at the same moment after one put (a hand-over slot or a one-element cache in front of sync.Pool is
// raced for exactly then).
func genConcurrentPool(g *Kern, r *Rng, tier string) {
	iters := 400
	if tier == "thorough" {
		iters = 4000
	}
	old := runtime.GOMAXPROCS(0)
	defer runtime.GOMAXPROCS(old)
	for ci, shape := range [][3]int{{2, 1, 3}, {1, 0, 4096}, {3, 2, 2}} {
		ch, L, K := shape[0], shape[1], shape[2]
		G := []int{8, 4, 16}[ci]
		runtime.GOMAXPROCS([]int{8, 4, 16}[ci])
		label := fmt.Sprintf("kind=i32 ch=%d L=%d K=%d goroutines=%d iters=%d", ch, L, K, G, iters)
		var mu sync.Mutex
		bad := ""
		fail := func(s string) {
			mu.Lock()
			if bad == "" {
				bad = s
			}
			mu.Unlock()
		}
		pool := signal.PoolAlloc[int32](signal.Allocator{Channels: ch, Length: L, Capacity: K})
		n := iters
		if ch*K > 1000 {
			n = iters / 8
		}
		var wg sync.WaitGroup
		for gi := 0; gi < G; gi++ {
			wg.Add(1)
			go func(gi int) {
				defer wg.Done()
				if p := try(func() {
					for m := 0; m < n; m++ {
						b := pool.Get()
						if b.Channels() != ch || b.Length() != L || b.Capacity() != K {
							fail(fmt.Sprintf("goroutine=%d iter=%d shape", gi, m))
						}
						full := b.Slice(0, K)
						stamp := int32(gi*1000000 + m + 1)
						for j := 0; j < full.Len(); j++ {
							if full.Sample(j) != 0 {
								fail(fmt.Sprintf("goroutine=%d iter=%d not zero at %d (holds %d)", gi, m, j, full.Sample(j)))
								break
							}
						}
						for j := 0; j < full.Len(); j++ {
							full.SetSample(j, stamp)
						}
						runtime.Gosched()
						for j := 0; j < full.Len(); j++ {
							if full.Sample(j) != stamp {
								fail(fmt.Sprintf("goroutine=%d iter=%d shares storage with a buffer held by another goroutine (pos %d holds %d)", gi, m, j, full.Sample(j)))
								break
							}
						}
						pool.Put(b)
						if m%7 == 0 {
							runtime.Gosched()
						}
					}
				}); p != "" {
					fail("panic=" + p)
				}
			}(gi)
		}
		wg.Wait()
		// herd rounds: one buffer put back, then everybody gets at the same moment and holds
		for rd := 0; rd < 40 && bad == ""; rd++ {
			pool.Put(pool.Get())
			held := make([]*signal.Buffer[int32], G)
			var flag int32
			var w sync.WaitGroup
			var ready sync.WaitGroup
			ready.Add(G)
			var startMu sync.RWMutex
			startMu.Lock()
			for gi := 0; gi < G; gi++ {
				w.Add(1)
				go func(gi int) {
					defer w.Done()
					ready.Done()
					startMu.RLock()
					held[gi] = pool.Get()
					startMu.RUnlock()
				}(gi)
			}
			ready.Wait()
			_ = flag
			startMu.Unlock()
			w.Wait()
			seen := map[*signal.Buffer[int32]]int{}
			for gi, b := range held {
				if o, dup := seen[b]; dup {
					fail(fmt.Sprintf("herd round=%d goroutines %d and %d hold the same buffer", rd, o, gi))
				}
				seen[b] = gi
			}
			for _, b := range held {
				pool.Put(b)
			}
		}
		g.goref("C10", "concurrent-pool", strings.ReplaceAll(bad, " ", "_"), label)
	}
}

// genLocalTypes: two function-local named types with the SAME name and different underlying types (their qualified
// names coincide: anything keyed by the type's name confuses them), allocated in both orders (C13)
func localSampleA() (int, int) {
	type sample int16
	b := signal.Alloc[sample](signal.Allocator{Channels: 2, Length: 1, Capacity: 2})
	return int(b.BitDepth()), b.Cap()
}
func localSampleB() (int, int) {
	type sample float64
	b := signal.Alloc[sample](signal.Allocator{Channels: 2, Length: 1, Capacity: 2})
	return int(b.BitDepth()), b.Cap()
}
func localSampleC() (int, int) {
	type sample uint8
	b := signal.Alloc[sample](signal.Allocator{Channels: 2, Length: 1, Capacity: 2})
	return int(b.BitDepth()), b.Cap()
}
func genLocalTypes(g *Kern) {
	bad := ""
	p := try(func() {
		for round := 0; round < 2 && bad == ""; round++ {
			for _, c := range []struct {
				f    func() (int, int)
				want int
			}{{localSampleA, 16}, {localSampleB, 64}, {localSampleC, 8}, {localSampleB, 64}, {localSampleA, 16}} {
				if d, cp := c.f(); d != c.want || cp != 4 {
					bad = fmt.Sprintf("local type `sample`: bit depth %d want %d (cap %d)", d, c.want, cp)
				}
			}
		}
	})
	if p != "" {
		bad = "panic=" + strings.ReplaceAll(p, " ", "_")
	}
	g.goref("C13", "same-named-local-types", strings.ReplaceAll(bad, " ", "_"), "types=sample(int16),sample(float64),sample(uint8)")
}

// genStripedWide: striped writes and reads on buffers with 33 .. 257 channels (bit masks over the rows are 32 or 64
// bits wide), short and nil rows at low, middle and the highest channel indices, over stale data
func genStripedWide(w *World, r *Rng, tier string) {
	chs := []int{33, 40, 64, 65, 70, 129}
	if tier == "thorough" {
		chs = append(chs, 100, 128, 257)
	}
	for ci, ch := range chs {
		k := r.Kind()
		fr := 3
		w.Case(fmt.Sprintf("C01 striped-wide %s ch%d fr%d", k, ch, fr))
		b := w.Alloc(k, false, ch, fr, fr)
		fillAll(w, b, ci+5)
		cols := make([][]uint64, ch)
		for c := range cols {
			cols[c] = mixVals(r, k, fr)
		}
		// short / nil rows: one below 32, one in [32,64), one at 64 or above (if any), the last one
		for _, c := range []int{5, 35, 66, ch - 1, ch - 2} {
			if c >= 0 && c < ch {
				switch (c + ci) % 3 {
				case 0:
					cols[c] = nil
				case 1:
					cols[c] = cols[c][:1]
				default:
					cols[c] = []uint64{}
				}
			}
		}
		w.WriteStriped(b, k, cols)
		w.ReadStriped(b, k, cols)
	}
}

package main

// Generators for the stateless transcripts: per-sample kernels of the nine conversions (C05 float to
// float, C06-C09), bit-depth arithmetic (C16), Frequency (C17), ChannelLength (C20).

import (
	"bufio"
	"fmt"
	"io"
	"math"
	"runtime"
	"sort"
	"strings"
	"sync"
	"sync/atomic"
	"time"

	"pipelined.dev/signal"
)

func nullWriter() *bufio.Writer { return bufio.NewWriter(io.Discard) }

// ---------- value pools ----------

func kindMin(k Kind) int64 {
	if k.IsSigned() {
		return -1 << (k.Width() - 1)
	}
	return 0
}

// all interesting integer cells of kind k: ±2^j ± {0..3}, 1.5*2^j ± {0..3}, bounds ± 3, mid ± 3
func intBoundary(k Kind) []uint64 {
	w := k.Width()
	seen := map[uint64]bool{}
	var out []uint64
	add := func(v uint64) {
		v = normCell(v, k)
		if !seen[v] {
			seen[v] = true
			out = append(out, v)
		}
	}
	for j := 0; j < w; j++ {
		p := uint64(1) << j
		for d := int64(-3); d <= 3; d++ {
			add(p + uint64(d))
			add(-p + uint64(d))
			add(p + p/2 + uint64(d))
			add(-(p + p/2) + uint64(d))
		}
	}
	for d := int64(-3); d <= 3; d++ {
		add(uint64(d))
		add(uint64(kindMin(k)) + uint64(d))
		add(uint64(kindMin(k)) - 1 + uint64(d)) // max (wraps)
		add(uint64(1)<<(w-1) + uint64(d))
	}
	return out
}

func intPool(r *Rng, k Kind) uint64 {
	if r.Intn(3) == 0 {
		b := intBoundary(k)
		return b[r.Intn(len(b))]
	}
	return normCell(r.Next(), k)
}

// amplitude order: signed by value, unsigned by value (offset does not change order)
func sortCells(cells []uint64, k Kind) {
	sort.Slice(cells, func(i, j int) bool {
		if k.IsSigned() {
			return int64(cells[i]) < int64(cells[j])
		}
		return cells[i] < cells[j]
	})
}

func cellToFloat(u uint64, k Kind) float64 {
	if k == F32 {
		return float64(math.Float32frombits(uint32(u)))
	}
	return math.Float64frombits(u)
}

func floatCell(f float64, k Kind) uint64 {
	if k == F32 {
		return uint64(math.Float32bits(float32(f)))
	}
	return math.Float64bits(f)
}

func nextCell(u uint64, k Kind, steps int) uint64 {
	// move by `steps` ulps in the total order of finite floats (sign-magnitude aware)
	toKey := func(u uint64) int64 {
		if k == F32 {
			x := int64(uint32(u))
			if x&0x80000000 != 0 {
				return -(x & 0x7FFFFFFF)
			}
			return x
		}
		if u&(1<<63) != 0 {
			return -int64(u & (1<<63 - 1))
		}
		return int64(u)
	}
	fromKey := func(x int64) uint64 {
		if k == F32 {
			if x < 0 {
				return uint64(uint32(-x) | 0x80000000)
			}
			return uint64(uint32(x))
		}
		if x < 0 {
			return uint64(-x) | 1<<63
		}
		return uint64(x)
	}
	return fromKey(toKey(u) + int64(steps))
}

// floatBoundary: neighbours (±3 ulps) of 0, ±2^j (j=-70..70), ±1, integers around 256, 65536, 2^31,
// 2^32, 2^63, 2^64, subnormals, ±Inf.
func floatBoundary(k Kind) []uint64 {
	seen := map[uint64]bool{}
	var out []uint64
	add := func(u uint64) {
		f := cellToFloat(u, k)
		if math.IsNaN(f) {
			return
		}
		if !seen[u] {
			seen[u] = true
			out = append(out, u)
		}
	}
	around := func(f float64) {
		for _, s := range []float64{1, -1} {
			c := floatCell(s*f, k)
			for d := -3; d <= 3; d++ {
				add(nextCell(c, k, d))
			}
		}
	}
	around(0)
	for j := -70; j <= 70; j++ {
		around(math.Ldexp(1, j))
		around(math.Ldexp(1.5, j))
	}
	for _, f := range []float64{1, 0.5, 0.25, 0.75, 127, 128, 255, 256, 32767, 32768, 65535, 65536, 2147483647, 2147483648,
		4294967295, 4294967296, 9223372036854775807, 18446744073709551615, 1e-310, 5e-324, 1e-45, 1e-40, 3.4028234e38, 1.7976931348623157e308,
		1 - 1.0/(1<<24), 1 - 1.0/(1<<53), 1.0 / 127, 1.0 / 128, 1.0 / 32767, 1.0 / 32768, 2, 1.5, 1e10, 1e19, 1e30} {
		around(f)
	}
	add(floatCell(math.Inf(1), k))
	add(floatCell(math.Inf(-1), k))
	return out
}

// floatPool: a float cell of kind k; anyValue allows NaN and values far outside [-1,1]
func floatPool(r *Rng, k Kind, anyValue bool) uint64 {
	switch r.Intn(4) {
	case 0:
		b := floatBoundary(k)
		return b[r.Intn(len(b))]
	case 1:
		// uniform in [-1.25, 1.25]
		f := (float64(r.Next()>>11)/float64(1<<53))*2.5 - 1.25
		return floatCell(f, k)
	case 2:
		u := normCell(r.Next(), k)
		f := cellToFloat(u, k)
		if math.IsNaN(f) {
			if anyValue {
				if k == F32 {
					return canonNaN32
				}
				return canonNaN64
			}
			return floatCell(0.5, k)
		}
		return u
	}
	// k/2^j grid
	f := float64(r.Range(-300, 300)) / float64(int(1)<<r.Range(0, 9))
	return floatCell(f, k)
}

func sortFloatCells(cells []uint64, k Kind) {
	sort.Slice(cells, func(i, j int) bool {
		a, b := cellToFloat(cells[i], k), cellToFloat(cells[j], k)
		if a != b {
			return a < b
		}
		return math.Signbit(a) && !math.Signbit(b)
	})
}

// ---------- running kernels on the implementation ----------

// runKernelOpt converts the cells xs (kind sk) into kind dk through one-channel buffers. The destination
// is pre-filled with a non-zero pattern: a conversion has to overwrite every position, also with zeros.
// named: the buffers are of the defined types N<kind> (same formats, so the same results are required).
// A panic of the conversion is returned as a message, never propagated.
func runKernelOpt(sk, dk Kind, xs []uint64, named bool) ([]uint64, string) {
	n := len(xs)
	src := Alloc(sk, named, signal.Allocator{Channels: 1, Length: n, Capacity: n})
	dst := Alloc(dk, named, signal.Allocator{Channels: 1, Length: n, Capacity: n})
	for i, x := range xs {
		src.SetSample(i, x)
		dst.SetSample(i, stalePatternAt(dk, i))
	}
	conv := convCall(sk, dk)
	if named {
		conv = convCallNamed(sk, dk)
	}
	p := try(func() { conv(src, dst) })
	out := make([]uint64, n)
	for i := range out {
		out[i] = dst.Sample(i)
	}
	return out, p
}

// stalePattern: what a destination holds before a kernel run - large enough to survive a narrowing
// conversion back (0x5555... for integers, 0.3 for floats)
func stalePattern(k Kind) uint64 {
	if k.IsFloat() {
		return floatCell(0.3, k)
	}
	return normCell(0x5555555555555555, k)
}

// stalePatternAt: float destinations alternate between the stale value, +0 and -0 (a conversion that
// skips a store when the old and the new value compare equal loses the sign of zero)
func stalePatternAt(k Kind, i int) uint64 {
	if k.IsFloat() {
		switch i % 3 {
		case 1:
			return floatCell(0, k)
		case 2:
			return floatCell(math.Copysign(0, -1), k)
		}
	}
	return stalePattern(k)
}

func runKernel(sk, dk Kind, xs []uint64) []uint64 {
	out, p := runKernelOpt(sk, dk, xs, false)
	if p != "" {
		kernelPanics = append(kernelPanics, fmt.Sprintf("kpanic %s %s %s builtin %s", convName(sk, dk), sk, dk, strings.ReplaceAll(p, " ", "_")))
	}
	return out
}

// panics of conversion kernels on valid buffers, flushed into the transcript by the emit functions
var kernelPanics []string

func (g *Kern) flushPanics() {
	for _, l := range kernelPanics {
		fmt.Fprintln(g.out, l)
		g.st.lines++
		g.st.branch("kernel-panic")
	}
	kernelPanics = nil
}

// namedCheck runs the same kernel through buffers of the defined types; when the results differ from
// the builtin ones (or the call panics) the named run is emitted as a kernel sequence of its own, so
// that the model and the predicates judge it.
func (g *Kern) namedCheck(sk, dk Kind, xs, ys []uint64) {
	zs, p := runKernelOpt(sk, dk, xs, true)
	fn := convName(sk, dk)
	if p != "" {
		fmt.Fprintf(g.out, "kpanic %s %s %s named %s\n", fn, sk, dk, strings.ReplaceAll(p, " ", "_"))
		g.st.lines++
		g.st.branch("kernel-panic")
		return
	}
	same := true
	for i := range ys {
		if zs[i] != ys[i] {
			same = false
			break
		}
	}
	if same {
		g.st.branch("named-types-identical")
		return
	}
	g.st.branch("named-types-differ")
	fmt.Fprintf(g.out, "kseq %s %s %s\n", fn, sk, dk)
	for i, x := range xs {
		fmt.Fprintf(g.out, "k %s %s\n", cellString(x, sk), cellString(zs[i], dk))
	}
	g.st.lines += len(xs) + 1
}

// pooledCheck runs the kernel through buffers handed out by pool allocators for the second time
// (get, put, get): a recycled header must convert like a fresh one.
func (g *Kern) pooledCheck(sk, dk Kind, xs, ys []uint64) {
	n := len(xs)
	if n == 0 || n > 64 {
		return
	}
	a := signal.Allocator{Channels: 1, Length: n, Capacity: n}
	ps, pd := NewPool(sk, a), NewPool(dk, a)
	var src, dst DynBuf
	for round := 0; round < 2; round++ {
		src, dst = ps.Get(), pd.Get()
		if round == 0 {
			ps.Put(src)
			pd.Put(dst)
		}
	}
	for i, x := range xs {
		src.SetSample(i, x)
		dst.SetSample(i, stalePatternAt(dk, i))
	}
	fn := convName(sk, dk)
	if p := try(func() { convCall(sk, dk)(src, dst) }); p != "" {
		fmt.Fprintf(g.out, "kpanic %s %s %s pooled %s\n", fn, sk, dk, strings.ReplaceAll(p, " ", "_"))
		g.st.lines++
		return
	}
	same := true
	zs := make([]uint64, n)
	for i := range zs {
		zs[i] = dst.Sample(i)
		if zs[i] != ys[i] {
			same = false
		}
	}
	if same {
		g.st.branch("pooled-buffers-identical")
		return
	}
	g.st.branch("pooled-buffers-differ")
	fmt.Fprintf(g.out, "kseq %s %s %s\n", fn, sk, dk)
	for i, x := range xs {
		fmt.Fprintf(g.out, "k %s %s\n", cellString(x, sk), cellString(zs[i], dk))
	}
	g.st.lines += len(xs) + 1
}

// runKernelShaped is runKernel through ch-channel buffers whose last frame is partial when len(xs) is
// not a multiple of ch (the trailing samples are appended one by one).
func runKernelShaped(sk, dk Kind, xs []uint64, ch int) []uint64 {
	n := len(xs)
	frames, rem := n/ch, n%ch
	src := Alloc(sk, false, signal.Allocator{Channels: ch, Length: frames, Capacity: frames + 1})
	dst := Alloc(dk, false, signal.Allocator{Channels: ch, Length: frames, Capacity: frames + 1})
	fill := stalePattern(dk)
	for i := 0; i < frames*ch; i++ {
		src.SetSample(i, xs[i])
		dst.SetSample(i, fill)
	}
	for i := 0; i < rem; i++ {
		src.AppendSample(xs[frames*ch+i])
		dst.AppendSample(fill)
	}
	if p := try(func() { convCall(sk, dk)(src, dst) }); p != "" {
		kernelPanics = append(kernelPanics, fmt.Sprintf("kpanic %s %s %s builtin-ch%d %s", convName(sk, dk), sk, dk, ch, strings.ReplaceAll(p, " ", "_")))
	}
	out := make([]uint64, n)
	for i := range out {
		out[i] = dst.Sample(i)
	}
	return out
}

func (g *Kern) emitKShaped(sk, dk Kind, xs []uint64, ch int) {
	ys := runKernelShaped(sk, dk, xs, ch)
	g.flushPanics()
	fn := convName(sk, dk)
	fmt.Fprintf(g.out, "kseq %s %s %s\n", fn, sk, dk)
	for i, x := range xs {
		fmt.Fprintf(g.out, "k %s %s\n", cellString(x, sk), cellString(ys[i], dk))
	}
	g.st.lines += len(xs) + 1
	g.st.Pairs[fn+":"+sk.String()+">"+dk.String()] += len(xs)
	g.st.Shapes[fmt.Sprintf("kernel-ch%d-rem%d", ch, len(xs)%ch)]++
	g.st.cases++
}

type Kern struct {
	out *bufio.Writer
	st  *Stats
}

func (g *Kern) emitK(sk, dk Kind, xs []uint64) {
	ys := runKernel(sk, dk, xs)
	g.flushPanics()
	defer g.namedCheck(sk, dk, xs, ys)
	defer g.pooledCheck(sk, dk, xs, ys)
	defer g.preparedCheck(sk, dk, xs, ys)
	fn := convName(sk, dk)
	fmt.Fprintf(g.out, "kseq %s %s %s\n", fn, sk, dk)
	for i, x := range xs {
		fmt.Fprintf(g.out, "k %s %s\n", cellString(x, sk), cellString(ys[i], dk))
	}
	g.st.lines += len(xs) + 1
	g.st.Pairs[fn+":"+sk.String()+">"+dk.String()] += len(xs)
	g.st.cases++
	if len(xs) > 0 {
		g.st.sample(fmt.Sprintf("k %s %s>%s %s -> %s", fn, sk, dk, cellString(xs[len(xs)/2], sk), cellString(ys[len(xs)/2], dk)))
	}
}

// round trip sk -> mk -> sk
func (g *Kern) emitRT(sk, mk Kind, xs []uint64) {
	ys := runKernel(sk, mk, xs)
	zs := runKernel(mk, sk, ys)
	g.flushPanics()
	fmt.Fprintf(g.out, "rtseq %s %s %s %s\n", convName(sk, mk), convName(mk, sk), sk, mk)
	for i, x := range xs {
		fmt.Fprintf(g.out, "rt %s %s %s\n", cellString(x, sk), cellString(ys[i], mk), cellString(zs[i], sk))
	}
	g.st.lines += len(xs) + 1
	g.st.Pairs["rt:"+sk.String()+">"+mk.String()] += len(xs)
	g.st.cases++
}

// round trip sk -> mk -> sk through ch-channel buffers with the special values rotated through the
// positions (a conversion must not let one channel of a frame influence another)
func (g *Kern) emitRTShaped(sk, mk Kind, specials []uint64) {
	if len(specials) == 0 {
		return
	}
	for _, ch := range []int{2, 3} {
		for rot := 0; rot < 3; rot++ {
			L := 4*ch + rot
			xs := make([]uint64, L)
			for i := range xs {
				xs[i] = specials[(i*5+rot*3)%len(specials)]
			}
			ys := runKernelShaped(sk, mk, xs, ch)
			zs := runKernelShaped(mk, sk, ys, ch)
			g.flushPanics()
			fmt.Fprintf(g.out, "rtseq %s %s %s %s\n", convName(sk, mk), convName(mk, sk), sk, mk)
			for i, x := range xs {
				fmt.Fprintf(g.out, "rt %s %s %s\n", cellString(x, sk), cellString(ys[i], mk), cellString(zs[i], sk))
			}
			g.st.lines += len(xs) + 1
			g.st.Shapes[fmt.Sprintf("rt-ch%d-rem%d", ch, L%ch)]++
		}
	}
}

func intInputs(r *Rng, k Kind, tier string) []uint64 {
	w := k.Width()
	var xs []uint64
	switch {
	case w == 8:
		for i := 0; i < 256; i++ {
			xs = append(xs, normCell(uint64(i), k))
		}
	case w == 16 && tier == "thorough":
		for i := 0; i < 65536; i++ {
			xs = append(xs, normCell(uint64(i), k))
		}
	default:
		xs = append(xs, intBoundary(k)...)
		n := 600
		if tier == "thorough" {
			n = 20000
		}
		if w == 16 {
			// stratified: one value per stratum
			strata := 1024
			for i := 0; i < strata; i++ {
				xs = append(xs, normCell(uint64(i*(65536/strata)+r.Intn(65536/strata)), k))
			}
		} else {
			for i := 0; i < n; i++ {
				xs = append(xs, normCell(r.Next(), k))
			}
			// dense runs of neighbours somewhere random
			for i := 0; i < 8; i++ {
				b := r.Next()
				for d := uint64(0); d < 24; d++ {
					xs = append(xs, normCell(b+d, k))
				}
			}
		}
	}
	// dedupe + sort by amplitude
	seen := map[uint64]bool{}
	out := xs[:0]
	for _, x := range xs {
		if !seen[x] {
			seen[x] = true
			out = append(out, x)
		}
	}
	sortCells(out, k)
	return out
}

func floatInputs(r *Rng, k Kind, tier string, anyValue bool) []uint64 {
	xs := append([]uint64{}, floatBoundary(k)...)
	n := 1500
	if tier == "thorough" {
		n = 60000
	}
	for i := 0; i < n; i++ {
		xs = append(xs, floatPool(r, k, false))
	}
	// dense neighbour runs inside (-1,1)
	for i := 0; i < 10; i++ {
		c := floatCell((float64(r.Next()>>11)/float64(1<<53))*2-1, k)
		for d := 0; d < 16; d++ {
			xs = append(xs, nextCell(c, k, d))
		}
	}
	seen := map[uint64]bool{}
	out := xs[:0]
	for _, x := range xs {
		if math.IsNaN(cellToFloat(x, k)) {
			continue
		}
		if !seen[x] {
			seen[x] = true
			out = append(out, x)
		}
	}
	sortFloatCells(out, k)
	if anyValue {
		if k == F32 {
			out = append(out, canonNaN32)
		} else {
			out = append(out, canonNaN64)
		}
	}
	return out
}

func isInt(k Kind) bool { return !k.IsFloat() }

// emitKPos runs the kernel on short buffers of many lengths with the special values rotated through
// every position: a conversion must be position-wise (C05), so loop restructurings (unrolling, tables,
// frame-wise loops) that treat some positions differently show up here.
func (g *Kern) emitKPos(sk, dk Kind, specials []uint64) {
	if len(specials) == 0 {
		return
	}
	for _, L := range []int{1, 2, 3, 4, 5, 6, 7, 8, 9, 15, 16, 17, 31, 33} {
		for rot := 0; rot < L && rot < 5; rot++ {
			xs := make([]uint64, L)
			for i := range xs {
				xs[i] = specials[(i+rot*3)%len(specials)]
			}
			// one channel, and several channels with a partial last frame
			ch := 1 + (L+rot)%4
			if ch == 1 {
				g.emitK(sk, dk, xs)
			} else {
				g.emitKShaped(sk, dk, xs, ch)
			}
		}
	}
	// long buffers (table-driven fast paths usually have a length threshold)
	for _, L := range []int{255, 256, 257, 1024} {
		xs := make([]uint64, L)
		for i := range xs {
			xs[i] = specials[(i*7+L)%len(specials)]
		}
		g.emitK(sk, dk, xs)
	}
	// one special value among benign ones, at the first / second / last-but-one / last position of buffers whose
	// length is next to 64, 128, 256, 1024 (scans that look at samples in pairs or blocks miss an end)
	benign := specials[len(specials)/2]
	if sk.IsFloat() {
		benign = floatCell(0.25, sk)
	}
	for li, L := range []int{63, 64, 65, 127, 129, 255, 257, 1023, 1025} {
		sp := specials[(li*3+len(specials)-1)%len(specials)]
		for _, pos := range []int{0, 1, L - 2, L - 1} {
			xs := make([]uint64, L)
			for i := range xs {
				xs[i] = benign
			}
			xs[pos] = sp
			ys := runKernel(sk, dk, xs)
			g.flushPanics()
			// only the neighbourhood of the special value goes to the model (the rest repeats one pair)
			fmt.Fprintf(g.out, "kseq %s %s %s\n", convName(sk, dk), sk, dk)
			for _, i := range []int{pos - 1, pos, pos + 1} {
				if i >= 0 && i < L {
					fmt.Fprintf(g.out, "k %s %s\n", cellString(xs[i], sk), cellString(ys[i], dk))
					g.st.lines++
				}
			}
			g.st.lines++
		}
	}
	g.constantBlocks(sk, dk, specials)
	g.longScreen(sk, dk, specials)
	g.hugeScreen(sk, dk, specials)
}

// constantBlocks: long runs of ONE value (768 samples, so that whole aligned blocks of 256 and 512 are constant),
// over a destination that holds +0 / -0 / the stale pattern everywhere: code that treats a block of equal samples as
// one sample, or skips a block that compares equal to what the destination holds, shows up only here. The model judges
// the first, a middle and the last position of each run.
func (g *Kern) constantBlocks(sk, dk Kind, specials []uint64) {
	const L = 768
	vals := append([]uint64{}, specials...)
	if sk.IsFloat() {
		vals = append(vals, floatCell(math.Copysign(0, -1), sk), floatCell(0, sk))
	}
	for vi, v := range vals {
		src := Alloc(sk, false, signal.Allocator{Channels: 1, Length: L, Capacity: L})
		dst := Alloc(dk, false, signal.Allocator{Channels: 1, Length: L, Capacity: L})
		fill := stalePattern(dk)
		if dk.IsFloat() {
			// opposite zero where the source is a zero, else alternate
			fill = floatCell(0, dk)
			if vi%2 == 0 {
				fill = floatCell(math.Copysign(0, -1), dk)
			}
			if sk.IsFloat() {
				if f := cellToFloat(v, sk); f == 0 && !math.Signbit(f) {
					fill = floatCell(math.Copysign(0, -1), dk)
				} else if f == 0 {
					fill = floatCell(0, dk)
				}
			}
		}
		for i := 0; i < L; i++ {
			src.SetSample(i, v)
			dst.SetSample(i, fill)
		}
		if p := try(func() { convCall(sk, dk)(src, dst) }); p != "" {
			fmt.Fprintf(g.out, "kpanic %s %s %s constant-block %s\n", convName(sk, dk), sk, dk, strings.ReplaceAll(p, " ", "_"))
			g.st.lines++
			continue
		}
		if sk.IsFloat() && math.IsNaN(cellToFloat(v, sk)) {
			continue
		}
		fmt.Fprintf(g.out, "kseq %s %s %s\n", convName(sk, dk), sk, dk)
		for _, i := range []int{0, 255, 256, 511, 512, L - 1} {
			fmt.Fprintf(g.out, "k %s %s\n", cellString(v, sk), cellString(dst.Sample(i), dk))
		}
		g.st.lines += 7
	}
	g.st.branch("constant-blocks")
}

// longScreen: very long buffers (parallel or chunked conversion paths). The result at position i may
// depend only on the sample at position i, so the long run is screened natively against a short run of
// the same values (which the model judges); positions that differ are emitted as kernel lines.
// lengths of the position-independence screen: past 2^16, 2^18 and 2^20 samples, none a multiple of 4
// ... and exact multiples of the block sizes audio code likes (10 ms / 20 ms / 60 ms at 48 kHz, MP3 / AAC frames, one
// second at 44.1 and 48 kHz): a block loop with a wrong remainder test loses the last block exactly at these lengths
var longScreenLengths = []int{480, 960, 1152, 1920, 2048, 2880, 4410, 4800, 5760, 8820, 9600, 44100, 48000, 1<<16 + 1, 1<<18 + 3, 1<<20 + 3}

func (g *Kern) longScreen(sk, dk Kind, specials []uint64) {
	ref, p := runKernelOpt(sk, dk, specials, false)
	if p != "" {
		return // already reported by the short runs
	}
	// the reference must not depend on the stale pattern of the short run: take it from the values
	m := len(specials)
	for _, L := range longScreenLengths {
		src := Alloc(sk, false, signal.Allocator{Channels: 1, Length: L, Capacity: L})
		dst := Alloc(dk, false, signal.Allocator{Channels: 1, Length: L, Capacity: L})
		fill := stalePattern(dk)
		for i := 0; i < L; i++ {
			src.SetSample(i, specials[i%m])
			dst.SetSample(i, fill)
		}
		// (the run of 2^18+3 samples with a single processor: worker counts derived from GOMAXPROCS can be zero)
		procs := 0
		if L == 1<<18+3 {
			procs = 1
		}
		var p string
		withProcs(procs, func() { p = try(func() { convCall(sk, dk)(src, dst) }) })
		if p != "" {
			fmt.Fprintf(g.out, "kpanic %s %s %s long%d %s\n", convName(sk, dk), sk, dk, L, strings.ReplaceAll(p, " ", "_"))
			g.st.lines++
			continue
		}
		var bad []int
		for i := 0; i < L && len(bad) < 16; i++ {
			if dst.Sample(i) != ref[i%m] {
				bad = append(bad, i)
			}
		}
		g.st.Branches[fmt.Sprintf("long-screen-%d", L)]++
		if len(bad) > 0 {
			g.st.branch("long-screen-differs")
			fmt.Fprintf(g.out, "kseq %s %s %s\n", convName(sk, dk), sk, dk)
			for _, i := range bad {
				fmt.Fprintf(g.out, "k %s %s\n", cellString(specials[i%m], sk), cellString(dst.Sample(i), dk))
			}
			g.st.lines += len(bad) + 1
		}
	}
}

func intSpecials(k Kind) []uint64 {
	w := k.Width()
	var lo, hi, mid uint64
	if k.IsSigned() {
		lo, hi, mid = uint64(int64(-1)<<(w-1)), uint64(int64(1)<<(w-1)-1), 0
	} else {
		lo, mid = 0, uint64(1)<<(w-1)
		hi = mid + (mid - 1)
	}
	out := []uint64{}
	for _, v := range []uint64{lo, lo + 1, mid - 1, mid, mid + 1, hi - 1, hi, mid + 5, mid - 7} {
		out = append(out, normCell(v, k))
	}
	return out
}

func floatSpecials(k Kind) []uint64 {
	out := []uint64{}
	for _, f := range []float64{0, 1, -1, 0.5, -0.5, 2, -2, 0.999, -0.999, 1e-9, math.Inf(1), math.Inf(-1), math.Copysign(0, -1)} {
		out = append(out, floatCell(f, k))
	}
	return out
}

// C06/C07: all 121 fixed→fixed pairs; C07 adds widen-then-narrow round trips.
func genQuant(g *Kern, r *Rng, tier string, withRT bool) {
	for sk := Kind(0); sk < NKinds; sk++ {
		if !isInt(sk) {
			continue
		}
		xs := intInputs(r, sk, tier)
		for dk := Kind(0); dk < NKinds; dk++ {
			if !isInt(dk) {
				continue
			}
			g.emitK(sk, dk, xs)
			g.emitKPos(sk, dk, intSpecials(sk))
			if sk.Width() < dk.Width() {
				g.st.branch("up")
			} else if sk.Width() > dk.Width() {
				g.st.branch("down")
			} else {
				g.st.branch("same")
			}
			if withRT && sk.Width() < dk.Width() {
				g.emitRT(sk, dk, xs)
				g.emitRTShaped(sk, dk, intSpecials(sk))
			}
		}
	}
}

func genC08(g *Kern, r *Rng, tier string) {
	for _, sk := range []Kind{F32, F64} {
		xs := floatInputs(r, sk, tier, false)
		for dk := Kind(0); dk < NKinds; dk++ {
			if !isInt(dk) {
				continue
			}
			g.emitK(sk, dk, xs)
			g.emitKPos(sk, dk, floatSpecials(sk))
		}
		for _, x := range xs {
			f := cellToFloat(x, sk)
			switch {
			case f >= 1:
				g.st.branch("clip-hi")
			case f <= -1:
				g.st.branch("clip-lo")
			case f > 0:
				g.st.branch("positive")
			case f < 0:
				g.st.branch("negative")
			default:
				g.st.branch("zero")
			}
		}
	}
}

func genC09(g *Kern, r *Rng, tier string) {
	for sk := Kind(0); sk < NKinds; sk++ {
		if !isInt(sk) {
			continue
		}
		xs := intInputs(r, sk, tier)
		for _, dk := range []Kind{F32, F64} {
			g.emitK(sk, dk, xs)
			g.emitKPos(sk, dk, intSpecials(sk))
			g.emitRT(sk, dk, xs)
			g.emitRTShaped(sk, dk, intSpecials(sk))
		}
	}
}

func genF2F(g *Kern, r *Rng, tier string) {
	for _, sk := range []Kind{F32, F64} {
		xs := floatInputs(r, sk, tier, true)
		if sk == F64 {
			// float32 overflow threshold and halfway points between adjacent float32 values
			for i := 0; i < 400; i++ {
				a := uint32(r.Next())
				fa := math.Float32frombits(a)
				fb := math.Float32frombits(a + 1)
				if math.IsNaN(float64(fa)) || math.IsNaN(float64(fb)) || math.IsInf(float64(fa), 0) || math.IsInf(float64(fb), 0) {
					continue
				}
				mid := (float64(fa) + float64(fb)) / 2
				c := math.Float64bits(mid)
				xs = append(xs, c, c+1, c-1)
			}
			thr := math.Float64bits(3.4028235677973366e38) // 2^128 - 2^103: rounds to +Inf in float32
			for d := -3; d <= 3; d++ {
				xs = append(xs, uint64(int64(thr)+int64(d)), uint64(int64(thr)+int64(d))|1<<63)
			}
			var nn []uint64
			for _, x := range xs {
				if !math.IsNaN(math.Float64frombits(x)) {
					nn = append(nn, x)
				}
			}
			sortFloatCells(nn, sk)
			xs = append(nn, canonNaN64)
		}
		for _, dk := range []Kind{F32, F64} {
			g.emitK(sk, dk, xs)
			g.emitKPos(sk, dk, floatSpecials(sk))
		}
	}
}

// ---------- C16 ----------

func scaleCall(k Kind, h, l int) uint64 {
	hb, lb := signal.BitDepth(h), signal.BitDepth(l)
	switch k {
	case I8:
		return enc(signal.Scale[int8](hb, lb), k)
	case I16:
		return enc(signal.Scale[int16](hb, lb), k)
	case I32:
		return enc(signal.Scale[int32](hb, lb), k)
	case I64:
		return enc(signal.Scale[int64](hb, lb), k)
	case INT:
		return enc(signal.Scale[int](hb, lb), k)
	case U8:
		return enc(signal.Scale[uint8](hb, lb), k)
	case U16:
		return enc(signal.Scale[uint16](hb, lb), k)
	case U32:
		return enc(signal.Scale[uint32](hb, lb), k)
	case U64:
		return enc(signal.Scale[uint64](hb, lb), k)
	case UINT:
		return enc(signal.Scale[uint](hb, lb), k)
	case UINTPTR:
		return enc(signal.Scale[uintptr](hb, lb), k)
	}
	panic("scale kind")
}

func genC16(g *Kern, r *Rng, tier string) {
	n := 40
	if tier == "thorough" {
		n = 1500
	}
	for b := 0; b <= 64; b++ {
		bd := signal.BitDepth(b)
		if p := try(func() {
			fmt.Fprintf(g.out, "bd %d %d %d %d\n", b, bd.MaxSignedValue(), bd.MaxUnsignedValue(), bd.MinSignedValue())
		}); p != "" {
			// none of the bit-depth functions panics for any argument
			fmt.Fprintf(g.out, "c16panic bounds b=%d %s\n", b, strings.ReplaceAll(p, " ", "_"))
		}
		g.st.lines++
		vals := append([]uint64{}, intBoundary(I64)...)
		for i := 0; i < n; i++ {
			vals = append(vals, r.Next())
		}
		// values around this depth's bounds
		for d := int64(-3); d <= 3; d++ {
			if b >= 1 {
				vals = append(vals, uint64(int64(1)<<(b-1))+uint64(d), uint64(-(int64(1)<<(b-1)))+uint64(d), (uint64(1)<<(b%64))+uint64(d))
			}
		}
		for _, v := range vals {
			if p := try(func() {
				fmt.Fprintf(g.out, "sv %d %d %d\n", b, int64(v), bd.SignedValue(int64(v)))
				fmt.Fprintf(g.out, "uv %d %d %d\n", b, v, bd.UnsignedValue(v))
			}); p != "" {
				fmt.Fprintf(g.out, "c16panic clip b=%d v=%d %s\n", b, v, strings.ReplaceAll(p, " ", "_"))
			}
			g.st.lines += 2
		}
		g.st.cases++
	}
	for k := Kind(0); k < NKinds; k++ {
		if !isInt(k) {
			continue
		}
		for h := 1; h <= 64; h++ {
			for l := 1; l <= h; l++ {
				var sc uint64
				if p := try(func() { sc = scaleCall(k, h, l) }); p != "" {
					fmt.Fprintf(g.out, "c16panic Scale kind=%s high=%d low=%d %s\n", k, h, l, strings.ReplaceAll(p, " ", "_"))
				} else {
					fmt.Fprintf(g.out, "scale %s %d %d %s\n", k, h, l, cellString(sc, k))
				}
				g.st.lines++
			}
		}
		g.st.cases++
	}
	g.st.sample("bd 24 8388607 16777215 -8388608")
	c16Concurrent(g, r, tier)
}

// c16Concurrent: the bit-depth functions are pure; called from many goroutines at once, each with its own depth,
// they must return what they return alone (process-wide caches of "the last depth" are shared state). Results that
// differ from the sequential ones are emitted as ordinary `sv` / `uv` / `bd` lines for the predicates to judge.
var c16Sink int
var c16Go, c16Ready int32
var c16Spinners = 1

func c16Concurrent(g *Kern, r *Rng, tier string) {
	depths := []int{8, 16, 24, 32, 5, 63, 64, 1, 12, 48}
	iters := 30000
	if tier == "thorough" {
		iters = 400000
	}
	if tier == "cold" {
		iters = 300 // the first few calls are the ones that matter
	}
	type rec struct {
		kind string
		b    int
		v    uint64
		got  uint64
	}
	var mu sync.Mutex
	var bad []rec
	var wg sync.WaitGroup
	c16Start := make(chan struct{})
	c16Spinners = runtime.GOMAXPROCS(0) - 2
	if c16Spinners < 1 {
		c16Spinners = 1
	}
	if c16Spinners > 12 {
		c16Spinners = 12
	}
	if tier == "cold" {
		// more goroutines than depths: several per depth, so that some always run while the first caller is still
		// inside whatever the first call sets up
		depths = append(append(append([]int{}, depths...), depths...), depths...)
		depths = append(depths, depths...)
	}
	for gi, d := range depths {
		wg.Add(1)
		seed := r.Next()
		go func(gi, d int, seed uint64) {
			defer wg.Done()
			defer func() { recover() }()
			if tier == "cold" && gi < c16Spinners {
				// the first goroutines wait on a flag they poll (one per processor), so that they really start
				// within nanoseconds of each other; the rest wait on the channel
				atomic.AddInt32(&c16Ready, 1)
				for atomic.LoadInt32(&c16Go) == 0 {
				}
			} else {
				<-c16Start
			}
			spin := 0
			for i := 0; i < gi*40; i++ { // ... staggered by a fraction of a microsecond each
				spin += i
			}
			c16Sink += spin
			lr := &Rng{s: seed}
			bd := signal.BitDepth(d)
			// sequential reference, computed before the other goroutines start mattering: plain arithmetic
			maxS := int64(1)<<(d-1) - 1
			minS := -int64(1) << (d - 1)
			maxU := uint64(1)<<(d%64) - 1
			if d == 64 {
				maxU = ^uint64(0)
			}
			for it := 0; it < iters; it++ {
				v := lr.Next()
				if it%3 == 0 {
					v = uint64(int64(1)<<(d-1)) + uint64(int64(it%7)-3)
				}
				want := int64(v)
				if want > maxS {
					want = maxS
				} else if want < minS {
					want = minS
				}
				if got := bd.SignedValue(int64(v)); got != want {
					mu.Lock()
					if len(bad) < 8 {
						bad = append(bad, rec{"sv", d, v, uint64(got)})
					}
					mu.Unlock()
				}
				wantU := v
				if wantU > maxU {
					wantU = maxU
				}
				if got := bd.UnsignedValue(v); got != wantU {
					mu.Lock()
					if len(bad) < 8 {
						bad = append(bad, rec{"uv", d, v, got})
					}
					mu.Unlock()
				}
				if it%64 == 0 || tier == "cold" {
					if a, b2, c := bd.MaxSignedValue(), bd.MaxUnsignedValue(), bd.MinSignedValue(); a != maxS || b2 != maxU || c != minS {
						mu.Lock()
						if len(bad) < 8 {
							bad = append(bad, rec{"bd", d, uint64(a), b2})
						}
						mu.Unlock()
					}
				}
			}
		}(gi, d, seed)
	}
	if tier == "cold" {
		for atomic.LoadInt32(&c16Ready) < int32(c16Spinners) {
			runtime.Gosched()
		}
	}
	atomic.StoreInt32(&c16Go, 1)
	close(c16Start)
	wg.Wait()
	for _, x := range bad {
		switch x.kind {
		case "sv":
			fmt.Fprintf(g.out, "sv %d %d %d\n", x.b, int64(x.v), int64(x.got))
		case "uv":
			fmt.Fprintf(g.out, "uv %d %d %d\n", x.b, x.v, x.got)
		case "bd":
			bd := signal.BitDepth(x.b)
			fmt.Fprintf(g.out, "bd %d %d %d %d\n", x.b, int64(x.v), x.got, bd.MinSignedValue())
		}
		g.st.lines++
	}
	g.st.Branches["c16-concurrent-goroutines"] += len(depths)
	g.st.Branches["c16-concurrent-differences"] += len(bad)
}

// ---------- C17 ----------

func genC17(g *Kern, r *Rng, tier string) {
	rates := []float64{8000, 11025, 16000, 22050, 32000, 44100, 48000, 88200, 96000, 176400, 192000, 352800, 384000, 2822400, 5644800,
		1, 2, 3, 7, 10, 50, 60, 1000, 999999, 1000000, 0.5, 0.1, 29.97, 23.976, 44099.5, 1e-3, 3.5e6}
	// every standard sample rate: 8000, 11025 and 12000 Hz times powers of two up to 24.576 MHz (tables of "known
	// rates" are a natural place for a typo), and the pulled-down / pulled-up video rates
	seenRate := map[float64]bool{}
	for _, f := range rates {
		seenRate[f] = true
	}
	for _, base := range []float64{8000, 11025, 12000} {
		for k := 0; k <= 11; k++ {
			if f := base * float64(int(1)<<k); f <= 24576000 && !seenRate[f] {
				rates = append(rates, f)
				seenRate[f] = true
			}
		}
	}
	rates = append(rates, 47952, 48048, 44056, 44144, 50000, 50400, 37800, 18900)
	nr := 60
	per := 60
	if tier == "thorough" {
		nr, per = 1500, 300
	}
	for i := 0; i < nr; i++ {
		rates = append(rates, float64(r.Range(1, 1000000)))
	}
	for i := 0; i < nr/4; i++ {
		rates = append(rates, float64(r.Range(1, 1000000))+float64(r.Intn(1000))/1000)
	}
	emitDur := func(f float64, n int) {
		d := signal.Frequency(f).Duration(n)
		fmt.Fprintf(g.out, "dur %d %d %d\n", math.Float64bits(f), n, int64(d))
		g.st.lines++
	}
	emitEv := func(f float64, d int64) {
		n := signal.Frequency(f).Events(time.Duration(d))
		fmt.Fprintf(g.out, "ev %d %d %d\n", math.Float64bits(f), d, n)
		g.st.lines++
	}
	for _, f := range rates {
		maxN := int64(f * 86400)
		if maxN < 1 {
			maxN = 1
		}
		var ns []int64
		ns = append(ns, 0, 1, 2, maxN, maxN-1)
		for i := 0; i < per; i++ {
			ns = append(ns, int64(r.Next()%uint64(maxN+1)))
		}
		// counts near rounding ties of 1e9*n/f: n ≈ (k+0.5)*f/1e9
		for i := 0; i < per/2; i++ {
			k := float64(r.Next() % uint64(86400e9))
			n := int64((k + 0.5) * f / 1e9)
			for d := int64(-1); d <= 1; d++ {
				if n+d >= 0 && n+d <= maxN {
					ns = append(ns, n+d)
				}
			}
		}
		// counts that are whole multiples of the truncated and of the rounded rate ("whole seconds")
		for _, base := range []int64{int64(f), int64(f + 0.5), int64(f) + 1} {
			for _, kk := range []int64{1, 2, 3, 10, 60, 3600} {
				if base > 0 && base*kk <= maxN {
					ns = append(ns, base*kk)
				}
			}
		}
		// negative counts mirror a part of the positive ones (time.Duration and int are signed; the
		// error and order clauses are stated for every argument)
		for i, n := 0, len(ns); i < n; i += 3 {
			ns = append(ns, -ns[i])
		}
		sort.Slice(ns, func(i, j int) bool { return ns[i] < ns[j] })
		fmt.Fprintf(g.out, "freq %d\n", math.Float64bits(f))
		for _, n := range ns {
			emitDur(f, int(n))
		}
		// durations 0..24h, dense near ties of f*d/1e9
		var ds []int64
		ds = append(ds, 0, 1, 86400e9, 86400e9-1, 1e9, 1e9+1, 1e9-1)
		// spans of months and years (beyond 2^53 ns): the half-event clause has no upper limit on the duration
		if f <= 1000 {
			for _, big := range []int64{1<<53 + 1, 1<<53 + 1900000001, 1<<55 + 12345678901, 1<<60 + 987654321, 1<<62 + 5} {
				ds = append(ds, big, big+1900000000)
			}
		}
		for i := 0; i < per; i++ {
			ds = append(ds, int64(r.Next()%uint64(86400e9+1)))
		}
		for i := 0; i < per/2; i++ {
			k := float64(r.Next() % uint64(maxN+1))
			d := int64((k + 0.5) * 1e9 / f)
			for e := int64(-1); e <= 1; e++ {
				if d+e >= 0 && d+e <= 86400e9 {
					ds = append(ds, d+e)
				}
			}
		}
		// whole seconds and whole multiples of the nominal period
		for _, kk := range []int64{1, 2, 3, 10, 60, 3600} {
			ds = append(ds, kk*1000000000)
			if f >= 1 {
				ds = append(ds, kk*int64(1e9/f), kk*(int64(1e9/f)+1))
			}
		}
		for i, n := 0, len(ds); i < n; i += 3 {
			ds = append(ds, -ds[i])
		}
		sort.Slice(ds, func(i, j int) bool { return ds[i] < ds[j] })
		fmt.Fprintf(g.out, "freq %d\n", math.Float64bits(f))
		for _, d := range ds {
			emitEv(f, d)
		}
		// count -> duration -> count
		if f <= 1e6 {
			for _, n := range ns {
				d := signal.Frequency(f).Duration(int(n))
				n2 := signal.Frequency(f).Events(d)
				fmt.Fprintf(g.out, "frt %d %d %d %d\n", math.Float64bits(f), n, int64(d), n2)
				g.st.lines++
			}
		}
		g.st.cases++
		if f == math.Trunc(f) {
			g.st.branch("integer-rate")
		} else {
			g.st.branch("fractional-rate")
		}
	}
	g.st.sample(fmt.Sprintf("dur f=44100 n=44100 -> %d", int64(signal.Frequency(44100).Duration(44100))))
}

// ChannelLength direct calls (C20, C01)
func genChLen(g *Kern, r *Rng, tier string, minCh int) {
	for ch := minCh; ch <= 9; ch++ {
		for n := 0; n <= 40; n++ {
			fmt.Fprintf(g.out, "chlen %d %d %d\n", n, ch, signal.ChannelLength(n, ch))
			g.st.lines++
		}
	}
	for i := 0; i < 200; i++ {
		n := int(r.Next() % (1 << 50))
		ch := r.Range(minCh, 64)
		fmt.Fprintf(g.out, "chlen %d %d %d\n", n, ch, signal.ChannelLength(n, ch))
		g.st.lines++
	}
}

package main

// replay: re-executes the operations of a transcript excerpt (the "transcript" field of a replay
// file) against the implementation as it is now, and writes a fresh transcript for the model driver.
// Only the operation and its arguments are taken from the script; every outcome is observed anew.

import (
	"bufio"
	"fmt"
	"math"
	"os"
	"strconv"
	"strings"
	"time"

	"pipelined.dev/signal"
)

func kindOf(s string) Kind {
	for i, n := range kindNames {
		if n == s {
			return Kind(i)
		}
	}
	panic("bad kind " + s)
}

func parseCell(s string, k Kind) uint64 {
	if k.IsSigned() {
		v, _ := strconv.ParseInt(s, 10, 64)
		return uint64(v)
	}
	v, _ := strconv.ParseUint(s, 10, 64)
	return v
}

func atoi(s string) int {
	v, err := strconv.ParseInt(s, 10, 64)
	if err != nil {
		u, _ := strconv.ParseUint(s, 10, 64)
		return int(u)
	}
	return int(v)
}

func parseCols(t []string, i int, k Kind) ([][]uint64, int) {
	n := atoi(t[i])
	i++
	cols := make([][]uint64, n)
	for c := 0; c < n; c++ {
		l := atoi(t[i])
		i++
		if l < 0 {
			cols[c] = nil
			continue
		}
		cols[c] = make([]uint64, l)
		for j := 0; j < l; j++ {
			cols[c][j] = parseCell(t[i], k)
			i++
		}
	}
	return cols, i
}

var gorefDone = map[string]bool{}

func replayMain(args []string) {
	if len(args) != 2 {
		fmt.Fprintln(os.Stderr, "usage: corr replay <script> <transcript-out>")
		os.Exit(2)
	}
	in, err := os.Open(args[0])
	if err != nil {
		fmt.Fprintln(os.Stderr, err)
		os.Exit(2)
	}
	f, _ := os.Create(args[1])
	out := bufio.NewWriterSize(f, 1<<20)
	st := NewStats("replay", "replay", 0)
	w := NewWorld(out, st)
	g := &Kern{out, st}
	fmt.Fprintf(out, "transcript replay replay 0\n")
	// a script step that panics outside a guarded call (the implementation broke a promise the replay relies on)
	// is reported in the transcript, never as a crash of the harness
	defer func() {
		if e := recover(); e != nil {
			fmt.Fprintf(out, "gencrash %s\n", strings.ReplaceAll(fmt.Sprint(e), " ", "_"))
			out.Flush()
		}
	}()
	w.Case("replay")
	vmap := map[int]int{}
	mv := func(s string) int {
		v := atoi(s)
		if a, ok := vmap[v]; ok {
			return a
		}
		return -1
	}
	valid := func(vs ...int) bool {
		for _, v := range vs {
			if v < 0 || v >= len(w.views) || w.views[v] == nil {
				return false
			}
		}
		return true
	}
	var kctx [2]Kind
	var kxs []uint64
	kmode := ""
	flushK := func() {
		if kmode == "k" && len(kxs) > 0 {
			g.emitK(kctx[0], kctx[1], kxs)
		} else if kmode == "rt" && len(kxs) > 0 {
			g.emitRT(kctx[0], kctx[1], kxs)
		}
		kxs = nil
		kmode = ""
	}
	sc := bufio.NewScanner(in)
	sc.Buffer(make([]byte, 1<<20), 1<<26)
	for sc.Scan() {
		line := sc.Text()
		t := strings.Fields(line)
		if len(t) == 0 {
			continue
		}
		if t[0] != "k" && t[0] != "rt" {
			flushK()
		}
		switch t[0] {
		case "transcript", "v":
		case "case":
			w.Case(strings.Join(t[2:], " "))
			vmap = map[int]int{}
		case "alloc":
			v := w.Alloc(kindOf(t[2]), t[3] == "1", atoi(t[4]), atoi(t[5]), atoi(t[6]))
			vmap[atoi(t[1])] = v
		case "slice":
			if src := mv(t[2]); valid(src) {
				v := w.Slice(src, atoi(t[3]), atoi(t[4]))
				if atoi(t[1]) >= 0 {
					vmap[atoi(t[1])] = v
				}
			}
		case "asample":
			if v := mv(t[1]); valid(v) {
				w.AppendSample(v, parseCell(t[2], w.views[v].Kind()))
			}
		case "set":
			if v := mv(t[1]); valid(v) {
				w.Set(v, atoi(t[2]), parseCell(t[3], w.views[v].Kind()))
			}
		case "get":
			if v := mv(t[1]); valid(v) {
				w.Get(v, atoi(t[2]))
			}
		case "append":
			if d, s := mv(t[1]), mv(t[2]); valid(d, s) {
				w.Append(d, s)
			}
		case "cidx":
			if v := mv(t[1]); valid(v) {
				w.ChanIndex(v, atoi(t[2]), atoi(t[3]))
			}
		case "cget":
			if v := mv(t[1]); valid(v) {
				w.ChanGet(v, atoi(t[2]), atoi(t[3]))
			}
		case "cset":
			if v := mv(t[1]); valid(v) {
				w.ChanSet(v, atoi(t[2]), atoi(t[3]), parseCell(t[4], w.views[v].Kind()))
			}
		case "cshape":
			if v := mv(t[1]); valid(v) {
				w.ChanShape(v, atoi(t[2]))
			}
		case "write", "read":
			if v := mv(t[1]); valid(v) {
				k := kindOf(t[2])
				n := atoi(t[3])
				vals := make([]uint64, n)
				for i := 0; i < n; i++ {
					vals[i] = parseCell(t[4+i], k)
				}
				if t[0] == "write" {
					w.Write(v, k, vals)
				} else {
					w.Read(v, k, vals)
				}
			}
		case "wstriped", "rstriped":
			if v := mv(t[1]); valid(v) {
				k := kindOf(t[2])
				cols, _ := parseCols(t, 3, k)
				if t[0] == "wstriped" {
					w.WriteStriped(v, k, cols)
				} else {
					w.ReadStriped(v, k, cols)
				}
			}
		case "conv":
			if s, d := mv(t[2]), mv(t[3]); valid(s, d) {
				w.Conv(s, d)
			}
		case "pool":
			w.Pool(kindOf(t[2]), atoi(t[3]), atoi(t[4]), atoi(t[5]))
		case "pget":
			pid := atoi(t[1])
			if pid < len(w.pools) {
				v := w.PGet(pid)
				if atoi(t[2]) >= 0 && t[3] == "new" {
					vmap[atoi(t[2])] = v
				}
			}
		case "pput":
			pid := atoi(t[1])
			if v := mv(t[2]); pid < len(w.pools) && valid(v) {
				w.PPut(pid, v)
			}
		case "kseq":
			kctx = [2]Kind{kindOf(t[2]), kindOf(t[3])}
			kmode = "k"
		case "k":
			kxs = append(kxs, parseCell(t[1], kctx[0]))
		case "rtseq":
			kctx = [2]Kind{kindOf(t[3]), kindOf(t[4])}
			kmode = "rt"
		case "rt":
			kxs = append(kxs, parseCell(t[1], kctx[0]))
		case "goref":
			// a native screen: the replay runs the whole screen of that clause again (all its scenarios)
			if len(t) >= 3 && !gorefDone[t[2]] {
				gorefDone[t[2]] = true
				genTier = "thorough"
				rr := &Rng{s: 12345}
				switch t[2] {
				case "append-equals-plain-slices":
					genBigRef(g, rr, "thorough")
					genHugeAppend(g, rr, "thorough")
				case "many-growing-appends":
					genGrowMany(g, rr, "thorough")
				case "many-small-allocations", "large-allocation":
					genManyAllocs(g, rr, "quick")
				case "same-named-local-types":
					genLocalTypes(g)
				case "huge-read-write":
					genHugeRW(g, rr, "thorough")
				case "huge-pool-buffer-fresh":
					genHugePool(g, rr, "thorough")
				case "bulk-pool":
					genBulkPool(g, rr, "quick")
				case "concurrent-pool":
					genConcurrentPool(g, rr, "quick")
				case "huge-length":
					genHugeLength(g, rr, "thorough")
				case "giant-buffer":
					genGiant(g, t[1])
				case "wide-channel-view":
					genC14Wide(g, rr, "thorough")
				case "position-wise-at-any-length":
					genHugeConv(g, rr, "thorough")
				case "huge-position-independence":
					// the pair named in the line, at every length
					var sk, dk Kind = -1, -1
					for _, f := range t {
						if strings.HasPrefix(f, "sk=") {
							sk = kindOf(f[3:])
						} else if strings.HasPrefix(f, "dk=") {
							dk = kindOf(f[3:])
						}
					}
					if sk >= 0 && dk >= 0 {
						sp := intSpecials(sk)
						if sk.IsFloat() {
							sp = floatSpecials(sk)
						}
						gorefDone[t[2]] = false // several pairs may be named
						hugeAllLengths = true
						hugeCounter = 0
						genTier = "thorough"
						g.hugeScreenOpt(sk, dk, sp, false)
						hugeAllLengths = false
					}
				default:
					fmt.Fprintln(out, line)
				}
			}
		case "bd", "sv", "uv", "scale":
			// (none of these functions panics: a panic is reported, not propagated)
			if p := try(func() {
				switch t[0] {
				case "bd":
					b := atoi(t[1])
					bd := signal.BitDepth(b)
					fmt.Fprintf(out, "bd %d %d %d %d\n", b, bd.MaxSignedValue(), bd.MaxUnsignedValue(), bd.MinSignedValue())
				case "sv":
					v, _ := strconv.ParseInt(t[2], 10, 64)
					fmt.Fprintf(out, "sv %s %d %d\n", t[1], v, signal.BitDepth(atoi(t[1])).SignedValue(v))
				case "uv":
					v, _ := strconv.ParseUint(t[2], 10, 64)
					fmt.Fprintf(out, "uv %s %d %d\n", t[1], v, signal.BitDepth(atoi(t[1])).UnsignedValue(v))
				case "scale":
					k := kindOf(t[1])
					fmt.Fprintf(out, "scale %s %s %s %s\n", t[1], t[2], t[3], cellString(scaleCall(k, atoi(t[2]), atoi(t[3])), k))
				}
			}); p != "" {
				fmt.Fprintf(out, "c16panic %s %s\n", strings.Join(t, "_"), strings.ReplaceAll(p, " ", "_"))
			}
		case "freq":
			fmt.Fprintln(out, line)
		case "dur":
			fb, _ := strconv.ParseUint(t[1], 10, 64)
			d := signal.Frequency(math.Float64frombits(fb)).Duration(atoi(t[2]))
			fmt.Fprintf(out, "dur %s %s %d\n", t[1], t[2], int64(d))
		case "ev":
			fb, _ := strconv.ParseUint(t[1], 10, 64)
			n := signal.Frequency(math.Float64frombits(fb)).Events(time.Duration(atoi(t[2])))
			fmt.Fprintf(out, "ev %s %s %d\n", t[1], t[2], n)
		case "frt":
			fb, _ := strconv.ParseUint(t[1], 10, 64)
			fr := signal.Frequency(math.Float64frombits(fb))
			d := fr.Duration(atoi(t[2]))
			fmt.Fprintf(out, "frt %s %s %d %d\n", t[1], t[2], int64(d), fr.Events(d))
		case "chlen":
			fmt.Fprintf(out, "chlen %s %s %d\n", t[1], t[2], signal.ChannelLength(atoi(t[1]), atoi(t[2])))
		default:
			replayExtra(w, g, t, line)
		}
	}
	flushK()
	out.Flush()
	f.Close()
}

package main

// corr: correspondence harness. Runs the real pipelined.dev/signal code in-process on generated
// cases and writes a transcript that the Lean driver replays on the model.
//
//   corr gen <property> <tier> <seed> <transcript-out> <stats-out>
//   corr race <property> <tier> <seed> <transcript-out> <stats-out>   (binary built with -race)
//   corr allocs <tier> <seed> <transcript-out> <stats-out>

import (
	"bufio"
	"fmt"
	"os"
	"strconv"
	"strings"
)

func main() {
	if len(os.Args) < 2 {
		fmt.Fprintln(os.Stderr, "usage: corr gen|race|allocs ...")
		os.Exit(2)
	}
	switch os.Args[1] {
	case "gen":
		if len(os.Args) != 7 {
			fmt.Fprintln(os.Stderr, "usage: corr gen <property> <tier> <seed> <transcript> <stats>")
			os.Exit(2)
		}
		prop, tier := os.Args[2], os.Args[3]
		seed, _ := strconv.ParseUint(os.Args[4], 10, 64)
		f, err := os.Create(os.Args[5])
		if err != nil {
			fmt.Fprintln(os.Stderr, err)
			os.Exit(2)
		}
		out := bufio.NewWriterSize(f, 1<<20)
		st := NewStats(prop, tier, seed)
		r := &Rng{s: seed*0x9E3779B97F4A7C15 + 0x1234567}
		fmt.Fprintf(out, "transcript %s %s %d\n", prop, tier, seed)
		if prop == "C16" {
			// the very first calls of the bit-depth functions in this process come from many goroutines at once
			// (tables built on first use behind a flag that is set too early are read half-built only then)
			c16Concurrent(&Kern{out, st}, r, "cold")
		}
		runCorpus(prop, out, st)
		func() {
			// the generators assume what the properties promise (e.g. capacity >= length); when the
			// implementation breaks such a promise a generator may index out of range. That is reported
			// in the transcript (the driver turns it into a divergence), not as a harness failure.
			defer func() {
				if e := recover(); e != nil {
					fmt.Fprintf(out, "gencrash %s\n", strings.ReplaceAll(fmt.Sprint(e), " ", "_"))
				}
			}()
			gen(prop, tier, r, out, st)
		}()
		out.Flush()
		f.Close()
		st.Write(os.Args[6])
	case "race":
		raceMain(os.Args[2:])
	case "allocs":
		allocsMain(os.Args[2:])
	case "replay":
		// corr replay <script> <transcript-out>: re-run a replay script (one generator op per line)
		replayMain(os.Args[2:])
	default:
		fmt.Fprintln(os.Stderr, "unknown subcommand")
		os.Exit(2)
	}
}

func gen(prop, tier string, r *Rng, out *bufio.Writer, st *Stats) {
	genTier, genSeed = tier, st.Seed
	w := NewWorld(out, st)
	g := &Kern{out, st}
	switch prop {
	case "C01":
		genC01(w, r, tier)
		genC01Long(w, r, tier)
		genC01Zeros(w, r, tier)
		genChLen(g, r, tier, 1)
		genHugeRW(g, r, tier)
		genStripedAliased(w, r, tier)
		genStripedWide(w, r, tier)
	case "C02":
		genC02(w, r, tier)
		genC02Long(w, r, tier)
	case "C03":
		genC03(w, r, tier)
		genC03Long(w, r, tier)
		genC03Thresholds(w, r, tier)
		genBigRef(g, r, tier)
		genHugeAppend(g, r, tier)
		genGrowMany(g, r, tier)
	case "C04":
		genC04(w, r, tier)
		genC04Long(w, r, tier)
		genHugeLength(g, r, tier)
		genGiant(g, "C04")
	case "C05":
		genC05(w, r, tier)
		genC05Long(w, r, tier)
		genF2F(g, r, tier)
		genHugeConv(g, r, tier)
		if tier == "thorough" {
			genGiant(g, "C05")
		}
	case "C06":
		genQuant(g, r, tier, false)
		if tier == "thorough" && os.Getenv("VERIF_NO_SWEEP32") == "" {
			genQuantSweep32(g, false)
		}
	case "C07":
		genGiant(g, "C07")
		genQuant(g, r, tier, true)
		if tier == "thorough" && os.Getenv("VERIF_NO_SWEEP32") == "" {
			genQuantSweep32(g, true)
		}
	case "C08":
		genC08(g, r, tier)
		if tier == "thorough" && os.Getenv("VERIF_NO_SWEEP32") == "" {
			genC08Sweep32(g)
		}
	case "C09":
		genC09(g, r, tier)
		if tier == "thorough" && os.Getenv("VERIF_NO_SWEEP32") == "" {
			genC09Sweep32(g)
		}
	case "C10":
		genC10(w, r, tier)
		genC10Routes(w, r, tier)
		genHugePool(g, r, tier)
		genBulkPool(g, r, tier)
		genConcurrentPool(g, r, tier)
	case "C12":
		genC12(w, r, tier)
		genC12Overlap(w, r, tier)
		genBigRef(g, r, tier)
		genHugeAppend(g, r, tier)
		genGrowMany(g, r, tier)
		genStripedWide(w, r, tier)
	case "C13":
		genC13(w, r, tier)
		genManyAllocs(g, r, tier)
		genLocalTypes(g)
	case "C14":
		genC14(w, r, tier)
		genC14Long(w, r, tier)
		genC14Zeros(w, r, tier)
		genC14Moved(w, r, tier)
		genC14Wide(g, r, tier)
	case "C15":
		genC15(w, r, tier)
	case "C16":
		genC16(g, r, tier)
	case "C17":
		genC17(g, r, tier)
	case "C20":
		genC20(w, r, tier)
		genChLen(g, r, tier, 0)
	default:
		fmt.Fprintln(os.Stderr, "no generator for", prop)
		os.Exit(2)
	}
	// mixed histories over the whole API, after the property's own generators (whose random streams
	// stay as they were)
	switch prop {
	case "C01", "C02", "C03", "C04", "C05", "C10", "C12", "C13", "C14", "C15", "C20":
		genMix(w, r, tier, prop)
	}
	switch prop {
	case "C15", "C20", "C03", "C05", "C12":
		genZeroValue(w, r, tier, prop)
	}
}

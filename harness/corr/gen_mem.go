package main

// Generators for the properties decided on the memory model (buffers, views, readers/writers,
// conversions as whole-buffer operations, pool histories).

import (
	"fmt"
	"math"
)

func (w *World) Drop(vid int) {
	if vid >= 0 && vid < len(w.views) {
		if b := w.views[vid]; b != nil {
			// the header may be collected and its address reused by a later allocation (for instance by a
			// buffer the pool allocates): forget the address, or that buffer would be taken for this view
			if w.hdr[b.HeaderPtr()] == vid {
				delete(w.hdr, b.HeaderPtr())
			}
		}
		w.views[vid] = nil
	}
}

// fillAll writes the pattern over the whole capacity of view v (through a temporary full view).
func fillAll(w *World, v int, start int) {
	if v < 0 || v >= len(w.views) || w.views[v] == nil {
		return
	}
	b := w.views[v]
	if b.Channels() == 0 || b.Cap() == 0 {
		return
	}
	full := w.Slice(v, 0, b.Capacity())
	if full < 0 {
		return
	}
	n := w.views[full].Len()
	vals := make([]uint64, n)
	for i := range vals {
		vals[i] = patt(b.Kind(), start+i)
	}
	w.Write(full, b.Kind(), vals)
	w.Drop(full)
}

// mkBuf allocates a buffer of kind k, fills its whole capacity with a pattern and (optionally)
// returns a window of it. Returns (base, view).
func mkBuf(w *World, r *Rng, k Kind, ch, maxFrames int, window bool) (int, int) {
	K := r.Range(0, maxFrames)
	L := r.Range(0, K)
	base := w.Alloc(k, false, ch, L, K)
	fillAll(w, base, r.Intn(50))
	w.st.shape("ch%d/K%d/L%d/win%v", ch, K, L, window)
	if !window || K == 0 {
		return base, base
	}
	s := r.Range(0, K)
	e := r.Range(s, K)
	v := w.Slice(base, s, e)
	return base, v
}

// value cells of kind sk that convert to kind dk without an implementation-defined step
func valFor(r *Rng, sk, dk Kind) uint64 {
	neg := !sk.IsUnsigned() && !dk.IsUnsigned()
	n := r.Range(1, 100)
	if neg && r.Bool() {
		n = -n
	}
	if r.Intn(10) == 0 {
		n = 0
	}
	return small(sk, n)
}

func valsFor(r *Rng, sk, dk Kind, n int) []uint64 {
	out := make([]uint64, n)
	for i := range out {
		out[i] = valFor(r, sk, dk)
	}
	return out
}

func lenChoice(r *Rng, n int) int {
	switch r.Intn(5) {
	case 0:
		return 0
	case 1:
		return r.Range(0, n)
	case 2:
		return n
	case 3:
		return n + r.Range(1, 4)
	}
	return maxInt(0, n-1)
}

func randCols(r *Rng, sk, dk Kind, nch, frames int, allowNil bool) [][]uint64 {
	cols := make([][]uint64, nch)
	for c := range cols {
		switch r.Intn(6) {
		case 0:
			if allowNil {
				cols[c] = nil
			} else {
				cols[c] = []uint64{}
			}
		case 1:
			cols[c] = []uint64{}
		default:
			cols[c] = valsFor(r, sk, dk, lenChoice(r, frames))
		}
	}
	return cols
}

// longShape: shapes around the thresholds at which fast paths, unrolling or chunking usually switch
// (frames next to 32..4096, channel counts up to 32), bounded so that a dump stays below ~4200 cells.
func longShape(r *Rng) (ch, frames int) {
	fr := []int{31, 32, 33, 63, 64, 65, 100, 127, 128, 129, 255, 256, 257, 511, 512, 513, 1000, 1023, 1024, 1025, 2047, 2048, 2049, 4095, 4096, 4097}
	chs := []int{1, 2, 3, 4, 5, 7, 8, 9, 15, 16, 17, 32}
	for {
		ch, frames = chs[r.Intn(len(chs))], fr[r.Intn(len(fr))]
		if ch*frames <= 4200 {
			return
		}
	}
}

func nLong(tier string) int {
	if tier == "thorough" {
		return 40
	}
	return 6
}

func genC01(w *World, r *Rng, tier string) {
	reps := 1
	maxCh, maxFr := 4, 4
	if tier == "thorough" {
		reps, maxCh, maxFr = 6, 8, 6
	}
	for rep := 0; rep < reps; rep++ {
		for sk := Kind(0); sk < NKinds; sk++ {
			for dk := Kind(0); dk < NKinds; dk++ {
				w.Case(fmt.Sprintf("C01 %s>%s", sk, dk))
				ch := r.Range(1, maxCh)
				window := r.Bool()
				_, v := mkBuf(w, r, dk, ch, maxFr, window)
				if v < 0 {
					continue
				}
				// interleaved write, then read back into the source kind
				n := lenChoice(r, w.views[v].Len())
				w.Write(v, sk, valsFor(r, sk, dk, n))
				m := lenChoice(r, w.views[v].Len())
				w.Read(v, sk, valsFor(r, sk, sk, m))
				// striped forms
				fr := w.views[v].Length()
				w.WriteStriped(v, sk, randCols(r, sk, dk, ch, fr, true))
				w.ReadStriped(v, sk, randCols(r, sk, sk, ch, fr, true))
				// cross forms: striped write then interleaved read, interleaved write then striped read
				w.Read(v, sk, valsFor(r, sk, sk, w.views[v].Len()))
				if r.Bool() {
					w.Write(v, sk, valsFor(r, sk, dk, w.views[v].Len()))
					full := make([][]uint64, ch)
					for c := range full {
						full[c] = valsFor(r, sk, sk, fr)
					}
					w.ReadStriped(v, sk, full)
				}
				// partial last frame
				if ch > 1 && w.views[v].Len() < w.views[v].Cap() && r.Bool() {
					w.AppendSample(v, patt(dk, 7))
					w.Write(v, sk, valsFor(r, sk, dk, lenChoice(r, w.views[v].Len())))
					w.Read(v, sk, valsFor(r, sk, sk, lenChoice(r, w.views[v].Len())))
					// striped forms on the partly filled last frame: covered as far as it exists
					frp := w.views[v].Length()
					w.WriteStriped(v, sk, randCols(r, sk, dk, ch, frp, true))
					w.ReadStriped(v, sk, randCols(r, sk, sk, ch, frp, true))
					fullCols := make([][]uint64, ch)
					for c := range fullCols {
						fullCols[c] = valsFor(r, sk, dk, frp)
					}
					w.WriteStriped(v, sk, fullCols)
					for c := range fullCols {
						fullCols[c] = valsFor(r, sk, sk, frp+1)
					}
					w.ReadStriped(v, sk, fullCols)
					w.st.branch("striped-on-partial-frame")
					// an Append of the missing samples makes the frames whole again (two partial frames
					// joined): every form must then see the new frame count
					if rem := w.views[v].Len() % ch; rem != 0 && r.Bool() {
						tail := w.Alloc(dk, false, ch, 0, 1)
						for i := 0; i < ch-rem; i++ {
							w.AppendSample(tail, patt(dk, 20+i))
						}
						w.Append(v, tail)
						w.st.branch("striped-after-joining-append")
						fr2 := w.views[v].Length()
						w.WriteStriped(v, sk, randCols(r, sk, dk, ch, fr2, false))
						w.ReadStriped(v, sk, randCols(r, sk, sk, ch, fr2, false))
						w.Read(v, sk, valsFor(r, sk, sk, w.views[v].Len()))
					}
				}
			}
		}
	}
}

// the sign of zero: writers store what they are given also when it compares equal to what is there
func genC01Zeros(w *World, r *Rng, tier string) {
	for _, sk := range []Kind{F32, F64} {
		for _, dk := range []Kind{F32, F64} {
			for _, ch := range []int{1, 2} {
				w.Case(fmt.Sprintf("C01 zeros %s>%s ch%d", sk, dk, ch))
				v := w.Alloc(dk, false, ch, 3, 3) // fresh: +0 everywhere
				n := 3 * ch
				neg := make([]uint64, n)
				pos := make([]uint64, n)
				for i := range neg {
					neg[i] = floatCell(math.Copysign(0, -1), sk)
					pos[i] = floatCell(0, sk)
				}
				w.Write(v, sk, neg) // -0 over +0
				w.Read(v, sk, pos)
				w.Write(v, sk, pos) // +0 over -0
				w.Read(v, sk, neg)
				colsN := make([][]uint64, ch)
				colsP := make([][]uint64, ch)
				for c := range colsN {
					colsN[c] = neg[:3]
					colsP[c] = pos[:3]
				}
				w.WriteStriped(v, sk, colsN)
				w.ReadStriped(v, sk, colsP)
				w.WriteStriped(v, sk, colsP)
				w.ReadStriped(v, sk, colsN)
				w.Set(v, 0, floatCell(math.Copysign(0, -1), dk))
				w.Get(v, 0)
				w.ChanSet(v, ch-1, 1, floatCell(math.Copysign(0, -1), dk))
				w.ChanGet(v, ch-1, 1)
			}
		}
	}
}

// long buffers and many channels for the readers / writers (C01)
func genC01Long(w *World, r *Rng, tier string) {
	for i := 0; i < nLong(tier); i++ {
		sk, dk := r.Kind(), r.Kind()
		if i%2 == 0 {
			sk = dk // same-type paths are where bulk copies live
		}
		ch, fr := longShape(r)
		w.Case(fmt.Sprintf("C01 long %s>%s ch%d fr%d", sk, dk, ch, fr))
		w.st.shape("long/ch%d/fr%d", ch, fr)
		base := w.Alloc(dk, false, ch, fr, fr+r.Range(0, 2))
		fillAll(w, base, 3)
		v := base
		if r.Bool() {
			s := r.Range(0, 3)
			v = w.Slice(base, s, fr-r.Range(0, 2))
		}
		L := w.views[v].Len()
		for _, n := range []int{L, L - 1, L + 5, L / 2} {
			w.Write(v, sk, valsFor(r, sk, dk, maxInt(0, n)))
			w.Read(v, sk, valsFor(r, sk, sk, maxInt(0, n)))
		}
		frames := w.views[v].Length()
		cols := make([][]uint64, ch)
		for c := range cols {
			switch c % 4 {
			case 0:
				cols[c] = valsFor(r, sk, dk, frames)
			case 1:
				cols[c] = valsFor(r, sk, dk, frames-1)
			case 2:
				cols[c] = valsFor(r, sk, dk, frames/2)
			default:
				cols[c] = valsFor(r, sk, dk, frames+2)
			}
		}
		w.WriteStriped(v, sk, cols)
		rcols := make([][]uint64, ch)
		for c := range rcols {
			rcols[c] = valsFor(r, sk, sk, frames-c%3)
		}
		w.ReadStriped(v, sk, rcols)
	}
}

func genC02(w *World, r *Rng, tier string) {
	reps := 12
	maxCh, maxFr := 4, 4
	if tier == "thorough" {
		reps, maxCh, maxFr = 120, 8, 6
	}
	for rep := 0; rep < reps; rep++ {
		k := r.Kind()
		ch := r.Range(1, maxCh)
		w.Case(fmt.Sprintf("C02 grid %s ch%d", k, ch))
		_, v := mkBuf(w, r, k, ch, maxFr, rep%2 == 1)
		if v < 0 {
			continue
		}
		K := w.views[v].Capacity()
		for s := -2; s <= K+2; s++ {
			for e := -2; e <= K+2; e++ {
				c := w.Slice(v, s, e)
				w.Drop(c)
			}
		}
		// a window is a new header: growing the window must not grow the parent (and the reverse)
		L0 := w.views[v].Length()
		for _, se := range [][2]int{{0, L0}, {0, K}, {0, 0}, {minInt(1, L0), L0}} {
			c := w.Slice(v, se[0], se[1])
			if c < 0 {
				continue
			}
			w.AppendSample(c, small(k, 41))
			w.AppendSample(c, small(k, 42))
			w.AppendSample(v, small(k, 43))
			if w.views[c].Len() > 0 {
				w.Set(c, w.views[c].Len()-1, small(k, 44))
			}
			w.Get(v, w.views[v].Len()-1)
			w.Drop(c)
		}
		// arguments whose product with the channel count overflows int
		for _, se := range [][2]int{
			{1<<62 + 1, 1<<62 + 2}, {1 << 62, 1<<62 + 1}, {-(1 << 62), 1}, {0, 1<<63 - 1}, {1<<63 - 1, 1<<63 - 1},
			{-(1 << 63), 0}, {1 << 61, 1<<61 + 1}, {1<<63 - 2, 1<<63 - 1}, {(1 << 62) / 3 * 2, (1<<62)/3*2 + 1},
			{0, 1<<62 + 1}, {0, (1<<63-1)/ch + 1}, {(1<<63-1)/ch + 1, (1<<63-1)/ch + 2},
		} {
			c := w.Slice(v, se[0], se[1])
			w.Drop(c)
		}
		// nesting with write-through in both directions
		cur := v
		for depth := 0; depth < 4; depth++ {
			Kc := w.views[cur].Capacity()
			s := r.Range(0, Kc)
			e := r.Range(s, Kc)
			c := w.Slice(cur, s, e)
			if c < 0 {
				break
			}
			if w.views[c].Len() > 0 {
				w.Set(c, r.Intn(w.views[c].Len()), small(k, 100-depth))
			}
			if w.views[cur].Len() > 0 {
				w.Set(cur, r.Intn(w.views[cur].Len()), small(k, 90-depth))
			}
			w.Get(c, r.Range(-1, w.views[c].Len()))
			cur = c
		}
	}
}

func genC03(w *World, r *Rng, tier string) {
	reps := 60
	if tier == "thorough" {
		reps = 800
	}
	chs := []int{1, 2, 3, 5, 7}
	for rep := 0; rep < reps; rep++ {
		k := r.Kind()
		ch := chs[r.Intn(len(chs))]
		w.Case(fmt.Sprintf("C03 %s ch%d", k, ch))
		// destination: possibly a window with spare capacity inside a larger buffer, plus a sibling
		// view over that spare capacity
		K := r.Range(0, 6)
		L := r.Range(0, K)
		base := w.Alloc(k, false, ch, L, K)
		fillAll(w, base, 0)
		dst := base
		sib := -1
		if K > 0 && r.Bool() {
			s := r.Range(0, K)
			e := r.Range(s, K)
			dst = w.Slice(base, s, e)
			if e < K {
				sib = w.Slice(base, e, K)
			}
		}
		_ = sib
		nApp := r.Range(1, 4)
		for a := 0; a < nApp; a++ {
			var src int
			switch r.Intn(6) {
			case 0: // self-append
				src = dst
				w.st.branch("self")
			default:
				// source length: empty / exact fit / one frame short / far too large
				spare := maxInt(0, w.views[dst].Capacity()-w.views[dst].Length())
				var sl int
				switch r.Intn(5) {
				case 0:
					sl = 0
				case 1:
					sl = spare
				case 2:
					sl = spare + 1
				case 3:
					sl = maxInt(0, spare-1)
				default:
					sl = spare + r.Range(2, 9)
				}
				sk := sl + r.Range(0, 2)
				src = w.Alloc(k, false, ch, sl, sk)
				fillAll(w, src, 40+10*a)
				// restore the source length after fillAll (fillAll does not change it)
			}
			// partially filled last frames on either side (single-sample appends)
			if ch > 1 && r.Intn(3) == 0 {
				for n := r.Range(1, ch-1); n > 0 && w.views[dst].Len() < w.views[dst].Cap(); n-- {
					w.AppendSample(dst, small(k, 70+n))
				}
				w.st.branch("dst-partial-frame")
			}
			if ch > 1 && src != dst && r.Intn(3) == 0 {
				for n := r.Range(1, ch-1); n > 0 && w.views[src].Len() < w.views[src].Cap(); n-- {
					w.AppendSample(src, small(k, 80+n))
				}
				w.st.branch("src-partial-frame")
			}
			// a source that fills the destination's capacity exactly, counted in samples (both last
			// frames partial when the destination's is)
			if rem := w.views[dst].Cap() - w.views[dst].Len(); ch > 1 && src != dst && rem > 0 && rem%ch != 0 && r.Bool() {
				src = w.Alloc(k, false, ch, rem/ch, rem/ch+1)
				fillAll(w, src, 45)
				for n := 0; n < rem%ch; n++ {
					w.AppendSample(src, small(k, 85+n))
				}
				w.st.branch("exact-sample-fit")
			}
			before := w.views[dst].Cap()
			need := w.views[dst].Len() + w.views[src].Len()
			if before < need {
				w.st.branch("grow")
			} else {
				w.st.branch("inplace")
			}
			w.Append(dst, src)
			if src != dst && r.Bool() {
				w.Drop(src)
			}
			// later writes on both sides (isolation after growth / sharing in place)
			if w.views[dst].Len() > 0 {
				w.Set(dst, r.Intn(w.views[dst].Len()), small(k, 99))
			}
			if w.views[base].Len() > 0 {
				w.Set(base, r.Intn(w.views[base].Len()), small(k, 98))
			}
		}
		// mismatching channel count
		if r.Intn(4) == 0 {
			o := w.Alloc(k, false, ch+1, 1, 2)
			w.Append(dst, o)
		}
	}
}

func genC04(w *World, r *Rng, tier string) {
	reps := 40
	if tier == "thorough" {
		reps = 500
	}
	for rep := 0; rep < reps; rep++ {
		k := r.Kind()
		ch := r.Range(1, 5)
		w.Case(fmt.Sprintf("C04 %s ch%d", k, ch))
		K := r.Range(0, 5)
		L := r.Range(0, K)
		base := w.Alloc(k, false, ch, L, K)
		fillAll(w, base, 0)
		v := base
		if r.Bool() && K > 0 {
			s := r.Range(0, K)
			e := r.Range(s, K)
			v = w.Slice(base, s, e)
		}
		// a full-capacity alias is `base` re-sliced over its whole capacity
		alias := w.Slice(base, 0, K)
		_ = alias
		calls := r.Range(0, 3*w.views[v].Cap()+3)
		for i := 0; i < calls; i++ {
			if r.Intn(3) == 0 {
				w.AppendSample(v, 0) // a zero over whatever the spare capacity held before
				w.st.branch("append-zero")
			} else {
				w.AppendSample(v, patt(k, 50+i))
			}
		}
		w.st.shape("calls%d/cap%d", minInt(calls, 20), w.views[v].Cap())
	}
}

// conversion inputs for whole-buffer conversions (C05): values valid for the pair's kernel
func convVal(r *Rng, sk, dk Kind) uint64 {
	if sk.IsFloat() {
		if dk.IsFloat() {
			return floatPool(r, sk, true)
		}
		return floatPool(r, sk, false)
	}
	// integer source: any value of the kind, biased to the interesting ones
	return intPool(r, sk)
}

func genC05(w *World, r *Rng, tier string) {
	reps := 1
	if tier == "thorough" {
		reps = 8
	}
	for rep := 0; rep < reps; rep++ {
		for sk := Kind(0); sk < NKinds; sk++ {
			for dk := Kind(0); dk < NKinds; dk++ {
				w.Case(fmt.Sprintf("C05 %s %s>%s", convName(sk, dk), sk, dk))
				ch := r.Range(1, 4)
				Ks := r.Range(0, 5)
				Ls := r.Range(0, Ks)
				Kd := r.Range(0, 5)
				Ld := r.Range(0, Kd)
				if r.Intn(3) == 0 {
					Ld = Ls
					if Kd < Ld {
						Kd = Ld
					}
				}
				sb := w.Alloc(sk, false, ch, Ls, Ks)
				// fill the source over its whole capacity with kernel inputs
				if Ks > 0 {
					full := w.Slice(sb, 0, Ks)
					vals := make([]uint64, ch*Ks)
					for i := range vals {
						vals[i] = convVal(r, sk, dk)
					}
					w.Write(full, sk, vals)
					w.Drop(full)
				}
				db := w.Alloc(dk, false, ch, Ld, Kd)
				fillAll(w, db, 3)
				src, dst := sb, db
				if r.Bool() && Ks > 0 {
					s := r.Range(0, Ks)
					src = w.Slice(sb, s, r.Range(s, Ks))
				}
				if r.Bool() && Kd > 0 {
					s := r.Range(0, Kd)
					dst = w.Slice(db, s, r.Range(s, Kd))
				}
				// partial frames
				if r.Intn(3) == 0 && w.views[src].Len() < w.views[src].Cap() {
					w.AppendSample(src, convVal(r, sk, dk))
				}
				if r.Intn(3) == 0 && w.views[dst].Len() < w.views[dst].Cap() {
					w.AppendSample(dst, patt(dk, 9))
				}
				w.Conv(src, dst)
				w.st.shape("sl%d/dl%d", minInt(w.views[src].Len(), 9), minInt(w.views[dst].Len(), 9))
			}
		}
	}
}

// long buffers, many channels and windows of one parent for the conversions (C05)
func genC05Long(w *World, r *Rng, tier string) {
	classes := [][]Kind{{I8, I16, I32, I64, INT}, {U8, U16, U32, U64, UINT, UINTPTR}, {F32, F64}}
	n := 9
	if tier == "thorough" {
		n = 54
	}
	for i := 0; i < n; i++ {
		// every one of the nine conversion functions gets long shapes
		cs, cd := classes[i%3], classes[(i/3)%3]
		sk, dk := cs[r.Intn(len(cs))], cd[r.Intn(len(cd))]
		ch, fr := longShape(r)
		alias := i%3 == (i/3)%3 && r.Bool()
		if alias {
			dk = sk
		}
		w.Case(fmt.Sprintf("C05 long %s %s>%s ch%d fr%d alias=%v", convName(sk, dk), sk, dk, ch, fr, alias))
		w.st.shape("long/ch%d/fr%d/alias%v", ch, fr, alias)
		sb := w.Alloc(sk, false, ch, fr, fr+1)
		full := w.Slice(sb, 0, fr+1)
		vals := make([]uint64, ch*(fr+1))
		for j := range vals {
			vals[j] = convVal(r, sk, dk)
		}
		w.Write(full, sk, vals)
		w.Drop(full)
		var src, dst int
		if alias {
			// source and destination are windows of one parent: disjoint halves, or the destination
			// strictly behind the source start (the ascending loop reads every sample before it is overwritten)
			half := fr / 2
			if r.Bool() {
				src = w.Slice(sb, 0, half)
				dst = w.Slice(sb, half, fr)
			} else {
				src = w.Slice(sb, 2, fr)
				dst = w.Slice(sb, 0, fr-2)
			}
		} else {
			db := w.Alloc(dk, false, ch, fr-r.Range(0, 2), fr+r.Range(0, 2))
			fillAll(w, db, 3)
			src, dst = sb, db
			if r.Bool() {
				src = w.Slice(sb, r.Range(0, 2), fr)
			}
			if r.Bool() {
				dst = w.Slice(db, r.Range(0, 2), w.views[db].Length())
			}
		}
		if src < 0 || dst < 0 {
			continue
		}
		if r.Intn(3) == 0 && w.views[src].Len() < w.views[src].Cap() && !alias {
			w.AppendSample(src, convVal(r, sk, dk))
		}
		w.Conv(src, dst)
	}
}

// long buffers for Append (C03) and AppendSample (C04)
func genC03Long(w *World, r *Rng, tier string) {
	for i := 0; i < nLong(tier); i++ {
		k := r.Kind()
		ch, fr := longShape(r)
		w.Case(fmt.Sprintf("C03 long %s ch%d fr%d", k, ch, fr))
		w.st.shape("long/ch%d/fr%d", ch, fr)
		half := fr / 2
		base := w.Alloc(k, false, ch, half, fr)
		fillAll(w, base, 0)
		sib := w.Slice(base, half, fr) // a view over the spare capacity
		_ = sib
		src := w.Alloc(k, false, ch, fr-half, fr-half)
		fillAll(w, src, 50)
		switch i % 4 {
		case 0: // exact fit, in place
			w.Append(base, src)
		case 1: // one frame too many: grows
			w.AppendSample(base, small(k, 9))
			w.Append(base, src)
		case 2: // self-append in place, then growing
			w.Append(base, base)
			w.Append(base, base)
		default: // source is a window of the destination's own storage, before its end
			win := w.Slice(base, 0, half/2)
			w.Append(base, win)
		}
		if w.views[base].Len() > 0 {
			w.Set(base, w.views[base].Len()-1, small(k, 77))
		}
	}
}

// growing appends whose new length is just past a size threshold and not a whole number of frames
func genC03Thresholds(w *World, r *Rng, tier string) {
	ths := []int{64, 256, 1024, 4096}
	for _, T := range ths {
		for _, ch := range []int{2, 3, 5} {
			if tier != "thorough" && r.Intn(2) == 0 {
				continue
			}
			k := r.Kind()
			w.Case(fmt.Sprintf("C03 threshold %s ch%d T%d", k, ch, T))
			w.st.shape("threshold/ch%d/T%d", ch, T)
			fr := (T + ch - 1) / ch
			base := w.Alloc(k, false, ch, fr, fr+1)
			fillAll(w, base, 0)
			w.AppendSample(base, small(k, 9)) // partial last frame
			src := w.Alloc(k, false, ch, 1, 2)
			fillAll(w, src, 50)
			if r.Bool() {
				w.AppendSample(src, small(k, 8))
			}
			w.Append(base, src) // cap (fr+1)*ch < fr*ch + 1 + ch: grows
			w.Set(base, w.views[base].Len()-1, small(k, 77))
			// and once more, from a whole number of frames
			w.Append(base, src)
		}
	}
}

func genC04Long(w *World, r *Rng, tier string) {
	for i := 0; i < nLong(tier)/2+1; i++ {
		k := r.Kind()
		ch, fr := longShape(r)
		w.Case(fmt.Sprintf("C04 long %s ch%d fr%d", k, ch, fr))
		w.st.shape("long/ch%d/fr%d", ch, fr)
		base := w.Alloc(k, false, ch, fr-1, fr)
		fillAll(w, base, 0)
		alias := w.Slice(base, 0, fr)
		_ = alias
		for j := 0; j < ch+2; j++ {
			if j%3 == 1 {
				w.AppendSample(base, 0)
			} else {
				w.AppendSample(base, patt(k, 50+j))
			}
		}
	}
}

// long windows, threshold positions (C02) and many channels (C14)
func genC02Long(w *World, r *Rng, tier string) {
	for i := 0; i < nLong(tier); i++ {
		k := r.Kind()
		ch, fr := longShape(r)
		w.Case(fmt.Sprintf("C02 long %s ch%d fr%d", k, ch, fr))
		w.st.shape("long/ch%d/fr%d", ch, fr)
		base := w.Alloc(k, false, ch, fr-r.Range(0, 3), fr)
		fillAll(w, base, 1)
		for _, se := range [][2]int{{0, fr}, {1, fr}, {fr - 1, fr}, {fr, fr}, {fr / 2, fr/2 + 1}, {31, 33}, {0, fr + 1}, {fr, fr + 1}, {fr/2 + 1, fr / 2}} {
			c := w.Slice(base, se[0], se[1])
			if c >= 0 && w.views[c].Len() > 0 {
				w.Set(c, w.views[c].Len()-1, small(k, 66))
				w.Get(c, 0)
			}
			if c >= 0 && i%2 == 0 {
				// slice of the slice up to its capacity
				c2 := w.Slice(c, 0, w.views[c].Capacity())
				w.Drop(c2)
			}
			w.Drop(c)
		}
	}
}

// channel views follow their parent when a growing Append moves it to new storage
func genC14Moved(w *World, r *Rng, tier string) {
	reps := 6
	if tier == "thorough" {
		reps = 60
	}
	for rep := 0; rep < reps; rep++ {
		k := r.Kind()
		ch := r.Range(1, 4)
		K := r.Range(1, 4)
		w.Case(fmt.Sprintf("C14 moved %s ch%d K%d", k, ch, K))
		v := w.Alloc(k, false, ch, K, K)
		fillAll(w, v, 5)
		for c := 0; c < ch; c++ {
			w.ChanShape(v, c)
			w.ChanGet(v, c, 0)
		}
		src := w.Alloc(k, false, ch, 2, 2)
		fillAll(w, src, 60)
		w.Append(v, src) // full: grows, the parent header now points at new storage
		for c := 0; c < ch; c++ {
			w.ChanShape(v, c)
			for i := 0; i < w.views[v].Length(); i++ {
				w.ChanGet(v, c, i)
			}
			w.ChanSet(v, c, w.views[v].Length()-1, small(k, 70+c))
			w.ChanGet(v, c, w.views[v].Length()-1)
		}
	}
}

// the sign of zero through channel views (a store skipped when old and new compare equal loses it)
func genC14Zeros(w *World, r *Rng, tier string) {
	for _, k := range []Kind{F32, F64} {
		for _, ch := range []int{1, 3} {
			w.Case(fmt.Sprintf("C14 zeros %s ch%d", k, ch))
			v := w.Alloc(k, false, ch, 2, 2) // fresh: +0 everywhere
			nz, pz := floatCell(math.Copysign(0, -1), k), floatCell(0, k)
			for c := 0; c < ch; c++ {
				w.ChanSet(v, c, 1, nz) // -0 over +0
				w.ChanGet(v, c, 1)
				w.ChanSet(v, c, 1, pz) // +0 over -0
				w.ChanGet(v, c, 1)
				w.ChanSet(v, c, 0, nz)
			}
			w.Set(v, 0, pz)
			w.Get(v, 0)
		}
	}
}

func genC14Long(w *World, r *Rng, tier string) {
	for i := 0; i < nLong(tier); i++ {
		k := r.Kind()
		ch, fr := longShape(r)
		w.Case(fmt.Sprintf("C14 long %s ch%d fr%d", k, ch, fr))
		w.st.shape("long/ch%d/fr%d", ch, fr)
		base := w.Alloc(k, false, ch, fr-1, fr)
		fillAll(w, base, 2)
		for _, c := range []int{0, ch - 1, ch / 2} {
			w.ChanShape(base, c)
			for _, ix := range []int{0, 1, fr / 2, fr - 2, fr - 1} {
				w.ChanIndex(base, c, ix)
				w.ChanGet(base, c, ix)
			}
			w.ChanSet(base, c, fr-2, small(k, 70+c%20))
			w.ChanGet(base, c, fr-2)
		}
		for j := 0; j < ch; j++ {
			w.AppendSample(base, small(k, 30+j%60))
		}
		for _, c := range []int{0, ch - 1} {
			w.ChanShape(base, c)
			w.ChanGet(base, c, fr-1)
		}
	}
}

func genC10(w *World, r *Rng, tier string) {
	reps := 40
	steps := 30
	if tier == "thorough" {
		reps, steps = 400, 60
	}
	for rep := 0; rep < reps; rep++ {
		k := r.Kind()
		ch := r.Range(1, 4)
		K := r.Range(0, 4)
		L := r.Range(0, K)
		if rep%3 == 0 {
			L = 0
		}
		w.Case(fmt.Sprintf("C10 %s ch%d L%d K%d", k, ch, L, K))
		p := w.Pool(k, ch, L, K)
		w.st.shape("ch%d/L%d/K%d", ch, L, K)
		var out []int
		for s := 0; s < steps; s++ {
			switch x := r.Intn(10); {
			case x < 3 && len(out) < 6:
				v := w.PGet(p)
				if v >= 0 {
					out = append(out, v)
				}
			case x < 7 && len(out) > 0:
				v := out[r.Intn(len(out))]
				switch r.Intn(5) {
				case 0:
					n := r.Range(1, 6)
					for i := 0; i < n; i++ {
						w.AppendSample(v, patt(k, s+i))
					}
				case 1:
					if w.views[v].Len() > 0 {
						w.Set(v, r.Intn(w.views[v].Len()), patt(k, s))
					}
				case 2:
					w.Write(v, k, valsFor(r, k, k, lenChoice(r, w.views[v].Len())))
				case 3:
					// append a buffer; within capacity or growing (a grown buffer can no longer be put)
					sl := r.Range(0, 2)
					src := w.Alloc(k, false, ch, sl, sl)
					fillAll(w, src, s)
					w.Append(v, src)
					w.Drop(src)
				case 4:
					// fill everything, so that stale data would be noticed
					for w.views[v].Len() < w.views[v].Cap() {
						w.AppendSample(v, patt(k, 9))
					}
				}
			case len(out) > 0:
				i := r.Intn(len(out))
				v := out[i]
				pv := v
				if r.Intn(3) == 0 {
					// put a slice from frame 0
					c := w.Slice(v, 0, r.Range(0, w.views[v].Capacity()))
					if c >= 0 {
						pv = c
					}
				}
				w.PPut(p, pv)
				out = append(out[:i], out[i+1:]...)
				if pv != v {
					w.Drop(v)
				}
			}
		}
	}
}

// ---- C12 ----

type c12cfg struct {
	maxViews, maxCh, maxFr int
}

// applyC12 performs op number `code` of the enumeration alphabet on world w; returns false when the
// code is out of the alphabet for the current state.
func c12Alphabet(w *World, k Kind) []func() {
	var ops []func()
	live := []int{}
	for id, b := range w.views {
		if b != nil {
			live = append(live, id)
		}
	}
	if len(live) < 4 {
		for _, sh := range [][3]int{{1, 1, 2}, {2, 1, 2}, {2, 0, 1}, {3, 1, 1}} {
			sh := sh
			ops = append(ops, func() { w.Alloc(k, false, sh[0], sh[1], sh[2]) })
		}
	}
	for _, v := range live {
		v := v
		b := w.views[v]
		K := b.Capacity()
		if len(live) < 6 {
			for s := 0; s <= K && s <= 2; s++ {
				for e := s; e <= K && e <= 3; e++ {
					s, e := s, e
					ops = append(ops, func() { w.Slice(v, s, e) })
				}
			}
		}
		ops = append(ops, func() { w.AppendSample(v, small(k, 7)) })
		if b.Len() > 0 {
			ops = append(ops, func() { w.Set(v, 0, small(k, 8)) })
			ops = append(ops, func() { w.Set(v, b.Len()-1, small(k, 9)) })
		}
		ops = append(ops, func() { w.Write(v, k, []uint64{small(k, 5), small(k, 6), small(k, 4)}) })
		for _, s := range live {
			s := s
			if w.views[s].Channels() == b.Channels() {
				ops = append(ops, func() { w.Append(v, s) })
			}
		}
	}
	return ops
}

func c12Enumerate(w *World, k Kind, depth int, prefix []int, count *int, limit int) {
	if *count >= limit {
		return
	}
	// replay prefix
	replay := func(p []int) bool {
		w.Case(fmt.Sprintf("C12 enum %v", p))
		for _, c := range p {
			ops := c12Alphabet(w, k)
			if c >= len(ops) {
				return false
			}
			ops[c]()
		}
		return true
	}
	if len(prefix) == depth {
		if replay(prefix) {
			*count++
		}
		return
	}
	// determine alphabet size after the prefix, silently
	saveOut := w.out
	_ = saveOut
	n := alphabetSizeAfter(k, prefix)
	for c := 0; c < n; c++ {
		c12Enumerate(w, k, depth, append(append([]int{}, prefix...), c), count, limit)
	}
}

// alphabetSizeAfter replays the prefix on a scratch world writing nowhere.
func alphabetSizeAfter(k Kind, prefix []int) int {
	sw := NewWorld(nullWriter(), NewStats("", "", 0))
	sw.Case("scratch")
	for _, c := range prefix {
		ops := c12Alphabet(sw, k)
		if c >= len(ops) {
			return 0
		}
		ops[c]()
	}
	return len(c12Alphabet(sw, k))
}

func genC12(w *World, r *Rng, tier string) {
	reps, steps := 25, 30
	depth, limit := 2, 3000
	if tier == "thorough" {
		reps, steps = 300, 60
		depth, limit = 3, 200000
	}
	// bounded-exhaustive part: every op sequence of the given depth after one fixed allocation
	cnt := 0
	for _, k := range []Kind{I16} {
		c12Enumerate(w, k, depth, nil, &cnt, limit)
	}
	w.st.Branches["enumerated-sequences"] = cnt
	// long seeded random histories over larger shapes and several element kinds
	for rep := 0; rep < reps; rep++ {
		k := []Kind{I8, U32, F64, I64, F32, U8, INT}[r.Intn(7)]
		w.Case(fmt.Sprintf("C12 random %s", k))
		for s := 0; s < steps; s++ {
			live := []int{}
			for id, b := range w.views {
				if b != nil {
					live = append(live, id)
				}
			}
			if len(live) == 0 && rep%5 == 4 {
				// every fifth history starts from a long buffer (thresholds of fast paths)
				ch, fr := longShape(r)
				for ch*fr > 260 {
					ch, fr = longShape(r)
				}
				w.st.shape("long/ch%d/fr%d", ch, fr)
				w.Alloc(k, false, ch, fr-r.Range(0, 2), fr)
				continue
			}
			if len(live) == 0 || (len(live) < 6 && r.Intn(6) == 0) {
				ch := r.Range(1, 3)
				K := r.Range(0, 6)
				w.Alloc(k, false, ch, r.Range(0, K), K)
				continue
			}
			if len(live) >= 6 {
				w.Drop(live[r.Intn(len(live))])
				continue
			}
			v := live[r.Intn(len(live))]
			b := w.views[v]
			switch r.Intn(6) {
			case 0:
				K := b.Capacity()
				s0 := r.Range(0, K)
				w.Slice(v, s0, r.Range(s0, K))
			case 1:
				w.AppendSample(v, patt(k, s))
			case 2:
				if b.Len() > 0 {
					w.Set(v, r.Intn(b.Len()), patt(k, s))
				}
			case 3:
				w.Write(v, k, valsFor(r, k, k, lenChoice(r, b.Len())))
			case 4, 5:
				// append: source with the same channel count; destination frame-aligned unless self
				cands := []int{}
				for _, s2 := range live {
					if w.views[s2].Channels() == b.Channels() {
						cands = append(cands, s2)
					}
				}
				s2 := cands[r.Intn(len(cands))]
				// (repeated appends of long buffers to themselves double the storage: keep a view below
				// a few thousand samples, the model replays every store of every dump)
				if b.Len()+w.views[s2].Len() <= 3000 {
					w.Append(v, s2)
				}
			}
		}
	}
}

// in-place appends whose source is a window of the destination's own parent: ahead of, behind and
// across the position the append writes to (a plain Go append reads the source before writing)
func genC12Overlap(w *World, r *Rng, tier string) {
	reps := 30
	if tier == "thorough" {
		reps = 400
	}
	for rep := 0; rep < reps; rep++ {
		k := r.Kind()
		ch := r.Range(1, 3)
		K := r.Range(3, 10)
		w.Case(fmt.Sprintf("C12 overlap %s ch%d K%d", k, ch, K))
		parent := w.Alloc(k, false, ch, K, K)
		fillAll(w, parent, 10)
		a := r.Range(0, K-1)
		dst := w.Slice(parent, 0, a)
		n := r.Range(1, K-a)
		b := r.Range(0, K-n)
		src := w.Slice(parent, b, b+n)
		if dst < 0 || src < 0 {
			continue
		}
		switch {
		case b+n <= a:
			w.st.branch("overlap-src-inside-dst")
		case b >= a+n:
			w.st.branch("overlap-src-beyond-written")
		case b >= a:
			w.st.branch("overlap-src-ahead")
		default:
			w.st.branch("overlap-src-behind")
		}
		w.Append(dst, src)
		if w.views[dst].Len() > 0 {
			w.Set(dst, w.views[dst].Len()-1, small(k, 88))
		}
	}
}

func genC13(w *World, r *Rng, tier string) {
	maxC, big := 8, 40
	reps := 2
	if tier == "thorough" {
		maxC, big, reps = 64, 3000, 12
	}
	for rep := 0; rep < reps; rep++ {
		for _, named := range []bool{false, true} {
			for k := Kind(0); k < NKinds; k++ {
				w.Case(fmt.Sprintf("C13 %s named=%v", k, named))
				C := r.Range(1, maxC)
				K := r.Range(0, 6)
				if r.Intn(4) == 0 {
					K = r.Range(0, big/C+1)
				}
				L := r.Range(0, K)
				a := w.Alloc(k, named, C, L, K)
				C2 := r.Range(1, 4)
				K2 := r.Range(0, 4)
				b := w.Alloc(k, named, C2, r.Range(0, K2), K2)
				w.st.shape("C%d/K%d", minInt(C, 9), minInt(K, 9))
				// cross-write probes
				if w.views[a].Len() > 0 {
					w.Set(a, r.Intn(w.views[a].Len()), small(k, 11))
				}
				if w.views[b].Len() > 0 {
					w.Set(b, r.Intn(w.views[b].Len()), small(k, 12))
				}
				// L > K: make panics
				if r.Intn(6) == 0 {
					w.Alloc(k, named, 1, 3, 2)
				}
			}
		}
	}
	// a window outlives its parent header: collections (and finalizers) must leave it alone, and later
	// allocations of the same size must not share its storage
	for rep := 0; rep < 4; rep++ {
		k := r.Kind()
		ch := r.Range(1, 3)
		K := r.Range(2, 6)
		w.Case(fmt.Sprintf("C13 window outlives parent %s ch%d K%d", k, ch, K))
		parent := w.Alloc(k, false, ch, K, K)
		fillAll(w, parent, 20)
		win := w.Slice(parent, 1, K)
		w.Drop(parent)
		w.GC()
		for i := 0; i < 3; i++ {
			n := w.Alloc(k, false, ch, K, K)
			if n >= 0 && w.views[n].Len() > 0 {
				w.Set(n, 0, small(k, 50+i))
			}
		}
		w.GC()
		if win >= 0 && w.views[win].Len() > 0 {
			w.Get(win, 0)
		}
	}
	// channel counts around the widths a narrower header field would have
	for _, C := range []int{255, 256, 257, 32767, 32768, 65535, 65536, 65537, 1 << 20, 1<<31 - 1, 1 << 31, 1<<32 + 2, 1<<40 + 1} {
		k := r.Kind()
		w.Case(fmt.Sprintf("C13 wide %s C%d", k, C))
		w.st.shape("wide/C%d", C)
		e := w.Alloc(k, false, C, 0, 0)
		if C <= 257 {
			f := w.Alloc(k, r.Bool(), C, 1, 1)
			if f >= 0 {
				w.Set(f, C-1, small(k, 13))
				w.Get(f, C-1)
				w.ChanIndex(f, C-1, 0)
			}
		}
		if e >= 0 {
			w.ChanShape(e, 0)
		}
	}
}

func genC14(w *World, r *Rng, tier string) {
	reps := 2
	if tier == "thorough" {
		reps = 12
	}
	for rep := 0; rep < reps; rep++ {
		for k := Kind(0); k < NKinds; k++ {
			for ch := 1; ch <= 8; ch++ {
				w.Case(fmt.Sprintf("C14 %s ch%d", k, ch))
				_, v := mkBuf(w, r, k, ch, 4, r.Bool())
				if v < 0 {
					continue
				}
				b := w.views[v]
				for c := 0; c < ch; c++ {
					w.ChanShape(v, c)
					for i := 0; i < b.Length(); i++ {
						w.ChanIndex(v, c, i)
						w.ChanGet(v, c, i)
					}
				}
				// writes through the channel view
				for n := 0; n < 3 && b.Length() > 0; n++ {
					c, i := r.Intn(ch), r.Intn(b.Length())
					w.ChanSet(v, c, i, small(k, 77+n))
					w.ChanGet(v, c, i)
				}
				// out-of-range index
				if r.Intn(3) == 0 {
					w.ChanGet(v, r.Intn(ch), b.Length()+r.Range(0, 2))
				}
				// the parent grows in place after the channel views were taken: the views (kept by the
				// harness since their first use) must report the parent's new length and reach the new samples
				if b.Len() < b.Cap() {
					n := r.Range(1, minInt(b.Cap()-b.Len(), 2*ch+1))
					for a := 0; a < n; a++ {
						w.AppendSample(v, small(k, 60+a))
					}
					w.st.branch("chan-after-append")
					for c := 0; c < ch; c++ {
						w.ChanShape(v, c)
						for i := 0; i < b.Length(); i++ {
							w.ChanGet(v, c, i)
						}
					}
					if b.Length() > 0 {
						c, i := r.Intn(ch), b.Length()-1
						w.ChanSet(v, c, i, small(k, 91))
						w.ChanGet(v, c, i)
					}
				}
			}
		}
	}
}

func genC15(w *World, r *Rng, tier string) {
	reps := 1
	if tier == "thorough" {
		reps = 6
	}
	for rep := 0; rep < reps; rep++ {
		for a := 1; a <= 4; a++ {
			for b := 1; b <= 4; b++ {
				if a == b {
					continue
				}
				// all nine conversions: pick kinds per function class
				classes := [][]Kind{{I8, I16, I32, I64, INT}, {U8, U16, U32, U64, UINT, UINTPTR}, {F32, F64}}
				for _, cs := range classes {
					for _, cd := range classes {
						sk, dk := cs[r.Intn(len(cs))], cd[r.Intn(len(cd))]
						w.Case(fmt.Sprintf("C15 conv %s ch%d/%d", convName(sk, dk), a, b))
						s := w.Alloc(sk, false, a, 2, 3)
						fillAll(w, s, 1)
						d := w.Alloc(dk, false, b, 2, 3)
						fillAll(w, d, 20)
						w.Conv(s, d)
					}
				}
				k := r.Kind()
				w.Case(fmt.Sprintf("C15 append ch%d/%d", a, b))
				s := w.Alloc(k, false, a, 2, 3)
				fillAll(w, s, 1)
				d := w.Alloc(k, false, b, 2, 3)
				fillAll(w, d, 20)
				w.Append(d, s)
			}
		}
		// striped with a wrong number of slices
		for ch := 1; ch <= 4; ch++ {
			for n := 0; n <= 5; n++ {
				if n == ch {
					continue
				}
				sk, dk := r.Kind(), r.Kind()
				w.Case(fmt.Sprintf("C15 striped ch%d n%d", ch, n))
				d := w.Alloc(dk, false, ch, 2, 3)
				fillAll(w, d, 5)
				cols := make([][]uint64, n)
				for i := range cols {
					cols[i] = valsFor(r, sk, dk, 2)
				}
				w.WriteStriped(d, sk, cols)
				cols2 := make([][]uint64, n)
				for i := range cols2 {
					cols2[i] = valsFor(r, sk, sk, 2)
				}
				w.ReadStriped(d, sk, cols2)
			}
		}
		// mismatching counts made of nil and empty slices (they carry no data, but they count)
		for ch := 1; ch <= 3; ch++ {
			for _, extra := range []int{1, 2} {
				sk, dk := r.Kind(), r.Kind()
				w.Case(fmt.Sprintf("C15 striped nil tail ch%d +%d", ch, extra))
				d := w.Alloc(dk, false, ch, 2, 3)
				fillAll(w, d, 5)
				cols := make([][]uint64, ch+extra)
				cols2 := make([][]uint64, ch+extra)
				for i := 0; i < ch; i++ {
					cols[i] = valsFor(r, sk, dk, 2)
					cols2[i] = valsFor(r, sk, sk, 2)
				}
				if extra == 2 {
					cols[ch] = []uint64{}
					cols2[ch] = []uint64{}
				}
				w.WriteStriped(d, sk, cols)
				w.ReadStriped(d, sk, cols2)
				// one slice short, the rest nil
				short := make([][]uint64, ch-1)
				w.WriteStriped(d, sk, short)
				w.ReadStriped(d, sk, short)
			}
		}
		// the same with many slices and many channels (fast paths for wide buffers)
		for _, cn := range [][2]int{{12, 9}, {2, 9}, {9, 8}, {8, 9}, {16, 17}, {17, 16}, {33, 32}, {3, 12}, {10, 1}} {
			ch, n := cn[0], cn[1]
			sk, dk := r.Kind(), r.Kind()
			w.Case(fmt.Sprintf("C15 striped wide ch%d n%d", ch, n))
			d := w.Alloc(dk, false, ch, 2, 3)
			fillAll(w, d, 5)
			cols := make([][]uint64, n)
			for i := range cols {
				cols[i] = valsFor(r, sk, dk, 2)
			}
			w.WriteStriped(d, sk, cols)
			cols2 := make([][]uint64, n)
			for i := range cols2 {
				cols2[i] = valsFor(r, sk, sk, 2)
			}
			w.ReadStriped(d, sk, cols2)
			// conversions and appends between wide buffers of different channel counts
			s2 := w.Alloc(sk, false, n, 2, 3)
			fillAll(w, s2, 9)
			d2 := w.Alloc(dk, false, ch, 2, 3)
			fillAll(w, d2, 11)
			w.Conv(s2, d2)
			s3 := w.Alloc(dk, false, n, 2, 3)
			w.Append(d2, s3)
		}
		// channel counts that agree modulo 2^16 / 2^32 (empty buffers: the only way to have them)
		for _, cn := range [][2]int{{2, 1<<32 + 2}, {1<<32 + 2, 2}, {1, 1<<16 + 1}, {3, 1<<32 + 3}, {1 << 32, 1 << 33}} {
			a, b := cn[0], cn[1]
			sk, dk := r.Kind(), r.Kind()
			w.Case(fmt.Sprintf("C15 wrap ch%d/%d", a, b))
			s0 := w.Alloc(sk, false, a, 0, 0)
			d0 := w.Alloc(dk, false, b, 0, 0)
			if s0 >= 0 && d0 >= 0 {
				w.Conv(s0, d0)
			}
			s1 := w.Alloc(dk, false, a, 0, 0)
			if s1 >= 0 && d0 >= 0 {
				w.Append(d0, s1)
			}
			small2 := a
			if b < a {
				small2 = b
			}
			big := d0
			if a > b {
				big = s1
			}
			if small2 <= 8 && big >= 0 {
				cols := make([][]uint64, small2)
				w.WriteStriped(big, dk, cols)
				w.ReadStriped(big, dk, cols)
			}
		}
		// pool: put a buffer with a different total capacity
		for i := 0; i < 6; i++ {
			k := r.Kind()
			ch := r.Range(1, 4)
			K := r.Range(1, 4)
			w.Case(fmt.Sprintf("C15 put %s", k))
			p := w.Pool(k, ch, r.Range(0, K), K)
			g := w.PGet(p)
			fillAll(w, g, 3)
			var f int
			switch r.Intn(3) {
			case 0:
				f = w.Alloc(k, false, ch, 1, K+1)
			case 1:
				f = w.Alloc(k, false, ch+1, 1, K)
			default:
				f = w.Slice(g, 1, K) // not from frame 0: smaller capacity
			}
			if f >= 0 {
				fillAll(w, f, 30)
				w.PPut(p, f)
			}
			w.PPut(p, g)
			w.PGet(p)
			w.PGet(p)
		}
	}
}

func genC20(w *World, r *Rng, tier string) {
	reps := 1
	if tier == "thorough" {
		reps = 8
	}
	shapes := [][3]int{{0, 0, 0}, {0, 2, 3}, {0, 0, 3}, {2, 0, 0}, {3, 0, 0}, {1, 0, 0}, {2, 0, 3}, {1, 0, 2}, {0, 3, 3}}
	for rep := 0; rep < reps; rep++ {
		for k := Kind(0); k < NKinds; k++ {
			for _, sh := range shapes {
				w.Case(fmt.Sprintf("C20 %s ch%d L%d K%d", k, sh[0], sh[1], sh[2]))
				w.st.shape("ch%d/L%d/K%d", sh[0], sh[1], sh[2])
				v := w.Alloc(k, false, sh[0], sh[1], sh[2])
				if v < 0 {
					continue
				}
				ok := r.Kind()
				// readers / writers
				w.Write(v, ok, valsFor(r, ok, k, 3))
				w.Read(v, ok, valsFor(r, ok, ok, 3))
				cols := make([][]uint64, sh[0])
				for i := range cols {
					cols[i] = valsFor(r, ok, k, 2)
				}
				w.WriteStriped(v, ok, cols)
				cols2 := make([][]uint64, sh[0])
				for i := range cols2 {
					cols2[i] = valsFor(r, ok, ok, 2)
				}
				w.ReadStriped(v, ok, cols2)
				// conversions in both directions against a degenerate and a normal buffer
				o := w.Alloc(ok, false, sh[0], 2, 3)
				if o >= 0 {
					if sh[0] > 0 {
						fillAll(w, o, 1)
					}
					w.Conv(v, o)
					w.Conv(o, v)
				}
				o2 := w.Alloc(ok, false, sh[0], sh[1], sh[2])
				if o2 >= 0 {
					w.Conv(v, o2)
				}
				// single-sample appends
				if w.views[v].Cap() == 0 {
					w.AppendSample(v, patt(k, 1))
					w.AppendSample(v, patt(k, 2))
				}
				// append of an empty buffer
				e := w.Alloc(k, false, sh[0], 0, 0)
				if e >= 0 {
					w.Append(v, e)
				}
				// ... and of an empty buffer that has spare capacity of its own; the destination stays as
				// inert as it was (a later single-sample append is still a no-op on zero capacity)
				if sh[0] > 0 {
					e2 := w.Alloc(k, false, sh[0], 0, 4)
					if e2 >= 0 {
						wasZeroCap := w.views[v].Cap() == 0
						w.Append(v, e2)
						if wasZeroCap {
							w.AppendSample(v, patt(k, 3))
						}
						// an empty window at the end of a parent as destination
						par := w.Alloc(k, false, sh[0], 2, 2)
						if par >= 0 {
							fillAll(w, par, 7)
							ew := w.Slice(par, 2, 2)
							if ew >= 0 {
								w.Append(ew, e2)
								w.AppendSample(ew, patt(k, 4))
							}
						}
					}
				}
				// slicing [0,0)
				w.Slice(v, 0, 0)
				w.Get(v, 0)
				// pool with the degenerate allocator
				p := w.Pool(k, sh[0], sh[1], sh[2])
				g := w.PGet(p)
				if g >= 0 {
					w.PPut(p, g)
					w.PGet(p)
				}
			}
		}
	}
}

package main

// World: runs operations on the real package, in-process, and writes the transcript that the Lean
// driver replays on the model. One line per operation (arguments, the observed outcome), followed by
// one "v" line per live view: shape, storage identity (block number in creation order, offset) and the
// samples over the whole capacity.

import (
	"bufio"
	"fmt"
	"runtime"
	"strings"
	"time"

	"pipelined.dev/signal"
)

type block struct {
	base uintptr
	size uintptr // bytes
	keep any     // keeps the backing array alive so that addresses are never reused within a case
}

type World struct {
	out    *bufio.Writer
	views  []DynBuf
	blocks []block
	pools  []DynPool
	inPool []map[int]bool // per pool: vids currently inside
	hdr    map[uintptr]int
	st     *Stats
	caseNo int
	quiet  bool // no dumps (used for stateless sections)
}

func NewWorld(out *bufio.Writer, st *Stats) *World {
	return &World{out: out, st: st, hdr: map[uintptr]int{}}
}

func (w *World) Case(label string) {
	w.caseNo++
	w.views = w.views[:0]
	w.blocks = w.blocks[:0]
	w.pools = w.pools[:0]
	w.inPool = w.inPool[:0]
	w.hdr = map[uintptr]int{}
	fmt.Fprintf(w.out, "case %d %s\n", w.caseNo, label)
	w.st.cases++
}

func classify(r any) string {
	var msg string
	switch x := r.(type) {
	case string:
		msg = x
	case runtime.Error:
		msg = x.Error()
	case error:
		msg = x.Error()
	default:
		msg = fmt.Sprint(r)
	}
	switch {
	case msg == "different number of channels":
		return "diffChannels"
	case msg == "different buffer capacity":
		return "diffCapacity"
	case strings.Contains(msg, "index out of range"):
		return "index"
	case strings.Contains(msg, "slice bounds out of range"):
		return "sliceBounds"
	case strings.Contains(msg, "divide by zero"):
		return "divZero"
	}
	return "other"
}

// try runs f and returns "" or the panic class.
func try(f func()) (p string) {
	defer func() {
		if r := recover(); r != nil {
			p = classify(r)
		}
	}()
	f()
	return ""
}

func (w *World) findBlock(ptr uintptr) (int, uintptr, bool) {
	for i := len(w.blocks) - 1; i >= 0; i-- {
		b := w.blocks[i]
		if b.size > 0 && ptr >= b.base && ptr < b.base+b.size {
			return i, ptr - b.base, true
		}
	}
	return 0, 0, false
}

func (w *World) registerBlock(b DynBuf) {
	ptr, cells, keep := b.Raw()
	if len(cells) == 0 {
		w.blocks = append(w.blocks, block{0, 0, nil})
		return
	}
	w.blocks = append(w.blocks, block{ptr, uintptr(len(cells) * b.ElemSize()), keep})
}

func (w *World) addView(b DynBuf) int {
	w.views = append(w.views, b)
	w.hdr[b.HeaderPtr()] = len(w.views) - 1
	return len(w.views) - 1
}

// Dump prints every live view.
func (w *World) Dump() {
	if w.quiet {
		return
	}
	for id, b := range w.views {
		if b == nil {
			continue
		}
		ptr, cells, _ := b.Raw()
		blk, off := -1, 0
		if len(cells) > 0 {
			i, o, ok := w.findBlock(ptr)
			if !ok {
				w.registerBlock(b)
				i, o = len(w.blocks)-1, 0
			}
			blk, off = i, int(o)/b.ElemSize()
		}
		fmt.Fprintf(w.out, "v %d %d %d %d %d %d %d %d %d", id, b.Channels(), blk, off, b.Len(), b.Cap(), b.Length(), b.Capacity(), b.BitDepth())
		k := b.Kind()
		for _, c := range cells {
			w.out.WriteByte(' ')
			w.out.WriteString(cellString(c, k))
		}
		w.out.WriteByte('\n')
		w.st.lines++
	}
}

func named01(n bool) int {
	if n {
		return 1
	}
	return 0
}

func (w *World) res(p string) string {
	if p == "" {
		return "ok"
	}
	w.st.panics[p]++
	return "panic " + p
}

func (w *World) opline(format string, a ...any) {
	fmt.Fprintf(w.out, format, a...)
	w.out.WriteByte('\n')
	w.st.lines++
}

// ---- operations ----

func (w *World) Alloc(k Kind, named bool, ch, length, capacity int) int {
	var b DynBuf
	p := try(func() { b = Alloc(k, named, signal.Allocator{Channels: ch, Length: length, Capacity: capacity}) })
	vid := -1
	if p == "" {
		vid = w.addView(b)
		w.registerBlock(b)
	}
	w.opline("alloc %d %s %d %d %d %d -> %s", vid, k, named01(named), ch, length, capacity, w.res(p))
	w.st.op("alloc")
	w.Dump()
	return vid
}

// ZeroValue adds the zero value of Buffer[T] (a composite literal, not made by Alloc) as a view
func (w *World) ZeroValue(k Kind) int {
	b := Alloc(k, false, signal.Allocator{}).ZeroLike()
	vid := w.addView(b)
	w.registerBlock(b) // (an empty block, as for every allocation: block numbers follow creation order)
	w.opline("zerobuf %d %s -> ok", vid, k)
	w.st.op("zerobuf")
	w.Dump()
	return vid
}

func (w *World) Slice(src int, s, e int) int {
	var b DynBuf
	p := try(func() { b = w.views[src].Slice(s, e) })
	vid := -1
	if p == "" {
		vid = w.addView(b)
	}
	w.opline("slice %d %d %d %d -> %s", vid, src, s, e, w.res(p))
	w.st.op("slice")
	w.Dump()
	return vid
}

func (w *World) AppendSample(v int, val uint64) {
	b := w.views[v]
	p := try(func() { b.AppendSample(val) })
	w.opline("asample %d %s -> %s", v, cellString(normCell(val, b.Kind()), b.Kind()), w.res(p))
	w.st.op("asample")
	w.Dump()
}

func (w *World) Set(v int, i int, val uint64) {
	b := w.views[v]
	p := try(func() { b.SetSample(i, val) })
	w.opline("set %d %d %s -> %s", v, i, cellString(normCell(val, b.Kind()), b.Kind()), w.res(p))
	w.st.op("set")
	w.Dump()
}

func (w *World) Get(v int, i int) {
	b := w.views[v]
	var r uint64
	p := try(func() { r = b.Sample(i) })
	if p == "" {
		w.opline("get %d %d -> val %s", v, i, cellString(r, b.Kind()))
	} else {
		w.opline("get %d %d -> %s", v, i, w.res(p))
	}
	w.st.op("get")
}

// GC drops nothing by itself: it lets the runtime collect the headers the generator has dropped and run
// their finalizers; every live view must read as before.
func (w *World) GC() {
	runtime.GC()
	time.Sleep(time.Millisecond)
	runtime.GC()
	time.Sleep(time.Millisecond)
	w.opline("gc -> ok")
	w.st.op("gc")
	w.Dump()
}

func (w *World) Append(dst, src int) string {
	d, s := w.views[dst], w.views[src]
	p := try(func() { d.Append(s) })
	w.opline("append %d %d %d -> %s", dst, src, d.Cap(), w.res(p))
	w.st.op("append")
	w.Dump()
	return p
}

func (w *World) ChanIndex(v, c, i int) {
	b := w.views[v]
	var r int
	p := try(func() { r = b.KeptChanIndex(c, i) })
	if p == "" {
		w.opline("cidx %d %d %d -> val %d", v, c, i, r)
	} else {
		w.opline("cidx %d %d %d -> %s", v, c, i, w.res(p))
	}
	w.st.op("cidx")
}

func (w *World) ChanGet(v, c, i int) {
	b := w.views[v]
	var r uint64
	p := try(func() { r = b.KeptChanSample(c, i) })
	if p == "" {
		w.opline("cget %d %d %d -> val %s", v, c, i, cellString(r, b.Kind()))
	} else {
		w.opline("cget %d %d %d -> %s", v, c, i, w.res(p))
	}
	w.st.op("cget")
}

func (w *World) ChanSet(v, c, i int, val uint64) {
	b := w.views[v]
	p := try(func() { b.KeptChanSet(c, i, val) })
	w.opline("cset %d %d %d %s -> %s", v, c, i, cellString(normCell(val, b.Kind()), b.Kind()), w.res(p))
	w.st.op("cset")
	w.Dump()
}

func (w *World) ChanShape(v, c int) {
	b := w.views[v]
	a, l, k := b.KeptChanShape(c)
	w.opline("cshape %d %d -> val %d %d %d", v, c, a, l, k)
	w.st.op("cshape")
}

func valsString(vals []uint64, k Kind) string {
	var sb strings.Builder
	for _, v := range vals {
		sb.WriteByte(' ')
		sb.WriteString(cellString(normCell(v, k), k))
	}
	return sb.String()
}

func sliceString(s DynSlice, k Kind) string {
	var sb strings.Builder
	fmt.Fprintf(&sb, " %d", s.Len())
	for i := 0; i < s.Len(); i++ {
		sb.WriteByte(' ')
		sb.WriteString(cellString(s.Get(i), k))
	}
	return sb.String()
}

// spareCheck reports a call that touched the caller's backing array beyond the slice it was given
func (w *World) spareCheck(op string, vid int, sls ...DynSlice) {
	for _, sl := range sls {
		if sl != nil && !sl.SpareIntact() {
			fmt.Fprintf(w.out, "callerspare %s %d\n", op, vid)
			w.st.lines++
			w.st.branch("caller-spare-touched")
			return
		}
	}
}

func (w *World) Write(dst int, sk Kind, vals []uint64) {
	d := w.views[dst]
	src := NewSlice(sk, vals, false)
	var r int
	p := try(func() { r = writeCall(sk, d.Kind())(src, d) })
	after := sliceString(src, sk)
	if p == "" {
		w.opline("write %d %s %d%s -> ret %d%s", dst, sk, len(vals), valsString(vals, sk), r, after)
	} else {
		w.opline("write %d %s %d%s -> %s", dst, sk, len(vals), valsString(vals, sk), w.res(p))
	}
	w.st.op("write")
	w.st.pair("write", sk, d.Kind())
	w.Dump()
	w.spareCheck("write", dst, src)
}

func (w *World) Read(src int, dk Kind, init []uint64) {
	s := w.views[src]
	dst := NewSlice(dk, init, false)
	var r int
	p := try(func() { r = readCall(s.Kind(), dk)(s, dst) })
	if p == "" {
		w.opline("read %d %s %d%s -> ret %d%s", src, dk, len(init), valsString(init, dk), r, sliceString(dst, dk))
	} else {
		w.opline("read %d %s %d%s -> %s", src, dk, len(init), valsString(init, dk), w.res(p))
	}
	w.st.op("read")
	w.st.pair("read", s.Kind(), dk)
	w.Dump()
	w.spareCheck("read", src, dst)
}

// cols[i] == nil means a nil inner slice
func colsString(cols [][]uint64, k Kind) string {
	var sb strings.Builder
	fmt.Fprintf(&sb, " %d", len(cols))
	for _, c := range cols {
		if c == nil {
			sb.WriteString(" -1")
			continue
		}
		fmt.Fprintf(&sb, " %d%s", len(c), valsString(c, k))
	}
	return sb.String()
}

func mkCols(k Kind, cols [][]uint64) []DynSlice {
	out := make([]DynSlice, len(cols))
	for i, c := range cols {
		out[i] = NewSlice(k, c, c == nil)
	}
	return out
}

func dynColsString(cols []DynSlice, k Kind) string {
	var sb strings.Builder
	fmt.Fprintf(&sb, " %d", len(cols))
	for _, c := range cols {
		if c.IsNil() {
			sb.WriteString(" -1")
			continue
		}
		sb.WriteString(sliceString(c, k))
	}
	return sb.String()
}

func (w *World) WriteStriped(dst int, sk Kind, cols [][]uint64) {
	d := w.views[dst]
	src := mkCols(sk, cols)
	// rows that are prefixes of an earlier row are passed as slices of that row's backing array (a caller's
	// {mono, mono[:3]}): what a row holds, not where it lives, decides what is written
	for j := 1; j < len(cols); j++ {
		for i := 0; i < j; i++ {
			if cols[j] != nil && len(cols[i]) > 0 && len(cols[j]) <= len(cols[i]) && eqU(cols[j], cols[i][:len(cols[j])]) {
				src[j] = src[i].Prefix(len(cols[j]))
				w.st.branch("striped-aliased-rows")
				break
			}
		}
	}
	var r int
	p := try(func() { r = writeStripedCall(sk, d.Kind())(src, d) })
	if p == "" {
		w.opline("wstriped %d %s%s -> ret %d%s", dst, sk, colsString(cols, sk), r, dynColsString(src, sk))
	} else {
		w.opline("wstriped %d %s%s -> %s%s", dst, sk, colsString(cols, sk), w.res(p), dynColsString(src, sk))
	}
	w.st.op("wstriped")
	w.st.pair("wstriped", sk, d.Kind())
	w.Dump()
	w.spareCheck("wstriped", dst, src...)
}

func (w *World) ReadStriped(src int, dk Kind, cols [][]uint64) {
	s := w.views[src]
	dst := mkCols(dk, cols)
	var r int
	p := try(func() { r = readStripedCall(s.Kind(), dk)(s, dst) })
	if p == "" {
		w.opline("rstriped %d %s%s -> ret %d%s", src, dk, colsString(cols, dk), r, dynColsString(dst, dk))
	} else {
		w.opline("rstriped %d %s%s -> %s%s", src, dk, colsString(cols, dk), w.res(p), dynColsString(dst, dk))
	}
	w.st.op("rstriped")
	w.st.pair("rstriped", s.Kind(), dk)
	w.Dump()
	w.spareCheck("rstriped", src, dst...)
}

func (w *World) Conv(src, dst int) {
	s, d := w.views[src], w.views[dst]
	var r int
	p := try(func() { r = convCall(s.Kind(), d.Kind())(s, d) })
	fn := convName(s.Kind(), d.Kind())
	if p == "" {
		w.opline("conv %s %d %d -> ret %d", fn, src, dst, r)
	} else {
		w.opline("conv %s %d %d -> %s", fn, src, dst, w.res(p))
	}
	w.st.op("conv")
	w.st.pair(fn, s.Kind(), d.Kind())
	w.Dump()
}

func (w *World) Pool(k Kind, ch, length, capacity int) int {
	p := NewPool(k, signal.Allocator{Channels: ch, Length: length, Capacity: capacity})
	w.pools = append(w.pools, p)
	w.inPool = append(w.inPool, map[int]bool{})
	w.opline("pool %d %s %d %d %d", len(w.pools)-1, k, ch, length, capacity)
	w.st.op("pool")
	return len(w.pools) - 1
}

func (w *World) PGet(pid int) int {
	var b DynBuf
	p := try(func() { b = w.pools[pid].Get() })
	if p != "" {
		w.opline("pget %d -1 new -> %s", pid, w.res(p))
		return -1
	}
	vid, known := w.hdr[b.HeaderPtr()]
	mode := "reuse"
	if !known {
		vid = w.addView(b)
		w.registerBlock(b)
		mode = "new"
	} else {
		delete(w.inPool[pid], vid)
	}
	w.opline("pget %d %d %s -> ok", pid, vid, mode)
	w.st.op("pget-" + mode)
	w.Dump()
	return vid
}

func (w *World) PPut(pid, vid int) string {
	b := w.views[vid]
	p := try(func() { w.pools[pid].Put(b) })
	if p == "" {
		w.inPool[pid][vid] = true
	}
	w.opline("pput %d %d -> %s", pid, vid, w.res(p))
	w.st.op("pput")
	w.Dump()
	return p
}

package main

// Exhaustive 32-bit source sweep for C06 / C07 (thorough tier): every int32 and every uint32 code is
// requantised by the real conversions into each of the eleven integer kinds, in increasing order, and
// converted back; screened natively (order, reference levels, one step when narrowing, identity at equal
// depth, exact round trip when widening). As for C08 / C09 the screen is only a search: suspicious codes
// are written to the transcript as ordinary kernel / round-trip lines and the Lean driver decides.

import (
	"fmt"
	"runtime"
	"sort"
	"sync"

	"pipelined.dev/signal"
)

func ampOf(cell uint64, k Kind) int64 {
	w := k.Width()
	if k.IsSigned() {
		return int64(cell) // cells of signed kinds are sign-extended
	}
	if w == 64 {
		return int64(cell - 1<<63)
	}
	return int64(cell) - int64(1)<<(w-1)
}

func sweepQuantKind(sk, dk Kind, workers int) (checked uint64, suspects []uint64) {
	const total = uint64(1) << 32
	nChunks := total / sweepChunk
	signed := sk.IsSigned()
	var mu sync.Mutex
	var wg sync.WaitGroup
	next := uint64(0)
	lastA := make([]int64, nChunks)
	firstA := make([]int64, nChunks)
	to := convCall(sk, dk)
	back := convCall(dk, sk)
	dw := dk.Width()
	code := func(n uint64) uint64 {
		if signed {
			return uint64(int64(n) - (1 << 31))
		}
		return n
	}
	var loD, hiD int64
	if dw == 64 {
		loD, hiD = -1<<63, 1<<63-1
	} else {
		loD, hiD = -(int64(1) << (dw - 1)), int64(1)<<(dw-1)-1
	}
	for w := 0; w < workers; w++ {
		wg.Add(1)
		go func() {
			defer wg.Done()
			a := signal.Allocator{Channels: 1, Length: sweepChunk, Capacity: sweepChunk}
			src := Alloc(sk, false, a)
			dst := Alloc(dk, false, a)
			rt := Alloc(sk, false, a)
			var local []uint64
			var localChecked uint64
			for {
				mu.Lock()
				c := next
				next++
				mu.Unlock()
				if c >= nChunks {
					break
				}
				start := c * sweepChunk
				for i := 0; i < sweepChunk; i++ {
					src.SetSample(i, code(start+uint64(i)))
				}
				to(src, dst)
				back(dst, rt)
				var prev int64
				for i := 0; i < sweepChunk; i++ {
					n := start + uint64(i)
					ax := int64(n) - (1 << 31)
					ay := ampOf(dst.Sample(i), dk)
					bad := false
					if i > 0 && ay < prev {
						bad = true
					}
					if (n == 0 && ay != loD) || (n == total-1 && ay != hiD) || (ax == 0 && ay != 0) {
						bad = true
					}
					switch {
					case dw < 32:
						sh := uint(32 - dw)
						fl := ax >> sh // floor
						if !(ay == fl || (ax&(int64(1)<<sh-1) != 0 && ay == fl+1)) {
							bad = true
						}
					case dw == 32:
						if ay != ax {
							bad = true
						}
					default:
						if rt.Sample(i) != src.Sample(i) {
							bad = true
						}
					}
					if bad && len(local) < 8 {
						if i > 0 {
							local = append(local, code(n-1))
						}
						local = append(local, code(n))
					}
					prev = ay
					if i == 0 {
						firstA[c] = ay
					}
				}
				lastA[c] = prev
				localChecked += sweepChunk
			}
			mu.Lock()
			checked += localChecked
			suspects = append(suspects, local...)
			mu.Unlock()
		}()
	}
	wg.Wait()
	for c := uint64(1); c < nChunks; c++ {
		if firstA[c] < lastA[c-1] && len(suspects) < 64 {
			suspects = append(suspects, code(c*sweepChunk-1), code(c*sweepChunk))
		}
	}
	return
}

func genQuantSweep32(g *Kern, withRT bool) {
	workers := runtime.NumCPU()
	for _, sk := range []Kind{I32, U32} {
		for dk := Kind(0); dk < NKinds; dk++ {
			if dk.IsFloat() {
				continue
			}
			checked, sus := sweepQuantKind(sk, dk, workers)
			fmt.Fprintf(g.out, "sweep32 %s %s %s checked=%d suspects=%d\n", convName(sk, dk), sk, dk, checked, len(sus))
			g.st.lines++
			g.st.Branches["sweep32-codes-"+sk.String()+">"+dk.String()] = int(checked)
			if len(sus) > 0 {
				seen := map[uint64]bool{}
				var cells []uint64
				for _, x := range sus {
					if !seen[x] {
						seen[x] = true
						cells = append(cells, x)
					}
				}
				if sk.IsSigned() {
					sort.Slice(cells, func(i, j int) bool { return int64(cells[i]) < int64(cells[j]) })
				} else {
					sort.Slice(cells, func(i, j int) bool { return cells[i] < cells[j] })
				}
				g.emitK(sk, dk, cells)
				if withRT {
					g.emitRT(sk, dk, cells)
				}
			}
		}
	}
}

package main

// Huge buffers (2^22 .. 2^24 samples and more; minutes of audio), judged natively.
//
// The eleventh generation of seeded changes hid behind sizes no transcript carries: conversions, writers, `clear` and
// `Append` that switch to a parallel or block-wise path from 2^22, 2^23 or 2^24 samples and lose the remainder
// (`length % GOMAXPROCS`, `cap % block`), a single-precision `Length` that is wrong above 2^24 samples.  Every screen
// here has a reference that needs no model: a conversion is position-wise (a short run of the same values, which the
// model judges, is the reference), a writer / reader stores and returns what it was given, `append` on plain Go
// slices, zero after `Put`, the integer ceiling.  Screens run with GOMAXPROCS 3, 4 and the machine's own value, so a
// remainder is never zero for all of them.  One `goref` line per screen; mismatching kernel positions are handed to
// the model as ordinary kernel lines.

import (
	"fmt"
	"os"
	"runtime"
	"strings"
	"syscall"

	"pipelined.dev/signal"
)

var (
	genTier     = "quick"
	genSeed     uint64
	hugeCounter int
)

var hugeAllLengths bool // replay: every length

var hugeLengths = []int{1<<22 + 1, 1<<23 + 3, 1<<24 + 3}
var hugeProcs = []int{0, 3, 4} // 0: leave GOMAXPROCS as it is

func withProcs(p int, f func()) {
	if p > 0 {
		old := runtime.GOMAXPROCS(p)
		defer runtime.GOMAXPROCS(old)
	}
	f()
}

// hugeScreen: the position-independence screen of longScreen at 2^22+1, 2^23+3 and 2^24+3 samples. Quick tier: one
// kind pair in eleven (rotating with the seed), all three lengths; thorough: every pair at 2^22+1, one in five at all.
func (g *Kern) hugeScreen(sk, dk Kind, specials []uint64) { g.hugeScreenOpt(sk, dk, specials, false) }

// genHugeConv: one pair of element kinds for each of the nine conversion functions, always (C05: every function
// overwrites exactly the common prefix, whatever its length)
func genHugeConv(g *Kern, r *Rng, tier string) {
	pairs := [][2]Kind{{F64, F32}, {F32, I16}, {F64, U8}, {I16, F32}, {I32, I16}, {I16, U16}, {U8, F64}, {U16, I32}, {U32, U8}}
	for i, p := range pairs {
		sp := intSpecials(p[0])
		if p[0].IsFloat() {
			sp = floatSpecials(p[0])
		}
		if tier != "thorough" && (i+int(genSeed))%3 != 0 {
			continue
		}
		g.hugeScreenOpt(p[0], p[1], sp, true)
	}
}

func (g *Kern) hugeScreenOpt(sk, dk Kind, specials []uint64, force bool) {
	hugeCounter++
	if !memRoom(1 << 30) {
		g.st.branch("huge-screen-skipped-for-lack-of-memory")
		return
	}
	lengths := hugeLengths
	if hugeAllLengths {
		lengths = hugeLengths
	} else if force {
		lengths = hugeLengths[:1]
		if genTier == "thorough" {
			lengths = hugeLengths[:2]
		}
	} else if genTier == "thorough" {
		if (hugeCounter+int(genSeed))%5 != 0 {
			lengths = hugeLengths[:1]
		}
	} else if hugeCounter != 1+int(genSeed)%3 && (hugeCounter+int(genSeed))%11 != 0 {
		// (one of the first three pairs of the run always, so that generators with few pairs get a huge run too)
		return
	}
	ref, p := runKernelOpt(sk, dk, specials, false)
	if p != "" {
		return
	}
	m := len(specials)
	for li, L := range lengths {
		src := Alloc(sk, false, signal.Allocator{Channels: 1, Length: L, Capacity: L})
		dst := Alloc(dk, false, signal.Allocator{Channels: 1, Length: L, Capacity: L})
		fill := stalePattern(dk)
		for i := 0; i < L; i++ {
			src.SetSample(i, specials[i%m])
			dst.SetSample(i, fill)
		}
		var pp string
		withProcs(hugeProcs[(li+hugeCounter)%len(hugeProcs)], func() { pp = try(func() { convCall(sk, dk)(src, dst) }) })
		if pp != "" {
			fmt.Fprintf(g.out, "kpanic %s %s %s huge%d %s\n", convName(sk, dk), sk, dk, L, strings.ReplaceAll(pp, " ", "_"))
			g.st.lines++
			continue
		}
		var bad []int
		for i := 0; i < L && len(bad) < 16; i++ {
			if dst.Sample(i) != ref[i%m] {
				bad = append(bad, i)
			}
		}
		g.st.Branches[fmt.Sprintf("huge-screen-%d", L)]++
		if force {
			// C05's own clause: result k depends only on source sample k, whatever the length
			b := ""
			if len(bad) > 0 {
				i := bad[0]
				b = fmt.Sprintf("pos=%d sample=%s got=%s want=%s", i, cellString(specials[i%m], sk), cellString(dst.Sample(i), dk), cellString(ref[i%m], dk))
			}
			g.goref("C05", "position-wise-at-any-length", strings.ReplaceAll(b, " ", "_"), fmt.Sprintf("entry=%s sk=%s dk=%s n=%d", convName(sk, dk), sk, dk, L))
		}
		if len(bad) > 0 && !force {
			// (also as a native verdict of the function's own property, so that the replay re-runs this screen)
			props := "C06,C07"
			switch {
			case sk.IsFloat() && dk.IsFloat():
				props = "C05"
			case sk.IsFloat():
				props = "C08"
			case dk.IsFloat():
				props = "C09"
			}
			i := bad[0]
			g.goref(props, "huge-position-independence",
				fmt.Sprintf("pos=%d_sample=%s_got=%s_want=%s", i, cellString(specials[i%m], sk), cellString(dst.Sample(i), dk), cellString(ref[i%m], dk)),
				fmt.Sprintf("entry=%s sk=%s dk=%s n=%d", convName(sk, dk), sk, dk, L))
		}
		if len(bad) > 0 {
			g.st.branch("huge-screen-differs")
			fmt.Fprintf(g.out, "kseq %s %s %s\n", convName(sk, dk), sk, dk)
			for _, i := range bad {
				fmt.Fprintf(g.out, "k %s %s\n", cellString(specials[i%m], sk), cellString(dst.Sample(i), dk))
			}
			g.st.lines += len(bad) + 1
		}
	}
}

func (g *Kern) goref(props, clause string, bad string, label string) {
	st := "ok"
	if bad != "" {
		st = "mismatch"
	}
	fmt.Fprintf(g.out, "goref %s %s %s %s %s\n", props, clause, st, label, bad)
	g.st.lines++
	g.st.cases++
	g.st.Branches["goref-"+clause+"-"+st]++
}

// genHugeRW: the four readers / writers on 2^23+6 .. 2^24+6 samples (C01)
func genHugeRW(g *Kern, r *Rng, tier string) {
	if !memRoom(1 << 30) {
		g.st.branch("huge-screen-skipped-for-lack-of-memory")
		return
	}
	type cfg struct{ frames, ch, procs int }
	cfgs := []cfg{{1<<22 + 3, 2, 4}, {1<<23 + 1, 1, 3}, {1<<23 + 3, 2, 0}}
	if tier != "thorough" {
		cfgs = cfgs[int(genSeed)%3 : int(genSeed)%3+1]
	}
	for _, c := range cfgs {
		n := c.frames * c.ch
		vals := make([]int16, n)
		for i := range vals {
			vals[i] = int16(i*7%251 - 125)
		}
		label := fmt.Sprintf("kind=i16 ch=%d frames=%d procs=%d", c.ch, c.frames, c.procs)
		withProcs(c.procs, func() {
			bad := ""
			p := try(func() {
				b := signal.Alloc[int16](signal.Allocator{Channels: c.ch, Length: c.frames, Capacity: c.frames})
				if ret := signal.Write(vals, b); ret != c.frames {
					bad = fmt.Sprintf("Write returned %d", ret)
				}
				for i := 0; i < n && bad == ""; i++ {
					if b.Sample(i) != vals[i] {
						bad = fmt.Sprintf("Write pos=%d got=%d want=%d", i, b.Sample(i), vals[i])
					}
				}
				out := make([]int32, n)
				if ret := signal.Read(b, out); ret != c.frames && bad == "" {
					bad = fmt.Sprintf("Read returned %d", ret)
				}
				for i := 0; i < n && bad == ""; i++ {
					if out[i] != int32(vals[i]) {
						bad = fmt.Sprintf("Read pos=%d got=%d want=%d", i, out[i], vals[i])
					}
				}
				// striped: channel c holds vals[c], vals[ch+c], ...
				cols := make([][]int16, c.ch)
				for ch := range cols {
					cols[ch] = make([]int16, c.frames)
					for i := range cols[ch] {
						cols[ch][i] = int16((i*c.ch+ch)*3%241 - 120)
					}
				}
				b2 := signal.Alloc[int16](signal.Allocator{Channels: c.ch, Length: c.frames, Capacity: c.frames})
				if ret := signal.WriteStriped(cols, b2); ret != c.frames && bad == "" {
					bad = fmt.Sprintf("WriteStriped returned %d", ret)
				}
				for i := 0; i < n && bad == ""; i++ {
					if want := cols[i%c.ch][i/c.ch]; b2.Sample(i) != want {
						bad = fmt.Sprintf("WriteStriped pos=%d got=%d want=%d", i, b2.Sample(i), want)
					}
				}
				back := make([][]int16, c.ch)
				for ch := range back {
					back[ch] = make([]int16, c.frames)
				}
				if ret := signal.ReadStriped(b2, back); ret != c.frames && bad == "" {
					bad = fmt.Sprintf("ReadStriped returned %d", ret)
				}
				for ch := 0; ch < c.ch && bad == ""; ch++ {
					for i := 0; i < c.frames; i++ {
						if back[ch][i] != cols[ch][i] {
							bad = fmt.Sprintf("ReadStriped channel=%d i=%d got=%d want=%d", ch, i, back[ch][i], cols[ch][i])
							break
						}
					}
				}
			})
			if p != "" {
				bad = "panic=" + strings.ReplaceAll(p, " ", "_")
			}
			g.goref("C01", "huge-read-write", strings.ReplaceAll(bad, " ", "_"), label)
		})
	}
}

// genHugeAppend: in-place appends of 9..12 Mi samples (int8) whose source is a window of the destination's own storage,
// against `append` on a plain []int8 with the same aliasing (C03, C12)
func genHugeAppend(g *Kern, r *Rng, tier string) {
	if !memRoom(1 << 30) {
		g.st.branch("huge-screen-skipped-for-lack-of-memory")
		return
	}
	type sc struct{ total, L, a, n, procs int }
	list := []sc{
		{24 << 20, 100, 50, 9<<20 + 77, 0},          // source starts inside the destination, 9 Mi long
		{24 << 20, 1<<20 + 5, 1 << 19, 10 << 20, 3}, // long destination, source overlaps its tail
		{40 << 20, 3, 1, 17<<20 + 1, 4},             // past 2^24 samples
	}
	if tier != "thorough" {
		list = list[:2]
	}
	for _, s := range list {
		label := fmt.Sprintf("kind=i8 ch=1 L=%d K=%d src=window[%d,%d) procs=%d", s.L, s.total, s.a, s.a+s.n, s.procs)
		withProcs(s.procs, func() {
			bad := ""
			p := try(func() {
				backing := make([]int8, s.total)
				base := signal.Alloc[int8](signal.Allocator{Channels: 1, Length: s.L, Capacity: s.total})
				full := base.Slice(0, s.total)
				for i := range backing {
					backing[i] = int8(i*7%251 - 125)
					full.SetSample(i, backing[i])
				}
				refDst := backing[:s.L:s.total]
				refDst = append(refDst, backing[s.a:s.a+s.n]...) // plain Go slices
				base.Append(base.Slice(s.a, s.a+s.n))
				if base.Len() != len(refDst) {
					bad = fmt.Sprintf("len got=%d want=%d", base.Len(), len(refDst))
				}
				for i := 0; bad == "" && i < len(refDst); i++ {
					if base.Sample(i) != refDst[i] {
						bad = fmt.Sprintf("pos=%d got=%d want=%d", i, base.Sample(i), refDst[i])
					}
				}
				for i := 0; bad == "" && i < s.total; i++ {
					if full.Sample(i) != backing[i] {
						bad = fmt.Sprintf("storage pos=%d got=%d want=%d", i, full.Sample(i), backing[i])
					}
				}
			})
			if p != "" {
				bad = "panic=" + strings.ReplaceAll(p, " ", "_")
			}
			g.goref("C03,C12", "append-equals-plain-slices", strings.ReplaceAll(bad, " ", "_"), label)
		})
	}
}

// genHugePool: a pool of 4 Mi+6 .. 16 Mi samples: fill the whole capacity, put, get: zero everywhere (C10)
func genHugePool(g *Kern, r *Rng, tier string) {
	if !memRoom(1 << 30) {
		g.st.branch("huge-screen-skipped-for-lack-of-memory")
		return
	}
	type cfg struct{ ch, K, procs int }
	cfgs := []cfg{{2, 1<<21 + 3, 0}, {1, 1<<23 + 5, 3}}
	if tier == "thorough" {
		cfgs = append(cfgs, cfg{3, 1<<22 + 1, 4}, cfg{1, 1<<24 + 7, 0})
	}
	for _, c := range cfgs {
		label := fmt.Sprintf("kind=i16 ch=%d L=1 K=%d procs=%d", c.ch, c.K, c.procs)
		withProcs(c.procs, func() {
			bad := ""
			p := try(func() {
				pool := signal.PoolAlloc[int16](signal.Allocator{Channels: c.ch, Length: 1, Capacity: c.K})
				b := pool.Get()
				full := b.Slice(0, c.K)
				for i := 0; i < full.Len(); i++ {
					full.SetSample(i, 3)
				}
				pool.Put(b)
				for round := 0; round < 2 && bad == ""; round++ {
					g2 := pool.Get()
					if g2.Channels() != c.ch || g2.Length() != 1 || g2.Capacity() != c.K {
						bad = fmt.Sprintf("shape ch%d/L%d/K%d", g2.Channels(), g2.Length(), g2.Capacity())
					}
					f2 := g2.Slice(0, c.K)
					for i := 0; i < f2.Len() && bad == ""; i++ {
						if f2.Sample(i) != 0 {
							bad = fmt.Sprintf("not-zero pos=%d got=%d", i, f2.Sample(i))
						}
					}
				}
			})
			if p != "" {
				bad = "panic=" + strings.ReplaceAll(p, " ", "_")
			}
			g.goref("C10", "huge-pool-buffer-fresh", strings.ReplaceAll(bad, " ", "_"), label)
		})
	}
}

// genHugeLength: Len / Length / Capacity around 2^24 and 2^25 samples while samples are appended one by one (C04)
// wideLength: Len / Length / Capacity of buffers with 2^16 .. 2^20 channels (powers of two and their neighbours)
// while single samples are appended: ceil(Len / channels) whatever the channel count
func wideLength(g *Kern) {
	for _, ch := range []int{1 << 16, 1<<16 + 1, 1 << 17, 1<<17 - 1, 1 << 18, 1 << 20} {
		bad := ""
		p := try(func() {
			b := signal.Alloc[int8](signal.Allocator{Channels: ch, Length: 1, Capacity: 3})
			for k := 0; k <= 2 && bad == ""; k++ {
				n := ch + k
				if b.Len() != n || b.Length() != (n+ch-1)/ch || b.Capacity() != 3 {
					bad = fmt.Sprintf("after %d appends: Len=%d Length=%d Capacity=%d want Length=%d", k, b.Len(), b.Length(), b.Capacity(), (n+ch-1)/ch)
				}
				b.AppendSample(1)
			}
		})
		if p != "" {
			bad = "panic=" + strings.ReplaceAll(p, " ", "_")
		}
		g.goref("C04,C01", "huge-length", strings.ReplaceAll(bad, " ", "_"), fmt.Sprintf("kind=i8 ch=%d L=1 K=3", ch))
	}
}

func genHugeLength(g *Kern, r *Rng, tier string) {
	wideLength(g)
	if !memRoom(1 << 30) {
		g.st.branch("huge-screen-skipped-for-lack-of-memory")
		return
	}
	for _, c := range []struct{ ch, frames int }{{1, 1 << 24}, {2, 1 << 24}, {3, 1<<24 + 1}, {1, 1 << 25}} {
		if tier != "thorough" && c.frames > 1<<24+1 {
			continue
		}
		label := fmt.Sprintf("kind=i8 ch=%d L=%d K=%d", c.ch, c.frames, c.frames+4)
		bad := ""
		p := try(func() {
			b := signal.Alloc[int8](signal.Allocator{Channels: c.ch, Length: c.frames, Capacity: c.frames + 4})
			for k := 0; k <= 3*c.ch && bad == ""; k++ {
				n := c.frames*c.ch + k
				if b.Len() != n || b.Length() != (n+c.ch-1)/c.ch || b.Capacity() != c.frames+4 || b.Cap() != (c.frames+4)*c.ch {
					bad = fmt.Sprintf("after %d appends: Len=%d Length=%d Capacity=%d Cap=%d, want Len=%d Length=%d", k, b.Len(), b.Length(), b.Capacity(), b.Cap(), n, (n+c.ch-1)/c.ch)
				}
				b.AppendSample(int8(k + 1))
			}
		})
		if p != "" {
			bad = "panic=" + strings.ReplaceAll(p, " ", "_")
		}
		g.goref("C04,C01", "huge-length", strings.ReplaceAll(bad, " ", "_"), label)
	}
}

// genC14Wide: channel views of buffers with more than 2^16 (2^17, 2^20) channels, judged natively by the property's own
// words: the view of channel c reads and writes the parent's position channels*i+c and no other, reports that position,
// one channel and the parent's per-channel length and capacity. (A channel number kept in a narrower integer aliases
// another channel; the model would need a minute per dump of such a buffer.)
func genC14Wide(g *Kern, r *Rng, tier string) {
	for _, ch := range []int{1<<16 + 3, 1<<17 + 1, 1<<20 + 5} {
		if tier != "thorough" && ch > 1<<17+1 {
			continue
		}
		frames := 2
		label := fmt.Sprintf("kind=i16 ch=%d frames=%d", ch, frames)
		bad := ""
		p := try(func() {
			b := signal.Alloc[int16](signal.Allocator{Channels: ch, Length: frames, Capacity: frames + 1})
			for i := 0; i < b.Len(); i++ {
				b.SetSample(i, int16(i%251+1))
			}
			for _, c := range []int{1, 1 << 16, 1<<16 + 1, ch - 1, ch / 2} {
				v := b.Channel(c)
				if v.Channels() != 1 || v.Length() != frames || v.Capacity() != frames+1 {
					bad = fmt.Sprintf("channel=%d shape %d/%d/%d", c, v.Channels(), v.Length(), v.Capacity())
				}
				for i := 0; i < frames && bad == ""; i++ {
					pos := ch*i + c
					if v.BufferIndex(0, i) != pos {
						bad = fmt.Sprintf("channel=%d i=%d BufferIndex=%d want=%d", c, i, v.BufferIndex(0, i), pos)
					}
					if bad == "" && v.Sample(i) != b.Sample(pos) {
						bad = fmt.Sprintf("channel=%d i=%d Sample=%d parent=%d", c, i, v.Sample(i), b.Sample(pos))
					}
					if bad == "" {
						v.SetSample(i, -7)
						for j := 0; j < b.Len() && bad == ""; j++ {
							want := int16(j%251 + 1)
							if j == pos {
								want = -7
							}
							if b.Sample(j) != want {
								bad = fmt.Sprintf("channel=%d i=%d write changed position %d (got %d want %d)", c, i, j, b.Sample(j), want)
							}
						}
						if bad == "" && v.Sample(i) != -7 {
							bad = fmt.Sprintf("channel=%d i=%d read back %d", c, i, v.Sample(i))
						}
						b.SetSample(pos, int16(pos%251+1))
					}
				}
			}
		})
		if p != "" {
			bad = "panic=" + strings.ReplaceAll(p, " ", "_")
		}
		g.goref("C14", "wide-channel-view", strings.ReplaceAll(bad, " ", "_"), label)
	}
}

// genGiant: a buffer of 2^31+9 samples (int8; the pages are never touched, so it costs address space only): lengths,
// capacities and counts beyond 32 bits, a window near its end, and conversions between it and an 8-sample buffer
// (C04, C05, C07, C02)
// memRoom: the address space and the free memory of this process allow an allocation of `need` bytes with a wide
// margin (an allocation the runtime cannot satisfy is a fatal error, not a panic: the screen is skipped instead)
func memRoom(need uint64) bool {
	var rl syscall.Rlimit
	if syscall.Getrlimit(syscall.RLIMIT_AS, &rl) == nil && rl.Cur != ^uint64(0) && rl.Cur < 4*need {
		return false
	}
	data, err := os.ReadFile("/proc/meminfo")
	if err != nil {
		return false
	}
	for _, line := range strings.Split(string(data), "\n") {
		if strings.HasPrefix(line, "MemAvailable:") {
			f := strings.Fields(line)
			if len(f) >= 2 {
				var kb uint64
				fmt.Sscan(f[1], &kb)
				return kb*1024 >= 3*need
			}
		}
	}
	return false
}

func genGiant(g *Kern, props string) {
	n := 1<<31 + 9
	if !memRoom(uint64(n) * 2) {
		g.st.branch("giant-buffer-skipped-for-lack-of-memory")
		return
	}
	bad := ""
	p := try(func() {
		big := signal.Alloc[int8](signal.Allocator{Channels: 1, Length: n, Capacity: n + 2})
		if big.Len() != n || big.Length() != n || big.Cap() != n+2 || big.Capacity() != n+2 {
			bad = fmt.Sprintf("mono: Len=%d Length=%d Cap=%d Capacity=%d want %d %d %d %d", big.Len(), big.Length(), big.Cap(), big.Capacity(), n, n, n+2, n+2)
		}
		big.AppendSample(5)
		if bad == "" && (big.Len() != n+1 || big.Length() != n+1 || big.Sample(n) != 5) {
			bad = fmt.Sprintf("after AppendSample: Len=%d Length=%d", big.Len(), big.Length())
		}
		w := big.Slice(n-4, n)
		if bad == "" && (w.Length() != 4 || w.Capacity() != 6) {
			bad = fmt.Sprintf("window near the end: Length=%d Capacity=%d", w.Length(), w.Capacity())
		}
		small := signal.Alloc[int16](signal.Allocator{Channels: 1, Length: 8, Capacity: 8})
		for i := 0; i < 8; i++ {
			small.SetSample(i, int16(256*(i+1)))
		}
		if ret := signal.SignedAsSigned(small, big); bad == "" && ret != 8 {
			bad = fmt.Sprintf("SignedAsSigned(8 samples -> giant) returned %d", ret)
		}
		for i := 0; i < 8 && bad == ""; i++ {
			if big.Sample(i) != int8(i+1) {
				bad = fmt.Sprintf("SignedAsSigned(8 samples -> giant): position %d holds %d want %d", i, big.Sample(i), i+1)
			}
		}
		back := signal.Alloc[int16](signal.Allocator{Channels: 1, Length: 8, Capacity: 8})
		if ret := signal.SignedAsSigned(big, back); bad == "" && (ret != 8 || back.Sample(7) != 9*256-1) {
			bad = fmt.Sprintf("SignedAsSigned(giant -> 8 samples) returned %d, last=%d", ret, back.Sample(7))
		}
		out := make([]int16, 5)
		if ret := signal.Read(big, out); bad == "" && (ret != 5 || out[4] != 5) {
			bad = fmt.Sprintf("Read(giant, 5) returned %d", ret)
		}
	})
	if p != "" {
		bad = "panic=" + strings.ReplaceAll(p, " ", "_")
	}
	g.goref(props, "giant-buffer", strings.ReplaceAll(bad, " ", "_"), fmt.Sprintf("kind=i8 samples=%d", n))
	runtime.GC()
}

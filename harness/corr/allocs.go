package main

// C18: testing.AllocsPerRun around every steady-state operation of the real package. The transcript
// carries the measured count; the Lean driver checks measured <= the model's object count
// (SignalModel/Cost.lean: 0 everywhere, 1 header for Slice).

import (
	"bufio"
	"fmt"
	"os"
	"strconv"
	"strings"
	"testing"

	"pipelined.dev/signal"
)

var sinkBuf DynBuf
var sinkInt int
var sinkU uint64

func allocsMain(args []string) {
	if len(args) != 5 {
		fmt.Fprintln(os.Stderr, "usage: corr allocs <property> <tier> <seed> <transcript> <stats>")
		os.Exit(2)
	}
	tier := args[1]
	seed, _ := strconv.ParseUint(args[2], 10, 64)
	f, err := os.Create(args[3])
	if err != nil {
		fmt.Fprintln(os.Stderr, err)
		os.Exit(2)
	}
	out := bufio.NewWriterSize(f, 1<<20)
	st := NewStats("C18", tier, seed)
	r := &Rng{s: seed*0x9E3779B97F4A7C15 + 0x2468ACE}
	fmt.Fprintf(out, "transcript C18 %s %d\n", tier, seed)
	func() {
		defer func() {
			if e := recover(); e != nil {
				fmt.Fprintf(out, "gencrash %s\n", strings.ReplaceAll(fmt.Sprint(e), " ", "_"))
			}
		}()
		runAllocs(out, st, r, tier)
	}()
	out.Flush()
	f.Close()
	st.Write(args[4])
}

const allocRuns = 100

func measure(out *bufio.Writer, st *Stats, op string, detail string, f func()) {
	n := testing.AllocsPerRun(allocRuns, f)
	fmt.Fprintf(out, "allocs %s %s %d\n", op, detail, int(n))
	st.lines++
	st.cases++
	st.Ops[op]++
	st.sample(fmt.Sprintf("allocs %s %s -> %d", op, detail, int(n)))
}

func runAllocs(out *bufio.Writer, st *Stats, r *Rng, tier string) {
	kinds := []Kind{I8, I64, U8, U64, F32, F64, INT, U16, I32}
	chs := []int{1, 2, 3, 8}
	lens := []int{0, 1, 16, 4096}
	if tier == "thorough" {
		kinds = []Kind{I8, I16, I32, I64, INT, U8, U16, U32, U64, UINT, UINTPTR, F32, F64}
		chs = []int{1, 2, 3, 4, 5, 6, 7, 8}
		lens = []int{0, 1, 2, 7, 64, 1000, 4096}
	}
	for _, k := range kinds {
		for _, ch := range chs {
			for _, L := range lens {
				if tier != "thorough" && r.Intn(3) != 0 {
					continue // quick tier: a seeded third of the grid
				}
				st.shape("ch%d/L%d", ch, L)
				det := fmt.Sprintf("%s/ch%d/L%d", k, ch, L)
				// a buffer with spare capacity for 2*allocRuns+2 single-sample / per-frame appends
				spare := 2*allocRuns + 4
				b := Alloc(k, false, signal.Allocator{Channels: ch, Length: L, Capacity: L + spare})
				full := Alloc(k, false, signal.Allocator{Channels: ch, Length: L, Capacity: L})
				v := small(k, 5)
				if L > 0 {
					measure(out, st, "sample", det, func() { sinkU = b.Sample(b.Len() - 1) })
					measure(out, st, "setSample", det, func() { b.SetSample(0, v) })
					measure(out, st, "channelSample", det, func() { sinkU = b.ChanSample(ch-1, 0) })
					measure(out, st, "channelSetSample", det, func() { b.ChanSet(ch-1, L-1, v) })
				}
				measure(out, st, "channelView", det, func() { a, l, c := b.ChanShape(0); sinkInt = a + l + c + b.ChanIndex(0, 1) })
				measure(out, st, "lengths", det, func() { sinkInt = b.Len() + b.Cap() + b.Length() + b.Capacity() + b.Channels() + b.BitDepth() })
				measure(out, st, "appendSample", det, func() { b.AppendSample(v) })
				measure(out, st, "appendSampleFull", det, func() { full.AppendSample(v) })
				// slicing: at most the view header (the result escapes)
				measure(out, st, "slice", det, func() { full.SliceSink(0, L) })
				// readers / writers with caller-owned slices, same and different kinds
				ok := kinds[r.Intn(len(kinds))]
				vals := make([]uint64, ch*L+3)
				for i := range vals {
					vals[i] = small(ok, 1+i%50)
				}
				src := NewSlice(ok, vals, false)
				dst := NewSlice(ok, make([]uint64, ch*L+3), false)
				wr, rd := writeCall(ok, k), readCall(k, ok)
				measure(out, st, "write", det+"/"+ok.String(), func() { sinkInt = wr(src, full) })
				measure(out, st, "read", det+"/"+ok.String(), func() { sinkInt = rd(full, dst) })
				cols := make([]DynSlice, ch)
				for c := range cols {
					cols[c] = NewSlice(ok, make([]uint64, L), false)
				}
				scols := stripedAny(ok, cols)
				ws, rs := writeStripedRawCall(ok, k), readStripedRawCall(k, ok)
				measure(out, st, "writeStriped", det+"/"+ok.String(), func() { sinkInt = ws(scols, full) })
				measure(out, st, "readStriped", det+"/"+ok.String(), func() { sinkInt = rs(full, scols) })
				// ragged striped input: a nil channel, shorter and longer channels than the buffer
				if ch > 1 {
					rag := make([]DynSlice, ch)
					for c := range rag {
						switch c % 3 {
						case 0:
							rag[c] = NewSlice(ok, nil, true)
						case 1:
							rag[c] = NewSlice(ok, make([]uint64, L/2), false)
						default:
							rag[c] = NewSlice(ok, make([]uint64, L+3), false)
						}
					}
					srag := stripedAny(ok, rag)
					measure(out, st, "writeStriped", det+"/"+ok.String()+"/ragged", func() { sinkInt = ws(srag, full) })
					measure(out, st, "readStriped", det+"/"+ok.String()+"/ragged", func() { sinkInt = rs(full, srag) })
				}
				// interleaved forms with shorter and longer caller slices
				if L > 0 {
					short := NewSlice(ok, make([]uint64, (ch*L)/2), false)
					measure(out, st, "write", det+"/"+ok.String()+"/short", func() { sinkInt = wr(short, full) })
					measure(out, st, "read", det+"/"+ok.String()+"/short", func() { sinkInt = rd(full, short) })
				}
				// all nine conversions are reached through the kind pairs
				dk := kinds[r.Intn(len(kinds))]
				d := Alloc(dk, false, signal.Allocator{Channels: ch, Length: L, Capacity: L + 1})
				cv := convCall(k, dk)
				measure(out, st, convName(k, dk), det+"/"+dk.String(), func() { sinkInt = cv(full, d) })
				// source and destination of a conversion are windows of one parent (same element type):
				// disjoint halves, touching, and the destination starting inside the source
				if L >= 8 {
					cvSame := convCall(k, k)
					par := Alloc(k, false, signal.Allocator{Channels: ch, Length: L, Capacity: L})
					s0, d0 := par.Slice(0, L/2), par.Slice(L/2, L)
					measure(out, st, convName(k, k), det+"/same-parent-disjoint", func() { sinkInt = cvSame(s0, d0) })
					sA, dA := par.Slice(0, L-2), par.Slice(2, L)
					measure(out, st, convName(k, k), det+"/same-parent-dst-inside-src", func() { sinkInt = cvSame(sA, dA) })
					sB, dB := par.Slice(2, L), par.Slice(0, L-2)
					measure(out, st, convName(k, k), det+"/same-parent-src-inside-dst", func() { sinkInt = cvSame(sB, dB) })
				}
				// append within capacity: one frame per run, into a window with spare capacity and
				// into a buffer that is exactly filled at the end
				one := Alloc(k, false, signal.Allocator{Channels: ch, Length: 1, Capacity: 1})
				dstA := Alloc(k, false, signal.Allocator{Channels: ch, Length: L, Capacity: L + allocRuns + 1})
				measure(out, st, "appendInPlace", det, func() { dstA.Append(one) })
				win := b.Slice(0, b.Capacity()).Slice(1, 2) // a window with spare capacity inside b
				empty := Alloc(k, false, signal.Allocator{Channels: ch, Length: 0, Capacity: 0})
				measure(out, st, "appendInPlace", det+"/window-empty-src", func() { win.Append(empty) })
				// source and destination are disjoint windows of the same parent buffer
				parent := Alloc(k, false, signal.Allocator{Channels: ch, Length: 2*allocRuns + 60, Capacity: 2*allocRuns + 60})
				dstW := parent.Slice(0, 1)
				srcW := parent.Slice(2*allocRuns+50, 2*allocRuns+51)
				measure(out, st, "appendInPlace", det+"/same-parent", func() { dstW.Append(srcW) })
				// source overlapping the range the append writes (windows of one parent), a fresh
				// destination header per run so that every run is the same append
				if L >= 4 {
					ovParent := Alloc(k, false, signal.Allocator{Channels: ch, Length: L, Capacity: L})
					dsts := make([]DynBuf, allocRuns+2)
					for i := range dsts {
						dsts[i] = ovParent.Slice(0, 2)
					}
					ovSrc := ovParent.Slice(1, 3)
					next := 0
					measure(out, st, "appendInPlace", det+"/overlapping-source", func() { dsts[next].Append(ovSrc); next++ })
				}
				// a buffer appended to itself within its capacity: a fresh header per run (each append doubles it)
				{
					selfParent := Alloc(k, false, signal.Allocator{Channels: ch, Length: 4, Capacity: 4})
					selfs := make([]DynBuf, allocRuns+2)
					for i := range selfs {
						selfs[i] = selfParent.Slice(0, 2)
					}
					nextS := 0
					measure(out, st, "appendInPlace", det+"/self", func() { selfs[nextS].Append(selfs[nextS]); nextS++ })
				}
				win2 := b.Slice(0, b.Capacity()).Slice(1, 2) // spare capacity for allocRuns+1 more frames
				measure(out, st, "appendInPlace", det+"/window", func() { win2.Append(one) })
				// pool get/put cycle
				p := NewPool(k, signal.Allocator{Channels: ch, Length: L, Capacity: L + 2})
				p.Put(p.Get())
				measure(out, st, "poolCycle", det, func() { p.Cycle(v) })
			}
		}
	}
}

// pre-built [][]T values so that the measured closure does not build them
type stripedVal = any

func stripedAny(k Kind, cols []DynSlice) stripedVal {
	switch k {
	case I8:
		return (stripedT[int8](cols))
	case I16:
		return (stripedT[int16](cols))
	case I32:
		return (stripedT[int32](cols))
	case I64:
		return (stripedT[int64](cols))
	case INT:
		return (stripedT[int](cols))
	case U8:
		return (stripedT[uint8](cols))
	case U16:
		return (stripedT[uint16](cols))
	case U32:
		return (stripedT[uint32](cols))
	case U64:
		return (stripedT[uint64](cols))
	case UINT:
		return (stripedT[uint](cols))
	case UINTPTR:
		return (stripedT[uintptr](cols))
	case F32:
		return (stripedT[float32](cols))
	}
	return (stripedT[float64](cols))
}

package main

// Exhaustive 32-bit source sweep for C09 (thorough tier): every int32 and every uint32 code is converted
// by the real SignedAsFloat / UnsignedAsFloat into float32 and float64, in increasing order, converted
// back with the matching FloatAs... conversion, and screened natively (range, endpoints, order /
// distinctness, one step, round trip). As for C08 the screen is only a *search*: suspicious codes are
// written to the transcript as ordinary kernel / round-trip lines and the Lean driver decides with the
// model and the predicates of Spec.C09. Codes covered by the known finding (unsigned codes of
// non-positive amplitude) are not screened for distinctness / round trip here; the sampled generator
// reports those as before.

import (
	"fmt"
	"math"
	"runtime"
	"sort"
	"sync"

	"pipelined.dev/signal"
)

type sweepSrc interface{ ~int32 | ~uint32 }
type sweepDst interface{ ~float32 | ~float64 }

func sweepC09Kind[S sweepSrc, D sweepDst](sk, dk Kind, workers int) (checked uint64, suspects []uint64) {
	const total = uint64(1) << 32
	nChunks := total / sweepChunk
	signed := sk.IsSigned()
	var mu sync.Mutex
	var wg sync.WaitGroup
	next := uint64(0)
	lastR := make([]float64, nChunks)
	firstR := make([]float64, nChunks)
	to := convCall(sk, dk)
	back := convCall(dk, sk)
	p := 53
	if dk == F32 {
		p = 24
	}
	code := func(n uint64) uint64 { // n-th code in increasing numeric order, as a cell
		if signed {
			return uint64(int64(n) - (1 << 31)) // sign-extended, as every signed cell
		}
		return n
	}
	for w := 0; w < workers; w++ {
		wg.Add(1)
		go func() {
			defer wg.Done()
			a := signal.Allocator{Channels: 1, Length: sweepChunk, Capacity: sweepChunk}
			src := Alloc(sk, false, a)
			dst := Alloc(dk, false, a)
			rt := Alloc(sk, false, a)
			sdata := signal.VerifData(src.(*B[S]).b)
			ddata := signal.VerifData(dst.(*B[D]).b)
			rdata := signal.VerifData(rt.(*B[S]).b)
			var local []uint64
			var localChecked uint64
			for {
				mu.Lock()
				c := next
				next++
				mu.Unlock()
				if c >= nChunks {
					break
				}
				start := c * sweepChunk
				for i := uint64(0); i < sweepChunk; i++ {
					sdata[i] = S(code(start + i))
					rdata[i] = 0
				}
				to(src, dst)
				back(dst, rt)
				prev := math.Inf(-1)
				for i := uint64(0); i < sweepChunk; i++ {
					n := start + i
					amp := int64(n) - (1 << 31) // amplitude of the n-th code, signed or unsigned alike
					r := float64(ddata[i])
					bad := false
					if !(r >= -1 && r <= 1) {
						bad = true
					}
					if (n == 0 && r != -1) || (amp == 0 && r != 0) || (n == total-1 && r != 1) {
						bad = true
					}
					known := !signed && amp < 0 // known finding C09: unsigned codes of negative amplitude
					if i > 0 {
						if r < prev {
							bad = true
						}
						if dk == F64 && r == prev && !(known && n == 1) {
							bad = true
						}
					}
					fs := float64(int64(1) << 31)
					if amp > 0 {
						fs--
					}
					d := r*fs - float64(amp)
					tol := 1 + fs*math.Ldexp(1, -(p-1))
					if !(d >= -tol && d <= tol) {
						bad = true
					}
					if dk == F64 && !(known && n != 0) && rdata[i] != sdata[i] {
						bad = true
					}
					if bad && len(local) < 8 {
						if i > 0 {
							local = append(local, code(n-1))
						}
						local = append(local, code(n))
					}
					prev = r
					if i == 0 {
						firstR[c] = r
					}
				}
				lastR[c] = prev
				localChecked += sweepChunk
			}
			mu.Lock()
			checked += localChecked
			suspects = append(suspects, local...)
			mu.Unlock()
		}()
	}
	wg.Wait()
	for c := uint64(1); c < nChunks; c++ {
		if (firstR[c] < lastR[c-1] || (dk == F64 && firstR[c] == lastR[c-1])) && len(suspects) < 64 {
			suspects = append(suspects, code(c*sweepChunk-1), code(c*sweepChunk))
		}
	}
	return
}

func genC09Sweep32(g *Kern) {
	workers := runtime.NumCPU()
	for _, sk := range []Kind{I32, U32} {
		for _, dk := range []Kind{F32, F64} {
			var checked uint64
			var sus []uint64
			switch {
			case sk == I32 && dk == F32:
				checked, sus = sweepC09Kind[int32, float32](sk, dk, workers)
			case sk == I32 && dk == F64:
				checked, sus = sweepC09Kind[int32, float64](sk, dk, workers)
			case sk == U32 && dk == F32:
				checked, sus = sweepC09Kind[uint32, float32](sk, dk, workers)
			default:
				checked, sus = sweepC09Kind[uint32, float64](sk, dk, workers)
			}
			fmt.Fprintf(g.out, "sweep32 %s %s %s checked=%d suspects=%d\n", convName(sk, dk), sk, dk, checked, len(sus))
			g.st.lines++
			g.st.Branches["sweep32-codes-"+sk.String()+">"+dk.String()] = int(checked)
			if len(sus) > 0 {
				seen := map[uint64]bool{}
				var cells []uint64
				for _, x := range sus {
					if !seen[x] {
						seen[x] = true
						cells = append(cells, x)
					}
				}
				if sk.IsSigned() {
					sort.Slice(cells, func(i, j int) bool { return int64(cells[i]) < int64(cells[j]) })
				} else {
					sort.Slice(cells, func(i, j int) bool { return cells[i] < cells[j] })
				}
				g.emitK(sk, dk, cells)
				g.emitRT(sk, dk, cells)
			}
		}
	}
}

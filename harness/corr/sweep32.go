package main

// Exhaustive float32 sweep for C08 (thorough tier): every one of the 4 278 190 082 non-NaN float32 bit
// patterns is converted by the real FloatAsSigned / FloatAsUnsigned into every integer kind, in
// increasing numeric order, and screened natively with exact integer arithmetic (clip, zero, order,
// one step). The screen is only a *search*: suspicious inputs are written to the transcript as ordinary
// kernel lines, and the Lean driver decides with the model and the predicates of Spec.C08 (so a bug in
// this screen can hide a failure but cannot raise an alarm).

import (
	"fmt"
	"math"
	"math/bits"
	"runtime"
	"sync"

	"pipelined.dev/signal"
)

const sweepChunk = 1 << 20

// pattern number n (0 .. 2*(0x7F800000+1)-1) in increasing numeric order: -Inf ... -0, +0 ... +Inf
const sweepHalf = 0x7F800000 + 1

func sweepPattern(n uint64) uint32 {
	if n < sweepHalf {
		return 0xFF800000 - uint32(n) // -Inf down to -0 (0x80000000)
	}
	return uint32(n - sweepHalf)
}

// screen returns true when (x -> amp) looks wrong for depth b
func screenC08(xbits uint32, amp int64, b int) bool {
	var lo, hi int64
	if b == 64 {
		lo, hi = math.MinInt64, math.MaxInt64
	} else {
		lo, hi = -(int64(1) << (b - 1)), int64(1)<<(b-1)-1
	}
	neg := xbits&0x80000000 != 0
	ex := int(xbits>>23) & 0xFF
	fr := uint64(xbits & 0x7FFFFF)
	if ex == 0 && fr == 0 {
		return amp != 0
	}
	// |x| = m * 2^e
	var m uint64
	var e int
	if ex == 0 {
		m, e = fr, -149
	} else {
		m, e = fr|1<<23, ex-150
	}
	if ex == 0xFF || e >= -23 { // |x| >= 1 (m >= 2^23 and e >= -23) or infinite
		if neg {
			return amp != lo
		}
		return amp != hi
	}
	// strictly inside (-1, 1): |amp| must be floor or ceil of m*FS/2^k, with the sign of x
	if amp != 0 && (amp < 0) != neg {
		return true
	}
	var fs uint64
	if neg {
		fs = uint64(1) << (b - 1)
	} else {
		fs = uint64(1)<<(b-1) - 1
	}
	ph, pl := bits.Mul64(m, fs)
	k := uint(-e)
	var q uint64
	var rem bool
	switch {
	case k >= 128:
		q, rem = 0, ph != 0 || pl != 0
	case k >= 64:
		q = ph >> (k - 64)
		rem = pl != 0 || (k > 64 && ph&(uint64(1)<<(k-64)-1) != 0)
	default:
		q = ph<<(64-k) | pl>>k
		rem = pl&(uint64(1)<<k-1) != 0
	}
	var mag uint64
	if amp < 0 {
		mag = uint64(-amp)
	} else {
		mag = uint64(amp)
	}
	if mag == q {
		return false
	}
	return !(rem && mag == q+1)
}

func sweepKind[D signal.SignalTypes](dk Kind, workers int) (checked uint64, suspects []uint32) {
	total := uint64(2 * sweepHalf)
	nChunks := (total + sweepChunk - 1) / sweepChunk
	var mu sync.Mutex
	var wg sync.WaitGroup
	next := uint64(0)
	b := dk.Width()
	signed := dk.IsSigned()
	lastAmp := make([]int64, nChunks)
	firstAmp := make([]int64, nChunks)
	conv := convCall(F32, dk)
	for w := 0; w < workers; w++ {
		wg.Add(1)
		go func() {
			defer wg.Done()
			src := Alloc(F32, false, signal.Allocator{Channels: 1, Length: sweepChunk, Capacity: sweepChunk})
			dst := Alloc(dk, false, signal.Allocator{Channels: 1, Length: sweepChunk, Capacity: sweepChunk})
			sdata := signal.VerifData(src.(*B[float32]).b)
			ddata := signal.VerifData(dst.(*B[D]).b)
			var local []uint32
			var localChecked uint64
			for {
				mu.Lock()
				c := next
				next++
				mu.Unlock()
				if c >= nChunks {
					break
				}
				start := c * sweepChunk
				n := uint64(sweepChunk)
				if start+n > total {
					n = total - start
				}
				for i := uint64(0); i < n; i++ {
					sdata[i] = math.Float32frombits(sweepPattern(start + i))
				}
				conv(src, dst)
				prev := int64(math.MinInt64)
				for i := uint64(0); i < n; i++ {
					var amp int64
					if signed {
						amp = int64(ddata[i])
					} else if b == 64 {
						amp = int64(uint64(ddata[i]) - 1<<63)
					} else {
						amp = int64(uint64(ddata[i])) - int64(1)<<(b-1)
					}
					if i == 0 {
						firstAmp[c] = amp
					}
					x := sweepPattern(start + i)
					if (i > 0 && amp < prev) || screenC08(x, amp, b) {
						if len(local) < 8 {
							local = append(local, x)
							if i > 0 {
								local = append(local, sweepPattern(start+i-1))
							}
						}
					}
					prev = amp
				}
				lastAmp[c] = prev
				localChecked += n
			}
			mu.Lock()
			checked += localChecked
			suspects = append(suspects, local...)
			mu.Unlock()
		}()
	}
	wg.Wait()
	// order across chunk boundaries
	for c := uint64(1); c < nChunks; c++ {
		if firstAmp[c] < lastAmp[c-1] && len(suspects) < 64 {
			suspects = append(suspects, sweepPattern(c*sweepChunk-1), sweepPattern(c*sweepChunk))
		}
	}
	return
}

func genC08Sweep32(g *Kern) {
	workers := runtime.NumCPU()
	for dk := Kind(0); dk < NKinds; dk++ {
		if dk.IsFloat() {
			continue
		}
		var checked uint64
		var sus []uint32
		switch dk {
		case I8:
			checked, sus = sweepKind[int8](dk, workers)
		case I16:
			checked, sus = sweepKind[int16](dk, workers)
		case I32:
			checked, sus = sweepKind[int32](dk, workers)
		case I64:
			checked, sus = sweepKind[int64](dk, workers)
		case INT:
			checked, sus = sweepKind[int](dk, workers)
		case U8:
			checked, sus = sweepKind[uint8](dk, workers)
		case U16:
			checked, sus = sweepKind[uint16](dk, workers)
		case U32:
			checked, sus = sweepKind[uint32](dk, workers)
		case U64:
			checked, sus = sweepKind[uint64](dk, workers)
		case UINT:
			checked, sus = sweepKind[uint](dk, workers)
		case UINTPTR:
			checked, sus = sweepKind[uintptr](dk, workers)
		}
		fmt.Fprintf(g.out, "sweep32 %s f32 %s checked=%d suspects=%d\n", convName(F32, dk), dk, checked, len(sus))
		g.st.lines++
		g.st.Branches["sweep32-patterns-"+dk.String()] = int(checked)
		if len(sus) > 0 {
			// hand the suspicious inputs (and their predecessors) to the model, in numeric order
			cells := make([]uint64, 0, len(sus))
			seen := map[uint32]bool{}
			for _, x := range sus {
				if !seen[x] {
					seen[x] = true
					cells = append(cells, uint64(x))
				}
			}
			sortFloatCells(cells, F32)
			g.emitK(F32, dk, cells)
		}
	}
}

package main

// Concurrent runs for C11 (pool under concurrency) and C19 (shared readers, disjoint-window writers).
// The binary is built with -race; a detected data race makes the process exit with status 66
// (GORACE=exitcode=66), which ./check reports as a violation with the race report as the replay.

import (
	"bufio"
	"fmt"
	"os"
	"runtime"
	"strconv"
	"strings"
	"sync"
	"sync/atomic"
	"time"

	"pipelined.dev/signal"
)

func raceMain(args []string) {
	if len(args) != 5 {
		fmt.Fprintln(os.Stderr, "usage: corr race <property> <tier> <seed> <transcript> <stats>")
		os.Exit(2)
	}
	prop, tier := args[0], args[1]
	seed, _ := strconv.ParseUint(args[2], 10, 64)
	f, err := os.Create(args[3])
	if err != nil {
		fmt.Fprintln(os.Stderr, err)
		os.Exit(2)
	}
	out := bufio.NewWriterSize(f, 1<<20)
	st := NewStats(prop, tier, seed)
	r := &Rng{s: seed*0x9E3779B97F4A7C15 + 0x7654321}
	fmt.Fprintf(out, "transcript %s %s %d\n", prop, tier, seed)
	switch prop {
	case "C11":
		raceC11(out, st, r, tier)
	case "C19":
		raceC19(out, st, r, tier)
	default:
		fmt.Fprintln(os.Stderr, "no race harness for", prop)
		os.Exit(2)
	}
	out.Flush()
	f.Close()
	st.Write(args[4])
}

// ---------------------------------------------------------------- C11

type poolEvent struct {
	get      bool
	g, id    int
	isNew    bool
	ok1, ok2 bool
}

func raceC11(out *bufio.Writer, st *Stats, r *Rng, tier string) {
	// thousands of buffers of one pool idle at once (a bounded free list has an edge there), in this process too
	genBulkPoolFor(&Kern{out, st}, r, tier, "C11")
	type cfg struct{ G, M, procs int }
	cfgs := []cfg{{2, 300, 1}, {8, 150, 4}, {16, 60, 16}}
	if tier == "thorough" {
		cfgs = []cfg{{2, 3000, 1}, {2, 3000, 16}, {8, 1500, 4}, {8, 1500, 16}, {64, 300, 16}, {64, 300, 2}, {16, 1000, 8}}
	}
	kinds := []Kind{I8, F64, U32, I64, F32, U16}
	for ci, c := range cfgs {
		for rep := 0; rep < 2; rep++ {
			k := kinds[(ci*2+rep)%len(kinds)]
			ch := r.Range(1, 3)
			K := r.Range(1, 4)
			L := r.Range(0, K)
			byPointer := rep == 1
			runtime.GOMAXPROCS(c.procs)
			runC11(out, st, r, k, ch, L, K, c.G, c.M, c.procs, byPointer)
		}
		// degenerate allocator: zero capacity (nothing to store, but the buffers handed out at the same
		// time must still be different buffers)
		runtime.GOMAXPROCS(c.procs)
		runC11(out, st, r, kinds[ci%len(kinds)], r.Range(1, 3), 0, 0, c.G, c.M/2+1, c.procs, ci%2 == 0)
		// large buffers (thousands of samples and more): a size-dependent path of the allocator - a pinned or
		// cached big buffer, a different free list above some threshold - is never entered by the small pools above
		if c.procs >= 2 {
			bigs := [][2]int{{1, 4096}, {2, 2048}, {2, 4100}, {1, 5000}, {3, 1366}, {1, 8192}}
			if tier == "thorough" {
				bigs = append(bigs, [2]int{1, 70000}, [2]int{2, 33000})
			}
			big := bigs[(ci+int(r.Next()%2)*3)%len(bigs)]
			M := c.M/8 + 10
			if big[0]*big[1] > 20000 {
				M = 12
			}
			runtime.GOMAXPROCS(c.procs)
			runC11(out, st, r, kinds[(ci+3)%len(kinds)], big[0], r.Range(0, 2), big[1], c.G, M, c.procs, ci%2 == 1)
		}
	}
	runtime.GOMAXPROCS(runtime.NumCPU())
}

func runC11(out *bufio.Writer, st *Stats, r *Rng, k Kind, ch, L, K, G, M, procs int, byPointer bool) {
	st.cases++
	st.shape("G%d/M%d/procs%d/byPtr%v", G, M, procs, byPointer)
	fmt.Fprintf(out, "case %d C11 %s ch%d L%d K%d G%d M%d procs%d byPointer=%v\n", st.cases, k, ch, L, K, G, M, procs, byPointer)
	fmt.Fprintf(out, "rpool %s %d %d %d\n", k, ch, L, K)
	pool := NewPool(k, signal.Allocator{Channels: ch, Length: L, Capacity: K})
	var mu sync.Mutex
	var events []poolEvent
	var crashes []string
	ids := map[uintptr]int{}
	// Headers are NOT kept alive by the harness: pooled buffers must be able to become garbage (the
	// property quantifies over collections that drop and re-create them). If an address is reused by a
	// new allocation the log shows a reuse of an id that was put before - which the pool machine
	// admits, and freshness is checked on every get - so no false alarm can arise from address reuse; a
	// buffer that is currently held is referenced and its address cannot be reused.
	seeds := make([]uint64, G)
	for i := range seeds {
		seeds[i] = r.Next()
	}
	var gcCount int32
	var wg sync.WaitGroup
	for g := 0; g < G; g++ {
		wg.Add(1)
		go func(g int) {
			defer wg.Done()
			lr := &Rng{s: seeds[g]}
			// by value: every goroutine works on its own copy of the PoolAllocator value (they share the
			// *sync.Pool inside); by pointer: all share one. NewPool returns a pointer to a wrapper; a
			// shallow copy of the wrapper copies the PoolAllocator value.
			p := pool
			if !byPointer {
				p = copyPool(pool)
			}
			stamp := small(k, 1+g%100)
			for m := 0; m < M; m++ {
				// by value: now and then take a NEW copy of the shared allocator value (a copy made after
				// other goroutines have put buffers back through the original) and put back through the
				// original: state kept by value inside the allocator would be duplicated by the copy
				putTo := p
				if !byPointer && lr.Intn(2) == 0 {
					p = copyPool(pool)
					if lr.Bool() {
						putTo = pool
					}
				}
				b := p.Get()
				// freshness (C10 clauses) observed before anything else touches the buffer
				shapeOK := b.Channels() == ch && b.Len() == ch*L && b.Cap() == ch*K && b.Length() == L && b.Capacity() == K && b.BitDepth() == k.Width()
				_, cells, _ := b.Raw()
				zeroOK := true
				for _, c := range cells {
					if c != 0 {
						zeroOK = false
					}
				}
				mu.Lock()
				id, known := ids[b.HeaderPtr()]
				if !known {
					id = len(ids)
					ids[b.HeaderPtr()] = id
				}
				events = append(events, poolEvent{true, g, id, !known, shapeOK, zeroOK})
				mu.Unlock()
				// ownership stamps over the whole capacity
				for b.Len() < b.Cap() {
					b.AppendSample(stamp)
				}
				for i := 0; i < b.Len(); i++ {
					b.SetSample(i, stamp)
				}
				if lr.Intn(3) == 0 {
					runtime.Gosched()
				}
				if lr.Intn(200) == 0 {
					atomic.AddInt32(&gcCount, 1)
					runtime.GC()
				}
				stampOK := true
				for i := 0; i < b.Len(); i++ {
					if b.Sample(i) != stamp {
						stampOK = false
					}
				}
				// now and then a put that the allocator must reject (a window that does not start at frame
				// 0 has a smaller capacity): it panics, the caller recovers and goes on holding its buffer;
				// nothing may have entered the pool (the log has no event for it)
				if K >= 2 && shapeOK && lr.Intn(8) == 0 {
					win := b.Slice(1, K)
					if p := try(func() { putTo.Put(win) }); p == "" {
						stampOK = false
					}
					runtime.Gosched()
					for i := 0; i < b.Len(); i++ {
						if b.Sample(i) != stamp {
							stampOK = false
						}
					}
				}
				mu.Lock()
				events = append(events, poolEvent{false, g, id, false, stampOK, true})
				mu.Unlock()
				if p := try(func() { putTo.Put(b) }); p != "" {
					// a buffer obtained from this pool must be accepted back by it
					mu.Lock()
					crashes = append(crashes, "put_of_a_buffer_obtained_from_the_pool_panicked:"+p)
					mu.Unlock()
				}
				if lr.Intn(4) == 0 {
					runtime.Gosched()
				}
			}
		}(g)
	}
	wg.Wait()
	// herd rounds: everybody puts, the pool is emptied by two garbage collections (finalizers, victim
	// caches and other "rescue" paths run), then everybody gets at the same moment and holds its buffer
	// until all have one - so a buffer handed out twice is held twice at the same time.
	rounds := 12
	if M >= 1000 {
		rounds = 120
	}
	for rd := 0; rd < rounds; rd++ {
		held := make([]DynBuf, G)
		var w1, w2 sync.WaitGroup
		start := make(chan struct{})
		w1.Add(G)
		w2.Add(G)
		release := make(chan struct{})
		for g := 0; g < G; g++ {
			go func(g int) {
				<-start
				b := pool.Get()
				shapeOK := b.Channels() == ch && b.Len() == ch*L && b.Cap() == ch*K && b.BitDepth() == k.Width()
				_, cells, _ := b.Raw()
				zeroOK := true
				for _, c := range cells {
					if c != 0 {
						zeroOK = false
					}
				}
				mu.Lock()
				id, known := ids[b.HeaderPtr()]
				if !known {
					id = len(ids)
					ids[b.HeaderPtr()] = id
				}
				events = append(events, poolEvent{true, g, id, !known, shapeOK, zeroOK})
				mu.Unlock()
				held[g] = b
				w1.Done()
				<-release
				mu.Lock()
				events = append(events, poolEvent{false, g, id, false, true, true})
				mu.Unlock()
				if p := try(func() { pool.Put(b) }); p != "" {
					mu.Lock()
					crashes = append(crashes, "put_of_a_buffer_obtained_from_the_pool_panicked:"+p)
					mu.Unlock()
				}
				w2.Done()
			}(g)
		}
		close(start)
		w1.Wait()
		close(release)
		w2.Wait()
		// drop what the harness keeps alive for this round only when it is safe: never (addresses must
		// stay unique), but the pool's own references go away with two collections
		runtime.GC()
		runtime.GC()
		time.Sleep(200 * time.Microsecond)
	}
	nNew, nReuse := 0, 0
	for _, e := range events {
		if e.get {
			mode := "reuse"
			if e.isNew {
				mode = "new"
				nNew++
			} else {
				nReuse++
			}
			fmt.Fprintf(out, "rget %d %d %s %d %d\n", e.g, e.id, mode, b2i(e.ok1), b2i(e.ok2))
		} else {
			fmt.Fprintf(out, "rput %d %d %d\n", e.g, e.id, b2i(e.ok1))
		}
		st.lines++
	}
	if len(crashes) > 0 {
		fmt.Fprintf(out, "gencrash %s (%d times)\n", crashes[0], len(crashes))
		st.lines++
	}
	st.Ops["rget-new"] += nNew
	st.Ops["rget-reuse"] += nReuse
	st.Ops["rput"] += len(events) - nNew - nReuse
	st.Branches["forced-gc"] += int(gcCount)
	st.sample(fmt.Sprintf("C11 %s ch%d L%d K%d G%d M%d procs%d: %d gets (%d new, %d reused)", k, ch, L, K, G, M, procs, nNew+nReuse, nNew, nReuse))
}

func b2i(b bool) int {
	if b {
		return 1
	}
	return 0
}

func copyPoolT[T signal.SignalTypes](p *P[T]) DynPool {
	cp := *p // copies the PoolAllocator value
	return &cp
}

func copyPool(p DynPool) DynPool {
	switch x := p.(type) {
	case *P[int8]:
		return copyPoolT(x)
	case *P[int16]:
		return copyPoolT(x)
	case *P[int32]:
		return copyPoolT(x)
	case *P[int64]:
		return copyPoolT(x)
	case *P[int]:
		return copyPoolT(x)
	case *P[uint8]:
		return copyPoolT(x)
	case *P[uint16]:
		return copyPoolT(x)
	case *P[uint32]:
		return copyPoolT(x)
	case *P[uint64]:
		return copyPoolT(x)
	case *P[uint]:
		return copyPoolT(x)
	case *P[uintptr]:
		return copyPoolT(x)
	case *P[float32]:
		return copyPoolT(x)
	case *P[float64]:
		return copyPoolT(x)
	}
	return p
}

// ---------------------------------------------------------------- C19

type recOp struct {
	kind string // "set" | "write" | "wstriped"
	i    int
	vals []uint64
	cols [][]uint64
	ret  int
}

func raceC19(out *bufio.Writer, st *Stats, r *Rng, tier string) {
	type cfg struct{ R, W, iters, procs int }
	cfgs := []cfg{{4, 0, 200, 4}, {2, 2, 150, 2}, {6, 4, 100, 16}, {0, 8, 100, 8}}
	if tier == "thorough" {
		cfgs = []cfg{{16, 0, 2000, 16}, {8, 8, 1000, 16}, {8, 8, 1000, 1}, {4, 12, 1000, 4}, {0, 16, 1000, 16}, {2, 2, 5000, 2}, {12, 4, 800, 8}}
	}
	kinds := []Kind{I16, F64, U8, F32, I64, U32}
	w := NewWorld(out, st)
	coldStartC19(w, st)
	hugeSharedC19(w, st, r, tier, st.Seed)
	for ci, c := range cfgs {
		k := kinds[ci%len(kinds)]
		dk := kinds[(ci+1)%len(kinds)]
		runtime.GOMAXPROCS(c.procs)
		runC19(w, st, r, k, dk, c.R, c.W, c.iters, c.procs, ci%2 == 1)
	}
	runtime.GOMAXPROCS(runtime.NumCPU())
}

// hugeSharedC19: one shared source of 2^22+5 samples (long enough for any parallel or block-wise conversion path),
// converted by four goroutines at once into private destinations; the results must agree with a conversion done
// alone, and nothing may race. Three of the nine conversion functions per run (rotating with the seed), all nine in
// the thorough tier; typed code, so that the instrumented run stays short.
func hugeShared[S, D signal.SignalTypes](conv func(*signal.Buffer[S], *signal.Buffer[D]) int, mk func(i int) S) int64 {
	const G = 4
	n := 1<<22 + 5
	src := signal.Alloc[S](signal.Allocator{Channels: 1, Length: n, Capacity: n})
	for i := 0; i < n; i++ {
		src.SetSample(i, mk(i))
	}
	// the FIRST conversion of this size happens in all goroutines at once (whatever a long conversion sets up
	// on first use is then set up concurrently); the reference is computed afterwards
	var mism int64
	var wg sync.WaitGroup
	dsts := make([]*signal.Buffer[D], G)
	for gi := 0; gi < G; gi++ {
		wg.Add(1)
		go func(gi int) {
			defer wg.Done()
			defer func() {
				if e := recover(); e != nil {
					atomic.AddInt64(&mism, 1)
				}
			}()
			dst := signal.Alloc[D](signal.Allocator{Channels: 1, Length: n, Capacity: n})
			if conv(src, dst) != n {
				atomic.AddInt64(&mism, 1)
			}
			dsts[gi] = dst
		}(gi)
	}
	wg.Wait()
	ref := signal.Alloc[D](signal.Allocator{Channels: 1, Length: n, Capacity: n})
	conv(src, ref)
	for gi, dst := range dsts {
		if dst == nil {
			continue
		}
		for i := gi; i < n; i += 37 {
			if dst.Sample(i) != ref.Sample(i) {
				mism++
				break
			}
		}
		for i := n - 40; i < n; i++ {
			if dst.Sample(i) != ref.Sample(i) {
				mism++
				break
			}
		}
	}
	return mism
}

func hugeSharedC19(w *World, st *Stats, r *Rng, tier string, seed uint64) {
	runtime.GOMAXPROCS(runtime.NumCPU())
	fl := func(i int) float32 { return float32(i%200-100) / 100 }
	runs := []struct {
		name string
		f    func() int64
	}{
		{"SignedAsSigned", func() int64 {
			return hugeShared(signal.SignedAsSigned[int32, int16], func(i int) int32 { return int32(i%200-100) * 70000 })
		}},
		{"SignedAsFloat", func() int64 {
			return hugeShared(signal.SignedAsFloat[int16, float32], func(i int) int16 { return int16(i%200-100) * 300 })
		}},
		{"FloatAsSigned", func() int64 { return hugeShared(signal.FloatAsSigned[float32, int16], fl) }},
		{"UnsignedAsUnsigned", func() int64 {
			return hugeShared(signal.UnsignedAsUnsigned[uint16, uint8], func(i int) uint16 { return uint16(i * 7) })
		}},
		{"SignedAsUnsigned", func() int64 {
			return hugeShared(signal.SignedAsUnsigned[int16, uint8], func(i int) int16 { return int16(i * 5) })
		}},
		{"UnsignedAsSigned", func() int64 {
			return hugeShared(signal.UnsignedAsSigned[uint8, int16], func(i int) uint8 { return uint8(i) })
		}},
		{"FloatAsFloat", func() int64 { return hugeShared(signal.FloatAsFloat[float32, float64], fl) }},
		{"FloatAsUnsigned", func() int64 { return hugeShared(signal.FloatAsUnsigned[float32, uint8], fl) }},
		{"UnsignedAsFloat", func() int64 {
			return hugeShared(signal.UnsignedAsFloat[uint8, float32], func(i int) uint8 { return uint8(i) })
		}},
	}
	for i, x := range runs {
		if tier != "thorough" && (i+int(seed))%3 != 0 {
			continue
		}
		mism := x.f()
		st.shape("huge-shared/%s", x.name)
		fmt.Fprintf(w.out, "r19 readers=4 writers=0 iters=1 procs=%d huge=%s mismatches=%d\n", runtime.NumCPU(), x.name, mism)
		st.lines++
	}
}

// coldStartC19: the FIRST use of every instantiation of the conversions and readers happens from several
// goroutines at once on one shared source (state that is built lazily on first use - lookup tables,
// caches - would be written concurrently). Results must agree between the goroutines.
func coldStartC19(w *World, st *Stats) {
	const G = 4
	runtime.GOMAXPROCS(runtime.NumCPU())
	for sk := Kind(0); sk < NKinds; sk++ {
		for dk := Kind(0); dk < NKinds; dk++ {
			n := 300
			src := Alloc(sk, false, signal.Allocator{Channels: 2, Length: n, Capacity: n})
			for i := 0; i < src.Len(); i++ {
				if sk.IsFloat() {
					src.SetSample(i, floatCell(float64(i%200-100)/100, sk))
				} else {
					src.SetSample(i, small(sk, i%200-100))
				}
			}
			cv, rd, rs := convCall(sk, dk), readCall(sk, dk), readStripedCall(sk, dk)
			res := make([][]uint64, G)
			var wg sync.WaitGroup
			start := make(chan struct{})
			for g := 0; g < G; g++ {
				wg.Add(1)
				go func(g int) {
					defer wg.Done()
					dst := Alloc(dk, false, signal.Allocator{Channels: 2, Length: n, Capacity: n})
					sl := NewSlice(dk, make([]uint64, 2*n), false)
					cols := []DynSlice{NewSlice(dk, make([]uint64, n), false), NewSlice(dk, make([]uint64, n), false)}
					<-start
					cv(src, dst)
					rd(src, sl)
					rs(src, cols)
					out := make([]uint64, 0, 4*n)
					for i := 0; i < dst.Len(); i++ {
						out = append(out, dst.Sample(i))
					}
					for i := 0; i < sl.Len(); i++ {
						out = append(out, sl.Get(i))
					}
					res[g] = out
				}(g)
			}
			close(start)
			wg.Wait()
			for g := 1; g < G; g++ {
				if !eqU(res[0], res[g]) {
					st.branch("cold-start-mismatch")
					coldMismatch++
				}
			}
			st.cases++
		}
	}
	st.Branches["cold-start-pairs"] = int(NKinds) * int(NKinds)
	w.Case("C19 cold start: first use of every conversion / reader instantiation from 4 goroutines at once")
	fmt.Fprintf(w.out, "r19 readers=%d writers=0 iters=1 procs=%d mismatches=%d\n", G, runtime.NumCPU(), coldMismatch)
	w.st.lines++
}

var coldMismatch int

// carve: the shared buffer's length covers only the read-only frames and every writer slices its own
// window out of the spare capacity inside its goroutine (slicing is one of the concurrent read-only uses)
func runC19(w *World, st *Stats, r *Rng, k, dk Kind, R, W, iters, procs int, carve bool) {
	ch := r.Range(1, 4)
	perWriter := r.Range(1, 3)
	roFrames := 3 // frames [0, roFrames) are never written: readers use them while writers run
	if W == 0 {
		// readers only: a long shared buffer (size-dependent read paths), fewer iterations
		roFrames = []int{256, 300, 1024, 70}[r.Intn(4)]
		iters = iters/20 + 2
	}
	K := roFrames + W*perWriter + r.Range(0, 2)
	if W == 0 || carve {
		K += r.Range(1, 9) // spare capacity the readers slice into
	}
	w.Case(fmt.Sprintf("C19 %s ch%d K%d R%d W%d iters%d procs%d", k, ch, K, R, W, iters, procs))
	st.shape("R%d/W%d/procs%d/carve%v", R, W, procs, carve)
	baseLen := K
	if carve {
		baseLen = roFrames
	}
	base := w.Alloc(k, false, ch, baseLen, K)
	fillAll(w, base, 0)
	b := w.views[base]
	// a conversion destination and caller slices for the readers are private to each reader
	w.Slice(base, 0, roFrames)
	// the readers share a header that nothing has touched since it was created (no method of it has
	// been called yet): lazily initialised state in a read path would be written concurrently
	ro := w.views[base].Slice(0, roFrames)
	// sequential reference results of every read-only entry point on the read-only region
	refSamples := make([]uint64, ro.Len())
	for i := range refSamples {
		refSamples[i] = ro.Sample(i)
	}
	// writers' windows
	wviews := make([]int, W)
	for i := 0; i < W; i++ {
		s := roFrames + i*perWriter
		wviews[i] = w.Slice(base, s, s+perWriter)
	}
	// a second shared buffer that has just been moved by a growing Append and that nothing has sliced yet:
	// whatever Append leaves to be done "on first use" would be done by the readers at once
	grown := Alloc(k, false, signal.Allocator{Channels: ch, Length: 1, Capacity: 1})
	{
		more := Alloc(k, false, signal.Allocator{Channels: ch, Length: 2 + r.Intn(3), Capacity: 5})
		for i := 0; i < more.Len(); i++ {
			more.SetSample(i, patt(k, i))
		}
		grown.Append(more)
	}
	grownLen, grownCap, grown0 := grown.Length(), grown.Capacity(), grown.Sample(0)
	recs := make([][]recOp, W)
	seeds := make([]uint64, R+W)
	for i := range seeds {
		seeds[i] = r.Next()
	}
	var mism int64
	var crashMu sync.Mutex
	crashMsg := ""
	defer func() {
		if crashMsg != "" {
			fmt.Fprintf(w.out, "gencrash goroutine_panicked:%s\n", crashMsg)
		}
	}()
	var wg sync.WaitGroup
	for ri := 0; ri < R; ri++ {
		wg.Add(1)
		go func(ri int) {
			defer wg.Done()
			defer func() {
				// a panic of a read-only entry point on a well-formed shared buffer is a result, not a crash
				if e := recover(); e != nil {
					atomic.AddInt64(&mism, 1)
					crashMu.Lock()
					crashMsg = strings.ReplaceAll(fmt.Sprint(e), " ", "_")
					crashMu.Unlock()
				}
			}()
			lr := &Rng{s: seeds[ri]}
			dst := NewSlice(dk, make([]uint64, ro.Len()), false)
			cols := make([]DynSlice, ch)
			for c := range cols {
				cols[c] = NewSlice(dk, make([]uint64, roFrames), false)
			}
			cdst := Alloc(dk, false, signal.Allocator{Channels: ch, Length: roFrames, Capacity: roFrames})
			rd := readCall(k, dk)
			rs := readStripedCall(k, dk)
			cv := convCall(k, dk)
			var first, firstS, firstC []uint64
			for it := 0; it < iters; it++ {
				bad := false
				// samples, lengths
				for i := 0; i < ro.Len(); i++ {
					if ro.Sample(i) != refSamples[i] {
						bad = true
					}
				}
				if ro.Len() != ch*roFrames || ro.Length() != roFrames || ro.Channels() != ch || b.Capacity() != K || b.Cap() != ch*K || ro.BitDepth() != k.Width() {
					bad = true
				}
				// slicing and channel views of the shared buffer (new headers, no writes)
				s := ro.Slice(lr.Intn(roFrames), roFrames)
				if s.Capacity() > K {
					bad = true
				}
				// the buffer that was grown by Append and never sliced before the goroutines started
				{
					e := 1 + lr.Intn(grownCap)
					g2 := grown.Slice(0, e)
					if g2.Length() != e || grown.Length() != grownLen || grown.Capacity() != grownCap || grown.Sample(0) != grown0 {
						bad = true
					}
				}
				// windows that reach into the spare capacity of the shared buffer (still only headers)
				if spare := ro.Capacity() - roFrames; spare > 0 {
					a := lr.Intn(roFrames)
					e := roFrames + 1 + lr.Intn(spare)
					s2 := ro.Slice(a, e)
					if s2.Length() != e-a || ro.Length() != roFrames {
						bad = true
					}
					s3 := b.Slice(a, e)
					if s3.Length() != e-a {
						bad = true
					}
				}
				for c := 0; c < ch; c++ {
					if ro.ChanSample(c, 0) != refSamples[c] {
						bad = true
					}
				}
				// interleaved / striped reads and use as a conversion source
				if rd(ro, dst) != roFrames {
					bad = true
				}
				if rs(ro, cols) != roFrames {
					bad = true
				}
				if !k.IsFloat() || dk.IsFloat() || true {
					cv(ro, cdst)
				}
				cur := make([]uint64, dst.Len())
				for i := range cur {
					cur[i] = dst.Get(i)
				}
				curS := []uint64{}
				for c := range cols {
					for i := 0; i < cols[c].Len(); i++ {
						curS = append(curS, cols[c].Get(i))
					}
				}
				curC := make([]uint64, cdst.Len())
				for i := range curC {
					curC[i] = cdst.Sample(i)
				}
				if first == nil {
					first, firstS, firstC = cur, curS, curC
				} else if !eqU(first, cur) || !eqU(firstS, curS) || !eqU(firstC, curC) {
					bad = true
				}
				if bad {
					atomic.AddInt64(&mism, 1)
				}
				if lr.Intn(3) == 0 {
					runtime.Gosched()
				}
			}
		}(ri)
	}
	for wi := 0; wi < W; wi++ {
		wg.Add(1)
		go func(wi int) {
			defer wg.Done()
			defer func() {
				if e := recover(); e != nil {
					atomic.AddInt64(&mism, 1)
					crashMu.Lock()
					crashMsg = strings.ReplaceAll(fmt.Sprint(e), " ", "_")
					crashMu.Unlock()
				}
			}()
			lr := &Rng{s: seeds[R+wi]}
			v := w.views[wviews[wi]]
			if carve {
				s := roFrames + wi*perWriter
				v = b.Slice(s, s+perWriter)
			}
			wr := writeCall(k, k)
			ws := writeStripedCall(k, k)
			for it := 0; it < iters; it++ {
				switch lr.Intn(3) {
				case 0:
					i := lr.Intn(v.Len())
					val := small(k, 1+lr.Intn(100))
					v.SetSample(i, val)
					recs[wi] = append(recs[wi], recOp{kind: "set", i: i, vals: []uint64{val}})
				case 1:
					n := lr.Range(0, v.Len()+1)
					vals := make([]uint64, n)
					for j := range vals {
						vals[j] = small(k, 1+lr.Intn(100))
					}
					ret := wr(NewSlice(k, vals, false), v)
					recs[wi] = append(recs[wi], recOp{kind: "write", vals: vals, ret: ret})
				case 2:
					cols := make([][]uint64, ch)
					for c := range cols {
						cols[c] = make([]uint64, lr.Range(0, v.Length()))
						for j := range cols[c] {
							cols[c][j] = small(k, 1+lr.Intn(100))
						}
					}
					ret := ws(mkCols(k, cols), v)
					recs[wi] = append(recs[wi], recOp{kind: "wstriped", cols: cols, ret: ret})
				}
				if lr.Intn(3) == 0 {
					runtime.Gosched()
				}
				// the writer's own range still holds only what this writer wrote (spot check)
			}
		}(wi)
	}
	wg.Wait()
	// the sequential rendition of the same work, writer after writer, for the model; then the state the
	// concurrent run actually ended in.
	nops := 0
	fmt.Fprintln(w.out, "obs off") // the per-operation dumps do not exist for the concurrent part
	for wi := 0; wi < W; wi++ {
		for _, op := range recs[wi] {
			nops++
			switch op.kind {
			case "set":
				w.opline("set %d %d %s -> ok", wviews[wi], op.i, cellString(op.vals[0], k))
			case "write":
				w.opline("write %d %s %d%s -> ret %d %d%s", wviews[wi], k, len(op.vals), valsString(op.vals, k), op.ret, len(op.vals), valsString(op.vals, k))
			case "wstriped":
				w.opline("wstriped %d %s%s -> ret %d%s", wviews[wi], k, colsString(op.cols, k), op.ret, colsString(op.cols, k))
			}
		}
	}
	w.Dump()
	fmt.Fprintf(w.out, "r19 readers=%d writers=%d iters=%d procs=%d mismatches=%d\n", R, W, iters, procs, mism)
	st.lines++
	st.Ops["concurrent-writer-ops"] += nops
	st.Ops["concurrent-reader-iterations"] += R * iters
	st.sample(fmt.Sprintf("C19 %s ch%d K%d: %d readers x %d iterations, %d writers, %d recorded writes, reader mismatches %d", k, ch, K, R, iters, W, nops, mism))
}

func eqU(a, b []uint64) bool {
	if len(a) != len(b) {
		return false
	}
	for i := range a {
		if a[i] != b[i] {
			return false
		}
	}
	return true
}

package main

import (
	"encoding/json"
	"fmt"
	"math"
	"os"
	"sort"
)

// splitmix64: every random choice of a run derives from one state seeded by VERIF_SEED.
type Rng struct{ s uint64 }

func (r *Rng) Next() uint64 {
	r.s += 0x9E3779B97F4A7C15
	z := r.s
	z = (z ^ (z >> 30)) * 0xBF58476D1CE4E5B9
	z = (z ^ (z >> 27)) * 0x94D049BB133111EB
	return z ^ (z >> 31)
}
func (r *Rng) Intn(n int) int {
	if n <= 0 {
		return 0
	}
	return int(r.Next() % uint64(n))
}
func (r *Rng) Range(lo, hi int) int { return lo + r.Intn(hi-lo+1) } // inclusive
func (r *Rng) Bool() bool           { return r.Next()&1 == 1 }
func (r *Rng) Kind() Kind           { return Kind(r.Intn(int(NKinds))) }

// Stats: the distribution of what a run generated; written into the evidence by ./check.
type Stats struct {
	Property string         `json:"property"`
	Tier     string         `json:"tier"`
	Seed     uint64         `json:"seed"`
	Cases    int            `json:"cases"`
	Lines    int            `json:"lines"`
	Ops      map[string]int `json:"ops"`
	Pairs    map[string]int `json:"pairs"`
	Panics   map[string]int `json:"panics"`
	Branches map[string]int `json:"branches"`
	Shapes   map[string]int `json:"shapes"`
	Samples  []string       `json:"samples"`

	cases, lines int
	panics       map[string]int
}

func NewStats(prop, tier string, seed uint64) *Stats {
	s := &Stats{Property: prop, Tier: tier, Seed: seed, Ops: map[string]int{}, Pairs: map[string]int{},
		Branches: map[string]int{}, Shapes: map[string]int{}}
	s.panics = map[string]int{}
	s.Panics = s.panics
	return s
}
func (s *Stats) op(name string)                { s.Ops[name]++ }
func (s *Stats) pair(fn string, a, b Kind)     { s.Pairs[fn+":"+a.String()+">"+b.String()]++ }
func (s *Stats) branch(name string)            { s.Branches[name]++ }
func (s *Stats) shape(format string, a ...any) { s.Shapes[fmt.Sprintf(format, a...)]++ }
func (s *Stats) sample(str string) {
	if len(s.Samples) < 8 {
		s.Samples = append(s.Samples, str)
	}
}

func (s *Stats) Write(path string) {
	s.Cases, s.Lines = s.cases, s.lines
	// keep the pair map small in the evidence: count of distinct + a few entries
	b, _ := json.Marshal(s)
	os.WriteFile(path, b, 0o644)
}

func sortedKeys(m map[string]int) []string {
	ks := make([]string, 0, len(m))
	for k := range m {
		ks = append(ks, k)
	}
	sort.Strings(ks)
	return ks
}

// small returns the cell of kind k holding the small integer n (|n| <= 100).
func small(k Kind, n int) uint64 {
	switch k {
	case F32:
		return uint64(math.Float32bits(float32(n)))
	case F64:
		return math.Float64bits(float64(n))
	}
	return normCell(uint64(int64(n)), k)
}

// pattern values 1..100, cycling, never 0 (0 is what fresh storage holds)
func patt(k Kind, i int) uint64 { return small(k, 1+(i%100)) }

func minInt(a, b int) int {
	if a < b {
		return a
	}
	return b
}
func maxInt(a, b int) int {
	if a > b {
		return a
	}
	return b
}

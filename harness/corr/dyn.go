package main

// Dynamic (kind-indexed) access to the generic signal API.
//
// Every sample is carried as a uint64 "cell": the sign-extended two's complement value for signed
// kinds, the value itself for unsigned kinds and the IEEE bit pattern for floats. The same encoding
// is used by the Lean model (SignalModel/Alloc.lean: cellToFV / fvToCell).

import (
	"math"
	"strconv"
	"unsafe"

	"pipelined.dev/signal"
)

type Kind int

const (
	I8 Kind = iota
	I16
	I32
	I64
	INT
	U8
	U16
	U32
	U64
	UINT
	UINTPTR
	F32
	F64
	NKinds
)

var kindNames = [...]string{"i8", "i16", "i32", "i64", "int", "u8", "u16", "u32", "u64", "uint", "uintptr", "f32", "f64"}

func (k Kind) String() string { return kindNames[k] }
func (k Kind) IsFloat() bool  { return k == F32 || k == F64 }
func (k Kind) IsSigned() bool { return k <= INT }
func (k Kind) IsUnsigned() bool {
	return k >= U8 && k <= UINTPTR
}
func (k Kind) Width() int {
	switch k {
	case I8, U8:
		return 8
	case I16, U16:
		return 16
	case I32, U32, F32:
		return 32
	}
	return 64
}

// named types over every predeclared kind (C13)
type (
	NI8      int8
	NI16     int16
	NI32     int32
	NI64     int64
	NINT     int
	NU8      uint8
	NU16     uint16
	NU32     uint32
	NU64     uint64
	NUINT    uint
	NUINTPTR uintptr
	NF32     float32
	NF64     float64
)

const (
	canonNaN64 = 0x7FF8000000000000
	canonNaN32 = 0x7FC00000
)

func enc[T signal.SignalTypes](v T, k Kind) uint64 {
	switch k {
	case F32:
		u := uint64(*(*uint32)(unsafe.Pointer(&v)))
		if u&0x7F800000 == 0x7F800000 && u&0x7FFFFF != 0 {
			return canonNaN32
		}
		return u
	case F64:
		u := *(*uint64)(unsafe.Pointer(&v))
		if u&0x7FF0000000000000 == 0x7FF0000000000000 && u&0xFFFFFFFFFFFFF != 0 {
			return canonNaN64
		}
		return u
	}
	return uint64(v)
}

func dec[T signal.SignalTypes](u uint64, k Kind) T {
	var v T
	switch k {
	case F32:
		*(*uint32)(unsafe.Pointer(&v)) = uint32(u)
		return v
	case F64:
		*(*uint64)(unsafe.Pointer(&v)) = u
		return v
	}
	return T(u)
}

// cellString prints a cell canonically for kind k.
func cellString(u uint64, k Kind) string {
	if k.IsSigned() {
		return strconv.FormatInt(int64(u), 10)
	}
	return strconv.FormatUint(u, 10)
}

// normalise a cell to the range of kind k (sign-extend / truncate)
func normCell(u uint64, k Kind) uint64 {
	switch k {
	case I8:
		return uint64(int64(int8(u)))
	case I16:
		return uint64(int64(int16(u)))
	case I32:
		return uint64(int64(int32(u)))
	case U8:
		return uint64(uint8(u))
	case U16:
		return uint64(uint16(u))
	case U32, F32:
		return uint64(uint32(u))
	}
	return u
}

// DynBuf is the kind-erased view of *signal.Buffer[T].
type DynBuf interface {
	Kind() Kind
	Named() bool
	Channels() int
	Len() int
	Cap() int
	Length() int
	Capacity() int
	BitDepth() int
	Sample(i int) uint64
	SetSample(i int, v uint64)
	AppendSample(v uint64)
	Slice(s, e int) DynBuf
	Append(src DynBuf)
	Raw() (ptr uintptr, cells []uint64, keep any)
	ChanSample(c, i int) uint64
	ChanSet(c, i int, v uint64)
	ChanIndex(c, i int) int
	ChanShape(c int) (int, int, int)
	KeptChanSample(c, i int) uint64
	KeptChanSet(c, i int, v uint64)
	KeptChanIndex(c, i int) int
	KeptChanShape(c int) (int, int, int)
	Ptr() any
	HeaderPtr() uintptr
	ElemSize() int
	SliceSink(s, e int)
	ZeroLike() DynBuf
}

type B[T signal.SignalTypes] struct {
	b     *signal.Buffer[T]
	k     Kind
	named bool
	chans map[int]signal.C[T] // channel views kept since their first use (see chanView)
}

func (x *B[T]) Kind() Kind                { return x.k }
func (x *B[T]) Named() bool               { return x.named }
func (x *B[T]) Channels() int             { return x.b.Channels() }
func (x *B[T]) Len() int                  { return x.b.Len() }
func (x *B[T]) Cap() int                  { return x.b.Cap() }
func (x *B[T]) Length() int               { return x.b.Length() }
func (x *B[T]) Capacity() int             { return x.b.Capacity() }
func (x *B[T]) BitDepth() int             { return int(x.b.BitDepth()) }
func (x *B[T]) Sample(i int) uint64       { return enc(x.b.Sample(i), x.k) }
func (x *B[T]) SetSample(i int, v uint64) { x.b.SetSample(i, dec[T](v, x.k)) }
func (x *B[T]) AppendSample(v uint64)     { x.b.AppendSample(dec[T](v, x.k)) }
func (x *B[T]) Slice(s, e int) DynBuf     { return &B[T]{b: x.b.Slice(s, e), k: x.k, named: x.named} }
func (x *B[T]) Append(src DynBuf)         { x.b.Append(src.(*B[T]).b) }
func (x *B[T]) Ptr() any                  { return x.b }
func (x *B[T]) HeaderPtr() uintptr        { return uintptr(unsafe.Pointer(x.b)) }
func (x *B[T]) ElemSize() int             { var z T; return int(unsafe.Sizeof(z)) }
func (x *B[T]) Raw() (uintptr, []uint64, any) {
	d := signal.VerifData(x.b)
	cells := make([]uint64, len(d))
	for i, v := range d {
		cells[i] = enc(v, x.k)
	}
	return uintptr(unsafe.Pointer(unsafe.SliceData(d))), cells, d
}
func (x *B[T]) ChanSample(c, i int) uint64 { return enc(x.b.Channel(c).Sample(i), x.k) }
func (x *B[T]) ChanSet(c, i int, v uint64) { x.b.Channel(c).SetSample(i, dec[T](v, x.k)) }
func (x *B[T]) ChanIndex(c, i int) int     { return x.b.Channel(c).BufferIndex(c, i) }
func (x *B[T]) ChanShape(c int) (int, int, int) {
	ch := x.b.Channel(c)
	return ch.Channels(), ch.Length(), ch.Capacity()
}

// chanView returns the channel view of channel c taken at its FIRST use on this header and kept since:
// later operations on the parent (appends) must be visible through a view taken earlier.
func (x *B[T]) chanView(c int) signal.C[T] {
	if v, ok := x.chans[c]; ok {
		return v
	}
	if x.chans == nil {
		x.chans = map[int]signal.C[T]{}
	}
	v := x.b.Channel(c)
	switch chanViewMode {
	case 1:
		// a view written as a literal: C's Buffer field is exported, the zero channel number is channel 0
		if c == 0 {
			v = signal.C[T]{Buffer: x.b}
		}
	case 2:
		// a view of channel c taken from another buffer (other channel count) and pointed at this one
		if c >= 0 {
			other := signal.Alloc[T](signal.Allocator{Channels: c + 3, Length: 1, Capacity: 1})
			v = other.Channel(c)
			v.Buffer = x.b
		}
	}
	x.chans[c] = v
	return v
}

// chanViewMode selects how the harness obtains channel views: 0 Buffer.Channel, 1 composite literal for
// channel 0, 2 a view of another buffer retargeted through the exported Buffer field.
var chanViewMode int

func (x *B[T]) KeptChanSample(c, i int) uint64 { return enc(x.chanView(c).Sample(i), x.k) }
func (x *B[T]) KeptChanSet(c, i int, v uint64) { x.chanView(c).SetSample(i, dec[T](v, x.k)) }

// the channel argument of C.BufferIndex is not the view's channel on purpose (the view addresses its own
// channel whatever it is given): it rotates through other values
func (x *B[T]) KeptChanIndex(c, i int) int {
	args := []int{c, 0, c + 1, x.b.Channels() - 1, -1, c + 2}
	return x.chanView(c).BufferIndex(args[(c+i)%len(args)], i)
}
func (x *B[T]) KeptChanShape(c int) (int, int, int) {
	ch := x.chanView(c)
	return ch.Channels(), ch.Length(), ch.Capacity()
}

// ZeroLike returns the zero value of the buffer type (`&signal.Buffer[T]{}`): no channels, no storage, depth 0
func (x *B[T]) ZeroLike() DynBuf { return &B[T]{b: &signal.Buffer[T]{}, k: x.k} }

// SliceSink calls Slice without the harness wrapper; the result escapes into a package-level sink.
func (x *B[T]) SliceSink(s, e int) { sinkAny = x.b.Slice(s, e) }

var sinkAny any

func wrapBuf[T signal.SignalTypes](b *signal.Buffer[T], k Kind, named bool) DynBuf {
	return &B[T]{b: b, k: k, named: named}
}

func allocT[T signal.SignalTypes](a signal.Allocator, k Kind, named bool) DynBuf {
	return &B[T]{b: signal.Alloc[T](a), k: k, named: named}
}

// Alloc allocates a buffer of the given kind (named: the defined type over that kind).
func Alloc(k Kind, named bool, a signal.Allocator) DynBuf {
	if named {
		switch k {
		case I8:
			return allocT[NI8](a, k, true)
		case I16:
			return allocT[NI16](a, k, true)
		case I32:
			return allocT[NI32](a, k, true)
		case I64:
			return allocT[NI64](a, k, true)
		case INT:
			return allocT[NINT](a, k, true)
		case U8:
			return allocT[NU8](a, k, true)
		case U16:
			return allocT[NU16](a, k, true)
		case U32:
			return allocT[NU32](a, k, true)
		case U64:
			return allocT[NU64](a, k, true)
		case UINT:
			return allocT[NUINT](a, k, true)
		case UINTPTR:
			return allocT[NUINTPTR](a, k, true)
		case F32:
			return allocT[NF32](a, k, true)
		case F64:
			return allocT[NF64](a, k, true)
		}
	}
	switch k {
	case I8:
		return allocT[int8](a, k, false)
	case I16:
		return allocT[int16](a, k, false)
	case I32:
		return allocT[int32](a, k, false)
	case I64:
		return allocT[int64](a, k, false)
	case INT:
		return allocT[int](a, k, false)
	case U8:
		return allocT[uint8](a, k, false)
	case U16:
		return allocT[uint16](a, k, false)
	case U32:
		return allocT[uint32](a, k, false)
	case U64:
		return allocT[uint64](a, k, false)
	case UINT:
		return allocT[uint](a, k, false)
	case UINTPTR:
		return allocT[uintptr](a, k, false)
	case F32:
		return allocT[float32](a, k, false)
	case F64:
		return allocT[float64](a, k, false)
	}
	panic("bad kind")
}

// DynPool is the kind-erased view of signal.PoolAllocator[T].
type DynPool interface {
	Get() DynBuf
	Put(b DynBuf)
	Kind() Kind
	Cycle(v uint64)
}

type P[T signal.SignalTypes] struct {
	p signal.PoolAllocator[T]
	k Kind
}

func (x *P[T]) Get() DynBuf  { return &B[T]{b: x.p.Get(), k: x.k} }
func (x *P[T]) Put(b DynBuf) { x.p.Put(b.(*B[T]).b) }
func (x *P[T]) Kind() Kind   { return x.k }

// Cycle is one get / use / put cycle without the harness wrapper.
func (x *P[T]) Cycle(v uint64) {
	b := x.p.Get()
	b.AppendSample(dec[T](v, x.k))
	x.p.Put(b)
}

func poolT[T signal.SignalTypes](a signal.Allocator, k Kind) DynPool {
	return &P[T]{signal.PoolAlloc[T](a), k}
}

func NewPool(k Kind, a signal.Allocator) DynPool {
	switch k {
	case I8:
		return poolT[int8](a, k)
	case I16:
		return poolT[int16](a, k)
	case I32:
		return poolT[int32](a, k)
	case I64:
		return poolT[int64](a, k)
	case INT:
		return poolT[int](a, k)
	case U8:
		return poolT[uint8](a, k)
	case U16:
		return poolT[uint16](a, k)
	case U32:
		return poolT[uint32](a, k)
	case U64:
		return poolT[uint64](a, k)
	case UINT:
		return poolT[uint](a, k)
	case UINTPTR:
		return poolT[uintptr](a, k)
	case F32:
		return poolT[float32](a, k)
	case F64:
		return poolT[float64](a, k)
	}
	panic("bad kind")
}

// DynSlice is a caller-side []T.
type DynSlice interface {
	Prefix(n int) DynSlice
	Len() int
	Get(i int) uint64
	Any() any
	IsNil() bool
	SpareIntact() bool
}

type SL[T signal.SignalTypes] struct {
	s     []T
	k     Kind
	alias bool // a prefix of another caller slice (same backing array): the "spare" elements are the other's samples
}

// Prefix returns s[:n] of the SAME backing array (two rows of a striped call may alias each other)
func (x *SL[T]) Prefix(n int) DynSlice { return &SL[T]{s: x.s[:n], k: x.k, alias: true} }

// every caller slice has spareCap elements of capacity behind its length, holding a sentinel: the
// library must not touch the caller's backing array beyond the slice it was given
const spareCap = 3

func (x *SL[T]) SpareIntact() bool {
	if x.s == nil || x.alias {
		return true
	}
	full := x.s[:cap(x.s)]
	for _, v := range full[len(x.s):] {
		if enc(v, x.k) != small(x.k, 99) {
			return false
		}
	}
	return cap(x.s) == len(x.s)+spareCap
}

func (x *SL[T]) Len() int         { return len(x.s) }
func (x *SL[T]) Get(i int) uint64 { return enc(x.s[i], x.k) }
func (x *SL[T]) Any() any         { return x }
func (x *SL[T]) IsNil() bool      { return x.s == nil }

func sliceT[T signal.SignalTypes](vals []uint64, isNil bool, k Kind) DynSlice {
	if isNil {
		return &SL[T]{s: nil, k: k}
	}
	back := make([]T, len(vals)+spareCap)
	for i, v := range vals {
		back[i] = dec[T](v, k)
	}
	for i := len(vals); i < len(back); i++ {
		back[i] = dec[T](small(k, 99), k)
	}
	return &SL[T]{s: back[:len(vals)], k: k}
}

func NewSlice(k Kind, vals []uint64, isNil bool) DynSlice {
	switch k {
	case I8:
		return sliceT[int8](vals, isNil, k)
	case I16:
		return sliceT[int16](vals, isNil, k)
	case I32:
		return sliceT[int32](vals, isNil, k)
	case I64:
		return sliceT[int64](vals, isNil, k)
	case INT:
		return sliceT[int](vals, isNil, k)
	case U8:
		return sliceT[uint8](vals, isNil, k)
	case U16:
		return sliceT[uint16](vals, isNil, k)
	case U32:
		return sliceT[uint32](vals, isNil, k)
	case U64:
		return sliceT[uint64](vals, isNil, k)
	case UINT:
		return sliceT[uint](vals, isNil, k)
	case UINTPTR:
		return sliceT[uintptr](vals, isNil, k)
	case F32:
		return sliceT[float32](vals, isNil, k)
	case F64:
		return sliceT[float64](vals, isNil, k)
	}
	panic("bad kind")
}

// striped helper: [][]T from DynSlices of one kind
// the slice of rows handed to the striped reader / writer has two more rows of capacity behind its length (a caller's
// `rows[:n]`): the number of rows is len, not cap, and the rows behind it are not the library's to touch
func stripedT[T signal.SignalTypes](cols []DynSlice) [][]T {
	out := make([][]T, len(cols), len(cols)+2)
	for i, c := range cols {
		out[i] = c.(*SL[T]).s
	}
	full := out[:cap(out)]
	for i := len(cols); i < len(full); i++ {
		full[i] = make([]T, 6)
	}
	return out
}

func f64bits(f float64) uint64 { return math.Float64bits(f) }
func f32bits(f float32) uint64 { return uint64(math.Float32bits(f)) }

package main

import (
	"bufio"
)

func runCorpus(prop string, out *bufio.Writer, st *Stats)  {}
func raceMain(args []string)                             {}
func allocsMain(args []string)                           {}
func replayExtra(w *World, g *Kern, t []string, line string) {}

package main

import (
	"bufio"
)

func runCorpus(prop string, out *bufio.Writer, st *Stats)    {}
func replayExtra(w *World, g *Kern, t []string, line string) {}

module verifharness

go 1.21

require (
	golang.org/x/exp v0.0.0-20230817173708-d852ddb80c63
	pipelined.dev/signal v0.0.0
)

replace pipelined.dev/signal => /repo

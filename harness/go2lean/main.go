// go2lean translates the pure numeric core of pipelined.dev/signal from Go source to Lean 4 definitions
// (namespace Sig.Gen), so that the theorems of lean/SignalGen/Eq/*.lean - "the definition regenerated from the
// source equals the hand-written model" - are re-checked against what the code says now, on every run.
//
//	go2lean <repo dir> <lean/SignalGen dir> <report .json>
//
// What it translates (everything else is reported as untranslatable, never guessed):
//
//   - scalar functions and methods: parameters and results of integer / float / bool type, bodies made of
//     if / switch / := / = / var / return over + - * / % << >> comparisons, conversions, calls of other
//     translated functions, math.Round, math.Ceil;
//   - the nine conversion functions func XAsY(src *Buffer[S], dst *Buffer[D]) int: the skeleton
//     (mustSame first, length := min(Len, Len), early return 0, canonical loops over [0,length) that read
//     src.Sample(i) and store dst.SetSample(i, ...), return min(Length, Length)) is recognised and checked, and the
//     per-sample computation - with the loop-invariant prologue around it - is emitted as a kernel
//     `XAsY_k S D sb db x`.
//
// Go semantics used (the same three layers as the hand-written model): integer arithmetic at type T is followed by
// T.wrap; shifts are multiplications / floor divisions by 2^count; integer division is Int.tdiv; float arithmetic
// is the model's FV operations at the static float type; float->int conversion is `toIntTy` (partial: `none` =
// implementation-defined), which makes the enclosing definition Option-valued.
package main

import (
	"crypto/sha256"
	"encoding/json"
	"fmt"
	"go/ast"
	"go/constant"
	"go/importer"
	"go/parser"
	"go/token"
	"go/types"
	"os"
	"path/filepath"
	"sort"
	"strings"
)

// ---------------------------------------------------------------------------------------------- types

type class int

const (
	cInt   class = iota // integer: value is a Lean Int, type is a Lean IntTy term
	cFloat              // float: value is a Lean FV, type is a Lean Fmt term
	cBool
	cMixed // type parameter ranging over integers and floats (SignalTypes): not translated in expressions
	cOther
)

type ty struct {
	c    class
	lean string // Lean term of type IntTy / Fmt
	key  string // identity for "same type" tests
}

type unsupported struct{ msg string }

func fail(format string, a ...any) { panic(unsupported{fmt.Sprintf(format, a...)}) }

type tr struct {
	fset *token.FileSet
	info *types.Info
	pkg  *types.Package
	// translated function names (Go object -> Lean name) and failures
	done     map[types.Object]string
	failed   map[types.Object]string
	decls    map[types.Object]*ast.FuncDecl
	order    []string          // emitted definitions, in dependency order
	text     map[string]string // lean name -> text
	optRes   map[string]bool   // lean name -> result is Option
	nparams  map[string]int
	shape    map[string]string // buffer methods: pure | option | res
	readonly map[string]bool   // buffer methods: never changes heap or header
}

func basicTy(b *types.Basic) ty {
	switch b.Kind() {
	case types.Int8:
		return ty{cInt, "tI8", "i8"}
	case types.Int16:
		return ty{cInt, "tI16", "i16"}
	case types.Int32:
		return ty{cInt, "tI32", "i32"}
	case types.Int64, types.Int:
		return ty{cInt, "tI64", "i64:" + b.Name()}
	case types.Uint8:
		return ty{cInt, "tU8", "u8"}
	case types.Uint16:
		return ty{cInt, "tU16", "u16"}
	case types.Uint32:
		return ty{cInt, "tU32", "u32"}
	case types.Uint64, types.Uint, types.Uintptr:
		return ty{cInt, "tU64", "u64:" + b.Name()}
	case types.Float32:
		return ty{cFloat, "f32", "f32"}
	case types.Float64:
		return ty{cFloat, "f64", "f64"}
	case types.Bool, types.UntypedBool:
		return ty{cBool, "", "bool"}
	case types.UntypedInt, types.UntypedRune:
		return ty{cInt, "", "untyped-int"}
	case types.UntypedFloat:
		return ty{cFloat, "", "untyped-float"}
	}
	return ty{cOther, "", b.Name()}
}

// typeSetClass computes which basic kinds a constraint admits.
func typeSetClass(t types.Type, seen map[types.Type]bool) (ints, uints, floats, other bool) {
	if seen[t] {
		return
	}
	seen[t] = true
	switch u := t.(type) {
	case *types.Named:
		return typeSetClass(u.Underlying(), seen)
	case *types.Interface:
		for i := 0; i < u.NumEmbeddeds(); i++ {
			a, b, c, d := typeSetClass(u.EmbeddedType(i), seen)
			ints, uints, floats, other = ints || a, uints || b, floats || c, other || d
		}
		if u.NumEmbeddeds() == 0 {
			other = true
		}
		return
	case *types.Union:
		for i := 0; i < u.Len(); i++ {
			a, b, c, d := typeSetClass(u.Term(i).Type(), seen)
			ints, uints, floats, other = ints || a, uints || b, floats || c, other || d
		}
		return
	case *types.Basic:
		switch {
		case u.Info()&types.IsUnsigned != 0:
			uints = true
		case u.Info()&types.IsInteger != 0:
			ints = true
		case u.Info()&types.IsFloat != 0:
			floats = true
		default:
			other = true
		}
		return
	}
	other = true
	return
}

func (t *tr) tyOf(x types.Type) ty {
	switch u := x.(type) {
	case *types.TypeParam:
		i, un, f, o := typeSetClass(u.Constraint(), map[types.Type]bool{})
		name := "T" + u.Obj().Name()
		switch {
		case o:
			return ty{cOther, "", name}
		case (i || un) && !f:
			return ty{cInt, name, "param:" + name}
		case f && !i && !un:
			return ty{cFloat, name, "param:" + name}
		default:
			return ty{cMixed, name, "param:" + name}
		}
	case *types.Named:
		return t.tyOf(u.Underlying())
	case *types.Basic:
		return basicTy(u)
	}
	return ty{cOther, "", x.String()}
}

// ---------------------------------------------------------------------------------------------- environments

type env struct {
	vars map[types.Object]string // Go variable -> Lean expression (a local name)
	n    *int
	hv   string // buffer methods: current heap variable
	bv   string // buffer methods: current header variable of the receiver's buffer
	lv   string // transfer functions: current value of the caller's slice that is written
}

func (e env) clone() env {
	m := map[types.Object]string{}
	for k, v := range e.vars {
		m[k] = v
	}
	return env{m, e.n, e.hv, e.bv, e.lv}
}

func (e env) fresh(base string) string {
	*e.n++
	return fmt.Sprintf("v_%s%d", base, *e.n)
}

// a conversion function being translated: the src/dst parameter objects
type convCtx struct {
	src, dst types.Object
	loopVar  types.Object // non-nil inside the loop body
	length   types.Object // the `length` local
	stored   *string      // value stored by dst.SetSample(i, ·) on this path
	facts    map[string]bool
}

// emitter for one definition body
type body struct {
	t      *tr
	cc     *convCtx
	bm     *bufCtx // non-nil: a method of Buffer[T] / C[T] is being translated
	option bool    // some float->int conversion occurred: result is Option
	inLoop bool
}

// ---------------------------------------------------------------------------------------------- expressions

type binds []string // "(<opt expr>).bind fun <name> =>" prefixes, in evaluation order

func (b *body) expr(e ast.Expr, en env, bs *binds) (string, ty) {
	t := b.t
	tv, ok := t.info.Types[e]
	if !ok {
		if id, isId := e.(*ast.Ident); isId {
			if obj := t.info.Uses[id]; obj != nil {
				tv = types.TypeAndValue{Type: obj.Type()}
				ok = true
			}
		}
	}
	if !ok {
		fail("no type for expression at %s", t.fset.Position(e.Pos()))
	}
	et := t.tyOf(tv.Type)
	if tv.Value != nil {
		switch tv.Value.Kind() {
		case constant.Int:
			s := tv.Value.ExactString()
			if et.c == cFloat {
				return "(FV.fin (" + s + "))", et
			}
			if strings.HasPrefix(s, "-") {
				return "(" + s + ")", et
			}
			return s, et
		case constant.Float:
			if v, exact := constant.Int64Val(constant.ToInt(tv.Value)); exact && et.c == cFloat {
				return fmt.Sprintf("(FV.fin (%d))", v), et
			}
			fail("non-integral float constant %s", tv.Value.ExactString())
		case constant.Bool:
			if constant.BoolVal(tv.Value) {
				return "True", et
			}
			return "False", et
		}
		fail("constant of kind %v", tv.Value.Kind())
	}
	if b.bm != nil {
		if s, st, ok := b.bufExpr(e, en, bs); ok {
			return s, st
		}
	}
	switch x := e.(type) {
	case *ast.ParenExpr:
		return b.expr(x.X, en, bs)
	case *ast.Ident:
		obj := t.info.Uses[x]
		if s, ok := en.vars[obj]; ok {
			return s, et
		}
		fail("identifier %s is not a translated local", x.Name)
	case *ast.UnaryExpr:
		a, at := b.expr(x.X, en, bs)
		switch x.Op {
		case token.SUB:
			if at.c == cInt {
				return fmt.Sprintf("(%s.wrap (-%s))", at.lean, a), at
			}
			if at.c == cFloat {
				return fmt.Sprintf("(FV.neg %s)", a), at
			}
		case token.ADD:
			return a, at
		case token.XOR:
			// bitwise complement: ^x = -x-1 in two's complement, at any width and signedness
			if at.c == cInt && at.lean != "" {
				return fmt.Sprintf("(%s.wrap (-%s - 1))", at.lean, a), at
			}
		case token.NOT:
			return fmt.Sprintf("(¬ %s)", a), at
		}
		fail("unary operator %s", x.Op)
	case *ast.BinaryExpr:
		return b.binary(x, et, en, bs)
	case *ast.CallExpr:
		return b.call(x, et, en, bs)
	}
	fail("expression form %T at %s", e, t.fset.Position(e.Pos()))
	return "", et
}

func (b *body) binary(x *ast.BinaryExpr, et ty, en env, bs *binds) (string, ty) {
	l, lt := b.expr(x.X, en, bs)
	if x.Op == token.LAND || x.Op == token.LOR {
		var rb binds
		r, _ := b.expr(x.Y, en, &rb)
		if len(rb) != 0 {
			fail("partial conversion under a short-circuit operator")
		}
		if x.Op == token.LAND {
			return fmt.Sprintf("(%s ∧ %s)", l, r), et
		}
		return fmt.Sprintf("(%s ∨ %s)", l, r), et
	}
	r, rt := b.expr(x.Y, en, bs)
	if b.bm != nil && b.bm.typed && (x.Op == token.QUO || x.Op == token.REM) && (lt.c == cInt || rt.c == cInt) {
		if tv := b.t.info.Types[x.Y]; tv.Value == nil {
			// integer division by a non-constant: Go panics on a zero divisor
			n := en.fresh("d")
			*bs = append(*bs, fmt.Sprintf("(Res.ofOption %s Panic.divZero (nonZero %s)).bind fun _ %s =>", en.hv, r, n))
			r = n
		}
	}
	return b.arith(x.Op, l, lt, r, rt, et)
}

// arith applies a binary operator to two translated operands
func (b *body) arith(op token.Token, l string, lt ty, r string, rt ty, et ty) (string, ty) {
	switch op {
	case token.SHL:
		if lt.c != cInt || rt.c != cInt {
			fail("shift of non-integers")
		}
		return fmt.Sprintf("(shl %s %s %s)", lt.lean, l, r), lt
	case token.SHR:
		if lt.c != cInt || rt.c != cInt {
			fail("shift of non-integers")
		}
		return fmt.Sprintf("(shr %s %s)", l, r), lt
	}
	opT := lt
	if opT.lean == "" {
		opT = rt
	}
	switch op {
	case token.EQL, token.NEQ, token.LSS, token.GTR, token.LEQ, token.GEQ:
		if opT.c == cInt {
			o := map[token.Token]string{token.EQL: "=", token.NEQ: "≠", token.LSS: "<", token.GTR: ">", token.LEQ: "≤", token.GEQ: "≥"}[op]
			return fmt.Sprintf("(%s %s %s)", l, o, r), ty{cBool, "", "bool"}
		}
		if opT.c == cFloat {
			switch op {
			case token.LSS:
				return fmt.Sprintf("(FV.lt %s %s = true)", l, r), ty{cBool, "", "bool"}
			case token.GTR:
				return fmt.Sprintf("(FV.lt %s %s = true)", r, l), ty{cBool, "", "bool"}
			case token.LEQ:
				return fmt.Sprintf("(FV.le %s %s = true)", l, r), ty{cBool, "", "bool"}
			case token.GEQ:
				return fmt.Sprintf("(FV.le %s %s = true)", r, l), ty{cBool, "", "bool"}
			}
			fail("float equality comparison")
		}
		fail("comparison of %v", opT.key)
	case token.ADD, token.SUB, token.MUL:
		if opT.c == cInt {
			if opT.lean == "" {
				fail("untyped non-constant arithmetic")
			}
			return fmt.Sprintf("(%s.wrap (%s %s %s))", opT.lean, l, op, r), opT
		}
		if opT.c == cFloat {
			f := map[token.Token]string{token.ADD: "FV.add", token.SUB: "FV.sub", token.MUL: "FV.mul"}[op]
			return fmt.Sprintf("(%s %s %s %s)", f, opT.lean, l, r), opT
		}
	case token.QUO:
		if opT.c == cInt {
			return fmt.Sprintf("(%s.wrap (goDiv %s %s))", opT.lean, l, r), opT
		}
		if opT.c == cFloat {
			return fmt.Sprintf("(FV.div %s %s %s)", opT.lean, l, r), opT
		}
	case token.REM:
		if opT.c == cInt {
			return fmt.Sprintf("(goMod %s %s)", l, r), opT
		}
	}
	fail("binary operator %s on %s", op, opT.key)
	return "", et
}

// conversion T(e)
func (b *body) convert(to ty, a string, from ty, bs *binds, en env) (string, ty) {
	switch {
	case from.c == cInt && to.c == cInt:
		if from.key == to.key {
			return a, to
		}
		return fmt.Sprintf("(%s.wrap %s)", to.lean, a), to
	case from.c == cInt && to.c == cFloat:
		return fmt.Sprintf("(FV.ofInt %s %s)", to.lean, a), to
	case from.c == cFloat && to.c == cFloat:
		if from.key == to.key {
			return a, to
		}
		return fmt.Sprintf("(FV.conv %s %s)", to.lean, a), to
	case from.c == cFloat && to.c == cInt:
		n := en.fresh("t")
		if b.bm != nil && b.bm.res {
			*bs = append(*bs, fmt.Sprintf("(Res.ofUnspec (toIntTy %s %s)).bind fun _ %s =>", to.lean, a, n))
		} else {
			*bs = append(*bs, fmt.Sprintf("(toIntTy %s %s).bind fun %s =>", to.lean, a, n))
		}
		b.option = true
		return n, to
	}
	if from.c == cMixed && to.c == cMixed && from.lean != "" && to.lean != "" && b.bm != nil && b.bm.res {
		// D(x) between two element-type parameters: the model's value conversion between cells
		n := en.fresh("t")
		*bs = append(*bs, fmt.Sprintf("(Res.ofUnspec (cvt %s %s %s)).bind fun _ %s =>", from.lean, to.lean, a, n))
		return n, to
	}
	fail("conversion from %s to %s", from.key, to.key)
	return "", to
}

func (b *body) call(x *ast.CallExpr, et ty, en env, bs *binds) (string, ty) {
	t := b.t
	// conversion?
	if ftv, ok := t.info.Types[x.Fun]; ok && ftv.IsType() {
		a, at := b.expr(x.Args[0], en, bs)
		return b.convert(t.tyOf(ftv.Type), a, at, bs, en)
	}
	// method call or qualified function
	switch f := x.Fun.(type) {
	case *ast.SelectorExpr:
		// package-qualified: math.Round, math.Ceil
		if id, ok := f.X.(*ast.Ident); ok {
			if pn, ok := t.info.Uses[id].(*types.PkgName); ok {
				full := pn.Imported().Path() + "." + f.Sel.Name
				if full == "unsafe.Sizeof" {
					// the size in bytes of a value of the (type-parameter) element type
					at := t.tyOf(t.info.Types[x.Args[0]].Type)
					if at.c == cMixed && at.lean != "" {
						return fmt.Sprintf("((%s.width / 8 : Nat) : Int)", at.lean), ty{cInt, "tU64", "u64:uintptr"}
					}
					fail("unsafe.Sizeof of %s", at.key)
				}
				a, at := b.expr(x.Args[0], en, bs)
				switch full {
				case "math.Round":
					return fmt.Sprintf("(FV.roundHalfAway %s)", a), at
				case "math.Ceil":
					return fmt.Sprintf("(FV.ceil %s)", a), at
				}
				fail("call of %s", full)
			}
		}
		// conversion-function context: accessors of src / dst
		if b.cc != nil {
			if id, ok := f.X.(*ast.Ident); ok {
				obj := t.info.Uses[id]
				if obj == b.cc.src || obj == b.cc.dst {
					who := "s"
					if obj == b.cc.dst {
						who = "d"
					}
					switch f.Sel.Name {
					case "BitDepth":
						return fmt.Sprintf("(%sb : Int)", who), t.tyOf(t.info.Types[x].Type)
					case "Sample":
						if obj == b.cc.src && b.inLoop && len(x.Args) == 1 {
							if aid, ok := x.Args[0].(*ast.Ident); ok && t.info.Uses[aid] == b.cc.loopVar {
								b.cc.facts["reads src.Sample(i) at the loop index only"] = true
								return "x", t.tyOf(t.info.Types[x].Type)
							}
						}
						fail("src.Sample at an index other than the loop variable")
					}
					fail("accessor %s.%s inside a kernel", id.Name, f.Sel.Name)
				}
			}
		}
		// method of a scalar receiver (BitDepth, Frequency ...)
		if sel, ok := t.info.Selections[f]; ok && sel.Kind() == types.MethodVal {
			callee := sel.Obj()
			name := t.need(callee)
			recv, _ := b.expr(f.X, en, bs)
			args := []string{recv}
			for _, a := range x.Args {
				s, _ := b.expr(a, en, bs)
				args = append(args, s)
			}
			return b.callResult(name, args, et, bs, en)
		}
	case *ast.Ident, *ast.IndexExpr, *ast.IndexListExpr:
		var id *ast.Ident
		switch g := f.(type) {
		case *ast.Ident:
			id = g
		case *ast.IndexExpr:
			id, _ = g.X.(*ast.Ident)
		case *ast.IndexListExpr:
			id, _ = g.X.(*ast.Ident)
		}
		if id == nil {
			fail("call of a non-identifier")
		}
		callee := t.info.Uses[id]
		if _, isBuiltin := callee.(*types.Builtin); isBuiltin {
			fail("builtin %s", id.Name)
		}
		name := t.need(callee)
		var args []string
		if inst, ok := t.info.Instances[id]; ok {
			for i := 0; i < inst.TypeArgs.Len(); i++ {
				at := t.tyOf(inst.TypeArgs.At(i))
				if at.lean == "" {
					fail("type argument %s", at.key)
				}
				if at.c == cMixed && !strings.HasPrefix(at.key, "param:") {
					fail("type argument %s", at.key)
				}
				args = append(args, at.lean)
			}
		}
		for _, a := range x.Args {
			s, _ := b.expr(a, en, bs)
			args = append(args, s)
		}
		return b.callResult(name, args, et, bs, en)
	}
	fail("call form at %s", t.fset.Position(x.Pos()))
	return "", et
}

func (b *body) callResult(name string, args []string, et ty, bs *binds, en env) (string, ty) {
	call := "(" + name + " " + strings.Join(args, " ") + ")"
	if b.t.optRes[name] {
		n := en.fresh("r")
		if b.bm != nil && b.bm.res {
			*bs = append(*bs, fmt.Sprintf("(Res.ofUnspec %s).bind fun _ %s =>", call, n))
		} else {
			*bs = append(*bs, fmt.Sprintf("%s.bind fun %s =>", call, n))
		}
		b.option = true
		return n, et
	}
	return call, et
}

// ---------------------------------------------------------------------------------------------- statements

// stmts translates a statement list followed by the continuation lists `rest` into a Lean term.
// ret wraps a returned / stored value.
func (b *body) stmts(list []ast.Stmt, rest [][]ast.Stmt, en env, ind string) string {
	t := b.t
	if len(list) == 0 {
		if len(rest) > 0 {
			return b.stmts(rest[0], rest[1:], en, ind)
		}
		if b.inLoop {
			if b.cc.stored == nil {
				fail("a path through the loop body stores nothing")
			}
			return ind + "RET(" + *b.cc.stored + ")"
		}
		if b.bm != nil && b.bm.inFor > 0 {
			return ind + fmt.Sprintf("Res.ok %s (%s, %s)", en.hv, en.bv, en.lv)
		}
		if b.bm != nil && b.bm.res && b.bm.void {
			return ind + fmt.Sprintf("Res.ok %s (%s, ())", en.hv, en.bv)
		}
		fail("control reaches the end of the function without a return")
	}
	s, tail := list[0], list[1:]
	if b.bm != nil && b.bm.res {
		if out, ok := b.bufStmt(s, tail, rest, en, ind); ok {
			return out
		}
	}
	pre := func(bs binds) string {
		out := ""
		for _, x := range bs {
			out += ind + x + "\n"
		}
		return out
	}
	switch x := s.(type) {
	case *ast.BlockStmt:
		return b.stmts(append(append([]ast.Stmt{}, x.List...), tail...), rest, en, ind)
	case *ast.ReturnStmt:
		if b.inLoop {
			fail("return inside the sample loop")
		}
		if b.cc != nil {
			fail("unexpected return") // handled by the conversion walker
		}
		if len(x.Results) != 1 {
			fail("return of %d values", len(x.Results))
		}
		var bs binds
		v, _ := b.expr(x.Results[0], en, &bs)
		return pre(bs) + ind + "RET(" + v + ")"
	case *ast.DeclStmt:
		gd := x.Decl.(*ast.GenDecl)
		out := ""
		for _, sp := range gd.Specs {
			vs, ok := sp.(*ast.ValueSpec)
			if !ok {
				fail("declaration form")
			}
			for i, name := range vs.Names {
				obj := t.info.Defs[name]
				n := en.fresh(name.Name)
				if i < len(vs.Values) {
					var bs binds
					v, _ := b.expr(vs.Values[i], en, &bs)
					out += pre(bs) + fmt.Sprintf("%slet %s := %s\n", ind, n, v)
				} else {
					vt := t.tyOf(obj.Type())
					switch vt.c {
					case cInt:
						out += fmt.Sprintf("%slet %s : Int := 0\n", ind, n)
					case cFloat:
						out += fmt.Sprintf("%slet %s : FV := FV.fin 0\n", ind, n)
					case cMixed:
						out += fmt.Sprintf("%slet %s : Int := 0\n", ind, n)
					default:
						fail("zero value of %s", vt.key)
					}
				}
				en.vars[obj] = n
			}
		}
		return out + b.stmts(tail, rest, en, ind)
	case *ast.AssignStmt:
		if len(x.Lhs) != len(x.Rhs) {
			fail("assignment of a multi-valued expression")
		}
		compound := map[token.Token]token.Token{token.ADD_ASSIGN: token.ADD, token.SUB_ASSIGN: token.SUB,
			token.MUL_ASSIGN: token.MUL, token.QUO_ASSIGN: token.QUO, token.REM_ASSIGN: token.REM,
			token.SHL_ASSIGN: token.SHL, token.SHR_ASSIGN: token.SHR}
		var bs binds
		var vals []string
		var objs []types.Object
		var names []string
		for i := range x.Lhs {
			id, ok := x.Lhs[i].(*ast.Ident)
			if !ok {
				fail("assignment to a non-variable")
			}
			obj := t.info.Defs[id]
			if obj == nil {
				obj = t.info.Uses[id]
			}
			if b.bm != nil && b.bm.inFor > 0 && b.bm.outer[obj] {
				fail("the loop body assigns %s, declared outside the loop", id.Name)
			}
			var v string
			switch {
			case x.Tok == token.DEFINE || x.Tok == token.ASSIGN:
				v, _ = b.expr(x.Rhs[i], en, &bs)
			case compound[x.Tok] != 0:
				cur, ok := en.vars[obj]
				if !ok {
					fail("compound assignment to an untranslated variable")
				}
				r, rt := b.expr(x.Rhs[i], en, &bs)
				vt := t.tyOf(obj.Type())
				v, _ = b.arith(compound[x.Tok], cur, vt, r, rt, vt)
			default:
				fail("assignment operator %s", x.Tok)
			}
			if id.Name == "_" {
				continue
			}
			vals = append(vals, v)
			objs = append(objs, obj)
			names = append(names, id.Name)
		}
		out := pre(bs)
		for i := range vals {
			n := en.fresh(names[i])
			out += fmt.Sprintf("%slet %s := %s\n", ind, n, vals[i])
			defer func(o types.Object, n string) {}(objs[i], n)
			names[i] = n
		}
		for i := range vals {
			en.vars[objs[i]] = names[i]
		}
		return out + b.stmts(tail, rest, en, ind)
	case *ast.IncDecStmt:
		id, ok := x.X.(*ast.Ident)
		if !ok {
			fail("++/-- on a non-variable")
		}
		obj := t.info.Uses[id]
		if b.bm != nil && b.bm.inFor > 0 && b.bm.outer[obj] {
			fail("the loop body assigns %s, declared outside the loop", id.Name)
		}
		cur, ok := en.vars[obj]
		if !ok {
			fail("++/-- on an untranslated variable")
		}
		vt := t.tyOf(obj.Type())
		op := token.ADD
		if x.Tok == token.DEC {
			op = token.SUB
		}
		v, _ := b.arith(op, cur, vt, "1", vt, vt)
		n := en.fresh(id.Name)
		en.vars[obj] = n
		return fmt.Sprintf("%slet %s := %s\n", ind, n, v) + b.stmts(tail, rest, en, ind)
	case *ast.IfStmt:
		en2 := en
		out := ""
		if x.Init != nil {
			// translate the init statement in place, then the if
			inner := &ast.IfStmt{If: x.If, Cond: x.Cond, Body: x.Body, Else: x.Else}
			return b.stmts(append([]ast.Stmt{x.Init, inner}, tail...), rest, en, ind)
		}
		var bs binds
		c, _ := b.expr(x.Cond, en2, &bs)
		if len(bs) != 0 {
			fail("partial conversion in a condition")
		}
		var elseList []ast.Stmt
		switch e := x.Else.(type) {
		case nil:
		case *ast.BlockStmt:
			elseList = e.List
		case *ast.IfStmt:
			elseList = []ast.Stmt{e}
		}
		cont := append([][]ast.Stmt{tail}, rest...)
		thenEnv, elseEnv := en.clone(), en.clone()
		var thenStored, elseStored *string
		if b.cc != nil {
			thenStored, elseStored = b.cc.stored, b.cc.stored
		}
		save := func() *string {
			if b.cc != nil {
				return b.cc.stored
			}
			return nil
		}
		_ = thenStored
		_ = elseStored
		st0 := save()
		th := b.stmts(x.Body.List, cont, thenEnv, ind+"  ")
		if b.cc != nil {
			b.cc.stored = st0
		}
		el := b.stmts(elseList, cont, elseEnv, ind+"  ")
		if b.cc != nil {
			b.cc.stored = st0
		}
		out += fmt.Sprintf("%sif %s then\n%s\n%selse\n%s", ind, c, th, ind, el)
		return out
	case *ast.SwitchStmt:
		if x.Init != nil {
			inner := &ast.SwitchStmt{Switch: x.Switch, Tag: x.Tag, Body: x.Body}
			return b.stmts(append([]ast.Stmt{x.Init, inner}, tail...), rest, en, ind)
		}
		// rewrite into an if chain
		var chain ast.Stmt
		var def *ast.CaseClause
		clauses := x.Body.List
		for i := len(clauses) - 1; i >= 0; i-- {
			cl := clauses[i].(*ast.CaseClause)
			for _, st := range cl.Body {
				if br, ok := st.(*ast.BranchStmt); ok && br.Tok == token.FALLTHROUGH {
					fail("fallthrough")
				}
			}
			if cl.List == nil {
				def = cl
				continue
			}
			_ = def
		}
		var elseStmt ast.Stmt
		if def != nil {
			elseStmt = &ast.BlockStmt{List: def.Body}
		}
		for i := len(clauses) - 1; i >= 0; i-- {
			cl := clauses[i].(*ast.CaseClause)
			if cl.List == nil {
				continue
			}
			var cond ast.Expr
			for _, e := range cl.List {
				c := e
				if x.Tag != nil {
					fail("tagged switch")
				}
				if cond == nil {
					cond = c
				} else {
					fail("case with several expressions")
				}
			}
			ifs := &ast.IfStmt{Cond: cond, Body: &ast.BlockStmt{List: cl.Body}}
			if elseStmt != nil {
				ifs.Else = elseStmt
			}
			elseStmt = ifs
			chain = ifs
		}
		if chain == nil {
			if def != nil {
				return b.stmts(append(append([]ast.Stmt{}, def.Body...), tail...), rest, en, ind)
			}
			return b.stmts(tail, rest, en, ind)
		}
		return b.stmts(append([]ast.Stmt{chain}, tail...), rest, en, ind)
	case *ast.ExprStmt:
		if b.cc != nil && b.inLoop {
			if call, ok := x.X.(*ast.CallExpr); ok {
				if sel, ok := call.Fun.(*ast.SelectorExpr); ok {
					if id, ok := sel.X.(*ast.Ident); ok && t.info.Uses[id] == b.cc.dst && sel.Sel.Name == "SetSample" && len(call.Args) == 2 {
						aid, ok := call.Args[0].(*ast.Ident)
						if !ok || t.info.Uses[aid] != b.cc.loopVar {
							fail("dst.SetSample at an index other than the loop variable")
						}
						if b.cc.stored != nil {
							fail("two stores on one path through the loop body")
						}
						var bs binds
						v, _ := b.expr(call.Args[1], en, &bs)
						b.cc.stored = &v
						b.cc.facts["stores dst.SetSample(i, ·) at the loop index only, once per iteration"] = true
						return pre(bs) + b.stmts(tail, rest, en, ind)
					}
				}
			}
		}
		fail("expression statement at %s", t.fset.Position(x.Pos()))
	case *ast.ForStmt:
		if b.cc == nil || b.inLoop {
			fail("loop")
		}
		return b.loop(x, tail, rest, en, ind)
	}
	fail("statement form %T at %s", s, t.fset.Position(s.Pos()))
	return ""
}

// loop: `for i := 0; i < length; i++ { body }` followed by `return min(src.Length(), dst.Length())`
func (b *body) loop(x *ast.ForStmt, tail []ast.Stmt, rest [][]ast.Stmt, en env, ind string) string {
	t := b.t
	cc := b.cc
	init, ok := x.Init.(*ast.AssignStmt)
	if !ok || init.Tok != token.DEFINE || len(init.Lhs) != 1 {
		fail("loop initialisation is not `i := 0`")
	}
	iv := t.info.Defs[init.Lhs[0].(*ast.Ident)]
	if tv := t.info.Types[init.Rhs[0]]; tv.Value == nil || tv.Value.ExactString() != "0" {
		fail("loop does not start at 0")
	}
	cond, ok := x.Cond.(*ast.BinaryExpr)
	if !ok || cond.Op != token.LSS {
		fail("loop condition is not `i < length`")
	}
	if l, ok := cond.X.(*ast.Ident); !ok || t.info.Uses[l] != iv {
		fail("loop condition is not on the loop variable")
	}
	if r, ok := cond.Y.(*ast.Ident); !ok || t.info.Uses[r] != cc.length {
		fail("loop bound is not the local `length`")
	}
	post, ok := x.Post.(*ast.IncDecStmt)
	if !ok || post.Tok != token.INC {
		fail("loop step is not i++")
	}
	if id, ok := post.X.(*ast.Ident); !ok || t.info.Uses[id] != iv {
		fail("loop step is not on the loop variable")
	}
	cc.facts["loops are `for i := 0; i < length; i++`"] = true
	// after the loop: only the final return
	after := tail
	if len(after) == 0 && len(rest) > 0 {
		after = rest[0]
		for _, r := range rest[1:] {
			after = append(append([]ast.Stmt{}, after...), r...)
		}
	}
	if len(after) < 1 {
		fail("nothing after the loop")
	}
	retStmt, ok := after[0].(*ast.ReturnStmt)
	if !ok || len(retStmt.Results) != 1 || !b.isMinOf(retStmt.Results[0], "Length") {
		fail("the loop is not followed by `return min(src.Length(), dst.Length())`")
	}
	cc.facts["returns min(src.Length(), dst.Length())"] = true
	cc.loopVar = iv
	b.inLoop = true
	cc.stored = nil
	out := b.stmts(x.Body.List, nil, en.clone(), ind)
	b.inLoop = false
	cc.loopVar = nil
	cc.stored = nil
	return out
}

// isMinOf recognises min(src.M(), dst.M()) in either order
func (b *body) isMinOf(e ast.Expr, method string) bool {
	t := b.t
	call, ok := e.(*ast.CallExpr)
	if !ok || len(call.Args) != 2 {
		return false
	}
	id, ok := call.Fun.(*ast.Ident)
	if !ok || id.Name != "min" {
		return false
	}
	seen := map[types.Object]bool{}
	for _, a := range call.Args {
		c, ok := a.(*ast.CallExpr)
		if !ok || len(c.Args) != 0 {
			return false
		}
		sel, ok := c.Fun.(*ast.SelectorExpr)
		if !ok || sel.Sel.Name != method {
			return false
		}
		rid, ok := sel.X.(*ast.Ident)
		if !ok {
			return false
		}
		seen[t.info.Uses[rid]] = true
	}
	return seen[b.cc.src] && seen[b.cc.dst]
}

// ---------------------------------------------------------------------------------------------- definitions

func leanName(obj types.Object) string {
	fn := obj.(*types.Func)
	sig := fn.Type().(*types.Signature)
	if r := sig.Recv(); r != nil {
		rt := r.Type()
		if p, ok := rt.(*types.Pointer); ok {
			rt = p.Elem()
		}
		if n, ok := rt.(*types.Named); ok {
			return "Sig.Gen." + n.Obj().Name() + "_" + fn.Name()
		}
	}
	return "Sig.Gen." + fn.Name()
}

// need returns the Lean name of a translated callee, translating it first if necessary.
func (t *tr) need(callee types.Object) string {
	if n, ok := t.done[callee]; ok {
		return n
	}
	if why, ok := t.failed[callee]; ok {
		fail("callee %s is untranslatable (%s)", callee.Name(), why)
	}
	d, ok := t.decls[callee]
	if !ok {
		fail("callee %s has no declaration in the package", callee.Name())
	}
	if err := t.scalarFunc(d); err != "" {
		fail("callee %s is untranslatable (%s)", callee.Name(), err)
	}
	return t.done[callee]
}

func retWrap(text string, option bool) string {
	// RET(v) markers -> v or `some v`
	var out strings.Builder
	for {
		i := strings.Index(text, "RET(")
		if i < 0 {
			out.WriteString(text)
			break
		}
		out.WriteString(text[:i])
		depth, j := 0, i+3
		for ; j < len(text); j++ {
			if text[j] == '(' {
				depth++
			} else if text[j] == ')' {
				depth--
				if depth == 0 {
					break
				}
			}
		}
		v := text[i+4 : j]
		if option {
			out.WriteString("some (" + v + ")")
		} else {
			out.WriteString("(" + v + ")")
		}
		text = text[j+1:]
	}
	return out.String()
}

func (t *tr) typeParams(sig *types.Signature) (string, bool) {
	out := ""
	tps := sig.TypeParams()
	if sig.Recv() != nil && sig.RecvTypeParams() != nil && sig.RecvTypeParams().Len() > 0 {
		return "", false
	}
	for i := 0; tps != nil && i < tps.Len(); i++ {
		pt := t.tyOf(tps.At(i))
		switch pt.c {
		case cInt:
			out += fmt.Sprintf(" (%s : IntTy)", pt.lean)
		case cFloat:
			out += fmt.Sprintf(" (%s : Fmt)", pt.lean)
		case cMixed:
			// a type parameter ranging over all element types: only its size is ever used
			out += fmt.Sprintf(" (%s : Kind)", pt.lean)
		default:
			return "", false
		}
	}
	return out, true
}

// scalarFunc translates a function whose parameters and result are scalars. Returns "" or the reason it cannot.
func (t *tr) scalarFunc(d *ast.FuncDecl) (why string) {
	obj := t.info.Defs[d.Name]
	name := leanName(obj)
	defer func() {
		if r := recover(); r != nil {
			u, ok := r.(unsupported)
			if !ok {
				panic(r)
			}
			why = u.msg
			t.failed[obj] = why
		}
	}()
	sig := obj.Type().(*types.Signature)
	if sig.Results().Len() != 1 {
		fail("%d results", sig.Results().Len())
	}
	params, ok := t.typeParams(sig)
	if !ok {
		fail("type parameters outside integer / float classes")
	}
	cnt := 0
	en := env{vars: map[types.Object]string{}, n: &cnt}
	addParam := func(v *types.Var) {
		pt := t.tyOf(v.Type())
		n := "p_" + v.Name()
		switch pt.c {
		case cInt:
			params += fmt.Sprintf(" (%s : Int)", n)
		case cFloat:
			params += fmt.Sprintf(" (%s : FV)", n)
		default:
			fail("parameter %s of type %s", v.Name(), pt.key)
		}
		en.vars[v] = n
	}
	if r := sig.Recv(); r != nil {
		addParam(r)
	}
	for i := 0; i < sig.Params().Len(); i++ {
		addParam(sig.Params().At(i))
	}
	rt := t.tyOf(sig.Results().At(0).Type())
	resTy := map[class]string{cInt: "Int", cFloat: "FV"}[rt.c]
	if resTy == "" {
		fail("result type %s", rt.key)
	}
	if nr := sig.Results().At(0); nr.Name() != "" {
		fail("named result")
	}
	b := &body{t: t}
	text := b.stmts(d.Body.List, nil, en, "  ")
	if b.option {
		resTy = "Option " + resTy
	}
	def := fmt.Sprintf("/-- %s (%s) -/\n@[gen] def %s%s : %s :=\n%s\n", obj.Name(), filepath.Base(t.fset.Position(d.Pos()).Filename), strings.TrimPrefix(name, "Sig.Gen."), params, resTy, retWrap(text, b.option))
	t.done[obj] = name
	t.optRes[name] = b.option
	t.text[name] = def
	t.order = append(t.order, name)
	return ""
}

// convFunc translates one of the XAsY(src *Buffer[S], dst *Buffer[D]) int functions to its kernel.
func (t *tr) convFunc(d *ast.FuncDecl) (facts []string, why string) {
	obj := t.info.Defs[d.Name]
	name := leanName(obj) + "_k"
	defer func() {
		if r := recover(); r != nil {
			u, ok := r.(unsupported)
			if !ok {
				panic(r)
			}
			why = u.msg
		}
	}()
	sig := obj.Type().(*types.Signature)
	tps := sig.TypeParams()
	if tps == nil || tps.Len() != 2 || sig.Params().Len() != 2 {
		fail("not of the form f[S, D](src, dst)")
	}
	srcV, dstV := sig.Params().At(0), sig.Params().At(1)
	sT, dT := t.tyOf(tps.At(0)), t.tyOf(tps.At(1))
	params := ""
	for _, p := range []ty{sT, dT} {
		switch p.c {
		case cInt:
			params += fmt.Sprintf(" (%s : IntTy)", p.lean)
		case cFloat:
			params += fmt.Sprintf(" (%s : Fmt)", p.lean)
		default:
			fail("type parameter class")
		}
	}
	params += " (sb db : Nat)"
	if sT.c == cInt {
		params += " (x : Int)"
	} else {
		params += " (x : FV)"
	}
	resTy := "Option Int"
	if dT.c == cFloat {
		resTy = "Option FV"
	}
	cc := &convCtx{src: srcV, dst: dstV, facts: map[string]bool{}}
	list := d.Body.List
	// prologue 1: mustSame(src.Channels(), dst.Channels(), diffChannels)
	okGuard := false
	if len(list) > 0 {
		if es, ok := list[0].(*ast.ExprStmt); ok {
			if call, ok := es.X.(*ast.CallExpr); ok && len(call.Args) == 3 {
				if id, ok := call.Fun.(*ast.Ident); ok && id.Name == "mustSame" {
					seen := map[types.Object]bool{}
					for _, a := range call.Args[:2] {
						if c, ok := a.(*ast.CallExpr); ok {
							if sel, ok := c.Fun.(*ast.SelectorExpr); ok && sel.Sel.Name == "Channels" {
								if rid, ok := sel.X.(*ast.Ident); ok {
									seen[t.info.Uses[rid]] = true
								}
							}
						}
					}
					if mid, ok := call.Args[2].(*ast.Ident); ok && mid.Name == "diffChannels" && seen[srcV] && seen[dstV] {
						okGuard = true
					}
				}
			}
		}
	}
	if !okGuard {
		fail("first statement is not mustSame(src.Channels(), dst.Channels(), diffChannels)")
	}
	cc.facts["first statement: mustSame(src.Channels(), dst.Channels(), diffChannels)"] = true
	// prologue 2: length := min(src.Len(), dst.Len())
	b := &body{t: t, cc: cc, option: true}
	if len(list) < 3 {
		fail("body too short")
	}
	as, ok := list[1].(*ast.AssignStmt)
	if !ok || as.Tok != token.DEFINE || len(as.Lhs) != 1 || !b.isMinOf(as.Rhs[0], "Len") {
		fail("second statement is not length := min(src.Len(), dst.Len())")
	}
	cc.length = t.info.Defs[as.Lhs[0].(*ast.Ident)]
	cc.facts["length := min(src.Len(), dst.Len())"] = true
	// prologue 3: if length == 0 { return 0 }
	ifs, ok := list[2].(*ast.IfStmt)
	okEarly := false
	if ok && ifs.Init == nil && ifs.Else == nil && len(ifs.Body.List) == 1 {
		if c, ok := ifs.Cond.(*ast.BinaryExpr); ok && c.Op == token.EQL {
			if l, ok := c.X.(*ast.Ident); ok && t.info.Uses[l] == cc.length {
				if tv := t.info.Types[c.Y]; tv.Value != nil && tv.Value.ExactString() == "0" {
					if r, ok := ifs.Body.List[0].(*ast.ReturnStmt); ok && len(r.Results) == 1 {
						if tv := t.info.Types[r.Results[0]]; tv.Value != nil && tv.Value.ExactString() == "0" {
							okEarly = true
						}
					}
				}
			}
		}
	}
	if !okEarly {
		fail("third statement is not `if length == 0 { return 0 }`")
	}
	cc.facts["if length == 0 { return 0 }"] = true
	cnt := 0
	en := env{vars: map[types.Object]string{}, n: &cnt}
	text := b.stmts(list[3:], nil, en, "  ")
	def := fmt.Sprintf("/-- per-sample kernel of %s (%s), with its loop-invariant prologue -/\n@[gen] def %s%s : %s :=\n%s\n", obj.Name(), filepath.Base(t.fset.Position(d.Pos()).Filename), strings.TrimPrefix(name, "Sig.Gen."), params, resTy, retWrap(text, true))
	t.text[name] = def
	t.order = append(t.order, name)
	for f := range cc.facts {
		facts = append(facts, f)
	}
	sort.Strings(facts)
	return facts, ""
}

// ---------------------------------------------------------------------------------------------- main

type report struct {
	Translated     map[string]string   `json:"translated"`     // Go name -> Lean name
	Untranslatable map[string]string   `json:"untranslatable"` // Go name -> reason
	Skeleton       map[string][]string `json:"skeleton"`       // conversion -> recognised facts
	Hash           string              `json:"hash"`
}

func main() {
	if len(os.Args) != 4 {
		fmt.Fprintln(os.Stderr, "usage: go2lean <repo dir> <lean/SignalGen dir> <report.json>")
		os.Exit(2)
	}
	dir, outPath, repPath := os.Args[1], os.Args[2], os.Args[3]
	if err := os.Chdir(dir); err != nil {
		fmt.Fprintln(os.Stderr, err)
		os.Exit(2)
	}
	fset := token.NewFileSet()
	pkgs, err := parser.ParseDir(fset, ".", func(fi os.FileInfo) bool {
		n := fi.Name()
		return !strings.HasSuffix(n, "_test.go") && n != "verif_export.go" && n != "gen.go"
	}, parser.ParseComments)
	if err != nil {
		fmt.Fprintln(os.Stderr, "parse:", err)
		os.Exit(2)
	}
	p, ok := pkgs["signal"]
	if !ok {
		fmt.Fprintln(os.Stderr, "package signal not found")
		os.Exit(2)
	}
	var names []string
	for n := range p.Files {
		names = append(names, n)
	}
	sort.Strings(names)
	var files []*ast.File
	for _, n := range names {
		files = append(files, p.Files[n])
	}
	info := &types.Info{
		Types: map[ast.Expr]types.TypeAndValue{}, Defs: map[*ast.Ident]types.Object{}, Uses: map[*ast.Ident]types.Object{},
		Selections: map[*ast.SelectorExpr]*types.Selection{}, Instances: map[*ast.Ident]types.Instance{},
	}
	conf := types.Config{Importer: importer.ForCompiler(fset, "source", nil)}
	pkg, err := conf.Check("pipelined.dev/signal", fset, files, info)
	if err != nil {
		fmt.Fprintln(os.Stderr, "typecheck:", err)
		os.Exit(2)
	}
	t := &tr{fset: fset, info: info, pkg: pkg, done: map[types.Object]string{}, failed: map[types.Object]string{},
		decls: map[types.Object]*ast.FuncDecl{}, text: map[string]string{}, optRes: map[string]bool{},
		shape: map[string]string{}, readonly: map[string]bool{}}
	var all []*ast.FuncDecl
	for _, f := range files {
		for _, d := range f.Decls {
			if fd, ok := d.(*ast.FuncDecl); ok && fd.Body != nil {
				t.decls[info.Defs[fd.Name]] = fd
				all = append(all, fd)
			}
		}
	}
	rep := report{Translated: map[string]string{}, Untranslatable: map[string]string{}, Skeleton: map[string][]string{}}
	goName := func(fd *ast.FuncDecl) string { return strings.TrimPrefix(leanName(info.Defs[fd.Name]), "Sig.Gen.") }
	isConv := func(fd *ast.FuncDecl) bool {
		sig := info.Defs[fd.Name].Type().(*types.Signature)
		if sig.Recv() != nil || sig.Params().Len() != 2 || sig.Results().Len() != 1 {
			return false
		}
		for i := 0; i < 2; i++ {
			pt, ok := sig.Params().At(i).Type().(*types.Pointer)
			if !ok {
				return false
			}
			n, ok := pt.Elem().(*types.Named)
			if !ok || n.Obj().Name() != "Buffer" {
				return false
			}
		}
		return true
	}
	isXfer := func(fd *ast.FuncDecl) bool {
		sig := info.Defs[fd.Name].Type().(*types.Signature)
		if sig.Recv() != nil {
			return false
		}
		nb, ns := 0, 0
		for i := 0; i < sig.Params().Len(); i++ {
			if isBufferPtr(sig.Params().At(i).Type()) {
				nb++
			}
			if isSliceOfParam(sig.Params().At(i).Type()) {
				ns++
			}
		}
		return nb == 1 && ns >= 1
	}
	for _, fd := range all {
		obj := info.Defs[fd.Name]
		if isConv(fd) {
			continue
		}
		if _, ok := t.done[obj]; ok {
			continue
		}
		if _, ok := t.failed[obj]; ok {
			continue
		}
		if fd.Recv == nil && fd.Name.Name == "Alloc" {
			t.bufMethod(fd)
			continue
		}
		if isXfer(fd) {
			continue
		}
		if owner, ok := bufName(obj); ok && (owner == "Buffer" || owner == "C" || (owner == "PoolAllocator" && fd.Name.Name == "Put")) {
			t.bufMethod(fd)
			continue
		}
		t.scalarFunc(fd)
	}
	// transfer functions (Write, Read) after the buffer methods they call
	for _, fd := range all {
		if isXfer(fd) {
			t.xferFunc(fd)
		}
	}
	// the nine conversions as whole functions (guard, length, prologue, loops, returns), next to their kernels
	convFn := map[string]string{}
	for _, fd := range all {
		if isConv(fd) {
			if why := t.xferConv(fd); why != "" {
				convFn[goName(fd)] = why
			}
		}
	}
	for _, fd := range all {
		obj := info.Defs[fd.Name]
		if isConv(fd) {
			facts, why := t.convFunc(fd)
			if why != "" {
				rep.Untranslatable[goName(fd)] = why
			} else {
				rep.Translated[goName(fd)] = leanName(obj) + "_k"
				rep.Skeleton[goName(fd)] = facts
			}
			if why, bad := convFn[goName(fd)]; bad {
				rep.Untranslatable[goName(fd)+"_fn"] = why
			} else {
				rep.Translated[goName(fd)+"_fn"] = leanName(obj) + "_fn"
			}
			continue
		}
		if n, ok := t.done[obj]; ok {
			rep.Translated[goName(fd)] = n
		} else {
			rep.Untranslatable[goName(fd)] = t.failed[obj]
		}
	}
	// one file per group of functions, so that a change of the source rebuilds only the equivalence modules that
	// depend on the group it touches: Scalar (bit depths, Scale, Frequency, ChannelLength, BufferIndex, min),
	// Kernels (the nine per-sample kernels), Buffer (methods of Buffer, C, PoolAllocator.Put)
	group := func(n string) string {
		short := strings.TrimPrefix(n, "Sig.Gen.")
		switch {
		case strings.HasSuffix(short, "_k"):
			return "Kernels"
		case t.shape[n] == "xfer":
			return "Xfer"
		case t.shape[n] == "convfn":
			return "ConvFn"
		case strings.HasPrefix(short, "Buffer_") || strings.HasPrefix(short, "C_") || strings.HasPrefix(short, "PoolAllocator_") || short == "Alloc":
			return "Buffer"
		}
		return "Scalar"
	}
	h := sha256.New()
	for _, grp := range []string{"Scalar", "Kernels", "Buffer", "Xfer", "ConvFn"} {
		var sb strings.Builder
		sb.WriteString("/- GENERATED by harness/go2lean from the Go sources of pipelined.dev/signal - do not edit.\n   Regenerated by ./check on every run; the theorems of SignalGen/Eq/*.lean relate these definitions to the model. -/\n")
		if grp == "Scalar" {
			sb.WriteString("import SignalGen.Prelude\n")
		} else if grp == "Xfer" || grp == "ConvFn" {
			sb.WriteString("import SignalGen.Gen.Buffer\n")
		} else {
			sb.WriteString("import SignalGen.Gen.Scalar\n")
		}
		sb.WriteString("set_option linter.unusedVariables false\nnamespace Sig.Gen\nopen Sig\n\n")
		for _, n := range t.order {
			if group(n) != grp {
				continue
			}
			sb.WriteString(t.text[n])
			sb.WriteString("\n")
			txt := t.text[n]
			if i := strings.Index(txt, "-/\n"); i >= 0 {
				txt = txt[i+3:]
			}
			h.Write([]byte(txt))
		}
		sb.WriteString("end Sig.Gen\n")
		path := filepath.Join(outPath, "Gen", grp+".lean")
		os.MkdirAll(filepath.Dir(path), 0o755)
		old, _ := os.ReadFile(path)
		if string(old) != sb.String() {
			if err := os.WriteFile(path, []byte(sb.String()), 0o644); err != nil {
				fmt.Fprintln(os.Stderr, err)
				os.Exit(2)
			}
		}
	}
	rep.Hash = fmt.Sprintf("%x", h.Sum(nil))[:16]
	js, _ := json.MarshalIndent(rep, "", " ")
	os.WriteFile(repPath, js, 0o644)
}

package main

// Methods of Buffer[T] and C[T]: slices, pointer receivers, panics.
//
// A `*Buffer[T]` is a model header `Buf` plus the heap; the backing slice `b.data` is the header's
// (blk, off, len, cap). A method is translated in one of two shapes:
//
//	pure    no heap access, no panic, no header mutation: `def Buffer_Cap (b : Buf) ... : Int` (or Option Int when a
//	        float->int conversion is involved)
//	res     `def Buffer_Slice (h : Heap) (b : Buf) ... : Res (Buf × α)`: the heap and the receiver's header are threaded,
//	        index / slice-bounds failures and explicit panics end in `Res.panic` with the heap at that moment
//
// Go primitives and their model counterparts: `len(b.data)` / `cap(b.data)` = `b.len` / `b.cap`; `b.data[i]` =
// `Buf.sample`; `b.data[i] = v` = `Buf.setSample`; `b.data[s:e]` = `Buf.reslice`; `append(b.data, v)` = `append1`
// (in place while `len < cap`; a growing append is outside the fragment: unspecified); `&Buffer[T]{channels, data,
// bitDepth}` = a header over the data slice's storage.

import (
	"fmt"
	"go/ast"
	"go/token"
	"go/types"
	"strings"
)

type bufCtx struct {
	recv     types.Object
	bufObj   types.Object // the variable that denotes the buffer (the receiver, or Put's parameter)
	isPool   bool         // receiver is a *PoolAllocator[T]: p.alloc.X are the parameters a_ch, a_len, a_cap
	isAlloc  bool         // the function Alloc[T](a Allocator): a.X are the parameters a_ch, a_len, a_cap; no buffer yet
	allocObj types.Object
	isChan   bool // receiver is a C[T] value: the buffer is c.Buffer, the channel number c.channel
	res      bool // translating in the res shape
	void     bool
	wrote    bool // heap or header changed somewhere: the method is not read-only
	// transfer functions (xfer.go): Write, Read
	xfer     bool
	slices   map[types.Object]string // caller's slices that are only read: Go variable -> Lean list
	outSlice types.Object            // the caller's slice that is written (its current value is en.lv)
	inFor    int                     // depth of `for` bodies being translated
	outer    map[types.Object]bool   // variables declared outside the innermost loop
	roBufs   map[types.Object]string // further buffers that are only read (conversion source): Go variable -> Lean header
	typed    bool                    // samples are used at their static class: float cells are decoded / encoded
}

type needRes struct{ why string }

func (b *body) wantRes(why string) {
	if !b.bm.res {
		panic(needRes{why})
	}
}

// isBufExpr: e denotes the receiver's buffer (`b`, or `c.Buffer` for a channel view)
func (b *body) isBufExpr(e ast.Expr) bool {
	t := b.t
	switch x := e.(type) {
	case *ast.ParenExpr:
		return b.isBufExpr(x.X)
	case *ast.Ident:
		return !b.bm.isChan && t.info.Uses[x] == b.bm.bufObj
	case *ast.SelectorExpr:
		if id, ok := x.X.(*ast.Ident); ok && b.bm.isChan && t.info.Uses[id] == b.bm.recv && x.Sel.Name == "Buffer" {
			return true
		}
	}
	return false
}

// bufVar: the Lean header variable of the buffer e denotes (the written buffer, or one that is only read)
func (b *body) bufVar(e ast.Expr, en env) (string, bool) {
	if b.isBufExpr(e) {
		return en.bv, true
	}
	if p, ok := e.(*ast.ParenExpr); ok {
		return b.bufVar(p.X, en)
	}
	if id, ok := e.(*ast.Ident); ok && b.bm.roBufs != nil {
		if n, ok := b.bm.roBufs[b.t.info.Uses[id]]; ok {
			return n, true
		}
	}
	return "", false
}

// isDataExpr: e is `<buffer>.data`
func (b *body) isDataExpr(e ast.Expr) bool {
	if p, ok := e.(*ast.ParenExpr); ok {
		return b.isDataExpr(p.X)
	}
	sel, ok := e.(*ast.SelectorExpr)
	return ok && sel.Sel.Name == "data" && b.isBufExpr(sel.X)
}

func bufName(obj types.Object) (string, bool) {
	fn, ok := obj.(*types.Func)
	if !ok {
		return "", false
	}
	sig := fn.Type().(*types.Signature)
	r := sig.Recv()
	if r == nil {
		return "", false
	}
	rt := r.Type()
	if p, ok := rt.(*types.Pointer); ok {
		rt = p.Elem()
	}
	n, ok := rt.(*types.Named)
	if !ok {
		return "", false
	}
	return n.Obj().Name(), true
}

// bufExpr translates the expression forms that only exist inside buffer methods.
func (b *body) bufExpr(e ast.Expr, en env, bs *binds) (string, ty, bool) {
	t := b.t
	intT := ty{cInt, "tI64", "i64:int"}
	if b.bm.xfer {
		if s, st, ok := b.sliceExpr(e, en, bs); ok {
			return s, st, true
		}
	}
	switch x := e.(type) {
	case *ast.SelectorExpr:
		if b.isBufExpr(x.X) {
			switch x.Sel.Name {
			case "channels":
				return fmt.Sprintf("(%s.ch : Int)", en.bv), intT, true
			case "bitDepth":
				return fmt.Sprintf("(%s.depth : Int)", en.bv), ty{cInt, "tU8", "u8"}, true
			}
		}
		if id, ok := x.X.(*ast.Ident); ok && b.bm.isChan && t.info.Uses[id] == b.bm.recv && x.Sel.Name == "channel" {
			return "c_channel", intT, true
		}
		if b.bm.isAlloc {
			if id, ok := x.X.(*ast.Ident); ok && t.info.Uses[id] == b.bm.allocObj {
				switch x.Sel.Name {
				case "Channels":
					return "a_ch", intT, true
				case "Length":
					return "a_len", intT, true
				case "Capacity":
					return "a_cap", intT, true
				}
			}
		}
		if b.bm.isPool {
			if in, ok := x.X.(*ast.SelectorExpr); ok && in.Sel.Name == "alloc" {
				if id, ok := in.X.(*ast.Ident); ok && t.info.Uses[id] == b.bm.recv {
					switch x.Sel.Name {
					case "Channels":
						return "a_ch", intT, true
					case "Length":
						return "a_len", intT, true
					case "Capacity":
						return "a_cap", intT, true
					}
				}
			}
		}
	case *ast.IndexExpr:
		if b.isDataExpr(x.X) {
			b.wantRes("reads a sample")
			i, _ := b.expr(x.Index, en, bs)
			n := en.fresh("s")
			*bs = append(*bs, fmt.Sprintf("(Res.ofOption %s Panic.index (Buf.sample %s %s %s)).bind fun _ %s =>", en.hv, en.hv, en.bv, i, n))
			return n, ty{cMixed, "", "cell"}, true
		}
	case *ast.CallExpr:
		if id, ok := x.Fun.(*ast.Ident); ok && len(x.Args) == 1 {
			if _, isB := t.info.Uses[id].(*types.Builtin); isB && b.isDataExpr(x.Args[0]) {
				switch id.Name {
				case "len":
					return fmt.Sprintf("(%s.len : Int)", en.bv), intT, true
				case "cap":
					return fmt.Sprintf("(%s.cap : Int)", en.bv), intT, true
				}
			}
		}
		sel, ok := x.Fun.(*ast.SelectorExpr)
		if !ok {
			return "", ty{}, false
		}
		hdr, isBuf := b.bufVar(sel.X, en)
		if !isBuf {
			return "", ty{}, false
		}
		s, ok := t.info.Selections[sel]
		if !ok || s.Kind() != types.MethodVal {
			return "", ty{}, false
		}
		callee := origin(s.Obj())
		owner, _ := bufName(callee)
		var args []string
		for _, a := range x.Args {
			v, _ := b.expr(a, en, bs)
			args = append(args, v)
		}
		et := t.tyOf(t.info.Types[x].Type)
		switch owner {
		case "channels":
			name := t.need(callee)
			return fmt.Sprintf("(%s (%s.ch : Int) %s)", name, hdr, strings.Join(args, " ")), et, true
		case "bitDepth":
			name := t.need(callee)
			return fmt.Sprintf("(%s (%s.depth : Int) %s)", name, hdr, strings.Join(args, " ")), et, true
		case "Buffer":
			name, shape := t.needBuf(callee)
			switch shape {
			case "pure":
				return fmt.Sprintf("(%s %s %s)", name, hdr, strings.Join(args, " ")), et, true
			case "option":
				n := en.fresh("r")
				call := fmt.Sprintf("(%s %s %s)", name, hdr, strings.Join(args, " "))
				if b.bm.res {
					*bs = append(*bs, fmt.Sprintf("(Res.ofUnspec %s).bind fun _ %s =>", call, n))
				} else {
					*bs = append(*bs, fmt.Sprintf("%s.bind fun %s =>", call, n))
				}
				b.option = true
				return n, et, true
			case "res":
				b.wantRes("calls " + callee.Name())
				if !t.readonly[name] {
					fail("call of the state-changing method %s inside an expression", callee.Name())
				}
				n := en.fresh("r")
				*bs = append(*bs, fmt.Sprintf("(%s %s %s %s).bind fun _ %s =>", name, en.hv, hdr, strings.Join(args, " "), n))
				if b.bm.typed && et.c == cFloat {
					return fmt.Sprintf("(decodeF %s %s.2)", et.lean, n), et, true
				}
				return n + ".2", et, true
			}
		}
	}
	return "", ty{}, false
}

// origin maps a method of an instantiated generic type to its declaration
func origin(obj types.Object) types.Object {
	if f, ok := obj.(*types.Func); ok {
		return f.Origin()
	}
	return obj
}

func panicKind(msg string) string {
	switch {
	case msg == "different number of channels":
		return "Panic.diffChannels"
	case msg == "different buffer capacity":
		return "Panic.diffCapacity"
	case strings.Contains(msg, "index out of range"):
		return "Panic.index"
	case strings.Contains(msg, "slice bounds out of range"):
		return "Panic.sliceBounds"
	}
	return "Panic.other"
}

// sliceOf translates a slice-valued expression over the receiver's storage to a header expression
func (b *body) sliceOf(e ast.Expr, en env, bs *binds) string {
	if p, ok := e.(*ast.ParenExpr); ok {
		return b.sliceOf(p.X, en, bs)
	}
	if b.isDataExpr(e) {
		return en.bv
	}
	if se, ok := e.(*ast.SliceExpr); ok && b.isDataExpr(se.X) && se.Max == nil {
		lo, hi := "0", fmt.Sprintf("(%s.len : Int)", en.bv)
		if se.Low != nil {
			lo, _ = b.expr(se.Low, en, bs)
		}
		if se.High != nil {
			hi, _ = b.expr(se.High, en, bs)
		}
		n := en.fresh("d")
		*bs = append(*bs, fmt.Sprintf("(Res.ofOption %s Panic.sliceBounds (Buf.reslice %s %s %s)).bind fun _ %s =>", en.hv, en.bv, lo, hi, n))
		return n
	}
	fail("slice expression form at %s", b.t.fset.Position(e.Pos()))
	return ""
}

// bufStmt handles the statement forms of the res shape; ok=false: fall through to the generic walker
func (b *body) bufStmt(s ast.Stmt, tail []ast.Stmt, rest [][]ast.Stmt, en env, ind string) (string, bool) {
	t := b.t
	pre := func(bs binds) string {
		out := ""
		for _, x := range bs {
			out += ind + x + "\n"
		}
		return out
	}
	if b.bm.xfer {
		if out, ok := b.xferStmt(s, tail, rest, en, ind); ok {
			return out, true
		}
	}
	switch x := s.(type) {
	case *ast.ReturnStmt:
		var bs binds
		if b.bm.inFor > 0 {
			fail("return inside a loop body")
		}
		switch len(x.Results) {
		case 0:
			return ind + fmt.Sprintf("Res.ok %s (%s, ())", en.hv, en.bv), true
		case 1:
			r := x.Results[0]
			// &Buffer[T]{channels: .., data: .., bitDepth: ..}
			if u, ok := r.(*ast.UnaryExpr); ok && u.Op == token.AND {
				if cl, ok := u.X.(*ast.CompositeLit); ok {
					var chE, depE string
					var dataE ast.Expr
					for _, el := range cl.Elts {
						kv, ok := el.(*ast.KeyValueExpr)
						if !ok {
							fail("positional composite literal")
						}
						switch kv.Key.(*ast.Ident).Name {
						case "channels":
							chE, _ = b.expr(kv.Value, en, &bs)
						case "bitDepth":
							depE, _ = b.expr(kv.Value, en, &bs)
						case "data":
							dataE = kv.Value
						default:
							fail("unknown field %s of Buffer", kv.Key.(*ast.Ident).Name)
						}
					}
					if chE == "" || depE == "" || dataE == nil {
						fail("Buffer literal without channels, data and bitDepth")
					}
					if mk, ok := dataE.(*ast.CallExpr); ok {
						if id, ok := mk.Fun.(*ast.Ident); ok && id.Name == "make" && len(mk.Args) == 3 {
							// make([]T, n, c): a fresh zeroed block; panics unless 0 <= n <= c
							et := t.tyOf(t.info.Types[mk.Args[0]].Type.(*types.Slice).Elem())
							if et.c != cMixed || et.lean == "" {
								fail("make of a slice of %s", et.key)
							}
							n, _ := b.expr(mk.Args[1], en, &bs)
							c, _ := b.expr(mk.Args[2], en, &bs)
							p := en.fresh("p")
							return pre(bs) + ind + fmt.Sprintf("(Res.ofOption %s Panic.other (make %s %s %s %s)).bind fun _ %s =>\n", en.hv, en.hv, et.lean, n, c, p) +
								ind + fmt.Sprintf("Res.ok %s.1 { %s.2 with ch := (%s).toNat, depth := (%s).toNat }", p, p, chE, depE), true
						}
					}
					d := b.sliceOf(dataE, en, &bs)
					return pre(bs) + ind + fmt.Sprintf("Res.ok %s (%s, { %s with ch := (%s).toNat, depth := (%s).toNat })", en.hv, en.bv, d, chE, depE), true
				}
			}
			v, _ := b.expr(r, en, &bs)
			return pre(bs) + ind + fmt.Sprintf("Res.ok %s (%s, %s)", en.hv, en.bv, v), true
		}
		fail("return of %d values", len(x.Results))
	case *ast.AssignStmt:
		if len(x.Lhs) != 1 || x.Tok != token.ASSIGN {
			return "", false
		}
		var bs binds
		// b.data[i] = v
		if ix, ok := x.Lhs[0].(*ast.IndexExpr); ok && b.isDataExpr(ix.X) {
			i, _ := b.expr(ix.Index, en, &bs)
			v, _ := b.expr(x.Rhs[0], en, &bs)
			h2 := en.fresh("h")
			out := pre(bs) + ind + fmt.Sprintf("(Res.ofOption %s Panic.index (Buf.setSample %s %s %s %s)).bind fun _ %s =>\n", en.hv, en.hv, en.bv, i, v, h2)
			en.hv = h2
			b.bm.wrote = true
			return out + b.stmts(tail, rest, en, ind), true
		}
		// b.data = append(b.data, v) | b.data = b.data[s:e]
		if b.isDataExpr(x.Lhs[0]) {
			b.bm.wrote = true
			if call, ok := x.Rhs[0].(*ast.CallExpr); ok {
				if id, ok := call.Fun.(*ast.Ident); ok && id.Name == "append" && len(call.Args) == 2 && call.Ellipsis == token.NoPos && b.isDataExpr(call.Args[0]) {
					v, _ := b.expr(call.Args[1], en, &bs)
					p := en.fresh("p")
					out := pre(bs) + ind + fmt.Sprintf("(Res.ofUnspec (append1 %s %s %s)).bind fun _ %s =>\n", en.hv, en.bv, v, p)
					en.hv, en.bv = p+".1", p+".2"
					return out + b.stmts(tail, rest, en, ind), true
				}
			}
			d := b.sliceOf(x.Rhs[0], en, &bs)
			out := pre(bs)
			en.bv = d
			return out + b.stmts(tail, rest, en, ind), true
		}
	case *ast.RangeStmt:
		// for i := range b.data { b.data[i] = c }: every position of the window gets the (loop-invariant) value c
		if !b.isDataExpr(x.X) || x.Value != nil || x.Tok != token.DEFINE || len(x.Body.List) != 1 {
			fail("range loop other than `for i := range b.data { b.data[i] = c }`")
		}
		key, ok := x.Key.(*ast.Ident)
		as, ok2 := x.Body.List[0].(*ast.AssignStmt)
		if !ok || !ok2 || as.Tok != token.ASSIGN || len(as.Lhs) != 1 {
			fail("range loop body")
		}
		ix, ok := as.Lhs[0].(*ast.IndexExpr)
		if !ok || !b.isDataExpr(ix.X) {
			fail("range loop body does not store into the window")
		}
		if iid, ok := ix.Index.(*ast.Ident); !ok || t.info.Uses[iid] != t.info.Defs[key] {
			fail("range loop stores at an index other than the loop variable")
		}
		var bs binds
		v, _ := b.expr(as.Rhs[0], en, &bs) // fails if it mentions the loop variable (not a translated local)
		h2 := en.fresh("h")
		out := pre(bs) + ind + fmt.Sprintf("let %s := storeList %s %s.blk %s.off (List.replicate %s.len %s)\n", h2, en.hv, en.bv, en.bv, en.bv, v)
		en.hv = h2
		b.bm.wrote = true
		return out + b.stmts(tail, rest, en, ind), true
	case *ast.ExprStmt:
		call, ok := x.X.(*ast.CallExpr)
		if !ok {
			return "", false
		}
		if id, ok := call.Fun.(*ast.Ident); ok && id.Name == "mustSame" && len(call.Args) == 3 {
			var bs binds
			l, _ := b.expr(call.Args[0], en, &bs)
			r, _ := b.expr(call.Args[1], en, &bs)
			tv := t.info.Types[call.Args[2]]
			if tv.Value == nil {
				fail("mustSame with a non-constant message")
			}
			kind := panicKind(strings.Trim(tv.Value.ExactString(), "\""))
			return pre(bs) + ind + fmt.Sprintf("if (%s ≠ %s) then\n%s  Res.panic %s %s\n%selse\n", l, r, ind, en.hv, kind, ind) + b.stmts(tail, rest, en, ind+"  "), true
		}
		// p.pool.Put(b): handing the header to sync.Pool is outside the model of this function (the pool machine)
		if b.bm.isPool {
			if sel, ok := call.Fun.(*ast.SelectorExpr); ok && sel.Sel.Name == "Put" {
				if in, ok := sel.X.(*ast.SelectorExpr); ok && in.Sel.Name == "pool" && len(call.Args) == 1 && b.isBufExpr(call.Args[0]) {
					return b.stmts(tail, rest, en, ind), true
				}
			}
		}
		if id, ok := call.Fun.(*ast.Ident); ok && id.Name == "panic" && len(call.Args) == 1 {
			tv := t.info.Types[call.Args[0]]
			if tv.Value == nil {
				fail("panic with a non-constant argument")
			}
			return ind + fmt.Sprintf("Res.panic %s %s", en.hv, panicKind(strings.Trim(tv.Value.ExactString(), "\""))), true
		}
		// a state-changing method of the buffer called as a statement
		if sel, ok := call.Fun.(*ast.SelectorExpr); ok && b.isBufExpr(sel.X) {
			if s, ok := t.info.Selections[sel]; ok && s.Kind() == types.MethodVal {
				if owner, _ := bufName(origin(s.Obj())); owner == "Buffer" {
					name, shape := t.needBuf(origin(s.Obj()))
					if shape != "res" {
						return "", false
					}
					var bs binds
					var args []string
					for _, a := range call.Args {
						v, vt := b.expr(a, en, &bs)
						if b.bm.typed && vt.c == cFloat {
							// a float value stored into the buffer: its cell is the bit pattern
							v = fmt.Sprintf("(encodeF %s %s)", vt.lean, v)
						}
						args = append(args, v)
					}
					h2, r := en.fresh("h"), en.fresh("r")
					out := pre(bs) + ind + fmt.Sprintf("(%s %s %s %s).bind fun %s %s =>\n", name, en.hv, en.bv, strings.Join(args, " "), h2, r)
					if !t.readonly[name] {
						b.bm.wrote = true
					}
					en.hv, en.bv = h2, r+".1"
					return out + b.stmts(tail, rest, en, ind), true
				}
			}
		}
	}
	return "", false
}

// needBuf returns the Lean name and the shape of a translated Buffer / C method
func (t *tr) needBuf(callee types.Object) (string, string) {
	if n, ok := t.done[callee]; ok {
		return n, t.shape[n]
	}
	if why, ok := t.failed[callee]; ok {
		fail("callee %s is untranslatable (%s)", callee.Name(), why)
	}
	d, ok := t.decls[callee]
	if !ok {
		fail("callee %s has no declaration", callee.Name())
	}
	if why := t.bufMethod(d); why != "" {
		fail("callee %s is untranslatable (%s)", callee.Name(), why)
	}
	n := t.done[callee]
	return n, t.shape[n]
}

// bufMethod translates a method of *Buffer[T] or C[T]; returns "" or the reason it cannot.
func (t *tr) bufMethod(d *ast.FuncDecl) (why string) {
	obj := t.info.Defs[d.Name]
	if _, ok := t.done[obj]; ok {
		return ""
	}
	name := leanName(obj)
	for _, res := range []bool{false, true} {
		var retry bool
		why, retry = t.bufMethodShape(d, obj, name, res)
		if !retry {
			break
		}
	}
	if why != "" {
		t.failed[obj] = why
	}
	return why
}

func (t *tr) bufMethodShape(d *ast.FuncDecl, obj types.Object, name string, res bool) (why string, retry bool) {
	defer func() {
		if r := recover(); r != nil {
			switch u := r.(type) {
			case unsupported:
				why = u.msg
			case needRes:
				retry = true
			default:
				panic(r)
			}
		}
	}()
	sig := obj.Type().(*types.Signature)
	owner, _ := bufName(obj)
	if sig.Recv() == nil {
		owner = "func"
	}
	bm := &bufCtx{recv: sig.Recv(), bufObj: sig.Recv(), isChan: owner == "C", isPool: owner == "PoolAllocator", res: res, void: sig.Results().Len() == 0}
	if sig.Recv() == nil {
		// Alloc[T](a Allocator) *Buffer[T]
		bm.isAlloc, bm.bufObj = true, nil
		if sig.Params().Len() != 1 || !isBufferPtr(sig.Results().At(0).Type()) {
			fail("not of the form Alloc[T](a Allocator) *Buffer[T]")
		}
		bm.allocObj = sig.Params().At(0)
		if !res {
			panic(needRes{"allocates"})
		}
	}
	if bm.isPool {
		bm.bufObj = nil
		for i := 0; i < sig.Params().Len(); i++ {
			if isBufferPtr(sig.Params().At(i).Type()) && bm.bufObj == nil {
				bm.bufObj = sig.Params().At(i)
			}
		}
		if bm.bufObj == nil {
			fail("no buffer parameter")
		}
	}
	if bm.void && !res {
		panic(needRes{"no result"})
	}
	if sig.Results().Len() > 1 {
		fail("%d results", sig.Results().Len())
	}
	cnt := 0
	en := env{vars: map[types.Object]string{}, n: &cnt, hv: "h", bv: "b"}
	params := " (b : Buf)"
	if res {
		params = " (h : Heap) (b : Buf)"
	}
	if bm.isAlloc {
		tp, ok := t.typeParams(sig)
		if !ok {
			fail("type parameters")
		}
		params = tp + " (h : Heap) (a_ch a_len a_cap : Int)"
	}
	if bm.isChan {
		params += " (c_channel : Int)"
	}
	if bm.isPool {
		params += " (a_ch a_len a_cap : Int)"
	}
	for i := 0; i < sig.Params().Len(); i++ {
		v := sig.Params().At(i)
		if v == bm.bufObj || v == bm.allocObj {
			continue
		}
		pt := t.tyOf(v.Type())
		switch pt.c {
		case cInt, cMixed:
			params += fmt.Sprintf(" (p_%s : Int)", v.Name())
		default:
			fail("parameter %s of type %s", v.Name(), pt.key)
		}
		en.vars[v] = "p_" + v.Name()
	}
	resTy := "Unit"
	if !bm.void {
		rt := sig.Results().At(0).Type()
		switch {
		case t.tyOf(rt).c == cInt || t.tyOf(rt).c == cMixed:
			resTy = "Int"
		case isBufferPtr(rt):
			resTy = "Buf"
			if !res {
				panic(needRes{"returns a buffer"})
			}
		default:
			fail("result type %s", rt.String())
		}
	}
	b := &body{t: t, bm: bm}
	text := b.stmts(d.Body.List, nil, en, "  ")
	shape := "pure"
	switch {
	case res && bm.isAlloc:
		shape = "res"
		resTy = "Res Buf"
	case res:
		shape = "res"
		resTy = "Res (Buf × " + resTy + ")"
	case b.option:
		shape = "option"
		resTy = "Option " + resTy
		text = retWrap(text, true)
	default:
		text = retWrap(text, false)
	}
	def := fmt.Sprintf("/-- %s.%s (%s shape) -/\n@[gen] def %s%s : %s :=\n%s\n", owner, obj.Name(), shape, strings.TrimPrefix(name, "Sig.Gen."), params, resTy, text)
	t.done[obj] = name
	t.shape[name] = shape
	t.readonly[name] = !bm.wrote
	t.text[name] = def
	t.order = append(t.order, name)
	return "", false
}

func isBufferPtr(x types.Type) bool {
	p, ok := x.(*types.Pointer)
	if !ok {
		return false
	}
	n, ok := p.Elem().(*types.Named)
	return ok && n.Obj().Name() == "Buffer"
}

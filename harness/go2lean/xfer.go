package main

// Transfer functions: top-level generic functions that move samples between one buffer and a caller's slice in a
// `for` loop - `Write(src []S, dst *Buffer[D]) int` and `Read(src *Buffer[S], dst []D) int`.
//
// Shape: `def Write (TS TD : Kind) (h : Heap) (b : Buf) (p_src : List Int) : Res (Buf × Int)` - the heap and the
// buffer's header are threaded as in the res shape of buffer methods; a caller's slice is a `List Int` of cells; the one
// that is written is threaded as well and returned (`Res (Buf × (List Int × Int))`).
//
// New forms (everything else is the res shape of bufmethods.go):
//
//	len(s), s[i]            on a caller's slice: `s.length`, `listGet` (index panic)
//	s[i] = v                on the written caller's slice: `listSet` (index panic)
//	D(x)                    between two element-type parameters: the model's cell conversion `cvt TS TD`
//	for i := 0; i < n; i++  `forRange n h b l (fun i h b l => body)`: n must be a local or a constant, the body must
//	                        not return and must not assign a variable declared outside the loop (so `n` is loop-invariant
//	                        and the loop's only state is heap, header and written slice)

import (
	"fmt"
	"go/ast"
	"go/token"
	"go/types"
	"strings"
)

func isSliceOfParam(x types.Type) bool {
	s, ok := x.(*types.Slice)
	if !ok {
		return false
	}
	_, ok = s.Elem().(*types.TypeParam)
	return ok
}

// listOf: the Lean list that currently holds the caller's slice `e`
func (b *body) listOf(e ast.Expr, en env) (string, bool) {
	if p, ok := e.(*ast.ParenExpr); ok {
		return b.listOf(p.X, en)
	}
	id, ok := e.(*ast.Ident)
	if !ok {
		return "", false
	}
	obj := b.t.info.Uses[id]
	if obj == nil {
		return "", false
	}
	if obj == b.bm.outSlice {
		return en.lv, true
	}
	if n, ok := b.bm.slices[obj]; ok {
		return n, true
	}
	return "", false
}

func (b *body) sliceExpr(e ast.Expr, en env, bs *binds) (string, ty, bool) {
	t := b.t
	switch x := e.(type) {
	case *ast.CallExpr:
		if id, ok := x.Fun.(*ast.Ident); ok && id.Name == "len" && len(x.Args) == 1 {
			if _, isB := t.info.Uses[id].(*types.Builtin); isB {
				if l, ok := b.listOf(x.Args[0], en); ok {
					return fmt.Sprintf("((%s).length : Int)", l), ty{cInt, "tI64", "i64:int"}, true
				}
			}
		}
	case *ast.IndexExpr:
		if l, ok := b.listOf(x.X, en); ok {
			i, _ := b.expr(x.Index, en, bs)
			n := en.fresh("s")
			*bs = append(*bs, fmt.Sprintf("(Res.ofOption %s Panic.index (listGet %s %s)).bind fun _ %s =>", en.hv, l, i, n))
			return n, t.tyOf(t.info.Types[x].Type), true
		}
	}
	return "", ty{}, false
}

func (b *body) xferStmt(s ast.Stmt, tail []ast.Stmt, rest [][]ast.Stmt, en env, ind string) (string, bool) {
	t := b.t
	pre := func(bs binds) string {
		out := ""
		for _, x := range bs {
			out += ind + x + "\n"
		}
		return out
	}
	switch x := s.(type) {
	case *ast.ReturnStmt:
		if b.bm.inFor > 0 {
			fail("return inside a loop body")
		}
		if len(x.Results) != 1 {
			fail("return of %d values", len(x.Results))
		}
		if b.bm.outSlice == nil {
			return "", false
		}
		var bs binds
		v, _ := b.expr(x.Results[0], en, &bs)
		return pre(bs) + ind + fmt.Sprintf("Res.ok %s (%s, (%s, %s))", en.hv, en.bv, en.lv, v), true
	case *ast.AssignStmt:
		if len(x.Lhs) != 1 || x.Tok != token.ASSIGN {
			return "", false
		}
		ix, ok := x.Lhs[0].(*ast.IndexExpr)
		if !ok {
			return "", false
		}
		id, ok := ix.X.(*ast.Ident)
		if !ok || b.bm.outSlice == nil || t.info.Uses[id] != b.bm.outSlice {
			return "", false
		}
		// Go evaluates the index and the right-hand side, then performs the (checked) store
		var bs binds
		i, _ := b.expr(ix.Index, en, &bs)
		v, _ := b.expr(x.Rhs[0], en, &bs)
		l2 := en.fresh("l")
		out := pre(bs) + ind + fmt.Sprintf("(Res.ofOption %s Panic.index (listSet %s %s %s)).bind fun _ %s =>\n", en.hv, en.lv, i, v, l2)
		en.lv = l2
		return out + b.stmts(tail, rest, en, ind), true
	case *ast.ForStmt:
		init, ok := x.Init.(*ast.AssignStmt)
		if !ok || init.Tok != token.DEFINE || len(init.Lhs) != 1 || len(init.Rhs) != 1 {
			fail("loop initialisation is not `i := 0`")
		}
		iv := t.info.Defs[init.Lhs[0].(*ast.Ident)]
		if tv := t.info.Types[init.Rhs[0]]; tv.Value == nil || tv.Value.ExactString() != "0" {
			fail("loop does not start at 0")
		}
		cond, ok := x.Cond.(*ast.BinaryExpr)
		if !ok || cond.Op != token.LSS {
			fail("loop condition is not `i < n`")
		}
		if l, ok := cond.X.(*ast.Ident); !ok || t.info.Uses[l] != iv {
			fail("loop condition is not on the loop variable")
		}
		// the bound: a local (never assigned in the body, see `outer`) or a constant
		if _, isId := cond.Y.(*ast.Ident); !isId {
			if tv := t.info.Types[cond.Y]; tv.Value == nil {
				fail("loop bound is neither a local nor a constant")
			}
		}
		var bs binds
		bound, bt := b.expr(cond.Y, en, &bs)
		if bt.c != cInt || len(bs) != 0 {
			fail("loop bound is not a plain integer")
		}
		post, ok := x.Post.(*ast.IncDecStmt)
		if !ok || post.Tok != token.INC {
			fail("loop step is not i++")
		}
		if id, ok := post.X.(*ast.Ident); !ok || t.info.Uses[id] != iv {
			fail("loop step is not on the loop variable")
		}
		// body: fresh names for the loop state
		in := en.clone()
		vi, vh, vb, vl := en.fresh("i"), en.fresh("h"), en.fresh("b"), en.fresh("l")
		in.vars[iv] = vi
		in.hv, in.bv, in.lv = vh, vb, vl
		savedOuter := b.bm.outer
		outer := map[types.Object]bool{iv: true}
		for o := range en.vars {
			outer[o] = true
		}
		for o := range savedOuter {
			outer[o] = true
		}
		b.bm.outer = outer
		b.bm.inFor++
		bodyText := b.stmts(x.Body.List, nil, in, ind+"    ")
		b.bm.inFor--
		b.bm.outer = savedOuter
		h2, r := en.fresh("h"), en.fresh("r")
		lv := en.lv
		if lv == "" {
			lv = "([] : List Int)"
		}
		out := ind + fmt.Sprintf("(forRange %s %s %s %s (fun %s %s %s %s =>\n%s)).bind fun %s %s =>\n", bound, en.hv, en.bv, lv, vi, vh, vb, vl, bodyText, h2, r)
		en.hv, en.bv = h2, r+".1"
		if b.bm.outSlice != nil {
			en.lv = r + ".2"
		}
		b.bm.wrote = true
		return out + b.stmts(tail, rest, en, ind), true
	}
	return "", false
}

// xferFunc translates Write / Read; returns "" or the reason it cannot.
func (t *tr) xferFunc(d *ast.FuncDecl) (why string) {
	obj := t.info.Defs[d.Name]
	name := leanName(obj)
	defer func() {
		if r := recover(); r != nil {
			switch u := r.(type) {
			case unsupported:
				why = u.msg
			case needRes:
				why = "needs the res shape: " + u.why
			default:
				panic(r)
			}
			t.failed[obj] = why
		}
	}()
	sig := obj.Type().(*types.Signature)
	if sig.Recv() != nil || sig.Results().Len() != 1 {
		fail("not a function with one result")
	}
	if nr := sig.Results().At(0); nr.Name() != "" {
		fail("named result")
	}
	if rt := t.tyOf(sig.Results().At(0).Type()); rt.c != cInt {
		fail("result type %s", rt.key)
	}
	tp, ok := t.typeParams(sig)
	if !ok {
		fail("type parameters")
	}
	bm := &bufCtx{res: true, xfer: true, slices: map[types.Object]string{}}
	cnt := 0
	en := env{vars: map[types.Object]string{}, n: &cnt, hv: "h", bv: "b"}
	params := tp + " (h : Heap) (b : Buf)"
	var sliceParams []*types.Var
	for i := 0; i < sig.Params().Len(); i++ {
		v := sig.Params().At(i)
		switch {
		case isBufferPtr(v.Type()):
			if bm.bufObj != nil {
				fail("two buffer parameters")
			}
			bm.bufObj = v
		case isSliceOfParam(v.Type()):
			sliceParams = append(sliceParams, v)
			params += fmt.Sprintf(" (p_%s : List Int)", v.Name())
		default:
			pt := t.tyOf(v.Type())
			if pt.c != cInt {
				fail("parameter %s of type %s", v.Name(), pt.key)
			}
			params += fmt.Sprintf(" (p_%s : Int)", v.Name())
			en.vars[v] = "p_" + v.Name()
		}
	}
	if bm.bufObj == nil {
		fail("no buffer parameter")
	}
	// which caller's slice is written?  `s[i] = ..` anywhere in the body; any other use of a slice variable than
	// len(s), s[i] and s[i] = v is rejected by the expression translator (the identifier is not a translated local)
	written := map[types.Object]bool{}
	ast.Inspect(d.Body, func(n ast.Node) bool {
		if as, ok := n.(*ast.AssignStmt); ok {
			for _, l := range as.Lhs {
				if ix, ok := l.(*ast.IndexExpr); ok {
					if id, ok := ix.X.(*ast.Ident); ok {
						written[t.info.Uses[id]] = true
					}
				}
			}
		}
		return true
	})
	for _, v := range sliceParams {
		if written[v] {
			if bm.outSlice != nil {
				fail("two written slices")
			}
			bm.outSlice = v
			en.lv = "p_" + v.Name()
		} else {
			bm.slices[v] = "p_" + v.Name()
		}
	}
	b := &body{t: t, bm: bm}
	text := b.stmts(d.Body.List, nil, en, "  ")
	resTy := "Res (Buf × Int)"
	if bm.outSlice != nil {
		resTy = "Res (Buf × (List Int × Int))"
	}
	def := fmt.Sprintf("/-- func.%s (transfer shape) -/\n@[gen] def %s%s : %s :=\n%s\n", obj.Name(), strings.TrimPrefix(name, "Sig.Gen."), params, resTy, text)
	t.done[obj] = name
	t.shape[name] = "xfer"
	t.text[name] = def
	t.order = append(t.order, name)
	return ""
}

// xferConv translates one of the nine XAsY(src *Buffer[S], dst *Buffer[D]) int functions whole: the written buffer
// (the one `SetSample` is called on) is threaded as `b`, the other is a read-only header `p_<name>`; samples are used
// at their static class (`typed`: float cells are decoded / encoded with the bit patterns of their format), integer
// division by a non-constant raises Go's division-by-zero panic. Returns "" or the reason it cannot.
func (t *tr) xferConv(d *ast.FuncDecl) (why string) {
	obj := t.info.Defs[d.Name]
	name := leanName(obj) + "_fn"
	defer func() {
		if r := recover(); r != nil {
			switch u := r.(type) {
			case unsupported:
				why = u.msg
			case needRes:
				why = "needs the res shape: " + u.why
			default:
				panic(r)
			}
		}
	}()
	sig := obj.Type().(*types.Signature)
	tp, ok := t.typeParams(sig)
	if !ok {
		fail("type parameters")
	}
	if rt := t.tyOf(sig.Results().At(0).Type()); rt.c != cInt || sig.Results().At(0).Name() != "" {
		fail("result")
	}
	// the written buffer: the receiver of SetSample calls
	var written types.Object
	ast.Inspect(d.Body, func(n ast.Node) bool {
		if call, ok := n.(*ast.CallExpr); ok {
			if sel, ok := call.Fun.(*ast.SelectorExpr); ok && (sel.Sel.Name == "SetSample" || sel.Sel.Name == "AppendSample" || sel.Sel.Name == "Append") {
				if id, ok := sel.X.(*ast.Ident); ok {
					o := t.info.Uses[id]
					if written != nil && written != o {
						fail("two written buffers")
					}
					written = o
				}
			}
		}
		return true
	})
	bm := &bufCtx{res: true, xfer: true, typed: true, slices: map[types.Object]string{}, roBufs: map[types.Object]string{}}
	cnt := 0
	en := env{vars: map[types.Object]string{}, n: &cnt, hv: "h", bv: "b"}
	params := tp + " (h : Heap) (b : Buf)"
	for i := 0; i < sig.Params().Len(); i++ {
		v := sig.Params().At(i)
		if !isBufferPtr(v.Type()) {
			fail("parameter %s", v.Name())
		}
		if v == written || (written == nil && i == sig.Params().Len()-1) {
			bm.bufObj = v
			continue
		}
		bm.roBufs[v] = "p_" + v.Name()
		params += fmt.Sprintf(" (p_%s : Buf)", v.Name())
	}
	if bm.bufObj == nil {
		fail("no written buffer parameter")
	}
	b := &body{t: t, bm: bm}
	text := b.stmts(d.Body.List, nil, en, "  ")
	def := fmt.Sprintf("/-- func.%s, whole (transfer shape; `b` is %s) -/\n@[gen] def %s%s : Res (Buf × Int) :=\n%s\n", obj.Name(), bm.bufObj.Name(), strings.TrimPrefix(name, "Sig.Gen."), params, text)
	t.shape[name] = "convfn"
	t.text[name] = def
	t.order = append(t.order, name)
	return ""
}

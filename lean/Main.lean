import SignalModel.Driver
open Sig.Driver

partial def loop (h : IO.FS.Stream) (s : DState) : IO DState := do
  let line ← h.getLine
  if line.isEmpty then return s
  let s := stepLine s (line.trimAsciiEnd.toString)
  loop h s

def main : IO UInt32 := do
  let stdin ← IO.getStdin
  let s ← loop stdin {}
  let s := finalizePending s
  for m in s.msgs do IO.println m
  IO.println (summary s)
  return 0

import SignalModel.Basic
/-!
# Heap of blocks and Go slice headers (core Lean only)

A heap is a list of blocks (backing arrays); a Go slice is `(blk, off, len, cap)`: the window
`[off, off+len)` of block `blk` with spare capacity up to `off+cap`.
-/
namespace Sig

abbrev Heap := List (List Int)

/-- the reasons the library (or the Go runtime underneath it) panics -/
inductive Panic
  | diffChannels | diffCapacity | index | sliceBounds | divZero | other
deriving DecidableEq, Repr, Inhabited

def Panic.toString : Panic → String
  | .diffChannels => "diffChannels" | .diffCapacity => "diffCapacity" | .index => "index"
  | .sliceBounds => "sliceBounds" | .divZero => "divZero" | .other => "other"

def cell (h : Heap) (b i : Nat) : Option Int := (h[b]?).bind (·[i]?)

def store (h : Heap) (b i : Nat) (x : Int) : Heap :=
  match h[b]? with
  | some blk => h.set b (blk.set i x)
  | none => h

/-- Go's 64-bit `int` arithmetic -/
def wrapI (x : Int) : Int := -9223372036854775808 + (9223372036854775808 + x) % 18446744073709551616
-- (the literals are written on the left on purpose: with a literal as the *second* argument of `+`,
--  Lean's definitional unfolding recurses on the literal and equation lemmas of the recursive
--  functions that mention `wrapI` cannot be generated)

theorem wrapI_eq_wrapS (x : Int) : wrapI x = wrapS 64 x := by
  unfold wrapI wrapS
  have e1 : (2:Int)^(64-1) = 9223372036854775808 := by decide
  have e2 : (2:Int)^64 = 18446744073709551616 := by decide
  rw [e1, e2, Int.add_comm x]
  omega

end Sig

import SignalModel.Alloc
/-!
# Executable statements of the buffer / view / pool properties over *observations*

An observation of a view (`ObsView`) is what the harness prints after every operation: the shape,
the storage identity (block number, offset) and the samples over the whole capacity.
`check op pre post seen` evaluates, for one operation, the clauses of the properties that speak about
that operation, on the observations before and after it.  The heart is `frameOK`: *exactly* the listed
storage cells changed, to the listed values, and every view whose window covers such a cell – and no
other – shows the change (C12's visibility clause); every header other than the one the operation is
allowed to modify is unchanged.

The same function is applied to observations of the model's own states in `SignalProofs`, where it is
proved to return no failures.
-/
namespace Sig

structure ObsView where
  ch : Nat
  blk : Int
  off : Nat
  len : Nat
  cap : Nat
  length : Nat
  capacity : Nat
  depth : Nat
  cells : List Int
deriving BEq, Repr, Inhabited, DecidableEq

namespace SpecMem

inductive OpObs
  | alloc (vid : Int) (k : Kind) (named : Bool) (ch len cap : Int) (outcome : String)
  | slice (vid src : Int) (s e : Int) (outcome : String)
  | appendSample (vid v : Int) (outcome : String)
  | set (vid i v : Int) (outcome : String)
  | get (vid i : Int) (r : Option Int)
  | append (dst src : Int) (outcome : String)
  | chanIndex (vid c i r : Int)
  | chanGet (vid c i : Int) (r : Option Int)
  | chanSet (vid c i v : Int) (outcome : String)
  | chanShape (vid c a l k : Int)
  | write (vid : Int) (sk dk : Kind) (vals : List Int) (outcome : String) (ret : Int) (after : List Int)
  | read (vid : Int) (sk dk : Kind) (init : List Int) (outcome : String) (ret : Int) (after : List Int)
  | writeStriped (vid : Int) (sk dk : Kind) (cols : List (Option (List Int))) (outcome : String) (ret : Int)
      (after : List (Option (List Int)))
  | readStriped (vid : Int) (sk dk : Kind) (cols : List (Option (List Int))) (outcome : String) (ret : Int)
      (after : List (Option (List Int)))
  | conv (fn : String) (f : ConvFn) (sk dk : Kind) (src dst : Int) (outcome : String) (ret : Int)
  | poolGet (pid : Nat) (vid : Int) (isNew : Bool) (k : Kind) (ch len cap : Nat) (outstanding : List Nat) (outcome : String)
  | poolPut (pid : Nat) (vid : Int) (ch len cap : Nat) (outcome : String)
deriving Repr, Inhabited

abbrev Views := Array (Option ObsView)
abbrev Fail := String × String × String   -- property, clause, detail

def view (a : Views) (vid : Int) : Option ObsView :=
  if vid < 0 then none else (a[vid.toNat]?).join

/-- a storage write: block, absolute index in the block, new value -/
abbrev CellWrite := Int × Nat × Int

def ceilDiv (n ch : Nat) : Nat := if ch = 0 then 0 else (n + ch - 1) / ch

/-- what view `u` must show after the writes `W` (later writes win) -/
def expectedCells (u : ObsView) (W : List CellWrite) : List Int :=
  (List.range u.cap).map fun j =>
    match W.reverse.find? (fun w => w.1 == u.blk && w.2.1 == u.off + j) with
    | some w => w.2.2
    | none => u.cells.getD j 0

/-- shape consistency of one observed view: the derived quantities agree with the raw ones -/
def shapeOK (u : ObsView) : Bool :=
  u.len ≤ u.cap && u.cells.length == u.cap &&
  u.length == ceilDiv u.len u.ch && u.capacity == (if u.ch = 0 then 0 else u.cap / u.ch)

/-- Every view that existed before and was dumped after the operation has the expected header
(`hdr vid u`, by default unchanged) and shows exactly the writes `W`. Returns the offending view ids. -/
def frameBad (pre post : Views) (seen : Array Bool) (W : List CellWrite)
    (hdr : Nat → ObsView → ObsView := fun _ u => u) : List Nat :=
  (List.range pre.size).filter fun vid =>
    match (pre[vid]?).join, (post[vid]?).join, seen[vid]?.getD false with
    | some u, some u', true =>
      let e := hdr vid u
      !(u'.ch == e.ch && u'.blk == e.blk && u'.off == e.off && u'.len == e.len && u'.cap == e.cap
        && u'.depth == e.depth && shapeOK u' && u'.cells == expectedCells e W)
    | _, _, _ => false

def frameFails (props : List String) (clause : String) (pre post : Views) (seen : Array Bool)
    (W : List CellWrite) (hdr : Nat → ObsView → ObsView := fun _ u => u) (detail : String := "") : List Fail :=
  match frameBad pre post seen W hdr with
  | [] => []
  | bad => props.map fun p => (p, clause, s!"views={bad} {detail}")

def degenerate (u : ObsView) : Bool := u.ch == 0 || u.cap == 0 || u.len == 0

def tagDegenerate (u : ObsView) (props : List String) : List String :=
  if degenerate u then props ++ ["C20"] else props

/-- storage windows `[off, off+cap)` of two views overlap -/
def overlaps (a b : ObsView) : Bool :=
  a.cap > 0 && b.cap > 0 && a.blk == b.blk && a.off < b.off + b.cap && b.off < a.off + a.cap

/-- the storage of view `vid` is shared with another live view: that only comes about through `Slice`, whose property
(C02: "a write through either is seen through the other") then also speaks about stores through `vid` -/
def sharesStorage (a : Views) (vid : Int) (u : ObsView) : Bool :=
  (List.range a.size).any fun w =>
    (w : Int) != vid && (match view a w with | some o => overlaps u o | none => false)

def tagShared (a : Views) (vid : Int) (u : ObsView) (props : List String) : List String :=
  if sharesStorage a vid u && !props.contains "C02" then props ++ ["C02"] else props

def mk (props : List String) (clause detail : String) (ok : Bool) : List Fail :=
  if ok then [] else props.map fun p => (p, clause, detail)

/-- readable window of `s` overlaps the spare capacity of `d` -/
def srcOverlapsSpare (d s : ObsView) : Bool :=
  s.len > 0 && d.cap > d.len && d.blk == s.blk && s.off < d.off + d.cap && d.off + d.len < s.off + s.len

def colsVals (cols : List (Option (List Int))) : List (List Int) := cols.map (·.getD [])

/-- the properties say *that* an operation panics, not with which value: any panic counts -/
def isPanicOutcome (o : String) : Bool := o.startsWith "panic"

/-- the number of samples of channel `c` inside the buffer (the last frame may be filled partially):
the number of `i` with `ch·i + c < len` -/
def chanCount (u : ObsView) (c : Nat) : Nat :=
  if u.ch == 0 || c ≥ u.len then 0 else (u.len - c + u.ch - 1) / u.ch

def check (op : OpObs) (pre post : Views) (seen : Array Bool) : List Fail :=
  match op with
  | .alloc vid k named ch len cap outcome =>
    if ch < 0 ∨ len < 0 ∨ cap < 0 then [] else
    let fr := frameFails ["C13", "C12"] "others-unchanged" pre post seen []
    if len > cap ∧ ch > 0 then mk ["C13"] "alloc-len-gt-cap-panics" s!"ch={ch} len={len} cap={cap} outcome={outcome}" (outcome != "ok") ++ fr
    else
    match view post vid with
    | none => mk ["C13"] "alloc-result" s!"outcome={outcome}" false
    | some u =>
      let props := if ch == 0 ∨ cap == 0 then ["C13", "C20"] else ["C13"]
      let props := if ch == 0 then ["C20"] else props
      mk props "alloc-shape" s!"kind={k.toString} named={named} ch={ch} len={len} cap={cap} got=ch{u.ch}/len{u.len}/cap{u.cap}/L{u.length}/K{u.capacity}"
        (u.ch == ch.toNat && u.len == (ch * len).toNat && u.cap == (ch * cap).toNat &&
         (ch == 0 || (u.length == len.toNat && u.capacity == cap.toNat)) &&
         (ch != 0 || (u.length == 0 && u.capacity == 0)) && shapeOK u) ++
      mk props "alloc-depth" s!"kind={k.toString} named={named} depth={u.depth}" (u.depth == k.width) ++
      mk props "alloc-zero" s!"kind={k.toString} cells={u.cells}" (u.cells.all (· == 0)) ++
      mk props "alloc-fresh" s!"blk={u.blk}"
        (u.cap == 0 || (List.range pre.size).all fun w => match (pre[w]?).join with
          | some o => !(overlaps o u)
          | none => true) ++ fr
  | .slice vid src s e outcome =>
    match view pre src with
    | none => []
    | some p =>
      let fr := frameFails ["C02", "C12"] "parent-and-others-unchanged" pre post seen []
      if p.ch == 0 then
        -- zero-channel buffers: any range yields an empty inert view (C20)
        match view post vid with
        | some c => mk ["C20"] "slice-zero-channels" s!"s={s} e={e}" (c.len == 0 && c.length == 0 && c.capacity == 0 && c.ch == 0) ++ fr
        | none => mk ["C20"] "slice-zero-channels" s!"s={s} e={e} outcome={outcome}" false
      else
      let mustPanic := decide (s < 0 ∨ s > e ∨ e > p.capacity)
      -- slicing is also part of C12's histories: a view of a view behaves like a Go slice of a slice
      let props := tagDegenerate p ["C02", "C12"]
      if mustPanic then
        mk ["C02", "C12"] "slice-panics-iff" s!"s={s} e={e} capacity={p.capacity} ch={p.ch} outcome={outcome}" (outcome != "ok") ++ fr
      else
        match view post vid with
        | none => mk props "slice-panics-iff" s!"s={s} e={e} capacity={p.capacity} ch={p.ch} outcome={outcome}" false ++ fr
        | some c =>
          mk props "slice-shape" s!"s={s} e={e} child=ch{c.ch}/L{c.length}/K{c.capacity}/d{c.depth}"
            (c.ch == p.ch && c.depth == p.depth && (c.length : Int) == e - s && (c.capacity : Int) == p.capacity - s
              && (c.len : Int) == p.ch * (e - s) && (c.cap : Int) == p.cap - p.ch * s && shapeOK c) ++
          mk props "slice-storage-identity" s!"s={s} e={e} parent=blk{p.blk}/off{p.off} child=blk{c.blk}/off{c.off}"
            (c.cap == 0 || (c.blk == p.blk && (c.off : Int) == p.off + p.ch * s)) ++
          mk props "slice-cells" s!"s={s} e={e}" (c.cells == p.cells.drop (p.ch * s.toNat)) ++ fr
  | .appendSample vid v outcome =>
    match view pre vid with
    | none => []
    | some u =>
      let props := tagShared pre vid u (tagDegenerate u ["C04", "C12"])
      mk props "appendSample-no-panic" s!"outcome={outcome}" (outcome == "ok") ++
      (if u.len == u.cap then frameFails props "appendSample-full-noop" pre post seen []
       else frameFails props "appendSample-store" pre post seen [(u.blk, u.off + u.len, v)]
          (fun w o => if (w : Int) == vid then { o with len := o.len + 1, length := ceilDiv (o.len + 1) o.ch } else o)
          s!"pos={u.len} v={v}")
  | .set vid i v outcome =>
    match view pre vid with
    | none => []
    | some u =>
      if 0 ≤ i ∧ i < u.len then
        mk ["C12"] "set-ok" s!"i={i} outcome={outcome}" (outcome == "ok") ++
        frameFails (tagShared pre vid u ["C12"]) "set-visible-exactly" pre post seen [(u.blk, u.off + i.toNat, v)] (detail := s!"i={i} v={v}")
      else
        mk ["C12"] "set-index-panics" s!"i={i} len={u.len} outcome={outcome}" (isPanicOutcome outcome) ++
        frameFails ["C12"] "set-panic-unchanged" pre post seen []
  | .get vid i r =>
    match view pre vid with
    | none => []
    | some u =>
      if 0 ≤ i ∧ i < u.len then mk ["C12"] "get" s!"i={i} r={r}" (r == u.cells[i.toNat]?)
      else mk ["C12"] "get-index-panics" s!"i={i} len={u.len} r={r}" (r == none)
  | .append dst src outcome =>
    match view pre dst, view pre src with
    | some d, some s =>
      if d.ch != s.ch then
        mk ["C15", "C03"] "append-mismatch-panics" s!"ch={d.ch}/{s.ch} outcome={outcome}" (isPanicOutcome outcome) ++
        frameFails ["C15"] "append-mismatch-unchanged" pre post seen []
      else
        let n := s.len
        -- a source window overlapping the destination's spare capacity cannot stay unchanged (C03 presupposes
        -- it does); a plain Go `append(dst, src...)` is still defined there (it reads the source before
        -- writing), so C12 keeps the case, with the pre-state source samples as the expected values
        let overlap := dst != src && srcOverlapsSpare d s && d.len + n ≤ d.cap
        let props := if d.ch == 0 || (d.cap == 0 && s.len == 0) then ["C20"]
          else if overlap then ["C12"] else ["C03", "C12"]
        mk props "append-no-panic" s!"dst=len{d.len}/cap{d.cap} src=len{s.len} self={dst == src} outcome={outcome}" (outcome == "ok") ++
        (if outcome != "ok" then [] else
        if d.len + n ≤ d.cap then
          frameFails props "append-in-place" pre post seen
            ((List.range n).map fun i => (d.blk, d.off + d.len + i, s.cells.getD i 0))
            (fun w o => if (w : Int) == dst then { o with len := o.len + n, length := ceilDiv (o.len + n) o.ch } else o)
            s!"dst=len{d.len}/cap{d.cap} src=len{n} self={dst == src}"
        else
          match view post dst with
          | none => mk props "append-grow" "destination not dumped" false
          | some d' =>
            mk props "append-grow-shape" s!"len={d'.len} cap={d'.cap} ch={d'.ch} want-len={d.len + n}"
              (d'.ch == d.ch && d'.depth == d.depth && d'.len == d.len + n && d'.len ≤ d'.cap &&
               (d'.ch == 0 || d'.cap % d'.ch == 0) && shapeOK d') ++
            mk props "append-grow-contents" s!"cells={d'.cells}"
              (d'.cells.take d'.len == d.cells.take d.len ++ s.cells.take n && (d'.cells.drop d'.len).all (· == 0)) ++
            mk props "append-grow-fresh-storage" s!"blk={d'.blk}"
              ((List.range pre.size).all fun w => match (pre[w]?).join with
                | some o => !(overlaps o d')
                | none => true) ++
            frameFails props "append-grow-old-storage-untouched" pre post seen []
              (fun w o => if (w : Int) == dst then d' else o))
    | _, _ => []
  | .chanIndex vid c i r =>
    match view pre vid with
    | some u => mk ["C14"] "chan-index" s!"ch={u.ch} c={c} i={i} r={r}" (r == u.ch * i + c)
    | none => []
  | .chanGet vid c i r =>
    match view pre vid with
    | some u =>
      let pos := u.ch * i + c
      if 0 ≤ pos ∧ pos < u.len then mk ["C14", "C12"] "chan-sample" s!"ch={u.ch} c={c} i={i} r={r} want={u.cells[pos.toNat]?}" (r == u.cells[pos.toNat]?)
      else mk ["C14"] "chan-sample-index-panics" s!"ch={u.ch} c={c} i={i} r={r}" (r == none)
    | none => []
  | .chanSet vid c i v outcome =>
    match view pre vid with
    | some u =>
      let pos := u.ch * i + c
      if 0 ≤ pos ∧ pos < u.len then
        mk ["C14"] "chan-set-ok" s!"outcome={outcome}" (outcome == "ok") ++
        -- (a store through a channel view is a write: which views see it is also C12's clause)
        frameFails ["C14", "C12"] "chan-set-that-sample-only" pre post seen [(u.blk, u.off + pos.toNat, v)] (detail := s!"c={c} i={i} v={v}")
      else mk ["C14"] "chan-set-index-panics" s!"outcome={outcome}" (isPanicOutcome outcome) ++
        frameFails ["C14"] "chan-set-panic-unchanged" pre post seen []
    | none => []
  | .chanShape vid _ a l k =>
    match view pre vid with
    | some u => mk ["C14"] "chan-shape" s!"got={a}/{l}/{k} want=1/{u.length}/{u.capacity}" (a == 1 && l == u.length && k == u.capacity)
    | none => []
  | .write vid sk dk vals outcome ret after =>
    match view pre vid with
    | none => []
    | some u =>
      let props := tagDegenerate u ["C01", "C12"]
      let m := min u.len vals.length
      match (vals.take m).mapM (cvt sk dk) with
      | none => []
      | some cv =>
        mk props "write-no-panic" s!"outcome={outcome}" (outcome == "ok") ++
        mk props "write-count" s!"m={m} ch={u.ch} ret={ret}" (ret == ceilDiv m u.ch) ++
        mk props "write-caller-slice-unchanged" s!"before={vals} after={after}" (after == vals) ++
        frameFails props "write-exactly-prefix" pre post seen
          ((List.range m).map fun i => (u.blk, u.off + i, cv.getD i 0)) (detail := s!"m={m} {sk.toString}>{dk.toString}")
  | .read vid sk dk init outcome ret after =>
    match view pre vid with
    | none => []
    | some u =>
      let props := tagDegenerate u ["C01"]
      let m := min u.len init.length
      match (u.cells.take m).mapM (cvt sk dk) with
      | none => []
      | some cv =>
        mk props "read-no-panic" s!"outcome={outcome}" (outcome == "ok") ++
        mk props "read-count" s!"m={m} ch={u.ch} ret={ret}" (ret == ceilDiv m u.ch) ++
        mk props "read-prefix-and-rest" s!"want={cv ++ init.drop m} got={after}" (after == cv ++ init.drop m) ++
        frameFails props "read-buffer-unchanged" pre post seen []
  | .writeStriped vid sk dk cols outcome ret after =>
    match view pre vid with
    | none => []
    | some u =>
      if u.ch != cols.length then
        mk ["C15", "C01"] "striped-mismatch-panics" s!"ch={u.ch} slices={cols.length} outcome={outcome}" (isPanicOutcome outcome) ++
        mk ["C15"] "striped-mismatch-caller-unchanged" "" (after == cols) ++
        frameFails ["C15"] "striped-mismatch-unchanged" pre post seen []
      else
        let props := tagDegenerate u ["C01"]
        let cv := colsVals cols
        let longest := cv.foldl (fun m c => max m c.length) 0
        let written := min longest u.length
        -- only positions inside the buffer: a partly filled last frame is covered as far as it exists
        let W : List (Option CellWrite) := (List.range u.ch).flatMap fun c =>
          (List.range (min written (chanCount u c))).map fun i =>
            let col := cv.getD c []
            if i < col.length then (cvt sk dk (col.getD i 0)).map fun y => (u.blk, u.off + u.ch * i + c, y)
            else some (u.blk, u.off + u.ch * i + c, 0)
        match W.mapM id with
        | none => []
        | some W =>
          mk props "wstriped-no-panic" s!"outcome={outcome}" (outcome == "ok") ++
          mk props "wstriped-count" s!"written={written} ret={ret}" (ret == written) ++
          mk props "wstriped-caller-unchanged" "" (after == cols) ++
          frameFails props "wstriped-layout-zero-fill" pre post seen W (detail := s!"written={written}")
  | .readStriped vid sk dk cols outcome ret after =>
    match view pre vid with
    | none => []
    | some u =>
      if u.ch != cols.length then
        mk ["C15", "C01"] "striped-mismatch-panics" s!"ch={u.ch} slices={cols.length} outcome={outcome}" (isPanicOutcome outcome) ++
        mk ["C15"] "striped-mismatch-caller-unchanged" "" (after == cols) ++
        frameFails ["C15"] "striped-mismatch-unchanged" pre post seen []
      else
        let props := tagDegenerate u ["C01"]
        let cv := colsVals cols
        let rd := (List.range u.ch).foldl (fun m c => max m (min (cv.getD c []).length (chanCount u c))) 0
        let want : List (Option (List Int)) := (List.range u.ch).map fun c =>
          let col := cv.getD c []
          let m := min col.length (chanCount u c)
          ((List.range m).mapM fun i => (u.cells[u.ch * i + c]?).bind (cvt sk dk)).map (· ++ col.drop m)
        match want.mapM id with
        | none => []
        | some want =>
          mk props "rstriped-no-panic" s!"outcome={outcome}" (outcome == "ok") ++
          mk props "rstriped-count" s!"rd={rd} ret={ret}" (ret == rd) ++
          mk props "rstriped-layout" s!"want={want} got={colsVals after}" (colsVals after == want) ++
          frameFails props "rstriped-buffer-unchanged" pre post seen []
  | .conv fn f sk dk src dst outcome ret =>
    match view pre src, view pre dst with
    | some s, some d =>
      if s.ch != d.ch then
        mk ["C15", "C05"] "conv-mismatch-panics" s!"fn={fn} ch={s.ch}/{d.ch} outcome={outcome}" (isPanicOutcome outcome) ++
        frameFails ["C15"] "conv-mismatch-unchanged" pre post seen []
      else
        let props := if degenerate s || degenerate d then ["C05", "C20"] else ["C05"]
        let n := min s.len d.len
        mk props "conv-no-panic" s!"fn={fn} outcome={outcome}" (outcome == "ok") ++
        mk props "conv-count" s!"fn={fn} ret={ret} srcL={s.length} dstL={d.length} n={n}"
          (ret == (if n == 0 then 0 else min s.length d.length)) ++
        (if overlaps s d then [] else
          -- everything except dst[0..n) is unchanged; dst[0..n) is checked against the kernels elsewhere
          let bad := (List.range pre.size).filter fun vid =>
            match (pre[vid]?).join, (post[vid]?).join, seen[vid]?.getD false with
            | some u, some u', true =>
              !(u'.ch == u.ch && u'.blk == u.blk && u'.off == u.off && u'.len == u.len && u'.cap == u.cap && u'.depth == u.depth
                && (List.range u.cap).all fun j =>
                    (u.blk == d.blk && d.off ≤ u.off + j && u.off + j < d.off + n) || u'.cells[j]? == u.cells[j]?)
            | _, _, _ => false
          mk props "conv-touches-only-prefix" s!"fn={fn} views={bad} n={n}" bad.isEmpty ++
          (match view post dst with
           | none => []
           | some d' =>
             let badPos := (List.range n).filter fun i =>
               match kernel f sk s.depth dk d.depth (s.cells.getD i 0) with
               | some y => d'.cells[i]? != some y
               | none => false
             mk props "conv-pointwise" s!"fn={fn} {sk.toString}>{dk.toString} positions={badPos}" badPos.isEmpty))
    | _, _ => []
  | .poolGet _ vid _ k ch len cap outstanding outcome =>
    if ch * len > ch * cap then [] else
    match view post vid with
    | none => mk ["C10"] "get-no-panic" s!"outcome={outcome}" false
    | some u =>
      let props := if ch == 0 || cap == 0 then ["C10", "C20"] else ["C10"]
      mk props "get-shape" s!"want=ch{ch}/L{len}/K{cap} got=ch{u.ch}/len{u.len}/cap{u.cap}/L{u.length}/K{u.capacity}"
        (u.ch == ch && u.len == ch * len && u.cap == ch * cap && u.length == (if ch == 0 then 0 else len)
          && u.capacity == (if ch == 0 then 0 else cap) && shapeOK u) ++
      mk props "get-depth" s!"depth={u.depth} kind={k.toString}" (u.depth == k.width) ++
      mk props "get-zero" s!"cells={u.cells}" (u.cells.all (· == 0)) ++
      mk props "get-disjoint-from-outstanding" s!"outstanding={outstanding} blk={u.blk}"
        (outstanding.all fun o => match (post[o]?).join with
          | some w => (o : Int) == vid || !(overlaps w u)
          | none => true)
  | .poolPut _ vid ch _ cap outcome =>
    match view pre vid with
    | none => []
    | some u =>
      if u.cap != cap * ch then
        mk ["C15"] "put-mismatch-panics" s!"cap={u.cap} pool={cap * ch} outcome={outcome}" (isPanicOutcome outcome) ++
        frameFails ["C15"] "put-mismatch-unchanged" pre post seen []
      else mk (if ch == 0 || cap == 0 then ["C10", "C20"] else ["C10"]) "put-no-panic"
        s!"pool=ch{ch}/K{cap} buffer-cap={u.cap} outcome={outcome}" (outcome == "ok")

end SpecMem
end Sig

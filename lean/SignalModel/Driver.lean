import SignalModel.Spec
import SignalModel.SpecMem
import SignalModel.Cost
import SignalModel.PoolM
import Std.Data.HashSet
/-!
# Transcript replay: the correspondence check's model side

Reads the transcript written by `harness/corr` (one operation per line with the implementation's
observed outcome, followed by `v` lines dumping every live view), replays each operation on the model
and reports
* `DIVERGE …` when model and implementation disagree,
* `FAIL prop=… clause=…` when a property predicate of `Spec` is false *of the implementation's
  observation* (that is a concrete violating input, independent of the model).
-/
set_option linter.unusedVariables false
namespace Sig
namespace Driver

structure KCtx where
  fn : ConvFn
  fnName : String
  sk : Kind
  dk : Kind
deriving Inhabited

structure RtCtx where
  fn1 : ConvFn
  fn2 : ConvFn
  name1 : String
  name2 : String
  sk : Kind
  mid : Kind
deriving Inhabited

structure DState where
  prop : String := ""
  heap : Heap := []
  bufs : Array (Option Buf) := #[]
  pools : Array Pool := #[]
  dead : Bool := false
  nPanicKind : Nat := 0
  lineNo : Nat := 0
  caseNo : Nat := 0
  caseLabel : String := ""
  pre : Array (Option ObsView) := #[]
  post : Array (Option ObsView) := #[]
  seen : Array Bool := #[]
  implOut : Array (List Nat) := #[]
  ikind : Array (Option Kind) := #[]
  ipools : Array (Kind × Nat × Nat × Nat) := #[]
  pm : Option (PoolM.Par × PoolM.PSt) := none
  obsOff : Bool := false
  pending : Option SpecMem.OpObs := none
  pendingLine : Nat := 0
  kctx : Option KCtx := none
  kprev : Option (Int × Int) := none
  /-- the observations of the current kernel sequence, kept while it is short: the order clauses are
  evaluated on every pair of a short sequence, not only on neighbouring lines -/
  kall : Array (Int × Int) := #[]
  rtctx : Option RtCtx := none
  rtprev : Option (Int × Int) := none
  freq : Option FV := none
  fprev : Option (String × Int × Int) := none
  nOps : Nat := 0
  nViews : Nat := 0
  nKern : Nat := 0
  nDiv : Nat := 0
  nFail : Nat := 0
  nUnspec : Nat := 0
  nPred : Nat := 0
  nDeadSkipped : Nat := 0
  msgs : Array String := #[]
  nFailMsgs : Nat := 0
  failKeys : Std.HashSet String := {}
  nDivMsgs : Nat := 0

/-- messages are capped separately for divergences and predicate failures, so that a flood of one
kind cannot hide the other -/
def DState.say (s : DState) (m : String) : DState :=
  if m.startsWith "FAIL" then
    if s.nFailMsgs < 3000 then { s with msgs := s.msgs.push m, nFailMsgs := s.nFailMsgs + 1 } else s
  else
    if s.nDivMsgs < 300 then { s with msgs := s.msgs.push m, nDivMsgs := s.nDivMsgs + 1 } else s

def DState.diverge (s : DState) (what model impl : String) : DState :=
  ({ s with nDiv := s.nDiv + 1, dead := true }).say
    s!"DIVERGE line={s.lineNo} case={s.caseNo} what={what} model={model} impl={impl} label={s.caseLabel}"

/-- a predicate failure; identical (property, clause, detail) triples are reported once, so that a
frequently generated known finding cannot crowd out a different failure -/
def DState.fail (s : DState) (prop clause detail : String) : DState :=
  let key := prop ++ "|" ++ clause ++ "|" ++ detail
  if s.failKeys.contains key then { s with nFail := s.nFail + 1 }
  else
    ({ s with nFail := s.nFail + 1, failKeys := s.failKeys.insert key }).say
      s!"FAIL prop={prop} clause={clause} line={s.lineNo} case={s.caseNo} {detail}"

/-- stateless divergence (kernel lines): does not kill a case -/
def DState.divergeK (s : DState) (what model impl : String) : DState :=
  ({ s with nDiv := s.nDiv + 1 }).say
    s!"DIVERGE line={s.lineNo} what={what} model={model} impl={impl}"

def toks (line : String) : Array String :=
  ((line.splitOn " ").filter (· ≠ "")).toArray

def int! (t : String) : Int := t.toInt?.getD 0
def nat! (t : String) : Nat := (t.toInt?.getD 0).toNat

def panicOf (t : String) : Panic :=
  match t with
  | "diffChannels" => .diffChannels | "diffCapacity" => .diffCapacity | "index" => .index
  | "sliceBounds" => .sliceBounds | "divZero" => .divZero | _ => .other

/-- split tokens at "->" -/
def splitArrow (t : Array String) : Array String × Array String :=
  match t.findIdx? (· == "->") with
  | some i => (t.extract 0 i, t.extract (i+1) t.size)
  | none => (t, #[])

def getBuf (s : DState) (vid : Int) : Option Buf :=
  if vid < 0 then none else (s.bufs[vid.toNat]?).join

def obsOfModel (h : Heap) (b : Buf) : ObsView :=
  { ch := b.ch, blk := b.blk, off := b.off, len := b.len, cap := b.cap,
    length := b.length, capacity := b.capacity, depth := b.depth,
    cells := (List.range b.cap).map fun i => (cell h b.blk (b.off + i)).getD (-999999) }

def showObs (o : ObsView) : String :=
  s!"ch{o.ch}/blk{o.blk}/off{o.off}/len{o.len}/cap{o.cap}/L{o.length}/K{o.capacity}/d{o.depth}/{o.cells}"

def obsEq (m i : ObsView) : Bool :=
  m.ch == i.ch && m.len == i.len && m.cap == i.cap && m.length == i.length && m.capacity == i.capacity
    && m.depth == i.depth && m.cells == i.cells && (i.cap == 0 || (m.blk == i.blk && m.off == i.off))

/-- parse a run of `n` values starting at index `i`; returns the values and the next index -/
def takeVals (t : Array String) (i n : Nat) : List Int × Nat :=
  (((List.range n).map fun j => int! (t[i + j]?.getD "0")), i + n)

/-- parse `<ncols> {<len|-1> vals…}` starting at `i` -/
def takeCols (t : Array String) (i : Nat) : List (Option (List Int)) × Nat := Id.run do
  let n := nat! (t[i]?.getD "0")
  let mut j := i + 1
  let mut cols : Array (Option (List Int)) := #[]
  for _ in [0:n] do
    let l := int! (t[j]?.getD "0")
    if l < 0 then
      cols := cols.push none
      j := j + 1
    else
      let (vs, j') := takeVals t (j + 1) l.toNat
      cols := cols.push (some vs)
      j := j'
  return (cols.toList, j)

def colsPlain (cols : List (Option (List Int))) : List (List Int) := cols.map (·.getD [])

/-- evaluate the memory predicates for the operation that has just received all its dumps -/
def finalizePending (s : DState) : DState :=
  match s.pending with
  | none => s
  | some op =>
    let fails := SpecMem.check op s.pre s.post s.seen
    let s := { s with nPred := s.nPred + 1, pending := none }
    fails.foldl (fun s (f : String × String × String) =>
      ({ s with nFail := s.nFail + 1 }).say
        s!"FAIL prop={f.1} clause={f.2.1} line={s.pendingLine} case={s.caseNo} {f.2.2} label={s.caseLabel}") s

/-- start a new op: finalize the previous one, roll observations forward -/
def beginOp (s : DState) : DState :=
  let s := finalizePending s
  { s with pre := s.post, seen := Array.replicate s.post.size false, nOps := s.nOps + 1 }

def setPending (s : DState) (op : SpecMem.OpObs) : DState :=
  { s with pending := some op, pendingLine := s.lineNo }

def outcomeStr {α : Type} (r : Res α) : String :=
  match r with
  | .ok _ _ => "ok" | .panic _ p => "panic " ++ p.toString | .unspec => "unspec"

def implOutcome (rhs : Array String) : String :=
  if rhs[0]? == some "panic" then "panic " ++ rhs[1]?.getD "?" else "ok"

/-- common handling of an operation result against the implementation's outcome.
`k` installs the model's new state for an `ok` result. -/
def settle {α : Type} (s : DState) (what : String) (r : Res α) (rhs : Array String)
    (k : DState → Heap → α → DState) : DState :=
  match r with
  | .unspec => { s with nUnspec := s.nUnspec + 1, dead := true }
  | .panic h p =>
    -- any panic of the implementation matches a panic of the model: the properties do not fix the
    -- panic value (a reworded message is not a violation); a different kind is only counted
    if (implOutcome rhs).startsWith "panic" then
      { s with heap := h, nPanicKind := s.nPanicKind + (if implOutcome rhs == "panic " ++ p.toString then 0 else 1) }
    else s.diverge what ("panic " ++ p.toString) (implOutcome rhs)
  | .ok h v =>
    if implOutcome rhs == "ok" then k { s with heap := h } h v
    else s.diverge what "ok" (implOutcome rhs)

def cvtFor (sk dk : Kind) : Int → Option Int := cvt sk dk

def kernelOf (c : KCtx) (x : Int) : Option Int :=
  kernel c.fn c.sk c.sk.width c.dk c.dk.width x

def fvOfCell (k : Kind) (x : Int) : FV := cellToFV k x

/-- predicates on one kernel observation `(x ↦ y)` and on the pair with the previous one -/
def kernelPreds (s : DState) (c : KCtx) (x y : Int) : DState := Id.run do
  let mut s := s
  let detail := s!"entry={c.fnName} sk={c.sk.toString} dk={c.dk.toString} x={x} y={y}"
  let sb := c.sk.width; let db := c.dk.width
  let ss := c.sk.isSigned; let ds := c.dk.isSigned
  match c.fn with
  | .signedAsSigned | .signedAsUnsigned | .unsignedAsSigned | .unsignedAsUnsigned =>
    if !Spec.C06.refOK ss sb ds db x y then s := s.fail "C06" "reference" detail
    if !Spec.C07.neighbourOK ss sb ds db x y then s := s.fail "C07" "neighbour" detail
    if !Spec.C07.sameDepthOK ss sb ds db x y then s := s.fail "C07" "sameDepth" detail
    if !(Spec.loCode ds db ≤ y && y ≤ Spec.hiCode ds db) then s := s.fail "C06" "range" detail
    -- the order clause is checked in both directions (lines need not be sorted), against the previous
    -- line and against every line of a short sequence
    for (px, py) in ((if s.kall.size < 40 then s.kall.toList else []) ++ s.kprev.toList) do
      if !Spec.C06.orderOK px x py y || !Spec.C06.orderOK x px y py then
        s := s.fail "C06" "order" (detail ++ s!" px={px} py={py}")
  | .floatAsSigned | .floatAsUnsigned =>
    let f := fvOfCell c.sk x
    if f != .nan then
      if !Spec.C08.rangeOK ds db y then s := s.fail "C08" "range" detail
      if !Spec.C08.clipOK ds db f y then s := s.fail "C08" "clip" detail
      if !Spec.C08.zeroOK ds db f y then s := s.fail "C08" "zero" detail
      if !Spec.C08.oneStepOK ds db f y then s := s.fail "C08" "oneStep" detail
      for (px, py) in ((if s.kall.size < 40 then s.kall.toList else []) ++ s.kprev.toList) do
        if fvOfCell c.sk px != .nan then
          if !Spec.C08.monoOK (fvOfCell c.sk px) f py y || !Spec.C08.monoOK f (fvOfCell c.sk px) y py then
            s := s.fail "C08" "mono" (detail ++ s!" px={px} py={py}")
  | .signedAsFloat | .unsignedAsFloat =>
    let r := fvOfCell c.dk y
    if !Spec.C09.rangeOK r then s := s.fail "C09" "range" detail
    if !Spec.C09.endpointsOK ss sb x r then s := s.fail "C09" "endpoints" detail
    if !Spec.C09.oneStepOK c.dk.fmt ss sb x r then s := s.fail "C09" "oneStep" detail
    else if ss && !Spec.C09.oneStepRelOK c.dk.fmt ss sb x r then s := s.fail "C09" "oneStepRelative" detail
    for (px, py) in ((if s.kall.size < 40 then s.kall.toList else []) ++ s.kprev.toList) do
      let pr := fvOfCell c.dk py
      if !Spec.C09.monoOK px x pr r || !Spec.C09.monoOK x px r pr then
        s := s.fail "C09" "mono" (detail ++ s!" px={px} py={py}")
    if let some (px, py) := s.kprev then
      let pr := fvOfCell c.dk py
      if c.dk == .f64 && sb ≤ 32 then
        if !Spec.C09.injOK px x pr r then s := s.fail "C09" "inj" (detail ++ s!" px={px} py={py}")
  | .floatAsFloat =>
    let f := fvOfCell c.sk x
    let r := fvOfCell c.dk y
    if c.sk == .f64 && c.dk == .f32 then
      if !Spec.C05.nearestOK f r then s := s.fail "C05" "nearest" detail
    else
      if !Spec.C05.exactOK f r then s := s.fail "C05" "exact" detail
  return { s with nPred := s.nPred + 1 }

def fmtOpt (o : Option Int) : String := match o with | some v => toString v | none => "unspec"


def setAt {α : Type} (a : Array (Option α)) (i : Nat) (v : α) : Array (Option α) :=
  if i < a.size then a.set! i (some v) else (a ++ Array.replicate (i - a.size) none).push (some v)

def kindAt (s : DState) (vid : Int) : Option Kind :=
  if vid < 0 then none else (s.ikind[vid.toNat]?).join

/-- the implementation-side view of one operation line: records what the predicates of `SpecMem`
need (the operation, its arguments, the implementation's outcome); never looks at the model. -/
def observe (s : DState) (cmd : String) (t lhs rhs : Array String) : DState :=
  let oc := implOutcome rhs
  if cmd == "alloc" then
    match Kind.ofString? (lhs[2]?.getD "") with
    | none => s
    | some k =>
      let vid := int! (lhs[1]?.getD "0")
      let s := setPending s (.alloc vid k (lhs[3]? == some "1") (int! (lhs[4]?.getD "0")) (int! (lhs[5]?.getD "0")) (int! (lhs[6]?.getD "0")) oc)
      if oc == "ok" && vid ≥ 0 then { s with ikind := setAt s.ikind vid.toNat k } else s
  else if cmd == "zerobuf" then
    -- the zero value `signal.Buffer[T]{}`: no channels, no storage, bit depth 0 (no allocation property applies)
    match Kind.ofString? (lhs[2]?.getD "") with
    | none => s
    | some k =>
      let vid := int! (lhs[1]?.getD "0")
      if vid ≥ 0 then { s with ikind := setAt s.ikind vid.toNat k } else s
  else if cmd == "slice" then
    let vid := int! (lhs[1]?.getD "0"); let src := int! (lhs[2]?.getD "0")
    let s := setPending s (.slice vid src (int! (lhs[3]?.getD "0")) (int! (lhs[4]?.getD "0")) oc)
    match kindAt s src with
    | some k => if oc == "ok" && vid ≥ 0 then { s with ikind := setAt s.ikind vid.toNat k } else s
    | none => s
  else if cmd == "asample" then setPending s (.appendSample (int! (lhs[1]?.getD "0")) (int! (lhs[2]?.getD "0")) oc)
  else if cmd == "set" then setPending s (.set (int! (lhs[1]?.getD "0")) (int! (lhs[2]?.getD "0")) (int! (lhs[3]?.getD "0")) oc)
  else if cmd == "get" then
    setPending s (.get (int! (lhs[1]?.getD "0")) (int! (lhs[2]?.getD "0")) (if rhs[0]? == some "val" then some (int! (rhs[1]?.getD "0")) else none))
  else if cmd == "append" then setPending s (.append (int! (lhs[1]?.getD "0")) (int! (lhs[2]?.getD "0")) oc)
  else if cmd == "cidx" then
    if rhs[0]? == some "val" then
      setPending s (.chanIndex (int! (lhs[1]?.getD "0")) (int! (lhs[2]?.getD "0")) (int! (lhs[3]?.getD "0")) (int! (rhs[1]?.getD "0")))
    else s
  else if cmd == "cget" then
    setPending s (.chanGet (int! (lhs[1]?.getD "0")) (int! (lhs[2]?.getD "0")) (int! (lhs[3]?.getD "0"))
      (if rhs[0]? == some "val" then some (int! (rhs[1]?.getD "0")) else none))
  else if cmd == "cset" then
    setPending s (.chanSet (int! (lhs[1]?.getD "0")) (int! (lhs[2]?.getD "0")) (int! (lhs[3]?.getD "0")) (int! (lhs[4]?.getD "0")) oc)
  else if cmd == "cshape" then
    setPending s (.chanShape (int! (lhs[1]?.getD "0")) (int! (lhs[2]?.getD "0")) (int! (rhs[1]?.getD "0")) (int! (rhs[2]?.getD "0")) (int! (rhs[3]?.getD "0")))
  else if cmd == "write" || cmd == "read" then
    let vid := int! (lhs[1]?.getD "0")
    match kindAt s vid, Kind.ofString? (lhs[2]?.getD "") with
    | some bk, some ok =>
      let n := nat! (lhs[3]?.getD "0")
      let (vals, _) := takeVals lhs 4 n
      let ret := int! (rhs[1]?.getD "0")
      let after := (takeVals rhs 3 (nat! (rhs[2]?.getD "0"))).1
      if cmd == "write" then setPending s (.write vid ok bk vals oc ret after)
      else setPending s (.read vid bk ok vals oc ret after)
    | _, _ => s
  else if cmd == "wstriped" || cmd == "rstriped" then
    let vid := int! (lhs[1]?.getD "0")
    match kindAt s vid, Kind.ofString? (lhs[2]?.getD "") with
    | some bk, some ok =>
      let (cols, _) := takeCols lhs 3
      let isPanic := rhs[0]? == some "panic"
      let ret := if isPanic then 0 else int! (rhs[1]?.getD "0")
      let (after, _) := takeCols rhs 2
      if cmd == "wstriped" then setPending s (.writeStriped vid ok bk cols oc ret after)
      else setPending s (.readStriped vid bk ok cols oc ret after)
    | _, _ => s
  else if cmd == "conv" then
    let sr := int! (lhs[2]?.getD "0"); let d := int! (lhs[3]?.getD "0")
    match ConvFn.ofString? (lhs[1]?.getD ""), kindAt s sr, kindAt s d with
    | some f, some sk, some dk =>
      let ret := if rhs[0]? == some "panic" then 0 else int! (rhs[1]?.getD "0")
      setPending s (.conv (lhs[1]?.getD "") f sk dk sr d oc ret)
    | _, _, _ => s
  else if cmd == "pool" then
    match Kind.ofString? (t[2]?.getD "") with
    | some k => { s with implOut := s.implOut.push [],
                         ipools := s.ipools.push (k, nat! (t[3]?.getD "0"), nat! (t[4]?.getD "0"), nat! (t[5]?.getD "0")) }
    | none => s
  else if cmd == "pget" then
    let pid := nat! (lhs[1]?.getD "0"); let vid := int! (lhs[2]?.getD "0"); let mode := lhs[3]?.getD ""
    match s.ipools[pid]? with
    | none => s
    | some (k, ch, len, cap) =>
      let s := setPending s (.poolGet pid vid (mode == "new") k ch len cap (s.implOut[pid]?.getD []) oc)
      if oc == "ok" && vid ≥ 0 then
        { s with implOut := s.implOut.set! pid (vid.toNat :: (s.implOut[pid]?.getD [])),
                 ikind := setAt s.ikind vid.toNat k } else s
  else if cmd == "pput" then
    let pid := nat! (lhs[1]?.getD "0"); let vid := int! (lhs[2]?.getD "0")
    match s.ipools[pid]? with
    | none => s
    | some (_, ch, len, cap) =>
      let s := setPending s (.poolPut pid vid ch len cap oc)
      if oc == "ok" then
        -- the header put back, or (for a slice from frame 0) the outstanding header sharing its storage origin
        let outs := s.implOut[pid]?.getD []
        let outs' := if outs.contains vid.toNat then outs.erase vid.toNat else
          match SpecMem.view s.post vid with
          | some pv => match outs.find? (fun (o : Nat) => match SpecMem.view s.post (o : Int) with
              | some w => w.blk == pv.blk && w.off == pv.off && w.cap > 0 | none => false) with
            | some o => outs.erase o
            | none => outs
          | none => outs
        { s with implOut := s.implOut.set! pid outs' } else s
  else s

/-- a `v` line: record the implementation's observation; compare with the model unless the case is dead -/
def stepView (s : DState) (t : Array String) : DState :=
  let vid := int! (t[1]?.getD "0")
  let io : ObsView :=
    { ch := nat! (t[2]?.getD "0"), blk := int! (t[3]?.getD "0"), off := nat! (t[4]?.getD "0"),
      len := nat! (t[5]?.getD "0"), cap := nat! (t[6]?.getD "0"), length := nat! (t[7]?.getD "0"),
      capacity := nat! (t[8]?.getD "0"), depth := nat! (t[9]?.getD "0"),
      cells := (t.extract 10 t.size).toList.map int! }
  if vid < 0 then s else
  let post := setAt s.post vid.toNat io
  let seen := if vid.toNat < s.seen.size then s.seen.set! vid.toNat true
    else (s.seen ++ (Array.replicate (vid.toNat - s.seen.size) false)).push true
  let s := { s with post := post, seen := seen, nViews := s.nViews + 1 }
  if s.dead then { s with nDeadSkipped := s.nDeadSkipped + 1 } else
  match getBuf s vid with
  | none => s.diverge s!"view {vid}" "no such view" (showObs io)
  | some b =>
    let mo := obsOfModel s.heap b
    if obsEq mo io then s else s.diverge s!"view {vid}" (showObs mo) (showObs io)

/-- replay one operation line on the model and compare outcomes -/
def modelStep (s : DState) (cmd : String) (t lhs rhs : Array String) (line : String) : DState :=
    if cmd == "alloc" then
      match Kind.ofString? (lhs[2]?.getD "") with
      | none => s.diverge "alloc-parse" "-" line
      | some k =>
        let named := lhs[3]? == some "1"
        let ch := int! (lhs[4]?.getD "0"); let len := int! (lhs[5]?.getD "0"); let cap := int! (lhs[6]?.getD "0")
        if ch < 0 ∨ len < 0 ∨ cap < 0 then { s with dead := true, nUnspec := s.nUnspec + 1 } else
        match alloc s.heap k named ch.toNat len.toNat cap.toNat with
        | none => if implOutcome rhs != "ok" then s else s.diverge "alloc" "panic" "ok"
        | some (h, b) =>
          if implOutcome rhs == "ok" then
            if int! (lhs[1]?.getD "0") == s.bufs.size then { s with heap := h, bufs := s.bufs.push (some b) }
            else s.diverge "alloc-vid" (toString s.bufs.size) (lhs[1]?.getD "")
          else s.diverge "alloc" "ok" (implOutcome rhs)
    else if cmd == "zerobuf" then
      match Kind.ofString? (lhs[2]?.getD "") with
      | none => s.diverge "zerobuf-parse" "-" line
      | some k =>
        match alloc s.heap k false 0 0 0 with
        | none => s.diverge "zerobuf" "-" line
        | some (h, b) =>
          if int! (lhs[1]?.getD "0") == s.bufs.size then { s with heap := h, bufs := s.bufs.push (some { b with depth := 0 }) }
          else s.diverge "zerobuf-vid" (toString s.bufs.size) (lhs[1]?.getD "")
    else if cmd == "slice" then
      let src := int! (lhs[2]?.getD "0"); let a := int! (lhs[3]?.getD "0"); let e := int! (lhs[4]?.getD "0")
      match getBuf s src with
      | none => s.diverge "slice-src" "no such view" line
      | some b =>
        match b.slice a e with
        | none => if (implOutcome rhs).startsWith "panic" then s else s.diverge s!"slice {src} {a} {e}" "panic sliceBounds" (implOutcome rhs)
        | some c =>
          if implOutcome rhs == "ok" then { s with bufs := s.bufs.push (some c) }
          else s.diverge s!"slice {src} {a} {e}" "ok" (implOutcome rhs)
    else if cmd == "asample" then
      let vid := int! (lhs[1]?.getD "0"); let v := int! (lhs[2]?.getD "0")
      match getBuf s vid with
      | none => s.diverge "asample" "no such view" line
      | some b =>
        let (h, b') := b.appendSample s.heap v
        if implOutcome rhs == "ok" then { s with heap := h, bufs := s.bufs.set! vid.toNat (some b') }
        else s.diverge "asample" "ok" (implOutcome rhs)
    else if cmd == "gc" then s  -- a garbage collection changes nothing the model can see
    else if cmd == "set" then
      let vid := int! (lhs[1]?.getD "0"); let i := int! (lhs[2]?.getD "0"); let v := int! (lhs[3]?.getD "0")
      match getBuf s vid with
      | none => s.diverge "set" "no such view" line
      | some b =>
        match b.setSample s.heap i v with
        | none => if (implOutcome rhs).startsWith "panic" then s else s.diverge "set" "panic index" (implOutcome rhs)
        | some h => if implOutcome rhs == "ok" then { s with heap := h } else s.diverge "set" "ok" (implOutcome rhs)
    else if cmd == "get" then
      let vid := int! (lhs[1]?.getD "0"); let i := int! (lhs[2]?.getD "0")
      match getBuf s vid with
      | none => s.diverge "get" "no such view" line
      | some b =>
        match b.sample s.heap i with
        | none => if (implOutcome rhs).startsWith "panic" then s else s.diverge "get" "panic index" (" ".intercalate rhs.toList)
        | some v =>
          if rhs[0]? == some "val" && int! (rhs[1]?.getD "0") == v then s
          else s.diverge s!"get {vid} {i}" (toString v) (" ".intercalate rhs.toList)
    else if cmd == "append" then
      let d := int! (lhs[1]?.getD "0"); let sr := int! (lhs[2]?.getD "0"); let g := nat! (lhs[3]?.getD "0")
      match getBuf s d, getBuf s sr with
      | some db, some sb =>
        let grows := decide (db.cap < db.len + sb.len)
        if db.ch == sb.ch && grows && !growOK db sb g then
          -- the observed capacity after growing is not admissible (below the new length, or not a whole
          -- number of frames) - this is also what a panic inside the growing `Append` leaves behind
          s.diverge s!"append-growcap {d} {sr}" s!"{implOutcome rhs}: admissible cap >= {db.len + sb.len} multiple of {db.ch}" (toString g)
        else
          settle s s!"append {d} {sr}" (db.append s.heap sb (d == sr) g) rhs fun s _ b' =>
            { s with bufs := s.bufs.set! d.toNat (some b') }
      | _, _ => s.diverge "append" "no such view" line
    else if cmd == "cidx" then
      let vid := int! (lhs[1]?.getD "0"); let c := int! (lhs[2]?.getD "0"); let i := int! (lhs[3]?.getD "0")
      match getBuf s vid with
      | none => s.diverge "cidx" "no such view" line
      | some b =>
        let r := int! (rhs[1]?.getD "0")
        if chanIndex b c i == r then s else s.diverge s!"cidx {vid} {c} {i}" (toString (chanIndex b c i)) (toString r)
    else if cmd == "cget" then
      let vid := int! (lhs[1]?.getD "0"); let c := int! (lhs[2]?.getD "0"); let i := int! (lhs[3]?.getD "0")
      match getBuf s vid with
      | none => s.diverge "cget" "no such view" line
      | some b =>
        match chanSample s.heap b c i with
        | none => if (implOutcome rhs).startsWith "panic" then s else s.diverge s!"cget {vid} {c} {i}" "panic index" (" ".intercalate rhs.toList)
        | some v =>
          if rhs[0]? == some "val" && int! (rhs[1]?.getD "0") == v then s
          else s.diverge s!"cget {vid} {c} {i}" (toString v) (" ".intercalate rhs.toList)
    else if cmd == "cset" then
      let vid := int! (lhs[1]?.getD "0"); let c := int! (lhs[2]?.getD "0"); let i := int! (lhs[3]?.getD "0")
      let v := int! (lhs[4]?.getD "0")
      match getBuf s vid with
      | none => s.diverge "cset" "no such view" line
      | some b =>
        match chanSetSample s.heap b c i v with
        | none => if (implOutcome rhs).startsWith "panic" then s else s.diverge "cset" "panic index" (implOutcome rhs)
        | some h => if implOutcome rhs == "ok" then { s with heap := h } else s.diverge "cset" "ok" (implOutcome rhs)
    else if cmd == "cshape" then
      let vid := int! (lhs[1]?.getD "0"); let c := int! (lhs[2]?.getD "0")
      match getBuf s vid with
      | none => s.diverge "cshape" "no such view" line
      | some b =>
        let a := int! (rhs[1]?.getD "0"); let l := int! (rhs[2]?.getD "0"); let k := int! (rhs[3]?.getD "0")
        if a == chanChannels b && l == chanLength b && k == chanCapacity b then s
        else s.diverge s!"cshape {vid}" s!"1 {b.length} {b.capacity}" s!"{a} {l} {k}"
    else if cmd == "write" then
      let vid := int! (lhs[1]?.getD "0")
      match getBuf s vid, Kind.ofString? (lhs[2]?.getD "") with
      | some b, some sk =>
        let n := nat! (lhs[3]?.getD "0")
        let (vals, _) := takeVals lhs 4 n
        let ret := int! (rhs[1]?.getD "0")
        let after := (takeVals rhs 3 (nat! (rhs[2]?.getD "0"))).1
        settle s s!"write {vid}" (write (cvtFor sk b.kind) s.heap vals b) rhs fun s _ r =>
          if (r : Int) == ret then s else s.diverge s!"write-ret {vid}" (toString r) (toString ret)
      | _, _ => s.diverge "write" "no such view/kind" line
    else if cmd == "read" then
      let vid := int! (lhs[1]?.getD "0")
      match getBuf s vid, Kind.ofString? (lhs[2]?.getD "") with
      | some b, some dk =>
        let n := nat! (lhs[3]?.getD "0")
        let (init, _) := takeVals lhs 4 n
        let ret := int! (rhs[1]?.getD "0")
        let after := (takeVals rhs 3 (nat! (rhs[2]?.getD "0"))).1
        settle s s!"read {vid}" (read (cvtFor b.kind dk) s.heap b init) rhs fun s _ r =>
          if (r.2 : Int) == ret && r.1 == after then s
          else s.diverge s!"read {vid}" s!"{r.2} {r.1}" s!"{ret} {after}"
      | _, _ => s.diverge "read" "no such view/kind" line
    else if cmd == "wstriped" then
      let vid := int! (lhs[1]?.getD "0")
      match getBuf s vid, Kind.ofString? (lhs[2]?.getD "") with
      | some b, some sk =>
        let (cols, _) := takeCols lhs 3
        let isPanic := rhs[0]? == some "panic"
        let ret := if isPanic then 0 else int! (rhs[1]?.getD "0")
        let (after, _) := takeCols rhs 2
        settle s s!"wstriped {vid}" (writeStriped (cvtFor sk b.kind) s.heap (colsPlain cols) b) rhs fun s _ r =>
          if (r : Int) == ret then s else s.diverge s!"wstriped-ret {vid}" (toString r) (toString ret)
      | _, _ => s.diverge "wstriped" "no such view/kind" line
    else if cmd == "rstriped" then
      let vid := int! (lhs[1]?.getD "0")
      match getBuf s vid, Kind.ofString? (lhs[2]?.getD "") with
      | some b, some dk =>
        let (cols, _) := takeCols lhs 3
        let isPanic := rhs[0]? == some "panic"
        let ret := if isPanic then 0 else int! (rhs[1]?.getD "0")
        let (after, _) := takeCols rhs 2
        settle s s!"rstriped {vid}" (readStriped (cvtFor b.kind dk) s.heap b (colsPlain cols)) rhs fun s _ r =>
          if (r.2 : Int) == ret && r.1 == colsPlain after then s
          else s.diverge s!"rstriped {vid}" s!"{r.2} {r.1}" s!"{ret} {colsPlain after}"
      | _, _ => s.diverge "rstriped" "no such view/kind" line
    else if cmd == "conv" then
      let sr := int! (lhs[2]?.getD "0"); let d := int! (lhs[3]?.getD "0")
      match ConvFn.ofString? (lhs[1]?.getD ""), getBuf s sr, getBuf s d with
      | some f, some sb, some db =>
        let isPanic := rhs[0]? == some "panic"
        let ret := if isPanic then 0 else int! (rhs[1]?.getD "0")
        if !f.admits sb.kind db.kind then s.diverge "conv-kinds" "inadmissible" line else
        settle s s!"conv {lhs[1]?.getD ""} {sr} {d}" (convertFn f s.heap sb db) rhs fun s _ r =>
          if (r : Int) == ret then s else s.diverge s!"conv-ret" (toString r) (toString ret)
      | _, _, _ => s.diverge "conv" "no such view/fn" line
    else if cmd == "pool" then
      match Kind.ofString? (t[2]?.getD "") with
      | some k =>
        let p : Pool := { kind := k, ch := nat! (t[3]?.getD "0"), len := nat! (t[4]?.getD "0"), cap := nat! (t[5]?.getD "0"), free := [] }
        { s with pools := s.pools.push p }
      | none => s.diverge "pool-parse" "-" line
    else if cmd == "pget" then
      let pid := nat! (lhs[1]?.getD "0"); let vid := int! (lhs[2]?.getD "0"); let mode := lhs[3]?.getD ""
      match s.pools[pid]? with
      | none => s.diverge "pget" "no such pool" line
      | some p =>
        if implOutcome rhs != "ok" then
          -- Get panics only when make() does (length > capacity)
          if p.ch * p.len ≤ p.ch * p.cap then s.diverge "pget" "ok" (implOutcome rhs) else s
        else if mode == "new" then
          match alloc s.heap p.kind false p.ch p.len p.cap with
          | none => s.diverge "pget-new" "panic" "ok"
          | some (h, b) =>
            if vid == s.bufs.size then { s with heap := h, bufs := s.bufs.push (some b) }
            else s.diverge "pget-vid" (toString s.bufs.size) (toString vid)
        else
          if p.free.contains vid.toNat then
            { s with pools := s.pools.set! pid { p with free := p.free.erase vid.toNat } }
          else s.diverge "pget-reuse" s!"a buffer inside the pool {p.free}" (toString vid)
    else if cmd == "pput" then
      let pid := nat! (lhs[1]?.getD "0"); let vid := int! (lhs[2]?.getD "0")
      match s.pools[pid]?, getBuf s vid with
      | some p, some b =>
        settle s s!"pput {pid} {vid}" (p.put s.heap b) rhs fun s _ b' =>
          { s with bufs := s.bufs.set! vid.toNat (some b'),
                   pools := s.pools.set! pid { p with free := vid.toNat :: p.free } }
      | _, _ => s.diverge "pput" "no such pool/view" line
    else s.diverge "unknown-op" "-" line


def stepLine (s : DState) (line : String) : DState :=
  let s := { s with lineNo := s.lineNo + 1 }
  let t := toks line
  if t.size == 0 then s else
  let cmd := t[0]!
  if cmd == "transcript" then { s with prop := t[1]?.getD "" }
  else if cmd == "case" then
    let s := finalizePending s
    { s with heap := [], bufs := #[], pools := #[], dead := false, pre := #[], post := #[], seen := #[], implOut := #[], ikind := #[], ipools := #[], pm := none, obsOff := false,
             caseNo := nat! (t[1]?.getD "0"), caseLabel := " ".intercalate (t.toList.drop 2),
             kctx := none, kprev := none, kall := #[], rtctx := none }
  -- ---------- stateless lines ----------
  else if cmd == "kseq" then
    let s := finalizePending s
    match ConvFn.ofString? (t[1]?.getD ""), Kind.ofString? (t[2]?.getD ""), Kind.ofString? (t[3]?.getD "") with
    | some f, some a, some b => { s with kctx := some ⟨f, t[1]!, a, b⟩, kprev := none, kall := #[] }
    | _, _, _ => s.divergeK "kseq-parse" "-" line
  else if cmd == "k" then
    match s.kctx with
    | none => s
    | some c =>
      let x := int! (t[1]?.getD "0"); let y := int! (t[2]?.getD "0")
      let s := { s with nKern := s.nKern + 1 }
      let s := match kernelOf c x with
        | none => { s with nUnspec := s.nUnspec + 1 }
        | some m => if m == y then s else
            s.divergeK s!"kernel {c.fnName} {c.sk.toString}>{c.dk.toString} x={x}" (toString m) (toString y)
      let s := kernelPreds s c x y
      -- (the previous line moves into the short-sequence memory, up to 40 observations)
      { s with kprev := some (x, y),
               kall := match s.kprev with
                 | some p => if s.kall.size < 40 then s.kall.push p else s.kall
                 | none => s.kall }
  else if cmd == "callerspare" then
    -- a reader / writer touched the caller's backing array beyond the slice it was given
    let s := finalizePending s
    let detail := s!"op={t[1]?.getD ""} view={t[2]?.getD ""}"
    let s := { s with nPred := s.nPred + 1 }
    (s.fail "C01" "caller-backing-array-untouched" detail).fail "C15" "caller-backing-array-untouched" detail
  else if cmd == "goref" then
    -- an operation on buffers too large for a transcript, judged natively against plain Go slices
    let s := finalizePending s
    let s := { s with nKern := s.nKern + 1, nPred := s.nPred + 1 }
    if t[3]? == some "ok" then s
    else
      let detail := " ".intercalate (t.toList.drop 3)
      ((t[1]?.getD "").splitOn ",").foldl (fun s p => s.fail p (t[2]?.getD "goref") detail) s
  else if cmd == "gencrash" then
    -- the harness generator itself failed on a state the implementation produced (it relies on what
    -- the properties promise); everything up to here has been judged line by line
    { s with dead := false }.diverge "harness-generator" "implementation state as promised by the properties" (t[1]?.getD "")
  else if cmd == "kpanic" then
    -- a conversion panicked on well-formed buffers with equal channel counts: no kernel of the model does
    let fn := t[1]?.getD ""; let detail := s!"entry={fn} sk={t[2]?.getD ""} dk={t[3]?.getD ""} types={t[4]?.getD ""} panic={t[5]?.getD ""}"
    let s := { s with nKern := s.nKern + 1, nPred := s.nPred + 1 }
    let s := s.fail "C05" "kernel-panics" detail
    let s := if fn == "FloatAsSigned" || fn == "FloatAsUnsigned" then s.fail "C08" "kernel-panics" detail
      else if fn == "SignedAsFloat" || fn == "UnsignedAsFloat" then s.fail "C09" "kernel-panics" detail
      else if fn == "FloatAsFloat" then s
      else (s.fail "C06" "kernel-panics" detail).fail "C07" "kernel-panics" detail
    s.divergeK s!"kernel {fn} panics" "a value" (t[5]?.getD "")
  else if cmd == "rtseq" then
    match ConvFn.ofString? (t[1]?.getD ""), ConvFn.ofString? (t[2]?.getD ""), Kind.ofString? (t[3]?.getD ""), Kind.ofString? (t[4]?.getD "") with
    | some f1, some f2, some a, some b => { s with rtctx := some ⟨f1, f2, t[1]!, t[2]!, a, b⟩, rtprev := none }
    | _, _, _, _ => s.divergeK "rtseq-parse" "-" line
  else if cmd == "rt" then
    match s.rtctx with
    | none => s
    | some c =>
      let x := int! (t[1]?.getD "0"); let y := int! (t[2]?.getD "0"); let z := int! (t[3]?.getD "0")
      let s := { s with nKern := s.nKern + 1 }
      let m1 := kernel c.fn1 c.sk c.sk.width c.mid c.mid.width x
      let m2 := kernel c.fn2 c.mid c.mid.width c.sk c.sk.width y
      let s := match m1 with
        | none => { s with nUnspec := s.nUnspec + 1 }
        | some m => if m == y then s else
          s.divergeK s!"rt-first {c.name1} {c.sk.toString}>{c.mid.toString} x={x}" (toString m) (toString y)
      let s := match m2 with
        | none => { s with nUnspec := s.nUnspec + 1 }
        | some m => if m == z then s else
          s.divergeK s!"rt-second {c.name2} {c.mid.toString}>{c.sk.toString} y={y}" (toString m) (toString z)
      let detail := s!"entry={c.name1} back={c.name2} sk={c.sk.toString} mk={c.mid.toString} x={x} y={y} z={z}"
      let s := { s with nPred := s.nPred + 1 }
      if c.mid.isFloat then
        if !Spec.C09.roundTripOK c.mid.fmt c.sk.width x z then s.fail "C09" "roundtrip" detail else s
      else
        if !Spec.C07.roundTripOK x z then s.fail "C07" "roundtrip" detail else s
  else if cmd == "bd" then
    let b := nat! (t[1]?.getD "0")
    let ms := int! (t[2]?.getD "0"); let mu := int! (t[3]?.getD "0"); let mn := int! (t[4]?.getD "0")
    let s := { s with nKern := s.nKern + 1, nPred := s.nPred + 1 }
    let s := if maxSignedValue b == ms && maxUnsignedValue b == mu && minSignedValue b == mn then s
      else s.divergeK s!"bitdepth b={b}" s!"{maxSignedValue b} {maxUnsignedValue b} {minSignedValue b}" s!"{ms} {mu} {mn}"
    if !Spec.C16.boundsOK b ms mu mn then s.fail "C16" "bounds" s!"b={b} maxS={ms} maxU={mu} minS={mn}" else s
  else if cmd == "sv" then
    let b := nat! (t[1]?.getD "0"); let v := int! (t[2]?.getD "0"); let r := int! (t[3]?.getD "0")
    let s := { s with nKern := s.nKern + 1, nPred := s.nPred + 1 }
    let s := if signedValue b v == r then s else s.divergeK s!"SignedValue b={b} v={v}" (toString (signedValue b v)) (toString r)
    if !Spec.C16.clipSignedOK b v r then s.fail "C16" "clipSigned" s!"b={b} v={v} r={r}" else s
  else if cmd == "uv" then
    let b := nat! (t[1]?.getD "0"); let v := int! (t[2]?.getD "0"); let r := int! (t[3]?.getD "0")
    let s := { s with nKern := s.nKern + 1, nPred := s.nPred + 1 }
    let s := if unsignedValue b v == r then s else s.divergeK s!"UnsignedValue b={b} v={v}" (toString (unsignedValue b v)) (toString r)
    if !Spec.C16.clipUnsignedOK b v r then s.fail "C16" "clipUnsigned" s!"b={b} v={v} r={r}" else s
  else if cmd == "scale" then
    match Kind.ofString? (t[1]?.getD "") with
    | none => s
    | some k =>
      let h := nat! (t[2]?.getD "0"); let l := nat! (t[3]?.getD "0"); let r := int! (t[4]?.getD "0")
      let s := { s with nKern := s.nKern + 1, nPred := s.nPred + 1 }
      let m := scale k.intTy h l
      let s := if m == r then s else s.divergeK s!"Scale {k.toString} h={h} l={l}" (toString m) (toString r)
      if !Spec.C16.scaleOK k.intTy h l r then s.fail "C16" "scale" s!"kind={k.toString} h={h} l={l} r={r}" else s
  else if cmd == "c16panic" then
    -- a bit-depth function or Scale panicked: they are total (C16 gives their value for every depth)
    let s := { s with nKern := s.nKern + 1, nPred := s.nPred + 1 }
    s.fail "C16" "panics" (" ".intercalate (t.toList.drop 1))
  else if cmd == "freq" then
    { s with freq := some (decodeBits f64 (nat! (t[1]?.getD "0"))), fprev := none }
  else if cmd == "dur" || cmd == "ev" then
    let f := decodeBits f64 (nat! (t[1]?.getD "0"))
    let a := int! (t[2]?.getD "0"); let r := int! (t[3]?.getD "0")
    let s := { s with nKern := s.nKern + 1, nPred := s.nPred + 1 }
    let m := if cmd == "dur" then duration f a else events f a
    let s := match m with
      | none => { s with nUnspec := s.nUnspec + 1 }
      | some v => if v == r then s else s.divergeK s!"{cmd} f={t[1]!} arg={a}" (toString v) (toString r)
    let s := match f with
      | .fin q =>
        if 0 < q ∧ m.isSome then
          let ok := if cmd == "dur" then Spec.C17.durErrOK q a r else Spec.C17.evErrOK q a r
          if !ok then s.fail "C17" (cmd ++ "Err") s!"f={t[1]!} arg={a} r={r}" else s
        else s
      | _ => s
    let s := match s.fprev with
      | some (c, pa, pr) =>
        if c == cmd && !Spec.C17.monoOK pa a pr r then s.fail "C17" (cmd ++ "Mono") s!"f={t[1]!} a={pa} b={a} ra={pr} rb={r}" else s
      | none => s
    { s with fprev := some (cmd, a, r) }
  else if cmd == "frt" then
    let f := decodeBits f64 (nat! (t[1]?.getD "0"))
    let n := int! (t[2]?.getD "0"); let d := int! (t[3]?.getD "0"); let n2 := int! (t[4]?.getD "0")
    let s := { s with nKern := s.nKern + 1, nPred := s.nPred + 1 }
    let s := match duration f n with
      | some v => if v == d then s else s.divergeK s!"frt-dur f={t[1]!} n={n}" (toString v) (toString d)
      | none => { s with nUnspec := s.nUnspec + 1 }
    let s := match events f d with
      | some v => if v == n2 then s else s.divergeK s!"frt-ev f={t[1]!} d={d}" (toString v) (toString n2)
      | none => { s with nUnspec := s.nUnspec + 1 }
    match f with
    | .fin q => if !Spec.C17.roundTripOK q n n2 then s.fail "C17" "roundtrip" s!"f={t[1]!} n={n} d={d} n2={n2}" else s
    | _ => s
  else if cmd == "chlen" then
    let n := nat! (t[1]?.getD "0"); let ch := nat! (t[2]?.getD "0"); let r := int! (t[3]?.getD "0")
    let s := { s with nKern := s.nKern + 1, nPred := s.nPred + 1 }
    let s := if (channelLength n ch : Int) == r then s else s.divergeK s!"ChannelLength n={n} ch={ch}" (toString (channelLength n ch)) (toString r)
    let s := if channelLengthF n ch == some r then s else s.divergeK s!"ChannelLength(float) n={n} ch={ch}" (fmtOpt (channelLengthF n ch)) (toString r)
    if ch == 0 && r != 0 then s.fail "C20" "channelLengthZero" s!"n={n} ch=0 r={r}" else s
  else if cmd == "allocs" then
    let op := t[1]?.getD ""; let n := nat! (t[t.size - 1]?.getD "0")
    let s := { s with nKern := s.nKern + 1, nPred := s.nPred + 1 }
    match modelAllocs op with
    | none => s.divergeK s!"allocs-unknown-op {op}" "-" line
    | some m => if n ≤ m then s else s.fail "C18" "allocs" s!"op={op} shape={t[2]?.getD ""} measured={n} model={m}"
  else if cmd == "sweep32" then
    -- summary of the native exhaustive float32 screen; suspicious inputs follow as ordinary `k` lines
    { s with nKern := s.nKern + 1 }
  else if cmd == "obs" then
    let s := finalizePending s
    { s with obsOff := t[1]? == some "off" }
  else if cmd == "r19" then
    let s := { s with nKern := s.nKern + 1, nPred := s.nPred + 1 }
    if line.endsWith "mismatches=0" then s else s.fail "C19" "readers-equal-sequential" line
  else if cmd == "rpool" then
    match Kind.ofString? (t[1]?.getD "") with
    | some k =>
      -- the ownership part of the pool machine (`free`, `out`: which steps are enabled) does not depend on the size of
      -- the buffers; the list-based heap makes clearing a buffer of n samples cost n^2, so logs of pools of large
      -- buffers are validated against the machine of a pool of the same kind and channel count with at most 8 frames
      -- (freshness over the real capacity is observed by the harness on the real buffer: the flags of `rget`)
      let cap := min (nat! (t[4]?.getD "0")) 8
      { s with pm := some (⟨k, nat! (t[2]?.getD "0"), min (nat! (t[3]?.getD "0")) cap, cap⟩, PoolM.init) }
    | none => s.divergeK "rpool-parse" "-" line
  else if cmd == "rget" then
    match s.pm with
    | none => s
    | some (p, ps) =>
      let g := nat! (t[1]?.getD "0"); let id := nat! (t[2]?.getD "0"); let mode := t[3]?.getD ""
      let s := { s with nOps := s.nOps + 1, nPred := s.nPred + 1 }
      let s := if t[4]? == some "1" && t[5]? == some "1" then s
        else s.fail "C11" "get-fresh" s!"goroutine={g} buffer={id} mode={mode} shapeOK={t[4]?.getD ""} zeroOK={t[5]?.getD ""}"
      let st : PoolM.Step := if mode == "new" then .getNew g else .getReuse g id
      if mode == "new" && id != ps.bufs.length then s.divergeK "rget-new-id" (toString ps.bufs.length) (toString id)
      else if PoolM.enabled p ps st then { s with pm := some (p, PoolM.step p ps st) }
      else
        let s := match PoolM.holder ps id with
          | some h => s.fail "C11" "exclusive-ownership" s!"goroutine={g} obtained buffer={id} while goroutine={h} holds it"
          | none => s
        s.divergeK s!"rget g={g} id={id} {mode}" "a step enabled in the pool machine" s!"free={ps.free} out={ps.out}"
  else if cmd == "rput" then
    match s.pm with
    | none => s
    | some (p, ps) =>
      let g := nat! (t[1]?.getD "0"); let id := nat! (t[2]?.getD "0")
      let s := { s with nOps := s.nOps + 1, nPred := s.nPred + 1 }
      let s := if t[3]? == some "1" then s
        else s.fail "C11" "ownership-stamps" s!"goroutine={g} buffer={id}: stamps written over the whole capacity were overwritten while held"
      if PoolM.enabled p ps (.put g id) then { s with pm := some (p, PoolM.step p ps (.put g id)) }
      else s.divergeK s!"rput g={g} id={id}" "holder puts" s!"out={ps.out}"
  -- ---------- stateful lines ----------
  else if cmd == "v" then stepView s t
  else
    let s := beginOp s
    let (lhs, rhs) := splitArrow t
    let s := if s.obsOff then s else observe s cmd t lhs rhs
    if s.dead then { s with nDeadSkipped := s.nDeadSkipped + 1 }
    else modelStep s cmd t lhs rhs line

def summary (s : DState) : String :=
  s!"SUMMARY prop={s.prop} lines={s.lineNo} cases={s.caseNo} ops={s.nOps} views={s.nViews} kernels={s.nKern} predicates={s.nPred} diverge={s.nDiv} fail={s.nFail} unspec={s.nUnspec} skipped={s.nDeadSkipped} panickind={s.nPanicKind}"

end Driver
end Sig

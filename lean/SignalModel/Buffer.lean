import SignalModel.Mem
/-!
# `Buffer[T]`, `C[T]`, readers and writers, the generic conversion loop — transliterated from
buffer.go, channel.go and signal.go.

A `Buf` is the Go header `{channels, data []T, bitDepth}`; `data` is the slice `(blk, off, len, cap)`.
Functions that mutate through the `*Buffer` pointer return the new header.  A panic returns the heap
as it was when the panic happened, so effects that precede a panic are visible.
-/
namespace Sig

structure Buf where
  ch : Nat
  blk : Nat
  off : Nat
  len : Nat
  cap : Nat
  kind : Kind
  depth : Nat
deriving DecidableEq, Repr, Inhabited

/-- outcome of an operation: normal return, panic (with the heap at that moment), or a result the Go
language leaves implementation-defined (the model makes no prediction) -/
inductive Res (α : Type)
  | ok (h : Heap) (v : α)
  | panic (h : Heap) (p : Panic)
  | unspec
deriving Repr

def Res.bind {α β : Type} (r : Res α) (f : Heap → α → Res β) : Res β :=
  match r with
  | .ok h v => f h v
  | .panic h p => .panic h p
  | .unspec => .unspec

/-- `channels.BufferIndex(channel, idx) = int(c)*idx + channel` in 64-bit `int` arithmetic -/
def bufferIndex (ch : Nat) (channel idx : Int) : Int := wrapI (wrapI ((ch : Int) * idx) + channel)

/-- `ChannelLength(sliceLen, channels)`: `ceil(sliceLen / channels)`, 0 for zero channels.
(The Go code computes this in float64; `FloatK.channelLengthF` is that computation, and the two agree
below 2^53 samples.) -/
def channelLength (n ch : Nat) : Nat := if ch = 0 then 0 else (n + ch - 1) / ch

namespace Buf

def length (b : Buf) : Nat := channelLength b.len b.ch
def capacity (b : Buf) : Nat := if b.ch = 0 then 0 else b.cap / b.ch

/-- `b.data[i]` with Go's bounds check -/
def sample (h : Heap) (b : Buf) (i : Int) : Option Int :=
  if 0 ≤ i ∧ i < b.len then cell h b.blk (b.off + i.toNat) else none

/-- `b.data[i] = v` with Go's bounds check -/
def setSample (h : Heap) (b : Buf) (i : Int) (v : Int) : Option Heap :=
  if 0 ≤ i ∧ i < b.len then some (store h b.blk (b.off + i.toNat) v) else none

/-- the Go slice expression `b.data[s:e]` -/
def reslice (b : Buf) (s e : Int) : Option Buf :=
  if 0 ≤ s ∧ s ≤ e ∧ e ≤ b.cap then
    some { b with off := b.off + s.toNat, len := (e - s).toNat, cap := b.cap - s.toNat }
  else none

/-- `Buffer.Slice(start, end)`:
```
if b.channels != 0 && (start < 0 || start > end || end > b.Capacity()) { panic }
start = b.BufferIndex(0, start); end = b.BufferIndex(0, end)
return &Buffer[T]{channels: b.channels, data: b.data[start:end], bitDepth: b.bitDepth}
``` -/
def slice (b : Buf) (s e : Int) : Option Buf :=
  if b.ch ≠ 0 ∧ (s < 0 ∨ s > e ∨ e > b.capacity) then none
  else reslice b (bufferIndex b.ch 0 s) (bufferIndex b.ch 0 e)

/-- `Buffer.AppendSample(v)`: no-op when full, else `append` within capacity -/
def appendSample (h : Heap) (b : Buf) (v : Int) : Heap × Buf :=
  if b.len = b.cap then (h, b)
  else (store h b.blk (b.off + b.len) v, { b with len := b.len + 1 })

end Buf

/-- the loop `for i := 0; i < n; i++ { dst.SetSample(i+shift, k(src.Sample(i))) }`, sequentially.
`is` is the list of remaining indices. -/
def xferLoop (k : Int → Option Int) (src dst : Buf) (shift : Nat) : List Nat → Heap → Res Unit
  | [], h => .ok h ()
  | i :: is, h =>
    match src.sample h i with
    | none => .panic h .index
    | some x =>
      match k x with
      | none => .unspec
      | some y =>
        match dst.setSample h ((i + shift : Nat) : Int) y with
        | none => .panic h .index
        | some h' => xferLoop k src dst shift is h'

/-- `alignCapacity`: `cap - cap % channels` (no-op for zero channels) -/
def alignCap (ch cap : Nat) : Nat := if ch = 0 then cap else cap - cap % ch

/-- sequential stores `blk[start+j] := vals[j]` -/
def storeList (h : Heap) (blk start : Nat) : List Int → Heap
  | [] => h
  | v :: vs => storeList (store h blk start v) blk (start + 1) vs

/-- the first `n` samples of a view, as `copy` reads them: all before anything is written -/
def Buf.firstCells (h : Heap) (b : Buf) (n : Nat) : List Int :=
  (List.range n).map fun j => (cell h b.blk (b.off + j)).getD 0

/-- `Buffer.Append(src)`.  `self` says that `src` and `dst` are the same header (`b.Append(b)`);
`g` is the capacity of the new backing array when the runtime has to grow (an input: Go's growth
policy is a runtime detail; `g` is validated by `growOK`; `C03.grow_whole_frames_admissible` shows that
every raw capacity the runtime may deliver for the whole-frame request yields an admissible `g`).
```
mustSame(dst.Channels(), src.Channels(), diffChannels)
offset := dst.Len(); n := src.Len()
if dst.Cap() < offset+n { grow := n completed to a whole frame; dst.data = append(dst.data, make([]D, grow)...)[:offset+n] }
else { dst.data = dst.data[:offset+n] }
copy(dst.data[offset:], src.data[:n])      // memmove: the source samples are read before any is written
alignCapacity(&dst.data, dst.Channels(), dst.Cap())
``` -/
def Buf.append (h : Heap) (dst src : Buf) (self : Bool) (g : Nat) : Res Buf :=
  if dst.ch ≠ src.ch then .panic h .diffChannels
  else
    let offset := dst.len
    let n := src.len
    let (h1, dst1) : Heap × Buf :=
      if dst.cap < offset + n then
        let old := (List.range offset).map (fun i => (cell h dst.blk (dst.off + i)).getD 0)
        (h ++ [old ++ List.replicate (g - offset) 0],
         { dst with blk := h.length, off := 0, len := offset + n, cap := g })
      else (h, { dst with len := offset + n })
    let src1 := if self then dst1 else src
    .ok (storeList h1 dst1.blk (dst1.off + offset) (src1.firstCells h1 n))
      { dst1 with cap := alignCap dst1.ch dst1.cap }

/-- admissible growth capacities: what `append` + `alignCapacity` can deliver -/
def growOK (dst src : Buf) (g : Nat) : Bool :=
  dst.len + src.len ≤ g && (dst.ch = 0 || g % dst.ch = 0)

/-! ## channel view `C[T]` -/

/-- `C.BufferIndex(_, index) = c.Buffer.BufferIndex(c.channel, index)` -/
def chanIndex (b : Buf) (c : Int) (i : Int) : Int := bufferIndex b.ch c i
def chanSample (h : Heap) (b : Buf) (c i : Int) : Option Int := b.sample h (chanIndex b c i)
def chanSetSample (h : Heap) (b : Buf) (c i : Int) (v : Int) : Option Heap := b.setSample h (chanIndex b c i) v

/-- `C.Channels()`, `C.Length()`, `C.Capacity()` -/
def chanChannels (_b : Buf) : Nat := 1
def chanLength (b : Buf) : Nat := b.length
def chanCapacity (b : Buf) : Nat := b.capacity

/-! ## interleaved and striped readers / writers -/

/-- `Write(src []S, dst)`: `cv` is the Go conversion `D(x)` -/
def write (cv : Int → Option Int) (h : Heap) (src : List Int) (dst : Buf) : Res Nat :=
  let m := min dst.len src.length
  match (src.take m).mapM cv with
  | none => .unspec
  | some vals => .ok (storeList h dst.blk dst.off vals) (channelLength m dst.ch)

/-- `Read(src, dst []D)`: returns the caller's slice after the call and the frame count -/
def read (cv : Int → Option Int) (h : Heap) (src : Buf) (dst : List Int) : Res (List Int × Nat) :=
  let m := min src.len dst.length
  match (List.range m).mapM (fun (i : Nat) => (src.sample h (i : Int)).bind cv) with
  | none => .unspec
  | some vals => .ok h (vals ++ dst.drop m, channelLength m src.ch)

/-- the value `WriteStriped` stores at frame `i` of a channel whose input slice is `col`:
`i < len(src[c]) ? D(src[c][i]) : 0` -/
def stripedVal (cv : Int → Option Int) (col : List Int) (i : Nat) : Option Int :=
  if i < col.length then cv (col.getD i 0) else some 0

/-- one channel of `WriteStriped`: `for i < min(written, channelLength(c)) { SetSample(BufferIndex(c,i), i < len(src[c]) ? D(src[c][i]) : 0) }` -/
def wsChan (cv : Int → Option Int) (dst : Buf) (c : Nat) (col : List Int) : List Nat → Heap → Res Unit
  | [], h => .ok h ()
  | i :: is, h =>
    match stripedVal cv col i with
    | none => .unspec
    | some y =>
      match dst.setSample h (bufferIndex dst.ch c i) y with
      | none => .panic h .index
      | some h' => wsChan cv dst c col is h'

/-- `Buffer.channelLength(c)`: the number of samples the buffer holds for channel `c` - one less than
`Length` for the channels missing in a partially filled last frame -/
def Buf.chanLen (b : Buf) (c : Nat) : Nat :=
  if b.len % b.ch ≠ 0 ∧ b.len % b.ch ≤ c then b.length - 1 else b.length

def wsChans (cv : Int → Option Int) (dst : Buf) (written : Nat) : Nat → List (List Int) → Heap → Res Unit
  | _, [], h => .ok h ()
  | c, col :: cols, h =>
    (wsChan cv dst c col (List.range (min written (dst.chanLen c))) h).bind fun h' _ =>
      wsChans cv dst written (c + 1) cols h'

/-- `WriteStriped(src [][]S, dst)` -/
def writeStriped (cv : Int → Option Int) (h : Heap) (src : List (List Int)) (dst : Buf) : Res Nat :=
  if dst.ch ≠ src.length then .panic h .diffChannels
  else
    let longest := src.foldl (fun m col => max m col.length) 0
    let written := min longest dst.length
    (wsChans cv dst written 0 src h).bind fun h' _ => .ok h' written

/-- one channel of `ReadStriped`; returns the caller's slice for that channel -/
def rsChan (cv : Int → Option Int) (h : Heap) (src : Buf) (c : Nat) (col : List Int) : Option (Option (List Int)) :=
  let m := min col.length (src.chanLen c)
  -- outer none = index panic, inner none = unspecified conversion
  match (List.range m).mapM (fun (i : Nat) => src.sample h (bufferIndex src.ch (c : Int) (i : Int))) with
  | none => none
  | some xs => some ((xs.mapM cv).map (· ++ col.drop m))

def rsChans (cv : Int → Option Int) (h : Heap) (src : Buf) : Nat → List (List Int) → Res (List (List Int))
  | _, [] => .ok h []
  | c, col :: cols =>
    match rsChan cv h src c col with
    | none => .panic h .index
    | some none => .unspec
    | some (some col') => (rsChans cv h src (c + 1) cols).bind fun h' rest => .ok h' (col' :: rest)

/-- the count `ReadStriped` returns: the largest number of samples read for one channel -/
def rsCount (src : Buf) : Nat → List (List Int) → Nat
  | _, [] => 0
  | c, col :: cols => max (min col.length (src.chanLen c)) (rsCount src (c + 1) cols)

/-- `ReadStriped(src, dst [][]D)` -/
def readStriped (cv : Int → Option Int) (h : Heap) (src : Buf) (dst : List (List Int)) : Res (List (List Int) × Nat) :=
  if src.ch ≠ dst.length then .panic h .diffChannels
  else (rsChans cv h src 0 dst).bind fun h' cols => .ok h' (cols, rsCount src 0 dst)

/-! ## the conversion skeleton shared by the nine `XAsY` functions -/

/-- `mustSame; length := min(src.Len(), dst.Len()); if length == 0 {return 0}; loop; return min(Length, Length)`.
`pre` is the panic the per-function prologue may raise before the loop (a zero scale divisor). -/
def convert (k : Int → Option Int) (h : Heap) (src dst : Buf) : Res Nat :=
  if src.ch ≠ dst.ch then .panic h .diffChannels
  else
    let n := min src.len dst.len
    if n = 0 then .ok h 0
    else (xferLoop k src dst 0 (List.range n) h).bind fun h' _ => .ok h' (min src.length dst.length)

end Sig

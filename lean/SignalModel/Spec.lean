import SignalModel.Alloc
/-!
# Executable statements of the properties, over observations

Each `Spec.Cxx.*` is a `Bool` predicate over inputs and the outputs *someone* produced for them.
`SignalProofs/Props/Cxx.lean` proves that the model's outputs satisfy it for all inputs; the driver
evaluates the very same predicate on the implementation's outputs.
-/
namespace Sig
namespace Spec

/-- amplitude of a fixed-point code: the code itself (signed) or code − 2^(b−1) (unsigned) -/
def amp (signed : Bool) (b : Nat) (x : Int) : Int := if signed then x else x - 2^(b-1)
def loCode (signed : Bool) (b : Nat) : Int := if signed then -(2^(b-1)) else 0
def hiCode (signed : Bool) (b : Nat) : Int := if signed then 2^(b-1) - 1 else 2^b - 1
def zeroCode (signed : Bool) (b : Nat) : Int := if signed then 0 else 2^(b-1)

/-! ## C06: order and reference levels of fixed→fixed requantisation -/
namespace C06
/-- `x ≤ y` on amplitudes implies `kx ≤ ky` on amplitudes (same formats, so codes compare alike) -/
def orderOK (x y kx ky : Int) : Bool := !(x ≤ y) || (kx ≤ ky)
/-- lowest ↦ lowest, highest ↦ highest, zero-amplitude ↦ zero-amplitude -/
def refOK (ss : Bool) (sb : Nat) (ds : Bool) (db : Nat) (x kx : Int) : Bool :=
  (!(x = loCode ss sb) || kx = loCode ds db) &&
  (!(x = hiCode ss sb) || kx = hiCode ds db) &&
  (!(x = zeroCode ss sb) || kx = zeroCode ds db)
end C06

/-! ## C07: one-step accuracy, identity at equal depth, lossless widening -/
namespace C07
/-- narrowing by `k` bits: result amplitude is ⌊a/2^k⌋ or ⌈a/2^k⌉ -/
def neighbourOK (ss : Bool) (sb : Nat) (ds : Bool) (db : Nat) (x kx : Int) : Bool :=
  if sb < db then true else
  let a := amp ss sb x
  let r := amp ds db kx
  let d : Int := 2^(sb - db)
  r = a / d || r = -((-a) / d)
/-- equal depth: identity on amplitudes -/
def sameDepthOK (ss : Bool) (sb : Nat) (ds : Bool) (db : Nat) (x kx : Int) : Bool :=
  !(sb = db) || amp ss sb x = amp ds db kx
/-- widen then narrow back to the original format returns the original sample -/
def roundTripOK (x z : Int) : Bool := x = z
end C07

/-! ## C08: floating → fixed -/
namespace C08
/-- `f ≥ 1` (incl. +Inf) ↦ highest code, `f ≤ −1` (incl. −Inf) ↦ lowest code -/
def clipOK (ds : Bool) (db : Nat) (f : FV) (code : Int) : Bool :=
  (!(FV.le (.fin 1) f) || code = hiCode ds db) && (!(FV.le f (.fin (-1))) || code = loCode ds db)
/-- ±0 ↦ zero-amplitude code -/
def zeroOK (ds : Bool) (db : Nat) (f : FV) (code : Int) : Bool :=
  !(f.isZero) || code = zeroCode ds db
/-- strictly inside (−1,1): within one quantisation step of input × full scale -/
def oneStepOK (ds : Bool) (db : Nat) (f : FV) (code : Int) : Bool :=
  match f with
  | .fin q =>
    if -1 < q ∧ q < 1 then
      let fs : Rat := if 0 < q then ((2:Int)^(db-1) - 1 : Int) else ((2:Int)^(db-1) : Int)
      let d : Rat := (amp ds db code : Int) - q * fs
      d > -1 && d < 1
    else true
  | _ => true
/-- a larger input never gives a smaller code (NaN excluded) -/
def monoOK (f g : FV) (cf cg : Int) : Bool := !(FV.le f g) || cf ≤ cg
/-- the result is a code of the destination format (no wrap-around can leave the range, but a wrapped
value shows up as a violation of clip/mono) -/
def rangeOK (ds : Bool) (db : Nat) (code : Int) : Bool := loCode ds db ≤ code && code ≤ hiCode ds db
end C08

/-! ## C09: fixed → floating -/
namespace C09
def rangeOK (r : FV) : Bool := FV.le (.fin (-1)) r && FV.le r (.fin 1)
def endpointsOK (ss : Bool) (sb : Nat) (x : Int) (r : FV) : Bool :=
  (!(x = loCode ss sb) || r = .fin (-1)) && (!(x = hiCode ss sb) || r = .fin 1) &&
  (!(x = zeroCode ss sb) || r = .fin 0)
def monoOK (x y : Int) (rx ry : FV) : Bool := !(x ≤ y) || FV.le rx ry
/-- within one source step (2^-(b-1)) plus float rounding (2^-(p-1)) of amplitude / full scale -/
def oneStepOK (F : Fmt) (ss : Bool) (sb : Nat) (x : Int) (r : FV) : Bool :=
  match r.toRat? with
  | none => false
  | some q =>
    let a := amp ss sb x
    let fs : Rat := if 0 < a then ((2:Int)^(sb-1) - 1 : Int) else ((2:Int)^(sb-1) : Int)
    let d := q - (a : Rat) / fs
    let tol : Rat := 1 / ((2:Int)^(sb-1) : Int) + 1 / ((2:Int)^(F.p-1) : Int)
    d ≥ -tol && d ≤ tol
/-- the same with the float rounding taken relative to the value (three roundings of at most half an ulp each:
`D(sample)`, the full-scale constant, the division): `2^-(b-1) + 2^-(p-2) * |amplitude / full scale|`.  Checked on the
implementation's observations only (the theorems of C09 / C09W are stated with the absolute tolerance above): for
64-bit sources the absolute tolerance `2^-52` is a thousand steps wide near zero.  Applied to signed sources only: the
unsigned conversion subtracts the offset in the float type, so its rounding is relative to the *code*, not to the
amplitude, which the absolute tolerance covers and this one would wrongly reject. -/
def oneStepRelOK (F : Fmt) (ss : Bool) (sb : Nat) (x : Int) (r : FV) : Bool :=
  match r.toRat? with
  | none => false
  | some q =>
    let a := amp ss sb x
    let fs : Rat := if 0 < a then ((2:Int)^(sb-1) - 1 : Int) else ((2:Int)^(sb-1) : Int)
    let v := (a : Rat) / fs
    let d := q - v
    let av := if v < 0 then -v else v
    let tol : Rat := 1 / ((2:Int)^(sb-1) : Int) + av * 4 / ((2:Int)^F.p : Int)
    d ≥ -tol && d ≤ tol
/-- distinct samples give distinct floats (depth ≤ 32 through float64) -/
def injOK (x y : Int) (rx ry : FV) : Bool := x = y || rx != ry
/-- exact round trip (float64, depth ≤ 32) / within one step (float32, depth ≤ 16) -/
def roundTripOK (F : Fmt) (sb : Nat) (x z : Int) : Bool :=
  if F.p = 53 ∧ sb ≤ 32 then x = z
  else if F.p = 24 ∧ sb ≤ 16 then (x - z ≤ 1 && z - x ≤ 1)
  else true
end C09

/-! ## C05 (float→float part): value preserved, nearest float32 when narrowing, never clipped -/
namespace C05
/-- widening or same type: exactly the same value (bit pattern up to NaN canonicalisation) -/
def exactOK (x r : FV) : Bool := x = r
/-- narrowing: `r` is a float32 value at least as close to `x` as the correctly rounded one (so it is
a nearest float32; ties may go either way as far as this predicate is concerned), overflow to ±Inf
exactly when the rounded magnitude reaches 2^128, NaN/±Inf/−0 preserved. -/
def nearestOK (x r : FV) : Bool :=
  let absq (q : Rat) : Rat := if q < 0 then -q else q
  match x, r with
  | .fin q, .fin s =>
    rne f32 s = s && absq (s - q) ≤ absq (rne f32 q - q) && absq (rne f32 q) < pow2 128
  | .fin q, .nzero => q < 0 && rne f32 q = 0
  | .fin q, .inf n => (n == decide (q < 0)) && pow2 128 ≤ absq (rne f32 q)
  | .nan, .nan => true
  | .inf a, .inf b => a == b
  | .nzero, .nzero => true
  | _, _ => false
end C05

/-! ## C16 -/
namespace C16
def boundsOK (b : Nat) (maxS maxU minS : Int) : Bool :=
  !(1 ≤ b ∧ b ≤ 64) || (maxS = 2^(b-1) - 1 && minS = -(2^(b-1)) && maxU = 2^b - 1)
def clipSignedOK (b : Nat) (v r : Int) : Bool :=
  !(1 ≤ b ∧ b ≤ 64) ||
    (let lo : Int := -(2^(b-1)); let hi : Int := 2^(b-1) - 1
     r = (if v < lo then lo else if v > hi then hi else v))
def clipUnsignedOK (b : Nat) (v r : Int) : Bool :=
  !(1 ≤ b ∧ b ≤ 64) || (let hi : Int := 2^b - 1; r = (if v > hi then hi else v))
/-- `Scale` is 2^(h−l) whenever that fits the type -/
def scaleOK (t : IntTy) (h l : Nat) (r : Int) : Bool :=
  !(l ≤ h ∧ h ≤ 64 ∧ 1 ≤ l ∧ (2:Int)^(h-l) ≤ t.maxVal) || r = 2^(h-l)
end C16

/-! ## C17 -/
namespace C17
/-- |Duration − 1e9·n/f| ≤ ½ + relative float error -/
def durErrOK (f : Rat) (n d : Int) : Bool :=
  let exact : Rat := 1000000000 * n / f
  let e := (d : Rat) - exact
  let a := if e < 0 then -e else e
  let m := if exact < 0 then -exact else exact
  a ≤ 1/2 + 4 * m / ((2:Int)^53 : Int)
def evErrOK (f : Rat) (d n : Int) : Bool :=
  let exact : Rat := f * d / 1000000000
  let e := (n : Rat) - exact
  let a := if e < 0 then -e else e
  let m := if exact < 0 then -exact else exact
  a ≤ 1/2 + 4 * m / ((2:Int)^53 : Int)
def monoOK (a b ra rb : Int) : Bool := !(a ≤ b) || ra ≤ rb
def roundTripOK (f : Rat) (n n2 : Int) : Bool :=
  !(0 < f ∧ f ≤ 1000000 ∧ 0 ≤ n ∧ (n : Rat) ≤ 86400 * f) || n = n2
end C17

end Spec
end Sig

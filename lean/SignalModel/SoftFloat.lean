/-!
# An executable IEEE-754 binary32/binary64 model over core `Rat` (core Lean only)

`rne` is round-to-nearest-even with unbounded exponent range above; `FV.round` adds overflow to
infinity and the sign of zero.  Every arithmetic operation is "exact rational result, then `rne`",
which is the IEEE definition of a correctly rounded operation.
-/
namespace Sig

def pow2 (e : Int) : Rat :=
  if 0 ≤ e then ((2 ^ e.toNat : Nat) : Rat) else 1 / ((2 ^ (-e).toNat : Nat) : Rat)

/-- floor(log2 x) for x > 0 -/
def ilog2 (x : Rat) : Int :=
  let n := x.num.toNat
  let d := x.den
  let g : Int := (Nat.log2 n : Int) - (Nat.log2 d : Int)
  if pow2 g ≤ x then g else g - 1

/-- round to the nearest integer, ties to even -/
def roundEven (y : Rat) : Int :=
  let f := y.floor
  let r := y - f
  if r < 1/2 then f else if 1/2 < r then f + 1 else if f % 2 = 0 then f else f + 1

/-- a binary floating-point format: precision `p` (with the hidden bit), exponent `emin` of the
smallest subnormal unit, largest exponent `emax`, and the width of the exponent field. -/
structure Fmt where
  p : Nat
  emin : Int
  emax : Int
  ebits : Nat
deriving Repr, DecidableEq

def f64 : Fmt := ⟨53, -1074, 1023, 11⟩
def f32 : Fmt := ⟨24, -149, 127, 8⟩

/-- exponent of the unit in the last place used for a magnitude `a > 0` -/
def expo (F : Fmt) (a : Rat) : Int := max (ilog2 a - ((F.p : Int) - 1)) F.emin

/-- round to nearest even, exponent range unbounded above -/
def rne (F : Fmt) (x : Rat) : Rat :=
  if x = 0 then 0 else
  let a := if x < 0 then -x else x
  let e := expo F a
  (roundEven (x / pow2 e) : Rat) * pow2 e

/-- floating-point values: NaN, ±Inf, −0, and finite rationals (`fin 0` is +0) -/
inductive FV
  | nan
  | inf (neg : Bool)
  | nzero
  | fin (q : Rat)
deriving DecidableEq, Repr, Inhabited

namespace FV

def isNeg : FV → Bool
  | nan => false
  | inf n => n
  | nzero => true
  | fin q => q < 0

/-- rational value of a finite number -/
def toRat? : FV → Option Rat
  | fin q => some q
  | nzero => some 0
  | _ => none

def isZero : FV → Bool
  | nzero => true
  | fin q => q = 0
  | _ => false

/-- a zero of the requested sign -/
def zero (neg : Bool) : FV := if neg then nzero else fin 0

/-- round an exact rational result into format `F`; `negZero` is the sign given to an exact zero -/
def round (F : Fmt) (x : Rat) (negZero : Bool := false) : FV :=
  let r := rne F x
  let a := if r < 0 then -r else r
  if pow2 (F.emax + 1) ≤ a then inf (x < 0)
  else if r = 0 then zero (if x = 0 then negZero else x < 0)
  else fin r

def mul (F : Fmt) : FV → FV → FV
  | nan, _ | _, nan => nan
  | inf a, y => if y.isZero then nan else inf (a != y.isNeg)
  | x, inf b => if x.isZero then nan else inf (x.isNeg != b)
  | x, y =>
    match x.toRat?, y.toRat? with
    | some a, some b => round F (a * b) (x.isNeg != y.isNeg)
    | _, _ => nan

def div (F : Fmt) : FV → FV → FV
  | nan, _ | _, nan => nan
  | inf a, y => match y with
    | inf _ => nan
    | _ => inf (a != y.isNeg)
  | x, inf b => zero (x.isNeg != b)
  | x, y =>
    match x.toRat?, y.toRat? with
    | some a, some b =>
      if b = 0 then (if a = 0 then nan else inf (x.isNeg != y.isNeg))
      else round F (a / b) (x.isNeg != y.isNeg)
    | _, _ => nan

def add (F : Fmt) : FV → FV → FV
  | nan, _ | _, nan => nan
  | inf a, inf b => if a = b then inf a else nan
  | inf a, _ => inf a
  | _, inf b => inf b
  | x, y =>
    match x.toRat?, y.toRat? with
    | some a, some b => round F (a + b) (x.isNeg && y.isNeg)
    | _, _ => nan

def neg : FV → FV
  | nan => nan
  | inf a => inf (!a)
  | nzero => fin 0
  | fin q => if q = 0 then nzero else fin (-q)

def sub (F : Fmt) (x y : FV) : FV := add F x (neg y)

/-- Go `float(n)` for an integer `n`: one correctly rounded conversion -/
def ofInt (F : Fmt) (n : Int) : FV := round F (n : Rat)

/-- Go `float32(x)` / `float64(x)` between floating types: rounds when narrowing, exact when widening -/
def conv (F : Fmt) : FV → FV
  | nan => nan
  | inf a => inf a
  | nzero => nzero
  | fin q => round F q

/-- `x < y` as Go evaluates it (false when either side is NaN) -/
def lt : FV → FV → Bool
  | nan, _ | _, nan => false
  | inf a, inf b => a && !b
  | inf a, _ => a
  | _, inf b => !b
  | x, y => match x.toRat?, y.toRat? with
    | some a, some b => a < b
    | _, _ => false

def le : FV → FV → Bool
  | nan, _ | _, nan => false
  | inf a, inf b => a || !b
  | inf a, _ => a
  | _, inf b => !b
  | x, y => match x.toRat?, y.toRat? with
    | some a, some b => a ≤ b
    | _, _ => false

/-- truncation toward zero of a rational -/
def truncQ (q : Rat) : Int := if 0 ≤ q then q.floor else -((-q).floor)

/-- Go `T(f)` from a floating value to an integer type.  The language defines the result only when the
truncated value fits `T`; everything else (including NaN and ±Inf) is implementation-defined and the
model makes no prediction (`none`). -/
def toInt (lo hi : Int) : FV → Option Int
  | fin q => let t := truncQ q; if lo ≤ t ∧ t ≤ hi then some t else none
  | nzero => some 0
  | _ => none

/-- `math.Round`: nearest integer, halves away from zero -/
def roundHalfAway : FV → FV
  | fin q =>
    if q = 0 then fin 0
    else if 0 < q then fin ((q + 1/2).floor : Rat)
    else
      let r : Rat := -(((-q) + 1/2).floor : Rat)
      if r = 0 then nzero else fin r
  | v => v

/-- `math.Ceil` -/
def ceil : FV → FV
  | fin q =>
    let r : Rat := (-((-q).floor) : Int)
    if r = 0 ∧ q < 0 then nzero else fin r
  | v => v

end FV

/-! ## bit patterns -/

/-- number of stored mantissa bits -/
def Fmt.mbits (F : Fmt) : Nat := F.p - 1
def Fmt.bits (F : Fmt) : Nat := 1 + F.ebits + F.mbits
def Fmt.expMask (F : Fmt) : Nat := 2^F.ebits - 1

/-- canonical quiet NaN pattern -/
def Fmt.nanBits (F : Fmt) : Nat := F.expMask * 2^F.mbits + 2^(F.mbits - 1)

def decodeBits (F : Fmt) (b : Nat) : FV :=
  let s := b / 2^(F.ebits + F.mbits) % 2
  let ex := b / 2^F.mbits % 2^F.ebits
  let fr := b % 2^F.mbits
  if ex = F.expMask then (if fr = 0 then .inf (s = 1) else .nan)
  else
    let mag : Rat :=
      if ex = 0 then (fr : Rat) * pow2 F.emin
      else ((fr + 2^F.mbits : Nat) : Rat) * pow2 ((ex : Int) - 1 + F.emin)
    if mag = 0 then (if s = 1 then .nzero else .fin 0)
    else .fin (if s = 1 then -mag else mag)

/-- encode a value that is representable in `F` (values produced by `FV.round F`) -/
def encodeBits (F : Fmt) : FV → Nat
  | .nan => F.nanBits
  | .inf n => (if n then 2^(F.ebits + F.mbits) else 0) + F.expMask * 2^F.mbits
  | .nzero => 2^(F.ebits + F.mbits)
  | .fin x =>
    if x = 0 then 0 else
    let ng := x < 0
    let a := if ng then -x else x
    let e := expo F a
    let m := (a / pow2 e).floor.toNat
    let body : Nat := if m < 2^F.mbits then m else ((e - F.emin + 1).toNat) * 2^F.mbits + (m - 2^F.mbits)
    body + (if ng then 2^(F.ebits + F.mbits) else 0)

end Sig

/-!
# Go integer semantics and element kinds (core Lean only)

A value of a w-bit Go integer type is an `Int` in range; every arithmetic step of the
transliterated code is followed by `wrapS w` / `wrapU w` (two's complement wrap-around).
-/
namespace Sig

/-- wrap into the signed w-bit range `[-2^(w-1), 2^(w-1))` -/
def wrapS (w : Nat) (x : Int) : Int := (x + 2^(w-1)) % 2^w - 2^(w-1)
/-- wrap into the unsigned w-bit range `[0, 2^w)` -/
def wrapU (w : Nat) (x : Int) : Int := x % 2^w

def inS (w : Nat) (x : Int) : Prop := -(2^(w-1)) ≤ x ∧ x < 2^(w-1)
def inU (w : Nat) (x : Int) : Prop := 0 ≤ x ∧ x < 2^w

instance (w : Nat) (x : Int) : Decidable (inS w x) := by unfold inS; infer_instance
instance (w : Nat) (x : Int) : Decidable (inU w x) := by unfold inU; infer_instance

/-- a Go integer type: width and signedness -/
structure IntTy where
  w : Nat
  signed : Bool
deriving DecidableEq, Repr

def IntTy.wrap (t : IntTy) (x : Int) : Int := if t.signed then wrapS t.w x else wrapU t.w x
def IntTy.inRange (t : IntTy) (x : Int) : Prop := if t.signed then inS t.w x else inU t.w x
instance (t : IntTy) (x : Int) : Decidable (t.inRange x) := by unfold IntTy.inRange; infer_instance
def IntTy.minVal (t : IntTy) : Int := if t.signed then -(2^(t.w-1)) else 0
def IntTy.maxVal (t : IntTy) : Int := if t.signed then 2^(t.w-1) - 1 else 2^t.w - 1

/-- Go's truncated integer division `a / b` (b ≠ 0 is checked by the caller). -/
def goDiv (a b : Int) : Int := Int.tdiv a b

/-- the 13 predeclared numeric element types admitted by `SignalTypes` -/
inductive Kind
  | i8 | i16 | i32 | i64 | int | u8 | u16 | u32 | u64 | uint | uintptr | f32 | f64
deriving DecidableEq, Repr, Inhabited

def Kind.all : List Kind :=
  [.i8, .i16, .i32, .i64, .int, .u8, .u16, .u32, .u64, .uint, .uintptr, .f32, .f64]

/-- size in bits of the type on the modelled platform (amd64: int, uint, uintptr are 64 bits) -/
def Kind.width : Kind → Nat
  | .i8 | .u8 => 8
  | .i16 | .u16 => 16
  | .i32 | .u32 | .f32 => 32
  | _ => 64

def Kind.isFloat : Kind → Bool
  | .f32 | .f64 => true
  | _ => false

def Kind.isSigned : Kind → Bool
  | .i8 | .i16 | .i32 | .i64 | .int => true
  | _ => false

def Kind.isUnsigned : Kind → Bool
  | .u8 | .u16 | .u32 | .u64 | .uint | .uintptr => true
  | _ => false

def Kind.intTy (k : Kind) : IntTy := ⟨k.width, k.isSigned⟩

def Kind.ofString? : String → Option Kind
  | "i8" => some .i8 | "i16" => some .i16 | "i32" => some .i32 | "i64" => some .i64 | "int" => some .int
  | "u8" => some .u8 | "u16" => some .u16 | "u32" => some .u32 | "u64" => some .u64 | "uint" => some .uint
  | "uintptr" => some .uintptr | "f32" => some .f32 | "f64" => some .f64
  | _ => none

def Kind.toString : Kind → String
  | .i8 => "i8" | .i16 => "i16" | .i32 => "i32" | .i64 => "i64" | .int => "int"
  | .u8 => "u8" | .u16 => "u16" | .u32 => "u32" | .u64 => "u64" | .uint => "uint"
  | .uintptr => "uintptr" | .f32 => "f32" | .f64 => "f64"

/-! ## `BitDepth` arithmetic (signal.go: MaxSignedValue … Scale), as coded -/

/-- `func (b BitDepth) MaxSignedValue() int64 { if b == 0 {return 0}; return 1<<(b-1) - 1 }` -/
def maxSignedValue (b : Nat) : Int :=
  if b = 0 then 0 else wrapS 64 (wrapS 64 (2^(b-1)) - 1)

/-- `func (b BitDepth) MaxUnsignedValue() uint64 { if b == 0 {return 0}; return 1<<b - 1 }` -/
def maxUnsignedValue (b : Nat) : Int :=
  if b = 0 then 0 else wrapU 64 (wrapU 64 (2^b) - 1)

/-- `func (b BitDepth) MinSignedValue() int64 { if b == 0 {return 0}; return -1 << (b-1) }` -/
def minSignedValue (b : Nat) : Int :=
  if b = 0 then 0 else wrapS 64 (-(2^(b-1)))

/-- `UnsignedValue`: clip to `[0, max]` -/
def unsignedValue (b : Nat) (v : Int) : Int :=
  let max := maxUnsignedValue b
  if v > max then max else v

/-- `SignedValue`: clip to `[min, max]` -/
def signedValue (b : Nat) (v : Int) : Int :=
  let max := maxSignedValue b
  let min := minSignedValue b
  if v < min then min else if v > max then max else v

/-- `Scale[T](high, low) = T(1 << (high - low))`; the shift is evaluated in `T` (wraps), the shift count
is a `BitDepth` (uint8) difference and so wraps modulo 256. -/
def scale (t : IntTy) (high low : Nat) : Int :=
  t.wrap (2 ^ (((high : Int) - (low : Int)) % 256).toNat)

end Sig

import SignalModel.Basic
import SignalModel.SoftFloat
/-!
# Per-sample computations of the five conversions that involve floating point, and `Frequency`,
transliterated from signal.go.  `none` = the Go code performs a float→integer conversion whose result
the language leaves implementation-defined; the model then makes no prediction.
-/
namespace Sig
open FV

def one64 : FV := .fin 1
def mone64 : FV := .fin (-1)

/-- `D(f)` for an integer type `D` -/
def toIntTy (D : IntTy) (v : FV) : Option Int := FV.toInt D.minVal D.maxVal v

/-- `FloatAsSigned` (signal.go), `msv := D(dst.BitDepth().MaxSignedValue())`:
```
if f := float64(src.Sample(i)); f > 0 {
    if f < 1 { sample = D(f * float64(msv)) } else { sample = msv }
} else if f > -1 { sample = D(f * (float64(msv) + 1)) } else { sample = -msv - 1 }
``` -/
def f2sK (D : IntTy) (db : Nat) (v : FV) : Option Int :=
  let msv := D.wrap (maxSignedValue db)
  let f := FV.conv f64 v
  if FV.lt (.fin 0) f then
    if FV.lt f one64 then toIntTy D (FV.mul f64 f (FV.ofInt f64 msv))
    else some msv
  else if FV.lt mone64 f then toIntTy D (FV.mul f64 f (FV.add f64 (FV.ofInt f64 msv) one64))
  else some (D.wrap (D.wrap (-msv) - 1))

/-- `FloatAsUnsigned` (signal.go), `msv := D(dst.BitDepth().MaxSignedValue()); offset := msv + 1`:
```
if f := float64(src.Sample(i)); f > 0 {
    if f < 1 { sample = D(f*float64(msv)) + offset } else { sample = msv + offset }
} else if f > -1 { sample = offset - D(-f*(float64(msv)+1)) } else { sample = 0 }
``` -/
def f2uK (D : IntTy) (db : Nat) (v : FV) : Option Int :=
  let msv := D.wrap (maxSignedValue db)
  let offset := D.wrap (msv + 1)
  let f := FV.conv f64 v
  if FV.lt (.fin 0) f then
    if FV.lt f one64 then (toIntTy D (FV.mul f64 f (FV.ofInt f64 msv))).map (fun t => D.wrap (t + offset))
    else some (D.wrap (msv + offset))
  else if FV.lt mone64 f then
    (toIntTy D (FV.mul f64 (FV.neg f) (FV.add f64 (FV.ofInt f64 msv) one64))).map (fun t => D.wrap (offset - t))
  else some 0

/-- `SignedAsFloat`, `msv := D(src.BitDepth().MaxSignedValue())` in the destination float type `F`:
`if sample > 0 { D(sample)/msv } else { D(sample)/(msv+1) }` -/
def s2fK (F : Fmt) (sb : Nat) (x : Int) : FV :=
  let msv := FV.ofInt F (maxSignedValue sb)
  if x > 0 then FV.div F (FV.ofInt F x) msv
  else FV.div F (FV.ofInt F x) (FV.add F msv (.fin 1))

/-- `UnsignedAsFloat` as coded:
`if sample > 0 { (D(sample)-(msv+1))/msv } else { (D(sample)-(msv+1))/(msv+1) }`.
Note that the test is on the *code*, not on the amplitude: see known finding C09. -/
def u2fK (F : Fmt) (sb : Nat) (x : Int) : FV :=
  let msv := FV.ofInt F (maxSignedValue sb)
  let msv1 := FV.add F msv (.fin 1)
  if x > 0 then FV.div F (FV.sub F (FV.ofInt F x) msv1) msv
  else FV.div F (FV.sub F (FV.ofInt F x) msv1) msv1

/-- `FloatAsFloat`: `D(src.Sample(i))` -/
def f2fK (FD : Fmt) (v : FV) : FV := FV.conv FD v

/-! ## Frequency -/

def int64Ty : IntTy := ⟨64, true⟩
def secondF : FV := .fin 1000000000

/-- `time.Duration(math.Round(float64(time.Second) / float64(f) * float64(events)))` -/
def duration (f : FV) (events : Int) : Option Int :=
  toIntTy int64Ty (FV.roundHalfAway (FV.mul f64 (FV.div f64 secondF f) (FV.ofInt f64 events)))

/-- `int(math.Round(float64(f) / float64(time.Second) * float64(d)))` -/
def events (f : FV) (d : Int) : Option Int :=
  toIntTy int64Ty (FV.roundHalfAway (FV.mul f64 (FV.div f64 f secondF) (FV.ofInt f64 d)))

/-- `ChannelLength(sliceLen, channels) = int(math.Ceil(float64(sliceLen) / float64(channels)))`,
with the zero-channel guard (returns 0). -/
def channelLengthF (n ch : Int) : Option Int :=
  if ch = 0 then some 0
  else toIntTy int64Ty (FV.ceil (FV.div f64 (FV.ofInt f64 n) (FV.ofInt f64 ch)))

end Sig

import SignalModel.Alloc
/-!
# Heap-object accounting of the model (C18)

The model creates two kinds of heap objects: backing arrays (blocks of the `Heap`) and buffer headers
(`*Buffer[T]`).  `modelAllocs` is the number of objects each steady-state operation creates in the
model; `SignalProofs/Props/C18.lean` proves those numbers from the definitions of the operations.
What the Go compiler and runtime add (escape analysis, boxing, temporaries) is not in the model; the
harness measures it with `testing.AllocsPerRun` and the driver checks `measured ≤ modelAllocs`.
-/
namespace Sig

/-- heap objects created by one steady-state operation of the model -/
def modelAllocs : String → Option Nat
  | "sample" | "setSample" | "appendSample" | "appendSampleFull" => some 0
  | "read" | "write" | "readStriped" | "writeStriped" => some 0
  | "FloatAsFloat" | "FloatAsSigned" | "FloatAsUnsigned" | "SignedAsFloat" | "SignedAsSigned"
  | "SignedAsUnsigned" | "UnsignedAsFloat" | "UnsignedAsSigned" | "UnsignedAsUnsigned" => some 0
  | "appendInPlace" => some 0
  | "channelSample" | "channelSetSample" | "channelView" => some 0
  | "poolCycle" => some 0
  | "lengths" => some 0
  | "slice" => some 1
  | _ => none

end Sig

import SignalModel.Basic
/-!
# The four fixed-point → fixed-point kernels of signal.go, transliterated statement by statement.

`S`, `D` are the source and destination Go integer types, `sb`, `db` the bit depths stored in the two
buffers (for every buffer the library can create, `sb = S.w` and `db = D.w`).  All intermediate values
wrap exactly where the Go code wraps.
-/
namespace Sig

/-- `SignedAsSigned` per-sample computation (signal.go:237-254) -/
def sasK (S D : IntTy) (sb db : Nat) (x : Int) : Int :=
  if sb ≥ db then
    let sc := scale S sb db
    D.wrap (goDiv x sc)
  else
    let sc := scale D db sb
    if x > 0 then D.wrap (D.wrap (D.wrap (D.wrap x + 1) * sc) - 1)
    else D.wrap (D.wrap x * sc)

/-- `SignedAsUnsigned` per-sample computation (signal.go:272-290) -/
def sauK (S D : IntTy) (sb db : Nat) (x : Int) : Int :=
  let msv := D.wrap (maxSignedValue db)
  if sb ≥ db then
    let sc := scale S sb db
    D.wrap (D.wrap (D.wrap (goDiv x sc) + msv) + 1)
  else
    let sc := scale D db sb
    if x > 0 then D.wrap (D.wrap (D.wrap (S.wrap (x + 1)) * sc) + msv)
    else D.wrap (D.wrap (D.wrap (D.wrap x * sc) + msv) + 1)

/-- `UnsignedAsSigned` per-sample computation (signal.go:330-348) -/
def uasK (S D : IntTy) (sb db : Nat) (x : Int) : Int :=
  let msv := maxSignedValue sb
  if sb ≥ db then
    let sc := scale S sb db
    D.wrap (goDiv (S.wrap (x - S.wrap (wrapS 64 (msv + 1)))) sc)
  else
    let sc := scale D db sb
    let sample := D.wrap (D.wrap x - D.wrap (wrapS 64 (msv + 1)))
    if sample > 0 then D.wrap (D.wrap (D.wrap (sample + 1) * sc) - 1)
    else D.wrap (sample * sc)

/-- `UnsignedAsUnsigned` per-sample computation (signal.go:364-383) -/
def uauK (S D : IntTy) (sb db : Nat) (x : Int) : Int :=
  if sb ≥ db then
    let sc := scale S sb db
    D.wrap (goDiv x sc)
  else
    let sc := scale D db sb
    let msv := S.wrap (maxSignedValue sb)
    if x > S.wrap (msv + 1) then D.wrap (D.wrap (D.wrap (S.wrap (x + 1)) * sc) - 1)
    else D.wrap (D.wrap x * sc)

/-- the scale a kernel divides by when narrowing (a zero divisor panics in Go) -/
def downScale (S : IntTy) (sb db : Nat) : Int := scale S sb db

/-- mathematical requantisation of an amplitude to `k` more bits (the widening map of the package) -/
def upAmp (k : Nat) (a : Int) : Int := if a > 0 then (a + 1) * 2^k - 1 else a * 2^k

/-- truncated division by a positive power of two, written so that `omega` can digest it -/
def truncDiv (a : Int) (d : Int) : Int := if 0 ≤ a then a / d else -((-a) / d)

end Sig

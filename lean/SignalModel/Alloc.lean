import SignalModel.Buffer
import SignalModel.Quant
import SignalModel.FloatK
/-!
# Allocation, the pool allocator, and the dispatch of the nine conversions on element kinds
(allocator.go, pool.go, signal.go)
-/
namespace Sig

/-- `getBitDepth[T]()`: the size of `T` in bits.  `named` marks a defined type whose underlying type
is the predeclared kind (`type Sample int16`); the size – and so the depth – is that of the kind. -/
def getBitDepth (k : Kind) (_named : Bool) : Nat := k.width

/-- `Alloc[T](Allocator{ch, len, cap})`; `none` = `make` panics (`len > cap`) -/
def alloc (h : Heap) (k : Kind) (named : Bool) (ch len cap : Nat) : Option (Heap × Buf) :=
  if ch * len ≤ ch * cap then
    some (h ++ [List.replicate (ch * cap) 0],
      { ch := ch, blk := h.length, off := 0, len := ch * len, cap := ch * cap, kind := k,
        depth := getBitDepth k named })
  else none

/-! ## pool allocator -/

structure Pool where
  kind : Kind
  ch : Nat
  len : Nat
  cap : Nat
  /-- ids of the buffer headers currently inside the `sync.Pool` -/
  free : List Nat
deriving Repr, Inhabited

/-- `Buffer.clear()`: zero `data[0:len]` -/
def Buf.clear (h : Heap) (b : Buf) : Heap := storeList h b.blk b.off (List.replicate b.len 0)

/-- `PoolAllocator.Put(b)` on the header `b`:
```
mustSame(p.alloc.Capacity*p.alloc.Channels, b.Cap(), diffCapacity)
b.data = b.data[:b.Cap()]; b.clear(); b.data = b.data[:p.alloc.Channels*p.alloc.Length]
p.pool.Put(b)
```
Returns the new heap and the header as stored. -/
def Pool.put (p : Pool) (h : Heap) (b : Buf) : Res Buf :=
  if p.cap * p.ch ≠ b.cap then .panic h .diffCapacity
  else
    let b1 := { b with len := b.cap }
    let h1 := b1.clear h
    if p.ch * p.len ≤ b.cap then .ok h1 { b1 with len := p.ch * p.len }
    else .panic h1 .sliceBounds

/-! ## value conversions `D(x)` between element kinds (used by Read/Write) -/

def Kind.fmt (k : Kind) : Fmt := if k = Kind.f32 then Sig.f32 else Sig.f64

/-- decode a cell of kind `k` into a float value (floats are stored as bit patterns) -/
def cellToFV (k : Kind) (x : Int) : FV := decodeBits k.fmt x.toNat
def fvToCell (k : Kind) (v : FV) : Int := (encodeBits k.fmt v : Nat)

/-- Go conversion `D(x)` for `x : S` -/
def cvt (s d : Kind) (x : Int) : Option Int :=
  if s.isFloat then
    if d.isFloat then some (fvToCell d (FV.conv d.fmt (cellToFV s x)))
    else toIntTy d.intTy (cellToFV s x)
  else
    if d.isFloat then some (fvToCell d (FV.ofInt d.fmt x))
    else some (d.intTy.wrap x)

/-- which of the nine conversion functions -/
inductive ConvFn
  | floatAsFloat | floatAsSigned | floatAsUnsigned | signedAsFloat | signedAsSigned | signedAsUnsigned
  | unsignedAsFloat | unsignedAsSigned | unsignedAsUnsigned
deriving DecidableEq, Repr, Inhabited

def ConvFn.ofString? : String → Option ConvFn
  | "FloatAsFloat" => some .floatAsFloat | "FloatAsSigned" => some .floatAsSigned
  | "FloatAsUnsigned" => some .floatAsUnsigned | "SignedAsFloat" => some .signedAsFloat
  | "SignedAsSigned" => some .signedAsSigned | "SignedAsUnsigned" => some .signedAsUnsigned
  | "UnsignedAsFloat" => some .unsignedAsFloat | "UnsignedAsSigned" => some .unsignedAsSigned
  | "UnsignedAsUnsigned" => some .unsignedAsUnsigned
  | _ => none

/-- the function is instantiable at kinds `(s, d)` -/
def ConvFn.admits (f : ConvFn) (s d : Kind) : Bool :=
  match f with
  | .floatAsFloat => s.isFloat && d.isFloat
  | .floatAsSigned => s.isFloat && d.isSigned
  | .floatAsUnsigned => s.isFloat && d.isUnsigned
  | .signedAsFloat => s.isSigned && d.isFloat
  | .signedAsSigned => s.isSigned && d.isSigned
  | .signedAsUnsigned => s.isSigned && d.isUnsigned
  | .unsignedAsFloat => s.isUnsigned && d.isFloat
  | .unsignedAsSigned => s.isUnsigned && d.isSigned
  | .unsignedAsUnsigned => s.isUnsigned && d.isUnsigned

/-- per-sample kernel on cells, for source kind/depth and destination kind/depth -/
def kernel (f : ConvFn) (s : Kind) (sb : Nat) (d : Kind) (db : Nat) (x : Int) : Option Int :=
  match f with
  | .floatAsFloat => some (fvToCell d (f2fK d.fmt (cellToFV s x)))
  | .floatAsSigned => f2sK d.intTy db (cellToFV s x)
  | .floatAsUnsigned => f2uK d.intTy db (cellToFV s x)
  | .signedAsFloat => some (fvToCell d (s2fK d.fmt sb x))
  | .unsignedAsFloat => some (fvToCell d (u2fK d.fmt sb x))
  | .signedAsSigned => some (sasK s.intTy d.intTy sb db x)
  | .signedAsUnsigned => some (sauK s.intTy d.intTy sb db x)
  | .unsignedAsSigned => some (uasK s.intTy d.intTy sb db x)
  | .unsignedAsUnsigned => some (uauK s.intTy d.intTy sb db x)

/-- a narrowing fixed→fixed conversion divides by `Scale`; Go panics on a zero divisor -/
def kernelDivZero (f : ConvFn) (s : Kind) (sb db : Nat) : Bool :=
  match f with
  | .signedAsSigned | .signedAsUnsigned | .unsignedAsSigned | .unsignedAsUnsigned =>
    sb ≥ db && downScale s.intTy sb db == 0
  | _ => false

/-- one of the nine conversions applied to two buffers -/
def convertFn (f : ConvFn) (h : Heap) (src dst : Buf) : Res Nat :=
  if src.ch = dst.ch ∧ min src.len dst.len ≠ 0 ∧ kernelDivZero f src.kind src.depth dst.depth then
    .panic h .divZero
  else convert (kernel f src.kind src.depth dst.kind dst.depth) h src dst

end Sig

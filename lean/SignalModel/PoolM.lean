import SignalModel.Alloc
/-!
# The pool allocator as a state machine (executable, core Lean only)

State: the heap, the buffer headers the pool has ever handed out (by id), which of them are inside the
`sync.Pool` (`free`) and which are checked out, and by which goroutine (`out`).  `sync.Pool.Get` may
return any pooled object or call `New`; both are steps of the machine (`getReuse id`, `getNew`);
`drop id` is the garbage collector discarding a pooled object.  Steps are tagged with the goroutine
performing them and are atomic.  The driver validates the linearised get/put log of the concurrent
harness against this machine; `SignalProofs/Props/C10.lean` proves its invariant over all histories.
-/
namespace Sig.PoolM
open Sig

abbrev Gid := Nat

structure PSt where
  heap : Heap
  bufs : List Buf
  free : List Nat
  out : List (Nat × Gid)

/-- allocator parameters -/
structure Par where
  kind : Kind
  ch : Nat
  len : Nat
  cap : Nat

inductive Step
  | getNew (g : Gid)
  | getReuse (g : Gid) (id : Nat)
  | store (g : Gid) (id : Nat) (i : Nat) (v : Int)
  | setLen (g : Gid) (id : Nat) (n : Nat)
  | put (g : Gid) (id : Nat)
  | drop (id : Nat)

def holder (s : PSt) (id : Nat) : Option Gid := (s.out.find? (·.1 = id)).map (·.2)

def pool (p : Par) (s : PSt) : Sig.Pool := { kind := p.kind, ch := p.ch, len := p.len, cap := p.cap, free := s.free }

def stepGetNew (p : Par) (s : PSt) (g : Gid) : PSt :=
  match alloc s.heap p.kind false p.ch p.len p.cap with
  | some (h, b) => { s with heap := h, bufs := s.bufs ++ [b], out := (s.bufs.length, g) :: s.out }
  | none => s

def stepGetReuse (s : PSt) (g : Gid) (id : Nat) : PSt :=
  if id ∈ s.free then { s with free := s.free.erase id, out := (id, g) :: s.out } else s

def stepStore (s : PSt) (g : Gid) (id i : Nat) (v : Int) : PSt :=
  match s.bufs[id]? with
  | some b => if holder s id = some g ∧ i < b.cap then { s with heap := store s.heap b.blk (b.off + i) v } else s
  | none => s

def stepSetLen (s : PSt) (g : Gid) (id n : Nat) : PSt :=
  match s.bufs[id]? with
  | some b => if holder s id = some g ∧ n ≤ b.cap then { s with bufs := s.bufs.set id { b with len := n } } else s
  | none => s

def stepPut (p : Par) (s : PSt) (g : Gid) (id : Nat) : PSt :=
  match s.bufs[id]? with
  | some b =>
    if holder s id = some g then
      match (pool p s).put s.heap b with
      | .ok h b' => { s with heap := h, bufs := s.bufs.set id b', free := id :: s.free,
                             out := s.out.filter (·.1 ≠ id) }
      | _ => s
    else s
  | none => s

def stepDrop (s : PSt) (id : Nat) : PSt := { s with free := s.free.erase id }

/-- one atomic step; a step that is not enabled (wrong holder, id not pooled, index outside the
capacity, `make` panicking) leaves the state unchanged -/
def step (p : Par) (s : PSt) : Step → PSt
  | .getNew g => stepGetNew p s g
  | .getReuse g id => stepGetReuse s g id
  | .store g id i v => stepStore s g id i v
  | .setLen g id n => stepSetLen s g id n
  | .put g id => stepPut p s g id
  | .drop id => stepDrop s id

def run (p : Par) (s : PSt) (steps : List Step) : PSt := steps.foldl (step p) s

def init : PSt := ⟨[], [], [], []⟩

/-- is the step enabled in `s` (used by the driver to validate an observed log) -/
def enabled (p : Par) (s : PSt) : Step → Bool
  | .getNew _ => (alloc s.heap p.kind false p.ch p.len p.cap).isSome
  | .getReuse _ id => s.free.contains id
  | .store g id i _ => match s.bufs[id]? with
    | some b => holder s id == some g && decide (i < b.cap)
    | none => false
  | .setLen g id n => match s.bufs[id]? with
    | some b => holder s id == some g && decide (n ≤ b.cap)
    | none => false
  | .put g id => holder s id == some g
  | .drop id => s.free.contains id

end Sig.PoolM

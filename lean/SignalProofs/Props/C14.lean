import SignalModel.SpecMem
import SignalProofs.Lemmas.Heap
import SignalProofs.Props.C02
/-!
# C14 — a channel view addresses exactly its channel of the parent buffer

Model: `chanIndex`, `chanSample`, `chanSetSample`, `chanChannels/Length/Capacity` (the methods of `C[T]`).
-/
namespace Sig.C14
open Sig
set_option linter.unusedVariables false

/-- **index**: the buffer index reported for `i` is the parent's interleaved position of `(c, i)`
(no wrap-around as long as that position fits Go's `int`) -/
theorem chan_index (b : Buf) (c i : Nat) (hfit : ((b.ch * i + c : Nat) : Int) < 2^63) :
    chanIndex b (c : Int) (i : Int) = ((b.ch * i + c : Nat) : Int) := by
  unfold chanIndex bufferIndex
  have e : ((b.ch : Int) * (i : Int)) = ((b.ch * i : Nat) : Int) := by push_cast; rfl
  have e1 : wrapI ((b.ch * i : Nat) : Int) = ((b.ch * i : Nat) : Int) := C02.wrapI_id _ (by omega)
  rw [e, e1]
  have e2 : ((b.ch * i : Nat) : Int) + (c : Int) = ((b.ch * i + c : Nat) : Int) := by push_cast; rfl
  rw [e2, C02.wrapI_id _ (by omega)]

/-- **read**: index `i` of the view of channel `c` is the parent's sample at position `channels*i+c` -/
theorem chan_sample (h : Heap) (b : Buf) (c i : Nat) (hfit : ((b.ch * i + c : Nat) : Int) < 2^63) :
    chanSample h b (c : Int) (i : Int) = b.sample h ((b.ch * i + c : Nat) : Int) := by
  unfold chanSample; rw [chan_index b c i hfit]

/-- **write**: changes that storage cell and no other … -/
theorem chan_set (h : Heap) (b : Buf) (c i : Nat) (v : Int) (hw : b.wf h) (hin : b.ch * i + c < b.len)
    (hfit : ((b.ch * i + c : Nat) : Int) < 2^63) :
    ∃ h', chanSetSample h b (c : Int) (i : Int) v = some h' ∧
      ∀ blk j, cell h' blk j = if blk = b.blk ∧ j = b.off + (b.ch * i + c) then some v else cell h blk j := by
  unfold chanSetSample
  rw [chan_index b c i hfit, Buf.setSample_eq h b _ v hin]
  refine ⟨_, rfl, fun blk j => ?_⟩
  exact cell_store_of_room h b.blk _ blk j v (b.off + b.cap) hw.2 (by have := hw.1; omega)

/-- … so the value written through the view is read back through the view -/
theorem chan_set_get (h : Heap) (b : Buf) (c i : Nat) (v : Int) (hw : b.wf h) (hin : b.ch * i + c < b.len)
    (hfit : ((b.ch * i + c : Nat) : Int) < 2^63) :
    ∀ h', chanSetSample h b (c : Int) (i : Int) v = some h' → chanSample h' b (c : Int) (i : Int) = some v := by
  intro h' hs
  obtain ⟨h'', e, hc⟩ := chan_set h b c i v hw hin hfit
  rw [hs] at e; have e := Option.some.inj e; subst e
  rw [chan_sample h' b c i hfit, Buf.sample_eq h' b _ hin, hc]
  simp

/-- … and every other sample of the parent is unchanged -/
theorem chan_set_others (h : Heap) (b : Buf) (c i : Nat) (v : Int) (hw : b.wf h) (hin : b.ch * i + c < b.len)
    (hfit : ((b.ch * i + c : Nat) : Int) < 2^63) (j : Nat) (hj : j < b.len) (hne : j ≠ b.ch * i + c) :
    ∀ h', chanSetSample h b (c : Int) (i : Int) v = some h' → b.sample h' (j : Int) = b.sample h (j : Int) := by
  intro h' hs
  obtain ⟨h'', e, hc⟩ := chan_set h b c i v hw hin hfit
  rw [hs] at e; have e := Option.some.inj e; subst e
  rw [Buf.sample_eq h' b j hj, Buf.sample_eq h b j hj, hc]
  have : ¬ (b.blk = b.blk ∧ b.off + j = b.off + (b.ch * i + c)) := by omega
  rw [if_neg this]

/-- **shape**: one channel, the parent's per-channel length and capacity -/
theorem chan_shape (b : Buf) : chanChannels b = 1 ∧ chanLength b = b.length ∧ chanCapacity b = b.capacity :=
  ⟨rfl, rfl, rfl⟩

/-- distinct (channel, index) pairs of one buffer address distinct positions: the views of different
channels never alias -/
theorem chan_positions_injective (ch c i c' i' : Nat) (hc : c < ch) (hc' : c' < ch)
    (h : ch * i + c = ch * i' + c') : c = c' ∧ i = i' := by
  have h1 : (ch * i + c) % ch = c := by rw [Nat.mul_add_mod]; exact Nat.mod_eq_of_lt hc
  have h2 : (ch * i' + c') % ch = c' := by rw [Nat.mul_add_mod]; exact Nat.mod_eq_of_lt hc'
  have hcc : c = c' := by rw [← h1, ← h2, h]
  subst hcc
  have : ch * i = ch * i' := by omega
  exact ⟨rfl, Nat.eq_of_mul_eq_mul_left (by omega) this⟩

example :
    let h : Heap := [[0, 1, 2, 10, 11, 12, 20, 21, 22]]
    let b : Buf := { ch := 3, blk := 0, off := 0, len := 9, cap := 9, kind := .i8, depth := 8 }
    chanSample h b 2 0 = some 2 ∧ chanSample h b 2 1 = some 12 ∧ chanSample h b 2 2 = some 22 ∧
    chanIndex b 2 1 = 5 := by decide

end Sig.C14

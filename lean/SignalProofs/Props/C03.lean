import SignalModel.SpecMem
import SignalProofs.Lemmas.Xfer
/-!
# C03 — Append concatenates per channel, in place whenever capacity allows

Model: `Buf.append` (SignalModel/Buffer.lean), for **every** admissible capacity `g` of the new
backing array when the runtime has to grow (`growOK`: at least the new length, a whole number of
frames – what `append` followed by `alignCapacity` delivers).
-/
namespace Sig.C03
open Sig
set_option linter.unusedVariables false
set_option linter.unusedSimpArgs false

/-- the readable samples of a view -/
def cells (h : Heap) (b : Buf) : List Int :=
  (List.range b.len).map fun j => (cell h b.blk (b.off + j)).getD 0

theorem cells_length (h : Heap) (b : Buf) : (cells h b).length = b.len := by simp [cells]

theorem cells_get (h : Heap) (b : Buf) (hw : b.wf h) (j : Nat) (hj : j < b.len) :
    cell h b.blk (b.off + j) = (cells h b)[j]? := by
  obtain ⟨v, hv⟩ := cell_isSome_of_room h b.blk (b.off + b.cap) (b.off + j) hw.2 (by have := hw.1; omega)
  simp [cells, hj, hv]

theorem mapM_some (xs : List Int) : xs.mapM (some : Int → Option Int) = some xs := by
  induction xs with
  | nil => rfl
  | cons x xs ih => simp [List.mapM_cons, ih]

theorem alignCap_aligned (ch cap : Nat) (h : ch = 0 ∨ cap % ch = 0) : alignCap ch cap = cap := by
  unfold alignCap; rcases h with h | h <;> simp [h]

/-- **in place**: the old capacity suffices. Nothing is reallocated: same block, same offset, same
capacity; the length grows by exactly the source length; exactly the cells
`[off+len, off+len+|src|)` of the destination's block receive the source samples in order – so every
other view of that storage sees the appended samples – and every other cell of every block is
unchanged.  `self = true` is `b.Append(b)`.  No disjointness is assumed: as with `append` on plain Go
slices the source samples are those of the state *before* the call, also when the source is a window
of the destination's own spare capacity (it is then overwritten, which is why C03 itself presupposes a
source that does not overlap; C12 does not). -/
theorem append_in_place (h : Heap) (dst src : Buf) (self : Bool) (g : Nat)
    (hch : dst.ch = src.ch) (hwd : dst.wf h) (hws : src.wf h)
    (hal : dst.ch = 0 ∨ dst.cap % dst.ch = 0)
    (hfit : dst.len + src.len ≤ dst.cap)
    (hself : self = true → src = dst) :
    dst.append h src self g =
      .ok (storeList h dst.blk (dst.off + dst.len) (cells h src)) { dst with len := dst.len + src.len } := by
  unfold Buf.append
  have ne : ¬ dst.ch ≠ src.ch := by simp [hch]
  have nlt : ¬ dst.cap < dst.len + src.len := by omega
  simp only [ne, if_false, nlt]
  rw [alignCap_aligned _ _ hal]
  cases hs : self with
  | true =>
    have e := hself hs; subst e
    simp only [if_true]
    rfl
  | false =>
    simp only [Bool.false_eq_true, if_false]
    rfl

/-- what every cell holds after an in-place append -/
theorem append_in_place_cells (h : Heap) (dst src : Buf) (hwd : dst.wf h) (hws : src.wf h)
    (hfit : dst.len + src.len ≤ dst.cap) (blk i : Nat) :
    cell (storeList h dst.blk (dst.off + dst.len) (cells h src)) blk i =
      if blk = dst.blk ∧ dst.off + dst.len ≤ i ∧ i < dst.off + dst.len + src.len
      then (cells h src)[i - (dst.off + dst.len)]? else cell h blk i := by
  have := cell_storeList h dst.blk (dst.off + dst.len) (cells h src) (dst.off + dst.cap) hwd.2
    (by rw [cells_length]; omega) blk i
  rw [cells_length] at this
  exact this

/-- the block a growing append creates: old contents, then zeros up to the new capacity -/
def grownBlock (h : Heap) (dst : Buf) (g : Nat) : List Int :=
  (List.range dst.len).map (fun i => (cell h dst.blk (dst.off + i)).getD 0) ++ List.replicate (g - dst.len) 0

/-- **growing**: the old capacity does not suffice. For every admissible new capacity `g` the
destination moves to a block that did not exist before (index `h.length`), at offset 0, with length
`len+|src|` and capacity `g` (a whole number of frames, at least the length); the new block holds the
old contents followed by the source samples followed by zeros; no existing block is modified – views
of the old storage are left untouched. -/
theorem append_grow (h : Heap) (dst src : Buf) (self : Bool) (g : Nat)
    (hch : dst.ch = src.ch) (hwd : dst.wf h) (hws : src.wf h)
    (hgrow : dst.cap < dst.len + src.len) (hg : growOK dst src g = true)
    (hself : self = true → src = dst) :
    dst.append h src self g =
      .ok (storeList (h ++ [grownBlock h dst g]) h.length dst.len (cells h src))
          { dst with blk := h.length, off := 0, len := dst.len + src.len, cap := g } := by
  unfold growOK at hg
  simp only [Bool.and_eq_true, Bool.or_eq_true, decide_eq_true_eq, beq_iff_eq] at hg
  obtain ⟨hg1, hg2⟩ := hg
  unfold Buf.append
  have ne : ¬ dst.ch ≠ src.ch := by simp [hch]
  simp only [ne, if_false, hgrow, if_true]
  have hcl := cells_length h src
  let h1 : Heap := h ++ [grownBlock h dst g]
  let dst1 : Buf := { dst with blk := h.length, off := 0, len := dst.len + src.len, cap := g }
  have hgl : (grownBlock h dst g).length = g := by simp [grownBlock]; omega
  have hblk : h1[h.length]? = some (grownBlock h dst g) := by simp [h1]
  have hw1 : dst1.wf h1 := ⟨by simp [dst1]; omega, grownBlock h dst g, hblk, by simp [dst1, hgl]⟩
  have hsrcblk : src.blk < h.length := by
    obtain ⟨_, bl, hb, _⟩ := hws; exact (List.getElem?_eq_some_iff.mp hb).1
  have hal : alignCap dst.ch g = g := alignCap_aligned _ _ (by rcases hg2 with a | a; left; exact a; right; exact a)
  -- what `copy` reads from the (possibly moved) source is what the source held before the call
  have hfc : Buf.firstCells h1 (if self = true then dst1 else src) src.len = cells h src := by
    unfold Buf.firstCells cells
    apply List.map_congr_left
    intro j hj
    have hj' : j < src.len := List.mem_range.mp hj
    cases hs : self with
    | true =>
      have e := hself hs; subst e
      simp only [if_true]
      have hj'' : j < (List.range src.len).length := by simpa using hj'
      simp [dst1, cell, h1, grownBlock, hj', List.getElem?_append_left]
    | false =>
      simp only [Bool.false_eq_true, if_false]
      simp [cell, h1, List.getElem?_append_left hsrcblk]
  show Res.ok (storeList h1 h.length (0 + dst.len) (Buf.firstCells h1 (if self = true then dst1 else src) src.len))
      { dst1 with cap := alignCap dst1.ch dst1.cap } = Res.ok (storeList h1 h.length dst.len (cells h src)) dst1
  rw [hfc, Nat.zero_add]
  simp only [dst1, hal]

/-- after a growing append: existing blocks are untouched, the new block did not exist -/
theorem append_grow_old_untouched (h : Heap) (dst src : Buf) (g : Nat) (blk i : Nat) (hb : blk < h.length) :
    cell (storeList (h ++ [grownBlock h dst g]) h.length dst.len (cells h src)) blk i = cell h blk i := by
  rw [cell_storeList_other _ _ _ _ _ _ (by omega)]
  simp [cell, List.getElem?_append_left hb]

/-- contents of the new block -/
theorem append_grow_contents (h : Heap) (dst src : Buf) (g : Nat) (hwd : dst.wf h)
    (hg1 : dst.len + src.len ≤ g) (i : Nat) (hi : i < g) :
    cell (storeList (h ++ [grownBlock h dst g]) h.length dst.len (cells h src)) h.length i =
      if i < dst.len then cell h dst.blk (dst.off + i)
      else if i < dst.len + src.len then (cells h src)[i - dst.len]? else some 0 := by
  have hgl : (grownBlock h dst g).length = g := by simp [grownBlock]; omega
  have hr : hasRoom (h ++ [grownBlock h dst g]) h.length g := ⟨grownBlock h dst g, by simp, by omega⟩
  rw [cell_storeList _ _ _ _ g hr (by rw [cells_length]; omega), cells_length]
  have hnew : cell (h ++ [grownBlock h dst g]) h.length i = (grownBlock h dst g)[i]? := by simp [cell]
  by_cases h1 : i < dst.len
  · have : ¬ (h.length = h.length ∧ dst.len ≤ i ∧ i < dst.len + src.len) := by omega
    rw [if_neg this, if_pos h1, hnew]
    obtain ⟨v, hv⟩ := cell_isSome_of_room h dst.blk (dst.off + dst.cap) (dst.off + i) hwd.2 (by have := hwd.1; omega)
    rw [hv]
    simp [grownBlock, List.getElem?_append_left, h1, hv]
  · rw [if_neg h1]
    by_cases h2 : i < dst.len + src.len
    · have : (h.length = h.length ∧ dst.len ≤ i ∧ i < dst.len + src.len) := ⟨rfl, by omega, h2⟩
      rw [if_pos this, if_pos h2]
    · have : ¬ (h.length = h.length ∧ dst.len ≤ i ∧ i < dst.len + src.len) := by omega
      rw [if_neg this, if_neg h2, hnew]
      have hlen : (List.map (fun i => (cell h dst.blk (dst.off + i)).getD 0) (List.range dst.len)).length = dst.len := by simp
      unfold grownBlock
      rw [List.getElem?_append_right (by rw [hlen]; omega), hlen]
      rw [List.getElem?_replicate]
      have : i - dst.len < g - dst.len := by omega
      simp [this]

/-- capacity after any append is a whole number of frames and at least the length -/
theorem append_cap_aligned (h : Heap) (dst src : Buf) (self : Bool) (g : Nat) (h' : Heap) (b' : Buf)
    (hch : dst.ch = src.ch) (hwd : dst.wf h) (hws : src.wf h) (hal : dst.ch = 0 ∨ dst.cap % dst.ch = 0)
    (hg : dst.cap < dst.len + src.len → growOK dst src g = true)
    (hself : self = true → src = dst)
    (hr : dst.append h src self g = .ok h' b') :
    b'.len = dst.len + src.len ∧ b'.len ≤ b'.cap ∧ (b'.ch = 0 ∨ b'.cap % b'.ch = 0) ∧ b'.ch = dst.ch := by
  by_cases hfit : dst.len + src.len ≤ dst.cap
  · rw [append_in_place h dst src self g hch hwd hws hal hfit hself] at hr
    injection hr with _ e; subst e
    exact ⟨rfl, hfit, hal, rfl⟩
  · have hgr : dst.cap < dst.len + src.len := by omega
    have hg' := hg hgr
    rw [append_grow h dst src self g hch hwd hws hgr hg' hself] at hr
    injection hr with _ e; subst e
    unfold growOK at hg'
    simp only [Bool.and_eq_true, Bool.or_eq_true, decide_eq_true_eq, beq_iff_eq] at hg'
    exact ⟨rfl, hg'.1, hg'.2, rfl⟩

/-! ### growth by whole frames (the repaired `Append`)

The runtime may deliver *any* capacity `c ≥ need` for `append(data, make([]D, grow)...)`; the code then
cuts it to `c - c % ch`.  With `need` rounded up to whole frames (`needFrames`) every such `c` gives an
admissible capacity; without the rounding (the code before the repair) `c = newLen` is a raw capacity
for which the aligned capacity falls below the length whenever `newLen` is not a whole number of
frames - the panic of known-findings entry `C03-partial-frame-growth`. -/

/-- the number of samples the repaired `Append` asks the runtime for: the new length completed to a
whole number of frames -/
def needFrames (ch newLen : Nat) : Nat :=
  if ch ≠ 0 ∧ newLen % ch ≠ 0 then newLen + (ch - newLen % ch) else newLen

theorem needFrames_spec (ch newLen : Nat) :
    newLen ≤ needFrames ch newLen ∧ (ch = 0 ∨ needFrames ch newLen % ch = 0) := by
  unfold needFrames
  by_cases h : ch ≠ 0 ∧ newLen % ch ≠ 0
  · rw [if_pos h]
    obtain ⟨h0, h1⟩ := h
    have hlt : newLen % ch < ch := Nat.mod_lt _ (Nat.pos_of_ne_zero h0)
    refine ⟨by omega, Or.inr ?_⟩
    have hd := Nat.div_add_mod newLen ch
    have e : newLen + (ch - newLen % ch) = ch * (newLen / ch + 1) := by
      rw [Nat.mul_add, Nat.mul_one]; omega
    rw [e]; exact Nat.mul_mod_right _ _
  · rw [if_neg h]
    refine ⟨Nat.le_refl _, ?_⟩
    by_cases h0 : ch = 0
    · exact Or.inl h0
    · right
      exact Decidable.byContradiction fun hc => h ⟨h0, hc⟩

/-- **every raw capacity the runtime may deliver is admissible after alignment** (repaired code) -/
theorem grow_whole_frames_admissible (dst src : Buf) (c : Nat)
    (hc : needFrames dst.ch (dst.len + src.len) ≤ c) :
    growOK dst src (alignCap dst.ch c) = true := by
  obtain ⟨h1, h2⟩ := needFrames_spec dst.ch (dst.len + src.len)
  unfold growOK alignCap
  simp only [Bool.and_eq_true, Bool.or_eq_true, decide_eq_true_eq, beq_iff_eq]
  by_cases h0 : dst.ch = 0
  · simp only [h0, if_true]; exact ⟨by omega, Or.inl trivial⟩
  · simp only [h0, if_false]
    rcases h2 with h2 | h2
    · exact absurd h2 h0
    · have hpos : 0 < dst.ch := Nat.pos_of_ne_zero h0
      -- the request is a multiple of ch and at most c, so it is at most c - c % ch
      obtain ⟨q, hq⟩ := Nat.dvd_of_mod_eq_zero h2
      have hcd := Nat.div_add_mod c dst.ch
      have hqle : q ≤ c / dst.ch := by
        rw [Nat.le_div_iff_mul_le hpos, Nat.mul_comm]; rw [← hq]; exact hc
      have : dst.ch * q ≤ dst.ch * (c / dst.ch) := Nat.mul_le_mul_left _ hqle
      refine ⟨by omega, Or.inr ?_⟩
      have e : c - c % dst.ch = dst.ch * (c / dst.ch) := by omega
      rw [e]; exact Nat.mul_mod_right _ _

/-- **the code before the repair**: asking for exactly the new length admits a raw capacity whose
alignment falls below the length - for every new length that is not a whole number of frames -/
theorem unrepaired_growth_counterexample (ch newLen : Nat) (h0 : ch ≠ 0) (hp : newLen % ch ≠ 0) :
    alignCap ch newLen < newLen := by
  unfold alignCap
  simp only [h0, if_false]
  have : 0 < newLen % ch := Nat.pos_of_ne_zero hp
  have : newLen % ch ≤ newLen := Nat.mod_le _ _
  omega

example :
    let h : Heap := [[1, 2, 3, 4, 0, 0]]
    let b : Buf := { ch := 2, blk := 0, off := 0, len := 4, cap := 6, kind := .i8, depth := 8 }
    (match b.append h b true 8 with
     | .ok h' b' => h' == [[1, 2, 3, 4, 0, 0], [1, 2, 3, 4, 1, 2, 3, 4]] && b'.blk == 1 && b'.len == 8 && b'.cap == 8
     | _ => false) = true := by decide

end Sig.C03

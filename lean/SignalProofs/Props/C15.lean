import SignalModel.SpecMem
import SignalProofs.Lemmas.Heap
/-!
# C15 — shape mismatches are rejected before anything is modified

Every operation of the model threads the heap through a panic (`Res.panic h p` carries the heap *at
the moment of the panic*), so "the state component of the result is the input heap" says that no
store preceded the guard.  Headers, the caller's slices and the pool's free list are values in the
model and are only replaced on an `ok` result.
-/
namespace Sig.C15
open Sig
set_option linter.unusedVariables false

/-- all nine conversions: different channel counts ⇒ panic `diffChannels`, heap untouched -/
theorem conv_mismatch (f : ConvFn) (h : Heap) (src dst : Buf) (hne : src.ch ≠ dst.ch) :
    convertFn f h src dst = .panic h .diffChannels := by
  unfold convertFn convert
  simp [hne]

/-- `Append` -/
theorem append_mismatch (h : Heap) (dst src : Buf) (self : Bool) (g : Nat) (hne : dst.ch ≠ src.ch) :
    dst.append h src self g = .panic h .diffChannels := by
  unfold Buf.append; simp [hne]

/-- `WriteStriped`: number of per-channel slices ≠ channel count -/
theorem writeStriped_mismatch (cv : Int → Option Int) (h : Heap) (src : List (List Int)) (dst : Buf)
    (hne : dst.ch ≠ src.length) : writeStriped cv h src dst = .panic h .diffChannels := by
  unfold writeStriped; simp [hne]

/-- `ReadStriped` -/
theorem readStriped_mismatch (cv : Int → Option Int) (h : Heap) (src : Buf) (dst : List (List Int))
    (hne : src.ch ≠ dst.length) : readStriped cv h src dst = .panic h .diffChannels := by
  unfold readStriped; simp [hne]

/-- `PoolAllocator.Put`: total capacity differs from the pool's ⇒ panic `diffCapacity`, the buffer is
not cleared and (the result not being `ok`) not added to the pool -/
theorem put_mismatch (p : Pool) (h : Heap) (b : Buf) (hne : p.cap * p.ch ≠ b.cap) :
    p.put h b = .panic h .diffCapacity := by
  unfold Pool.put; simp [hne]

/-- conversely the guards do not fire on matching shapes (so the theorems above are not vacuous
statements about a function that always panics) -/
theorem conv_match_no_mismatch_panic (f : ConvFn) (h : Heap) (src dst : Buf) (he : src.ch = dst.ch)
    (hl : min src.len dst.len = 0) : convertFn f h src dst = .ok h 0 := by
  unfold convertFn convert
  simp [he, hl]

example :
    let h : Heap := [[1, 2, 3, 4], [5, 6, 7, 8, 9, 10]]
    let s : Buf := { ch := 2, blk := 0, off := 0, len := 4, cap := 4, kind := .i8, depth := 8 }
    let d : Buf := { ch := 3, blk := 1, off := 0, len := 6, cap := 6, kind := .i16, depth := 16 }
    s.ch ≠ d.ch ∧ (match convertFn .signedAsSigned h s d with | .panic h' p => h' == h && p == .diffChannels | _ => false) = true := by
  decide

end Sig.C15

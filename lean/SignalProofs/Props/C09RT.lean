import SignalProofs.Props.C09
import SignalProofs.Props.C08
import SignalProofs.Lemmas.RneGrid
import SignalProofs.Props.C05F
/-!
# C09 — exact round trip `SignedAsFloat` ∘ `FloatAsSigned` through float64 for 16- and 32-bit codes

For a positive code `x < M = 2^(b−1) − 1`: `q = rne(x/M)`, `z = q·M`, and the code that comes back is
`trunc(rne z)`.  `x` lies on the rounding grid of `z`, and `|z − x| = M·|q − x/M| ≤ M·2^(k−53)` with
`k = ilog2(x/M) = j + 1 − b` where `2^j < x < 2^(j+1)`; since `M·2^k = 2^j − 2^(j+1−b) < 2^j`, the
distance is below half a grid step, so `rne z = x` (`rne_eq_of_close`).  Powers of two `x = 2^j` are
the inputs where `z` may fall into the binade below; they are a finite table.  Non-positive codes are
divided by a power of two, which is exact.
-/
namespace Sig.C09RT
open Sig FV
set_option linter.unusedVariables false
set_option linter.unusedSimpArgs false

theorem f64p : (1:ℕ) ≤ f64.p := by decide

/-- `ilog2` is determined by the binade -/
theorem ilog2_of_bounds {z : ℚ} (hz : 0 < z) (j : ℤ) (h1 : (2:ℚ)^j ≤ z) (h2 : z < 2^(j+1)) : ilog2 z = j := by
  obtain ⟨l1, l2⟩ := ilog2_spec z hz
  have a : (2:ℚ)^j < 2^(ilog2 z + 1) := lt_of_le_of_lt h1 l2
  have b : (2:ℚ)^(ilog2 z) < 2^(j+1) := lt_of_le_of_lt l1 h2
  have a' := (zpow_lt_zpow_iff_right₀ (by norm_num : (1:ℚ) < 2)).mp a
  have b' := (zpow_lt_zpow_iff_right₀ (by norm_num : (1:ℚ) < 2)).mp b
  omega

/-- **the analytic core**: a positive code strictly between two powers of two comes back exactly -/
theorem core (b : ℕ) (hb : 2 ≤ b) (hb53 : b ≤ 53) (x : ℤ) (j : ℕ) (hj : j + 2 ≤ b)
    (hx1 : (2:ℤ)^j < x) (hx2 : x < 2^(j+1)) (hxM : x < 2^(b-1) - 1) :
    rne f64 (rne f64 ((x:ℚ) / ((2:ℚ)^(b-1) - 1)) * ((2:ℚ)^(b-1) - 1)) = x := by
  set M : ℚ := (2:ℚ)^(b-1) - 1 with hM
  have hb1 : (2:ℚ) ≤ 2^(b-1) := by
    calc (2:ℚ) = 2^1 := by norm_num
      _ ≤ 2^(b-1) := pow_le_pow_right₀ (by norm_num) (by omega)
  have Mpos : 0 < M := by rw [hM]; linarith
  have xq1 : (2:ℚ)^j + 1 ≤ x := by
    have : (2:ℤ)^j + 1 ≤ x := hx1
    exact_mod_cast this
  have xq2 : (x:ℚ) ≤ 2^(j+1) - 1 := by
    have : x ≤ (2:ℤ)^(j+1) - 1 := by omega
    exact_mod_cast this
  have xpos : (0:ℚ) < x := by have : (0:ℚ) < 2^j := by positivity
                              linarith
  set t : ℚ := (x:ℚ) / M with ht
  have tpos : 0 < t := div_pos xpos Mpos
  -- exponents as integers
  set k : ℤ := (j:ℤ) + 1 - b with hk
  have hpow : (2:ℚ)^(b-1) = 2^((b:ℤ) - 1) := by
    rw [← zpow_natCast]; congr 1; omega
  -- 2^k ≤ t < 2^(k+1)
  have tlo : (2:ℚ)^k ≤ t := by
    rw [ht, le_div_iff₀ Mpos, hM, hpow]
    have e : (2:ℚ)^k * 2^((b:ℤ) - 1) = 2^(j:ℤ) := by
      rw [← zpow_add₀ (by norm_num)]; congr 1; omega
    have kpos : (0:ℚ) < 2^k := by positivity
    rw [mul_sub, e, zpow_natCast]; linarith
  have thi : t < 2^(k+1) := by
    rw [ht, div_lt_iff₀ Mpos, hM, hpow]
    have e : (2:ℚ)^(k+1) * 2^((b:ℤ) - 1) = 2^((j:ℤ)+1) := by
      rw [← zpow_add₀ (by norm_num)]; congr 1; omega
    have k1 : (2:ℚ)^(k+1) ≤ 1 := by
      have : k + 1 ≤ 0 := by omega
      exact zpow_le_one_of_nonpos₀ (by norm_num) this
    rw [mul_sub, e, mul_one]
    have e2 : (2:ℚ)^((j:ℤ)+1) = 2^(j+1) := by rw [← zpow_natCast]; congr 1
    rw [e2]
    rcases lt_or_eq_of_le (show k + 1 ≤ 0 by omega) with hlt | heq
    · have : (2:ℚ)^(k+1) < 1 := zpow_lt_one_of_neg₀ (by norm_num) hlt
      linarith
    · -- j + 2 = b: then 2^(j+1) − 1 = M and x < M
      rw [heq, zpow_zero]
      have hjb : j + 1 = b - 1 := by omega
      have : (x:ℚ) < 2^(b-1) - 1 := by exact_mod_cast hxM
      rw [hjb]; exact this
  have hk_t : ilog2 t = k := ilog2_of_bounds tpos k tlo thi
  -- rounding error of q
  have herr := rne_err_pos f64 tpos
  have hexpo_t : expo f64 t = k - 52 := by
    unfold expo; rw [hk_t]
    have : (f64.p:ℤ) = 53 := by decide
    have : f64.emin = -1074 := by decide
    have : -60 ≤ k := by omega
    omega
  rw [hexpo_t] at herr
  set q := rne f64 t with hq
  -- z = q·M is within M·2^(k−53) of x
  have hzx : |q * M - x| ≤ M * 2^(k - 53) := by
    have : q * M - x = (q - t) * M := by rw [ht]; field_simp
    rw [this, abs_mul, abs_of_pos Mpos, mul_comm]
    apply mul_le_mul_of_nonneg_left _ (le_of_lt Mpos)
    calc |q - t| ≤ 2^(k - 52) / 2 := herr
      _ = 2^(k - 53) := by
          rw [show k - 52 = (k - 53) + 1 by ring, zpow_add₀ (by norm_num)]; simp
  -- M·2^k = 2^j − 2^k < 2^j
  have hMk : M * 2^k = 2^(j:ℤ) - 2^k := by
    rw [hM, hpow, sub_mul, one_mul, ← zpow_add₀ (by norm_num)]; congr 2; omega
  have hhalf : M * 2^(k - 53) < 2^((j:ℤ) - 53) := by
    have e1 : M * 2^(k - 53) = (M * 2^k) * 2^(-53:ℤ) := by
      rw [mul_assoc, ← zpow_add₀ (by norm_num)]; congr 2
    have e2 : (2:ℚ)^((j:ℤ) - 53) = 2^(j:ℤ) * 2^(-53:ℤ) := by
      rw [← zpow_add₀ (by norm_num)]; congr 1
    rw [e1, e2, hMk]
    have kpos : (0:ℚ) < 2^k := by positivity
    apply mul_lt_mul_of_pos_right _ (by positivity); linarith
  -- z lies in the same binade as x
  have hsmall : (2:ℚ)^((j:ℤ) - 53) ≤ 1/2 := by
    have : (2:ℚ)^((j:ℤ) - 53) ≤ 2^(-1:ℤ) := zpow_le_zpow_right₀ (by norm_num) (by omega)
    have e : (2:ℚ)^(-1:ℤ) = 1/2 := by norm_num
    exact le_trans this (le_of_eq e)
  have habs := abs_le.mp hzx
  set z := q * M with hz
  have zlo : (2:ℚ)^(j:ℤ) ≤ z := by
    rw [zpow_natCast]; linarith [habs.1]
  have zhi : z < 2^((j:ℤ)+1) := by
    have : (2:ℚ)^((j:ℤ)+1) = 2^(j+1) := by rw [← zpow_natCast]; congr 1
    rw [this]; linarith [habs.2]
  have zpos : 0 < z := lt_of_lt_of_le (by positivity) zlo
  have hk_z : ilog2 z = j := ilog2_of_bounds zpos j zlo zhi
  have hexpo_z : expo f64 z = (j:ℤ) - 52 := by
    unfold expo; rw [hk_z]
    have : (f64.p:ℤ) = 53 := by decide
    have : f64.emin = -1074 := by decide
    omega
  -- x is on z's grid
  have hgrid : (x:ℚ) = ((x * 2^(52 - j) : ℤ) : ℚ) * 2^(expo f64 z) := by
    rw [hexpo_z]; push_cast
    rw [mul_assoc, ← zpow_natCast, ← zpow_add₀ (by norm_num)]
    have : ((52 - j : ℕ) : ℤ) + ((j:ℤ) - 52) = 0 := by omega
    rw [this]; simp
  apply rne_eq_of_close f64 zpos (x:ℚ) _ hgrid
  rw [hexpo_z]
  have : (2:ℚ)^((j:ℤ) - 52) / 2 = 2^((j:ℤ) - 53) := by
    rw [show (j:ℤ) - 52 = ((j:ℤ) - 53) + 1 by ring, zpow_add₀ (by norm_num)]; simp
  rw [this]
  exact lt_of_le_of_lt hzx hhalf

/-- the powers of two (the inputs where `z` may fall into the binade below `x`): complete tables -/
theorem pow2_table16 : ∀ j : Fin 15, f2sK ⟨16, true⟩ 16 (s2fK f64 16 (2^j.val)) = some (2^j.val) := by
  decide +kernel

theorem pow2_table32 : ∀ j : Fin 31, f2sK ⟨32, true⟩ 32 (s2fK f64 32 (2^j.val)) = some (2^j.val) := by
  decide +kernel

/-- a rounded value of magnitude at most 1 is a float64 value -/
theorem isF64_rne {t : ℚ} (h : |rne f64 t| ≤ 1) : IsF64 (.fin (rne f64 t)) := by
  have idem := Sig.C05F.rne_idem f64 (by decide) t
  unfold IsF64 FV.conv FV.round
  simp only [idem, abs_eq_ite, pow2_eq]
  have hbig : ¬ ((2:ℚ)^(f64.emax + 1) ≤ |rne f64 t|) := by
    rw [not_le]
    have e : (1:ℚ) < 2^(f64.emax + 1) := by
      have : f64.emax + 1 = 1024 := by decide
      rw [this]; exact one_lt_zpow₀ (by norm_num) (by norm_num)
    linarith
  simp only [hbig, if_false]
  by_cases h0 : rne f64 t = 0
  · simp [h0, FV.zero]
  · simp [h0]

open C09 in
/-- **exact round trip through float64 for every 16-bit and every 32-bit signed code** -/
theorem s_roundtrip (b : ℕ) (hb : b = 16 ∨ b = 32) (x : ℤ) (hx : -(C09.S b) ≤ x ∧ x ≤ C09.M b) :
    f2sK ⟨b, true⟩ b (s2fK f64 b x) = some x := by
  have hE : Exact f64 b := by rcases hb with rfl | rfl; exact exact_f64_16; exact exact_f64_32
  have hW : C08.W3 b := by rcases hb with rfl | rfl; exact Or.inr (Or.inl rfl); exact Or.inr (Or.inr rfl)
  have hMS : C08.M b = C09.M b ∧ C08.S b = C09.S b := ⟨rfl, rfl⟩
  by_cases hpow2 : ∃ j : ℕ, j < b - 1 ∧ x = 2^j
  · obtain ⟨j, hj, rfl⟩ := hpow2
    rcases hb with rfl | rfl
    · exact pow2_table16 ⟨j, by omega⟩
    · exact pow2_table32 ⟨j, by omega⟩
  obtain ⟨p1, e0, mp, sp, ms, hbb, h2⟩ := basics hE
  have mq : (0:ℚ) < (C09.M b : ℚ) := by exact_mod_cast mp
  have sq : (0:ℚ) < (C09.S b : ℚ) := by exact_mod_cast sp
  have hMq : ((C09.M b : ℤ) : ℚ) = (2:ℚ)^(b-1) - 1 := by unfold C09.M; push_cast; ring
  have hSq : ((C09.S b : ℤ) : ℚ) = (2:ℚ)^(b-1) := by unfold C09.S; push_cast; ring
  rw [s2fK_eq hE x hx]
  obtain ⟨r1, r2⟩ := s_range hE x hx
  have hF : IsF64 (.fin (s2q f64 b x)) := by
    unfold s2q; split_ifs
    · apply isF64_rne; unfold s2q at r1 r2; simp_all [abs_le]
    · apply isF64_rne; unfold s2q at r1 r2; simp_all [abs_le]
  rw [C08.f2sK_eq b hW _ (by simp) hF, C08.codeQ_rank_fin]
  congr 1
  obtain ⟨ep1, ep2, ep3⟩ := s_endpoints hE
  -- case analysis on the code
  rcases lt_trichotomy x 0 with hneg | hz | hpos
  · -- negative codes: division by a power of two is exact
    have hdiv : s2q f64 b x = (x:ℚ) / (C09.S b : ℚ) := by
      unfold s2q
      have : ¬ x > 0 := by omega
      simp only [this, if_false]
      have e : (x:ℚ) / (C09.S b : ℚ) = (x:ℚ) * 2^(-((b:ℤ) - 1)) := by
        rw [hSq, div_eq_mul_inv, ← zpow_natCast, ← zpow_neg]; congr 2
        have := hE.sb1; omega
      rw [e]
      exact rne_fix f64 (by decide) x _ (natAbs_lt hE x (by rw [abs_le]; constructor <;> omega))
        (by have := hE.sb64; simp [f64]; omega)
    rcases eq_or_lt_of_le hx.1 with hlo | hgt
    · -- lowest code
      rw [← hlo, ep1]; unfold C08.codeQ; norm_num
      rw [hMS.2]
    · have hq1 : -1 < s2q f64 b x := by
        rw [hdiv, lt_div_iff₀ sq]; have : (-(C09.S b : ℤ) : ℚ) < x := by exact_mod_cast hgt
        push_cast at this; linarith
      have hq0 : s2q f64 b x < 0 := by
        rw [hdiv]; exact div_neg_of_neg_of_pos (by exact_mod_cast hneg) sq
      unfold C08.codeQ
      have a : ¬ 1 ≤ s2q f64 b x := by linarith
      have c : ¬ s2q f64 b x ≤ -1 := by linarith
      have d : ¬ 0 < s2q f64 b x := by linarith
      simp only [a, c, if_false, C08.ampQ, d]
      rw [hdiv, hMS.2, div_mul_cancel₀ _ (ne_of_gt sq)]
      rw [C09.rne_int hE x (natAbs_lt hE x (by rw [abs_le]; constructor <;> omega)), truncQ_int]
  · subst hz; rw [ep2]; unfold C08.codeQ C08.ampQ; norm_num [rne_zero, C08.truncQ_zero]
  · rcases eq_or_lt_of_le hx.2 with hhi | hlt
    · rw [hhi, ep3]; unfold C08.codeQ; norm_num; rw [hMS.1]
    · -- 0 < x < M
      have hq1 : s2q f64 b x < 1 := by
        have := s_strict hE (by rcases hb with rfl | rfl <;> decide) x (C09.M b) hx ⟨by omega, le_refl _⟩ hlt
        rwa [ep3] at this
      have hq0 : 0 < s2q f64 b x := by
        have := s_strict hE (by rcases hb with rfl | rfl <;> decide) 0 x ⟨by omega, by omega⟩ hx hpos
        rwa [ep2] at this
      unfold C08.codeQ
      have a : ¬ 1 ≤ s2q f64 b x := by linarith
      have c : ¬ s2q f64 b x ≤ -1 := by linarith
      simp only [a, c, if_false, C08.ampQ, hq0, if_true]
      -- rne (q·M) = x
      have hdef : s2q f64 b x = rne f64 ((x:ℚ) / (C09.M b : ℚ)) := by unfold s2q; simp [hpos]
      suffices h : rne f64 (s2q f64 b x * (C08.M b : ℚ)) = x by rw [h, truncQ_int]
      rw [hdef, hMS.1, hMq]
      -- j = ⌊log2 x⌋
      obtain ⟨n, hn⟩ := Int.eq_ofNat_of_zero_le (le_of_lt hpos)
      have hn0 : n ≠ 0 := by rintro rfl; rw [hn] at hpos; simp at hpos
      set j := Nat.log2 n with hj
      have l1 : 2^j ≤ n := Nat.log2_self_le hn0
      have l2 : n < 2^(j+1) := Nat.lt_log2_self
      have hxMz : x < 2^(b-1) - 1 := by unfold C09.M at hlt; exact hlt
      have l1z : (2:ℤ)^j ≤ x := by rw [hn]; exact_mod_cast l1
      have hjb : j + 2 ≤ b := by
        by_contra hc
        have hbj : b - 1 ≤ j := by omega
        have : (2:ℤ)^(b-1) ≤ 2^j := pow_le_pow_right₀ (by norm_num) hbj
        omega
      rcases Nat.lt_or_ge (2^j) n with hgt | hle
      · -- strictly between two powers of two: the analytic core
        have := core b (by have := hE.sb1; omega) (by rcases hb with rfl | rfl <;> norm_num) x j hjb
          (by rw [hn]; exact_mod_cast hgt) (by rw [hn]; exact_mod_cast l2) hxMz
        exact this
      · -- x = 2^j is excluded here (handled by the tables above)
        exfalso
        apply hpow2
        refine ⟨j, by omega, ?_⟩
        rw [hn]; exact_mod_cast (le_antisymm hle l1)

open C09 in
/-- the amplitude function of C08 inverts the normalisation of C09 on every signed code -/
theorem codeQ_s2q (b : ℕ) (hb : b = 16 ∨ b = 32) (a : ℤ) (ha : -(C09.S b) ≤ a ∧ a ≤ C09.M b) :
    C08.codeQ b (s2q f64 b a) = a := by
  have hE : Exact f64 b := by rcases hb with rfl | rfl; exact exact_f64_16; exact exact_f64_32
  have hW : C08.W3 b := by rcases hb with rfl | rfl; exact Or.inr (Or.inl rfl); exact Or.inr (Or.inr rfl)
  have rt := s_roundtrip b hb a ha
  rw [s2fK_eq hE a ha] at rt
  obtain ⟨r1, r2⟩ := s_range hE a ha
  have hF : IsF64 (.fin (s2q f64 b a)) := by
    unfold s2q; split_ifs
    · apply isF64_rne; unfold s2q at r1 r2; simp_all [abs_le]
    · apply isF64_rne; unfold s2q at r1 r2; simp_all [abs_le]
  rw [C08.f2sK_eq b hW _ (by simp) hF, C08.codeQ_rank_fin] at rt
  exact Option.some.inj rt

open C09 in
/-- **unsigned sources, codes of positive amplitude** (and the two codes 0 and 2^(b−1)): the round trip
`UnsignedAsFloat` ∘ `FloatAsUnsigned` through float64 is exact for 16- and 32-bit codes.  (For the
remaining codes `0 < x < 2^(b−1)` the conversion as coded is off: known finding C09.) -/
theorem u_roundtrip_pos (b : ℕ) (hb : b = 16 ∨ b = 32) (x : ℤ) (hx : C09.S b < x ∧ x ≤ 2 * C09.S b - 1) :
    f2uK ⟨b, false⟩ b (u2fK f64 b x) = some x := by
  have hE : Exact f64 b := by rcases hb with rfl | rfl; exact exact_f64_16; exact exact_f64_32
  have hW : C08.W3 b := by rcases hb with rfl | rfl; exact Or.inr (Or.inl rfl); exact Or.inr (Or.inr rfl)
  obtain ⟨p1, e0, mp, sp, ms, hbb, h2⟩ := basics hE
  have hxr : 0 ≤ x ∧ x ≤ 2 * C09.S b - 1 := ⟨by omega, hx.2⟩
  have ha : -(C09.S b) ≤ x - C09.S b ∧ x - C09.S b ≤ C09.M b := by constructor <;> omega
  have hapos : x - C09.S b > 0 := by omega
  have hu := u2fK_eq hE x hxr
  -- as coded, a code of positive amplitude is normalised like the signed code `x − S`
  have hq : u2q f64 b x = s2q f64 b (x - C09.S b) := by
    unfold u2q s2q
    have hx0 : x > 0 := by omega
    simp only [hx0, hapos, if_true]
  have hpos : 0 < s2q f64 b (x - C09.S b) := by
    have := s_strict hE (by rcases hb with rfl | rfl <;> decide) 0 (x - C09.S b) ⟨by omega, by omega⟩ ha hapos
    rwa [(s_endpoints hE).2.1] at this
  -- so the float is that (non-zero) rational
  have hv : u2fK f64 b x = .fin (s2q f64 b (x - C09.S b)) := by
    rw [hq] at hu
    revert hu
    cases u2fK f64 b x with
    | nan => intro h; simp [FV.toRat?] at h
    | inf n => intro h; simp [FV.toRat?] at h
    | nzero => intro h; simp [FV.toRat?] at h; linarith
    | fin q => intro h; simp [FV.toRat?] at h; rw [h]
  obtain ⟨r1, r2⟩ := s_range hE _ ha
  have hF : IsF64 (.fin (s2q f64 b (x - C09.S b))) := by
    have hdef : s2q f64 b (x - C09.S b) = rne f64 (((x - C09.S b : ℤ) : ℚ) / (C09.M b : ℚ)) := by
      unfold s2q; simp only [hapos, if_true]
    rw [hdef]; apply isF64_rne; rw [← hdef, abs_le]; exact ⟨r1, r2⟩
  rw [hv, C08.f2uK_eq b hW _ (by simp) hF, C08.codeQ_rank_fin, codeQ_s2q b hb _ ha]
  congr 1
  show x - C09.S b + C08.S b = x
  have : C08.S b = C09.S b := rfl
  omega

end Sig.C09RT

import SignalProofs.Props.C09
/-!
# C09 for sources wider than the float's precision (int64 → float64, int32/int64 → float32)

Here `D(sample)` already rounds, and `msv = D(2^(sb-1) - 1)` rounds up to `2^(sb-1)`, as does `msv+1`.
Both branches of `SignedAsFloat` therefore compute `rne (rne x / 2^(sb-1))`.  The clauses the property
states for *every* depth - range, endpoints, order, one step plus float rounding - are proved for these
classes too (injectivity and round trips are only promised up to 32 bits / 16 bits).
-/
namespace Sig.C09W
open Sig FV Spec Sig.C09
set_option linter.unusedVariables false
set_option linter.unusedSimpArgs false

/-- the facts about a (format, source depth) pair that the proofs use; the three rounding facts are
evaluated by the kernel on the executable `rne` for each concrete class -/
structure Wide (F : Fmt) (sb : Nat) : Prop where
  sb1 : 2 ≤ sb
  sb64 : sb ≤ 64
  p1 : 1 ≤ F.p
  emin : F.emin ≤ -(sb : ℤ) - (F.p : ℤ)
  emax : (sb : ℤ) ≤ F.emax
  rM : rne F ((M sb : ℤ) : ℚ) = ((S sb : ℤ) : ℚ)
  rS1 : rne F (((S sb : ℤ) : ℚ) + 1) = ((S sb : ℤ) : ℚ)
  rU : rne F ((2 * S sb - 1 : ℤ) : ℚ) = ((2 * S sb : ℤ) : ℚ)
  p2 : 2 ≤ F.p

theorem wide_f64_64 : Wide f64 64 :=
  ⟨by decide, by decide, by decide, by decide, by decide, by decide +kernel, by decide +kernel, by decide +kernel, by decide⟩
theorem wide_f32_32 : Wide f32 32 :=
  ⟨by decide, by decide, by decide, by decide, by decide, by decide +kernel, by decide +kernel, by decide +kernel, by decide⟩
theorem wide_f32_64 : Wide f32 64 :=
  ⟨by decide, by decide, by decide, by decide, by decide, by decide +kernel, by decide +kernel, by decide +kernel, by decide⟩

/-- the value `SignedAsFloat` computes for a wide source -/
def s2w (F : Fmt) (sb : Nat) (x : ℤ) : ℚ := rne F (rne F (x:ℚ) / (S sb : ℚ))

section
variable {F : Fmt} {sb : Nat} (hW : Wide F sb)
include hW

theorem basicsW : 0 < M sb ∧ 0 < S sb ∧ M sb + 1 = S sb ∧ (2:ℤ)^sb = 2 * S sb ∧ (S sb : ℚ) = 2^((sb:ℤ) - 1) := by
  have hS : (2:ℤ)^sb = 2 * 2^(sb-1) := by
    have : sb = (sb - 1) + 1 := by have := hW.sb1; omega
    conv => lhs; rw [this, pow_succ]
    ring
  have hpos : (0:ℤ) < 2^(sb-1) := by positivity
  have h2 : (2:ℤ) ≤ 2^(sb-1) := by
    have : (2:ℤ)^1 ≤ 2^(sb-1) := pow_le_pow_right₀ (by norm_num) (by have := hW.sb1; omega)
    simpa using this
  refine ⟨by unfold M; omega, by unfold S; exact hpos, by unfold M S; ring, by unfold S; exact hS, ?_⟩
  unfold S; push_cast
  rw [← zpow_natCast]; congr 1
  have := hW.sb1; omega

theorem one_lt_pow : (1:ℤ).natAbs < 2^F.p := by
  simpa using Nat.one_lt_two_pow (by have := hW.p1; omega : F.p ≠ 0)

theorem rne_one : rne F (1:ℚ) = 1 := by
  have := rne_fix F hW.p1 1 0 (one_lt_pow hW) (by have := hW.emin; omega)
  simpa using this

theorem rne_S : rne F (S sb : ℚ) = (S sb : ℚ) := by
  obtain ⟨_, _, _, _, hS⟩ := basicsW hW
  have := rne_fix F hW.p1 1 ((sb:ℤ) - 1) (one_lt_pow hW) (by have := hW.emin; have := hW.sb1; omega)
  rw [hS]; simpa using this

theorem rne_2S : rne F ((2 * S sb : ℤ) : ℚ) = ((2 * S sb : ℤ) : ℚ) := by
  obtain ⟨_, _, _, h2, _⟩ := basicsW hW
  have := rne_fix F hW.p1 1 (sb:ℤ) (one_lt_pow hW) (by have := hW.emin; have := hW.sb1; omega)
  rw [← h2]; push_cast
  rw [← zpow_natCast]; simpa using this

/-- quotients of magnitude at most 1 stay within [−1, 1] after rounding and never overflow -/
theorem rne_unit {t : ℚ} (h : |t| ≤ 1) : |rne F t| ≤ 1 ∧ |rne F t| < (2:ℚ)^(F.emax + 1) := by
  have one := rne_one hW
  have habs := abs_le.mp h
  have up : rne F t ≤ 1 := by have := rne_mono F hW.p1 habs.2; rwa [one] at this
  have lo : -1 ≤ rne F t := by
    have := rne_mono F hW.p1 habs.1; rwa [rne_neg, one] at this
  have hle : |rne F t| ≤ 1 := abs_le.mpr ⟨lo, up⟩
  refine ⟨hle, lt_of_le_of_lt hle ?_⟩
  have : (0:ℤ) < F.emax + 1 := by have := hW.emax; omega
  exact one_lt_zpow₀ (by norm_num) this

/-- rounding error of a quotient of magnitude at most 1: at most 2^−p -/
theorem rne_err_unit {t : ℚ} (h : |t| ≤ 1) : |rne F t - t| ≤ (2:ℚ)^(-(F.p:ℤ)) := by
  have key : ∀ u : ℚ, 0 < u → u ≤ 1 → |rne F u - u| ≤ (2:ℚ)^(-(F.p:ℤ)) := by
    intro u hu hu1
    have he := rne_err_pos F hu
    obtain ⟨l1, _⟩ := ilog2_spec u hu
    have hil : ilog2 u ≤ 0 := by
      by_contra hc
      have : (1:ℤ) ≤ ilog2 u := by omega
      have : (2:ℚ)^(1:ℤ) ≤ 2^(ilog2 u) := zpow_le_zpow_right₀ (by norm_num) this
      norm_num at this; linarith
    have hex : expo F u ≤ -((F.p:ℤ) - 1) := by
      unfold expo
      have := hW.emin; have := hW.sb1
      omega
    calc |rne F u - u| ≤ 2^(expo F u) / 2 := he
      _ ≤ 2^(-((F.p:ℤ) - 1)) / 2 := by
          apply div_le_div_of_nonneg_right _ (by norm_num)
          exact zpow_le_zpow_right₀ (by norm_num) hex
      _ = 2^(-(F.p:ℤ)) := by
          rw [show -((F.p:ℤ) - 1) = -(F.p:ℤ) + 1 by ring, zpow_add₀ (by norm_num)]; simp
  rcases lt_trichotomy t 0 with hn | hz | hp
  · have := key (-t) (by linarith) (by have := (abs_le.mp h).1; linarith)
    rw [rne_neg] at this
    have e : -rne F t - -t = -(rne F t - t) := by ring
    rwa [e, abs_neg] at this
  · subst hz; simp [rne_zero]
  · exact key t hp (abs_le.mp h).2

/-- a quotient of at least 2^-sb does not round to zero -/
theorem rne_pos_of_ge {t : ℚ} (h : (2:ℚ)^(-(sb:ℤ)) ≤ t) : 0 < rne F t := by
  have hrep : rne F ((1:ℚ) * 2^(-(sb:ℤ))) = (1:ℚ) * 2^(-(sb:ℤ)) := by
    have := rne_fix F hW.p1 1 (-(sb:ℤ)) (one_lt_pow hW) (by have := hW.emin; omega)
    simpa using this
  rw [one_mul] at hrep
  have := rne_mono F hW.p1 h
  rw [hrep] at this
  have hp : (0:ℚ) < 2^(-(sb:ℤ)) := two_zpow_pos _
  linarith

/-- the rounded code stays within the rounded bounds -/
theorem rne_code_bounds (x : ℤ) (hx : -(S sb) ≤ x ∧ x ≤ M sb) :
    -(S sb : ℚ) ≤ rne F (x:ℚ) ∧ rne F (x:ℚ) ≤ (S sb : ℚ) := by
  constructor
  · have h : -((S sb : ℤ) : ℚ) ≤ (x:ℚ) := by exact_mod_cast hx.1
    have := rne_mono F hW.p1 h
    rwa [rne_neg, rne_S hW] at this
  · have h : (x:ℚ) ≤ ((M sb : ℤ) : ℚ) := by exact_mod_cast hx.2
    have := rne_mono F hW.p1 h
    rwa [hW.rM] at this

/-- a non-zero integer does not round to zero: `|rne x| ≥ 1` -/
theorem rne_int_ge_one (x : ℤ) (h : 1 ≤ x) : 1 ≤ rne F (x:ℚ) := by
  have h' : (1:ℚ) ≤ (x:ℚ) := by exact_mod_cast h
  have := rne_mono F hW.p1 h'
  rwa [rne_one hW] at this

theorem quot_abs (x : ℤ) (hx : -(S sb) ≤ x ∧ x ≤ M sb) : |rne F (x:ℚ) / (S sb : ℚ)| ≤ 1 := by
  obtain ⟨_, sp, _⟩ := basicsW hW
  have sq : (0:ℚ) < (S sb : ℚ) := by exact_mod_cast sp
  obtain ⟨lo, hi⟩ := rne_code_bounds hW x hx
  rw [abs_le]; constructor
  · rw [le_div_iff₀ sq]; linarith
  · rw [div_le_one sq]; exact hi

/-- **range** -/
theorem s_range (x : ℤ) (hx : -(S sb) ≤ x ∧ x ≤ M sb) : -1 ≤ s2w F sb x ∧ s2w F sb x ≤ 1 :=
  abs_le.mp (rne_unit hW (quot_abs hW x hx)).1

/-- **endpoints**: lowest code ↦ −1, zero ↦ 0, highest code ↦ 1 -/
theorem s_endpoints : s2w F sb (-(S sb)) = -1 ∧ s2w F sb 0 = 0 ∧ s2w F sb (M sb) = 1 := by
  obtain ⟨_, sp, _⟩ := basicsW hW
  have sq : (S sb : ℚ) ≠ 0 := by exact_mod_cast (ne_of_gt sp)
  unfold s2w
  refine ⟨?_, by simp [rne_zero], ?_⟩
  · push_cast
    rw [rne_neg, rne_S hW, neg_div, div_self sq, rne_neg, rne_one hW]
  · rw [hW.rM, div_self sq, rne_one hW]

/-- **order** -/
theorem s_mono (x y : ℤ) (h : x ≤ y) : s2w F sb x ≤ s2w F sb y := by
  obtain ⟨_, sp, _⟩ := basicsW hW
  have sq : (0:ℚ) < (S sb : ℚ) := by exact_mod_cast sp
  have hq : (x:ℚ) ≤ y := by exact_mod_cast h
  exact rne_mono F hW.p1 (div_le_div_of_nonneg_right (rne_mono F hW.p1 hq) (le_of_lt sq))

/-- relative rounding error of a code -/
theorem rne_code_err (x : ℤ) : |rne F (x:ℚ) - x| ≤ (2:ℚ)^(-(F.p:ℤ)) * |(x:ℚ)| := by
  have key : ∀ n : ℤ, 1 ≤ n → |rne F (n:ℚ) - n| ≤ (2:ℚ)^(-(F.p:ℤ)) * (n:ℚ) := by
    intro n hn
    have hpos : (0:ℚ) < n := by exact_mod_cast (by omega : 0 < n)
    apply rne_relerr_pos F hpos
    have h1 : (1:ℚ) ≤ n := by exact_mod_cast hn
    obtain ⟨_, l2⟩ := ilog2_spec (n:ℚ) hpos
    have : (0:ℤ) ≤ ilog2 (n:ℚ) := by
      by_contra hc
      have h3 : ilog2 (n:ℚ) + 1 ≤ 0 := by omega
      have h4 : (2:ℚ)^(ilog2 (n:ℚ) + 1) ≤ (2:ℚ)^(0:ℤ) := zpow_le_zpow_right₀ (by norm_num) h3
      rw [zpow_zero] at h4; linarith
    have := hW.emin; have := hW.sb1
    omega
  rcases lt_trichotomy x 0 with h | h | h
  · have := key (-x) (by omega)
    push_cast at this
    rw [rne_neg] at this
    have e : -rne F (x:ℚ) - -(x:ℚ) = -(rne F (x:ℚ) - x) := by ring
    rw [e, abs_neg] at this
    have hx : |(x:ℚ)| = -(x:ℚ) := abs_of_neg (by exact_mod_cast h)
    rw [hx]; exact this
  · subst h; simp [rne_zero]
  · have := key x (by omega)
    have hx : |(x:ℚ)| = (x:ℚ) := abs_of_pos (by exact_mod_cast h)
    rw [hx]; exact this

/-- **one step plus float rounding**: within `1/2^(sb-1) + 2·2^−p` of amplitude / full scale -/
theorem s_one_step (x : ℤ) (hx : -(S sb) ≤ x ∧ x ≤ M sb) :
    |s2w F sb x - (x:ℚ) / (if 0 < x then (M sb : ℚ) else (S sb : ℚ))| ≤
      1 / (S sb : ℚ) + 2 * (2:ℚ)^(-(F.p:ℤ)) := by
  obtain ⟨mp, sp, ms, _⟩ := basicsW hW
  have mq : (0:ℚ) < (M sb : ℚ) := by exact_mod_cast mp
  have sq : (0:ℚ) < (S sb : ℚ) := by exact_mod_cast sp
  have msq : (M sb : ℚ) + 1 = (S sb : ℚ) := by exact_mod_cast ms
  set u := (2:ℚ)^(-(F.p:ℤ)) with hu
  have e1 := abs_le.mp (rne_err_unit hW (quot_abs hW x hx))
  have e2 := abs_le.mp (rne_code_err hW x)
  have hxS : |(x:ℚ)| ≤ (S sb : ℚ) := by
    rw [abs_le]; constructor
    · have : -((S sb : ℤ) : ℚ) ≤ (x:ℚ) := by exact_mod_cast hx.1
      exact this
    · have : (x:ℚ) ≤ ((M sb : ℤ) : ℚ) := by exact_mod_cast hx.2
      linarith
  have upos : 0 < u := two_zpow_pos _
  -- |rne x / S − x / S| ≤ u
  have e3 : |rne F (x:ℚ) / (S sb : ℚ) - (x:ℚ) / (S sb : ℚ)| ≤ u := by
    rw [← sub_div, abs_div, abs_of_pos sq, div_le_iff₀ sq]
    calc |rne F (x:ℚ) - x| ≤ u * |(x:ℚ)| := rne_code_err hW x
      _ ≤ u * (S sb : ℚ) := mul_le_mul_of_nonneg_left hxS (le_of_lt upos)
  have e3' := abs_le.mp e3
  unfold s2w
  by_cases h0 : 0 < x
  · simp only [h0, if_true]
    -- x/M − x/S = x/(M·S) ∈ [0, 1/S]
    have hxq : (0:ℚ) < x := by exact_mod_cast h0
    have hxM : (x:ℚ) ≤ (M sb : ℚ) := by exact_mod_cast hx.2
    have d : (x:ℚ) / (M sb : ℚ) - (x:ℚ) / (S sb : ℚ) = ((x:ℚ) / (M sb : ℚ)) * (1 / (S sb : ℚ)) := by
      field_simp; linarith
    have hr : (x:ℚ) / (M sb : ℚ) ≤ 1 := by rw [div_le_one mq]; exact hxM
    have hr0 : 0 ≤ (x:ℚ) / (M sb : ℚ) := le_of_lt (div_pos hxq mq)
    have hS1 : (0:ℚ) < 1 / (S sb : ℚ) := by positivity
    have d1 : (x:ℚ) / (M sb : ℚ) - (x:ℚ) / (S sb : ℚ) ≤ 1 / (S sb : ℚ) := by
      rw [d]; nlinarith
    have d0 : 0 ≤ (x:ℚ) / (M sb : ℚ) - (x:ℚ) / (S sb : ℚ) := by
      rw [d]; positivity
    rw [abs_le]; constructor <;> linarith [e1.1, e1.2, e3'.1, e3'.2]
  · simp only [h0, if_false]
    have hS1 : (0:ℚ) < 1 / (S sb : ℚ) := by positivity
    rw [abs_le]; constructor <;> linarith [e1.1, e1.2, e3'.1, e3'.2]

/-! ### the model's kernel computes `s2w` -/

theorem round_fin (q : ℚ) (nz : Bool) (hne : rne F q ≠ 0) (hlt : |rne F q| < (2:ℚ)^(F.emax + 1)) :
    FV.round F q nz = .fin (rne F q) := by
  unfold FV.round
  simp only [abs_eq_ite, pow2_eq, not_le.mpr hlt, if_false, hne]

theorem code_lt_inf (x : ℤ) (hx : -(S sb) ≤ x ∧ x ≤ M sb) : |rne F (x:ℚ)| < (2:ℚ)^(F.emax + 1) := by
  obtain ⟨_, sp, _, _, hS⟩ := basicsW hW
  obtain ⟨lo, hi⟩ := rne_code_bounds hW x hx
  have : |rne F (x:ℚ)| ≤ (S sb : ℚ) := abs_le.mpr ⟨lo, hi⟩
  refine lt_of_le_of_lt this ?_
  rw [hS]
  exact zpow_lt_zpow_right₀ (by norm_num) (by have := hW.emax; omega)

theorem ofInt_code (x : ℤ) (hx : -(S sb) ≤ x ∧ x ≤ M sb) (h0 : x ≠ 0) :
    FV.ofInt F x = .fin (rne F (x:ℚ)) := by
  have hne : rne F (x:ℚ) ≠ 0 := by
    rcases lt_or_gt_of_ne h0 with h | h
    · have := rne_int_ge_one hW (-x) (by omega)
      push_cast at this; rw [rne_neg] at this
      intro hc; rw [hc] at this; norm_num at this
    · have := rne_int_ge_one hW x (by omega)
      intro hc; rw [hc] at this; norm_num at this
  exact round_fin hW _ _ hne (code_lt_inf hW x hx)

theorem constsW : FV.ofInt F (maxSignedValue sb) = .fin (S sb : ℚ) ∧
    FV.add F (.fin (S sb : ℚ)) (.fin 1) = .fin (S sb : ℚ) := by
  obtain ⟨mp, sp, ms, _⟩ := basicsW hW
  have sq : (0:ℚ) < (S sb : ℚ) := by exact_mod_cast sp
  have hmsv : maxSignedValue sb = M sb := by
    have := (C16.bounds sb (by have := hW.sb1; omega) hW.sb64).1
    rw [this]; rfl
  constructor
  · rw [hmsv, ofInt_code hW (M sb) ⟨by omega, le_refl _⟩ (ne_of_gt mp), hW.rM]
  · rw [add_fin]
    have h := round_fin hW ((S sb : ℚ) + 1) ((FV.fin (S sb : ℚ)).isNeg && (FV.fin 1).isNeg)
      (by rw [hW.rS1]; exact ne_of_gt sq)
      (by rw [hW.rS1]
          have := code_lt_inf hW (M sb) ⟨by omega, le_refl _⟩
          rw [hW.rM] at this; exact this)
    rw [h, hW.rS1]

theorem div_finW (a b : ℚ) (hb : b ≠ 0) (h1 : |a / b| ≤ 1) (hne : rne F (a / b) ≠ 0) :
    FV.div F (.fin a) (.fin b) = .fin (rne F (a / b)) := by
  have ⟨_, hov⟩ := rne_unit hW h1
  simp only [FV.div, FV.toRat?, hb, if_false]
  exact round_fin hW _ _ hne hov

/-- **`SignedAsFloat` computes `s2w`** for every code of a wide source format -/
theorem s2fK_eq (x : ℤ) (hx : -(S sb) ≤ x ∧ x ≤ M sb) : s2fK F sb x = .fin (s2w F sb x) := by
  obtain ⟨mp, sp, ms, h2, hS⟩ := basicsW hW
  obtain ⟨c1, c2⟩ := constsW hW
  have sq : (0:ℚ) < (S sb : ℚ) := by exact_mod_cast sp
  have hinv : (2:ℚ)^(-(sb:ℤ)) ≤ 1 / (S sb : ℚ) := by
    rw [hS, one_div, ← zpow_neg]
    exact zpow_le_zpow_right₀ (by norm_num) (by omega)
  unfold s2fK s2w
  simp only [c1, c2]
  by_cases h0 : x > 0
  · simp only [h0, if_true]
    rw [ofInt_code hW x hx (by omega)]
    have hge := rne_int_ge_one hW x (by omega)
    have hpos : 0 < rne F (rne F (x:ℚ) / (S sb : ℚ)) := by
      apply rne_pos_of_ge hW
      calc (2:ℚ)^(-(sb:ℤ)) ≤ 1 / (S sb : ℚ) := hinv
        _ ≤ rne F (x:ℚ) / (S sb : ℚ) := div_le_div_of_nonneg_right hge (le_of_lt sq)
    exact div_finW hW _ _ (ne_of_gt sq) (quot_abs hW x hx) (ne_of_gt hpos)
  · simp only [h0, if_false]
    rcases eq_or_lt_of_le (not_lt.mp h0) with hz | hneg
    · subst hz
      simp [ofInt_zero, FV.div, FV.toRat?, ne_of_gt sq, FV.round, rne_zero, FV.zero, FV.isNeg, pow2_eq,
        not_lt.mpr (le_of_lt sq)]
      exact two_zpow_pos _
    · rw [ofInt_code hW x hx (by omega)]
      have hge := rne_int_ge_one hW (-x) (by omega)
      push_cast at hge; rw [rne_neg] at hge
      have hpos : 0 < rne F (-(rne F (x:ℚ) / (S sb : ℚ))) := by
        apply rne_pos_of_ge hW
        calc (2:ℚ)^(-(sb:ℤ)) ≤ 1 / (S sb : ℚ) := hinv
          _ ≤ -rne F (x:ℚ) / (S sb : ℚ) := div_le_div_of_nonneg_right hge (le_of_lt sq)
          _ = -(rne F (x:ℚ) / (S sb : ℚ)) := by ring
      rw [rne_neg] at hpos
      exact div_finW hW _ _ (ne_of_gt sq) (quot_abs hW x hx) (by linarith)

/-! ### the executable predicates of `Spec.C09` hold of the model's outputs -/

theorem s_rangeOK (x : ℤ) (hx : -(S sb) ≤ x ∧ x ≤ M sb) : C09.rangeOK (s2fK F sb x) = true := by
  rw [s2fK_eq hW x hx]
  obtain ⟨a, b⟩ := s_range hW x hx
  simp [C09.rangeOK, le_fin, a, b]

theorem s_endpointsOK (x : ℤ) (hx : -(S sb) ≤ x ∧ x ≤ M sb) :
    C09.endpointsOK true sb x (s2fK F sb x) = true := by
  rw [s2fK_eq hW x hx]
  obtain ⟨e1, e2, e3⟩ := s_endpoints hW
  unfold C09.endpointsOK loCode hiCode zeroCode
  simp only [if_true, Bool.and_eq_true, Bool.or_eq_true, Bool.not_eq_true', decide_eq_false_iff_not, decide_eq_true_eq]
  refine ⟨⟨?_, ?_⟩, ?_⟩
  · by_cases h : x = -(2:ℤ)^(sb-1)
    · right; rw [h]; have := e1; unfold S at this; rw [this]
    · left; exact h
  · by_cases h : x = (2:ℤ)^(sb-1) - 1
    · right; rw [h]; have := e3; unfold M at this; rw [this]
    · left; exact h
  · by_cases h : x = 0
    · right; rw [h, e2]
    · left; exact h

theorem s_monoOK (x y : ℤ) (hx : -(S sb) ≤ x ∧ x ≤ M sb) (hy : -(S sb) ≤ y ∧ y ≤ M sb) :
    C09.monoOK x y (s2fK F sb x) (s2fK F sb y) = true := by
  rw [s2fK_eq hW x hx, s2fK_eq hW y hy]
  unfold C09.monoOK
  by_cases h : x ≤ y
  · simp [h, le_fin, s_mono hW x y h]
  · simp [h]

theorem s_oneStepOK (x : ℤ) (hx : -(S sb) ≤ x ∧ x ≤ M sb) :
    C09.oneStepOK F true sb x (s2fK F sb x) = true := by
  rw [s2fK_eq hW x hx]
  obtain ⟨mp, sp, ms, h2, hS⟩ := basicsW hW
  have sq : (0:ℚ) < (S sb : ℚ) := by exact_mod_cast sp
  have key := abs_le.mp (s_one_step hW x hx)
  have t1 : 2 * (2:ℚ)^(-(F.p:ℤ)) = 1 / (((2:ℤ)^(F.p-1) : ℤ) : ℚ) := by
    push_cast
    rw [one_div, ← zpow_natCast, ← zpow_neg]
    have : (2:ℚ) * 2^(-(F.p:ℤ)) = 2^(1 + -(F.p:ℤ)) := by
      rw [zpow_add₀ (by norm_num)]; simp
    rw [this]; congr 1
    have := hW.p1; omega
  have t2 : 1 / (S sb : ℚ) = 1 / (((2:ℤ)^(sb-1) : ℤ) : ℚ) := rfl
  unfold C09.oneStepOK
  simp only [FV.toRat?, Spec.amp, if_true]
  have hfs : (if 0 < x then (((2:ℤ)^(sb-1) - 1 : ℤ) : ℚ) else (((2:ℤ)^(sb-1) : ℤ) : ℚ)) =
      (if 0 < x then (M sb : ℚ) else (S sb : ℚ)) := by simp [M, S]
  rw [hfs, ← t1, ← t2]
  simp only [Bool.and_eq_true, decide_eq_true_eq]
  constructor <;> linarith [key.1, key.2]

end

/-- non-vacuity / instances: int64 → float64 at the extreme codes -/
example : s2fK f64 64 (-(2:ℤ)^63) = .fin (-1) ∧ s2fK f64 64 (2^63 - 1) = .fin 1 := by
  have h := s_endpoints wide_f64_64
  constructor
  · have := s2fK_eq wide_f64_64 (-(S 64)) ⟨le_refl _, by decide⟩
    rw [h.1] at this; exact this
  · have := s2fK_eq wide_f64_64 (M 64) ⟨by decide, le_refl _⟩
    rw [h.2.2] at this; exact this

end Sig.C09W

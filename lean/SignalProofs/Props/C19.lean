import SignalModel.SpecMem
import SignalProofs.Lemmas.Heap
import SignalProofs.Props.C02
/-!
# C19 — shared read-only use and disjoint-window writes: every schedule equals the sequential run

Part 1 (generic): threads are lists of atomic actions with a sound read/write footprint; if no action
of one thread writes what an action of the other reads or writes, **every** interleaving of the two
threads (program order preserved) ends in the same memory as running them one after the other.
Part 2 instantiates it for the model: the read-only entry points do not write at all, and every store
made through `b.Slice(s, e)` by `SetSample`/`Write` lands inside frames `[s, e)` of `b`.

What this cannot show (and the `-race` runs sample instead): that the compiled Go functions touch no
memory beyond the modelled footprint, and the Go memory model itself.
-/
namespace Sig.C19
open Sig
set_option linter.unusedVariables false
set_option linter.unusedSimpArgs false

universe u v
variable {Loc : Type u} {Val : Type v}

abbrev Mem (Loc : Type u) (Val : Type v) := Loc → Val

structure Act (Loc : Type u) (Val : Type v) where
  run : Mem Loc Val → Mem Loc Val
  R : Loc → Prop
  W : Loc → Prop

/-- the footprint is sound: nothing outside `W` changes, and what is written depends only on `R` -/
structure Act.Sound (a : Act Loc Val) : Prop where
  frame : ∀ m l, ¬ a.W l → a.run m l = m l
  local_ : ∀ m m', (∀ l, a.R l → m l = m' l) → ∀ l, a.W l → a.run m l = a.run m' l

/-- neither writes what the other reads or writes -/
def Indep (a b : Act Loc Val) : Prop :=
  (∀ l, a.W l → ¬ b.R l ∧ ¬ b.W l) ∧ (∀ l, b.W l → ¬ a.R l ∧ ¬ a.W l)

theorem Indep.symm {a b : Act Loc Val} (h : Indep a b) : Indep b a := ⟨h.2, h.1⟩

theorem comm {a b : Act Loc Val} (ha : a.Sound) (hb : b.Sound) (h : Indep a b) (m : Mem Loc Val) :
    b.run (a.run m) = a.run (b.run m) := by
  funext l
  by_cases hwa : a.W l
  · have ⟨_, hnb⟩ := h.1 l hwa
    rw [hb.frame _ l hnb]
    refine ha.local_ _ _ ?_ l hwa
    intro l' hr
    have : ¬ b.W l' := fun hw => (h.2 l' hw).1 hr
    rw [hb.frame _ l' this]
  · by_cases hwb : b.W l
    · rw [ha.frame _ l hwa]
      refine hb.local_ _ _ ?_ l hwb
      intro l' hr
      have : ¬ a.W l' := fun hw => (h.1 l' hw).1 hr
      rw [ha.frame _ l' this]
    · rw [hb.frame _ l hwb, ha.frame _ l hwa, ha.frame _ l hwa, hb.frame _ l hwb]

abbrev Thread (Loc : Type u) (Val : Type v) := List (Act Loc Val)
def solo (t : Thread Loc Val) (m : Mem Loc Val) : Mem Loc Val := t.foldl (fun m a => a.run m) m

@[simp] theorem solo_nil (m : Mem Loc Val) : solo ([] : Thread Loc Val) m = m := rfl
@[simp] theorem solo_cons (a : Act Loc Val) (t : Thread Loc Val) (m : Mem Loc Val) :
    solo (a :: t) m = solo t (a.run m) := rfl

theorem comm_thread {a : Act Loc Val} (ha : a.Sound) (t : Thread Loc Val)
    (ht : ∀ b ∈ t, b.Sound ∧ Indep a b) (m : Mem Loc Val) :
    solo t (a.run m) = a.run (solo t m) := by
  induction t generalizing m with
  | nil => rfl
  | cons b t ih =>
    have ⟨hb, hi⟩ := ht b (by simp)
    simp only [solo_cons]
    rw [comm ha hb hi m]
    exact ih (fun c hc => ht c (by simp [hc])) (b.run m)

/-- `σ` is an interleaving of `t1` and `t2`: each thread's program order is preserved -/
inductive Interleave : Thread Loc Val → Thread Loc Val → Thread Loc Val → Prop
  | nil : Interleave [] [] []
  | left  {a t1 t2 σ} : Interleave t1 t2 σ → Interleave (a :: t1) t2 (a :: σ)
  | right {a t1 t2 σ} : Interleave t1 t2 σ → Interleave t1 (a :: t2) (a :: σ)

/-- **every schedule of two non-conflicting threads equals the sequential run** -/
theorem interleave_eq_seq {t1 t2 σ : Thread Loc Val} (h : Interleave t1 t2 σ)
    (s1 : ∀ a ∈ t1, a.Sound) (s2 : ∀ b ∈ t2, b.Sound)
    (hi : ∀ a ∈ t1, ∀ b ∈ t2, Indep a b) (m : Mem Loc Val) :
    solo σ m = solo t2 (solo t1 m) := by
  induction h generalizing m with
  | nil => rfl
  | left h ih =>
    rename_i a t1 t2 σ
    simp only [solo_cons]
    exact ih (fun x hx => s1 x (by simp [hx])) s2 (fun x hx y hy => hi x (by simp [hx]) y hy) _
  | right h ih =>
    rename_i a t1 t2 σ
    simp only [solo_cons]
    rw [ih s1 (fun x hx => s2 x (by simp [hx])) (fun x hx y hy => hi x hx y (by simp [hy])) _]
    congr 1
    exact comm_thread (s2 a (by simp)) t1
      (fun b hb => ⟨s1 b hb, (hi b hb a (by simp)).symm⟩) m

/-- in particular the outcome does not depend on the schedule -/
theorem schedule_irrelevant {t1 t2 σ σ' : Thread Loc Val} (h : Interleave t1 t2 σ) (h' : Interleave t1 t2 σ')
    (s1 : ∀ a ∈ t1, a.Sound) (s2 : ∀ b ∈ t2, b.Sound)
    (hi : ∀ a ∈ t1, ∀ b ∈ t2, Indep a b) (m : Mem Loc Val) : solo σ m = solo σ' m := by
  rw [interleave_eq_seq h s1 s2 hi, interleave_eq_seq h' s1 s2 hi]

/-- n goroutines: an n-way interleaving is built by interleaving one more thread into an (n−1)-way one -/
inductive InterleaveN : List (Thread Loc Val) → Thread Loc Val → Prop
  | nil : InterleaveN [] []
  | cons {t ts σ τ} : InterleaveN ts σ → Interleave t σ τ → InterleaveN (t :: ts) τ

theorem mem_of_interleave {t1 t2 σ : Thread Loc Val} (h : Interleave t1 t2 σ) (a : Act Loc Val) (ha : a ∈ σ) :
    a ∈ t1 ∨ a ∈ t2 := by
  induction h with
  | nil => cases ha
  | left h ih =>
    rcases List.mem_cons.mp ha with rfl | ha
    · left; simp
    · rcases ih ha with x | x
      · left; simp [x]
      · right; exact x
  | right h ih =>
    rcases List.mem_cons.mp ha with rfl | ha
    · right; simp
    · rcases ih ha with x | x
      · left; exact x
      · right; simp [x]

theorem mem_of_interleaveN {ts : List (Thread Loc Val)} {σ : Thread Loc Val} (h : InterleaveN ts σ)
    (a : Act Loc Val) (ha : a ∈ σ) : ∃ t ∈ ts, a ∈ t := by
  induction h with
  | nil => cases ha
  | cons hn hi ih =>
    rcases mem_of_interleave hi a ha with x | x
    · exact ⟨_, by simp, x⟩
    · obtain ⟨t, ht, hat⟩ := ih x
      exact ⟨t, by simp [ht], hat⟩

/-- **any number of goroutines**: if the actions of different threads are pairwise independent, every
n-way interleaving ends in the memory obtained by running the threads one after the other -/
theorem interleaveN_eq_seq {ts : List (Thread Loc Val)} {σ : Thread Loc Val} (h : InterleaveN ts σ)
    (hs : ∀ t ∈ ts, ∀ a ∈ t, a.Sound)
    (hi : ts.Pairwise (fun t t' => ∀ a ∈ t, ∀ b ∈ t', Indep a b)) (m : Mem Loc Val) :
    solo σ m = (ts.reverse.foldr (fun t m => solo t m) m) := by
  induction h generalizing m with
  | nil => rfl
  | cons hn hil ih =>
    rename_i t ts σ τ
    have hp := List.pairwise_cons.mp hi
    rw [interleave_eq_seq hil (hs t (by simp)) ?_ ?_ m]
    · rw [ih (fun t' ht' => hs t' (by simp [ht'])) hp.2]
      simp [List.foldr_append]
    · intro b hb
      obtain ⟨t', ht', hbt'⟩ := mem_of_interleaveN hn b hb
      exact hs t' (by simp [ht']) b hbt'
    · intro a ha b hb
      obtain ⟨t', ht', hbt'⟩ := mem_of_interleaveN hn b hb
      exact hp.1 t' ht' a ha b hbt'

/-! ## Part 2: the model's operations -/

/-- a store at one location, as an action on memories indexed by (block, index) -/
def storeAct (b i : Nat) (x : Int) : Act (Nat × Nat) (Option Int) where
  run := fun m l => if l = (b, i) then some x else m l
  R := fun _ => False
  W := fun l => l = (b, i)

theorem storeAct_sound (b i : Nat) (x : Int) : (storeAct b i x).Sound :=
  ⟨fun m l hn => by simp only [storeAct] at *; simp [hn],
   fun m m' _ l hw => by simp only [storeAct] at *; simp [hw]⟩

/-- a read of one location (its result is not part of the memory) -/
def readAct (b i : Nat) : Act (Nat × Nat) (Option Int) where
  run := fun m => m
  R := fun l => l = (b, i)
  W := fun _ => False

theorem readAct_sound (b i : Nat) : (readAct b i).Sound :=
  ⟨fun _ _ _ => rfl, fun _ _ _ _ hw => by cases hw⟩

/-- the memory a heap denotes -/
def absH (h : Heap) : Mem (Nat × Nat) (Option Int) := fun l => cell h l.1 l.2

/-- the model's `store` is the store action (for locations that exist) -/
theorem absH_store (h : Heap) (b i : Nat) (x : Int) (n : Nat) (hr : hasRoom h b n) (hi : i < n) :
    absH (store h b i x) = (storeAct b i x).run (absH h) := by
  funext l
  obtain ⟨lb, li⟩ := l
  simp only [absH, storeAct]
  rw [cell_store_of_room h b i lb li x n hr hi]
  by_cases c : lb = b ∧ li = i
  · obtain ⟨rfl, rfl⟩ := c; simp
  · have : ¬ ((lb, li) = (b, i)) := by intro e; injection e with e1 e2; exact c ⟨e1, e2⟩
    simp [c, this]

/-- **window confinement**: a store through the slice `[s, e)` of `b` (by `SetSample`, and hence by
`Write`, whose stores are `SetSample`s at indices below the length) lands inside frames `[s, e)` of
`b`: between `b.off + ch·s` and `b.off + ch·e`. -/
theorem slice_store_window (hp : Heap) (b c : Buf) (hch : 1 ≤ b.ch) (hcap : (b.cap : Int) < 2^63)
    (s e : Nat) (hse : s ≤ e) (he : e ≤ b.capacity) (hs : b.slice (s : Int) (e : Int) = some c)
    (i : Nat) (x : Int) (h' : Heap) (hst : c.setSample hp (i : Int) x = some h') :
    ∃ j, h' = store hp b.blk j x ∧ b.off + b.ch * s ≤ j ∧ j < b.off + b.ch * e := by
  rw [C02.slice_ok b hch hcap s e hse he] at hs
  have hs := Option.some.inj hs; subst hs
  unfold Buf.setSample at hst
  split at hst
  · rename_i hi
    have hst := Option.some.inj hst
    refine ⟨b.off + b.ch * s + i, ?_, by omega, ?_⟩
    · rw [← hst]; simp [C02.sliceView]
    · simp [C02.sliceView] at hi
      have : b.ch * s ≤ b.ch * e := Nat.mul_le_mul_left _ hse
      omega
  · cases hst

/-- stores into disjoint index ranges of a block are independent actions -/
theorem store_indep (b i b' i' : Nat) (x y : Int) (hne : (b, i) ≠ (b', i')) :
    Indep (storeAct b i x) (storeAct b' i' y) := by
  constructor
  · intro l hw; simp only [storeAct] at *; subst hw; exact ⟨fun f => f, hne⟩
  · intro l hw; simp only [storeAct] at *; subst hw; exact ⟨fun f => f, fun e => hne e.symm⟩

/-- a read and a store at different locations are independent -/
theorem read_store_indep (b i b' i' : Nat) (y : Int) (hne : (b, i) ≠ (b', i')) :
    Indep (readAct b i) (storeAct b' i' y) := by
  constructor
  · intro l hw; cases hw
  · intro l hw; simp only [storeAct, readAct] at *; subst hw; exact ⟨fun e => hne e.symm, fun f => f⟩

/-- two reads are always independent: any number of concurrent readers commute -/
theorem read_read_indep (b i b' i' : Nat) : Indep (readAct b i) (readAct b' i' : Act (Nat × Nat) (Option Int)) := by
  constructor
  · intro l hw; exact absurd hw (fun f => f)
  · intro l hw; exact absurd hw (fun f => f)

/-- **the read-only entry points do not modify the heap** (they return the heap they were given):
`Read`, `ReadStriped` and a conversion's reads of its source are pure functions of the heap;
`Sample`, `Slice`, `Length`, `Capacity`, `Channel` views take no heap result at all. -/
theorem read_pure (cv : Int → Option Int) (h : Heap) (src : Buf) (dst : List Int) :
    ∀ h' r, read cv h src dst = .ok h' r → h' = h := by
  intro h' r e
  unfold read at e
  simp only at e
  cases hm : (List.range (min src.len dst.length)).mapM (fun (i : Nat) => (src.sample h (i : Int)).bind cv) with
  | none => rw [hm] at e; cases e
  | some vals => rw [hm] at e; injection e with e1 _; exact e1.symm

theorem readStriped_pure (cv : Int → Option Int) (h : Heap) (src : Buf) (dst : List (List Int)) :
    ∀ h' r, readStriped cv h src dst = .ok h' r → h' = h := by
  have aux : ∀ (cols : List (List Int)) (c : Nat) h' r, rsChans cv h src c cols = .ok h' r → h' = h := by
    intro cols
    induction cols with
    | nil => intro c h' r e; simp [rsChans] at e; exact e.1.symm
    | cons col cols ih =>
      intro c h' r e
      unfold rsChans at e
      split at e
      · cases e
      · cases e
      · cases hr : rsChans cv h src (c + 1) cols with
        | ok h2 rest =>
          rw [hr] at e; simp [Res.bind] at e
          have := ih (c + 1) h2 rest hr
          rw [← e.1, this]
        | panic h2 p => rw [hr] at e; simp [Res.bind] at e
        | unspec => rw [hr] at e; simp [Res.bind] at e
  intro h' r e
  unfold readStriped at e
  split at e
  · cases e
  · cases hr : rsChans cv h src 0 dst with
    | ok h2 cols =>
      rw [hr] at e; simp [Res.bind] at e
      rw [← e.1]; exact aux dst 0 h2 cols hr
    | panic h2 p => rw [hr] at e; simp [Res.bind] at e
    | unspec => rw [hr] at e; simp [Res.bind] at e

/-- a writer's stores through `b.Slice(s, e)`: every one of them is a `storeAct` inside frames `[s, e)` -/
def InWindow (b : Buf) (s e : Nat) (a : Act (Nat × Nat) (Option Int)) : Prop :=
  ∃ j x, a = storeAct b.blk j x ∧ b.off + b.ch * s ≤ j ∧ j < b.off + b.ch * e

/-- **writers confined to disjoint frame ranges of one buffer**: whatever each of them stores, in
whatever order the scheduler interleaves the two threads, the memory at the end is the memory of the
sequential run (first writer, then second writer) – and hence does not depend on the schedule. -/
theorem disjoint_windows_schedule_irrelevant (b : Buf) (s1 e1 s2 e2 : Nat) (hdis : e1 ≤ s2)
    (t1 t2 σ : Thread (Nat × Nat) (Option Int))
    (h1 : ∀ a ∈ t1, InWindow b s1 e1 a) (h2 : ∀ a ∈ t2, InWindow b s2 e2 a)
    (hσ : Interleave t1 t2 σ) (m : Mem (Nat × Nat) (Option Int)) :
    solo σ m = solo t2 (solo t1 m) := by
  apply interleave_eq_seq hσ
  · intro a ha; obtain ⟨j, x, rfl, _, _⟩ := h1 a ha; exact storeAct_sound _ _ _
  · intro a ha; obtain ⟨j, x, rfl, _, _⟩ := h2 a ha; exact storeAct_sound _ _ _
  · intro a ha c hc
    obtain ⟨j, x, rfl, l1, u1⟩ := h1 a ha
    obtain ⟨j', y, rfl, l2, u2⟩ := h2 c hc
    apply store_indep
    intro heq
    injection heq with _ hj
    have : b.ch * e1 ≤ b.ch * s2 := Nat.mul_le_mul_left _ hdis
    omega

/-- the stores the model performs for `SetSample` through a slice are `InWindow` actions (by
`slice_store_window` and `absH_store`) – so the theorem above applies to the model's writers -/
theorem model_store_inWindow (hp : Heap) (b c : Buf) (hch : 1 ≤ b.ch) (hcap : (b.cap : Int) < 2^63)
    (s e : Nat) (hse : s ≤ e) (he : e ≤ b.capacity) (hs : b.slice (s : Int) (e : Int) = some c)
    (hw : b.wf hp) (i : Nat) (x : Int) (h' : Heap) (hst : c.setSample hp (i : Int) x = some h') :
    ∃ a, InWindow b s e a ∧ absH h' = a.run (absH hp) := by
  obtain ⟨j, hj, l, u⟩ := slice_store_window hp b c hch hcap s e hse he hs i x h' hst
  refine ⟨storeAct b.blk j x, ⟨j, x, rfl, l, u⟩, ?_⟩
  rw [hj]
  have hc := C02.capacity_mul_le b
  have : b.ch * e ≤ b.ch * b.capacity := Nat.mul_le_mul_left _ he
  exact absH_store hp b.blk j x (b.off + b.cap) hw.2 (by omega)

/-- non-vacuity: two writers on the two frames of a 2-channel, 2-frame buffer; both orders agree -/
example :
    let t1 : Thread (Nat × Nat) (Option Int) := [storeAct 0 0 5, storeAct 0 1 6]
    let t2 : Thread (Nat × Nat) (Option Int) := [storeAct 0 2 7, storeAct 0 3 8]
    (∀ a ∈ t1, ∀ b ∈ t2, Indep a b) := by
  intro t1 t2 a ha b hb
  simp only [t1, t2, List.mem_cons, List.mem_nil_iff, or_false] at ha hb
  rcases ha with rfl | rfl <;> rcases hb with rfl | rfl <;> exact store_indep _ _ _ _ _ _ (by decide)

end Sig.C19

import SignalProofs.Lemmas.FloatOps
import SignalModel.Buffer
/-!
# `Length` / `ChannelLength` as the code computes them (float64 division and `math.Ceil`) agree with the
integer ceiling used by the model, for all lengths below 2^53 samples and any positive channel count.
-/
namespace Sig.ChanLen
open Sig FV
set_option linter.unusedVariables false
set_option linter.unusedSimpArgs false

theorem f64p : (1:ℕ) ≤ f64.p := by decide
theorem f64e : f64.emin ≤ 0 := by decide

theorem rne_int53 (k : ℤ) (hk : k.natAbs < 2^53) : rne f64 (k:ℚ) = k := by
  have := rne_fix f64 f64p k 0 (by simpa [f64] using hk) f64e
  simpa using this

/-- integer ceiling division as a rational ceiling -/
theorem channelLength_ceil (n ch : ℕ) (hch : 1 ≤ ch) : (channelLength n ch : ℤ) = ⌈(n:ℚ) / ch⌉ := by
  unfold channelLength
  have hne : ch ≠ 0 := by omega
  simp only [hne, if_false]
  symm
  rw [Int.ceil_eq_iff]
  have hc : (0:ℚ) < ch := by exact_mod_cast hch
  have h1 := Nat.div_add_mod (n + ch - 1) ch
  have h2 := Nat.mod_lt (n + ch - 1) (by omega : 0 < ch)
  set d := (n + ch - 1) / ch with hd
  set r := (n + ch - 1) % ch with hr
  -- ch*d + r = n + ch − 1, 0 ≤ r < ch  ⇒  ch*(d−1) < n ≤ ch*d
  have e : (ch * d + r : ℕ) = n + ch - 1 := h1
  have e' : ((ch:ℚ) * d + r) = (n:ℚ) + ch - 1 := by
    have : ((ch * d + r : ℕ) : ℚ) = ((n + ch - 1 : ℕ) : ℚ) := by rw [e]
    rw [Nat.cast_sub (by omega)] at this
    push_cast at this; linarith
  have rq : (r:ℚ) ≤ ch - 1 := by
    have : r ≤ ch - 1 := by omega
    have : (r:ℚ) ≤ ((ch - 1 : ℕ) : ℚ) := by exact_mod_cast this
    rw [Nat.cast_sub hch] at this; simpa using this
  have r0 : (0:ℚ) ≤ r := by positivity
  push_cast
  constructor
  · rw [lt_div_iff₀ hc]; nlinarith
  · rw [div_le_iff₀ hc]; nlinarith

/-- rounding the quotient does not move it across an integer: `⌈rne(n/ch)⌉ = ⌈n/ch⌉` below 2^53 -/
theorem ceil_rne_quot (n ch : ℕ) (hch : 1 ≤ ch) (hch53 : ch < 2^53) (hn : n < 2^53) :
    ⌈rne f64 ((n:ℚ) / ch)⌉ = ⌈(n:ℚ) / ch⌉ := by
  have hc : (0:ℚ) < ch := by exact_mod_cast hch
  set t := (n:ℚ) / ch with ht
  set k := ⌈t⌉ with hk
  have t0 : 0 ≤ t := by positivity
  have kle : (t:ℚ) ≤ k := Int.le_ceil t
  have klt : (k:ℚ) - 1 < t := by have := Int.ceil_lt_add_one t; linarith
  have k0 : 0 ≤ k := Int.ceil_nonneg t0
  have tn : t ≤ n := by
    rw [ht, div_le_iff₀ hc]
    have : (1:ℚ) ≤ ch := by exact_mod_cast hch
    nlinarith [show (0:ℚ) ≤ n by positivity]
  have kn : k ≤ n := by
    have : ⌈t⌉ ≤ ⌈(n:ℚ)⌉ := Int.ceil_mono tn
    simpa using this
  have kabs : k.natAbs < 2^53 := by omega
  -- upper: rne t ≤ k
  have up : rne f64 t ≤ k := by
    have := rne_mono f64 f64p kle; rwa [rne_int53 k kabs] at this
  rw [Int.ceil_eq_iff]
  refine ⟨?_, up⟩
  -- lower: k − 1 < rne t
  rcases eq_or_lt_of_le t0 with hz | tpos
  · -- t = 0
    have : k = 0 := by rw [hk, ← hz]; simp
    rw [← hz, rne_zero, this]; norm_num
  · by_cases hint : (k:ℚ) = t
    · rw [← hint, rne_int53 k kabs]; linarith
    · -- t is not an integer: t − (k−1) ≥ 1/ch, and the rounding error is below 1/ch
      have hgap : (k:ℚ) - 1 + 1 / ch ≤ t := by
        -- ch·t = n is an integer > ch·(k−1), so n ≥ ch·(k−1) + 1
        have hnk : (ch:ℤ) * (k - 1) < n := by
          have : ((ch:ℤ) * (k - 1) : ℤ) < (n:ℚ) := by
            push_cast
            have : (ch:ℚ) * ((k:ℚ) - 1) < ch * t := mul_lt_mul_of_pos_left klt hc
            rw [ht, mul_div_cancel₀ _ (ne_of_gt hc)] at this; exact this
          exact_mod_cast this
        have hnk' : (ch:ℤ) * (k - 1) + 1 ≤ n := hnk
        have : ((ch:ℚ) * ((k:ℚ) - 1) + 1) ≤ n := by exact_mod_cast hnk'
        rw [ht, le_div_iff₀ hc]
        have : ((k:ℚ) - 1 + 1 / ch) * ch = (ch:ℚ) * ((k:ℚ) - 1) + 1 := by field_simp
        linarith
      have herr := rne_err_pos f64 tpos
      obtain ⟨l1, _⟩ := ilog2_spec t tpos
      -- 2^(expo t)/2 ≤ t·2^−53 or t is tiny (then rne t > 0 ≥ k − 1 anyway: k = 1)
      have hexpo : (2:ℚ)^(expo f64 t) / 2 ≤ t * 2^(-53:ℤ) ∨ expo f64 t = f64.emin := by
        unfold expo
        rcases le_total (ilog2 t - ((f64.p:ℤ) - 1)) f64.emin with h | h
        · right; exact max_eq_right h
        · left
          rw [max_eq_left h]
          have : (2:ℚ)^(ilog2 t - ((f64.p:ℤ) - 1)) / 2 = 2^(ilog2 t) * 2^(-53:ℤ) := by
            have : (f64.p:ℤ) = 53 := by decide
            rw [this, show ilog2 t - ((53:ℤ) - 1) = ilog2 t + (-53) + 1 by ring, zpow_add₀ (by norm_num),
              zpow_add₀ (by norm_num)]
            simp
          rw [this]
          exact mul_le_mul_of_nonneg_right l1 (by positivity)
      have habs := abs_le.mp herr
      rcases hexpo with he | he
      · -- normal: error ≤ t·2^−53 < 1/ch
        have hsmall : t * 2^(-53:ℤ) < 1 / ch := by
          rw [ht, div_mul_eq_mul_div, div_lt_div_iff_of_pos_right hc]
          have : (n:ℚ) < 2^(53:ℤ) := by exact_mod_cast hn
          calc (n:ℚ) * 2^(-53:ℤ) < 2^(53:ℤ) * 2^(-53:ℤ) := mul_lt_mul_of_pos_right this (by positivity)
            _ = 1 := by rw [← zpow_add₀ (by norm_num)]; norm_num
        linarith [habs.1]
      · -- subnormal range cannot occur for t ≥ 1/ch with ch < ... ; argue directly: t ≥ 2^−53 > 2^−1022
        exfalso
        -- expo = emin means ilog2 t − 52 ≤ −1074, i.e. t < 2^−1021, but t ≥ 1/ch·… ≥ 1/n·… ; use t ≥ 1/ch and n/ch: t·ch = n ≥ 1
        have hil : ilog2 t - ((f64.p:ℤ) - 1) ≤ f64.emin := by
          unfold expo at he
          by_contra hc'
          rw [max_eq_left (le_of_lt (not_le.mp hc'))] at he
          omega
        obtain ⟨_, l2⟩ := ilog2_spec t tpos
        have : t < 2^(-1021:ℤ) := by
          refine lt_of_lt_of_le l2 (zpow_le_zpow_right₀ (by norm_num) ?_)
          have : (f64.p:ℤ) = 53 := by decide
          have : f64.emin = -1074 := by decide
          omega
        have hn1 : 1 ≤ n := by
          rcases Nat.eq_zero_or_pos n with h0 | h0
          · rw [ht, h0] at tpos; simp at tpos
          · exact h0
        have hlow : (2:ℚ)^(-63:ℤ) ≤ t := by
          rw [ht, le_div_iff₀ hc]
          have h1 : (ch:ℚ) < 2^(63:ℤ) := by
            have : (ch:ℚ) < 2^(53:ℤ) := by exact_mod_cast hch53
            exact lt_trans this (zpow_lt_zpow_right₀ (by norm_num) (by norm_num))
          have h2 : (1:ℚ) ≤ n := by exact_mod_cast hn1
          calc (2:ℚ)^(-63:ℤ) * ch ≤ 2^(-63:ℤ) * 2^(63:ℤ) := mul_le_mul_of_nonneg_left (le_of_lt h1) (by positivity)
            _ = 1 := by rw [← zpow_add₀ (by norm_num)]; norm_num
            _ ≤ n := h2
        have : (2:ℚ)^(-1021:ℤ) ≤ 2^(-63:ℤ) := zpow_le_zpow_right₀ (by norm_num) (by norm_num)
        linarith

/-- **`ChannelLength` as coded equals the integer ceiling** for lengths below 2^53 -/
theorem channelLengthF_eq (n ch : ℕ) (hch : 1 ≤ ch) (hch53 : ch < 2^53) (hn : n < 2^53) :
    channelLengthF (n:ℤ) (ch:ℤ) = some (channelLength n ch : ℤ) := by
  have hc : (0:ℚ) < ch := by exact_mod_cast hch
  unfold channelLengthF
  have hch0 : ¬ ((ch:ℤ) = 0) := by omega
  simp only [hch0, if_false]
  rw [channelLength_ceil n ch hch, ← ceil_rne_quot n ch hch hch53 hn]
  -- float64(n) and float64(ch)
  have hnf : FV.ofInt f64 (n:ℤ) = .fin (n:ℚ) := by
    rcases Nat.eq_zero_or_pos n with h0 | h0
    · subst h0; simpa using ofInt_zero f64
    · have := ofInt_exact f64 f64p f64e (by decide) (n:ℤ) (by omega) (by simpa [f64] using hn)
      simpa using this
  have hcf : FV.ofInt f64 (ch:ℤ) = .fin (ch:ℚ) := by
    have := ofInt_exact f64 f64p f64e (by decide) (ch:ℤ) (by omega) (by simpa [f64] using hch53)
    simpa using this
  rw [hnf, hcf]
  set t := (n:ℚ) / ch with ht
  have t0 : 0 ≤ t := by positivity
  have tn : t ≤ n := by
    rw [ht, div_le_iff₀ hc]
    have : (1:ℚ) ≤ ch := by exact_mod_cast hch
    nlinarith [show (0:ℚ) ≤ n by positivity]
  have r0 : 0 ≤ rne f64 t := rne_nonneg' f64 t0
  have rn : rne f64 t ≤ n := by
    have := rne_mono f64 f64p tn
    have e := rne_int53 (n:ℤ) (by simpa using hn)
    rw [Int.cast_natCast] at e
    rwa [e] at this
  have n53 : (n:ℚ) < 2^(53:ℤ) := by exact_mod_cast hn
  have hov : |rne f64 t| < (2:ℚ)^(f64.emax + 1) := by
    rw [abs_of_nonneg r0]
    have : f64.emax + 1 = 1024 := by decide
    rw [this]
    exact lt_of_le_of_lt rn (lt_trans n53 (zpow_lt_zpow_right₀ (by norm_num) (by norm_num)))
  have hdiv : (FV.div f64 (.fin (n:ℚ)) (.fin (ch:ℚ))).toRat? = some (rne f64 t) := by
    have : (ch:ℚ) ≠ 0 := ne_of_gt hc
    simp only [FV.div, FV.toRat?, this, if_false]
    exact round_toRat f64 _ _ hov
  -- math.Ceil
  have hceil : ∀ v : FV, v.toRat? = some (rne f64 t) → (FV.ceil v).toRat? = some ((⌈rne f64 t⌉ : ℤ) : ℚ) := by
    intro v hv
    have hc' : ∀ q : ℚ, ((-((-q).floor) : ℤ)) = ⌈q⌉ := by
      intro q; rw [floor_eq]; exact (Int.ceil_neg (a := -q)).symm.trans (by rw [neg_neg])
    cases v with
    | nan => simp [FV.toRat?] at hv
    | inf b => simp [FV.toRat?] at hv
    | nzero =>
      simp [FV.toRat?] at hv
      simp [FV.ceil, FV.toRat?, ← hv]
    | fin q =>
      simp [FV.toRat?] at hv; subst hv
      simp only [FV.ceil]
      split_ifs with h
      · simp only [FV.toRat?]; rw [← hc', h.1]
      · simp only [FV.toRat?]; rw [hc']
  have hres := hceil _ hdiv
  have cl0 : 0 ≤ ⌈rne f64 t⌉ := Int.ceil_nonneg r0
  have clN : ⌈rne f64 t⌉ ≤ n := by
    have : ⌈rne f64 t⌉ ≤ ⌈(n:ℚ)⌉ := Int.ceil_mono rn
    simpa using this
  unfold toIntTy
  have imin : int64Ty.minVal = -(2^63) := by decide
  have imax : int64Ty.maxVal = 2^63 - 1 := by decide
  rw [toInt_of_toRat _ _ _ _ hres (by rw [truncQ_int, imin]; omega) (by rw [truncQ_int, imax]; omega), truncQ_int]

/-- consequently the model's `Buf.length` (integer ceiling) is what `Buffer.Length()` computes -/
theorem length_eq (b : Buf) (hch : 1 ≤ b.ch) (hch53 : b.ch < 2^53) (hn : b.len < 2^53) :
    channelLengthF (b.len:ℤ) (b.ch:ℤ) = some (b.length : ℤ) := channelLengthF_eq b.len b.ch hch hch53 hn

example : channelLengthF 7 2 = some 4 ∧ channelLength 7 2 = 4 := by
  refine ⟨by decide +kernel, by decide⟩

end Sig.ChanLen

import SignalModel.Cost
import SignalProofs.Lemmas.Xfer
import SignalProofs.Props.C03
import SignalProofs.Props.C10
/-!
# C18 — steady-state operations do not allocate (model part)

In the model a heap allocation is a new block of the `Heap` or a new header.  Every steady-state
operation returns a heap with the same number of blocks (it only overwrites cells) and creates no
header, except `Slice`, which creates exactly one header and no block.
-/
namespace Sig.C18
open Sig
set_option linter.unusedVariables false
set_option linter.unusedSimpArgs false

theorem storeList_blocks (h : Heap) (b s : Nat) (vs : List Int) : (storeList h b s vs).length = h.length := by
  induction vs generalizing h s with
  | nil => rfl
  | cons v vs ih => simp only [storeList]; rw [ih, store_length]

/-- the result of an operation has as many blocks as `h` -/
def SameBlocks {α : Type} (h : Heap) : Res α → Prop
  | .ok h' _ => h'.length = h.length
  | .panic h' _ => h'.length = h.length
  | .unspec => True

theorem setSample_blocks (h : Heap) (b : Buf) (i x : Int) : ∀ h', b.setSample h i x = some h' → h'.length = h.length := by
  intro h' e
  unfold Buf.setSample at e
  split at e
  · have e := Option.some.inj e; subst e; exact store_length _ _ _ _
  · cases e

theorem appendSample_blocks (h : Heap) (b : Buf) (x : Int) : (b.appendSample h x).1.length = h.length := by
  unfold Buf.appendSample; split
  · rfl
  · exact store_length _ _ _ _

theorem xferLoop_blocks (k : Int → Option Int) (src dst : Buf) (shift : Nat) (is : List Nat) (h : Heap) :
    SameBlocks h (xferLoop k src dst shift is h) := by
  induction is generalizing h with
  | nil => exact rfl
  | cons i is ih =>
    unfold xferLoop
    split
    · exact rfl
    · split
      · trivial
      · split
        · exact rfl
        · rename_i h' hs
          have hl := setSample_blocks h dst _ _ h' hs
          have := ih h'
          revert this
          cases xferLoop k src dst shift is h' with
          | ok h2 u => intro t; exact t.trans hl
          | panic h2 p => intro t; exact t.trans hl
          | unspec => intro _; trivial

/-- all nine conversions -/
theorem convert_blocks (f : ConvFn) (h : Heap) (src dst : Buf) : SameBlocks h (convertFn f h src dst) := by
  unfold convertFn
  split
  · exact rfl
  · unfold convert
    split
    · exact rfl
    · simp only
      split
      · exact rfl
      · have := xferLoop_blocks (kernel f src.kind src.depth dst.kind dst.depth) src dst 0
          (List.range (min src.len dst.len)) h
        revert this
        cases xferLoop _ src dst 0 (List.range (min src.len dst.len)) h with
        | ok h2 u => intro t; exact t
        | panic h2 p => intro t; exact t
        | unspec => intro _; trivial

theorem write_blocks (cv : Int → Option Int) (h : Heap) (src : List Int) (dst : Buf) :
    SameBlocks h (write cv h src dst) := by
  unfold write
  simp only
  split
  · trivial
  · exact storeList_blocks _ _ _ _

theorem read_blocks (cv : Int → Option Int) (h : Heap) (src : Buf) (dst : List Int) :
    SameBlocks h (read cv h src dst) := by
  unfold read
  simp only
  split
  · trivial
  · exact rfl

/-- appending within capacity: same number of blocks, the same header object is updated -/
theorem append_in_place_blocks (h : Heap) (dst src : Buf) (self : Bool) (g : Nat)
    (hch : dst.ch = src.ch) (hwd : dst.wf h) (hws : src.wf h) (hal : dst.ch = 0 ∨ dst.cap % dst.ch = 0)
    (hfit : dst.len + src.len ≤ dst.cap) (hself : self = true → src = dst) :
    SameBlocks h (dst.append h src self g) := by
  rw [C03.append_in_place h dst src self g hch hwd hws hal hfit hself]
  exact storeList_blocks _ _ _ _

/-- `Slice` does not touch the heap at all: it is a function of the header only; it creates one header -/
theorem slice_allocs : modelAllocs "slice" = some 1 := rfl

/-- a pool get/put cycle of a pooled buffer creates neither a block nor a header -/
theorem pool_cycle_blocks (p : PoolM.Par) (s : PoolM.PSt) (g : PoolM.Gid) (id : Nat) :
    let s1 := PoolM.step p s (.getReuse g id)
    let s2 := PoolM.step p s1 (.put g id)
    s2.heap.length = s.heap.length ∧ s2.bufs.length = s.bufs.length := by
  intro s1 s2
  have e1 : s1.heap = s.heap ∧ s1.bufs = s.bufs := by
    show (PoolM.stepGetReuse s g id).heap = s.heap ∧ (PoolM.stepGetReuse s g id).bufs = s.bufs
    unfold PoolM.stepGetReuse; split <;> exact ⟨rfl, rfl⟩
  have e2 : s2.heap.length = s1.heap.length ∧ s2.bufs.length = s1.bufs.length := by
    show (PoolM.stepPut p s1 g id).heap.length = s1.heap.length ∧ (PoolM.stepPut p s1 g id).bufs.length = s1.bufs.length
    unfold PoolM.stepPut
    split
    · split
      · rename_i b hb hh
        cases hput : (PoolM.pool p s1).put s1.heap b with
        | ok h b' =>
          simp only
          unfold Sig.Pool.put at hput
          split at hput
          · cases hput
          · split at hput
            · injection hput with e _
              rw [← e]
              unfold Buf.clear
              exact ⟨storeList_blocks _ _ _ _, by simp⟩
            · cases hput
        | panic h p' => exact ⟨rfl, rfl⟩
        | unspec => exact ⟨rfl, rfl⟩
      · exact ⟨rfl, rfl⟩
    · exact ⟨rfl, rfl⟩
  rw [e2.1, e2.2, e1.1, e1.2]; exact ⟨rfl, rfl⟩

/-- every operation the harness measures has a model count, and all but `slice` are zero -/
theorem steady_state_zero : ∀ op ∈ ["sample", "setSample", "appendSample", "appendSampleFull", "read", "write",
    "readStriped", "writeStriped", "FloatAsFloat", "FloatAsSigned", "FloatAsUnsigned", "SignedAsFloat",
    "SignedAsSigned", "SignedAsUnsigned", "UnsignedAsFloat", "UnsignedAsSigned", "UnsignedAsUnsigned",
    "appendInPlace", "channelSample", "channelSetSample", "channelView", "poolCycle", "lengths"],
    modelAllocs op = some 0 := by decide

end Sig.C18

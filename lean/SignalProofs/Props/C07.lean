import SignalModel.Spec
import SignalProofs.Lemmas.Quant
/-!
# C07 — requantisation is accurate to one step and lossless when widening

Same model and same domain as C06: all 121 integer kind pairs, every in-range sample.
-/
namespace Sig.C07
open Sig Spec
set_option linter.unusedVariables false

private theorem amp_eq_kamp (k : Kind) (x : Int) : Spec.amp k.isSigned k.width x = kamp k x := rfl

/-- **neighbour**: narrowing by k bits yields ⌊a/2^k⌋ or ⌈a/2^k⌉ of the source amplitude `a` -/
theorem neighbour (s d : Kind) (hs : s.isInt) (hd : d.isInt) (x : Int) (hx : s.intTy.inRange x) :
    C07.neighbourOK s.isSigned s.width d.isSigned d.width x (qkernel s d x) = true := by
  unfold C07.neighbourOK
  by_cases h : s.width < d.width
  · simp [h]
  · simp only [h, if_false]
    rw [amp_eq_kamp, amp_eq_kamp, qkernel_amap s d hs hd x hx]
    rcases amap_neighbour s.isSigned s.width d.width (by omega) (kamp s x) with e | e <;> simp [e]

/-- **same depth**: identity on amplitudes (signed and unsigned codes differ by the 2^(b−1) offset) -/
theorem sameDepth (s d : Kind) (hs : s.isInt) (hd : d.isInt) (x : Int) (hx : s.intTy.inRange x) :
    C07.sameDepthOK s.isSigned s.width d.isSigned d.width x (qkernel s d x) = true := by
  unfold C07.sameDepthOK
  by_cases h : s.width = d.width
  · rw [amp_eq_kamp, amp_eq_kamp, qkernel_amap s d hs hd x hx, h, amap_same]; simp
  · simp [h]

/-- **lossless widening**: for every widening conversion `s → m` (any signedness on either side) and
the narrowing conversion `m → s` back to the original format, the original sample is returned. -/
theorem roundTrip (s m : Kind) (hs : s.isInt) (hm : m.isInt) (hw : s.width < m.width) (x : Int)
    (hx : s.intTy.inRange x) :
    C07.roundTripOK x (qkernel m s (qkernel s m x)) = true := by
  unfold C07.roundTripOK
  have hy := qkernel_inRange s m x
  have e1 := qkernel_amap s m hs hm x hx
  have e2 := qkernel_amap m s hm hs (qkernel s m x) hy
  rw [e1, amap_roundtrip s.isSigned m.isSigned s.width m.width (w4_of_kind s) (w4_of_kind m) hw _
        (kamp_inAmp s x hx)] at e2
  have e3 := kamp_inj s _ _ e2
  exact decide_eq_true e3.symm

example : qkernel .u8 .i16 200 = 18687 ∧ qkernel .i16 .u8 18687 = 200 ∧ qkernel .i32 .i8 (-1) = 0 ∧
    qkernel .u32 .u8 2147483647 = 127 := by decide

end Sig.C07

import SignalModel.SpecMem
import SignalProofs.Lemmas.Xfer
import SignalProofs.Props.C02
import SignalProofs.Props.C03
/-!
# C12 — views behave exactly like Go slices under any history of operations

The reference model "built from plain Go slices" is the `Heap`/`Buf` layer itself (blocks, slice
headers, Go's slice expression, `append` within / beyond capacity).  This file proves that the
channel-aware operations never leave that layer's invariants, over **unbounded** histories, and
characterises exactly which views see a store.
-/
namespace Sig.C12
open Sig
set_option linter.unusedVariables false
set_option linter.unusedSimpArgs false

structure St where
  heap : Heap
  bufs : List Buf

inductive Op
  | alloc (k : Kind) (named : Bool) (C L K : Nat)
  | slice (v : Nat) (s e : Int)
  | appendSample (v : Nat) (x : Int)
  | setSample (v : Nat) (i : Int) (x : Int)
  | write (v : Nat) (vals : List Int)
  | append (d s : Nat) (g : Nat)

def stepAlloc (s : St) (k : Kind) (named : Bool) (C L K : Nat) : St :=
  if (C * K : Int) < 2^63 then
    match alloc s.heap k named C L K with
    | some (h, b) => ⟨h, s.bufs ++ [b]⟩
    | none => s
  else s

def stepSlice (s : St) (v : Nat) (st e : Int) : St :=
  match s.bufs[v]? with
  | some b => (match b.slice st e with
    | some c => ⟨s.heap, s.bufs ++ [c]⟩
    | none => s)
  | none => s

def stepAppendSample (s : St) (v : Nat) (x : Int) : St :=
  match s.bufs[v]? with
  | some b => ⟨(b.appendSample s.heap x).1, s.bufs.set v (b.appendSample s.heap x).2⟩
  | none => s

def stepSetSample (s : St) (v : Nat) (i x : Int) : St :=
  match s.bufs[v]? with
  | some b => (match b.setSample s.heap i x with
    | some h => ⟨h, s.bufs⟩
    | none => s)
  | none => s

def stepWrite (s : St) (v : Nat) (vals : List Int) : St :=
  match s.bufs[v]? with
  | some b => (match write some s.heap vals b with
    | .ok h _ => ⟨h, s.bufs⟩
    | _ => s)
  | none => s

def stepAppend (s : St) (d sr g : Nat) : St :=
  match s.bufs[d]?, s.bufs[sr]? with
  | some db, some sb =>
    if (db.cap < db.len + sb.len → growOK db sb g = true ∧ (g : Int) < 2^63) then
      match db.append s.heap sb (d == sr) g with
      | .ok h b' => ⟨h, s.bufs.set d b'⟩
      | .panic h _ => ⟨h, s.bufs⟩
      | .unspec => s
    else s
  | _, _ => s

/-- one step of a history (panicking operations leave the headers as they were; the heap is whatever
the panic left behind).  Inadmissible growth capacities and allocations beyond 2^63 samples are
outside the model and leave the state unchanged. -/
def step (s : St) : Op → St
  | .alloc k named C L K => stepAlloc s k named C L K
  | .slice v st e => stepSlice s v st e
  | .appendSample v x => stepAppendSample s v x
  | .setSample v i x => stepSetSample s v i x
  | .write v vals => stepWrite s v vals
  | .append d sr g => stepAppend s d sr g

def run (s : St) (ops : List Op) : St := ops.foldl step s

/-- the Go-slice invariants of one view: window inside an existing block, `len ≤ cap`, capacity a
whole number of frames, capacity below 2^63 -/
def BufOK (h : Heap) (b : Buf) : Prop :=
  b.wf h ∧ (b.ch = 0 ∨ b.cap % b.ch = 0) ∧ (b.cap : Int) < 2^63

def Inv (s : St) : Prop := ∀ b ∈ s.bufs, BufOK s.heap b

theorem BufOK.ext {h h' : Heap} {b : Buf} (e : Ext h h') (x : BufOK h b) : BufOK h' b :=
  ⟨b.wf_ext e x.1, x.2⟩

theorem inv_ext {s : St} {h' : Heap} (e : Ext s.heap h') (x : Inv s) : Inv ⟨h', s.bufs⟩ :=
  fun b hb => (x b hb).ext e

theorem mem_set {bufs : List Buf} {v : Nat} {b' b : Buf} (h : b ∈ bufs.set v b') : b = b' ∨ b ∈ bufs := by
  rcases List.mem_or_eq_of_mem_set h with h | h
  · right; exact h
  · left; exact h

/-- slicing a view that satisfies the invariants gives a view that satisfies them -/
theorem slice_ok_inv (h : Heap) (b c : Buf) (s e : Int) (hb : BufOK h b) (hs : b.slice s e = some c) : BufOK h c := by
  obtain ⟨hw, hal, hcap⟩ := hb
  by_cases hch : b.ch = 0
  · unfold Buf.slice at hs
    simp only [hch, ne_eq, not_true_eq_false, false_and, if_false] at hs
    have z : ∀ x : Int, bufferIndex 0 0 x = 0 := by intro x; simp [bufferIndex, wrapI, wrapS]
    rw [z, z] at hs
    unfold Buf.reslice at hs
    simp at hs
    subst hs
    exact ⟨⟨by simp, by simpa using hw.2⟩, Or.inl hch, hcap⟩
  · have hch1 : 1 ≤ b.ch := by omega
    by_cases g : s < 0 ∨ s > e ∨ e > (b.capacity : Int)
    · rw [(C02.slice_panics_iff b hch1 hcap s e).mpr g] at hs; cases hs
    · have h0 : 0 ≤ s := by omega
      have h1 : 0 ≤ e := by omega
      obtain ⟨s', rfl⟩ := Int.eq_ofNat_of_zero_le h0
      obtain ⟨e', rfl⟩ := Int.eq_ofNat_of_zero_le h1
      have hse : s' ≤ e' := by omega
      have he : e' ≤ b.capacity := by omega
      have wf' := C02.slice_wf h b c hch1 hcap s' e' hse he hs hw
      rw [C02.slice_ok b hch1 hcap s' e' hse he] at hs
      have hs := Option.some.inj hs
      subst hs
      refine ⟨wf', ?_, ?_⟩
      · right
        show (b.cap - b.ch * s') % b.ch = 0
        have hc := C02.capacity_mul_le b
        have : b.ch * s' ≤ b.cap := by
          have : b.ch * s' ≤ b.ch * b.capacity := Nat.mul_le_mul_left _ (by omega)
          omega
        rw [Nat.sub_mul_mod this]
        rcases hal with a | a; omega; exact a
      · show ((b.cap - b.ch * s' : Nat) : Int) < 2^63
        omega

theorem appendSample_inv (h : Heap) (b : Buf) (x : Int) (hb : BufOK h b) :
    Ext h (b.appendSample h x).1 ∧ BufOK (b.appendSample h x).1 (b.appendSample h x).2 := by
  unfold Buf.appendSample
  split
  · exact ⟨Ext.refl h, hb⟩
  · rename_i hne
    have := hb.1.1
    exact ⟨ext_store h _ _ _, ⟨⟨by simp; omega, hasRoom_store h _ _ _ _ _ hb.1.2⟩, hb.2⟩⟩

/-- what `append_inv` says about a result -/
def AppOK (h : Heap) : Res Buf → Prop
  | .ok h' b' => Ext h h' ∧ BufOK h' b'
  | .panic h' _ => Ext h h'
  | .unspec => True

theorem append_inv (h : Heap) (dst src : Buf) (self : Bool) (g : Nat) (hd : BufOK h dst) (hs : BufOK h src)
    (hg : dst.cap < dst.len + src.len → growOK dst src g = true ∧ (g : Int) < 2^63) :
    AppOK h (dst.append h src self g) := by
  unfold Buf.append
  split
  · exact Ext.refl h
  · by_cases hgrow : dst.cap < dst.len + src.len
    · obtain ⟨hg1, hg2⟩ := hg hgrow
      simp only [hgrow, if_true]
      unfold growOK at hg1
      simp only [Bool.and_eq_true, Bool.or_eq_true, decide_eq_true_eq, beq_iff_eq] at hg1
      have e1 : Ext h (h ++ [(List.range dst.len).map (fun i => (cell h dst.blk (dst.off + i)).getD 0) ++ List.replicate (g - dst.len) 0]) :=
        ext_push h _
      have hx := ext_storeList
        (h ++ [(List.range dst.len).map (fun i => (cell h dst.blk (dst.off + i)).getD 0) ++ List.replicate (g - dst.len) 0])
        h.length (0 + dst.len)
        (Buf.firstCells (h ++ [(List.range dst.len).map (fun i => (cell h dst.blk (dst.off + i)).getD 0) ++ List.replicate (g - dst.len) 0])
          (if self = true then { dst with blk := h.length, off := 0, len := dst.len + src.len, cap := g } else src) src.len)
      have hal : alignCap dst.ch g = g := C03.alignCap_aligned _ _ hg1.2
      simp only [hal]
      refine ⟨e1.trans hx, ?_⟩
      refine BufOK.ext hx ⟨⟨by simp; omega, ?_⟩, by simpa using hg1.2, by simpa using hg2⟩
      exact ⟨(List.range dst.len).map (fun i => (cell h dst.blk (dst.off + i)).getD 0) ++ List.replicate (g - dst.len) 0, by simp, by simp; omega⟩
    · simp only [hgrow, if_false]
      have hx := ext_storeList h dst.blk (dst.off + dst.len)
        (Buf.firstCells h (if self = true then { dst with len := dst.len + src.len } else src) src.len)
      have hal : alignCap dst.ch dst.cap = dst.cap := C03.alignCap_aligned _ _ hd.2.1
      simp only [hal]
      refine ⟨hx, ?_⟩
      exact BufOK.ext hx ⟨⟨by simp; omega, hd.1.2⟩, hd.2⟩

/-- **the invariants are preserved by every operation** -/
theorem inv_step (s : St) (op : Op) (hI : Inv s) : Inv (step s op) := by
  cases op with
  | alloc k named C L K =>
    show Inv (stepAlloc s k named C L K)
    unfold stepAlloc
    split
    · rename_i hlt
      cases ha : alloc s.heap k named C L K with
      | none => exact hI
      | some r =>
        obtain ⟨h, b⟩ := r
        simp only
        have hh := ha
        unfold alloc at hh
        split at hh
        · rename_i hle
          have hh := Option.some.inj hh
          injection hh with e1 e2
          have ⟨_, _, _, hwf⟩ := C13_alloc h b hle ha
          intro x hx
          rcases List.mem_append.mp hx with m | m
          · exact (hI x m).ext (by rw [← e1]; exact ext_push _ _)
          · simp at m; subst m
            refine ⟨hwf, ?_, ?_⟩
            · rw [← e2]; by_cases c0 : C = 0
              · left; exact c0
              · right; exact Nat.mul_mod_right C K
            · rw [← e2]; simpa using hlt
        · cases hh
    · exact hI
  | slice v st e =>
    show Inv (stepSlice s v st e)
    unfold stepSlice
    cases hb : s.bufs[v]? with
    | none => exact hI
    | some b =>
      simp only
      cases hs : b.slice st e with
      | none => exact hI
      | some c =>
        intro x hx
        rcases List.mem_append.mp hx with m | m
        · exact hI x m
        · simp at m; subst m
          exact slice_ok_inv s.heap b x st e (hI b (List.mem_of_getElem? hb)) hs
  | appendSample v x =>
    show Inv (stepAppendSample s v x)
    unfold stepAppendSample
    cases hb : s.bufs[v]? with
    | none => exact hI
    | some b =>
      simp only
      have ⟨e, ok⟩ := appendSample_inv s.heap b x (hI b (List.mem_of_getElem? hb))
      intro y hy
      rcases mem_set hy with m | m
      · subst m; exact ok
      · exact (hI y m).ext e
  | setSample v i x =>
    show Inv (stepSetSample s v i x)
    unfold stepSetSample
    cases hb : s.bufs[v]? with
    | none => exact hI
    | some b =>
      simp only
      cases hs : b.setSample s.heap i x with
      | none => exact hI
      | some h =>
        unfold Buf.setSample at hs
        split at hs
        · have hs := Option.some.inj hs; subst hs
          exact inv_ext (ext_store _ _ _ _) hI
        · cases hs
  | write v vals =>
    show Inv (stepWrite s v vals)
    unfold stepWrite
    cases hb : s.bufs[v]? with
    | none => exact hI
    | some b =>
      simp only
      unfold write
      simp only [C03.mapM_some]
      exact inv_ext (ext_storeList _ _ _ _) hI
  | append d sr g =>
    show Inv (stepAppend s d sr g)
    unfold stepAppend
    cases hd : s.bufs[d]? with
    | none => exact hI
    | some db =>
      cases hs : s.bufs[sr]? with
      | none => exact hI
      | some sb =>
        simp only
        split
        · rename_i hg
          have := append_inv s.heap db sb (d == sr) g (hI db (List.mem_of_getElem? hd)) (hI sb (List.mem_of_getElem? hs)) hg
          revert this
          unfold AppOK
          cases db.append s.heap sb (d == sr) g with
          | ok h b' =>
            intro ⟨e, ok⟩ y hy
            rcases mem_set hy with m | m
            · subst m; exact ok
            · exact (hI y m).ext e
          | panic h p => intro e; exact inv_ext e hI
          | unspec => intro _; exact hI
        · exact hI
where
  C13_alloc {k : Kind} {named : Bool} {C L K : Nat} {s : St} (h : Heap) (b : Buf) (hle : C * L ≤ C * K)
      (ha : alloc s.heap k named C L K = some (h, b)) :
      (∀ i, i < C * K → cell h b.blk (b.off + i) = some 0) ∧ True ∧ True ∧ b.wf h := by
    unfold alloc at ha
    simp only [hle, if_true] at ha
    have ha := Option.some.inj ha
    injection ha with e1 e2; subst e1; subst e2
    refine ⟨?_, trivial, trivial, ?_⟩
    · intro i hi; simp [cell, hi]
    · exact ⟨hle, List.replicate (C * K) 0, by simp, by simp⟩

/-- **over unbounded histories**: every live view of every reachable state satisfies the Go-slice
invariants -/
theorem inv_run (s : St) (ops : List Op) (hI : Inv s) : Inv (run s ops) := by
  induction ops generalizing s with
  | nil => exact hI
  | cons op ops ih => exact ih (step s op) (inv_step s op hI)

theorem inv_init : Inv ⟨[], []⟩ := fun _ h => by cases h

/-- **visibility**: in a reachable state, a store through view `v` at index `i` is seen through view
`w` at index `j` exactly when both denote the same storage cell (same block, same absolute index);
otherwise `w` reads what it read before. -/
theorem visible_iff (s : St) (v w : Buf) (hv : v ∈ s.bufs) (hI : Inv s) (i j : Nat) (x : Int)
    (hi : i < v.len) (hj : j < w.len) :
    ∀ h', v.setSample s.heap (i : Int) x = some h' →
      w.sample h' (j : Int) =
        if w.blk = v.blk ∧ w.off + j = v.off + i then some x else w.sample s.heap (j : Int) :=
  Sig.visible_iff s.heap v w i j x (hI v hv).1 hi hj

/-- **a growing append isolates**: the destination's new block did not exist before, so no other view
of the state can address it (their block indices are smaller), and by `visible_iff` neither side
observes the other's later stores. -/
theorem grow_isolates (s : St) (db sb w : Buf) (self : Bool) (g : Nat) (hI : Inv s)
    (hd : db ∈ s.bufs) (hs : sb ∈ s.bufs) (hw : w ∈ s.bufs)
    (hch : db.ch = sb.ch) (hgrow : db.cap < db.len + sb.len) (hg : growOK db sb g = true)
    (hself : self = true → sb = db) :
    ∃ h' b', db.append s.heap sb self g = .ok h' b' ∧ b'.blk = s.heap.length ∧ w.blk ≠ b'.blk ∧
      (∀ blk i, blk < s.heap.length → cell h' blk i = cell s.heap blk i) := by
  refine ⟨_, _, C03.append_grow s.heap db sb self g hch (hI db hd).1 (hI sb hs).1 hgrow hg hself, rfl, ?_, ?_⟩
  · obtain ⟨_, bl, hb, _⟩ := (hI w hw).1
    have := (List.getElem?_eq_some_iff.mp hb).1
    simp; omega
  · intro blk i hb
    exact C03.append_grow_old_untouched s.heap db sb g blk i hb

example : (run ⟨[], []⟩ [.alloc .i16 false 2 1 2, .slice 0 1 1, .appendSample 1 7, .append 0 0 8, .append 0 0 8]).bufs.map
    (fun b => (b.blk, b.off, b.len, b.cap)) = [(1, 0, 8, 8), (0, 2, 1, 2)] := by decide

end Sig.C12

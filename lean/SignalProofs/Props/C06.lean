import SignalModel.Spec
import SignalProofs.Lemmas.Quant
/-!
# C06 — fixed-point requantisation preserves order and the reference levels

For **every** pair of integer element kinds (11 × 11 = 121 type pairs; int, uint, uintptr are 64-bit)
and **every** in-range source sample — all 2^8 … 2^64 values at once, not a sample of them.
`kernel` is the function the driver replays against the implementation; `qkernel` is the same
computation with the conversion function determined by the signedness of the kinds.
-/
namespace Sig.C06
open Sig Spec
set_option linter.unusedVariables false

/-- the dispatch used by the driver selects exactly `qkernel` -/
theorem kernel_eq_qkernel (f : ConvFn) (s d : Kind) (hs : s.isInt) (hd : d.isInt)
    (hadm : f.admits s d = true) (x : Int) :
    kernel f s s.width d d.width x = some (qkernel s d x) := by
  unfold Kind.isInt at hs hd
  have us : ∀ k : Kind, k.isUnsigned = true → k.isSigned = false := by intro k; cases k <;> simp [Kind.isUnsigned, Kind.isSigned]
  cases f <;> simp [ConvFn.admits, hs, hd] at hadm <;> obtain ⟨h1, h2⟩ := hadm
  · simp [kernel, qkernel, h1, h2]
  · simp [kernel, qkernel, h1, us d h2]
  · simp [kernel, qkernel, us s h1, h2]
  · simp [kernel, qkernel, us s h1, us d h2]

/-- **order**: a sample that is not above another is not converted to a code above the other's -/
theorem order (s d : Kind) (hs : s.isInt) (hd : d.isInt) (x y : Int)
    (hx : s.intTy.inRange x) (hy : s.intTy.inRange y) :
    C06.orderOK x y (qkernel s d x) (qkernel s d y) = true := by
  unfold C06.orderOK
  by_cases h : x ≤ y
  · have hk : kamp s x ≤ kamp s y := by unfold kamp; split <;> omega
    have := amap_mono s.isSigned s.width d.width (w4_of_kind s) (w4_of_kind d) _ _ hk
    rw [← qkernel_amap s d hs hd x hx, ← qkernel_amap s d hs hd y hy] at this
    have : qkernel s d x ≤ qkernel s d y := by unfold kamp at this; split at this <;> omega
    simp [h, this]
  · simp [h]

/-- **reference levels**: lowest ↦ lowest, highest ↦ highest, zero-amplitude ↦ zero-amplitude -/
theorem reference (s d : Kind) (hs : s.isInt) (hd : d.isInt) (x : Int) (hx : s.intTy.inRange x) :
    C06.refOK s.isSigned s.width d.isSigned d.width x (qkernel s d x) = true := by
  have h4s := w4_of_kind s
  have h4d := w4_of_kind d
  have key := qkernel_amap s d hs hd x hx
  have lo := amap_lo s.isSigned s.width d.width h4s h4d
  have hi := amap_hi s.isSigned s.width d.width h4s h4d
  have ze := amap_zero s.isSigned s.width d.width h4s h4d
  unfold C06.refOK loCode hiCode zeroCode
  unfold kamp at key
  have p2s : (2:Int)^s.width = 2 * 2^(s.width-1) := by
    rcases h4s with h|h|h|h <;> simp [h]
  have p2d : (2:Int)^d.width = 2 * 2^(d.width-1) := by
    rcases h4d with h|h|h|h <;> simp [h]
  simp only [Bool.and_eq_true, Bool.or_eq_true, Bool.not_eq_true', decide_eq_false_iff_not, decide_eq_true_eq]
  refine ⟨⟨?_, ?_⟩, ?_⟩
  · by_cases e : x = (if s.isSigned = true then -(2:Int)^(s.width-1) else 0)
    · right
      cases hss : s.isSigned <;> cases hds : d.isSigned <;> simp [hss, hds] at * <;> subst e <;> (try simp at key) <;> omega
    · left; exact e
  · by_cases e : x = (if s.isSigned = true then (2:Int)^(s.width-1) - 1 else 2^s.width - 1)
    · right
      cases hss : s.isSigned <;> cases hds : d.isSigned <;> simp [hss, hds] at * <;> subst e <;>
        (try rw [show (2:Int) ^ s.width - 1 - 2 ^ (s.width - 1) = 2 ^ (s.width - 1) - 1 by omega] at key) <;> omega
    · left; exact e
  · by_cases e : x = (if s.isSigned = true then 0 else (2:Int)^(s.width-1))
    · right
      cases hss : s.isSigned <;> cases hds : d.isSigned <;> simp [hss, hds] at * <;> subst e <;> (try simp at key) <;> omega
    · left; exact e

/-- results are codes of the destination format -/
theorem range (s d : Kind) (x : Int) : d.intTy.inRange (qkernel s d x) := qkernel_inRange s d x

/-- non-vacuity: concrete kinds and samples meet the hypotheses; the kernels do what the closed form says -/
example : qkernel .i16 .u8 (-32768) = 0 ∧ qkernel .i16 .u8 32767 = 255 ∧ qkernel .u8 .i64 255 = 9223372036854775807 ∧
    qkernel .i8 .i32 1 = 33554431 ∧ (Kind.i16).intTy.inRange (-32768) := by decide

end Sig.C06

import SignalModel.SpecMem
import SignalProofs.Lemmas.Xfer
import SignalProofs.Props.C02
import SignalProofs.Props.C03
import SignalProofs.Props.C14
/-!
# C01 — written samples are read back unchanged in frame-interleaved layout

Model: `write`, `read`, `writeStriped`, `readStriped` (SignalModel/Buffer.lean), parametric in the Go
value conversion `cv : S → D` (`none` = implementation-defined, excluded by "values representable in
both").  Every theorem is for arbitrary channel counts, lengths, capacities, offsets (windows) and
input lengths.
-/
namespace Sig.C01
open Sig
set_option linter.unusedVariables false
set_option linter.unusedSimpArgs false

/-- `ChannelLength` is the number of frames covered, counting a partly covered last frame -/
theorem channelLength_spec (n ch : Nat) (hch : 1 ≤ ch) :
    n ≤ ch * channelLength n ch ∧ (0 < n → ch * (channelLength n ch - 1) < n) ∧ (n = 0 → channelLength n ch = 0) := by
  unfold channelLength
  have hne : ch ≠ 0 := by omega
  simp only [hne, if_false]
  have h1 := Nat.div_add_mod (n + ch - 1) ch
  have h2 := Nat.mod_lt (n + ch - 1) (by omega : 0 < ch)
  refine ⟨?_, ?_, ?_⟩
  · have : ch * ((n + ch - 1) / ch) = n + ch - 1 - (n + ch - 1) % ch := by omega
    omega
  · intro hn
    have hq : 1 ≤ (n + ch - 1) / ch := Nat.div_pos (by omega) (by omega)
    have : ch * ((n + ch - 1) / ch - 1) = ch * ((n + ch - 1) / ch) - ch := by
      rw [Nat.mul_sub, Nat.mul_one]
    omega
  · intro hn; subst hn; exact Nat.div_eq_of_lt (by omega)

/-- **Write**: exactly the first `m = min(len, |src|)` interleaved positions receive the converted
input, in order; every other cell of every block is unchanged; the header is not modified (it is not
part of the result); the count is `ChannelLength(m, channels)`. -/
theorem write_spec (cv : Int → Option Int) (h : Heap) (src : List Int) (dst : Buf) (ys : List Int) (hw : dst.wf h)
    (hcv : (src.take (min dst.len src.length)).mapM cv = some ys) :
    write cv h src dst = .ok (storeList h dst.blk dst.off ys) (channelLength (min dst.len src.length) dst.ch) ∧
    ys.length = min dst.len src.length ∧
    ∀ blk i, cell (storeList h dst.blk dst.off ys) blk i =
      if blk = dst.blk ∧ dst.off ≤ i ∧ i < dst.off + min dst.len src.length then ys[i - dst.off]? else cell h blk i := by
  have hlen : ys.length = min dst.len src.length := by
    have := List.length_mapM_some hcv
    simp at this; omega
  refine ⟨by unfold write; simp only [hcv], hlen, ?_⟩
  intro blk i
  have := cell_storeList h dst.blk dst.off ys (dst.off + dst.cap) hw.2 (by have := hw.1; omega) blk i
  rw [hlen] at this; exact this
where
  List.length_mapM_some {xs ys : List Int} {f : Int → Option Int} (h : xs.mapM f = some ys) : ys.length = xs.length := by
    induction xs generalizing ys with
    | nil => simp at h; subst h; rfl
    | cons x xs ih =>
      rw [List.mapM_cons] at h
      cases hx : f x with
      | none => simp [hx] at h
      | some y =>
        cases hr : xs.mapM f with
        | none => simp [hx, hr] at h
        | some r => simp [hx, hr] at h; subst h; simp [ih hr]

/-- **Read**: the first `m = min(len, |dst|)` elements of the caller's slice receive the converted
samples, in order; its remaining elements are untouched; the heap (hence the buffer and every other
view) is unchanged; the count is `ChannelLength(m, channels)`. -/
theorem read_spec (cv : Int → Option Int) (h : Heap) (src : Buf) (dst : List Int) (ys : List Int)
    (hcv : (List.range (min src.len dst.length)).mapM (fun (i : Nat) => (src.sample h (i : Int)).bind cv) = some ys) :
    read cv h src dst = .ok h (ys ++ dst.drop (min src.len dst.length), channelLength (min src.len dst.length) src.ch) := by
  unfold read; simp only [hcv]

/-- what `read` delivers element by element -/
theorem read_elems (cv : Int → Option Int) (h : Heap) (src : Buf) (n : Nat) (ys : List Int)
    (hcv : (List.range n).mapM (fun (i : Nat) => (src.sample h (i : Int)).bind cv) = some ys) (i : Nat) (hi : i < n) :
    ys[i]? = (src.sample h (i : Int)).bind cv ∧ ((src.sample h (i : Int)).bind cv).isSome := by
  have key : ∀ (l : List Nat) (ys : List Int), l.mapM (fun (i : Nat) => (src.sample h (i : Int)).bind cv) = some ys →
      ys.length = l.length ∧ ∀ j, j < l.length → ys[j]? = (src.sample h ((l.getD j 0 : Nat) : Int)).bind cv ∧
        ((src.sample h ((l.getD j 0 : Nat) : Int)).bind cv).isSome := by
    intro l
    induction l with
    | nil => intro ys e; simp at e; subst e; exact ⟨rfl, fun j hj => by simp at hj⟩
    | cons x xs ih =>
      intro ys e
      rw [List.mapM_cons] at e
      cases hx : (src.sample h (x : Int)).bind cv with
      | none => simp [hx] at e
      | some y =>
        cases hr : xs.mapM (fun (i : Nat) => (src.sample h (i : Int)).bind cv) with
        | none => simp [hx, hr] at e
        | some r =>
          simp [hx, hr] at e; subst e
          obtain ⟨l1, l2⟩ := ih r hr
          refine ⟨by simp [l1], ?_⟩
          intro j hj
          cases j with
          | zero => simp [hx]
          | succ j => simp at hj; simpa using l2 j hj
  obtain ⟨_, k2⟩ := key (List.range n) ys hcv
  have := k2 i (by simpa using hi)
  simpa [hi] using this

/-- **round trip** (interleaved writer, interleaved reader, identity conversion): what was written is
read back unchanged -/
theorem write_read_roundtrip (h : Heap) (src : List Int) (dst : Buf) (hw : dst.wf h) (hfit : src.length ≤ dst.len) :
    ∃ h', write some h src dst = .ok h' (channelLength src.length dst.ch) ∧
      ∀ i, i < src.length → dst.sample h' (i : Int) = src[i]? := by
  have hm : min dst.len src.length = src.length := by omega
  have hcv : (src.take (min dst.len src.length)).mapM some = some (src.take (min dst.len src.length)) := C03.mapM_some _
  obtain ⟨e, hl, hc⟩ := write_spec some h src dst _ hw hcv
  rw [hm] at e hl hc
  refine ⟨_, e, ?_⟩
  intro i hi
  rw [Buf.sample_eq _ dst i (by omega), hc]
  have : dst.blk = dst.blk ∧ dst.off ≤ dst.off + i ∧ dst.off + i < dst.off + src.length := ⟨rfl, by omega, by omega⟩
  rw [if_pos this]
  simp [hi]

/-! ## striped forms -/

/-- value stored at frame `i` for a channel given the caller's slice for that channel: the converted
element, or zero beyond the slice (zero fill of short channels) -/
abbrev wval := stripedVal

theorem bufferIndex_nat (ch c i : Nat) (hfit : ((ch * i + c : Nat) : Int) < 2^63) :
    bufferIndex ch (c : Int) (i : Int) = ((ch * i + c : Nat) : Int) := by
  have := C14.chan_index { ch := ch, blk := 0, off := 0, len := 0, cap := 0, kind := .i8, depth := 8 } c i hfit
  simpa [chanIndex] using this

/-! ### per-channel lengths with a partially filled last frame -/

theorem length_eq (b : Buf) (hch : 1 ≤ b.ch) :
    b.length = if b.len % b.ch = 0 then b.len / b.ch else b.len / b.ch + 1 := by
  unfold Buf.length channelLength
  have hne : b.ch ≠ 0 := by omega
  simp only [hne, if_false]
  have h1 := Nat.div_add_mod b.len b.ch
  have h2 := Nat.mod_lt b.len (by omega : 0 < b.ch)
  split
  · rename_i h0
    apply Nat.div_eq_of_lt_le
    · rw [Nat.mul_comm]; omega
    · rw [Nat.add_mul, Nat.one_mul, Nat.mul_comm]; omega
  · rename_i h0
    apply Nat.div_eq_of_lt_le
    · rw [Nat.add_mul, Nat.one_mul, Nat.mul_comm]; omega
    · rw [Nat.add_mul, Nat.add_mul, Nat.one_mul, Nat.mul_comm]; omega

/-- exactly the frames `i < chanLen c` of channel `c` lie inside the buffer -/
theorem chanLen_iff (b : Buf) (hch : 1 ≤ b.ch) (c : Nat) (hc : c < b.ch) (i : Nat) :
    i < b.chanLen c ↔ b.ch * i + c < b.len := by
  unfold Buf.chanLen
  rw [length_eq b hch]
  have h1 := Nat.div_add_mod b.len b.ch
  have h2 := Nat.mod_lt b.len (by omega : 0 < b.ch)
  -- b.len = ch * q + r
  generalize hq : b.len / b.ch = q at *
  generalize hr : b.len % b.ch = r at *
  constructor
  · intro hi
    have key : b.ch * i + b.ch ≤ b.ch * q ∨ (i = q ∧ c < r) := by
      by_cases hr0 : r = 0
      · simp [hr0] at hi
        left
        have : b.ch * (i + 1) ≤ b.ch * q := Nat.mul_le_mul_left _ (by omega)
        rw [Nat.mul_add, Nat.mul_one] at this; exact this
      · by_cases hcr : r ≤ c
        · simp [hr0, hcr] at hi
          left
          have : b.ch * (i + 1) ≤ b.ch * q := Nat.mul_le_mul_left _ (by omega)
          rw [Nat.mul_add, Nat.mul_one] at this; exact this
        · simp [hr0, hcr] at hi
          by_cases hiq : i = q
          · right; exact ⟨hiq, by omega⟩
          · left
            have : b.ch * (i + 1) ≤ b.ch * q := Nat.mul_le_mul_left _ (by omega)
            rw [Nat.mul_add, Nat.mul_one] at this; exact this
    rcases key with k | ⟨k1, k2⟩
    · omega
    · subst k1; omega
  · intro hp
    -- ch * i + c < ch * q + r
    have hiq : i ≤ q := by
      apply Decidable.byContradiction
      intro hc'
      have : b.ch * (q + 1) ≤ b.ch * i := Nat.mul_le_mul_left _ (by omega)
      rw [Nat.mul_add, Nat.mul_one] at this; omega
    by_cases hr0 : r = 0
    · simp [hr0]
      apply Decidable.byContradiction
      intro hc'
      have : i = q := by omega
      subst this; omega
    · by_cases hcr : r ≤ c
      · simp [hr0, hcr]
        apply Decidable.byContradiction
        intro hc'
        have : i = q := by omega
        subst this; omega
      · simp [hr0, hcr]; omega

theorem chanLen_aligned (b : Buf) (hal : b.len = b.ch * b.length) (c : Nat) : b.chanLen c = b.length := by
  unfold Buf.chanLen
  have : b.len % b.ch = 0 := by rw [hal]; exact Nat.mul_mod_right _ _
  simp [this]

theorem chanLen_le (b : Buf) (c : Nat) : b.chanLen c ≤ b.length := by
  unfold Buf.chanLen; split <;> omega

/-- one channel of `WriteStriped`: frames `[i0, i0+n)` of channel `c` receive `wval`, nothing else changes -/
theorem wsChan_spec (cv : Int → Option Int) (dst : Buf) (c : Nat) (col : List Int) (n i0 : Nat) (h : Heap)
    (hw : dst.wf h) (hin : ∀ i, i0 ≤ i → i < i0 + n → dst.ch * i + c < dst.len)
    (hsmall : (dst.len : Int) < 2^63) (hc : c < dst.ch)
    (hdef : ∀ i, i0 ≤ i → i < i0 + n → (wval cv col i).isSome) :
    ∃ h', wsChan cv dst c col (List.range' i0 n) h = .ok h' () ∧ Ext h h' ∧
      (∀ i, i0 ≤ i → i < i0 + n → cell h' dst.blk (dst.off + (dst.ch * i + c)) = wval cv col i) ∧
      (∀ blk j, (∀ i, i0 ≤ i → i < i0 + n → ¬ (blk = dst.blk ∧ j = dst.off + (dst.ch * i + c))) →
        cell h' blk j = cell h blk j) := by
  induction n generalizing i0 h with
  | zero =>
    refine ⟨h, rfl, Ext.refl h, fun i a b => by omega, fun _ _ _ => rfl⟩
  | succ n ih =>
    rw [List.range'_succ]
    rw [wsChan]
    have hi0 := hin i0 (Nat.le_refl _) (by omega)
    have hd0 := hdef i0 (Nat.le_refl _) (by omega)
    obtain ⟨y, hy⟩ := Option.isSome_iff_exists.mp hd0
    have hy' : stripedVal cv col i0 = some y := hy
    rw [hy']
    simp only
    rw [bufferIndex_nat dst.ch c i0 (by omega), Buf.setSample_eq h dst _ y hi0]
    simp only
    have hw' : dst.wf (store h dst.blk (dst.off + (dst.ch * i0 + c)) y) := Buf.wf_store h dst _ _ _ hw
    obtain ⟨h', e, ex, a, b⟩ := ih (i0 + 1) (store h dst.blk (dst.off + (dst.ch * i0 + c)) y) hw'
      (fun i x z => hin i (by omega) (by omega)) (fun i x z => hdef i (by omega) (by omega))
    refine ⟨h', e, (ext_store _ _ _ _).trans ex, ?_, ?_⟩
    · intro i x z
      by_cases hi : i = i0
      · subst hi
        rw [b dst.blk (dst.off + (dst.ch * i + c)) ?_]
        · rw [cell_store_of_room h dst.blk _ dst.blk _ y (dst.off + dst.cap) hw.2 (by have := hw.1; omega)]
          simp [hy]
        · intro i' x' z' ⟨_, hj⟩
          have : dst.ch * i + c = dst.ch * i' + c := by omega
          have := (C14.chan_positions_injective dst.ch c i c i' hc hc this).2
          omega
      · exact a i (by omega) (by omega)
    · intro blk j hno
      rw [b blk j (fun i x z => hno i (by omega) (by omega))]
      have := hno i0 (Nat.le_refl _) (by omega)
      rw [cell_store_of_room h dst.blk _ blk j y (dst.off + dst.cap) hw.2 (by have := hw.1; omega)]
      simp [this]

/-- all channels of `WriteStriped`: of the frames `i < written` exactly those whose position
`channels·i + c` lies inside the buffer are written (the last frame may be filled partially) -/
theorem wsChans_spec (cv : Int → Option Int) (dst : Buf) (written : Nat) (cols : List (List Int)) (c0 : Nat) (h : Heap)
    (hw : dst.wf h) (hcs : c0 + cols.length ≤ dst.ch)
    (hch1 : 1 ≤ dst.ch) (hsmall : (dst.len : Int) < 2^63)
    (hdef : ∀ k i, k < cols.length → i < written → (wval cv (cols.getD k []) i).isSome) :
    ∃ h', wsChans cv dst written c0 cols h = .ok h' () ∧ Ext h h' ∧
      (∀ k i, k < cols.length → i < written → dst.ch * i + (c0 + k) < dst.len →
        cell h' dst.blk (dst.off + (dst.ch * i + (c0 + k))) = wval cv (cols.getD k []) i) ∧
      (∀ blk j, (∀ k i, k < cols.length → i < written → dst.ch * i + (c0 + k) < dst.len →
          ¬ (blk = dst.blk ∧ j = dst.off + (dst.ch * i + (c0 + k)))) →
        cell h' blk j = cell h blk j) := by
  induction cols generalizing c0 h with
  | nil => exact ⟨h, rfl, Ext.refl h, fun k i hk => by simp at hk, fun _ _ _ => rfl⟩
  | cons col cols ih =>
    simp only [List.length_cons] at hcs
    have hc0 : c0 < dst.ch := by omega
    -- the frames of channel c0 that are written
    have hn : ∀ i, i < min written (dst.chanLen c0) ↔ (i < written ∧ dst.ch * i + c0 < dst.len) := by
      intro i
      rw [Nat.lt_min, chanLen_iff dst hch1 c0 hc0 i]
    have hinc : ∀ i, 0 ≤ i → i < 0 + min written (dst.chanLen c0) → dst.ch * i + c0 < dst.len := by
      intro i _ hi
      exact ((hn i).mp (by omega)).2
    obtain ⟨h1, e1, ex1, a1, b1⟩ := wsChan_spec cv dst c0 col (min written (dst.chanLen c0)) 0 h hw hinc hsmall hc0
      (fun i _ hi => by simpa using hdef 0 i (by simp) ((hn i).mp (by omega)).1)
    have hw1 : dst.wf h1 := dst.wf_ext ex1 hw
    obtain ⟨h2, e2, ex2, a2, b2⟩ := ih (c0 + 1) h1 hw1 (by omega)
      (fun k i hk hi => by simpa using hdef (k + 1) i (by simp; omega) hi)
    refine ⟨h2, ?_, ex1.trans ex2, ?_, ?_⟩
    · unfold wsChans
      rw [List.range_eq_range', e1]
      simp only [Res.bind]
      exact e2
    · intro k i hk hi hpos
      cases k with
      | zero =>
        simp only [Nat.add_zero, List.getD_cons_zero]
        simp only [Nat.add_zero] at hpos
        rw [b2 dst.blk _ ?_]
        · exact a1 i (Nat.zero_le _) (by have := (hn i).mpr ⟨hi, hpos⟩; omega)
        · intro k' i' hk' hi' _ ⟨_, hj⟩
          have : dst.ch * i + c0 = dst.ch * i' + (c0 + 1 + k') := by omega
          have := (C14.chan_positions_injective dst.ch c0 i (c0 + 1 + k') i' hc0 (by omega) this).1
          omega
      | succ k =>
        simp only [List.length_cons] at hk
        have := a2 k i (by omega) hi (by rw [show c0 + 1 + k = c0 + (k + 1) by omega]; exact hpos)
        simp only [List.getD_cons_succ]
        rw [show c0 + (k + 1) = c0 + 1 + k by omega]
        exact this
    · intro blk j hno
      rw [b2 blk j (fun k i hk hi hp => by
        have := hno (k + 1) i (by simp; omega) hi (by rw [show c0 + (k + 1) = c0 + 1 + k by omega]; exact hp)
        rw [show c0 + (k + 1) = c0 + 1 + k by omega] at this; exact this)]
      exact b1 blk j (fun i _ hi => by
        have hh := (hn i).mp (by omega)
        simpa using hno 0 i (by simp) hh.1 (by simpa using hh.2))

/-- **WriteStriped layout**: with `w = min(longest input, Length)` (`Length` counts a partly filled
last frame), sample `i` of channel `c` is stored at interleaved position `channels·i + c` for
`i < |src[c]|`, positions of shorter channels up to `w` are zero-filled - in both cases only positions
inside the buffer, so a partly filled last frame is covered as far as it exists -, every other cell of
every block (frames `≥ w` included) is unchanged, nothing panics, and `w` is returned. -/
theorem writeStriped_layout (cv : Int → Option Int) (h : Heap) (src : List (List Int)) (dst : Buf)
    (hw : dst.wf h) (hch : dst.ch = src.length) (hch1 : 1 ≤ dst.ch)
    (hsmall : (dst.len : Int) < 2^63)
    (hdef : ∀ c i, c < src.length → i < min (src.foldl (fun m col => max m col.length) 0) dst.length →
      (wval cv (src.getD c []) i).isSome) :
    let w := min (src.foldl (fun m col => max m col.length) 0) dst.length
    ∃ h', writeStriped cv h src dst = .ok h' w ∧ Ext h h' ∧
      (∀ c i, c < dst.ch → i < w → dst.ch * i + c < dst.len →
        cell h' dst.blk (dst.off + (dst.ch * i + c)) = wval cv (src.getD c []) i) ∧
      (∀ blk j, (∀ c i, c < dst.ch → i < w → dst.ch * i + c < dst.len →
          ¬ (blk = dst.blk ∧ j = dst.off + (dst.ch * i + c))) →
        cell h' blk j = cell h blk j) := by
  intro w
  obtain ⟨h', e, ex, a, b⟩ := wsChans_spec cv dst w src 0 h hw (by omega) hch1 hsmall hdef
  refine ⟨h', ?_, ex, ?_, ?_⟩
  · unfold writeStriped
    have : ¬ dst.ch ≠ src.length := by simp [hch]
    simp only [this, if_false]
    show (wsChans cv dst w 0 src h).bind _ = _
    rw [e]; rfl
  · intro c i hc hi hp
    have := a c i (by omega) hi (by simpa using hp)
    simpa using this
  · intro blk j hno
    exact b blk j (fun k i hk hi hp => by simpa using hno k i (by omega) hi (by simpa using hp))

/-- the frame-aligned case: every frame `i < w` of every channel is written -/
theorem writeStriped_layout_aligned (cv : Int → Option Int) (h : Heap) (src : List (List Int)) (dst : Buf)
    (hw : dst.wf h) (hch : dst.ch = src.length) (hch1 : 1 ≤ dst.ch) (hal : dst.len = dst.ch * dst.length)
    (hsmall : (dst.len : Int) < 2^63)
    (hdef : ∀ c i, c < src.length → i < min (src.foldl (fun m col => max m col.length) 0) dst.length →
      (wval cv (src.getD c []) i).isSome) :
    let w := min (src.foldl (fun m col => max m col.length) 0) dst.length
    ∃ h', writeStriped cv h src dst = .ok h' w ∧ Ext h h' ∧
      (∀ c i, c < dst.ch → i < w → cell h' dst.blk (dst.off + (dst.ch * i + c)) = wval cv (src.getD c []) i) ∧
      (∀ blk j, (∀ c i, c < dst.ch → i < w → ¬ (blk = dst.blk ∧ j = dst.off + (dst.ch * i + c))) →
        cell h' blk j = cell h blk j) := by
  intro w
  obtain ⟨h', e, ex, a, b⟩ := writeStriped_layout cv h src dst hw hch hch1 hsmall hdef
  have hpos : ∀ c i, c < dst.ch → i < w → dst.ch * i + c < dst.len := by
    intro c i hc hi
    have hiL : i < dst.length := Nat.lt_of_lt_of_le hi (Nat.min_le_right _ _)
    have : dst.ch * (i + 1) ≤ dst.ch * dst.length := Nat.mul_le_mul_left _ (by omega)
    rw [Nat.mul_add, Nat.mul_one] at this; omega
  refine ⟨h', e, ex, fun c i hc hi => a c i hc hi (hpos c i hc hi), fun blk j hno => b blk j (fun c i hc hi _ => hno c i hc hi)⟩

/-- one channel of `ReadStriped`: the first `min(|dst[c]|, samples of channel c in the buffer)` elements of the caller's slice for
channel `c` receive the converted samples at positions `channels·i + c`; the rest is untouched -/
theorem rsChan_spec (cv : Int → Option Int) (h : Heap) (src : Buf) (c : Nat) (col : List Int)
    (hc : c < src.ch) (hsmall : (src.len : Int) < 2^63)
    (ys : List Int)
    (hys : (List.range (min col.length (src.chanLen c))).mapM
      (fun i => (cell h src.blk (src.off + (src.ch * i + c))).bind cv) = some ys) :
    rsChan cv h src c col = some (some (ys ++ col.drop (min col.length (src.chanLen c)))) := by
  unfold rsChan
  simp only
  have hpos : ∀ i, i < min col.length (src.chanLen c) → src.ch * i + c < src.len := by
    intro i hi
    exact (chanLen_iff src (by omega) c hc i).mp (Nat.lt_of_lt_of_le hi (Nat.min_le_right _ _))
  -- split the single mapM of the specification into the two mapM's of the code
  have key : ∀ (l : List Nat) (ys : List Int), (∀ i ∈ l, i < min col.length (src.chanLen c)) →
      l.mapM (fun i => (cell h src.blk (src.off + (src.ch * i + c))).bind cv) = some ys →
      ∃ xs, l.mapM (fun (i : Nat) => src.sample h (bufferIndex src.ch (c : Int) (i : Int))) = some xs ∧
        xs.mapM cv = some ys := by
    intro l
    induction l with
    | nil => intro ys _ e; simp at e; subst e; exact ⟨[], rfl, rfl⟩
    | cons x xs ih =>
      intro ys hl e
      rw [List.mapM_cons] at e
      have hx := hl x (by simp)
      rw [List.mapM_cons, bufferIndex_nat src.ch c x (by have := hpos x hx; omega),
        Buf.sample_eq h src _ (hpos x hx)]
      cases hcx : cell h src.blk (src.off + (src.ch * x + c)) with
      | none => simp [hcx] at e
      | some v =>
        cases hv : cv v with
        | none => simp [hcx, hv] at e
        | some y =>
          cases hr : xs.mapM (fun i => (cell h src.blk (src.off + (src.ch * i + c))).bind cv) with
          | none => simp [hcx, hv, hr] at e
          | some r =>
            simp [hcx, hv, hr] at e; subst e
            obtain ⟨xs', e1, e2⟩ := ih r (fun i hi => hl i (by simp [hi])) hr
            exact ⟨v :: xs', by simp [e1], by simp [List.mapM_cons, hv, e2]⟩
  obtain ⟨xs, e1, e2⟩ := key _ ys (fun i hi => by simpa using hi) hys
  rw [e1]; simp [e2]

example :
    let h : Heap := [[0, 0, 0, 0, 0, 0, 9, 9]]
    let b : Buf := { ch := 2, blk := 0, off := 0, len := 6, cap := 8, kind := .i8, depth := 8 }
    (match writeStriped some h [[1, 2, 3], [4]] b with
     | .ok h' r => h' == [[1, 4, 2, 0, 3, 0, 9, 9]] && r == 3
     | _ => false) = true ∧
    (match readStriped some [[1, 4, 2, 0, 3, 0, 9, 9]] b [[7, 7], [7, 7, 7, 7]] with
     | .ok _ r => r == ([[1, 2], [4, 0, 0, 7]], 3)
     | _ => false) = true := by decide

/-- a partly filled last frame (2 channels, 5 samples): the striped forms cover it as far as it exists -/
example :
    let h : Heap := [[9, 9, 9, 9, 9, 7, 7, 7]]
    let b : Buf := { ch := 2, blk := 0, off := 0, len := 5, cap := 8, kind := .i8, depth := 8 }
    (match writeStriped some h [[1, 2, 3], [4, 5, 6]] b with
     | .ok h' r => h' == [[1, 4, 2, 5, 3, 7, 7, 7]] && r == 3
     | _ => false) = true ∧
    (match readStriped some [[1, 4, 2, 5, 3, 7, 7, 7]] b [[0, 0, 0, 0], [0, 0, 0, 0]] with
     | .ok _ r => r == ([[1, 2, 3, 0], [4, 5, 0, 0]], 3)
     | _ => false) = true := by decide

end Sig.C01

import SignalProofs.Props.C08
import SignalProofs.Props.C05F
/-!
# C08 for 64-bit destinations (int64, int, uint64, uint, uintptr)

At depth 64 the code's scale `float64(MaxSignedValue) = float64(2^63 − 1)` rounds to `2^63`, and so
does `float64(msv) + 1`; multiplying a float64 by a power of two is exact.  So strictly inside (−1, 1)
the amplitude is `trunc(f · 2^63)` for both signs.  The property's full scale for positive inputs is
`2^63 − 1`; the one-step clause still holds because `trunc(y) − y ∈ (−1, 0]` and `f ∈ (0, 1)`.
-/
namespace Sig.C08W64
open Sig FV Spec C08
set_option linter.unusedVariables false
set_option linter.unusedSimpArgs false

def M64 : ℤ := 2^63 - 1
def S64 : ℤ := 2^63

/-- every rounded value is `m·2^e` with `|m| < 2^p`, `e ≥ emin` -/
theorem rne_repr (F : Fmt) (hp : 1 ≤ F.p) (x : ℚ) :
    ∃ (m : ℤ) (e : ℤ), rne F x = (m:ℚ) * 2^e ∧ m.natAbs < 2^F.p ∧ F.emin ≤ e := by
  have pos : ∀ y : ℚ, 0 < y → ∃ (m : ℤ) (e : ℤ), rne F y = (m:ℚ) * 2^e ∧ m.natAbs < 2^F.p ∧ F.emin ≤ e := by
    intro y hy
    rw [rne_pos_eq F hy]
    set e := expo F y with he
    have hs : (0:ℚ) < 2^e := two_zpow_pos e
    obtain ⟨l1, l2⟩ := ilog2_spec y hy
    have hee : ilog2 y - ((F.p:ℤ) - 1) ≤ e := by rw [he]; unfold expo; exact le_max_left _ _
    have hemin : F.emin ≤ e := by rw [he]; unfold expo; exact le_max_right _ _
    have hq : y / 2^e ≤ (((2:ℤ)^F.p : ℤ) : ℚ) := by
      rw [div_le_iff₀ hs]
      push_cast
      rw [← zpow_natCast, ← zpow_add₀ (by norm_num)]
      calc y ≤ 2^(ilog2 y + 1) := le_of_lt l2
        _ ≤ 2^((F.p:ℤ) + e) := zpow_le_zpow_right₀ (by norm_num) (by omega)
    have hm := roundEven_mono hq
    rw [roundEven_int] at hm
    have hm0 : 0 ≤ roundEven (y / 2^e) := by
      have := roundEven_mono (show (0:ℚ) ≤ y / 2^e by positivity)
      have z : roundEven (0:ℚ) = 0 := by simpa using roundEven_int 0
      rwa [z] at this
    obtain ⟨m, hmv⟩ := Int.eq_ofNat_of_zero_le hm0
    rw [hmv] at hm ⊢
    have hmle : m ≤ 2^F.p := by exact_mod_cast hm
    rcases Nat.lt_or_ge m (2^F.p) with hlt | hge
    · exact ⟨m, e, rfl, by simpa using hlt, hemin⟩
    · have hm2 : m = 2^F.p := le_antisymm hmle hge
      have hpm : (2:ℕ)^F.p = 2^(F.p-1) * 2 := by rw [← pow_succ]; congr 1; omega
      refine ⟨((2^(F.p-1) : ℕ) : ℤ), e + 1, ?_, ?_, by omega⟩
      · rw [hm2, hpm, zpow_add₀ (by norm_num)]; push_cast; ring
      · simp only [Int.natAbs_natCast]; exact Nat.pow_lt_pow_right (by norm_num) (by omega)
  rcases lt_trichotomy x 0 with h | h | h
  · obtain ⟨m, e, h1, h2, h3⟩ := pos (-x) (by linarith)
    refine ⟨-m, e, ?_, by simpa using h2, h3⟩
    rw [rne_neg] at h1; push_cast; linarith
  · subst h; exact ⟨0, F.emin, by simp [rne_zero], by simp, le_refl _⟩
  · exact pos x h

/-- a finite float64 value is fixed by rounding -/
theorem isF64_fin {q : ℚ} (hv : IsF64 (.fin q)) : rne f64 q = q := by
  simp only [IsF64, FV.conv, FV.round] at hv
  by_cases hov : pow2 (f64.emax + 1) ≤ (if rne f64 q < 0 then -rne f64 q else rne f64 q)
  · rw [if_pos hov] at hv; cases hv
  · rw [if_neg hov] at hv
    by_cases hr : rne f64 q = 0
    · rw [if_pos hr] at hv
      have hz : ∀ b : Bool, FV.zero b = FV.fin q → q = 0 := by
        intro b h
        cases b
        · simp [FV.zero] at h; exact h.symm
        · simp [FV.zero] at h
      rw [hr, hz _ hv]
    · rw [if_neg hr] at hv; injection hv

/-- multiplying a float64 value by 2^63 is exact -/
theorem scale63_exact {q : ℚ} (hv : IsF64 (.fin q)) : rne f64 (q * 2^(63:ℤ)) = q * 2^(63:ℤ) := by
  obtain ⟨m, e, h1, h2, h3⟩ := rne_repr f64 (by decide) q
  rw [isF64_fin hv] at h1
  rw [h1, mul_assoc, ← zpow_add₀ (by norm_num)]
  exact rne_fix f64 (by decide) m (e + 63) h2 (by omega)

/-- a float64 value below 1 is at most 1 − 2^−53 -/
theorem below_one {q : ℚ} (hv : IsF64 (.fin q)) (h0 : 0 < q) (h1 : q < 1) : q ≤ 1 - 2^(-53:ℤ) := by
  have hfix := isF64_fin hv
  by_cases hhalf : q < 1/2
  · have e : (1:ℚ)/2 ≤ 1 - 2^(-53:ℤ) := by norm_num
    exact le_trans (le_of_lt hhalf) e
  · -- q ∈ [1/2, 1): the grid step is 2^−53
    have hq2 : 1/2 ≤ q := not_lt.mp hhalf
    have hil : ilog2 q = -1 := by
      obtain ⟨l1, l2⟩ := ilog2_spec q h0
      have a : (2:ℚ)^(ilog2 q) < 2^(0:ℤ) := by simpa using lt_of_le_of_lt l1 h1
      have b : (2:ℚ)^(-1:ℤ) < 2^(ilog2 q + 1) := by
        have : (2:ℚ)^(-1:ℤ) = 1/2 := by norm_num
        rw [this]; exact lt_of_le_of_lt hq2 l2
      have a' := (zpow_lt_zpow_iff_right₀ (by norm_num : (1:ℚ) < 2)).mp a
      have b' := (zpow_lt_zpow_iff_right₀ (by norm_num : (1:ℚ) < 2)).mp b
      omega
    have hex : expo f64 q = -53 := by unfold expo; rw [hil]; decide
    rw [rne_pos_eq f64 h0, hex] at hfix
    set r := roundEven (q / 2^(-53:ℤ)) with hr
    have hr1 : (r:ℚ) * 2^(-53:ℤ) < 1 := by rw [hfix]; exact h1
    have hlt : (r:ℚ) < 2^(53:ℤ) := by
      have : (r:ℚ) * 2^(-53:ℤ) < 2^(53:ℤ) * 2^(-53:ℤ) := by
        rw [← zpow_add₀ (by norm_num)]; simpa using hr1
      exact lt_of_mul_lt_mul_right this (by positivity)
    have : r < 2^53 := by exact_mod_cast hlt
    have hle : (r:ℚ) ≤ 2^(53:ℤ) - 1 := by
      have : r ≤ 2^53 - 1 := by omega
      exact_mod_cast this
    rw [← hfix]
    calc (r:ℚ) * 2^(-53:ℤ) ≤ (2^(53:ℤ) - 1) * 2^(-53:ℤ) := mul_le_mul_of_nonneg_right hle (by positivity)
      _ = 1 - 2^(-53:ℤ) := by rw [sub_mul, ← zpow_add₀ (by norm_num)]; norm_num

/-- the amplitude for every rational input at depth 64 -/
def codeQ64 (q : ℚ) : ℤ := if 1 ≤ q then M64 else if q ≤ -1 then -S64 else FV.truncQ (q * 2^(63:ℤ))

theorem codeQ64_mono {x y : ℚ} (h : x ≤ y) (hy : 1 ≤ y → True) : True := trivial

/-- constants of the two 64-bit kernels -/
theorem consts64 :
    (⟨64, true⟩ : IntTy).wrap (maxSignedValue 64) = M64 ∧
    (⟨64, false⟩ : IntTy).wrap (maxSignedValue 64) = M64 ∧
    (⟨64, true⟩ : IntTy).wrap ((⟨64, true⟩ : IntTy).wrap (-M64) - 1) = -S64 ∧
    (⟨64, false⟩ : IntTy).wrap (M64 + 1) = S64 ∧
    (⟨64, true⟩ : IntTy).minVal = -S64 ∧ (⟨64, true⟩ : IntTy).maxVal = M64 ∧
    (⟨64, false⟩ : IntTy).minVal = 0 ∧ (⟨64, false⟩ : IntTy).maxVal = 2 * S64 - 1 := by decide

/-- `float64(2^63 − 1) = 2^63` and `2^63 + 1` rounds to `2^63` -/
theorem fscale64 : FV.ofInt f64 M64 = .fin (2^(63:ℤ)) ∧ FV.add f64 (.fin (2^(63:ℤ))) one64 = .fin (2^(63:ℤ)) := by
  constructor
  · have : FV.ofInt f64 M64 = .fin 9223372036854775808 := by decide +kernel
    rw [this]; norm_num
  · have : FV.add f64 (.fin 9223372036854775808) one64 = .fin 9223372036854775808 := by decide +kernel
    have e : (2:ℚ)^(63:ℤ) = 9223372036854775808 := by norm_num
    rw [e]; exact this

/-- `D(f · 2^63)` for a float64 `f` strictly inside (−1, 1) -/
theorem mul63_toInt (D : IntTy) (q : ℚ) (hv : IsF64 (.fin q)) (h1 : -1 < q) (h2 : q < 1)
    (hlo : D.minVal ≤ FV.truncQ (q * 2^(63:ℤ))) (hhi : FV.truncQ (q * 2^(63:ℤ)) ≤ D.maxVal) :
    toIntTy D (FV.mul f64 (.fin q) (.fin (2^(63:ℤ)))) = some (FV.truncQ (q * 2^(63:ℤ))) := by
  rw [mul_fin]
  have hex := scale63_exact hv
  have hsmall : |rne f64 (q * 2^(63:ℤ))| < (2:ℚ)^(f64.emax + 1) := by
    rw [hex]
    have : |q * 2^(63:ℤ)| ≤ 2^(63:ℤ) := by
      rw [abs_mul, abs_of_pos (by positivity : (0:ℚ) < 2^(63:ℤ))]
      have : |q| ≤ 1 := abs_le.mpr ⟨by linarith, by linarith⟩
      nlinarith [show (0:ℚ) < 2^(63:ℤ) by positivity]
    refine lt_of_le_of_lt this ?_
    have : f64.emax + 1 = 1024 := by decide
    rw [this]; exact zpow_lt_zpow_right₀ (by norm_num) (by norm_num)
  have := toInt_of_toRat D.minVal D.maxVal
    (FV.round f64 (q * 2^(63:ℤ)) ((FV.fin q).isNeg != (FV.fin ((2:ℚ)^(63:ℤ))).isNeg)) (rne f64 (q * 2^(63:ℤ)))
    (round_toRat f64 _ _ hsmall) (by rw [hex]; exact hlo) (by rw [hex]; exact hhi)
  unfold toIntTy; rw [this, hex]

/-- bounds of the interior amplitude at depth 64 -/
theorem amp64_bounds (q : ℚ) (hv : IsF64 (.fin q)) (h1 : -1 < q) (h2 : q < 1) :
    -S64 ≤ FV.truncQ (q * 2^(63:ℤ)) ∧ FV.truncQ (q * 2^(63:ℤ)) ≤ M64 ∧
    (0 ≤ q → 0 ≤ FV.truncQ (q * 2^(63:ℤ))) ∧ (q ≤ 0 → FV.truncQ (q * 2^(63:ℤ)) ≤ 0) := by
  have p63 : (0:ℚ) < 2^(63:ℤ) := by positivity
  have e63 : ((S64 : ℤ) : ℚ) = 2^(63:ℤ) := by unfold S64; norm_num
  refine ⟨?_, ?_, ?_, ?_⟩
  · apply truncQ_ge_of_ge_int; rw [Int.cast_neg, e63]; nlinarith
  · by_cases h0 : 0 < q
    · have hb := below_one hv h0 h2
      have : q * 2^(63:ℤ) ≤ ((M64 : ℤ) : ℚ) := by
        have : (1 - (2:ℚ)^(-53:ℤ)) * 2^(63:ℤ) ≤ ((M64 : ℤ) : ℚ) := by unfold M64; norm_num
        nlinarith
      exact truncQ_le_of_le_int this
    · have : q * 2^(63:ℤ) ≤ ((0:ℤ):ℚ) := by push_cast; nlinarith
      have := truncQ_le_of_le_int this
      unfold M64; omega
  · intro h0; exact truncQ_nonneg (by positivity)
  · intro h0
    have : q * 2^(63:ℤ) ≤ ((0:ℤ):ℚ) := by push_cast; nlinarith
    exact truncQ_le_of_le_int this

theorem codeQ64_rank_fin (q : ℚ) : codeQ64 (rank (.fin q)) = codeQ64 q := by
  have hr : rank (.fin q) = max (-2) (min 2 q) := rfl
  rw [hr]; unfold codeQ64
  by_cases a : 1 ≤ q
  · have : 1 ≤ max (-2) (min 2 q) := le_max_of_le_right (le_min (by norm_num) a)
    simp [a, this]
  · by_cases b : q ≤ -1
    · have h1 : ¬ 1 ≤ max (-2) (min 2 q) := by
        rw [not_le]; apply max_lt (by norm_num); exact lt_of_le_of_lt (min_le_right _ _) (by linarith)
      have h2 : max (-2) (min 2 q) ≤ -1 := max_le (by norm_num) (le_trans (min_le_right _ _) b)
      simp [a, b, h1, h2]
    · have e : max (-2) (min 2 q) = q := by
        rw [min_eq_right (by linarith), max_eq_right (by linarith)]
      rw [e]

/-- **the signed 64-bit kernel computes `codeQ64`** for every non-NaN float64 value -/
theorem f2sK64_eq (v : FV) (hnan : v ≠ .nan) (hv : IsF64 v) : f2sK ⟨64, true⟩ 64 v = some (codeQ64 (rank v)) := by
  obtain ⟨c1, c2, c3, c4, c5, c6, c7, c8⟩ := consts64
  obtain ⟨f1, f2⟩ := fscale64
  unfold f2sK
  have hv' := hv
  unfold IsF64 at hv'
  simp only [c1, hv', f1, f2, c3]
  cases v with
  | nan => exact absurd rfl hnan
  | inf n =>
    cases n
    · norm_num [FV.lt, one64, codeQ64, rank]
    · norm_num [FV.lt, one64, mone64, codeQ64, rank]
  | nzero =>
    have h1 : FV.lt (.fin 0) .nzero = false := by simp [FV.lt, FV.toRat?]
    have h2 : FV.lt mone64 .nzero = true := by simp [FV.lt, FV.toRat?, mone64]
    simp only [h1, h2, if_true, Bool.false_eq_true, if_false]
    have hc : codeQ64 (rank .nzero) = 0 := by norm_num [codeQ64, rank, truncQ_zero]
    have hz := mul_zero_toRat .nzero (by simp [FV.toRat?]) (2^(63:ℤ))
    unfold toIntTy
    rw [toInt_of_toRat _ _ _ 0 hz (by rw [truncQ_zero, c5]; unfold S64; norm_num) (by rw [truncQ_zero, c6]; unfold M64; norm_num), truncQ_zero, hc]
  | fin q =>
    rw [codeQ64_rank_fin]
    simp only [lt_fin, one64, mone64, decide_eq_true_eq]
    unfold codeQ64
    by_cases a : 1 ≤ q
    · have : 0 < q := by linarith
      have n1 : ¬ q < 1 := by linarith
      simp [this, n1, a]
    · by_cases b : q ≤ -1
      · have n0 : ¬ 0 < q := by linarith
        have n1 : ¬ -1 < q := by linarith
        simp [n0, n1, a, b]
      · have hb : -1 < q := by linarith
        have ha : q < 1 := by linarith
        obtain ⟨b1, b2, b3, b4⟩ := amp64_bounds q hv hb ha
        simp only [a, b, if_false]
        have key := mul63_toInt ⟨64, true⟩ q hv hb ha (by rw [c5]; exact b1) (by rw [c6]; exact b2)
        by_cases h0 : 0 < q
        · simp only [h0, ha, if_true]; exact key
        · simp only [h0, hb, if_true, if_false]; exact key

/-- **clip, zero, order, range, one step at depth 64 (signed)** -/
theorem codeQ64_mono' {x y : ℚ} (hx : IsF64 (.fin x) ∨ x ≤ -1 ∨ 1 ≤ x) (hy : IsF64 (.fin y) ∨ y ≤ -1 ∨ 1 ≤ y)
    (h : x ≤ y) : codeQ64 x ≤ codeQ64 y := by
  have p63 : (0:ℚ) < 2^(63:ℤ) := by positivity
  unfold codeQ64
  by_cases hy1 : 1 ≤ y
  · simp only [hy1, if_true]
    split_ifs with a b
    · exact le_refl _
    · unfold M64 S64; norm_num
    · rcases hx with hx | hx | hx
      · exact (amp64_bounds x hx (by linarith) (by linarith)).2.1
      · exact absurd hx b
      · exact absurd hx a
  · have hx1 : ¬ 1 ≤ x := by linarith
    simp only [hy1, hx1, if_false]
    by_cases hx2 : x ≤ -1
    · simp only [hx2, if_true]
      split_ifs with b
      · exact le_refl _
      · rcases hy with hy | hy | hy
        · exact (amp64_bounds y hy (by linarith) (by linarith)).1
        · exact absurd hy b
        · exact absurd hy hy1
    · have hy2 : ¬ y ≤ -1 := by linarith
      simp only [hx2, hy2, if_false]
      exact truncQ_mono (mul_le_mul_of_nonneg_right h (le_of_lt p63))

/-- **one step at depth 64**: strictly inside (−1, 1), `|amplitude − f·FS| < 1` with the property's
full scale `FS = 2^63 − 1` for positive and `2^63` for non-positive inputs -/
theorem one_step64 (q : ℚ) (h1 : -1 < q) (h2 : q < 1) :
    |((FV.truncQ (q * 2^(63:ℤ)) : ℤ) : ℚ) - q * (if 0 < q then ((M64 : ℤ) : ℚ) else ((S64 : ℤ) : ℚ))| < 1 := by
  have near := truncQ_near (q * 2^(63:ℤ))
  have e63 : ((S64 : ℤ) : ℚ) = 2^(63:ℤ) := by unfold S64; norm_num
  have m63 : ((M64 : ℤ) : ℚ) = 2^(63:ℤ) - 1 := by unfold M64; norm_num
  rw [abs_lt] at near ⊢
  by_cases h0 : 0 < q
  · simp only [h0, if_true, m63]
    -- trunc(y) − y ∈ (−1, 0] for y > 0
    have hy : 0 ≤ q * 2^(63:ℤ) := by positivity
    have tl : ((FV.truncQ (q * 2^(63:ℤ)) : ℤ) : ℚ) ≤ q * 2^(63:ℤ) := by
      rw [truncQ_eq, if_pos hy]; exact Int.floor_le _
    constructor <;> nlinarith [near.1, near.2]
  · simp only [h0, if_false, e63]
    exact near

/-- **the unsigned 64-bit kernel computes `codeQ64` offset by 2^63** -/
theorem f2uK64_eq (v : FV) (hnan : v ≠ .nan) (hv : IsF64 v) :
    f2uK ⟨64, false⟩ 64 v = some (codeQ64 (rank v) + S64) := by
  obtain ⟨c1, c2, c3, c4, c5, c6, c7, c8⟩ := consts64
  obtain ⟨f1, f2⟩ := fscale64
  have wrapid : ∀ x : ℤ, 0 ≤ x → x ≤ 2 * S64 - 1 → (⟨64, false⟩ : IntTy).wrap x = x := by
    intro x h0 h1
    simp only [IntTy.wrap, Bool.false_eq_true, if_false, wrapU]
    exact Int.emod_eq_of_lt h0 (by unfold S64 at h1; omega)
  have s63 : S64 = 2^63 := rfl
  have m63 : M64 = 2^63 - 1 := rfl
  unfold f2uK
  have hv' := hv
  unfold IsF64 at hv'
  simp only [c2, hv', f1, f2, c4]
  cases v with
  | nan => exact absurd rfl hnan
  | inf n =>
    cases n
    · have : codeQ64 (rank (.inf false)) = M64 := by norm_num [codeQ64, rank]
      rw [this]
      norm_num [FV.lt, one64]
      exact wrapid _ (by omega) (by omega)
    · have : codeQ64 (rank (.inf true)) = -S64 := by norm_num [codeQ64, rank]
      rw [this]
      norm_num [FV.lt, one64, mone64]
  | nzero =>
    have h1 : FV.lt (.fin 0) .nzero = false := by simp [FV.lt, FV.toRat?]
    have h2 : FV.lt mone64 .nzero = true := by simp [FV.lt, FV.toRat?, mone64]
    simp only [h1, h2, if_true, Bool.false_eq_true, if_false]
    have hc : codeQ64 (rank .nzero) = 0 := by norm_num [codeQ64, rank, truncQ_zero]
    have hz := mul_zero_toRat (FV.neg .nzero) (by simp [FV.neg, FV.toRat?]) (2^(63:ℤ))
    unfold toIntTy
    rw [toInt_of_toRat _ _ _ 0 hz (by rw [truncQ_zero, c7]) (by rw [truncQ_zero, c8]; omega), truncQ_zero, hc]
    simp only [Option.map_some, Int.sub_zero, Int.zero_add]
    rw [wrapid _ (by omega) (by omega)]
  | fin q =>
    rw [codeQ64_rank_fin]
    simp only [lt_fin, one64, mone64, decide_eq_true_eq]
    unfold codeQ64
    by_cases a : 1 ≤ q
    · have : 0 < q := by linarith
      have n1 : ¬ q < 1 := by linarith
      simp only [this, n1, a, if_true, if_false]
      rw [wrapid _ (by omega) (by omega)]
    · by_cases b : q ≤ -1
      · have n0 : ¬ 0 < q := by linarith
        have n1 : ¬ -1 < q := by linarith
        simp [n0, n1, a, b]
      · have hb : -1 < q := by linarith
        have ha : q < 1 := by linarith
        obtain ⟨b1, b2, b3, b4⟩ := amp64_bounds q hv hb ha
        simp only [a, b, if_false]
        by_cases h0 : 0 < q
        · simp only [h0, ha, if_true]
          have b3' := b3 (le_of_lt h0)
          rw [mul63_toInt ⟨64, false⟩ q hv hb ha (by rw [c7]; exact b3') (by rw [c8]; omega)]
          simp only [Option.map_some]
          rw [wrapid _ (by omega) (by omega)]
        · simp only [h0, hb, if_true, if_false]
          have hq0 : q ≤ 0 := not_lt.mp h0
          have b4' := b4 hq0
          rcases eq_or_lt_of_le hq0 with hz0 | hneg
          · subst hz0
            have hz := mul_zero_toRat (FV.neg (.fin 0)) (by simp [FV.neg, FV.toRat?]) (2^(63:ℤ))
            unfold toIntTy
            rw [toInt_of_toRat _ _ _ 0 hz (by rw [truncQ_zero, c7]) (by rw [truncQ_zero, c8]; omega), truncQ_zero]
            simp only [Option.map_some, Int.sub_zero, zero_mul, truncQ_zero, Int.zero_add]
            rw [wrapid _ (by omega) (by omega)]
          · have hne : q ≠ 0 := ne_of_lt hneg
            have hnegv : FV.neg (.fin q) = .fin (-q) := by simp [FV.neg, hne]
            rw [hnegv]
            have hvn : IsF64 (.fin (-q)) := by
              have hfix := isF64_fin hv
              have : rne f64 (-q) = -q := by rw [rne_neg, hfix]
              unfold IsF64 FV.conv FV.round
              simp only [this, abs_eq_ite, pow2_eq]
              have hbig : ¬ ((2:ℚ)^(f64.emax + 1) ≤ |(-q)|) := by
                rw [not_le, abs_neg]
                have : |q| < 1 := abs_lt.mpr ⟨hb, ha⟩
                have e : (1:ℚ) ≤ 2^(f64.emax + 1) := by
                  have : f64.emax + 1 = 1024 := by decide
                  rw [this]; exact one_le_zpow₀ (by norm_num) (by norm_num)
                linarith
              have : ¬ (-q = 0) := by intro h; exact hne (by linarith)
              simp only [hbig, if_false, this]
            have ht : FV.truncQ ((-q) * 2^(63:ℤ)) = -FV.truncQ (q * 2^(63:ℤ)) := by
              rw [neg_mul, truncQ_neg]
            rw [mul63_toInt ⟨64, false⟩ (-q) hvn (by linarith) (by linarith)
              (by rw [c7, ht]; omega) (by rw [c8, ht]; omega)]
            simp only [Option.map_some, ht]
            rw [wrapid _ (by omega) (by omega)]
            congr 1; omega

/-- the code produced at depth 64 by the kernel of signedness `sg` -/
def code64 (sg : Bool) (v : FV) : ℤ := codeQ64 (rank v) + (if sg then 0 else S64)

theorem kernel_code64 (sg : Bool) (v : FV) (hnan : v ≠ .nan) (hv : IsF64 v) :
    (if sg then f2sK ⟨64, true⟩ 64 v else f2uK ⟨64, false⟩ 64 v) = some (code64 sg v) := by
  cases sg
  · simp only [Bool.false_eq_true, if_false, code64]; exact f2uK64_eq v hnan hv
  · simp only [if_true, code64, Int.add_zero]; exact f2sK64_eq v hnan hv

theorem loHi64 : hiCode true 64 = M64 ∧ loCode true 64 = -S64 ∧ zeroCode true 64 = 0 ∧
    hiCode false 64 = M64 + S64 ∧ loCode false 64 = 0 ∧ zeroCode false 64 = S64 := by decide

/-- the position on the line is a float64 value strictly inside, or is in a clipped region -/
theorem rank_cases (v : FV) (hnan : v ≠ .nan) (hv : IsF64 v) :
    IsF64 (.fin (rank v)) ∨ rank v ≤ -1 ∨ 1 ≤ rank v := by
  cases v with
  | nan => exact absurd rfl hnan
  | inf n => cases n <;> simp [rank] <;> norm_num
  | nzero => left; show IsF64 (.fin 0); unfold IsF64; simp [FV.conv, FV.round, rne_zero, FV.zero, pow2_eq]; exact two_zpow_pos _
  | fin q =>
    by_cases a : 1 ≤ q
    · right; right; exact le_max_of_le_right (le_min (by norm_num) a)
    · by_cases b : q ≤ -1
      · right; left; exact max_le (by norm_num) (le_trans (min_le_right _ _) b)
      · left
        have e : rank (.fin q) = q := by
          show max (-2) (min 2 q) = q
          rw [min_eq_right (by linarith), max_eq_right (by linarith)]
        rw [e]; exact hv

theorem clip64 (sg : Bool) (v : FV) (hnan : v ≠ .nan) : C08.clipOK sg 64 v (code64 sg v) = true := by
  obtain ⟨l1, l2, l3, l4, l5, l6⟩ := loHi64
  unfold C08.clipOK code64
  have hi : FV.le (.fin 1) v = true → codeQ64 (rank v) = M64 := by
    intro h
    have := rank_mono (.fin 1) v (by simp) hnan h
    have e : rank (.fin 1) = 1 := by norm_num [rank]
    rw [e] at this
    simp [codeQ64, this]
  have lo : FV.le v (.fin (-1)) = true → codeQ64 (rank v) = -S64 := by
    intro h
    have := rank_mono v (.fin (-1)) hnan (by simp) h
    have e : rank (.fin (-1)) = -1 := by norm_num [rank]
    rw [e] at this
    have n1 : ¬ (1:ℚ) ≤ rank v := by linarith
    simp [codeQ64, this, n1]
  cases sg <;> simp only [Bool.and_eq_true, Bool.or_eq_true, Bool.not_eq_true', decide_eq_true_eq, l1, l2, l4, l5,
    Bool.false_eq_true, if_false, if_true]
  · constructor
    · by_cases h : FV.le (.fin 1) v = true
      · right; rw [hi h]
      · left; simpa using h
    · by_cases h : FV.le v (.fin (-1)) = true
      · right; rw [lo h]; omega
      · left; simpa using h
  · constructor
    · by_cases h : FV.le (.fin 1) v = true
      · right; rw [hi h]; omega
      · left; simpa using h
    · by_cases h : FV.le v (.fin (-1)) = true
      · right; rw [lo h]; omega
      · left; simpa using h

theorem zero64 (sg : Bool) (v : FV) : C08.zeroOK sg 64 v (code64 sg v) = true := by
  obtain ⟨l1, l2, l3, l4, l5, l6⟩ := loHi64
  unfold C08.zeroOK code64
  have hz : v.isZero = true → codeQ64 (rank v) = 0 := by
    intro h
    cases v with
    | nan => simp [FV.isZero] at h
    | inf n => simp [FV.isZero] at h
    | nzero => norm_num [codeQ64, rank, truncQ_zero]
    | fin q =>
      simp [FV.isZero] at h; subst h
      norm_num [codeQ64, rank, truncQ_zero]
  by_cases h : v.isZero = true
  · cases sg <;> simp [h, hz h, l3, l6]
  · simp [h]

theorem mono64 (sg : Bool) (v v' : FV) (hn : v ≠ .nan) (hn' : v' ≠ .nan) (hv : IsF64 v) (hv' : IsF64 v') :
    C08.monoOK v v' (code64 sg v) (code64 sg v') = true := by
  unfold C08.monoOK code64
  by_cases h : FV.le v v' = true
  · have := codeQ64_mono' (rank_cases v hn hv) (rank_cases v' hn' hv') (rank_mono v v' hn hn' h)
    simp [h]; omega
  · simp [h]

theorem oneStep64 (sg : Bool) (v : FV) : C08.oneStepOK sg 64 v (code64 sg v) = true := by
  unfold C08.oneStepOK
  cases v with
  | fin q =>
    simp only
    by_cases hq : -1 < q ∧ q < 1
    · simp only [hq, and_self, if_true]
      have key := one_step64 q hq.1 hq.2
      have hc : codeQ64 (rank (.fin q)) = FV.truncQ (q * 2^(63:ℤ)) := by
        rw [codeQ64_rank_fin]; unfold codeQ64
        have a : ¬ 1 ≤ q := by linarith
        have b : ¬ q ≤ -1 := by linarith
        simp [a, b]
      have hamp : Spec.amp sg 64 (code64 sg (.fin q)) = FV.truncQ (q * 2^(63:ℤ)) := by
        unfold Spec.amp code64; rw [hc]
        cases sg <;> simp [S64]
      rw [hamp]
      have hfs : (if 0 < q then (((2:ℤ)^(64-1) - 1 : ℤ) : ℚ) else (((2:ℤ)^(64-1) : ℤ) : ℚ)) =
          (if 0 < q then ((M64 : ℤ) : ℚ) else ((S64 : ℤ) : ℚ)) := by simp [M64, S64]
      rw [hfs]
      rw [abs_lt] at key
      simp only [Bool.and_eq_true, decide_eq_true_eq]
      constructor <;> linarith [key.1, key.2]
    · simp [hq]
  | nan => rfl
  | inf n => rfl
  | nzero => rfl

/-- what the driver replays, for the five 64-bit integer kinds -/
theorem kernel_signed64 (s d : Kind) (hd : d.isSigned = true) (hw : d.width = 64) (sb : Nat) (x : Int)
    (hn : cellToFV s x ≠ .nan) :
    kernel .floatAsSigned s sb d 64 x = some (code64 true (cellToFV s x)) := by
  have hi : d.intTy = ⟨64, true⟩ := by simp [Kind.intTy, hd, hw]
  have := kernel_code64 true (cellToFV s x) hn (cell_isF64 s x)
  simp only [if_true] at this
  unfold kernel; rw [hi]; exact this

theorem kernel_unsigned64 (s d : Kind) (hd : d.isSigned = false) (hw : d.width = 64) (sb : Nat) (x : Int)
    (hn : cellToFV s x ≠ .nan) :
    kernel .floatAsUnsigned s sb d 64 x = some (code64 false (cellToFV s x)) := by
  have hi : d.intTy = ⟨64, false⟩ := by simp [Kind.intTy, hd, hw]
  have := kernel_code64 false (cellToFV s x) hn (cell_isF64 s x)
  simp only [Bool.false_eq_true, if_false] at this
  unfold kernel; rw [hi]; exact this

example : f2sK ⟨64, true⟩ 64 (.fin (1/2)) = some 4611686018427387904 ∧
    f2uK ⟨64, false⟩ 64 (.fin (-1/2)) = some 4611686018427387904 ∧
    f2sK ⟨64, true⟩ 64 (.inf false) = some 9223372036854775807 := by
  refine ⟨by decide +kernel, by decide +kernel, by decide +kernel⟩

end Sig.C08W64

import SignalProofs.Props.C01
/-!
# C01, `ReadStriped` as a whole: no panic, the buffer is untouched, every channel of the caller's slices
receives exactly the samples the buffer holds for it (a partly filled last frame as far as it exists)
-/
namespace Sig.C01
open Sig
set_option linter.unusedVariables false
set_option linter.unusedSimpArgs false

/-- what the caller's slice for channel `c` holds after `ReadStriped` -/
def rsWant (cv : Int → Option Int) (h : Heap) (src : Buf) (c : Nat) (col : List Int) : Option (List Int) :=
  ((List.range (min col.length (src.chanLen c))).mapM
    (fun i => (cell h src.blk (src.off + (src.ch * i + c))).bind cv)).map (· ++ col.drop (min col.length (src.chanLen c)))

theorem rsChans_spec (cv : Int → Option Int) (h : Heap) (src : Buf) (hsmall : (src.len : Int) < 2^63)
    (cols : List (List Int)) (c0 : Nat) (hcs : c0 + cols.length ≤ src.ch) (outs : List (List Int))
    (hw : ∀ k, k < cols.length → rsWant cv h src (c0 + k) (cols.getD k []) = some (outs.getD k []))
    (hlen : outs.length = cols.length) :
    rsChans cv h src c0 cols = .ok h outs := by
  induction cols generalizing c0 outs with
  | nil =>
    have : outs = [] := List.eq_nil_of_length_eq_zero (by simpa using hlen)
    subst this; rfl
  | cons col cols ih =>
    cases outs with
    | nil => simp at hlen
    | cons o os =>
      simp only [List.length_cons] at hcs hlen
      have h0 := hw 0 (by simp)
      simp only [Nat.add_zero, List.getD_cons_zero] at h0
      unfold rsWant at h0
      cases hm : (List.range (min col.length (src.chanLen c0))).mapM
          (fun i => (cell h src.blk (src.off + (src.ch * i + c0))).bind cv) with
      | none => rw [hm] at h0; simp at h0
      | some ys =>
        rw [hm] at h0
        simp only [Option.map_some, Option.some.injEq] at h0
        have hc := rsChan_spec cv h src c0 col (by omega) hsmall ys hm
        unfold rsChans
        rw [hc]
        simp only
        have hrest := ih (c0 + 1) (by omega) os
          (fun k hk => by
            have := hw (k + 1) (by simp; omega)
            simpa [show c0 + (k + 1) = c0 + 1 + k by omega] using this)
          (by omega)
        rw [hrest]
        simp only [Res.bind]
        rw [h0]

/-- **ReadStriped**: with the slice count matching the channel count and every needed conversion
defined, the call returns normally, the heap (every buffer) is unchanged, the caller's slice for channel
`c` holds the converted samples `channels·i + c` (`i` below both the slice length and the number of
samples the buffer holds for that channel) followed by its old tail, and the count is the largest number
of samples read for one channel. -/
theorem readStriped_spec (cv : Int → Option Int) (h : Heap) (src : Buf) (dst : List (List Int))
    (hch : src.ch = dst.length) (hsmall : (src.len : Int) < 2^63) (outs : List (List Int))
    (hw : ∀ c, c < dst.length → rsWant cv h src c (dst.getD c []) = some (outs.getD c []))
    (hlen : outs.length = dst.length) :
    readStriped cv h src dst = .ok h (outs, rsCount src 0 dst) := by
  unfold readStriped
  have : ¬ src.ch ≠ dst.length := by simp [hch]
  simp only [this, if_false]
  rw [rsChans_spec cv h src hsmall dst 0 (by omega) outs (fun k hk => by simpa using hw k hk) hlen]
  rfl

/-- the count of the frame-aligned case: `min(longest slice, Length)` -/
theorem rsCount_aligned (src : Buf) (hal : src.len = src.ch * src.length) (c0 : Nat) (cols : List (List Int)) :
    rsCount src c0 cols = min (cols.foldl (fun m col => max m col.length) 0) src.length := by
  have key : ∀ (cols : List (List Int)) (c0 m : Nat),
      max (min m src.length) (rsCount src c0 cols) = min (cols.foldl (fun m col => max m col.length) m) src.length := by
    intro cols
    induction cols with
    | nil => intro c0 m; simp [rsCount]
    | cons col cols ih =>
      intro c0 m
      simp only [rsCount, List.foldl_cons, chanLen_aligned src hal]
      rw [← ih (c0 + 1) (max m col.length)]
      omega
  have := key cols c0 0
  simpa using this

end Sig.C01

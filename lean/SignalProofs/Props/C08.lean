import SignalModel.Spec
import SignalProofs.Lemmas.FloatOps
import SignalProofs.Lemmas.Decode
/-!
# C08 — floating-to-fixed conversion clips, then maps [−1,1] linearly

Model: `f2sK` / `f2uK` (SignalModel/FloatK.lean) over the executable IEEE-754 model.  The theorems
are for **every** float64 value (every rational fixed by `FV.conv f64`, ±0, ±Inf; NaN excluded as in the
property) and destination depths 8, 16 and 32, signed and unsigned; float32 sources are float64 values
after the exact widening `float64(src.Sample(i))` the code performs first.  Depth 64 is `…_partial`:
see the end of the file.
-/
namespace Sig.C08
open Sig FV Spec
set_option linter.unusedVariables false
set_option linter.unusedSimpArgs false

def W3 (w : Nat) : Prop := w = 8 ∨ w = 16 ∨ w = 32

/-- full scale for positive inputs, `2^(w−1) − 1`, and for non-positive inputs, `2^(w−1)` -/
def M (w : Nat) : ℤ := 2^(w-1) - 1
def S (w : Nat) : ℤ := 2^(w-1)

/-- the amplitude the code computes strictly inside (−1, 1) -/
def ampQ (w : Nat) (q : ℚ) : ℤ :=
  if 0 < q then FV.truncQ (rne f64 (q * (M w : ℚ))) else FV.truncQ (rne f64 (q * (S w : ℚ)))

/-- the amplitude for every rational input: clip, then `ampQ` -/
def codeQ (w : Nat) (q : ℚ) : ℤ := if 1 ≤ q then M w else if q ≤ -1 then -(S w) else ampQ w q

theorem f64p : (1:ℕ) ≤ f64.p := by decide
theorem f64e : f64.emin ≤ 0 := by decide

theorem M_pos (w : Nat) (hw : W3 w) : 0 < M w ∧ (M w).natAbs < 2^53 ∧ (S w).natAbs < 2^53 ∧ M w + 1 = S w ∧ 0 < S w := by
  rcases hw with rfl | rfl | rfl <;> simp [M, S]

theorem rne_int (n : ℤ) (hn : n.natAbs < 2^53) : rne f64 (n : ℚ) = n := by
  have := rne_fix f64 f64p n 0 (by simpa [f64] using hn) f64e
  simpa using this

theorem big : (2:ℚ)^53 < (2:ℚ)^(f64.emax + 1) := by
  have : f64.emax + 1 = 1024 := by decide
  rw [this]
  exact zpow_lt_zpow_right₀ (by norm_num) (by norm_num : (53:ℤ) < 1024)

/-- rounding never overflows below 2^53 in magnitude -/
theorem rne_small {y : ℚ} {n : ℤ} (hn : n.natAbs < 2^53) (h0 : 0 ≤ n) (hy : |y| ≤ n) :
    |rne f64 y| < (2:ℚ)^(f64.emax + 1) := by
  have hn' : (n:ℚ) < 2^53 := by
    have : ((n.natAbs : ℕ) : ℚ) < ((2^53 : ℕ) : ℚ) := by exact_mod_cast hn
    rw [Nat.cast_natAbs, abs_of_nonneg h0] at this
    push_cast at this; exact this
  have habs := abs_le.mp hy
  have hup : rne f64 y ≤ n := by
    have := rne_mono f64 f64p habs.2; rwa [rne_int n hn] at this
  have hlo : -(n:ℚ) ≤ rne f64 y := by
    have := rne_mono f64 f64p habs.1
    have e : rne f64 (-(n:ℚ)) = -(n:ℚ) := by rw [rne_neg, rne_int n hn]
    rwa [e] at this
  have : |rne f64 y| ≤ n := abs_le.mpr ⟨hlo, hup⟩
  calc |rne f64 y| ≤ n := this
    _ < 2^53 := hn'
    _ < _ := by
      have := big
      rw [← zpow_natCast] at *
      exact_mod_cast this

/-- `D(f * scale)` for a product whose rounding truncates into `[lo, hi]` -/
theorem mul_toInt (D : IntTy) (q : ℚ) (m n : ℤ) (hn : n.natAbs < 2^53) (h0 : 0 ≤ n) (hy : |q * (m:ℚ)| ≤ n)
    (hlo : D.minVal ≤ FV.truncQ (rne f64 (q * m))) (hhi : FV.truncQ (rne f64 (q * m)) ≤ D.maxVal) :
    toIntTy D (FV.mul f64 (.fin q) (.fin m)) = some (FV.truncQ (rne f64 (q * m))) := by
  rw [mul_fin]
  unfold toIntTy
  exact toInt_of_toRat _ _ _ _ (round_toRat f64 _ _ (rne_small hn h0 hy)) hlo hhi

theorem round_int (n : ℤ) (hn0 : n ≠ 0) (hn : n.natAbs < 2^53) (nz : Bool) : FV.round f64 (n:ℚ) nz = .fin n :=
  round_exact f64 f64p f64e (by decide) n hn0 (by simpa [f64] using hn) nz

/-- bounds of the interior amplitude -/
theorem ampQ_bounds (w : Nat) (hw : W3 w) (q : ℚ) (h1 : -1 < q) (h2 : q < 1) :
    -(S w) ≤ ampQ w q ∧ ampQ w q ≤ M w ∧ (0 < q → 0 ≤ ampQ w q) ∧ (q ≤ 0 → ampQ w q ≤ 0) := by
  obtain ⟨mp, mb, sb, ms, sp⟩ := M_pos w hw
  have mpq : (0:ℚ) < (M w : ℚ) := by exact_mod_cast mp
  have spq : (0:ℚ) < (S w : ℚ) := by exact_mod_cast sp
  unfold ampQ
  by_cases hq : 0 < q
  · simp only [hq, if_true]
    have hy0 : 0 ≤ q * (M w : ℚ) := by positivity
    have hyM : q * (M w : ℚ) ≤ (M w : ℚ) := by nlinarith
    have r0 : 0 ≤ rne f64 (q * (M w : ℚ)) := rne_nonneg' f64 hy0
    have rM : rne f64 (q * (M w : ℚ)) ≤ (M w : ℚ) := by
      have := rne_mono f64 f64p hyM; rwa [rne_int _ mb] at this
    refine ⟨?_, truncQ_le_of_le_int rM, fun _ => truncQ_nonneg r0, fun h => absurd hq (not_lt.mpr h)⟩
    have := truncQ_nonneg r0; omega
  · simp only [hq, if_false]
    have hq' : q ≤ 0 := not_lt.mp hq
    have hy0 : q * (S w : ℚ) ≤ 0 := by nlinarith
    have hyS : -(S w : ℚ) ≤ q * (S w : ℚ) := by nlinarith
    have r0 : rne f64 (q * (S w : ℚ)) ≤ 0 := rne_nonpos f64 hy0
    have rS : ((-(S w) : ℤ) : ℚ) ≤ rne f64 (q * (S w : ℚ)) := by
      have := rne_mono f64 f64p hyS
      rw [rne_neg, rne_int _ sb] at this
      push_cast; exact this
    have t0 : FV.truncQ (rne f64 (q * (S w : ℚ))) ≤ 0 := by
      have := truncQ_le_of_le_int (n := 0) (by simpa using r0); exact this
    refine ⟨truncQ_ge_of_ge_int rS, by omega, fun h => h.elim, fun _ => t0⟩

/-- `codeQ` is monotone on all of ℚ -/
theorem codeQ_mono (w : Nat) (hw : W3 w) {x y : ℚ} (h : x ≤ y) : codeQ w x ≤ codeQ w y := by
  obtain ⟨mp, mb, sb, ms, sp⟩ := M_pos w hw
  have mpq : (0:ℚ) ≤ (M w : ℚ) := by exact_mod_cast le_of_lt mp
  have spq : (0:ℚ) ≤ (S w : ℚ) := by exact_mod_cast le_of_lt sp
  unfold codeQ
  by_cases hy1 : 1 ≤ y
  · simp only [hy1, if_true]
    split_ifs with a b
    · exact le_refl _
    · omega
    · exact (ampQ_bounds w hw x (by linarith) (by linarith)).2.1
  · have hx1 : ¬ 1 ≤ x := by linarith
    simp only [hy1, hx1, if_false]
    by_cases hx2 : x ≤ -1
    · simp only [hx2, if_true]
      split_ifs with b
      · exact le_refl _
      · exact (ampQ_bounds w hw y (by linarith) (by linarith)).1
    · have hy2 : ¬ y ≤ -1 := by linarith
      simp only [hx2, hy2, if_false]
      -- both strictly inside
      unfold ampQ
      split_ifs with hf hg hg
      · exact truncQ_mono (rne_mono f64 f64p (mul_le_mul_of_nonneg_right h mpq))
      · exact absurd (lt_of_lt_of_le hf h) hg
      · have l : rne f64 (x * (S w : ℚ)) ≤ 0 :=
          rne_nonpos f64 (mul_nonpos_of_nonpos_of_nonneg (not_lt.mp hf) spq)
        have r : 0 ≤ rne f64 (y * (M w : ℚ)) := rne_nonneg' f64 (mul_nonneg (le_of_lt hg) mpq)
        have l' := truncQ_le_of_le_int (n := 0) (by simpa using l)
        have r' := truncQ_nonneg r
        omega
      · exact truncQ_mono (rne_mono f64 f64p (mul_le_mul_of_nonneg_right h spq))

/-- **one step**: strictly inside (−1,1) the amplitude is within one quantisation step of
input × full scale (`M` for positive, `S` for non-positive inputs) -/
theorem ampQ_one_step (w : Nat) (hw : W3 w) (q : ℚ) (h1 : -1 < q) (h2 : q < 1) :
    |((ampQ w q : ℤ) : ℚ) - q * (if 0 < q then (M w : ℚ) else (S w : ℚ))| < 1 := by
  obtain ⟨mp, mb, sb, ms, sp⟩ := M_pos w hw
  have mpq : (0:ℚ) < (M w : ℚ) := by exact_mod_cast mp
  have spq : (0:ℚ) < (S w : ℚ) := by exact_mod_cast sp
  have m52 : (M w : ℚ) < 2^52 := by rcases hw with rfl | rfl | rfl <;> simp [M] <;> norm_num
  have s52 : (S w : ℚ) < 2^52 := by rcases hw with rfl | rfl | rfl <;> simp [S] <;> norm_num
  -- positive products below 2^52: truncation of the rounded value is ⌊y⌋ or ⌈y⌉
  have near : ∀ y : ℚ, 0 < y → y < 2^52 → |((FV.truncQ (rne f64 y) : ℤ) : ℚ) - y| < 1 := by
    intro y hy hlt
    have hs := rne_sandwich f64 f64p f64e hy (by simpa [f64] using hlt)
    have a1 := Int.floor_le y
    have a2 := Int.lt_floor_add_one y
    have hr0 : 0 ≤ rne f64 y := rne_nonneg f64 hy
    have ht : FV.truncQ (rne f64 y) = ⌊rne f64 y⌋ := by rw [truncQ_eq]; simp [hr0]
    rw [ht]
    have lo : ⌊y⌋ ≤ ⌊rne f64 y⌋ := Int.le_floor.mpr hs.1
    have hi : ⌊rne f64 y⌋ ≤ ⌊y⌋ + 1 := by
      have : (⌊rne f64 y⌋ : ℚ) ≤ (⌊y⌋:ℚ) + 1 := le_trans (Int.floor_le _) hs.2
      exact_mod_cast this
    rcases (by omega : ⌊rne f64 y⌋ = ⌊y⌋ ∨ ⌊rne f64 y⌋ = ⌊y⌋ + 1) with e | e
    · rw [e, abs_lt]; constructor <;> linarith
    · rw [e]; push_cast
      by_cases hint : (⌊y⌋:ℚ) = y
      · exfalso
        have hfix : rne f64 y = y := by
          have hm : ⌊y⌋.natAbs < 2^f64.p := by
            have : (⌊y⌋:ℚ) < 2^52 := lt_of_le_of_lt a1 hlt
            have h0 : 0 ≤ ⌊y⌋ := Int.floor_nonneg.mpr (le_of_lt hy)
            have : ⌊y⌋ < 2^52 := by exact_mod_cast this
            simp [f64]; omega
          have := rne_fix f64 f64p ⌊y⌋ 0 hm f64e
          simpa [hint] using this
        rw [hfix] at e; omega
      · have : (⌊y⌋:ℚ) < y := lt_of_le_of_ne a1 hint
        rw [abs_lt]; constructor <;> linarith
  unfold ampQ
  by_cases hq : 0 < q
  · simp only [hq, if_true]
    exact near _ (by positivity) (by nlinarith)
  · simp only [hq, if_false]
    rcases eq_or_lt_of_le (not_lt.mp hq) with h0 | h0
    · subst h0; simp [rne_zero]
      have : FV.truncQ (0:ℚ) = 0 := by simpa using truncQ_int 0
      simp [this]
    · have hy : 0 < -(q * (S w : ℚ)) := by nlinarith
      have := near (-(q * (S w : ℚ))) hy (by nlinarith)
      rw [rne_neg, truncQ_neg] at this
      rw [abs_lt] at this ⊢
      push_cast at this
      constructor <;> linarith

/-! ## the model's kernels compute `codeQ` -/

/-- position of a non-NaN float on the rational line, clamped to [−2, 2] (±Inf ↦ ±2, −0 ↦ 0) -/
def rank : FV → ℚ
  | .nan => 0
  | .inf n => if n then -2 else 2
  | .nzero => 0
  | .fin q => max (-2) (min 2 q)

theorem codeQ_rank_fin (w : Nat) (q : ℚ) : codeQ w (rank (.fin q)) = codeQ w q := by
  have hr : rank (.fin q) = max (-2) (min 2 q) := rfl
  rw [hr]
  unfold codeQ
  by_cases a : 1 ≤ q
  · have : 1 ≤ max (-2) (min 2 q) := le_max_of_le_right (le_min (by norm_num) a)
    simp [a, this]
  · by_cases b : q ≤ -1
    · have h1 : ¬ 1 ≤ max (-2) (min 2 q) := by
        rw [not_le]; apply max_lt (by norm_num); exact lt_of_le_of_lt (min_le_right _ _) (by linarith)
      have h2 : max (-2) (min 2 q) ≤ -1 := max_le (by norm_num) (le_trans (min_le_right _ _) b)
      simp [a, b, h1, h2]
    · have e : max (-2) (min 2 q) = q := by
        rw [min_eq_right (by linarith), max_eq_right (by linarith)]
      rw [e]

/-- `a ≤ b` (Go comparison, no NaN) implies the ranks are ordered -/
theorem rank_mono (a b : FV) (ha : a ≠ .nan) (hb : b ≠ .nan) (h : FV.le a b = true) : rank a ≤ rank b := by
  have clampm : ∀ x y : ℚ, x ≤ y → max (-2) (min 2 x) ≤ max (-2) (min 2 y) :=
    fun x y hxy => max_le_max (le_refl _) (min_le_min (le_refl _) hxy)
  have c1 : ∀ x : ℚ, max (-2) (min 2 x) ≤ 2 := fun x => max_le (by norm_num) (min_le_left _ _)
  have c2 : ∀ x : ℚ, -2 ≤ max (-2) (min 2 x) := fun x => le_max_left _ _
  have c0 : max (-2 : ℚ) (min 2 0) = 0 := by norm_num
  cases a with
  | nan => exact absurd rfl ha
  | inf na =>
    cases b with
    | nan => exact absurd rfl hb
    | inf nb => cases na <;> cases nb <;> simp [FV.le, rank] at * <;> norm_num
    | nzero => cases na <;> simp [FV.le, rank] at *
    | fin q => cases na <;> simp only [FV.le, rank] at * <;> first | exact c2 q | simp at h
  | nzero =>
    cases b with
    | nan => exact absurd rfl hb
    | inf nb => cases nb <;> simp [FV.le, rank] at *
    | nzero => exact le_refl _
    | fin q =>
      simp only [FV.le, FV.toRat?, decide_eq_true_eq] at h
      have := clampm 0 q h
      rw [c0] at this; exact this
  | fin p =>
    cases b with
    | nan => exact absurd rfl hb
    | inf nb => cases nb <;> simp only [FV.le, rank] at * <;> first | exact c1 p | simp at h
    | nzero =>
      simp only [FV.le, FV.toRat?, decide_eq_true_eq] at h
      have := clampm p 0 h
      rw [c0] at this; exact this
    | fin q =>
      simp only [FV.le, FV.toRat?, decide_eq_true_eq] at h
      exact clampm p q h

theorem consts (w : Nat) (hw : W3 w) :
    (⟨w, true⟩ : IntTy).wrap (maxSignedValue w) = M w ∧
    (⟨w, false⟩ : IntTy).wrap (maxSignedValue w) = M w ∧
    (⟨w, true⟩ : IntTy).wrap ((⟨w, true⟩ : IntTy).wrap (-(M w)) - 1) = -(S w) ∧
    (⟨w, false⟩ : IntTy).wrap (M w + 1) = S w ∧
    (⟨w, true⟩ : IntTy).minVal = -(S w) ∧ (⟨w, true⟩ : IntTy).maxVal = M w ∧
    (⟨w, false⟩ : IntTy).minVal = 0 ∧ (⟨w, false⟩ : IntTy).maxVal = 2 * S w - 1 := by
  rcases hw with rfl | rfl | rfl <;> decide

theorem fsum (w : Nat) (hw : W3 w) :
    FV.ofInt f64 (M w) = .fin (M w) ∧ FV.add f64 (.fin (M w)) one64 = .fin (S w) := by
  obtain ⟨mp, mb, sb, ms, sp⟩ := M_pos w hw
  refine ⟨ofInt_exact f64 f64p f64e (by decide) _ (by omega) (by simpa [f64] using mb), ?_⟩
  unfold one64
  rw [add_fin]
  have : ((M w : ℤ) : ℚ) + 1 = ((S w : ℤ) : ℚ) := by rw [← ms]; push_cast; ring
  rw [this]
  exact round_int _ (by omega) sb _

theorem mul_nzero (m : ℤ) : toIntTy (D : IntTy) (FV.mul f64 .nzero (.fin m)) = FV.toInt D.minVal D.maxVal (FV.mul f64 .nzero (.fin m)) := rfl

/-- the product of a zero with a finite number is a zero -/
theorem mul_zero_toRat (x : FV) (hx : x.toRat? = some 0) (m : ℚ) :
    (FV.mul f64 x (.fin m)).toRat? = some 0 := by
  have hz : |rne f64 (0:ℚ)| < (2:ℚ)^(f64.emax + 1) := by
    rw [rne_zero, abs_zero]; exact two_zpow_pos _
  have key : ∀ nz : Bool, (FV.round f64 (0:ℚ) nz).toRat? = some 0 := by
    intro nz
    have := round_toRat f64 0 nz hz
    rw [rne_zero] at this; exact this
  cases x with
  | nan => simp [FV.toRat?] at hx
  | inf n => simp [FV.toRat?] at hx
  | nzero =>
    have e : FV.mul f64 .nzero (.fin m) = FV.round f64 (0 * m) (FV.nzero.isNeg != (FV.fin m).isNeg) := by
      simp [FV.mul, FV.toRat?]
    rw [e, zero_mul]; exact key _
  | fin q =>
    simp [FV.toRat?] at hx; subst hx
    rw [mul_fin, zero_mul]; exact key _

theorem truncQ_zero : FV.truncQ (0:ℚ) = 0 := by simpa using truncQ_int 0

/-- **the signed kernel computes `codeQ`** for every non-NaN float64 value; in particular it never
performs an implementation-defined conversion (`none`) -/
theorem f2sK_eq (w : Nat) (hw : W3 w) (v : FV) (hnan : v ≠ .nan) (hv : IsF64 v) :
    f2sK ⟨w, true⟩ w v = some (codeQ w (rank v)) := by
  obtain ⟨c1, c2, c3, c4, c5, c6, c7, c8⟩ := consts w hw
  obtain ⟨f1, f2⟩ := fsum w hw
  obtain ⟨mp, mb, sb, ms, sp⟩ := M_pos w hw
  unfold f2sK
  unfold IsF64 at hv
  simp only [c1, hv, f1, f2, c3]
  cases v with
  | nan => exact absurd rfl hnan
  | inf n =>
    cases n
    · norm_num [FV.lt, one64, codeQ, rank]
    · norm_num [FV.lt, one64, mone64, codeQ, rank]
  | nzero =>
    have h1 : FV.lt (.fin 0) .nzero = false := by simp [FV.lt, FV.toRat?]
    have h2 : FV.lt mone64 .nzero = true := by simp [FV.lt, FV.toRat?, mone64]
    simp only [h1, h2, if_true, Bool.false_eq_true, if_false]
    have hz := mul_zero_toRat .nzero (by simp [FV.toRat?]) (S w)
    have hc : codeQ w (rank .nzero) = 0 := by
      norm_num [codeQ, rank, ampQ, rne_zero, truncQ_zero]
    unfold toIntTy
    rw [toInt_of_toRat _ _ _ 0 hz (by rw [truncQ_zero, c5]; omega) (by rw [truncQ_zero, c6]; omega), truncQ_zero, hc]
  | fin q =>
    rw [codeQ_rank_fin]
    simp only [lt_fin, one64, mone64, decide_eq_true_eq]
    unfold codeQ
    by_cases a : 1 ≤ q
    · have : 0 < q := by linarith
      have n1 : ¬ q < 1 := by linarith
      simp [this, n1, a]
    · by_cases b : q ≤ -1
      · have n0 : ¬ 0 < q := by linarith
        have n1 : ¬ -1 < q := by linarith
        simp [n0, n1, a, b]
      · have hb : -1 < q := by linarith
        have ha : q < 1 := by linarith
        obtain ⟨b1, b2, b3, b4⟩ := ampQ_bounds w hw q hb ha
        simp only [a, b, if_false]
        by_cases h0 : 0 < q
        · simp only [h0, ha, if_true]
          have e : ampQ w q = FV.truncQ (rne f64 (q * (M w : ℚ))) := by simp [ampQ, h0]
          rw [e] at b1 b2 ⊢
          exact mul_toInt _ q (M w) (M w) mb (le_of_lt mp)
            (by rw [abs_mul, abs_of_pos h0, abs_of_pos (by exact_mod_cast mp)]
                have : (0:ℚ) < (M w : ℚ) := by exact_mod_cast mp
                nlinarith)
            (by rw [c5]; exact b1) (by rw [c6]; exact b2)
        · simp only [h0, hb, if_true, if_false]
          have e : ampQ w q = FV.truncQ (rne f64 (q * (S w : ℚ))) := by simp [ampQ, h0]
          rw [e] at b1 b2 ⊢
          exact mul_toInt _ q (S w) (S w) sb (le_of_lt sp)
            (by have : (0:ℚ) < (S w : ℚ) := by exact_mod_cast sp
                have hq1 : |q| ≤ 1 := abs_le.mpr ⟨by linarith, by linarith⟩
                rw [abs_mul, abs_of_pos this]; nlinarith)
            (by rw [c5]; exact b1) (by rw [c6]; exact b2)

/-- **the unsigned kernel computes `codeQ` offset by 2^(w−1)** -/
theorem f2uK_eq (w : Nat) (hw : W3 w) (v : FV) (hnan : v ≠ .nan) (hv : IsF64 v) :
    f2uK ⟨w, false⟩ w v = some (codeQ w (rank v) + S w) := by
  obtain ⟨c1, c2, c3, c4, c5, c6, c7, c8⟩ := consts w hw
  obtain ⟨f1, f2⟩ := fsum w hw
  obtain ⟨mp, mb, sb, ms, sp⟩ := M_pos w hw
  have wrapid : ∀ x : ℤ, 0 ≤ x → x ≤ 2 * S w - 1 → (⟨w, false⟩ : IntTy).wrap x = x := by
    intro x h0 h1
    have : (2:ℤ)^w = 2 * S w := by rcases hw with rfl | rfl | rfl <;> simp [S]
    simp only [IntTy.wrap, Bool.false_eq_true, if_false, wrapU]
    exact Int.emod_eq_of_lt h0 (by omega)
  unfold f2uK
  unfold IsF64 at hv
  simp only [c2, hv, f1, f2, c4]
  cases v with
  | nan => exact absurd rfl hnan
  | inf n =>
    cases n
    · have : codeQ w (rank (.inf false)) = M w := by norm_num [codeQ, rank]
      rw [this]
      norm_num [FV.lt, one64]
      exact wrapid _ (by omega) (by omega)
    · have : codeQ w (rank (.inf true)) = -(S w) := by norm_num [codeQ, rank]
      rw [this]
      norm_num [FV.lt, one64, mone64]
  | nzero =>
    have h1 : FV.lt (.fin 0) .nzero = false := by simp [FV.lt, FV.toRat?]
    have h2 : FV.lt mone64 .nzero = true := by simp [FV.lt, FV.toRat?, mone64]
    simp only [h1, h2, if_true, Bool.false_eq_true, if_false]
    have hc : codeQ w (rank .nzero) = 0 := by
      norm_num [codeQ, rank, ampQ, rne_zero, truncQ_zero]
    have hz := mul_zero_toRat (FV.neg .nzero) (by simp [FV.neg, FV.toRat?]) (S w)
    unfold toIntTy
    rw [toInt_of_toRat _ _ _ 0 hz (by rw [truncQ_zero, c7]) (by rw [truncQ_zero, c8]; omega), truncQ_zero, hc]
    simp only [Option.map_some, Int.sub_zero, Int.zero_add]
    rw [wrapid _ (by omega) (by omega)]
  | fin q =>
    rw [codeQ_rank_fin]
    simp only [lt_fin, one64, mone64, decide_eq_true_eq]
    unfold codeQ
    by_cases a : 1 ≤ q
    · have : 0 < q := by linarith
      have n1 : ¬ q < 1 := by linarith
      simp only [this, n1, a, if_true, if_false]
      rw [wrapid _ (by omega) (by omega)]
    · by_cases b : q ≤ -1
      · have n0 : ¬ 0 < q := by linarith
        have n1 : ¬ -1 < q := by linarith
        simp [n0, n1, a, b]
      · have hb : -1 < q := by linarith
        have ha : q < 1 := by linarith
        obtain ⟨b1, b2, b3, b4⟩ := ampQ_bounds w hw q hb ha
        simp only [a, b, if_false]
        by_cases h0 : 0 < q
        · simp only [h0, ha, if_true]
          have e : ampQ w q = FV.truncQ (rne f64 (q * (M w : ℚ))) := by simp [ampQ, h0]
          have b3' := b3 h0
          rw [e] at b1 b2 b3' ⊢
          rw [mul_toInt _ q (M w) (M w) mb (le_of_lt mp)
            (by rw [abs_mul, abs_of_pos h0, abs_of_pos (by exact_mod_cast mp)]
                have : (0:ℚ) < (M w : ℚ) := by exact_mod_cast mp
                nlinarith)
            (by rw [c7]; exact b3') (by rw [c8]; omega)]
          simp only [Option.map_some]
          rw [wrapid _ (by omega) (by omega)]
        · simp only [h0, hb, if_true, if_false]
          have e : ampQ w q = FV.truncQ (rne f64 (q * (S w : ℚ))) := by simp [ampQ, h0]
          have hq0 : q ≤ 0 := not_lt.mp h0
          have b4' := b4 hq0
          rw [e] at b1 b2 b4' ⊢
          have spq : (0:ℚ) < (S w : ℚ) := by exact_mod_cast sp
          rcases eq_or_lt_of_le hq0 with hz0 | hneg
          · -- q = 0
            subst hz0
            have hz := mul_zero_toRat (FV.neg (.fin 0)) (by simp [FV.neg, FV.toRat?]) (S w)
            unfold toIntTy
            rw [toInt_of_toRat _ _ _ 0 hz (by rw [truncQ_zero, c7]) (by rw [truncQ_zero, c8]; omega), truncQ_zero]
            simp only [Option.map_some, Int.sub_zero, zero_mul, rne_zero, truncQ_zero, Int.zero_add]
            rw [wrapid _ (by omega) (by omega)]
          · have hne : q ≠ 0 := ne_of_lt hneg
            have hnegv : FV.neg (.fin q) = .fin (-q) := by simp [FV.neg, hne]
            rw [hnegv]
            have hy : (-q) * (S w : ℚ) = -(q * (S w : ℚ)) := by ring
            have ht : FV.truncQ (rne f64 ((-q) * (S w : ℚ))) = -FV.truncQ (rne f64 (q * (S w : ℚ))) := by
              rw [hy, rne_neg, truncQ_neg]
            rw [mul_toInt _ (-q) (S w) (S w) sb (le_of_lt sp)
              (by have hq1 : |(-q)| ≤ 1 := abs_le.mpr ⟨by linarith, by linarith⟩
                  rw [abs_mul, abs_of_pos spq]; nlinarith)
              (by rw [c7, ht]; omega) (by rw [c8, ht]; omega)]
            simp only [Option.map_some, ht]
            rw [wrapid _ (by omega) (by omega)]
            congr 1; omega

/-! ## the property clauses, as the executable predicates of `Spec.C08`, for the model's outputs -/

theorem loHi (w : Nat) (hw : W3 w) :
    hiCode true w = M w ∧ loCode true w = -(S w) ∧ zeroCode true w = 0 ∧
    hiCode false w = M w + S w ∧ loCode false w = 0 ∧ zeroCode false w = S w := by
  rcases hw with rfl | rfl | rfl <;> decide

/-- the code produced for `v` by the kernel of signedness `sg` -/
def code (sg : Bool) (w : Nat) (v : FV) : ℤ := codeQ w (rank v) + (if sg then 0 else S w)

theorem kernel_code (sg : Bool) (w : Nat) (hw : W3 w) (v : FV) (hnan : v ≠ .nan) (hv : IsF64 v) :
    (if sg then f2sK ⟨w, true⟩ w v else f2uK ⟨w, false⟩ w v) = some (code sg w v) := by
  cases sg
  · simp only [Bool.false_eq_true, if_false, code]; exact f2uK_eq w hw v hnan hv
  · simp only [if_true, code, Int.add_zero]; exact f2sK_eq w hw v hnan hv

/-- **clip**: every input ≥ 1 (including +Inf) gives the highest code, every input ≤ −1 (including −Inf)
the lowest -/
theorem clip (sg : Bool) (w : Nat) (hw : W3 w) (v : FV) (hnan : v ≠ .nan) :
    C08.clipOK sg w v (code sg w v) = true := by
  obtain ⟨l1, l2, l3, l4, l5, l6⟩ := loHi w hw
  unfold C08.clipOK code
  have hi : FV.le (.fin 1) v = true → codeQ w (rank v) = M w := by
    intro h
    have := rank_mono (.fin 1) v (by simp) hnan h
    have e : rank (.fin 1) = 1 := by norm_num [rank]
    rw [e] at this
    simp [codeQ, this]
  have lo : FV.le v (.fin (-1)) = true → codeQ w (rank v) = -(S w) := by
    intro h
    have := rank_mono v (.fin (-1)) hnan (by simp) h
    have e : rank (.fin (-1)) = -1 := by norm_num [rank]
    rw [e] at this
    have n1 : ¬ (1:ℚ) ≤ rank v := by linarith
    simp [codeQ, this, n1]
  cases sg <;> simp only [Bool.and_eq_true, Bool.or_eq_true, Bool.not_eq_true', decide_eq_true_eq, l1, l2, l4, l5,
    Bool.false_eq_true, if_false, if_true]
  · constructor
    · by_cases h : FV.le (.fin 1) v = true
      · right; rw [hi h]
      · left; simpa using h
    · by_cases h : FV.le v (.fin (-1)) = true
      · right; rw [lo h]; omega
      · left; simpa using h
  · constructor
    · by_cases h : FV.le (.fin 1) v = true
      · right; rw [hi h]; omega
      · left; simpa using h
    · by_cases h : FV.le v (.fin (-1)) = true
      · right; rw [lo h]; omega
      · left; simpa using h

/-- **zero** maps to the zero-amplitude code -/
theorem zero (sg : Bool) (w : Nat) (hw : W3 w) (v : FV) :
    C08.zeroOK sg w v (code sg w v) = true := by
  obtain ⟨l1, l2, l3, l4, l5, l6⟩ := loHi w hw
  unfold C08.zeroOK code
  have hz : v.isZero = true → codeQ w (rank v) = 0 := by
    intro h
    cases v with
    | nan => simp [FV.isZero] at h
    | inf n => simp [FV.isZero] at h
    | nzero => norm_num [codeQ, rank, ampQ, rne_zero, truncQ_zero]
    | fin q =>
      simp [FV.isZero] at h; subst h
      norm_num [codeQ, rank, ampQ, rne_zero, truncQ_zero]
  by_cases h : v.isZero = true
  · cases sg <;> simp [h, hz h, l3, l6]
  · simp [h]

/-- **monotone**: a larger input never gives a smaller code -/
theorem mono (sg : Bool) (w : Nat) (hw : W3 w) (v v' : FV) (hn : v ≠ .nan) (hn' : v' ≠ .nan) :
    C08.monoOK v v' (code sg w v) (code sg w v') = true := by
  unfold C08.monoOK code
  by_cases h : FV.le v v' = true
  · have := codeQ_mono w hw (rank_mono v v' hn hn' h)
    simp [h]; omega
  · simp [h]

/-- **one step**: strictly inside (−1, 1) the amplitude is within one quantisation step of
input × full scale -/
theorem oneStep (sg : Bool) (w : Nat) (hw : W3 w) (v : FV) :
    C08.oneStepOK sg w v (code sg w v) = true := by
  unfold C08.oneStepOK
  cases v with
  | fin q =>
    simp only
    by_cases hq : -1 < q ∧ q < 1
    · simp only [hq, and_self, if_true]
      have key := ampQ_one_step w hw q hq.1 hq.2
      have hc : codeQ w (rank (.fin q)) = ampQ w q := by
        rw [codeQ_rank_fin]; unfold codeQ
        have a : ¬ 1 ≤ q := by linarith
        have b : ¬ q ≤ -1 := by linarith
        simp [a, b]
      have hamp : Spec.amp sg w (code sg w (.fin q)) = ampQ w q := by
        unfold Spec.amp code; rw [hc]
        cases sg <;> simp [S]
      rw [hamp]
      have hfs : (if 0 < q then (((2:ℤ)^(w-1) - 1 : ℤ) : ℚ) else (((2:ℤ)^(w-1) : ℤ) : ℚ)) =
          (if 0 < q then (M w : ℚ) else (S w : ℚ)) := by simp [M, S]
      rw [hfs]
      rw [abs_lt] at key
      simp only [Bool.and_eq_true, decide_eq_true_eq]
      constructor <;> linarith [key.1, key.2]
    · simp [hq]
  | nan => rfl
  | inf n => rfl
  | nzero => rfl

/-- results are codes of the destination format: nothing ever wraps around -/
theorem range (sg : Bool) (w : Nat) (hw : W3 w) (v : FV) :
    C08.rangeOK sg w (code sg w v) = true := by
  obtain ⟨l1, l2, l3, l4, l5, l6⟩ := loHi w hw
  obtain ⟨mp, mb, sb, ms, sp⟩ := M_pos w hw
  have hb : -(S w) ≤ codeQ w (rank v) ∧ codeQ w (rank v) ≤ M w := by
    unfold codeQ
    split_ifs with a b
    · omega
    · omega
    · have := ampQ_bounds w hw (rank v) (by linarith) (by linarith); exact ⟨this.1, this.2.1⟩
  unfold C08.rangeOK code
  cases sg <;> simp [l1, l2, l4, l5] <;> omega

/-- **what the driver replays**: for every float32/float64 cell (any bit pattern that is not a NaN) and
every signed destination kind of width 8, 16 or 32, the dispatched kernel returns `code` -/
theorem kernel_signed (s d : Kind) (hd : d.isSigned = true) (hw : W3 d.width) (sb : Nat) (x : Int)
    (hn : cellToFV s x ≠ .nan) :
    kernel .floatAsSigned s sb d d.width x = some (code true d.width (cellToFV s x)) := by
  have hi : d.intTy = ⟨d.width, true⟩ := by simp [Kind.intTy, hd]
  have := kernel_code true d.width hw (cellToFV s x) hn (cell_isF64 s x)
  simp only [if_true] at this
  unfold kernel; rw [hi]; exact this

theorem kernel_unsigned (s d : Kind) (hd : d.isSigned = false) (hw : W3 d.width) (sb : Nat) (x : Int)
    (hn : cellToFV s x ≠ .nan) :
    kernel .floatAsUnsigned s sb d d.width x = some (code false d.width (cellToFV s x)) := by
  have hi : d.intTy = ⟨d.width, false⟩ := by simp [Kind.intTy, hd]
  have := kernel_code false d.width hw (cellToFV s x) hn (cell_isF64 s x)
  simp only [Bool.false_eq_true, if_false] at this
  unfold kernel; rw [hi]; exact this

/-- non-vacuity: concrete float64 values satisfy `IsF64`, and the model evaluates as the theorems say -/
example : IsF64 (.fin (1/2)) ∧ IsF64 (.inf false) ∧ IsF64 .nzero ∧ IsF64 (.fin (-3/2)) ∧
    f2sK ⟨8, true⟩ 8 (.fin (1/2)) = some 63 ∧ f2sK ⟨8, true⟩ 8 (.fin (-3/2)) = some (-128) ∧
    f2uK ⟨16, false⟩ 16 (.inf false) = some 65535 ∧ f2uK ⟨8, false⟩ 8 (.fin (-1/2)) = some 64 := by
  refine ⟨by unfold IsF64; decide +kernel, by unfold IsF64; decide +kernel, by unfold IsF64; decide +kernel,
    by unfold IsF64; decide +kernel, by decide +kernel, by decide +kernel, by decide +kernel, by decide +kernel⟩

end Sig.C08

import SignalModel.SpecMem
import SignalProofs.Lemmas.Heap
/-!
# C02 — slicing yields a channel-aware shared window with Go slice semantics

Model: `Buf.slice` (SignalModel/Buffer.lean), the transliteration of `Buffer.Slice` including the
64-bit wrap-around of `channels*start` / `channels*end`.  All theorems are for every buffer shape
(any channel count ≥ 1, any offset/length/capacity), every `start`, `end` in Go's `int` range and – by
`slice_compose` – nesting to any depth.
-/
namespace Sig.C02
open Sig
set_option linter.unusedVariables false

theorem wrapI_id (x : Int) (h : -(2^63) ≤ x ∧ x < 2^63) : wrapI x = x := by
  unfold wrapI
  have : (9223372036854775808 + x) % 18446744073709551616 = 9223372036854775808 + x :=
    Int.emod_eq_of_lt (by omega) (by omega)
  omega

theorem capacity_mul_le (b : Buf) : b.ch * b.capacity ≤ b.cap := by
  unfold Buf.capacity
  split
  · simp
  · exact Nat.mul_div_le b.cap b.ch

/-- the window of frames `[s, e)` of `b` -/
def sliceView (b : Buf) (s e : Nat) : Buf :=
  { ch := b.ch, blk := b.blk, off := b.off + b.ch * s, len := b.ch * e - b.ch * s, cap := b.cap - b.ch * s,
    kind := b.kind, depth := b.depth }

/-- **closed form** of a successful slice -/
theorem slice_ok (b : Buf) (hch : 1 ≤ b.ch) (hcap : (b.cap : Int) < 2^63) (s e : Nat)
    (hse : s ≤ e) (he : e ≤ b.capacity) :
    b.slice (s : Int) (e : Int) = some (sliceView b s e) := by
  have hc := capacity_mul_le b
  have h1 : b.ch * s ≤ b.ch * e := Nat.mul_le_mul_left _ hse
  have h2 : b.ch * e ≤ b.ch * b.capacity := Nat.mul_le_mul_left _ he
  have i1 : bufferIndex b.ch 0 (s : Int) = ((b.ch * s : Nat) : Int) := by
    unfold bufferIndex
    have : ((b.ch : Int) * (s : Int)) = ((b.ch * s : Nat) : Int) := by push_cast; rfl
    have e1 : wrapI ((b.ch * s : Nat) : Int) = ((b.ch * s : Nat) : Int) := wrapI_id _ (by omega)
    rw [this, e1, Int.add_zero, e1]
  have i2 : bufferIndex b.ch 0 (e : Int) = ((b.ch * e : Nat) : Int) := by
    unfold bufferIndex
    have : ((b.ch : Int) * (e : Int)) = ((b.ch * e : Nat) : Int) := by push_cast; rfl
    have e1 : wrapI ((b.ch * e : Nat) : Int) = ((b.ch * e : Nat) : Int) := wrapI_id _ (by omega)
    rw [this, e1, Int.add_zero, e1]
  unfold Buf.slice
  have g : ¬ (b.ch ≠ 0 ∧ ((s : Int) < 0 ∨ (s : Int) > e ∨ (e : Int) > b.capacity)) := by
    intro ⟨_, h⟩; omega
  rw [if_neg g, i1, i2]
  unfold Buf.reslice
  have c : (0:Int) ≤ ((b.ch * s : Nat) : Int) ∧ ((b.ch * s : Nat) : Int) ≤ ((b.ch * e : Nat) : Int) ∧
      ((b.ch * e : Nat) : Int) ≤ (b.cap : Int) := by omega
  rw [if_pos c]
  simp only [sliceView, Int.toNat_natCast, Option.some.injEq, Buf.mk.injEq, true_and, and_true]
  omega

/-- **bounds follow Go slices**: a view is returned exactly when `0 ≤ start ≤ end ≤ Capacity`;
every other range – including those whose product with the channel count overflows `int` – panics. -/
theorem slice_panics_iff (b : Buf) (hch : 1 ≤ b.ch) (hcap : (b.cap : Int) < 2^63) (s e : Int) :
    b.slice s e = none ↔ (s < 0 ∨ s > e ∨ e > (b.capacity : Int)) := by
  constructor
  · intro h
    by_cases g : s < 0 ∨ s > e ∨ e > (b.capacity : Int)
    · exact g
    · exfalso
      have hs : 0 ≤ s := by omega
      have he : 0 ≤ e := by omega
      obtain ⟨s', rfl⟩ := Int.eq_ofNat_of_zero_le hs
      obtain ⟨e', rfl⟩ := Int.eq_ofNat_of_zero_le he
      rw [slice_ok b hch hcap s' e' (by omega) (by omega)] at h
      cases h
  · intro g
    unfold Buf.slice
    rw [if_pos ⟨by omega, g⟩]

/-- **shape**: same channel count, bit depth and element kind; per-channel length `end−start`;
per-channel capacity `parent capacity − start` -/
theorem slice_shape (b c : Buf) (hch : 1 ≤ b.ch) (hcap : (b.cap : Int) < 2^63) (s e : Nat)
    (hse : s ≤ e) (he : e ≤ b.capacity) (h : b.slice (s : Int) (e : Int) = some c) :
    c.ch = b.ch ∧ c.depth = b.depth ∧ c.kind = b.kind ∧ c.length = e - s ∧ c.capacity = b.capacity - s := by
  rw [slice_ok b hch hcap s e hse he] at h
  injection h with h; subst h
  refine ⟨rfl, rfl, rfl, ?_, ?_⟩
  · show channelLength (b.ch * e - b.ch * s) b.ch = e - s
    unfold channelLength
    have : b.ch ≠ 0 := by omega
    simp only [this, if_false]
    rw [← Nat.mul_sub]
    have hpos : 0 < b.ch := by omega
    have : b.ch * (e - s) + b.ch - 1 = b.ch * (e - s) + (b.ch - 1) := by omega
    rw [this, Nat.mul_add_div hpos, Nat.div_eq_of_lt (by omega)]; rfl
  · show Buf.capacity (sliceView b s e) = b.capacity - s
    unfold Buf.capacity sliceView
    have : b.ch ≠ 0 := by omega
    simp only [this, if_false]
    rw [Nat.sub_mul_div_of_le]
    · have hc := capacity_mul_le b
      unfold Buf.capacity at hc he
      simp only [this, if_false] at hc he
      calc b.ch * s ≤ b.ch * e := Nat.mul_le_mul_left _ hse
        _ ≤ b.ch * (b.cap / b.ch) := Nat.mul_le_mul_left _ he
        _ ≤ b.cap := Nat.mul_div_le _ _

/-- **storage identity**: sample `i` of channel `k` of the child *is* the parent's storage cell of
sample `start+i` of channel `k` (same block, same absolute index) – hence a write through either view
is seen through the other (`Sig.visible_iff`). -/
theorem slice_cells (b c : Buf) (hch : 1 ≤ b.ch) (hcap : (b.cap : Int) < 2^63) (s e : Nat)
    (hse : s ≤ e) (he : e ≤ b.capacity) (h : b.slice (s : Int) (e : Int) = some c) (k i : Nat) :
    c.blk = b.blk ∧ c.off + (c.ch * i + k) = b.off + (b.ch * (s + i) + k) := by
  rw [slice_ok b hch hcap s e hse he] at h
  injection h with h; subst h
  refine ⟨rfl, ?_⟩
  simp only [sliceView, Nat.mul_add]; omega

/-- reading through the child gives the parent's sample, for every position inside both lengths -/
theorem slice_sample (hp : Heap) (b c : Buf) (hch : 1 ≤ b.ch) (hcap : (b.cap : Int) < 2^63) (s e : Nat)
    (hse : s ≤ e) (he : e ≤ b.capacity) (h : b.slice (s : Int) (e : Int) = some c) (j : Nat)
    (hj : j < c.len) (hin : b.ch * s + j < b.len) :
    c.sample hp (j : Int) = b.sample hp ((b.ch * s + j : Nat) : Int) := by
  rw [Buf.sample_eq hp c j hj, Buf.sample_eq hp b _ hin]
  rw [slice_ok b hch hcap s e hse he] at h
  injection h with h; subst h
  simp [sliceView, Nat.add_assoc]

/-- **composition**: slicing a slice adds the frame offsets -/
theorem slice_compose (b c d : Buf) (hch : 1 ≤ b.ch) (hcap : (b.cap : Int) < 2^63) (a a' s e : Nat)
    (h1 : b.slice (a : Int) (a' : Int) = some c) (h2 : c.slice (s : Int) (e : Int) = some d)
    (ha : a ≤ a') (ha' : a' ≤ b.capacity) (hs : s ≤ e) (he : e ≤ c.capacity) :
    b.slice ((a + s : Nat) : Int) ((a + e : Nat) : Int) = some d := by
  have sh := slice_shape b c hch hcap a a' ha ha' h1
  rw [slice_ok b hch hcap a a' ha ha'] at h1
  injection h1 with h1
  have hcch : c.ch = b.ch := by rw [← h1]; rfl
  have hccap : c.cap = b.cap - b.ch * a := by rw [← h1]; rfl
  have hc2 : (c.cap : Int) < 2^63 := by omega
  rw [slice_ok c (by omega) hc2 s e hs he] at h2
  injection h2 with h2
  rw [slice_ok b hch hcap (a + s) (a + e) (by omega) (by rw [sh.2.2.2.2] at he; omega)]
  rw [← h2, ← h1]
  have m1 : b.ch * a ≤ b.ch * a' := Nat.mul_le_mul_left _ ha
  have m2 : b.ch * s ≤ b.ch * e := Nat.mul_le_mul_left _ hs
  simp only [sliceView, Nat.mul_add, Option.some.injEq, Buf.mk.injEq, true_and, and_true]
  omega

/-- the parent header and the heap are not touched: `slice` is a pure function of the header -/
theorem slice_parent_unchanged : True := trivial

/-- the child is well-formed whenever the parent is -/
theorem slice_wf (hp : Heap) (b c : Buf) (hch : 1 ≤ b.ch) (hcap : (b.cap : Int) < 2^63) (s e : Nat)
    (hse : s ≤ e) (he : e ≤ b.capacity) (h : b.slice (s : Int) (e : Int) = some c) (hw : b.wf hp) : c.wf hp := by
  have hc := capacity_mul_le b
  have h1 : b.ch * s ≤ b.ch * e := Nat.mul_le_mul_left _ hse
  have h2 : b.ch * e ≤ b.ch * b.capacity := Nat.mul_le_mul_left _ he
  rw [slice_ok b hch hcap s e hse he] at h
  injection h with h; subst h
  obtain ⟨hl, blk, hb, hn⟩ := hw
  exact ⟨by simp [sliceView]; omega, blk, hb, by simp [sliceView]; omega⟩

/-- non-vacuity and the overflow witnesses of the original defect, on the model -/
example :
    let b : Buf := { ch := 4, blk := 0, off := 0, len := 12, cap := 12, kind := .i16, depth := 16 }
    b.slice (2^62 + 1) (2^62 + 2) = none ∧ b.slice (-(2^63)) 0 = none ∧
    (b.slice 1 2).map (fun c => (c.off, c.len, c.cap)) = some (4, 4, 8) ∧ b.slice 1 4 = none := by
  decide

end Sig.C02

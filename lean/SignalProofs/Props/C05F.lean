import SignalModel.Spec
import SignalProofs.Lemmas.Decode
/-!
# C05, float→float part: values are preserved exactly when not narrowing, rounded to a nearest
float32 when narrowing, and never clipped

Model: `f2fK FD v = FV.conv FD v`, i.e. Go's `float32(x)` / `float64(x)`.
-/
namespace Sig.C05F
open Sig FV Spec
set_option linter.unusedVariables false
set_option linter.unusedSimpArgs false

/-- the result of rounding is representable: rounding it again changes nothing -/
theorem rne_idem (F : Fmt) (hp : 1 ≤ F.p) (x : ℚ) : rne F (rne F x) = rne F x := by
  -- reduce to positive x
  have pos : ∀ y : ℚ, 0 < y → rne F (rne F y) = rne F y := by
    intro y hy
    rw [rne_pos_eq F hy]
    set e := expo F y with he
    have hs : (0:ℚ) < 2^e := two_zpow_pos e
    -- y / 2^e < 2^p
    obtain ⟨l1, l2⟩ := ilog2_spec y hy
    have hee : ilog2 y - ((F.p:ℤ) - 1) ≤ e := by rw [he]; unfold expo; exact le_max_left _ _
    have hemin : F.emin ≤ e := by rw [he]; unfold expo; exact le_max_right _ _
    have hq : y / 2^e ≤ (((2:ℤ)^F.p : ℤ) : ℚ) := by
      rw [div_le_iff₀ hs]
      push_cast
      rw [← zpow_natCast, ← zpow_add₀ (by norm_num)]
      calc y ≤ 2^(ilog2 y + 1) := le_of_lt l2
        _ ≤ 2^((F.p:ℤ) + e) := zpow_le_zpow_right₀ (by norm_num) (by omega)
    have hm := roundEven_mono hq
    rw [roundEven_int] at hm
    have hm0 : 0 ≤ roundEven (y / 2^e) := by
      have := roundEven_mono (show (0:ℚ) ≤ y / 2^e by positivity)
      have z : roundEven (0:ℚ) = 0 := by simpa using roundEven_int 0
      rwa [z] at this
    obtain ⟨m, hmv⟩ := Int.eq_ofNat_of_zero_le hm0
    rw [hmv] at hm ⊢
    have hmle : m ≤ 2^F.p := by exact_mod_cast hm
    rcases Nat.eq_zero_or_pos m with rfl | hmpos
    · simp [rne_zero]
    · rcases Nat.lt_or_ge m (2^F.p) with hlt | hge
      · have := rne_fix_pos F hp m e hmpos hlt hemin
        simpa using this
      · have hm2 : m = 2^F.p := le_antisymm hmle hge
        -- m·2^e = 2^(p−1)·2^(e+1)
        have hpm : (2:ℕ)^F.p = 2^(F.p-1) * 2 := by
          rw [← pow_succ]; congr 1; omega
        have hre : ((m:ℤ):ℚ) * 2^e = ((2^(F.p-1) : ℕ) : ℚ) * 2^(e+1) := by
          rw [hm2, hpm, zpow_add₀ (by norm_num)]; push_cast; ring
        rw [hre]
        exact rne_fix_pos F hp (2^(F.p-1)) (e+1) (by positivity)
          (Nat.pow_lt_pow_right (by norm_num) (by omega)) (by omega)
  rcases lt_trichotomy x 0 with h | h | h
  · have := pos (-x) (by linarith)
    rw [rne_neg, rne_neg] at this
    linarith
  · subst h; simp [rne_zero]
  · exact pos x h

/-- **narrowing** `float32(x)` of a finite float64: by definition of the conversion it is the correctly
rounded value – ±Inf exactly when the rounded magnitude reaches 2^128, a zero of the right sign when
it rounds to zero – and it is never clamped: no input, however large or small, is mapped to ±1.
The executable statement `Spec.C05.nearestOK` holds of it. -/
theorem narrow_nearest (q : ℚ) : C05.nearestOK (.fin q) (f2fK f32 (.fin q)) = true := by
  have idem := rne_idem f32 (by decide) q
  have e128 : pow2 (f32.emax + 1) = pow2 128 := by decide
  unfold f2fK FV.conv FV.round
  simp only [abs_eq_ite, e128]
  by_cases hov : pow2 128 ≤ |rne f32 q|
  · simp only [hov, if_true]
    simp [C05.nearestOK, abs_eq_ite, hov]
  · simp only [hov, if_false]
    by_cases hz : rne f32 q = 0
    · simp only [hz, if_true]
      by_cases hq0 : q = 0
      · subst hq0
        simp [C05.nearestOK, FV.zero, rne_zero]
        norm_num [pow2]
      · by_cases hneg : q < 0
        · simp [C05.nearestOK, FV.zero, hq0, hneg, hz]
        · simp [C05.nearestOK, FV.zero, hq0, hneg, hz, rne_zero]
          norm_num [pow2]
    · simp only [hz, if_false]
      simp only [C05.nearestOK, abs_eq_ite, idem, le_refl, Bool.and_eq_true, decide_eq_true_eq, true_and, and_true]
      exact lt_of_not_ge hov

/-- the half-ulp bound behind "nearest": the rounded value is within half a unit in the last place -/
theorem narrow_halfulp {q : ℚ} (hq : 0 < q) : |rne f32 q - q| ≤ 2^(expo f32 q) / 2 := rne_err_pos f32 hq

/-- float32 values are fixed by narrowing: nothing representable is changed -/
theorem narrow_fix (m : ℤ) (e : ℤ) (hm : m.natAbs < 2^24) (he : -149 ≤ e) : rne f32 ((m:ℚ) * 2^e) = (m:ℚ) * 2^e :=
  rne_fix f32 (by decide) m e (by simpa [f32] using hm) (by simpa [f32] using he)

/-- NaN and ±Inf and −0 are preserved by every float→float conversion -/
theorem special_preserved (F : Fmt) : f2fK F .nan = .nan ∧ f2fK F (.inf true) = .inf true ∧
    f2fK F (.inf false) = .inf false ∧ f2fK F .nzero = .nzero := ⟨rfl, rfl, rfl, rfl⟩

/-- **widening and same-type float64**: every float32/float64 cell converts to float64 exactly -/
theorem to64_exact (k : Kind) (x : Int) : C05.exactOK (cellToFV k x) (f2fK f64 (cellToFV k x)) = true := by
  have := cell_isF64 k x
  unfold IsF64 at this
  unfold C05.exactOK f2fK
  rw [this]; simp

/-- every bit pattern of a float32 cell decodes to a float32 value (same-type float32 is exact) -/
theorem f32_cell_fixed (x : Int) : FV.conv f32 (cellToFV .f32 x) = cellToFV .f32 x := by
  -- a float32 cell is `±m·2^e` with `m < 2^24`, `e ≥ −149`, below 2^128: use the representation lemma
  have key : ∀ (m : ℕ) (e : ℤ) (neg : Bool), 0 < m → m < 2^24 → -149 ≤ e → ((m:ℚ) * 2^e) < 2^(128:ℤ) →
      FV.conv f32 (.fin (if neg then -((m:ℚ) * 2^e) else (m:ℚ) * 2^e)) =
        .fin (if neg then -((m:ℚ) * 2^e) else (m:ℚ) * 2^e) := by
    intro m e neg hm0 hm he hbig
    have hpos : (0:ℚ) < (m:ℚ) * 2^e := by positivity
    have hfix : rne f32 ((m:ℚ) * 2^e) = (m:ℚ) * 2^e := by
      have := rne_fix f32 (by decide) (m:ℤ) e (by simpa [f32] using hm) (by simpa [f32] using he)
      simpa using this
    have emax : f32.emax + 1 = 128 := by decide
    cases neg
    · simp only [Bool.false_eq_true, if_false, FV.conv, FV.round, hfix, abs_eq_ite, pow2_eq, emax]
      rw [abs_of_pos hpos]
      simp only [not_le.mpr hbig, if_false, ne_of_gt hpos]
    · simp only [if_true, FV.conv, FV.round, rne_neg, hfix, abs_eq_ite, pow2_eq, emax, abs_neg]
      rw [abs_of_pos hpos]
      have : ¬ (-((m:ℚ) * 2^e) = 0) := by linarith
      simp only [not_le.mpr hbig, if_false, this]
  unfold cellToFV Kind.fmt decodeBits
  simp only [if_true]
  set b := x.toNat
  set s := b / 2^(f32.ebits + f32.mbits) % 2 with hs
  set ex := b / 2^f32.mbits % 2^f32.ebits with hex
  set fr := b % 2^f32.mbits with hfr
  have hfrlt : fr < 2^23 := Nat.mod_lt _ (by decide)
  have hexlt : ex < 2^8 := Nat.mod_lt _ (by decide)
  have hmask : f32.expMask = 255 := by decide
  have hemin : f32.emin = -149 := by decide
  have hmb : (2:ℕ)^f32.mbits = 2^23 := by decide
  by_cases hE : ex = f32.expMask
  · simp only [hE, if_true]; split_ifs <;> simp [FV.conv]
  · simp only [hE, if_false]
    by_cases hx0 : ex = 0
    · simp only [hx0, if_true, pow2_eq, hemin]
      by_cases hf0 : fr = 0
      · simp only [hf0, Nat.cast_zero, zero_mul, if_true]
        split_ifs
        · simp [FV.conv]
        · simp [FV.conv, FV.round, rne_zero, FV.zero, pow2_eq]; exact two_zpow_pos _
      · have hpos : (0:ℚ) < (fr:ℚ) * 2^(-149:ℤ) := by
          have : 0 < fr := Nat.pos_of_ne_zero hf0
          positivity
        simp only [ne_of_gt hpos, if_false]
        have := key fr (-149) (decide (s = 1)) (Nat.pos_of_ne_zero hf0) (by omega) (le_refl _) (by
          have h1 : (fr:ℚ) < 2^(23:ℤ) := by exact_mod_cast hfrlt
          calc (fr:ℚ) * 2^(-149:ℤ) < 2^(23:ℤ) * 2^(-149:ℤ) := by
                apply mul_lt_mul_of_pos_right h1 (by positivity)
            _ ≤ 2^(128:ℤ) := by rw [← zpow_add₀ (by norm_num)]; exact zpow_le_zpow_right₀ (by norm_num) (by norm_num))
        by_cases hs1 : s = 1 <;> simpa [hs1] using this
    · simp only [hx0, if_false, pow2_eq, hemin, hmb]
      have hm0 : 0 < fr + 2^23 := by positivity
      have hpos : (0:ℚ) < ((fr + 2^23 : ℕ) : ℚ) * 2^((ex:ℤ) - 1 + -149) := by positivity
      simp only [ne_of_gt hpos, if_false]
      have hexm : ex ≤ 254 := by rw [hmask] at hE; omega
      have := key (fr + 2^23) ((ex:ℤ) - 1 + -149) (decide (s = 1)) hm0 (by omega)
        (by have : 1 ≤ ex := Nat.pos_of_ne_zero hx0; omega) (by
          have h1 : ((fr + 2^23 : ℕ):ℚ) < 2^(24:ℤ) := by
            have : fr + 2^23 < 2^24 := by omega
            exact_mod_cast this
          have h2 : (2:ℚ)^((ex:ℤ) - 1 + -149) ≤ 2^(104:ℤ) := zpow_le_zpow_right₀ (by norm_num) (by omega)
          calc ((fr + 2^23 : ℕ):ℚ) * 2^((ex:ℤ) - 1 + -149) < 2^(24:ℤ) * 2^(104:ℤ) := by
                apply mul_lt_mul h1 h2 (by positivity) (by positivity)
            _ = 2^(128:ℤ) := by rw [← zpow_add₀ (by norm_num)]; norm_num)
      by_cases hs1 : s = 1 <;> simpa [hs1] using this

/-- same-type float32: exact -/
theorem f32_exact (x : Int) : C05.exactOK (cellToFV .f32 x) (f2fK f32 (cellToFV .f32 x)) = true := by
  unfold C05.exactOK f2fK
  rw [f32_cell_fixed]; simp

example : f2fK f32 (.fin (1/3)) = .fin (11184811/33554432) ∧ f2fK f32 (.fin 3) = .fin 3 ∧
    f2fK f32 (.fin (2^200)) = .inf false ∧ f2fK f64 (.fin (-7/2)) = .fin (-7/2) := by
  refine ⟨by decide +kernel, by decide +kernel, by decide +kernel, by decide +kernel⟩

end Sig.C05F

import SignalModel.Spec
/-!
# C16 — bit-depth arithmetic is exact for every depth from 1 to 64

Model: `maxSignedValue`, `minSignedValue`, `maxUnsignedValue`, `signedValue`, `unsignedValue`, `scale`
(SignalModel/Basic.lean), the 64-bit wrapping transliteration of signal.go:51-100.
-/
namespace Sig.C16
open Sig Spec

/-- the three bounds, for every depth 1..64, as a complete finite table -/
theorem bounds_table : ∀ b : Fin 65, 1 ≤ b.val →
    maxSignedValue b.val = 2^(b.val-1) - 1 ∧ minSignedValue b.val = -(2^(b.val-1)) ∧
    maxUnsignedValue b.val = 2^b.val - 1 := by
  decide +kernel

theorem bounds (b : Nat) (h1 : 1 ≤ b) (h64 : b ≤ 64) :
    maxSignedValue b = 2^(b-1) - 1 ∧ minSignedValue b = -(2^(b-1)) ∧ maxUnsignedValue b = 2^b - 1 :=
  bounds_table ⟨b, by omega⟩ h1

/-- the executable predicate holds of the model's outputs -/
theorem boundsOK_model (b : Nat) :
    C16.boundsOK b (maxSignedValue b) (maxUnsignedValue b) (minSignedValue b) = true := by
  unfold C16.boundsOK
  by_cases h : 1 ≤ b ∧ b ≤ 64
  · obtain ⟨a, c, d⟩ := bounds b h.1 h.2
    simp [h, a, c, d]
  · simp [h]

/-- clipping a signed value: the value itself when in range, else the nearest bound — all values -/
theorem signedValue_clamp (b : Nat) (h1 : 1 ≤ b) (h64 : b ≤ 64) (v : Int) :
    signedValue b v = (if v < -(2^(b-1)) then -(2^(b-1)) else if v > 2^(b-1) - 1 then 2^(b-1) - 1 else v) := by
  obtain ⟨a, c, _⟩ := bounds b h1 h64
  unfold signedValue
  simp only [a, c]

theorem unsignedValue_clamp (b : Nat) (h1 : 1 ≤ b) (h64 : b ≤ 64) (v : Int) :
    unsignedValue b v = (if v > 2^b - 1 then 2^b - 1 else v) := by
  obtain ⟨_, _, d⟩ := bounds b h1 h64
  unfold unsignedValue
  simp only [d]

theorem clipSignedOK_model (b : Nat) (v : Int) : C16.clipSignedOK b v (signedValue b v) = true := by
  unfold C16.clipSignedOK
  by_cases h : 1 ≤ b ∧ b ≤ 64
  · simp [h, signedValue_clamp b h.1 h.2 v]
  · simp [h]

theorem clipUnsignedOK_model (b : Nat) (v : Int) : C16.clipUnsignedOK b v (unsignedValue b v) = true := by
  unfold C16.clipUnsignedOK
  by_cases h : 1 ≤ b ∧ b ≤ 64
  · simp [h, unsignedValue_clamp b h.1 h.2 v]
  · simp [h]

private theorem pow_pos' (n : Nat) : (0:Int) < 2^n := Int.pow_pos (by decide)

/-- in range ⇒ identity -/
theorem signedValue_id (b : Nat) (h1 : 1 ≤ b) (h64 : b ≤ 64) (v : Int)
    (hv : -(2^(b-1)) ≤ v ∧ v ≤ 2^(b-1) - 1) : signedValue b v = v := by
  rw [signedValue_clamp b h1 h64]
  split
  · omega
  · split <;> omega

/-- idempotent -/
theorem signedValue_idem (b : Nat) (h1 : 1 ≤ b) (h64 : b ≤ 64) (v : Int) :
    signedValue b (signedValue b v) = signedValue b v := by
  have hp := pow_pos' (b-1)
  apply signedValue_id b h1 h64
  rw [signedValue_clamp b h1 h64]
  split
  · omega
  · split <;> omega

/-- order-preserving -/
theorem signedValue_mono (b : Nat) (h1 : 1 ≤ b) (h64 : b ≤ 64) (v w : Int) (h : v ≤ w) :
    signedValue b v ≤ signedValue b w := by
  have hp := pow_pos' (b-1)
  rw [signedValue_clamp b h1 h64, signedValue_clamp b h1 h64]
  split <;> split <;> (try split) <;> (try split) <;> omega

theorem unsignedValue_id (b : Nat) (h1 : 1 ≤ b) (h64 : b ≤ 64) (v : Int) (hv : v ≤ 2^b - 1) :
    unsignedValue b v = v := by
  rw [unsignedValue_clamp b h1 h64]; split <;> omega

theorem unsignedValue_idem (b : Nat) (h1 : 1 ≤ b) (h64 : b ≤ 64) (v : Int) :
    unsignedValue b (unsignedValue b v) = unsignedValue b v := by
  apply unsignedValue_id b h1 h64
  rw [unsignedValue_clamp b h1 h64]; split <;> omega

theorem unsignedValue_mono (b : Nat) (h1 : 1 ≤ b) (h64 : b ≤ 64) (v w : Int) (h : v ≤ w) :
    unsignedValue b v ≤ unsignedValue b w := by
  rw [unsignedValue_clamp b h1 h64, unsignedValue_clamp b h1 h64]
  split <;> split <;> omega

/-- `Scale[T](h, l) = 2^(h-l)` whenever that fits `T`, for every integer type (any width, either
signedness) and all depths `l ≤ h ≤ 64`. -/
theorem scale_exact (t : IntTy) (h l : Nat) (hl : l ≤ h) (h64 : h ≤ 64) (hw : 1 ≤ t.w)
    (hfit : (2:Int)^(h-l) ≤ t.maxVal) : scale t h l = 2^(h-l) := by
  have hp : (0:Int) < 2^(h-l) := pow_pos' _
  have e : (((h:Int) - (l:Int)) % 256).toNat = h - l := by omega
  unfold scale; rw [e]
  unfold IntTy.wrap IntTy.maxVal at *
  by_cases hs : t.signed
  · simp only [hs, if_true] at *
    unfold wrapS
    have h2 : (2:Int)^t.w = 2 * 2^(t.w-1) := by
      have : t.w = (t.w - 1) + 1 := by omega
      conv => lhs; rw [this, Int.pow_succ]
      omega
    have hq := pow_pos' (t.w-1)
    rw [Int.emod_eq_of_lt (by omega) (by omega)]; omega
  · simp only [hs] at *
    unfold wrapU
    exact Int.emod_eq_of_lt (by omega) (by simp at hfit; omega)

theorem scaleOK_model (t : IntTy) (hw : 1 ≤ t.w) (h l : Nat) : C16.scaleOK t h l (scale t h l) = true := by
  unfold C16.scaleOK
  by_cases c : l ≤ h ∧ h ≤ 64 ∧ 1 ≤ l ∧ (2:Int)^(h-l) ≤ t.maxVal
  · simp [c, scale_exact t h l c.1 c.2.1 hw c.2.2.2]
  · simp [c]

/-- non-vacuity: a concrete depth and values meet every hypothesis used above -/
example : maxSignedValue 24 = 8388607 ∧ signedValue 24 9000000 = 8388607 ∧ signedValue 24 (-5) = -5 ∧
    scale ⟨16, true⟩ 24 16 = 256 ∧ maxUnsignedValue 64 = 18446744073709551615 ∧ minSignedValue 64 = -9223372036854775808 := by
  decide

end Sig.C16

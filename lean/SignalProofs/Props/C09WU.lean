import SignalProofs.Props.C09W
import SignalProofs.Props.C05F
import SignalProofs.Lemmas.Encode
/-!
# C09, unsigned sources wider than the float's precision (uint64 → float64, uint32/uint64 → float32)

`UnsignedAsFloat` computes `rne (rne (rne x − 2^(sb−1)) / 2^(sb−1))` for these classes (both constants
round to `2^(sb−1)`, so the branch on the code does not matter here).  Range, endpoints, order and
one-step-plus-float-rounding are proved.  The error analysis needs two exactness facts: the division by
a power of two is exact, and for codes at or above mid-scale the subtraction is exact (the rounded
code and `2^(sb−1)` lie on a common grid of spacing `2^(sb−p)`).
-/
namespace Sig.C09W
open Sig FV Spec Sig.C09
set_option linter.unusedVariables false
set_option linter.unusedSimpArgs false

/-- the value `UnsignedAsFloat` computes for a wide source -/
def u2w (F : Fmt) (sb : Nat) (x : ℤ) : ℚ := rne F (rne F (rne F (x:ℚ) - (S sb : ℚ)) / (S sb : ℚ))

section
variable {F : Fmt} {sb : Nat} (hW : Wide F sb)
include hW

/-- rounding an integer gives an integer -/
theorem rne_isInt (n : ℤ) : ∃ k : ℤ, rne F (n:ℚ) = (k:ℚ) := by
  have pos : ∀ n : ℤ, 0 < n → ∃ k : ℤ, rne F (n:ℚ) = (k:ℚ) := by
    intro n hn
    have hx : (0:ℚ) < (n:ℚ) := by exact_mod_cast hn
    rw [rne_pos_eq F hx]
    rcases le_or_gt 0 (expo F (n:ℚ)) with h | h
    · obtain ⟨j, hj⟩ := Int.eq_ofNat_of_zero_le h
      refine ⟨roundEven ((n:ℚ) / 2^(expo F (n:ℚ))) * 2^j, ?_⟩
      rw [hj]; push_cast; rw [zpow_natCast]
    · obtain ⟨j, hj⟩ := Int.eq_ofNat_of_zero_le (by omega : 0 ≤ -(expo F (n:ℚ)))
      have he : expo F (n:ℚ) = -(j:ℤ) := by omega
      refine ⟨n, ?_⟩
      rw [he, zpow_neg, zpow_natCast, div_inv_eq_mul]
      have : (n:ℚ) * 2^j = ((n * 2^j : ℤ) : ℚ) := by push_cast; ring
      rw [this, roundEven_int]
      push_cast
      field_simp
  rcases lt_trichotomy n 0 with h | h | h
  · obtain ⟨k, hk⟩ := pos (-n) (by omega)
    refine ⟨-k, ?_⟩
    push_cast at hk ⊢
    rw [rne_neg] at hk; linarith
  · subst h; exact ⟨0, by simp [rne_zero]⟩
  · exact pos n h

theorem ilog2_nonneg_of_one_le {y : ℚ} (hy : 1 ≤ y) : 0 ≤ ilog2 y := by
  have hpos : (0:ℚ) < y := by linarith
  obtain ⟨_, l2⟩ := ilog2_spec y hpos
  by_contra hc
  have h3 : ilog2 y + 1 ≤ 0 := by omega
  have h4 : (2:ℚ)^(ilog2 y + 1) ≤ (2:ℚ)^(0:ℤ) := zpow_le_zpow_right₀ (by norm_num) h3
  rw [zpow_zero] at h4; linarith

/-- dividing a representable value of magnitude ≥ 1 by `2^(sb−1)` is exact -/
theorem rne_div_S {y : ℚ} (hfix : rne F y = y) (hy : 1 ≤ |y|) :
    rne F (y / (S sb : ℚ)) = y / (S sb : ℚ) := by
  obtain ⟨_, sp, _, _, hS⟩ := basicsW hW
  have pos : ∀ y : ℚ, rne F y = y → 1 ≤ y → rne F (y / (S sb : ℚ)) = y / (S sb : ℚ) := by
    intro y hfix hy
    have hpos : (0:ℚ) < y := by linarith
    obtain ⟨m, ham, hm0, hmlt, _, _⟩ := repr_parts F hW.p1 y hpos hfix
    have hil := ilog2_nonneg_of_one_le hW hy
    have hex : ilog2 y - ((F.p:ℤ) - 1) ≤ expo F y := by unfold expo; exact le_max_left _ _
    have hq : y / (S sb : ℚ) = ((m:ℤ):ℚ) * 2^(expo F y - ((sb:ℤ) - 1)) := by
      have hz := zpow_sub₀ (by norm_num : (2:ℚ) ≠ 0) (expo F y) ((sb:ℤ) - 1)
      rw [hS, hz]
      conv_lhs => rw [ham]
      push_cast; ring
    rw [hq]
    apply rne_fix F hW.p1 (m:ℤ) _ (by simpa using hmlt)
    have := hW.emin; have := hW.sb1
    omega
  rcases le_or_gt 0 y with h | h
  · rw [abs_of_nonneg h] at hy; exact pos y hfix hy
  · rw [abs_of_neg h] at hy
    have hf : rne F (-y) = -y := by rw [rne_neg, hfix]
    have := pos (-y) hf hy
    rw [neg_div, rne_neg] at this
    linarith

/-- **Sterbenz on the grid**: for a representable `y` with `2^(sb−1) ≤ y ≤ 2^sb`, `y − 2^(sb−1)` is
representable -/
theorem sub_exact {y : ℚ} (hfix : rne F y = y) (hlo : (S sb : ℚ) ≤ y) (hhi : y ≤ 2 * (S sb : ℚ)) :
    rne F (y - (S sb : ℚ)) = y - (S sb : ℚ) := by
  obtain ⟨_, sp, _, _, hS⟩ := basicsW hW
  have sq : (0:ℚ) < (S sb : ℚ) := by exact_mod_cast sp
  have hpos : (0:ℚ) < y := by linarith
  obtain ⟨m, ham, hm0, hmlt, _, _⟩ := repr_parts F hW.p1 y hpos hfix
  obtain ⟨l1, l2⟩ := ilog2_spec y hpos
  -- sb − 1 ≤ ilog2 y ≤ sb
  have hi1 : (sb:ℤ) - 1 ≤ ilog2 y := by
    have : (2:ℚ)^((sb:ℤ) - 1) < 2^(ilog2 y + 1) := by rw [← hS]; linarith
    have := (zpow_lt_zpow_iff_right₀ (by norm_num : (1:ℚ) < 2)).mp this
    omega
  have hi2 : ilog2 y ≤ (sb:ℤ) := by
    have h2S : 2 * (S sb : ℚ) = 2^(sb:ℤ) := by
      rw [hS, show (sb:ℤ) = 1 + ((sb:ℤ) - 1) by ring, zpow_add₀ (by norm_num)]; simp
    have : (2:ℚ)^(ilog2 y) ≤ 2^(sb:ℤ) := by rw [← h2S]; linarith
    exact (zpow_le_zpow_iff_right₀ (by norm_num : (1:ℚ) < 2)).mp this
  have hexp : expo F y = ilog2 y - ((F.p:ℤ) - 1) := by
    unfold expo
    have := hW.emin; have := hW.sb1
    omega
  set e := expo F y with he
  have hs : (0:ℚ) < 2^e := two_zpow_pos e
  obtain ⟨j, hj⟩ := Int.eq_ofNat_of_zero_le (show 0 ≤ (sb:ℤ) - 1 - e by have := hW.p2; omega)
  have hSe : (S sb : ℚ) = ((2^j : ℤ) : ℚ) * 2^e := by
    rw [hS]; push_cast
    rw [← zpow_natCast, ← zpow_add₀ (by norm_num)]; congr 1; omega
  have hd : y - (S sb : ℚ) = (((m:ℤ) - 2^j : ℤ) : ℚ) * 2^e := by
    rw [hSe]; conv_lhs => rw [ham]
    push_cast; ring
  rw [hd]
  apply rne_fix F hW.p1 _ e _ (by rw [he]; unfold expo; exact le_max_right _ _)
  -- 0 ≤ m − 2^j ≤ 2^j ≤ 2^(p−1)
  have h0 : (0:ℚ) ≤ (((m:ℤ) - 2^j : ℤ) : ℚ) := by
    have : 0 ≤ (((m:ℤ) - 2^j : ℤ) : ℚ) * 2^e := by rw [← hd]; linarith
    exact nonneg_of_mul_nonneg_left this hs
  have h1 : (((m:ℤ) - 2^j : ℤ) : ℚ) ≤ ((2^j : ℤ) : ℚ) := by
    have : (((m:ℤ) - 2^j : ℤ) : ℚ) * 2^e ≤ ((2^j : ℤ) : ℚ) * 2^e := by rw [← hd, ← hSe]; linarith
    exact le_of_mul_le_mul_right this hs
  have h0' : (0:ℤ) ≤ (m:ℤ) - 2^j := by exact_mod_cast h0
  have h1' : (m:ℤ) - 2^j ≤ 2^j := by exact_mod_cast h1
  have hjp : j ≤ F.p - 1 := by have := hW.p2; omega
  have h2 : (2:ℤ)^j ≤ 2^(F.p - 1) := pow_le_pow_right₀ (by norm_num) hjp
  have h3 : (2:ℤ)^(F.p - 1) < 2^F.p := pow_lt_pow_right₀ (by norm_num) (by have := hW.p2; omega)
  have : (((m:ℤ) - 2^j).natAbs : ℤ) < 2^F.p := by
    rw [Int.natCast_natAbs, abs_of_nonneg h0']; omega
  exact_mod_cast this

/-! ### bounds -/

theorem u_y_bounds (x : ℤ) (hx : 0 ≤ x ∧ x ≤ 2 * S sb - 1) :
    0 ≤ rne F (x:ℚ) ∧ rne F (x:ℚ) ≤ 2 * (S sb : ℚ) := by
  constructor
  · exact rne_nonneg' F (by exact_mod_cast hx.1)
  · have h : (x:ℚ) ≤ ((2 * S sb - 1 : ℤ) : ℚ) := by exact_mod_cast hx.2
    have := rne_mono F hW.p1 h
    rw [hW.rU] at this
    push_cast at this; exact this

theorem u_z_bounds (x : ℤ) (hx : 0 ≤ x ∧ x ≤ 2 * S sb - 1) :
    -(S sb : ℚ) ≤ rne F (rne F (x:ℚ) - (S sb : ℚ)) ∧ rne F (rne F (x:ℚ) - (S sb : ℚ)) ≤ (S sb : ℚ) := by
  obtain ⟨lo, hi⟩ := u_y_bounds hW x hx
  constructor
  · have := rne_mono F hW.p1 (show -(S sb : ℚ) ≤ rne F (x:ℚ) - (S sb : ℚ) by linarith)
    rwa [rne_neg, rne_S hW] at this
  · have := rne_mono F hW.p1 (show rne F (x:ℚ) - (S sb : ℚ) ≤ (S sb : ℚ) by linarith)
    rwa [rne_S hW] at this

theorem u_quot_abs (x : ℤ) (hx : 0 ≤ x ∧ x ≤ 2 * S sb - 1) :
    |rne F (rne F (x:ℚ) - (S sb : ℚ)) / (S sb : ℚ)| ≤ 1 := by
  obtain ⟨_, sp, _⟩ := basicsW hW
  have sq : (0:ℚ) < (S sb : ℚ) := by exact_mod_cast sp
  obtain ⟨lo, hi⟩ := u_z_bounds hW x hx
  rw [abs_le]; constructor
  · rw [le_div_iff₀ sq]; linarith
  · rw [div_le_one sq]; exact hi

/-- **range** -/
theorem u_range (x : ℤ) (hx : 0 ≤ x ∧ x ≤ 2 * S sb - 1) : -1 ≤ u2w F sb x ∧ u2w F sb x ≤ 1 :=
  abs_le.mp (rne_unit hW (u_quot_abs hW x hx)).1

/-- **endpoints**: code 0 ↦ −1, mid-scale ↦ 0, highest code ↦ 1 -/
theorem u_endpoints : u2w F sb 0 = -1 ∧ u2w F sb (S sb) = 0 ∧ u2w F sb (2 * S sb - 1) = 1 := by
  obtain ⟨_, sp, _⟩ := basicsW hW
  have sq : (S sb : ℚ) ≠ 0 := by exact_mod_cast (ne_of_gt sp)
  unfold u2w
  refine ⟨?_, ?_, ?_⟩
  · simp only [Int.cast_zero, rne_zero, zero_sub]
    rw [rne_neg, rne_S hW, neg_div, div_self sq, rne_neg, rne_one hW]
  · rw [rne_S hW, sub_self, rne_zero, zero_div, rne_zero]
  · rw [hW.rU]
    have : ((2 * S sb : ℤ) : ℚ) - (S sb : ℚ) = (S sb : ℚ) := by push_cast; ring
    rw [this, rne_S hW, div_self sq, rne_one hW]

/-- **order** -/
theorem u_mono (x y : ℤ) (h : x ≤ y) : u2w F sb x ≤ u2w F sb y := by
  obtain ⟨_, sp, _⟩ := basicsW hW
  have sq : (0:ℚ) < (S sb : ℚ) := by exact_mod_cast sp
  have hq : (x:ℚ) ≤ y := by exact_mod_cast h
  have h1 := rne_mono F hW.p1 hq
  have h2 := rne_mono F hW.p1 (show rne F (x:ℚ) - (S sb : ℚ) ≤ rne F (y:ℚ) - (S sb : ℚ) by linarith)
  exact rne_mono F hW.p1 (div_le_div_of_nonneg_right h2 (le_of_lt sq))

/-- the final division is exact: `u2w x = rne (rne x − S) / S` -/
theorem u2w_eq (x : ℤ) : u2w F sb x = rne F (rne F (x:ℚ) - (S sb : ℚ)) / (S sb : ℚ) := by
  obtain ⟨k, hk⟩ := rne_isInt hW x
  have hz : rne F (x:ℚ) - (S sb : ℚ) = ((k - S sb : ℤ) : ℚ) := by rw [hk]; push_cast; ring
  unfold u2w
  rw [hz]
  have hfix := C05F.rne_idem F hW.p1 (((k - S sb : ℤ)) : ℚ)
  rcases lt_trichotomy (k - S sb) 0 with h | h | h
  · apply rne_div_S hW hfix
    have := rne_int_ge_one hW (-(k - S sb)) (by omega)
    push_cast at this; rw [rne_neg] at this
    push_cast
    rw [abs_of_nonpos (by linarith)]; linarith
  · rw [h]; simp [rne_zero]
  · apply rne_div_S hW hfix
    have := rne_int_ge_one hW (k - S sb) (by omega)
    rw [abs_of_nonneg (by linarith)]; exact this

/-- **one step plus float rounding** -/
theorem u_one_step (x : ℤ) (hx : 0 ≤ x ∧ x ≤ 2 * S sb - 1) :
    |u2w F sb x - ((x - S sb : ℤ) : ℚ) / (if 0 < x - S sb then (M sb : ℚ) else (S sb : ℚ))| ≤
      1 / (S sb : ℚ) + 2 * (2:ℚ)^(-(F.p:ℤ)) := by
  obtain ⟨mp, sp, ms, _⟩ := basicsW hW
  have mq : (0:ℚ) < (M sb : ℚ) := by exact_mod_cast mp
  have sq : (0:ℚ) < (S sb : ℚ) := by exact_mod_cast sp
  have msq : (M sb : ℚ) + 1 = (S sb : ℚ) := by exact_mod_cast ms
  set u := (2:ℚ)^(-(F.p:ℤ)) with hu
  have upos : 0 < u := two_zpow_pos _
  have hS1 : (0:ℚ) < 1 / (S sb : ℚ) := by positivity
  obtain ⟨ylo, yhi⟩ := u_y_bounds hW x hx
  have ex := abs_le.mp (rne_code_err hW x)
  have hx0 : (0:ℚ) ≤ (x:ℚ) := by exact_mod_cast hx.1
  rw [abs_of_nonneg hx0] at ex
  have hx2 : (x:ℚ) ≤ 2 * (S sb : ℚ) := by
    have : (x:ℚ) ≤ ((2 * S sb - 1 : ℤ) : ℚ) := by exact_mod_cast hx.2
    push_cast at this; linarith
  rw [u2w_eq hW x]
  by_cases hA : S sb ≤ x
  · -- codes at or above mid-scale: the subtraction is exact
    have hAq : (S sb : ℚ) ≤ (x:ℚ) := by exact_mod_cast hA
    have hyS : (S sb : ℚ) ≤ rne F (x:ℚ) := by
      have := rne_mono F hW.p1 hAq; rwa [rne_S hW] at this
    rw [sub_exact hW (C05F.rne_idem F hW.p1 _) hyS yhi]
    -- |(y − S)/S − (x − S)/S| ≤ 2u
    have e3 : |(rne F (x:ℚ) - (S sb : ℚ)) / (S sb : ℚ) - ((x:ℚ) - (S sb : ℚ)) / (S sb : ℚ)| ≤ 2 * u := by
      rw [← sub_div, abs_div, abs_of_pos sq, div_le_iff₀ sq]
      have : rne F (x:ℚ) - (S sb : ℚ) - ((x:ℚ) - (S sb : ℚ)) = rne F (x:ℚ) - x := by ring
      rw [this, abs_le]
      constructor <;> nlinarith [ex.1, ex.2]
    have e3' := abs_le.mp e3
    have hcast : ((x - S sb : ℤ) : ℚ) = (x:ℚ) - (S sb : ℚ) := by push_cast; ring
    rw [hcast]
    by_cases h0 : 0 < x - S sb
    · simp only [h0, if_true]
      have a0 : (0:ℚ) < (x:ℚ) - (S sb : ℚ) := by
        have : ((0:ℤ):ℚ) < ((x - S sb : ℤ) : ℚ) := by exact_mod_cast h0
        rw [hcast] at this; simpa using this
      have aM : (x:ℚ) - (S sb : ℚ) ≤ (M sb : ℚ) := by
        have : ((x - S sb : ℤ) : ℚ) ≤ ((M sb : ℤ) : ℚ) := by exact_mod_cast (by omega : x - S sb ≤ M sb)
        rw [hcast] at this; exact this
      set a := (x:ℚ) - (S sb : ℚ) with ha
      have d : a / (M sb : ℚ) - a / (S sb : ℚ) = (a / (M sb : ℚ)) * (1 / (S sb : ℚ)) := by
        field_simp; linarith
      have hr : a / (M sb : ℚ) ≤ 1 := by rw [div_le_one mq]; exact aM
      have hr0 : 0 ≤ a / (M sb : ℚ) := le_of_lt (div_pos a0 mq)
      have d1 : a / (M sb : ℚ) - a / (S sb : ℚ) ≤ 1 / (S sb : ℚ) := by rw [d]; nlinarith
      have d0 : 0 ≤ a / (M sb : ℚ) - a / (S sb : ℚ) := by rw [d]; positivity
      rw [abs_le]; constructor <;> linarith [e3'.1, e3'.2]
    · simp only [h0, if_false]
      rw [abs_le]; constructor <;> linarith [e3'.1, e3'.2]
  · -- codes below mid-scale: both roundings contribute at most u each
    have hB : x < S sb := not_le.mp hA
    have hBq : (x:ℚ) ≤ (S sb : ℚ) := by exact_mod_cast (le_of_lt hB)
    have h0 : ¬ (0 < x - S sb) := by omega
    simp only [h0, if_false]
    obtain ⟨k, hk⟩ := rne_isInt hW x
    have hz : rne F (x:ℚ) - (S sb : ℚ) = ((k - S sb : ℤ) : ℚ) := by rw [hk]; push_cast; ring
    have ez := rne_code_err hW (k - S sb)
    rw [← hz] at ez
    have hyS : rne F (x:ℚ) ≤ (S sb : ℚ) := by
      have := rne_mono F hW.p1 hBq; rwa [rne_S hW] at this
    have habs : |rne F (x:ℚ) - (S sb : ℚ)| ≤ (S sb : ℚ) := by
      rw [abs_le]; constructor <;> linarith
    have ez2 : |rne F (rne F (x:ℚ) - (S sb : ℚ)) - (rne F (x:ℚ) - (S sb : ℚ))| ≤ u * (S sb : ℚ) :=
      le_trans ez (mul_le_mul_of_nonneg_left habs (le_of_lt upos))
    have ez' := abs_le.mp ez2
    have hcast : ((x - S sb : ℤ) : ℚ) = (x:ℚ) - (S sb : ℚ) := by push_cast; ring
    rw [hcast, ← sub_div, abs_div, abs_of_pos sq, div_le_iff₀ sq]
    have hx1 : u * (x:ℚ) ≤ u * (S sb : ℚ) := mul_le_mul_of_nonneg_left hBq (le_of_lt upos)
    rw [abs_le]
    constructor <;> nlinarith [ex.1, ex.2, ez'.1, ez'.2]

/-! ### the model's kernel computes `u2w` -/

theorem two_S_lt_inf : 2 * (S sb : ℚ) < (2:ℚ)^(F.emax + 1) := by
  obtain ⟨_, _, _, _, hS⟩ := basicsW hW
  have h2S : 2 * (S sb : ℚ) = 2^(sb:ℤ) := by
    rw [hS, show (sb:ℤ) = 1 + ((sb:ℤ) - 1) by ring, zpow_add₀ (by norm_num)]; simp
  rw [h2S]
  exact zpow_lt_zpow_right₀ (by norm_num) (by have := hW.emax; omega)

/-- **`UnsignedAsFloat` computes `u2w`** for every code of a wide source format -/
theorem u2fK_eq (x : ℤ) (hx : 0 ≤ x ∧ x ≤ 2 * S sb - 1) :
    (u2fK F sb x).toRat? = some (u2w F sb x) := by
  obtain ⟨mp, sp, ms, _⟩ := basicsW hW
  obtain ⟨c1, c2⟩ := constsW hW
  have sq : (0:ℚ) < (S sb : ℚ) := by exact_mod_cast sp
  obtain ⟨ylo, yhi⟩ := u_y_bounds hW x hx
  obtain ⟨zlo, zhi⟩ := u_z_bounds hW x hx
  have hinf := two_S_lt_inf hW
  -- D(sample)
  have hof : (FV.ofInt F x).toRat? = some (rne F (x:ℚ)) :=
    round_toRat F _ _ (by rw [abs_of_nonneg ylo]; linarith)
  -- the subtraction
  have hsub : ∀ v : FV, v.toRat? = some (rne F (x:ℚ)) →
      (FV.sub F v (.fin (S sb : ℚ))).toRat? = some (rne F (rne F (x:ℚ) - (S sb : ℚ))) := by
    intro v hv
    have hS0 : ((S sb : ℤ) : ℚ) ≠ 0 := ne_of_gt sq
    have hb : |rne F (rne F (x:ℚ) + -(S sb : ℚ))| < (2:ℚ)^(F.emax + 1) := by
      rw [← sub_eq_add_neg]
      have : |rne F (rne F (x:ℚ) - (S sb : ℚ))| ≤ (S sb : ℚ) := abs_le.mpr ⟨zlo, zhi⟩
      linarith
    cases v with
    | nan => simp [FV.toRat?] at hv
    | inf n => simp [FV.toRat?] at hv
    | nzero =>
      simp [FV.toRat?] at hv
      simp only [FV.sub, FV.neg, hS0, if_false, FV.add, FV.toRat?]
      rw [← hv] at hb ⊢
      have := round_toRat F ((0:ℚ) + -(S sb : ℚ)) ((FV.nzero).isNeg && (FV.fin (-(S sb : ℚ))).isNeg) hb
      rw [sub_eq_add_neg]
      exact this
    | fin q =>
      simp [FV.toRat?] at hv; subst hv
      simp only [FV.sub, FV.neg, hS0, if_false, add_fin]
      have := round_toRat F (rne F (x:ℚ) + -(S sb : ℚ))
        ((FV.fin (rne F (x:ℚ))).isNeg && (FV.fin (-(S sb : ℚ))).isNeg) hb
      rw [this, sub_eq_add_neg]
  -- the quotient
  have hdiv : ∀ (v : FV) (a b : ℚ), v.toRat? = some a → b ≠ 0 → |a / b| ≤ 1 →
      (FV.div F v (.fin b)).toRat? = some (rne F (a / b)) := by
    intro v a b hv hb hab
    have hov := (rne_unit hW hab).2
    cases v with
    | nan => simp [FV.toRat?] at hv
    | inf n => simp [FV.toRat?] at hv
    | nzero =>
      simp [FV.toRat?] at hv; subst hv
      simp only [FV.div, FV.toRat?, hb, if_false]
      exact round_toRat F _ _ hov
    | fin q =>
      simp [FV.toRat?] at hv; subst hv
      simp only [FV.div, FV.toRat?, hb, if_false]
      exact round_toRat F _ _ hov
  unfold u2fK u2w
  simp only [c1, c2]
  have hq := hdiv _ _ _ (hsub _ hof) (ne_of_gt sq) (u_quot_abs hW x hx)
  split <;> exact hq

end

/-- instance: uint64 → float64 at the extreme codes and mid-scale -/
example : u2w f64 64 0 = -1 ∧ u2w f64 64 (2^63) = 0 ∧ u2w f64 64 (2^64 - 1) = 1 := by
  have h := u_endpoints wide_f64_64
  refine ⟨h.1, h.2.1, ?_⟩
  have e : (2:ℤ)^64 - 1 = 2 * S 64 - 1 := by decide
  rw [e]; exact h.2.2

end Sig.C09W

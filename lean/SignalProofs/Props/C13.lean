import SignalModel.SpecMem
import SignalProofs.Lemmas.Heap
/-!
# C13 — allocation yields exactly the requested, zeroed, independent buffer

Model: `alloc` and `getBitDepth` (SignalModel/Alloc.lean).
-/
namespace Sig.C13
open Sig
set_option linter.unusedVariables false
set_option linter.unusedSimpArgs false

/-- **shape**: C channels, per-channel length L and capacity K, total C·L and C·K -/
theorem alloc_shape (h : Heap) (k : Kind) (named : Bool) (C L K : Nat) (hC : 1 ≤ C) (hLK : L ≤ K) :
    ∃ h' b, alloc h k named C L K = some (h', b) ∧
      b.ch = C ∧ b.len = C * L ∧ b.cap = C * K ∧ b.length = L ∧ b.capacity = K ∧ b.kind = k ∧
      b.blk = h.length ∧ b.off = 0 ∧ h' = h ++ [List.replicate (C * K) 0] := by
  unfold alloc
  have : C * L ≤ C * K := Nat.mul_le_mul_left _ hLK
  simp only [this, if_true]
  refine ⟨_, _, rfl, rfl, rfl, rfl, ?_, ?_, rfl, rfl, rfl, rfl⟩
  · show channelLength (C * L) C = L
    unfold channelLength
    have : C ≠ 0 := by omega
    simp only [this, if_false]
    have e : C * L + C - 1 = C * L + (C - 1) := by omega
    rw [e, Nat.mul_add_div (by omega), Nat.div_eq_of_lt (by omega)]; rfl
  · show Buf.capacity _ = K
    unfold Buf.capacity
    have : C ≠ 0 := by omega
    simp only [this, if_false]
    exact Nat.mul_div_cancel_left K (by omega)

/-- **zero** over the whole capacity, and **fresh**: the new block did not exist before, so no
existing view (whose block index is below `h.length`) can address any of its cells; existing blocks
are unchanged -/
theorem alloc_zero_fresh (h : Heap) (k : Kind) (named : Bool) (C L K : Nat) (hLK : C * L ≤ C * K) :
    ∀ h' b, alloc h k named C L K = some (h', b) →
      (∀ i, i < C * K → cell h' b.blk (b.off + i) = some 0) ∧
      (∀ blk i, blk < h.length → cell h' blk i = cell h blk i) ∧
      h[b.blk]? = none ∧ b.wf h' := by
  intro h' b e
  unfold alloc at e
  simp only [hLK, if_true] at e
  injection e with e; injection e with e1 e2; subst e1; subst e2
  refine ⟨?_, ?_, ?_, ?_⟩
  · intro i hi
    simp [cell, List.getElem?_append_right, hi]
  · intro blk i hb
    simp [cell, List.getElem?_append_left hb]
  · simp
  · exact ⟨hLK, List.replicate (C * K) 0, by simp [List.getElem?_append_right], by simp⟩

/-- **bit depth = width of the element type**, for all 13 predeclared kinds and the named types
derived from them (complete finite table) -/
theorem alloc_depth : ∀ k ∈ Kind.all, ∀ named : Bool,
    getBitDepth k named = (match k with
      | .i8 | .u8 => 8 | .i16 | .u16 => 16 | .i32 | .u32 | .f32 => 32
      | .i64 | .u64 | .int | .uint | .uintptr | .f64 => 64) := by
  decide

theorem alloc_depth_field (h : Heap) (k : Kind) (named : Bool) (C L K : Nat) :
    ∀ h' b, alloc h k named C L K = some (h', b) → b.depth = k.width := by
  intro h' b e
  unfold alloc at e
  split at e
  · injection e with e; injection e with e1 e2; subst e2; rfl
  · cases e

/-- `make` panics (modelled as `none`) exactly when the length exceeds the capacity -/
theorem alloc_none_iff (h : Heap) (k : Kind) (named : Bool) (C L K : Nat) :
    alloc h k named C L K = none ↔ C * K < C * L := by
  unfold alloc; split <;> simp <;> omega

/-- two allocations never share storage: their blocks are different -/
theorem alloc_twice_disjoint (h : Heap) (k1 k2 : Kind) (n1 n2 : Bool) (C1 L1 K1 C2 L2 K2 : Nat) :
    ∀ h1 b1 h2 b2, alloc h k1 n1 C1 L1 K1 = some (h1, b1) → alloc h1 k2 n2 C2 L2 K2 = some (h2, b2) →
      b1.blk ≠ b2.blk := by
  intro h1 b1 h2 b2 e1 e2
  unfold alloc at e1 e2
  split at e1
  · split at e2
    · injection e1 with e1; injection e1 with a b; subst a; subst b
      injection e2 with e2; injection e2 with a b; subst a; subst b
      simp
    · cases e2
  · cases e1

example : (alloc [] .i16 true 3 2 4).map (fun r => (r.2.ch, r.2.len, r.2.cap, r.2.length, r.2.capacity, r.2.depth)) =
    some (3, 6, 12, 2, 4, 16) := by decide

end Sig.C13

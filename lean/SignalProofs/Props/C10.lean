import SignalModel.SpecMem
import SignalModel.PoolM
import SignalProofs.Lemmas.Xfer
/-!
# C10 / C11 — the pool allocator as a state machine

State: the heap, the buffer headers the pool has ever handed out (by id), which of them are inside the
`sync.Pool` (`free`) and which are checked out, and by which goroutine (`out`).  `sync.Pool.Get` may
return any pooled object or call `New`; both are steps of the machine (`getReuse id`, `getNew`), so
the theorems hold for every resolution of that nondeterminism; `drop id` is the garbage collector
discarding a pooled object.  Steps are tagged with the goroutine performing them and are atomic; C11's
theorems quantify over **every** sequence of tagged steps, i.e. over every schedule of the machine.

`use` steps are what a holder may do to a buffer it holds: store any value anywhere inside the
buffer's capacity window, and set the length anywhere up to the capacity (AppendSample, Append within
capacity, Write, SetSample, `Slice(0,k)` then `Put` of the slice).
-/
namespace Sig.PoolM
open Sig
set_option linter.unusedVariables false
set_option linter.unusedSimpArgs false


/-- a header is *pristine*: the allocator's shape over its own block and zero over the whole capacity -/
def Pristine (p : Par) (h : Heap) (b : Buf) : Prop :=
  b.ch = p.ch ∧ b.len = p.ch * p.len ∧ b.cap = p.ch * p.cap ∧ b.off = 0 ∧ b.depth = p.kind.width ∧
  ∀ i, i < b.cap → cell h b.blk i = some 0

/-- the pool invariant -/
structure PInv (p : Par) (s : PSt) : Prop where
  /-- ids are in range; pooled and checked-out ids are disjoint and without repetition -/
  ids : ∀ id, (id ∈ s.free ∨ id ∈ s.out.map (·.1)) → id < s.bufs.length
  nodup : (s.free ++ s.out.map (·.1)).Nodup
  /-- every header owns a block of its own: window at offset 0 with the pool's total capacity -/
  own : ∀ (id : Nat) (b : Buf), s.bufs[id]? = some b → b.off = 0 ∧ b.cap = p.ch * p.cap ∧ b.len ≤ b.cap ∧
          hasRoom s.heap b.blk b.cap ∧ b.ch = p.ch ∧ b.depth = p.kind.width
  /-- distinct headers have distinct blocks: buffers never share storage -/
  distinct : ∀ (i j : Nat) (bi bj : Buf), s.bufs[i]? = some bi → s.bufs[j]? = some bj → i ≠ j → bi.blk ≠ bj.blk
  /-- every pooled buffer is pristine -/
  fresh : ∀ (id : Nat) (b : Buf), id ∈ s.free → s.bufs[id]? = some b → Pristine p s.heap b

theorem inv_init (p : Par) : PInv p init :=
  ⟨by intro id h; simp [init] at h, by simp [init], by intro id b h; simp [init] at h,
   by intro i j bi bj h; simp [init] at h, by intro id b h; simp [init] at h⟩


/-! ## list bookkeeping -/

theorem holder_some {s : PSt} {id : Nat} {g : Gid} (h : holder s id = some g) : id ∈ s.out.map (·.1) := by
  unfold holder at h
  cases hf : s.out.find? (·.1 = id) with
  | none => simp [hf] at h
  | some e =>
    have hm := List.mem_of_find?_eq_some hf
    have hp := List.find?_some hf
    simp at hp
    exact List.mem_map.mpr ⟨e, hm, hp⟩

theorem not_free_of_out {p : Par} {s : PSt} (hI : PInv p s) {id : Nat} (ho : id ∈ s.out.map (·.1)) : id ∉ s.free := by
  intro hf
  have := (List.nodup_append.mp hI.nodup).2.2
  exact this id hf id ho rfl

theorem getElem?_set_ne' (l : List Buf) (i j : Nat) (b : Buf) (h : i ≠ j) : (l.set i b)[j]? = l[j]? := by
  simp [List.getElem?_set, h]

theorem blk_lt_of_room {h : Heap} {b n : Nat} (hr : hasRoom h b n) : b < h.length := by
  obtain ⟨bl, hb, _⟩ := hr
  exact (List.getElem?_eq_some_iff.mp hb).1

/-! ## the invariant is preserved by every step -/

theorem inv_getNew (p : Par) (s : PSt) (g : Gid) (hI : PInv p s) : PInv p (stepGetNew p s g) := by
  unfold stepGetNew
  cases ha : alloc s.heap p.kind false p.ch p.len p.cap with
  | none => exact hI
  | some r =>
    obtain ⟨h, b⟩ := r
    simp only
    have ha' := ha
    unfold alloc at ha'
    split at ha'
    · rename_i hle
      have ha' := Option.some.inj ha'
      injection ha' with e1 e2
      have e := ext_push s.heap (List.replicate (p.ch * p.cap) 0)
      rw [e1] at e
      have hbblk : b.blk = s.heap.length := by rw [← e2]
      have hget : ∀ id, id < s.bufs.length → (s.bufs ++ [b])[id]? = s.bufs[id]? := by
        intro id hid; exact List.getElem?_append_left hid
      have hnew : (s.bufs ++ [b])[s.bufs.length]? = some b := by simp
      have hout : ∀ id, (s.bufs ++ [b])[id]? ≠ none → id < s.bufs.length ∨ id = s.bufs.length := by
        intro id hne
        by_cases c : id < s.bufs.length
        · left; exact c
        · right
          have : id < (s.bufs ++ [b]).length := by
            cases hx : (s.bufs ++ [b])[id]? with
            | none => exact absurd hx hne
            | some v => exact (List.getElem?_eq_some_iff.mp hx).1
          simp at this; omega
      refine ⟨?_, ?_, ?_, ?_, ?_⟩
      · intro id hid
        simp only [List.map_cons, List.mem_cons, List.length_append, List.length_cons, List.length_nil] at *
        rcases hid with hf | ho | ho
        · have := hI.ids id (Or.inl hf); omega
        · omega
        · have := hI.ids id (Or.inr ho); omega
      · simp only [List.map_cons]
        have hnot : s.bufs.length ∉ s.free ++ s.out.map (·.1) := by
          intro hm
          rcases List.mem_append.mp hm with m | m
          · have := hI.ids _ (Or.inl m); omega
          · have := hI.ids _ (Or.inr m); omega
        have : (s.free ++ s.bufs.length :: s.out.map (·.1)).Perm (s.bufs.length :: (s.free ++ s.out.map (·.1))) :=
          List.perm_middle
        exact this.nodup_iff.mpr (List.nodup_cons.mpr ⟨hnot, hI.nodup⟩)
      · intro id b' hb'
        rcases hout id (by rw [hb']; simp) with c | c
        · rw [hget id c] at hb'
          obtain ⟨a1, a2, a3, a4, a5⟩ := hI.own id b' hb'
          exact ⟨a1, a2, a3, e _ _ a4, a5⟩
        · subst c
          rw [hnew] at hb'; have hb' := Option.some.inj hb'; subst hb'
          rw [← e2, ← e1]
          exact ⟨rfl, rfl, hle, ⟨List.replicate (p.ch * p.cap) 0, by simp, by simp⟩, rfl, rfl⟩
      · intro i j bi bj hi hj hne
        rcases hout i (by rw [hi]; simp) with ci | ci <;> rcases hout j (by rw [hj]; simp) with cj | cj
        · rw [hget i ci] at hi; rw [hget j cj] at hj; exact hI.distinct i j bi bj hi hj hne
        · subst cj; rw [hget i ci] at hi; rw [hnew] at hj; have hj := Option.some.inj hj; subst hj
          have := blk_lt_of_room (hI.own i bi hi).2.2.2.1; omega
        · subst ci; rw [hget j cj] at hj; rw [hnew] at hi; have hi := Option.some.inj hi; subst hi
          have := blk_lt_of_room (hI.own j bj hj).2.2.2.1; omega
        · omega
      · intro id b' hf hb'
        have hid := hI.ids id (Or.inl hf)
        rw [hget id hid] at hb'
        obtain ⟨a1, a2, a3, a4, a5, a6⟩ := hI.fresh id b' hf hb'
        refine ⟨a1, a2, a3, a4, a5, ?_⟩
        intro i hi
        have hlt := blk_lt_of_room (hI.own id b' hb').2.2.2.1
        rw [← e1]
        simp [cell, List.getElem?_append_left hlt]
        have := a6 i hi; simpa [cell] using this
    · cases ha'

theorem inv_getReuse (p : Par) (s : PSt) (g : Gid) (id : Nat) (hI : PInv p s) : PInv p (stepGetReuse s g id) := by
  unfold stepGetReuse
  split
  · rename_i hmem
    refine ⟨?_, ?_, hI.own, hI.distinct, ?_⟩
    · intro x hx
      simp only [List.map_cons, List.mem_cons] at hx
      rcases hx with hf | rfl | ho
      · exact hI.ids x (Or.inl (List.mem_of_mem_erase hf))
      · exact hI.ids x (Or.inl hmem)
      · exact hI.ids x (Or.inr ho)
    · simp only [List.map_cons]
      have p1 : (s.free.erase id ++ id :: s.out.map (·.1)).Perm (id :: (s.free.erase id ++ s.out.map (·.1))) := List.perm_middle
      have p2 : (id :: s.free.erase id).Perm s.free := (List.perm_cons_erase hmem).symm
      have p3 : (id :: (s.free.erase id ++ s.out.map (·.1))).Perm (s.free ++ s.out.map (·.1)) := by
        have := List.Perm.append_right (s.out.map (·.1)) p2
        simpa using this
      exact (p1.trans p3).nodup_iff.mpr hI.nodup
    · intro x b hf hb
      exact hI.fresh x b (List.mem_of_mem_erase hf) hb
  · exact hI

theorem inv_store (p : Par) (s : PSt) (g : Gid) (id i : Nat) (v : Int) (hI : PInv p s) :
    PInv p (stepStore s g id i v) := by
  unfold stepStore
  cases hb : s.bufs[id]? with
  | none => exact hI
  | some b =>
    simp only
    split
    · rename_i hen
      obtain ⟨hh, hi⟩ := hen
      refine ⟨hI.ids, hI.nodup, ?_, hI.distinct, ?_⟩
      · intro x bx hx
        obtain ⟨a1, a2, a3, a4, a5⟩ := hI.own x bx hx
        exact ⟨a1, a2, a3, hasRoom_store _ _ _ _ _ _ a4, a5⟩
      · intro x bx hf hx
        obtain ⟨a1, a2, a3, a4, a5, a6⟩ := hI.fresh x bx hf hx
        refine ⟨a1, a2, a3, a4, a5, ?_⟩
        intro j hj
        have hne : x ≠ id := by
          intro e; subst e
          exact not_free_of_out hI (holder_some hh) hf
        have hblk := hI.distinct x id bx b hx hb hne
        rw [cell_store_other _ _ _ _ _ _ hblk]
        exact a6 j hj
    · exact hI

theorem inv_setLen (p : Par) (s : PSt) (g : Gid) (id n : Nat) (hI : PInv p s) :
    PInv p (stepSetLen s g id n) := by
  unfold stepSetLen
  cases hb : s.bufs[id]? with
  | none => exact hI
  | some b =>
    simp only
    split
    · rename_i hen
      obtain ⟨hh, hn⟩ := hen
      have hidlt : id < s.bufs.length := (List.getElem?_eq_some_iff.mp hb).1
      have hset : ∀ x, (s.bufs.set id { b with len := n })[x]? = if x = id then some { b with len := n } else s.bufs[x]? := by
        intro x
        by_cases c : x = id
        · subst c; simp [hidlt]
        · rw [getElem?_set_ne' _ _ _ _ (fun e => c e.symm)]; simp [c]
      refine ⟨?_, hI.nodup, ?_, ?_, ?_⟩
      · intro x hx; simpa using hI.ids x hx
      · intro x bx hx
        rw [hset] at hx
        split at hx
        · rename_i c; subst c
          have hx := Option.some.inj hx; subst hx
          obtain ⟨a1, a2, a3, a4, a5⟩ := hI.own x b hb
          exact ⟨a1, a2, hn, a4, a5⟩
        · exact hI.own x bx hx
      · intro i j bi bj hi hj hne
        rw [hset] at hi hj
        split at hi <;> split at hj
        · omega
        · rename_i c _; subst c; have hi := Option.some.inj hi; subst hi
          exact hI.distinct i j b bj hb hj hne
        · rename_i _ c; subst c; have hj := Option.some.inj hj; subst hj
          exact hI.distinct i j bi b hi hb hne
        · exact hI.distinct i j bi bj hi hj hne
      · intro x bx hf hx
        have hne : x ≠ id := by
          intro e; subst e
          exact not_free_of_out hI (holder_some hh) hf
        rw [hset, if_neg hne] at hx
        exact hI.fresh x bx hf hx
    · exact hI

theorem inv_drop (p : Par) (s : PSt) (id : Nat) (hI : PInv p s) : PInv p (stepDrop s id) := by
  unfold stepDrop
  refine ⟨?_, ?_, hI.own, hI.distinct, ?_⟩
  · intro x hx
    rcases hx with hf | ho
    · exact hI.ids x (Or.inl (List.mem_of_mem_erase hf))
    · exact hI.ids x (Or.inr ho)
  · exact (List.Sublist.append_right (List.erase_sublist) _).nodup hI.nodup
  · intro x b hf hb
    exact hI.fresh x b (List.mem_of_mem_erase hf) hb


theorem inv_put (p : Par) (s : PSt) (g : Gid) (id : Nat) (hI : PInv p s) : PInv p (stepPut p s g id) := by
  unfold stepPut
  cases hb : s.bufs[id]? with
  | none => exact hI
  | some b =>
    simp only
    split
    · rename_i hh
      obtain ⟨o1, o2, o3, o4, o5, o6⟩ := hI.own id b hb
      by_cases hcap : p.cap * p.ch ≠ b.cap
      · have e : (pool p s).put s.heap b = .panic s.heap .diffCapacity := by
          unfold Sig.Pool.put pool; simp [hcap]
        rw [e]; exact hI
      · by_cases hle : p.ch * p.len ≤ b.cap
        · have e : (pool p s).put s.heap b =
              .ok (Buf.clear s.heap { b with len := b.cap }) { b with len := p.ch * p.len } := by
            unfold Sig.Pool.put pool; simp [hcap, hle]
          rw [e]
          simp only
          have hidlt : id < s.bufs.length := (List.getElem?_eq_some_iff.mp hb).1
          have hout := holder_some hh
          have hnf := not_free_of_out hI hout
          -- the new heap: the whole capacity window of b's block is zero, other blocks untouched
          have hclr : ∀ blk j, cell (Buf.clear s.heap { b with len := b.cap }) blk j =
              if blk = b.blk ∧ j < b.cap then some 0 else cell s.heap blk j := by
            intro blk j
            unfold Buf.clear
            simp only
            have := cell_storeList s.heap b.blk b.off (List.replicate b.cap 0) b.cap o4 (by simp [o1]) blk j
            rw [this, o1]
            simp only [List.length_replicate, Nat.zero_add, Nat.zero_le, true_and, Nat.sub_zero]
            by_cases c : blk = b.blk ∧ j < b.cap
            · simp [c, List.getElem?_replicate]
            · simp [c]
          have hext : Ext s.heap (Buf.clear s.heap { b with len := b.cap }) := by
            unfold Buf.clear; exact ext_storeList _ _ _ _
          have hset : ∀ x, (s.bufs.set id { b with len := p.ch * p.len })[x]? =
              if x = id then some { b with len := p.ch * p.len } else s.bufs[x]? := by
            intro x
            by_cases c : x = id
            · subst c; simp [hidlt]
            · rw [getElem?_set_ne' _ _ _ _ (fun e => c e.symm)]; simp [c]
          have hfilt : ∀ x, x ∈ (s.out.filter (·.1 ≠ id)).map (·.1) ↔ (x ∈ s.out.map (·.1) ∧ x ≠ id) := by
            intro x
            simp only [List.mem_map, List.mem_filter]
            constructor
            · rintro ⟨e, ⟨he, hn⟩, rfl⟩; exact ⟨⟨e, he, rfl⟩, by simpa using hn⟩
            · rintro ⟨⟨e, he, rfl⟩, hn⟩; exact ⟨e, ⟨he, by simpa using hn⟩, rfl⟩
          refine ⟨?_, ?_, ?_, ?_, ?_⟩
          · intro x hx
            simp only [List.length_set]
            rcases hx with hf | ho
            · rcases List.mem_cons.mp hf with rfl | hf
              · exact hidlt
              · exact hI.ids x (Or.inl hf)
            · exact hI.ids x (Or.inr ((hfilt x).mp ho).1)
          · have nd := List.nodup_append.mp hI.nodup
            show ((id :: s.free) ++ (s.out.filter (·.1 ≠ id)).map (·.1)).Nodup
            refine List.nodup_append.mpr ⟨List.nodup_cons.mpr ⟨hnf, nd.1⟩, ?_, ?_⟩
            · exact (List.Sublist.map _ (List.filter_sublist)).nodup nd.2.1
            · intro a ha c hc e
              subst e
              have hc' := (hfilt a).mp hc
              rcases List.mem_cons.mp ha with rfl | ha
              · exact hc'.2 rfl
              · exact nd.2.2 a ha a hc'.1 rfl
          · intro x bx hx
            rw [hset] at hx
            split at hx
            · rename_i c; subst c
              have hx := Option.some.inj hx; subst hx
              exact ⟨o1, o2, by simpa using hle, hext _ _ o4, o5, o6⟩
            · obtain ⟨a1, a2, a3, a4, a5⟩ := hI.own x bx hx
              exact ⟨a1, a2, a3, hext _ _ a4, a5⟩
          · intro i j bi bj hi hj hne'
            rw [hset] at hi hj
            split at hi <;> split at hj
            · omega
            · rename_i c _; subst c; have hi := Option.some.inj hi; subst hi
              exact hI.distinct i j b bj hb hj hne'
            · rename_i _ c; subst c; have hj := Option.some.inj hj; subst hj
              exact hI.distinct i j bi b hi hb hne'
            · exact hI.distinct i j bi bj hi hj hne'
          · intro x bx hf hx
            rw [hset] at hx
            split at hx
            · rename_i c; subst c
              have hx := Option.some.inj hx; subst hx
              refine ⟨o5, rfl, o2, o1, o6, ?_⟩
              intro j hj
              rw [hclr]; simp at hj; simp [hj]
            · rename_i c
              have hf' : x ∈ s.free := by
                rcases List.mem_cons.mp hf with e | e
                · exact absurd e c
                · exact e
              obtain ⟨a1, a2, a3, a4, a5, a6⟩ := hI.fresh x bx hf' hx
              refine ⟨a1, a2, a3, a4, a5, ?_⟩
              intro j hj
              rw [hclr]
              have hblk := hI.distinct x id bx b hx hb c
              simp [hblk]; exact a6 j hj
        · have e : (pool p s).put s.heap b =
              .panic (Buf.clear s.heap { b with len := b.cap }) .sliceBounds := by
            unfold Sig.Pool.put pool; simp [hcap, hle]
          rw [e]; exact hI
    · exact hI

/-- **the pool invariant is preserved by every step** -/
theorem inv_step (p : Par) (s : PSt) (st : Step) (hI : PInv p s) : PInv p (step p s st) := by
  cases st with
  | getNew g => exact inv_getNew p s g hI
  | getReuse g id => exact inv_getReuse p s g id hI
  | store g id i v => exact inv_store p s g id i v hI
  | setLen g id n => exact inv_setLen p s g id n hI
  | put g id => exact inv_put p s g id hI
  | drop id => exact inv_drop p s id hI

/-- … hence it holds after **every history** (every sequence of goroutine-tagged steps) -/
theorem inv_run (p : Par) (s : PSt) (steps : List Step) (hI : PInv p s) : PInv p (run p s steps) := by
  induction steps generalizing s with
  | nil => exact hI
  | cons st steps ih => exact ih (step p s st) (inv_step p s st hI)

theorem inv_reachable (p : Par) (steps : List Step) : PInv p (run p init steps) :=
  inv_run p init steps (inv_init p)

/-! ## C10: every buffer obtained from the pool is indistinguishable from a fresh one -/

/-- **Get of a pooled buffer**: whatever the history – whatever was done to this and to the other
buffers before they were put back – the buffer handed out has the allocator's channel count, length
and capacity, the element type's bit depth, and reads as zero over its whole capacity; and its
storage block differs from the block of every buffer that is checked out at that moment. -/
theorem get_reuse_fresh (p : Par) (steps : List Step) (g : Gid) (id : Nat) (b : Buf)
    (hid : id ∈ (run p init steps).free) (hb : (run p init steps).bufs[id]? = some b) :
    let s := run p init steps
    let s' := step p s (.getReuse g id)
    s'.bufs[id]? = some b ∧ Pristine p s'.heap b ∧ holder s' id = some g ∧
    ∀ (id' : Nat) (b' : Buf), id' ∈ s.out.map (·.1) → s.bufs[id']? = some b' → b'.blk ≠ b.blk := by
  intro s s'
  have hI := inv_reachable p steps
  have e : s' = { s with free := s.free.erase id, out := (id, g) :: s.out } := by
    show stepGetReuse s g id = _
    unfold stepGetReuse; simp [s, hid]
  refine ⟨by rw [e]; exact hb, by rw [e]; exact hI.fresh id b hid hb, by rw [e]; simp [holder], ?_⟩
  intro id' b' ho hb'
  have hne : id' ≠ id := by
    intro c; subst c
    exact not_free_of_out hI ho hid
  exact hI.distinct id' id b' b hb' hb hne

/-- **Get that allocates**: the new buffer is pristine and lives in a block no other buffer has -/
theorem get_new_fresh (p : Par) (steps : List Step) (g : Gid) (h : Heap) (b : Buf)
    (ha : alloc (run p init steps).heap p.kind false p.ch p.len p.cap = some (h, b)) :
    let s := run p init steps
    let s' := step p s (.getNew g)
    s'.bufs[s.bufs.length]? = some b ∧ s'.heap = h ∧ holder s' s.bufs.length = some g ∧
    b.ch = p.ch ∧ b.len = p.ch * p.len ∧ b.cap = p.ch * p.cap ∧ b.depth = p.kind.width ∧
    (∀ i, i < b.cap → cell h b.blk (b.off + i) = some 0) ∧
    ∀ (id' : Nat) (b' : Buf), s.bufs[id']? = some b' → b'.blk ≠ b.blk := by
  intro s s'
  have hI := inv_reachable p steps
  have e : s' = { s with heap := h, bufs := s.bufs ++ [b], out := (s.bufs.length, g) :: s.out } := by
    show stepGetNew p s g = _
    unfold stepGetNew; simp [s, ha]
  unfold alloc at ha
  split at ha
  · have ha := Option.some.inj ha
    injection ha with e1 e2
    subst e2
    refine ⟨by rw [e]; simp, by rw [e], by rw [e]; simp [holder], rfl, rfl, rfl, rfl, ?_, ?_⟩
    · intro i hi
      rw [← e1]; simp at hi; simp [cell, hi]
    · intro id' b' hb'
      have := blk_lt_of_room (hI.own id' b' hb').2.2.2.1
      simp; omega
  · cases ha

/-- buffers checked out at the same time never share storage -/
theorem outstanding_disjoint (p : Par) (steps : List Step) (i j : Nat) (bi bj : Buf)
    (hi : (run p init steps).bufs[i]? = some bi) (hj : (run p init steps).bufs[j]? = some bj) (hne : i ≠ j) :
    bi.blk ≠ bj.blk := (inv_reachable p steps).distinct i j bi bj hi hj hne

/-! ## C11: every schedule of the goroutine-tagged machine -/

theorem fst_inj_of_nodup (l : List (Nat × Gid)) (nd : (l.map (·.1)).Nodup) (a b : Nat × Gid)
    (ha : a ∈ l) (hb : b ∈ l) (e : a.1 = b.1) : a = b := by
  induction l with
  | nil => cases ha
  | cons x xs ih =>
    simp only [List.map_cons, List.nodup_cons] at nd
    rcases List.mem_cons.mp ha with rfl | ha' <;> rcases List.mem_cons.mp hb with rfl | hb'
    · rfl
    · exact absurd (List.mem_map.mpr ⟨b, hb', e.symm⟩) nd.1
    · exact absurd (List.mem_map.mpr ⟨a, ha', e⟩) nd.1
    · exact ih nd.2 ha' hb'

theorem find_filter_ne (l : List (Nat × Gid)) (id id' : Nat) (c : id' ≠ id) :
    (l.filter (·.1 ≠ id')).find? (·.1 = id) = l.find? (·.1 = id) := by
  induction l with
  | nil => rfl
  | cons e es ih =>
    by_cases c1 : e.1 = id'
    · have c2 : ¬ e.1 = id := fun x => c (c1.symm.trans x)
      rw [List.filter_cons_of_neg (by simp [c1]), List.find?_cons_of_neg (by simp [c2])]
      exact ih
    · rw [List.filter_cons_of_pos (by simp [c1])]
      by_cases c3 : e.1 = id
      · rw [List.find?_cons_of_pos (by simp [c3]), List.find?_cons_of_pos (by simp [c3])]
      · rw [List.find?_cons_of_neg (by simp [c3]), List.find?_cons_of_neg (by simp [c3])]
        exact ih

/-- **exclusive ownership**: in every reachable state a buffer is held by at most one goroutine -/
theorem exclusive (p : Par) (steps : List Step) (id : Nat) (g1 g2 : Gid)
    (h1 : (id, g1) ∈ (run p init steps).out) (h2 : (id, g2) ∈ (run p init steps).out) : g1 = g2 := by
  have nd := (List.nodup_append.mp (inv_reachable p steps).nodup).2.1
  have := fst_inj_of_nodup _ nd _ _ h1 h2 rfl
  exact (Prod.mk.inj this).2

/-- a store by goroutine `g` changes a cell only if `g` holds the buffer whose block it is -/
theorem store_only_by_holder (p : Par) (s : PSt) (g : Gid) (id i : Nat) (v : Int) (blk j : Nat)
    (hch : cell (step p s (.store g id i v)).heap blk j ≠ cell s.heap blk j) :
    ∃ b, s.bufs[id]? = some b ∧ holder s id = some g ∧ blk = b.blk ∧ i < b.cap := by
  change cell (stepStore s g id i v).heap blk j ≠ cell s.heap blk j at hch
  unfold stepStore at hch
  cases hb : s.bufs[id]? with
  | none => simp [hb] at hch
  | some b =>
    simp only [hb] at hch
    split at hch
    · rename_i hen
      refine ⟨b, rfl, hen.1, ?_, hen.2⟩
      apply Decidable.byContradiction
      intro hne
      exact hch (cell_store_other _ _ _ _ _ _ hne)
    · exact absurd rfl hch

/-- the holder of a buffer changes only through a `put` (hand-in) or a `get` (hand-out) of that very
buffer: every other step – in particular every access – leaves all holders as they are. Together with
`store_only_by_holder` and `exclusive`: two accesses to one cell by different goroutines are separated
by a put and a get of that buffer. -/
theorem holder_changes_only_by_put_get (p : Par) (s : PSt) (st : Step) (id : Nat)
    (hch : holder (step p s st) id ≠ holder s id) :
    (∃ g, st = .put g id) ∨ (∃ g, st = .getReuse g id) ∨ (∃ g, st = .getNew g ∧ id = s.bufs.length) := by
  cases st with
  | getNew g =>
    right; right
    refine ⟨g, rfl, ?_⟩
    change holder (stepGetNew p s g) id ≠ holder s id at hch
    unfold stepGetNew at hch
    split at hch
    · apply Decidable.byContradiction
      intro hne
      apply hch
      simp only [holder, List.find?_cons]
      have : ¬ (s.bufs.length = id) := fun e => hne e.symm
      simp [this]
    · exact absurd rfl hch
  | getReuse g id' =>
    right; left
    change holder (stepGetReuse s g id') id ≠ holder s id at hch
    unfold stepGetReuse at hch
    split at hch
    · by_cases c : id' = id
      · exact ⟨g, by rw [c]⟩
      · exfalso; apply hch
        simp [holder, List.find?_cons, c]
    · exact absurd rfl hch
  | store g id' i v =>
    exfalso; apply hch
    change holder (stepStore s g id' i v) id = holder s id
    unfold stepStore
    split
    · split <;> rfl
    · rfl
  | setLen g id' n =>
    exfalso; apply hch
    change holder (stepSetLen s g id' n) id = holder s id
    unfold stepSetLen
    split
    · split <;> rfl
    · rfl
  | put g id' =>
    left
    by_cases c : id' = id
    · exact ⟨g, by rw [c]⟩
    · exfalso; apply hch
      change holder (stepPut p s g id') id = holder s id
      unfold stepPut
      split
      · split
        · split
          · simp only [holder]
            congr 1
            exact find_filter_ne s.out id id' c
          · rfl
        · rfl
      · rfl
  | drop id' =>
    exfalso; apply hch
    rfl

example :
    let p : Par := ⟨.i16, 2, 1, 2⟩
    let s := run p init [.getNew 1, .store 1 0 3 9, .setLen 1 0 4, .put 1 0, .getReuse 2 0]
    s.bufs.map (fun b => (b.len, b.cap)) = [(2, 4)] ∧ s.heap = [[0, 0, 0, 0]] ∧ s.out = [(0, 2)] ∧ s.free = [] := by
  decide

end Sig.PoolM

import SignalProofs.Props.C09
/-!
# C09, relative form of the one-step clause for signed sources

For the exact (format, depth) pairs `SignedAsFloat` is one correctly rounded division of a normal number, so its error
is *relative*: `|result − amplitude / full scale| ≤ 2^−p · |amplitude / full scale|`.  This is the theorem behind the
executable clause `Spec.C09.oneStepRelOK` the driver evaluates on the implementation's observations (for 64-bit sources,
where the absolute tolerance of `oneStepOK` is a thousand steps wide near zero, the clause is check-only).
-/
namespace Sig.C09
open Sig FV Spec
set_option linter.unusedVariables false
set_option linter.unusedSimpArgs false

section
variable {F : Fmt} {sb : Nat} (hE : Exact F sb)
include hE

/-- a quotient of a positive integer by a full scale (at most `2^(sb-1)`) is a normal number of `F` -/
theorem quot_normal (x d : ℤ) (hx : 1 ≤ x) (hd0 : 0 < d) (hd : d ≤ S sb) :
    F.emin ≤ ilog2 ((x:ℚ) / (d:ℚ)) - ((F.p:ℤ) - 1) := by
  obtain ⟨p1, e0, mp, sp, ms, hb, h2⟩ := basics hE
  have dq : (0:ℚ) < (d:ℚ) := by exact_mod_cast hd0
  have xq : (1:ℚ) ≤ (x:ℚ) := by exact_mod_cast hx
  have qpos : (0:ℚ) < (x:ℚ) / (d:ℚ) := div_pos (by linarith) dq
  have hlow : (2:ℚ)^(-((sb:ℤ) - 1)) ≤ (x:ℚ) / (d:ℚ) := by
    have hS : ((S sb : ℤ) : ℚ) = (2:ℚ)^((sb:ℤ) - 1) := by
      unfold S
      have : ((sb - 1 : ℕ) : ℤ) = (sb:ℤ) - 1 := by have := hE.sb1; omega
      rw [Int.cast_pow, ← this, zpow_natCast]; norm_num
    have dS : (d:ℚ) ≤ (2:ℚ)^((sb:ℤ) - 1) := by rw [← hS]; exact_mod_cast hd
    rw [zpow_neg, ← one_div]
    rw [div_le_div_iff₀ (by positivity) dq]
    nlinarith
  obtain ⟨_, l2⟩ := ilog2_spec _ qpos
  have hlt : (2:ℚ)^(-((sb:ℤ) - 1)) < (2:ℚ)^(ilog2 ((x:ℚ) / (d:ℚ)) + 1) := lt_of_le_of_lt hlow l2
  have := (zpow_lt_zpow_iff_right₀ (by norm_num : (1:ℚ) < 2)).mp hlt
  have he := hE.emin
  omega

/-- **one step, relative**: within `2^−p` *of the value* -/
theorem s_one_step_rel (x : ℤ) (hx : -(S sb) ≤ x ∧ x ≤ M sb) :
    |s2q F sb x - (x:ℚ) / (if 0 < x then (M sb : ℚ) else (S sb : ℚ))|
      ≤ (2:ℚ)^(-(F.p:ℤ)) * |(x:ℚ) / (if 0 < x then (M sb : ℚ) else (S sb : ℚ))| := by
  obtain ⟨p1, e0, mp, sp, ms, hb, h2⟩ := basics hE
  have mq : (0:ℚ) < (M sb : ℚ) := by exact_mod_cast mp
  have sq : (0:ℚ) < (S sb : ℚ) := by exact_mod_cast sp
  unfold s2q
  rcases lt_trichotomy x 0 with hneg | hz | hpos
  · have h0 : ¬ x > 0 := by omega
    have h0' : ¬ 0 < x := by omega
    simp only [h0, h0', if_false]
    have hq : (x:ℚ) / (S sb : ℚ) = -(((-x : ℤ) : ℚ) / (S sb : ℚ)) := by push_cast; ring
    have hnorm := quot_normal hE (-x) (S sb) (by omega) sp (le_refl _)
    have qpos : (0:ℚ) < ((-x : ℤ) : ℚ) / (S sb : ℚ) := div_pos (by exact_mod_cast (by omega : (0:ℤ) < -x)) sq
    have key := rne_relerr_pos F qpos hnorm
    rw [hq, rne_neg, abs_neg]
    have : -rne F (((-x : ℤ) : ℚ) / (S sb : ℚ)) - -(((-x : ℤ) : ℚ) / (S sb : ℚ))
        = -(rne F (((-x : ℤ) : ℚ) / (S sb : ℚ)) - ((-x : ℤ) : ℚ) / (S sb : ℚ)) := by ring
    rw [this, abs_neg, abs_of_pos qpos]
    exact key
  · subst hz
    simp [rne_zero]
  · have h0 : x > 0 := hpos
    simp only [h0, hpos, if_true]
    have hnorm := quot_normal hE x (M sb) (by omega) mp (by omega)
    have qpos : (0:ℚ) < (x:ℚ) / (M sb : ℚ) := div_pos (by exact_mod_cast hpos) mq
    have key := rne_relerr_pos F qpos hnorm
    rw [abs_of_pos qpos]
    exact key

/-- the executable clause holds of the model's `SignedAsFloat` for every code of every exact pair -/
theorem s_oneStepRelOK (x : ℤ) (hx : -(S sb) ≤ x ∧ x ≤ M sb) :
    C09.oneStepRelOK F true sb x (s2fK F sb x) = true := by
  rw [s2fK_eq hE x hx]
  obtain ⟨p1, e0, mp, sp, ms, hb, h2⟩ := basics hE
  have key := s_one_step_rel hE x hx
  unfold C09.oneStepRelOK
  simp only [FV.toRat?, Spec.amp, if_true]
  have hfs : (if 0 < x then (((2:ℤ)^(sb-1) - 1 : ℤ) : ℚ) else (((2:ℤ)^(sb-1) : ℤ) : ℚ)) =
      (if 0 < x then (M sb : ℚ) else (S sb : ℚ)) := by simp [M, S]
  rw [hfs]
  set v := (x:ℚ) / (if 0 < x then (M sb : ℚ) else (S sb : ℚ)) with hv
  have habs : (if v < 0 then -v else v) = |v| := by
    by_cases h : v < 0
    · simp [h, abs_of_neg h]
    · simp [h, abs_of_nonneg (not_lt.mp h)]
  rw [habs]
  have hp : ((((2:ℤ)^F.p : ℤ)) : ℚ) = (2:ℚ)^(F.p:ℤ) := by rw [Int.cast_pow, zpow_natCast]; norm_num
  have hpow : (2:ℚ)^(-(F.p:ℤ)) * |v| ≤ |v| * 4 / ((((2:ℤ)^F.p : ℤ)) : ℚ) := by
    rw [hp, zpow_neg]
    have hpos : (0:ℚ) < (2:ℚ)^(F.p:ℤ) := by positivity
    rw [le_div_iff₀ hpos]
    have : ((2:ℚ)^(F.p:ℤ))⁻¹ * |v| * (2:ℚ)^(F.p:ℤ) = |v| := by field_simp
    rw [this]
    nlinarith [abs_nonneg v]
  have hstep : (0:ℚ) ≤ 1 / (((2:ℤ)^(sb-1) : ℤ) : ℚ) := by positivity
  have k := abs_le.mp key
  simp only [Bool.and_eq_true, decide_eq_true_eq]
  constructor <;> linarith [k.1, k.2]

end

/-- non-vacuity: the five exact pairs -/
example : C09.oneStepRelOK f32 true 16 (-12345) (s2fK f32 16 (-12345)) = true :=
  s_oneStepRelOK exact_f32_16 (-12345) (by decide)

end Sig.C09

import SignalModel.Spec
import SignalProofs.Lemmas.FloatOps
/-!
# C17 — Frequency converts between event counts and durations consistently

Model: `duration`, `events` (SignalModel/FloatK.lean): float64 division, multiplication, `math.Round`,
conversion to `int64`, over the executable IEEE-754 model.  Hypotheses: a finite positive frequency in
the range `[2^-20, 2^40]` Hz (≈ 1 µHz … 1 THz), non-negative counts/durations below 2^53, results
below 2^62.
-/
namespace Sig.C17
open Sig FV Spec
set_option linter.unusedVariables false
set_option linter.unusedSimpArgs false

theorem f64p : (1:ℕ) ≤ f64.p := by decide
theorem f64e : f64.emin ≤ 0 := by decide

/-- relative rounding error of positive numbers that are not subnormal -/
theorem rne_rel {x : ℚ} (hx : 0 < x) (hbig : (2:ℚ)^(-1022:ℤ) ≤ x) : |rne f64 x - x| ≤ (2:ℚ)^(-53:ℤ) * x := by
  have := rne_relerr_pos f64 hx (by
    obtain ⟨_, l2⟩ := ilog2_spec x hx
    have : (2:ℚ)^(-1022:ℤ) < 2^(ilog2 x + 1) := lt_of_le_of_lt hbig l2
    have := (zpow_lt_zpow_iff_right₀ (by norm_num : (1:ℚ) < 2)).mp this
    simp only [f64]; omega)
  simpa [f64] using this

/-- rounding keeps positive non-subnormal numbers positive, within a factor (1 ± 2^-53) -/
theorem rne_between {x : ℚ} (hx : 0 < x) (hbig : (2:ℚ)^(-1022:ℤ) ≤ x) :
    x * (1 - 2^(-53:ℤ)) ≤ rne f64 x ∧ rne f64 x ≤ x * (1 + 2^(-53:ℤ)) := by
  have := abs_le.mp (rne_rel hx hbig)
  constructor <;> nlinarith [this.1, this.2]

def nano : ℚ := 1000000000

/-- the three float operations of `Duration` on the rational line -/
def A (q : ℚ) : ℚ := rne f64 (nano / q)
def B (q : ℚ) (n : ℤ) : ℚ := rne f64 (A q * n)
def durQ (q : ℚ) (n : ℤ) : ℤ := ⌊B q n + 1/2⌋

/-- … and of `Events` -/
def A' (q : ℚ) : ℚ := rne f64 (q / nano)
def B' (q : ℚ) (d : ℤ) : ℚ := rne f64 (A' q * d)
def evQ (q : ℚ) (d : ℤ) : ℤ := ⌊B' q d + 1/2⌋

/-- admissible frequencies -/
def FreqOK (q : ℚ) : Prop := (2:ℚ)^(-20:ℤ) ≤ q ∧ q ≤ 2^(40:ℤ)

theorem tiny : (2:ℚ)^(-1022:ℤ) ≤ 2^(-60:ℤ) := zpow_le_zpow_right₀ (by norm_num) (by norm_num)

theorem A_bounds (q : ℚ) (hq : FreqOK q) :
    0 < A q ∧ (nano / q) * (1 - 2^(-53:ℤ)) ≤ A q ∧ A q ≤ (nano / q) * (1 + 2^(-53:ℤ)) ∧ (2:ℚ)^(-60:ℤ) ≤ A q ∧ A q ≤ 2^(51:ℤ) := by
  obtain ⟨q1, q2⟩ := hq
  have qpos : 0 < q := lt_of_lt_of_le (by positivity) q1
  have tpos : 0 < nano / q := div_pos (by norm_num [nano]) qpos
  have tlo : (2:ℚ)^(-11:ℤ) ≤ nano / q := by
    rw [le_div_iff₀ qpos]
    calc (2:ℚ)^(-11:ℤ) * q ≤ 2^(-11:ℤ) * 2^(40:ℤ) := by apply mul_le_mul_of_nonneg_left q2; positivity
      _ ≤ nano := by norm_num [nano]
  have thi : nano / q ≤ 2^(50:ℤ) := by
    rw [div_le_iff₀ qpos]
    calc nano ≤ 2^(50:ℤ) * 2^(-20:ℤ) := by norm_num [nano]
      _ ≤ 2^(50:ℤ) * q := by apply mul_le_mul_of_nonneg_left q1; positivity
  have big : (2:ℚ)^(-1022:ℤ) ≤ nano / q := le_trans tiny (le_trans (zpow_le_zpow_right₀ (by norm_num) (by norm_num)) tlo)
  obtain ⟨b1, b2⟩ := rne_between tpos big
  have e53 : (2:ℚ)^(-53:ℤ) ≤ 1/2 := by norm_num
  refine ⟨?_, b1, b2, ?_, ?_⟩
  · unfold A; nlinarith
  · unfold A
    have : (2:ℚ)^(-60:ℤ) ≤ (2:ℚ)^(-11:ℤ) * (1/2) := by norm_num
    nlinarith
  · unfold A
    have : (2:ℚ)^(50:ℤ) * (1 + 2^(-53:ℤ)) ≤ 2^(51:ℤ) := by norm_num
    nlinarith

theorem A'_bounds (q : ℚ) (hq : FreqOK q) :
    0 < A' q ∧ (q / nano) * (1 - 2^(-53:ℤ)) ≤ A' q ∧ A' q ≤ (q / nano) * (1 + 2^(-53:ℤ)) ∧ (2:ℚ)^(-60:ℤ) ≤ A' q ∧ A' q ≤ 2^(51:ℤ) := by
  obtain ⟨q1, q2⟩ := hq
  have qpos : 0 < q := lt_of_lt_of_le (by positivity) q1
  have tpos : 0 < q / nano := div_pos qpos (by norm_num [nano])
  have npos : (0:ℚ) < nano := by norm_num [nano]
  have tlo : (2:ℚ)^(-50:ℤ) ≤ q / nano := by
    rw [le_div_iff₀ npos]
    calc (2:ℚ)^(-50:ℤ) * nano ≤ 2^(-20:ℤ) := by norm_num [nano]
      _ ≤ q := q1
  have thi : q / nano ≤ 2^(11:ℤ) := by
    rw [div_le_iff₀ npos]
    calc q ≤ 2^(40:ℤ) := q2
      _ ≤ 2^(11:ℤ) * nano := by norm_num [nano]
  have big : (2:ℚ)^(-1022:ℤ) ≤ q / nano := le_trans tiny (le_trans (zpow_le_zpow_right₀ (by norm_num) (by norm_num)) tlo)
  obtain ⟨b1, b2⟩ := rne_between tpos big
  refine ⟨?_, b1, b2, ?_, ?_⟩
  · unfold A'; nlinarith [(by norm_num : (2:ℚ)^(-53:ℤ) ≤ 1/2)]
  · unfold A'
    have : (2:ℚ)^(-60:ℤ) ≤ (2:ℚ)^(-50:ℤ) * (1/2) := by norm_num
    nlinarith [(by norm_num : (2:ℚ)^(-53:ℤ) ≤ 1/2)]
  · unfold A'
    have : (2:ℚ)^(11:ℤ) * (1 + 2^(-53:ℤ)) ≤ 2^(51:ℤ) := by norm_num
    nlinarith

/-- generic second step: `rne (a·n)` for a positive factor `a` and a positive integer `n` -/
theorem B_bounds (a : ℚ) (ha : 0 < a) (ha60 : (2:ℚ)^(-60:ℤ) ≤ a) (n : ℤ) (hn : 1 ≤ n) :
    a * n * (1 - 2^(-53:ℤ)) ≤ rne f64 (a * n) ∧ rne f64 (a * n) ≤ a * n * (1 + 2^(-53:ℤ)) := by
  have nq : (1:ℚ) ≤ n := by exact_mod_cast hn
  have pos : 0 < a * n := by positivity
  have big : (2:ℚ)^(-1022:ℤ) ≤ a * n := by
    have : (2:ℚ)^(-60:ℤ) ≤ a * n := by nlinarith
    exact le_trans tiny this
  exact rne_between pos big

/-- **monotone in the count** -/
theorem durQ_mono (q : ℚ) (hq : FreqOK q) (n n' : ℤ) (h : n ≤ n') : durQ q n ≤ durQ q n' := by
  have ha := (A_bounds q hq).1
  unfold durQ B
  apply Int.floor_mono
  have : A q * n ≤ A q * n' := by
    apply mul_le_mul_of_nonneg_left _ (le_of_lt ha); exact_mod_cast h
  linarith [rne_mono f64 f64p this]

theorem evQ_mono (q : ℚ) (hq : FreqOK q) (d d' : ℤ) (h : d ≤ d') : evQ q d ≤ evQ q d' := by
  have ha := (A'_bounds q hq).1
  unfold evQ B'
  apply Int.floor_mono
  have : A' q * d ≤ A' q * d' := by
    apply mul_le_mul_of_nonneg_left _ (le_of_lt ha); exact_mod_cast h
  linarith [rne_mono f64 f64p this]

/-- two roundings in a row: `b` within (1±ε) of `a·n`, `a` within (1±ε) of `t` -/
theorem two_step (ε t a b n : ℚ) (hε : 0 < ε) (hε1 : ε ≤ 1/1000) (ht : 0 < t) (hn : 0 < n)
    (a1 : t * (1 - ε) ≤ a) (a2 : a ≤ t * (1 + ε)) (b1 : a * n * (1 - ε) ≤ b) (b2 : b ≤ a * n * (1 + ε)) :
    t * n - 3 * ε * (t * n) ≤ b ∧ b ≤ t * n + 3 * ε * (t * n) := by
  have x : 0 < t * n := by positivity
  have an1 : t * (1 - ε) * n ≤ a * n := mul_le_mul_of_nonneg_right a1 (le_of_lt hn)
  have an2 : a * n ≤ t * (1 + ε) * n := mul_le_mul_of_nonneg_right a2 (le_of_lt hn)
  have p1 : (0:ℚ) ≤ 1 - ε := by linarith
  have p2 : (0:ℚ) ≤ 1 + ε := by linarith
  have lo : t * (1 - ε) * n * (1 - ε) ≤ a * n * (1 - ε) := mul_le_mul_of_nonneg_right an1 p1
  have hi : a * n * (1 + ε) ≤ t * (1 + ε) * n * (1 + ε) := mul_le_mul_of_nonneg_right an2 p2
  have e2 : ε * ε ≤ ε := by nlinarith
  constructor
  · have : t * n * (1 - 3 * ε) ≤ t * (1 - ε) * n * (1 - ε) := by
      have : t * (1 - ε) * n * (1 - ε) = t * n * (1 - 2 * ε + ε * ε) := by ring
      rw [this]; apply mul_le_mul_of_nonneg_left _ (le_of_lt x); nlinarith
    have e : t * n * (1 - 3 * ε) = t * n - 3 * ε * (t * n) := by ring
    linarith
  · have : t * (1 + ε) * n * (1 + ε) ≤ t * n * (1 + 3 * ε) := by
      have : t * (1 + ε) * n * (1 + ε) = t * n * (1 + 2 * ε + ε * ε) := by ring
      rw [this]; apply mul_le_mul_of_nonneg_left _ (le_of_lt x); nlinarith
    have e : t * n * (1 + 3 * ε) = t * n + 3 * ε * (t * n) := by ring
    linarith

theorem floor_close (b x δ F : ℚ) (f1 : F ≤ b + 1/2) (f2 : b + 1/2 < F + 1) (s1 : x - δ ≤ b) (s2 : b ≤ x + δ) :
    |F - x| ≤ 1/2 + δ := by
  rw [abs_le]; constructor <;> linarith

/-- **accuracy of `Duration`**: within half a nanosecond plus three float roundings of n/f seconds -/
theorem durQ_err (q : ℚ) (hq : FreqOK q) (n : ℤ) (hn : 0 ≤ n) :
    |(durQ q n : ℚ) - nano * n / q| ≤ 1/2 + 3 * 2^(-53:ℤ) * (nano * n / q) := by
  obtain ⟨apos, a1, a2, a60, _⟩ := A_bounds q hq
  have qpos : 0 < q := lt_of_lt_of_le (by positivity) hq.1
  have e : (0:ℚ) < 2^(-53:ℤ) ∧ (2:ℚ)^(-53:ℤ) ≤ 1/1000 := by constructor <;> norm_num
  have fl1 := Int.floor_le (B q n + 1/2)
  have fl2 := Int.lt_floor_add_one (B q n + 1/2)
  rcases eq_or_lt_of_le hn with h0 | hpos
  · subst h0
    have : B q 0 = 0 := by simp [B, rne_zero]
    unfold durQ; rw [this]; norm_num
  · have hn1 : 1 ≤ n := hpos
    obtain ⟨b1, b2⟩ := B_bounds (A q) apos a60 n hn1
    have nq : (1:ℚ) ≤ n := by exact_mod_cast hn1
    set t := nano / q with ht
    have tpos : 0 < t := div_pos (by norm_num [nano]) qpos
    have ex : nano * n / q = t * n := by rw [ht]; ring
    rw [ex]
    have tn : 0 < t * n := by positivity
    unfold durQ
    have hB : B q n = rne f64 (A q * n) := rfl
    obtain ⟨s1, s2⟩ := two_step (2^(-53:ℤ)) t (A q) (B q n) n e.1 e.2 tpos (by linarith) a1 a2 b1 b2
    exact floor_close (B q n) (t * n) (3 * 2^(-53:ℤ) * (t * n)) _ fl1 fl2 s1 s2

theorem evQ_err (q : ℚ) (hq : FreqOK q) (d : ℤ) (hd : 0 ≤ d) :
    |(evQ q d : ℚ) - q * d / nano| ≤ 1/2 + 3 * 2^(-53:ℤ) * (q * d / nano) := by
  obtain ⟨apos, a1, a2, a60, _⟩ := A'_bounds q hq
  have qpos : 0 < q := lt_of_lt_of_le (by positivity) hq.1
  have e : (0:ℚ) < 2^(-53:ℤ) ∧ (2:ℚ)^(-53:ℤ) ≤ 1/1000 := by constructor <;> norm_num
  have fl1 := Int.floor_le (B' q d + 1/2)
  have fl2 := Int.lt_floor_add_one (B' q d + 1/2)
  rcases eq_or_lt_of_le hd with h0 | hpos
  · subst h0
    have : B' q 0 = 0 := by simp [B', rne_zero]
    unfold evQ; rw [this]; norm_num
  · have hn1 : 1 ≤ d := hpos
    obtain ⟨b1, b2⟩ := B_bounds (A' q) apos a60 d hn1
    have nq : (1:ℚ) ≤ d := by exact_mod_cast hn1
    set t := q / nano with ht
    have tpos : 0 < t := div_pos qpos (by norm_num [nano])
    have ex : q * d / nano = t * d := by rw [ht]; ring
    rw [ex]
    unfold evQ
    have hB : B' q d = rne f64 (A' q * d) := rfl
    obtain ⟨s1, s2⟩ := two_step (2^(-53:ℤ)) t (A' q) (B' q d) d e.1 e.2 tpos (by linarith) a1 a2 b1 b2
    exact floor_close (B' q d) (t * d) (3 * 2^(-53:ℤ) * (t * d)) _ fl1 fl2 s1 s2

/-! ## the model's `duration` / `events` compute `durQ` / `evQ` -/

theorem huge : (2:ℚ)^(110:ℤ) < (2:ℚ)^(f64.emax + 1) := by
  have : f64.emax + 1 = 1024 := by decide
  rw [this]; exact zpow_lt_zpow_right₀ (by norm_num) (by norm_num)

/-- `round` of a positive, moderately sized value is that value rounded -/
theorem round_pos {x : ℚ} (hr : 0 < rne f64 x) (hb : rne f64 x ≤ 2^(110:ℤ)) (nz : Bool) :
    FV.round f64 x nz = .fin (rne f64 x) := by
  unfold FV.round
  simp only [abs_eq_ite, pow2_eq]
  have : ¬ ((2:ℚ)^(f64.emax + 1) ≤ |rne f64 x|) := by
    rw [not_le, abs_of_pos hr]; exact lt_of_le_of_lt hb huge
  simp only [this, if_false, ne_of_gt hr]

/-- the shared tail of both functions: `int64(math.Round(a * float64(n)))` -/
theorem tail (a : ℚ) (ha : 0 < a) (ha60 : (2:ℚ)^(-60:ℤ) ≤ a) (ha51 : a ≤ 2^(51:ℤ)) (n : ℤ) (hn0 : 0 ≤ n)
    (hn : n.natAbs < 2^53) (hres : rne f64 (a * n) < 2^(62:ℤ)) :
    toIntTy int64Ty (FV.roundHalfAway (FV.mul f64 (.fin a) (FV.ofInt f64 n))) = some ⌊rne f64 (a * n) + 1/2⌋ := by
  have imin : int64Ty.minVal = -(2^63) := by decide
  have imax : int64Ty.maxVal = 2^63 - 1 := by decide
  rcases eq_or_lt_of_le hn0 with h0 | hpos
  · subst h0
    have e1 : FV.ofInt f64 0 = .fin 0 := ofInt_zero f64
    rw [e1, mul_fin, mul_zero]
    have key : ∀ nz : Bool, (FV.round f64 (0:ℚ) nz).toRat? = some 0 := by
      intro nz
      have := round_toRat f64 0 nz (by rw [rne_zero, abs_zero]; exact two_zpow_pos _)
      rw [rne_zero] at this; exact this
    have hr : ∀ nz : Bool, (FV.roundHalfAway (FV.round f64 (0:ℚ) nz)).toRat? = some 0 := by
      intro nz
      have hz := key nz
      revert hz
      cases FV.round f64 (0:ℚ) nz with
      | nan => intro h; simp [FV.toRat?] at h
      | inf b => intro h; simp [FV.toRat?] at h
      | nzero => intro _; simp [FV.roundHalfAway, FV.toRat?]
      | fin r => intro h; simp [FV.toRat?] at h; subst h; simp [FV.roundHalfAway, FV.toRat?]
    unfold toIntTy
    have t0 : FV.truncQ (0:ℚ) = 0 := by simpa using truncQ_int 0
    rw [toInt_of_toRat _ _ _ 0 (hr _) (by rw [t0, imin]; norm_num) (by rw [t0, imax]; norm_num), t0]
    have : ⌊rne f64 (a * ((0:ℤ):ℚ)) + 1/2⌋ = 0 := by
      rw [Int.cast_zero, mul_zero, rne_zero, Int.floor_eq_iff]; norm_num
    rw [this]
  · have hn1 : 1 ≤ n := hpos
    have e1 : FV.ofInt f64 n = .fin n := ofInt_exact f64 f64p f64e (by decide) n (by omega) (by simpa [f64] using hn)
    obtain ⟨b1, b2⟩ := B_bounds a ha ha60 n hn1
    have nq : (1:ℚ) ≤ n := by exact_mod_cast hn1
    have e53 : (2:ℚ)^(-53:ℤ) ≤ 1/2 := by norm_num
    have an : 0 < a * n := by positivity
    have bpos : 0 < rne f64 (a * n) := by
      have h1 : a * n * (1/2) ≤ a * n * (1 - 2^(-53:ℤ)) := mul_le_mul_of_nonneg_left (by linarith) (le_of_lt an)
      have h2 := le_trans h1 b1
      have h3 : 0 < a * n * (1/2) := by positivity
      exact lt_of_lt_of_le h3 h2
    rw [e1, mul_fin, round_pos bpos (le_trans (le_of_lt hres) (zpow_le_zpow_right₀ (by norm_num) (by norm_num))) _]
    have hrha : FV.roundHalfAway (.fin (rne f64 (a * n))) = .fin ((⌊rne f64 (a * n) + 1/2⌋ : ℤ) : ℚ) := by
      simp [FV.roundHalfAway, ne_of_gt bpos, bpos]
      rfl
    rw [hrha]
    unfold toIntTy
    have fl1 := Int.floor_le (rne f64 (a * n) + 1/2)
    have flpos : 0 ≤ ⌊rne f64 (a * n) + 1/2⌋ := Int.floor_nonneg.mpr (by linarith)
    have flhi : ⌊rne f64 (a * n) + 1/2⌋ ≤ 2^63 - 1 := by
      have : ((⌊rne f64 (a * n) + 1/2⌋ : ℤ) : ℚ) < 2^(63:ℤ) := by
        have : (2:ℚ)^(62:ℤ) + 1/2 < 2^(63:ℤ) := by norm_num
        linarith
      have : ⌊rne f64 (a * n) + 1/2⌋ < 2^63 := by exact_mod_cast this
      omega
    have := toInt_of_toRat int64Ty.minVal int64Ty.maxVal (.fin ((⌊rne f64 (a * n) + 1/2⌋ : ℤ) : ℚ)) _ rfl
      (by rw [truncQ_int, imin]; omega) (by rw [truncQ_int, imax]; exact flhi)
    rw [this, truncQ_int]

/-- **`Frequency.Duration` computes `durQ`** -/
theorem duration_eq (q : ℚ) (hq : FreqOK q) (n : ℤ) (hn0 : 0 ≤ n) (hn : n.natAbs < 2^53) (hres : B q n < 2^(62:ℤ)) :
    duration (.fin q) n = some (durQ q n) := by
  obtain ⟨apos, a1, a2, a60, a51⟩ := A_bounds q hq
  have qpos : 0 < q := lt_of_lt_of_le (by positivity) hq.1
  unfold duration
  have hdiv : FV.div f64 secondF (.fin q) = .fin (A q) := by
    simp only [FV.div, secondF, FV.toRat?, ne_of_gt qpos, if_false]
    exact round_pos apos (le_trans a51 (zpow_le_zpow_right₀ (by norm_num) (by norm_num))) _
  rw [hdiv]
  exact tail (A q) apos a60 a51 n hn0 hn hres

/-- **`Frequency.Events` computes `evQ`** -/
theorem events_eq (q : ℚ) (hq : FreqOK q) (d : ℤ) (hd0 : 0 ≤ d) (hd : d.natAbs < 2^53) (hres : B' q d < 2^(62:ℤ)) :
    events (.fin q) d = some (evQ q d) := by
  obtain ⟨apos, a1, a2, a60, a51⟩ := A'_bounds q hq
  have qpos : 0 < q := lt_of_lt_of_le (by positivity) hq.1
  unfold events
  have hdiv : FV.div f64 (.fin q) secondF = .fin (A' q) := by
    have : (1000000000 : ℚ) ≠ 0 := by norm_num
    simp only [FV.div, secondF, FV.toRat?, this, if_false]
    exact round_pos apos (le_trans a51 (zpow_le_zpow_right₀ (by norm_num) (by norm_num))) _
  rw [hdiv]
  exact tail (A' q) apos a60 a51 d hd0 hd hres

/-- the executable predicates of `Spec.C17` hold of the rational-level functions (and hence, by
`duration_eq` / `events_eq`, of the model's outputs) -/
theorem durErrOK_model (q : ℚ) (hq : FreqOK q) (n : ℤ) (hn : 0 ≤ n) : C17.durErrOK q n (durQ q n) = true := by
  have qpos : 0 < q := lt_of_lt_of_le (by positivity) hq.1
  have key := durQ_err q hq n hn
  have ex0 : 0 ≤ nano * n / q := by
    apply div_nonneg _ (le_of_lt qpos); apply mul_nonneg (by norm_num [nano]); exact_mod_cast hn
  unfold C17.durErrOK
  simp only [abs_eq_ite, decide_eq_true_eq]
  have e1 : (1000000000 : ℚ) * n / q = nano * n / q := rfl
  rw [e1, abs_of_nonneg ex0]
  have : (3:ℚ) * 2^(-53:ℤ) * (nano * n / q) ≤ 4 * (nano * n / q) / (((2:ℤ)^53 : ℤ) : ℚ) := by
    have h53 : (0:ℚ) < (((2:ℤ)^53 : ℤ) : ℚ) := by norm_num
    have e : (2:ℚ)^(-53:ℤ) = 1 / (((2:ℤ)^53 : ℤ) : ℚ) := by norm_num
    rw [e]
    calc 3 * (1 / (((2:ℤ)^53 : ℤ) : ℚ)) * (nano * n / q) = 3 * (nano * n / q) / (((2:ℤ)^53 : ℤ) : ℚ) := by ring
      _ ≤ 4 * (nano * n / q) / (((2:ℤ)^53 : ℤ) : ℚ) := by
          apply div_le_div_of_nonneg_right _ (le_of_lt h53); linarith
  linarith

theorem monoOK_model (q : ℚ) (hq : FreqOK q) (n n' : ℤ) : C17.monoOK n n' (durQ q n) (durQ q n') = true := by
  unfold C17.monoOK
  by_cases h : n ≤ n'
  · simp [h, durQ_mono q hq n n' h]
  · simp [h]

theorem evMonoOK_model (q : ℚ) (hq : FreqOK q) (d d' : ℤ) : C17.monoOK d d' (evQ q d) (evQ q d') = true := by
  unfold C17.monoOK
  by_cases h : d ≤ d'
  · simp [h, evQ_mono q hq d d' h]
  · simp [h]

theorem final_step (Bv y m δ : ℚ) (s1 : y - δ ≤ Bv) (s2 : Bv ≤ y + δ) (hδ : δ ≤ 1/10000)
    (h1 : -(53/100000) ≤ y - m) (h2 : y - m ≤ 53/100000) : m ≤ Bv + 1/2 ∧ Bv + 1/2 < m + 1 := by
  constructor <;> linarith

/-- **count → duration → count** returns the count, for rates up to 1 MHz and spans up to 24 hours -/
theorem roundtrip (q : ℚ) (hq : FreqOK q) (hq6 : q ≤ 1000000) (n : ℤ) (hn0 : 0 ≤ n) (hn : (n:ℚ) ≤ 86400 * q) :
    evQ q (durQ q n) = n := by
  obtain ⟨apos, a1, a2, a60, a51⟩ := A'_bounds q hq
  have qpos : 0 < q := lt_of_lt_of_le (by positivity) hq.1
  have npos : (0:ℚ) < nano := by norm_num [nano]
  have nq0 : (0:ℚ) ≤ n := by exact_mod_cast hn0
  set t := nano / q with ht
  set t' := q / nano with ht'
  have tpos : 0 < t := div_pos npos qpos
  have t'pos : 0 < t' := div_pos qpos npos
  have tt' : t' * t = 1 := by rw [ht, ht']; field_simp
  have t'small : t' ≤ 1/1000 := by
    rw [ht', div_le_iff₀ npos]; norm_num [nano]; linarith
  -- the exact duration x = t·n is at most 24 h in nanoseconds
  have hx : t * n ≤ 86400 * nano := by
    rw [ht, div_mul_eq_mul_div, div_le_iff₀ qpos]; nlinarith
  have hx0 : 0 ≤ t * n := by positivity
  have e : (0:ℚ) < 2^(-53:ℤ) ∧ (2:ℚ)^(-53:ℤ) ≤ 1/1000 := by constructor <;> norm_num
  have e3 : 3 * (2:ℚ)^(-53:ℤ) * (86400 * nano) ≤ 3/100 := by norm_num [nano]
  have hDerr := durQ_err q hq n hn0
  have ex : nano * n / q = t * n := by rw [ht]; ring
  rw [ex] at hDerr
  have hD : |(durQ q n : ℚ) - t * n| ≤ 53/100 := by
    have : 3 * (2:ℚ)^(-53:ℤ) * (t * n) ≤ 3 * (2:ℚ)^(-53:ℤ) * (86400 * nano) :=
      mul_le_mul_of_nonneg_left hx (by positivity)
    linarith
  have hDabs := abs_le.mp hD
  -- D ≥ 0
  have hD0 : 0 ≤ durQ q n := by
    unfold durQ
    apply Int.floor_nonneg.mpr
    have : 0 ≤ B q n := by
      unfold B; apply rne_nonneg' f64
      exact mul_nonneg (le_of_lt (A_bounds q hq).1) nq0
    linarith
  -- y = t'·D is within 0.00053 of n
  have hy : |t' * (durQ q n : ℚ) - n| ≤ 53/100000 := by
    have : t' * (durQ q n : ℚ) - n = t' * ((durQ q n : ℚ) - t * n) := by
      rw [mul_sub, ← mul_assoc, tt', one_mul]
    rw [this, abs_mul, abs_of_pos t'pos]
    calc t' * |(durQ q n : ℚ) - t * n| ≤ (1/1000) * (53/100) :=
          mul_le_mul t'small hD (abs_nonneg _) (by norm_num)
      _ = 53/100000 := by norm_num
  have hyabs := abs_le.mp hy
  rcases eq_or_lt_of_le hD0 with hz | hpos
  · -- D = 0: then n = 0
    rw [← hz] at hyabs ⊢
    have : (n:ℚ) < 1 := by
      have := hyabs.1; simp at this; linarith
    have hn' : n = 0 := by
      have : n < 1 := by exact_mod_cast this
      omega
    subst hn'
    unfold evQ B'
    simp only [Int.cast_zero, mul_zero, rne_zero]
    rw [Int.floor_eq_iff]; norm_num
  · have hd1 : 1 ≤ durQ q n := hpos
    obtain ⟨b1, b2⟩ := B_bounds (A' q) apos a60 (durQ q n) hd1
    have dq : (0:ℚ) < (durQ q n : ℚ) := by exact_mod_cast hpos
    obtain ⟨s1, s2⟩ := two_step (2^(-53:ℤ)) t' (A' q) (B' q (durQ q n)) (durQ q n) e.1 e.2 t'pos dq a1 a2 b1 b2
    -- y ≤ 86400·10^6 + 1
    have ybig : t' * (durQ q n : ℚ) ≤ 86400 * 1000000 + 1 := by
      have : (n:ℚ) ≤ 86400 * 1000000 := by nlinarith
      linarith [hyabs.2]
    have y0 : 0 ≤ t' * (durQ q n : ℚ) := by positivity
    have e4 : 3 * (2:ℚ)^(-53:ℤ) * (86400 * 1000000 + 1) ≤ 1/10000 := by norm_num
    have hs : 3 * (2:ℚ)^(-53:ℤ) * (t' * (durQ q n : ℚ)) ≤ 1/10000 :=
      le_trans (mul_le_mul_of_nonneg_left ybig (by positivity)) e4
    unfold evQ
    rw [Int.floor_eq_iff]
    exact final_step (B' q (durQ q n)) (t' * (durQ q n : ℚ)) n (3 * 2^(-53:ℤ) * (t' * (durQ q n : ℚ))) s1 s2 hs hyabs.1 hyabs.2

example : duration (.fin 44100) 44100 = some 1000000000 ∧ events (.fin 44100) 1000000000 = some 44100 ∧
    duration (.fin 48000) 1 = some 20833 ∧ FreqOK 44100 := by
  refine ⟨by decide +kernel, by decide +kernel, by decide +kernel, ?_⟩
  constructor <;> norm_num

end Sig.C17

import SignalModel.SpecMem
import SignalProofs.Lemmas.Xfer
import SignalProofs.Props.C03
/-!
# C05 — conversions act position-wise on the common prefix and touch nothing else

Model: `convert` (the prologue and loop shared by the nine `XAsY` functions) for an arbitrary
per-sample kernel `k`, and `convertFn` (the dispatch on element kinds).  The float→float kernel's
value clauses are in `Props/C05F.lean`.
-/
namespace Sig.C05
open Sig
set_option linter.unusedVariables false
set_option linter.unusedSimpArgs false

/-- **prefix / frame / return value**, for source and destination windows that do not overlap (different
blocks, or disjoint index ranges of one block): with `n = min(src.Len, dst.Len)` and `ys = k(src[0..n))`
position by position, the conversion stores `ys` at destination positions `0..n−1` and returns
`min(src.Length, dst.Length)` (0 when `n = 0`); both headers are untouched (they are not part of the
result) and the heap changes nowhere else – see `convert_cells`. -/
theorem convert_spec (k : Int → Option Int) (h : Heap) (src dst : Buf) (ys : List Int)
    (hch : src.ch = dst.ch) (hws : src.wf h) (hwd : dst.wf h)
    (hk : (C03.cells h { src with len := min src.len dst.len }).mapM k = some ys)
    (hdis : src.blk ≠ dst.blk ∨ src.off + min src.len dst.len ≤ dst.off ∨ dst.off + min src.len dst.len ≤ src.off) :
    convert k h src dst =
      .ok (storeList h dst.blk dst.off ys) (if min src.len dst.len = 0 then 0 else min src.length dst.length) := by
  unfold convert
  have ne : ¬ src.ch ≠ dst.ch := by simp [hch]
  simp only [ne, if_false]
  by_cases hn : min src.len dst.len = 0
  · simp only [hn, if_true]
    have : ys = [] := by
      have hc : C03.cells h { src with len := min src.len dst.len } = [] := by simp [C03.cells, hn]
      rw [hc] at hk; simp at hk; exact hk
    subst this; rfl
  · simp only [hn, if_false]
    let src' : Buf := { src with len := min src.len dst.len }
    have hcl : (C03.cells h src').length = min src.len dst.len := C03.cells_length h src'
    have hws' : src'.wf h := ⟨by simp [src']; have := hws.1; omega, hws.2⟩
    have := xferLoop_closed k src dst 0 (C03.cells h src') ys 0 h
      (by intro j hj; rw [hcl] at hj; rw [Nat.zero_add]; exact C03.cells_get h src' hws' j hj)
      hk (by rw [hcl]; omega) (by rw [hcl]; omega) hwd
      (by rw [hcl]; simpa using hdis)
    rw [hcl, Nat.zero_add] at this
    rw [List.range_eq_range', this]
    simp [Res.bind]

/-- the cells after a conversion: destination positions `0..n−1` hold the converted samples, every
other cell of every block – the source, destination samples from `n` on, every other view – is unchanged -/
theorem convert_cells (h : Heap) (dst : Buf) (ys : List Int) (n : Nat) (hwd : dst.wf h)
    (hn : ys.length = n) (hle : n ≤ dst.len) (blk i : Nat) :
    cell (storeList h dst.blk dst.off ys) blk i =
      if blk = dst.blk ∧ dst.off ≤ i ∧ i < dst.off + n then ys[i - dst.off]? else cell h blk i := by
  have := cell_storeList h dst.blk dst.off ys (dst.off + dst.cap) hwd.2 (by have := hwd.1; omega) blk i
  rw [hn] at this; exact this

/-- **position-wise**: result `j` is the kernel applied to source sample `j`, and to nothing else -/
theorem convert_pointwise (k : Int → Option Int) (xs ys : List Int) (hk : xs.mapM k = some ys) (j : Nat)
    (hj : j < xs.length) : ys[j]? = (xs[j]?).bind k := by
  induction xs generalizing ys j with
  | nil => simp at hj
  | cons x xs ih =>
    rw [List.mapM_cons] at hk
    cases hx : k x with
    | none => simp [hx] at hk
    | some y =>
      cases hr : xs.mapM k with
      | none => simp [hx, hr] at hk
      | some r =>
        simp [hx, hr] at hk; subst hk
        cases j with
        | zero => simp [hx]
        | succ j => simp at hj; simpa using ih r hr j hj

/-- the nine functions are `convert` with the kernel selected by the element kinds and stored depths
(unless the narrowing divisor is zero, which cannot happen for depths equal to the type widths) -/
theorem convertFn_eq (f : ConvFn) (h : Heap) (src dst : Buf)
    (hz : kernelDivZero f src.kind src.depth dst.depth = false) :
    convertFn f h src dst = convert (kernel f src.kind src.depth dst.kind dst.depth) h src dst := by
  unfold convertFn; simp [hz]

/-- for every pair of kinds and depths equal to the kinds' widths the divisor is never zero -/
theorem no_div_zero (f : ConvFn) (s d : Kind) : kernelDivZero f s s.width d.width = false := by
  cases f <;> cases s <;> cases d <;> decide

/-- shape mismatch: see C15. Zero common length: returns 0 and stores nothing -/
theorem convert_zero (k : Int → Option Int) (h : Heap) (src dst : Buf) (hch : src.ch = dst.ch)
    (hn : min src.len dst.len = 0) : convert k h src dst = .ok h 0 := by
  unfold convert; simp [hch, hn]

example :
    let h : Heap := [[1, -2, 3, 4], [9, 9, 9]]
    let s : Buf := { ch := 1, blk := 0, off := 0, len := 4, cap := 4, kind := .i16, depth := 16 }
    let d : Buf := { ch := 1, blk := 1, off := 0, len := 2, cap := 3, kind := .i32, depth := 32 }
    (match convertFn .signedAsSigned h s d with
     | .ok h' r => h' == [[1, -2, 3, 4], [131071, -131072, 9]] && r == 2
     | _ => false) = true := by decide

end Sig.C05

import SignalModel.SpecMem
import SignalProofs.Lemmas.Heap
/-!
# C04 — sample-at-a-time append never exceeds or changes the allocated capacity

Model: `Buf.appendSample`.  `appendSamples` is any number of calls (a fold over the list of values);
the invariant theorem is by induction over that list – no bound on the number of calls.
-/
namespace Sig.C04
open Sig
set_option linter.unusedVariables false

/-- on a full buffer the call is a no-op (in particular for zero-capacity buffers) -/
theorem appendSample_full (h : Heap) (b : Buf) (v : Int) (hf : b.len = b.cap) :
    b.appendSample h v = (h, b) := by
  unfold Buf.appendSample; simp [hf]

/-- on a buffer that is not full: the value lands at interleaved position `Len`, `Len` grows by one,
nothing else in the header and no other storage cell changes -/
theorem appendSample_step (h : Heap) (b : Buf) (v : Int) (hw : b.wf h) (hlt : b.len < b.cap) :
    (b.appendSample h v).2 = { b with len := b.len + 1 } ∧
    ∀ blk i, cell (b.appendSample h v).1 blk i =
      if blk = b.blk ∧ i = b.off + b.len then some v else cell h blk i := by
  unfold Buf.appendSample
  have : b.len ≠ b.cap := by omega
  simp only [this, if_false]
  refine ⟨(by first | rfl | trivial), fun blk i => ?_⟩
  exact cell_store_of_room h b.blk (b.off + b.len) blk i v (b.off + b.cap) hw.2 (by omega)

/-- per-channel length is `ceil(Len / channels)` -/
theorem length_ceil (b : Buf) (hch : 1 ≤ b.ch) : b.length = (b.len + b.ch - 1) / b.ch := by
  unfold Buf.length channelLength
  have : b.ch ≠ 0 := by omega
  simp [this]

/-- any number of calls -/
def appendSamples (h : Heap) (b : Buf) : List Int → Heap × Buf
  | [] => (h, b)
  | v :: vs => let r := b.appendSample h v; appendSamples r.1 r.2 vs

/-- **invariant over any number of calls**: storage identity, offset, capacity, channel count never
change; the length saturates at the capacity; no cell outside the buffer's own spare-capacity window
`[off+len, off+cap)` is ever written; the values that fit land in order. -/
theorem appendSamples_inv (h : Heap) (b : Buf) (vs : List Int) (hw : b.wf h) :
    let r := appendSamples h b vs
    r.2.blk = b.blk ∧ r.2.off = b.off ∧ r.2.cap = b.cap ∧ r.2.ch = b.ch ∧ r.2.depth = b.depth ∧
    r.2.len = min b.cap (b.len + vs.length) ∧ r.2.wf r.1 ∧
    (∀ blk i, ¬ (blk = b.blk ∧ b.off + b.len ≤ i ∧ i < b.off + b.cap) → cell r.1 blk i = cell h blk i) ∧
    (∀ j, j < vs.length → b.len + j < b.cap → cell r.1 b.blk (b.off + b.len + j) = vs[j]?) := by
  induction vs generalizing h b with
  | nil =>
    simp only [appendSamples, List.length_nil, Nat.add_zero]
    have := hw.1
    refine ⟨(by first | rfl | trivial), (by first | rfl | trivial), (by first | rfl | trivial), (by first | rfl | trivial), (by first | rfl | trivial), by omega, hw, fun _ _ _ => (by first | rfl | trivial), fun j hj => by omega⟩
  | cons v vs ih =>
    simp only [appendSamples]
    by_cases hf : b.len = b.cap
    · rw [appendSample_full h b v hf]
      have ih' := ih h b hw
      simp only at ih'
      obtain ⟨a1, a2, a3, a4, a5, a6, a7, a8, a9⟩ := ih'
      refine ⟨a1, a2, a3, a4, a5, by simp only [List.length_cons]; omega, a7, a8, fun j hj hlt => by omega⟩
    · have hlt : b.len < b.cap := by have := hw.1; omega
      obtain ⟨e2, ecell⟩ := appendSample_step h b v hw hlt
      have hw' : (b.appendSample h v).2.wf (b.appendSample h v).1 := by
        rw [e2]
        unfold Buf.appendSample
        simp only [hf, if_false]
        exact ⟨by simp; omega, hasRoom_store h _ _ _ _ _ hw.2⟩
      have ih' := ih (b.appendSample h v).1 (b.appendSample h v).2 hw'
      simp only at ih'
      rw [e2] at ih'
      simp only at ih'
      obtain ⟨a1, a2, a3, a4, a5, a6, a7, a8, a9⟩ := ih'
      rw [e2]
      refine ⟨a1, a2, a3, a4, a5, by simp only [List.length_cons]; omega, a7, ?_, ?_⟩
      · intro blk i hn
        rw [a8 blk i (by intro ⟨x, y, z⟩; exact hn ⟨x, by omega, z⟩), ecell blk i]
        have : ¬ (blk = b.blk ∧ i = b.off + b.len) := by intro ⟨x, y⟩; exact hn ⟨x, by omega, by omega⟩
        simp [this]
      · intro j hj hjl
        cases j with
        | zero =>
          simp only [Nat.add_zero, List.getElem?_cons_zero]
          rw [a8 b.blk (b.off + b.len) (by intro ⟨_, y, _⟩; omega), ecell]
          simp
        | succ j =>
          simp only [List.length_cons] at hj
          have := a9 j (by omega) (by omega)
          simp only [List.getElem?_cons_succ]
          rw [← this]; congr 1; omega

/-- zero-capacity buffers are fixed points of any number of calls -/
theorem appendSamples_zero_cap (h : Heap) (b : Buf) (vs : List Int) (hc : b.cap = 0) (hl : b.len = 0) :
    appendSamples h b vs = (h, b) := by
  induction vs with
  | nil => rfl
  | cons v vs ih => simp only [appendSamples]; rw [appendSample_full h b v (by omega)]; exact ih

example :
    let h : Heap := [[1, 2, 3, 4, 5, 6]]
    let b : Buf := { ch := 2, blk := 0, off := 2, len := 1, cap := 3, kind := .i8, depth := 8 }
    b.wf h ∧ appendSamples h b [7, 8, 9, 10] = ([[1, 2, 3, 7, 8, 6]], { b with len := 3 }) := by
  refine ⟨⟨by decide, [1, 2, 3, 4, 5, 6], rfl, by decide⟩, by decide⟩

end Sig.C04

import SignalModel.SpecMem
import SignalProofs.Lemmas.Heap
import SignalProofs.Props.C04
/-!
# C20 — empty and zero-channel buffers are inert
-/
namespace Sig.C20
open Sig
set_option linter.unusedVariables false

theorem channelLength_zero_len (ch : Nat) : channelLength 0 ch = 0 := by
  unfold channelLength
  split
  · rfl
  · exact Nat.div_eq_of_lt (by omega)

private theorem foldl_const (cols : List (List Int)) (m : Nat) :
    cols.foldl (fun m _ => m) m = m := by
  induction cols generalizing m with
  | nil => rfl
  | cons c cs ih => exact ih m

/-- zero channels or zero capacity ⇒ all four lengths/capacities are 0 -/
theorem lengths_zero (b : Buf) (hl : b.len ≤ b.cap) (hz : b.ch = 0 ∨ b.cap = 0) (hz' : b.ch = 0 → b.cap = 0) :
    b.len = 0 ∧ b.cap = 0 ∧ b.length = 0 ∧ b.capacity = 0 := by
  have hc : b.cap = 0 := by rcases hz with h | h; exact hz' h; exact h
  have hlen : b.len = 0 := by omega
  refine ⟨hlen, hc, ?_, ?_⟩
  · unfold Buf.length; rw [hlen]; exact channelLength_zero_len _
  · unfold Buf.capacity; split; rfl; simp [hc]

/-- `ChannelLength(n, 0) = 0` — in the integer model and in the float64 computation the code performs -/
theorem channelLength_zero (n : Nat) : channelLength n 0 = 0 ∧ channelLengthF n 0 = some 0 := by
  constructor
  · unfold channelLength; simp
  · unfold channelLengthF; simp

/-- **writers** on any zero-length buffer return 0 and transfer nothing -/
theorem write_zero_len (cv : Int → Option Int) (h : Heap) (src : List Int) (dst : Buf) (hl : dst.len = 0) :
    write cv h src dst = .ok h 0 := by
  unfold write
  simp [hl, storeList, channelLength_zero_len]

/-- **readers** on any zero-length buffer return 0 and leave the caller's slice as it was -/
theorem read_zero_len (cv : Int → Option Int) (h : Heap) (src : Buf) (dst : List Int) (hl : src.len = 0) :
    read cv h src dst = .ok h (dst, 0) := by
  unfold read
  simp [hl, channelLength_zero_len]

/-- **all nine conversions** with a zero-length source or destination return 0 and transfer nothing -/
theorem conv_zero_len (f : ConvFn) (h : Heap) (src dst : Buf) (he : src.ch = dst.ch)
    (hl : src.len = 0 ∨ dst.len = 0) : convertFn f h src dst = .ok h 0 := by
  have : min src.len dst.len = 0 := by rcases hl with h | h <;> simp [h]
  unfold convertFn convert
  simp [he, this]

private theorem wsChans_zero (cv : Int → Option Int) (dst : Buf) (c : Nat) (cols : List (List Int)) (h : Heap) :
    wsChans cv dst 0 c cols h = .ok h () := by
  induction cols generalizing c with
  | nil => rfl
  | cons col cols ih => exact ih (c + 1)

/-- `WriteStriped` on a zero-length buffer (slice count matching) returns 0, writes nothing -/
theorem writeStriped_zero_len (cv : Int → Option Int) (h : Heap) (src : List (List Int)) (dst : Buf)
    (hc : dst.ch = src.length) (hl : dst.len = 0) : writeStriped cv h src dst = .ok h 0 := by
  unfold writeStriped
  have hL : dst.length = 0 := by
    unfold Buf.length; rw [hl]; exact channelLength_zero_len _
  simp [hc, hL, wsChans_zero, Res.bind]

private theorem chanLen_zero (b : Buf) (hL : b.length = 0) (c : Nat) : b.chanLen c = 0 := by
  unfold Buf.chanLen; split <;> omega

private theorem rsChans_zero (cv : Int → Option Int) (h : Heap) (src : Buf) (hL : src.length = 0) (c : Nat)
    (cols : List (List Int)) : rsChans cv h src c cols = .ok h cols := by
  induction cols generalizing c with
  | nil => rfl
  | cons col cols ih => simp [rsChans, rsChan, chanLen_zero src hL, Res.bind, ih]

private theorem rsCount_zero (src : Buf) (hL : src.length = 0) (c : Nat) (cols : List (List Int)) :
    rsCount src c cols = 0 := by
  induction cols generalizing c with
  | nil => rfl
  | cons col cols ih => simp [rsCount, chanLen_zero src hL, ih]

private theorem foldl_max_zero (cols : List (List Int)) (m : Nat) :
    cols.foldl (fun m col => max m (min col.length 0)) m = m := by
  induction cols generalizing m with
  | nil => rfl
  | cons c cs ih => simp only [List.foldl_cons, Nat.min_zero, Nat.max_zero]; simpa using ih m

/-- `ReadStriped` on a zero-length buffer returns 0 and leaves the caller's slices as they were -/
theorem readStriped_zero_len (cv : Int → Option Int) (h : Heap) (src : Buf) (dst : List (List Int))
    (hc : src.ch = dst.length) (hl : src.len = 0) : readStriped cv h src dst = .ok h (dst, 0) := by
  unfold readStriped
  have hL : src.length = 0 := by
    unfold Buf.length; rw [hl]; exact channelLength_zero_len _
  simp [hc, hL, rsChans_zero, rsCount_zero, Res.bind]

/-- single-sample appends are no-ops on zero-capacity buffers, for any number of calls -/
theorem appendSamples_inert (h : Heap) (b : Buf) (vs : List Int) (hc : b.cap = 0) (hl : b.len = 0) :
    C04.appendSamples h b vs = (h, b) := C04.appendSamples_zero_cap h b vs hc hl

/-- appending an empty buffer to a zero-channel or zero-capacity buffer leaves it as it was, without
a panic (in particular no division by zero in `alignCapacity`) -/
theorem append_empty_inert (h : Heap) (dst src : Buf) (self : Bool) (g : Nat) (he : dst.ch = src.ch)
    (hd : dst.len = 0) (hs : src.len = 0) (hz : dst.ch = 0 ∨ dst.cap = 0) :
    dst.append h src self g = .ok h dst := by
  unfold Buf.append
  have ne : ¬ dst.ch ≠ src.ch := by simp [he]
  simp only [ne, if_false, hd, hs, Nat.add_zero, Nat.not_lt_zero, Buf.firstCells, List.range_zero, List.map_nil, storeList]
  have ha : alignCap dst.ch dst.cap = dst.cap := by
    unfold alignCap; rcases hz with z | z <;> simp [z]
  simp only [ha]
  cases dst; simp_all

example : channelLengthF 5 0 = some 0 ∧ channelLength 7 2 = 4 ∧ channelLengthF 7 2 = some 4 := by
  refine ⟨by decide, by decide, by decide +kernel⟩

end Sig.C20

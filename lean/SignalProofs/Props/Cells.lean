import SignalProofs.Lemmas.Encode
import SignalProofs.Props.C05F
/-!
# Values and cells: what the model prints is what the theorems speak about

The float theorems (C05, C08, C09, C17) are statements about `FV` values; the driver and the
implementation exchange *cells* (bit patterns).  Here: every value the model's float kernels produce
is a value of the destination format, and encoding such a value into a cell and decoding the cell gives
the value back.  So "the model's cell equals the implementation's cell" (the correspondence) and "the
model's value satisfies P" (the theorem) compose without loss.
-/
namespace Sig.Cells
open Sig FV
set_option linter.unusedVariables false
set_option linter.unusedSimpArgs false

theorem zero_isFmt (F : Fmt) (b : Bool) : IsFmt F (FV.zero b) := by
  cases b
  · show FV.round F 0 = .fin 0
    unfold FV.round
    have h0 : rne F 0 = 0 := rne_zero F
    have hp2 : ¬ pow2 (F.emax + 1) ≤ 0 := by
      rw [pow2_eq, not_le]; exact two_zpow_pos _
    simp [h0, hp2, FV.zero]
  · rfl

/-- every result of `round` is a value of the format -/
theorem round_isFmt (F : Fmt) (hp : 1 ≤ F.p) (q : ℚ) (nz : Bool) : IsFmt F (FV.round F q nz) := by
  unfold IsFmt FV.round
  simp only []
  by_cases hov : pow2 (F.emax + 1) ≤ (if rne F q < 0 then -rne F q else rne F q)
  · rw [if_pos hov]; rfl
  · rw [if_neg hov]
    by_cases hr0 : rne F q = 0
    · rw [if_pos hr0]; exact zero_isFmt F _
    · rw [if_neg hr0]
      show FV.round F (rne F q) = .fin (rne F q)
      unfold FV.round
      have hid := C05F.rne_idem F hp q
      simp only [hid, if_neg hov, if_neg hr0]

theorem conv_isFmt (F : Fmt) (hp : 1 ≤ F.p) (v : FV) : IsFmt F (FV.conv F v) := by
  cases v with
  | nan => rfl
  | inf n => rfl
  | nzero => rfl
  | fin q => exact round_isFmt F hp q false

theorem ofInt_isFmt (F : Fmt) (hp : 1 ≤ F.p) (n : ℤ) : IsFmt F (FV.ofInt F n) :=
  round_isFmt F hp _ false

theorem nan_isFmt (F : Fmt) : IsFmt F .nan := rfl
theorem inf_isFmt (F : Fmt) (b : Bool) : IsFmt F (.inf b) := rfl

macro "fmt_cases" hp:term : tactic =>
  `(tactic| (repeat' split) <;>
      first | exact nan_isFmt _ | exact inf_isFmt _ _ | exact zero_isFmt _ _ | exact round_isFmt _ $hp _ _)

theorem div_isFmt (F : Fmt) (hp : 1 ≤ F.p) (x y : FV) : IsFmt F (FV.div F x y) := by
  unfold FV.div; fmt_cases hp

theorem mul_isFmt (F : Fmt) (hp : 1 ≤ F.p) (x y : FV) : IsFmt F (FV.mul F x y) := by
  unfold FV.mul; fmt_cases hp

theorem add_isFmt (F : Fmt) (hp : 1 ≤ F.p) (x y : FV) : IsFmt F (FV.add F x y) := by
  unfold FV.add; fmt_cases hp

theorem sub_isFmt (F : Fmt) (hp : 1 ≤ F.p) (x y : FV) : IsFmt F (FV.sub F x y) :=
  add_isFmt F hp _ _

/-- the values the integer→float kernels produce are values of the destination format -/
theorem s2fK_isFmt (F : Fmt) (hp : 1 ≤ F.p) (sb : Nat) (x : Int) : IsFmt F (s2fK F sb x) := by
  unfold s2fK; simp only []; split <;> exact div_isFmt F hp _ _

theorem u2fK_isFmt (F : Fmt) (hp : 1 ≤ F.p) (sb : Nat) (x : Int) : IsFmt F (u2fK F sb x) := by
  unfold u2fK; simp only []; split <;> exact div_isFmt F hp _ _

theorem fmt_ieee (k : Kind) : IEEEFmt k.fmt := by
  unfold Kind.fmt; split
  · exact ieee_f32
  · exact ieee_f64

theorem fmt_p (k : Kind) : 1 ≤ k.fmt.p := by have := (fmt_ieee k).p2; omega

/-- **cell round trip**: a value of the destination kind's format, stored as a cell and loaded again,
is the same value -/
theorem cell_roundtrip (k : Kind) (v : FV) (hv : IsFmt k.fmt v) : cellToFV k (fvToCell k v) = v := by
  unfold cellToFV fvToCell
  rw [Int.toNat_natCast]
  exact decode_encode k.fmt (fmt_ieee k) v hv

/-- the cell written by a float→float conversion decodes to exactly `FV.conv` of the source value -/
theorem conv_cell (s d : Kind) (x : Int) :
    cellToFV d (fvToCell d (FV.conv d.fmt (cellToFV s x))) = FV.conv d.fmt (cellToFV s x) :=
  cell_roundtrip d _ (conv_isFmt d.fmt (fmt_p d) _)

/-- the cell written by an integer→float conversion decodes to exactly `FV.ofInt` -/
theorem ofInt_cell (d : Kind) (x : Int) :
    cellToFV d (fvToCell d (FV.ofInt d.fmt x)) = FV.ofInt d.fmt x :=
  cell_roundtrip d _ (ofInt_isFmt d.fmt (fmt_p d) _)

/-- the cell written by `SignedAsFloat` / `UnsignedAsFloat` decodes to exactly the kernel's value, so
the C09 theorems about `s2fK` / `u2fK` are statements about the cells the driver compares -/
theorem s2f_cell (d : Kind) (sb : Nat) (x : Int) :
    cellToFV d (fvToCell d (s2fK d.fmt sb x)) = s2fK d.fmt sb x :=
  cell_roundtrip d _ (s2fK_isFmt d.fmt (fmt_p d) sb x)

theorem u2f_cell (d : Kind) (sb : Nat) (x : Int) :
    cellToFV d (fvToCell d (u2fK d.fmt sb x)) = u2fK d.fmt sb x :=
  cell_roundtrip d _ (u2fK_isFmt d.fmt (fmt_p d) sb x)

/-- non-vacuity: the smallest subnormal, the largest finite value and −0 of binary64 are values of
the format -/
example : IsFmt f64 (.fin 0) ∧ IsFmt f64 .nzero ∧ IsFmt f64 (.inf true) := by
  exact ⟨zero_isFmt f64 false, zero_isFmt f64 true, conv_isFmt f64 (by decide) (.inf true)⟩

end Sig.Cells

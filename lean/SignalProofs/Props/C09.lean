import SignalModel.Spec
import SignalProofs.Lemmas.FloatOps
import SignalProofs.Props.C16
/-!
# C09 — fixed-to-floating conversion normalises into [−1,1]

Model: `s2fK` / `u2fK` (SignalModel/FloatK.lean) over the executable IEEE-754 model, for every float
format `F` and source depth `sb` in which the integers up to 2^sb are exactly representable
(`Exact F sb`: float64 with depths 8, 16, 32 and float32 with depths 8, 16 – the classes for which the
property promises injectivity / round trips – and every other pair with `sb ≤ F.p`).
`UnsignedAsFloat` is modelled **as coded** (the test is on the code, not on the amplitude): the clauses
that are false of it are proved false (`u_inj_counterexample`, `u_roundtrip_counterexample`) and the
strongest true statements are given as `…_partial`; this is known finding C09.
-/
namespace Sig.C09
open Sig FV Spec
set_option linter.unusedVariables false
set_option linter.unusedSimpArgs false

def M (b : Nat) : ℤ := 2^(b-1) - 1
def S (b : Nat) : ℤ := 2^(b-1)

/-- the integers of a `sb`-bit format are exactly representable in `F`, and their reciprocals do not
underflow -/
structure Exact (F : Fmt) (sb : Nat) : Prop where
  sb1 : 2 ≤ sb
  sb64 : sb ≤ 64
  psb : sb ≤ F.p
  emin : F.emin ≤ -(sb : ℤ) - (F.p : ℤ)
  emax : (F.p : ℤ) ≤ F.emax + 1

theorem exact_f64_8 : Exact f64 8 := ⟨by decide, by decide, by decide, by decide, by decide⟩
theorem exact_f64_16 : Exact f64 16 := ⟨by decide, by decide, by decide, by decide, by decide⟩
theorem exact_f64_32 : Exact f64 32 := ⟨by decide, by decide, by decide, by decide, by decide⟩
theorem exact_f32_8 : Exact f32 8 := ⟨by decide, by decide, by decide, by decide, by decide⟩
theorem exact_f32_16 : Exact f32 16 := ⟨by decide, by decide, by decide, by decide, by decide⟩

section
variable {F : Fmt} {sb : Nat} (hE : Exact F sb)
include hE

theorem basics : 1 ≤ F.p ∧ F.emin ≤ 0 ∧ 0 < M sb ∧ 0 < S sb ∧ M sb + 1 = S sb ∧ 2 * S sb ≤ 2^F.p ∧ (2:ℤ)^sb = 2 * S sb := by
  obtain ⟨a, a64, b, c, d⟩ := hE
  have hS : (2:ℤ)^sb = 2 * 2^(sb-1) := by
    have : sb = (sb - 1) + 1 := by omega
    conv => lhs; rw [this, pow_succ]
    ring
  have hpos : (0:ℤ) < 2^(sb-1) := by positivity
  have h2 : (2:ℤ) ≤ 2^(sb-1) := by
    have : (2:ℤ)^1 ≤ 2^(sb-1) := pow_le_pow_right₀ (by norm_num) (by omega)
    simpa using this
  refine ⟨by omega, by omega, by unfold M; omega, by unfold S; exact hpos, by unfold M S; ring, ?_, by unfold S; exact hS⟩
  unfold S; rw [← hS]
  exact pow_le_pow_right₀ (by norm_num) b

/-- integers of magnitude below 2^p round to themselves -/
theorem rne_int (n : ℤ) (hn : n.natAbs < 2^F.p) : rne F (n:ℚ) = n := by
  obtain ⟨p1, e0, _⟩ := basics hE
  have := rne_fix F p1 n 0 hn e0
  simpa using this

theorem natAbs_lt (n : ℤ) (h : |n| ≤ 2 * S sb - 1) : n.natAbs < 2^F.p := by
  obtain ⟨_, _, _, _, _, hb, _⟩ := basics hE
  have : (n.natAbs : ℤ) < 2^F.p := by rw [Int.natCast_natAbs]; omega
  exact_mod_cast this

theorem ofInt_eq (n : ℤ) (h : |n| ≤ 2 * S sb - 1) : FV.ofInt F n = .fin n := by
  obtain ⟨p1, e0, _⟩ := basics hE
  by_cases h0 : n = 0
  · subst h0; simp [FV.ofInt, FV.round, rne_zero, FV.zero, pow2_eq]
    exact two_zpow_pos _
  · exact ofInt_exact F p1 e0 hE.emax n h0 (natAbs_lt hE n h)

end

/-- the value `SignedAsFloat` computes, on the rational line -/
def s2q (F : Fmt) (sb : Nat) (x : ℤ) : ℚ :=
  if x > 0 then rne F ((x:ℚ) / (M sb : ℚ)) else rne F ((x:ℚ) / (S sb : ℚ))

/-- the value `UnsignedAsFloat` computes **as coded** -/
def u2q (F : Fmt) (sb : Nat) (x : ℤ) : ℚ :=
  if x > 0 then rne F (((x - S sb : ℤ) : ℚ) / (M sb : ℚ)) else rne F (((x - S sb : ℤ) : ℚ) / (S sb : ℚ))

section
variable {F : Fmt} {sb : Nat} (hE : Exact F sb)
include hE

/-- quotients of magnitude at most 1 stay within [−1, 1] after rounding and never overflow -/
theorem rne_unit {t : ℚ} (h : |t| ≤ 1) : |rne F t| ≤ 1 ∧ |rne F t| < (2:ℚ)^(F.emax + 1) := by
  obtain ⟨p1, e0, _⟩ := basics hE
  have one : rne F (1:ℚ) = 1 := by
    have := rne_int hE 1 (by simpa using Nat.one_lt_two_pow (by omega : F.p ≠ 0))
    simpa using this
  have habs := abs_le.mp h
  have up : rne F t ≤ 1 := by have := rne_mono F p1 habs.2; rwa [one] at this
  have lo : -1 ≤ rne F t := by
    have := rne_mono F p1 habs.1; rwa [rne_neg, one] at this
  have hle : |rne F t| ≤ 1 := abs_le.mpr ⟨lo, up⟩
  refine ⟨hle, lt_of_le_of_lt hle ?_⟩
  have : (0:ℤ) < F.emax + 1 := by have := hE.emax; omega
  exact one_lt_zpow₀ (by norm_num) this

/-- a non-zero quotient `n/d` with `|n| ≤ d ≤ 2^sb` does not round to zero, and keeps its sign -/
theorem rne_quot_pos {n d : ℤ} (hn : 0 < n) (hd : 0 < d) (hdb : d ≤ 2 * S sb) : 0 < rne F ((n:ℚ) / d) := by
  obtain ⟨p1, e0, mp, sp, ms, hb, h2⟩ := basics hE
  -- 2^(-sb) is representable and is a lower bound of n/d
  have hrep : rne F ((1:ℚ) * 2^(-(sb:ℤ))) = (1:ℚ) * 2^(-(sb:ℤ)) := by
    have := rne_fix F p1 1 (-(sb:ℤ)) (by simpa using Nat.one_lt_two_pow (by omega : F.p ≠ 0)) (by have := hE.emin; omega)
    simpa using this
  have hdq : (0:ℚ) < d := by exact_mod_cast hd
  have hle : (1:ℚ) * 2^(-(sb:ℤ)) ≤ (n:ℚ) / d := by
    rw [one_mul, zpow_neg, zpow_natCast, le_div_iff₀ hdq, inv_mul_le_iff₀ (by positivity)]
    have h1 : (d:ℚ) ≤ 2^sb := by
      have : d ≤ (2:ℤ)^sb := by rw [h2]; exact hdb
      exact_mod_cast this
    have h3 : (1:ℚ) ≤ n := by exact_mod_cast hn
    nlinarith [pow_pos (by norm_num : (0:ℚ) < 2) sb]
  have := rne_mono F p1 hle
  rw [hrep] at this
  have hp : (0:ℚ) < (1:ℚ) * 2^(-(sb:ℤ)) := by positivity
  linarith

theorem div_fin (a b : ℚ) (hb : b ≠ 0) (h1 : |a / b| ≤ 1) (hne : rne F (a / b) ≠ 0) :
    FV.div F (.fin a) (.fin b) = .fin (rne F (a / b)) := by
  have ⟨_, hov⟩ := rne_unit hE h1
  simp only [FV.div, FV.toRat?, hb, if_false]
  unfold FV.round
  simp only [abs_eq_ite, pow2_eq, not_le.mpr hov, if_false, hne]

theorem msv_eq : maxSignedValue sb = M sb := by
  have := (C16.bounds sb (by have := hE.sb1; omega) hE.sb64).1
  rw [this]; rfl

theorem consts : FV.ofInt F (maxSignedValue sb) = .fin (M sb) ∧
    FV.add F (.fin (M sb)) (.fin 1) = .fin (S sb) := by
  obtain ⟨p1, e0, mp, sp, ms, hb, h2⟩ := basics hE
  refine ⟨by rw [msv_eq hE]; exact ofInt_eq hE _ (by rw [abs_of_pos mp]; omega), ?_⟩
  rw [add_fin]
  have : ((M sb : ℤ) : ℚ) + 1 = ((S sb : ℤ) : ℚ) := by rw [← ms]; push_cast; ring
  rw [this]
  exact round_exact F p1 e0 hE.emax _ (by omega) (natAbs_lt hE _ (by rw [abs_of_pos sp]; omega)) _

/-- **`SignedAsFloat` computes `s2q`** for every code of the source format -/
theorem s2fK_eq (x : ℤ) (hx : -(S sb) ≤ x ∧ x ≤ M sb) : s2fK F sb x = .fin (s2q F sb x) := by
  obtain ⟨p1, e0, mp, sp, ms, hb, h2⟩ := basics hE
  obtain ⟨c1, c2⟩ := consts hE
  have mq : (0:ℚ) < (M sb : ℚ) := by exact_mod_cast mp
  have sq : (0:ℚ) < (S sb : ℚ) := by exact_mod_cast sp
  have hxa : |x| ≤ 2 * S sb - 1 := by rw [abs_le]; constructor <;> omega
  unfold s2fK s2q
  simp only [c1, c2, ofInt_eq hE x hxa]
  by_cases h0 : x > 0
  · simp only [h0, if_true]
    have hx1 : |(x:ℚ) / (M sb : ℚ)| ≤ 1 := by
      have h1 : (0:ℚ) < x := by exact_mod_cast h0
      have h2 : (x:ℚ) ≤ (M sb : ℚ) := by exact_mod_cast hx.2
      rw [abs_of_pos (div_pos h1 mq), div_le_one mq]; exact h2
    exact div_fin hE _ _ (ne_of_gt mq) hx1 (ne_of_gt (rne_quot_pos hE h0 mp (by omega)))
  · simp only [h0, if_false]
    rcases eq_or_lt_of_le (not_lt.mp h0) with hz | hneg
    · subst hz
      simp [FV.div, FV.toRat?, ne_of_gt sq, FV.round, rne_zero, FV.zero, FV.isNeg, pow2_eq, not_lt.mpr (le_of_lt sq)]
      exact two_zpow_pos _
    · have h1 : (x:ℚ) < 0 := by exact_mod_cast hneg
      have h2 : -(S sb : ℚ) ≤ (x:ℚ) := by exact_mod_cast hx.1
      have hx1 : |(x:ℚ) / (S sb : ℚ)| ≤ 1 := by
        rw [abs_le]; constructor
        · rw [le_div_iff₀ sq]; linarith
        · have : (x:ℚ) / (S sb : ℚ) < 0 := div_neg_of_neg_of_pos h1 sq
          linarith
      have hne : rne F ((x:ℚ) / (S sb : ℚ)) ≠ 0 := by
        have hp := rne_quot_pos hE (n := -x) (d := S sb) (by omega) sp (by omega)
        have e : (((-x : ℤ)) : ℚ) / (S sb : ℚ) = -((x:ℚ) / (S sb : ℚ)) := by push_cast; ring
        rw [e, rne_neg] at hp
        intro h; rw [h] at hp; simp at hp
      exact div_fin hE _ _ (ne_of_gt sq) hx1 hne

/-- rounding error of a quotient of magnitude at most 1: at most 2^−p -/
theorem rne_err_unit {t : ℚ} (h : |t| ≤ 1) : |rne F t - t| ≤ (2:ℚ)^(-(F.p:ℤ)) := by
  have key : ∀ u : ℚ, 0 < u → u ≤ 1 → |rne F u - u| ≤ (2:ℚ)^(-(F.p:ℤ)) := by
    intro u hu hu1
    have he := rne_err_pos F hu
    obtain ⟨l1, _⟩ := ilog2_spec u hu
    have hil : ilog2 u ≤ 0 := by
      by_contra hc
      have : (1:ℤ) ≤ ilog2 u := by omega
      have : (2:ℚ)^(1:ℤ) ≤ 2^(ilog2 u) := zpow_le_zpow_right₀ (by norm_num) this
      norm_num at this; linarith
    have hex : expo F u ≤ -((F.p:ℤ) - 1) := by
      unfold expo
      have := hE.emin; have := hE.sb1
      omega
    calc |rne F u - u| ≤ 2^(expo F u) / 2 := he
      _ ≤ 2^(-((F.p:ℤ) - 1)) / 2 := by
          apply div_le_div_of_nonneg_right _ (by norm_num)
          exact zpow_le_zpow_right₀ (by norm_num) hex
      _ = 2^(-(F.p:ℤ)) := by
          rw [show -((F.p:ℤ) - 1) = -(F.p:ℤ) + 1 by ring, zpow_add₀ (by norm_num)]; simp
  rcases lt_trichotomy t 0 with hn | hz | hp
  · have := key (-t) (by linarith) (by have := (abs_le.mp h).1; linarith)
    rw [rne_neg] at this
    have e : -rne F t - -t = -(rne F t - t) := by ring
    rwa [e, abs_neg] at this
  · subst hz; simp [rne_zero]
  · exact key t hp (abs_le.mp h).2

theorem pow_lt_gap (hp2 : sb + 1 ≤ F.p) : 2 * (2:ℚ)^(-(F.p:ℤ)) < 1 / (S sb : ℚ) := by
  have hS : (S sb : ℚ) = 2^((sb:ℤ) - 1) := by
    unfold S; push_cast
    rw [← zpow_natCast]; congr 1
    have := hE.sb1; omega
  rw [hS, one_div, ← zpow_neg]
  have : (2:ℚ) * 2^(-(F.p:ℤ)) = 2^(1 - (F.p:ℤ)) := by
    rw [show (1:ℤ) - F.p = 1 + -(F.p:ℤ) by ring, zpow_add₀ (by norm_num)]; simp
  rw [this]
  exact zpow_lt_zpow_right₀ (by norm_num) (by omega)

/-- strictly increasing arguments at least `1/S` apart, of magnitude at most 1, have strictly
increasing roundings (needs one spare bit of precision) -/
theorem rne_strict (hp2 : sb + 1 ≤ F.p) {t u : ℚ} (ht : |t| ≤ 1) (hu : |u| ≤ 1) (hgap : t + 1 / (S sb : ℚ) ≤ u) :
    rne F t < rne F u := by
  have e1 := abs_le.mp (rne_err_unit hE ht)
  have e2 := abs_le.mp (rne_err_unit hE hu)
  have g := pow_lt_gap hE hp2
  linarith [e1.1, e1.2, e2.1, e2.2]

/-! ### signed sources -/

theorem s_quot_abs (x : ℤ) (hx : -(S sb) ≤ x ∧ x ≤ M sb) :
    (x > 0 → |(x:ℚ) / (M sb : ℚ)| ≤ 1) ∧ (¬ x > 0 → |(x:ℚ) / (S sb : ℚ)| ≤ 1) := by
  obtain ⟨p1, e0, mp, sp, ms, hb, h2⟩ := basics hE
  have mq : (0:ℚ) < (M sb : ℚ) := by exact_mod_cast mp
  have sq : (0:ℚ) < (S sb : ℚ) := by exact_mod_cast sp
  constructor
  · intro h0
    have h1 : (0:ℚ) < x := by exact_mod_cast h0
    have h2 : (x:ℚ) ≤ (M sb : ℚ) := by exact_mod_cast hx.2
    rw [abs_of_pos (div_pos h1 mq), div_le_one mq]; exact h2
  · intro h0
    have h1 : (x:ℚ) ≤ 0 := by exact_mod_cast (not_lt.mp h0)
    have h2 : -(S sb : ℚ) ≤ (x:ℚ) := by exact_mod_cast hx.1
    rw [abs_le]; constructor
    · rw [le_div_iff₀ sq]; linarith
    · have : (x:ℚ) / (S sb : ℚ) ≤ 0 := div_nonpos_of_nonpos_of_nonneg h1 (le_of_lt sq)
      linarith

/-- **range** -/
theorem s_range (x : ℤ) (hx : -(S sb) ≤ x ∧ x ≤ M sb) : -1 ≤ s2q F sb x ∧ s2q F sb x ≤ 1 := by
  obtain ⟨a, b⟩ := s_quot_abs hE x hx
  unfold s2q
  split_ifs with h0
  · exact abs_le.mp (rne_unit hE (a h0)).1
  · exact abs_le.mp (rne_unit hE (b h0)).1

/-- **endpoints**: lowest code ↦ −1, zero ↦ 0, highest code ↦ 1 -/
theorem s_endpoints : s2q F sb (-(S sb)) = -1 ∧ s2q F sb 0 = 0 ∧ s2q F sb (M sb) = 1 := by
  obtain ⟨p1, e0, mp, sp, ms, hb, h2⟩ := basics hE
  have mq : (M sb : ℚ) ≠ 0 := by exact_mod_cast (ne_of_gt mp)
  have sq : (S sb : ℚ) ≠ 0 := by exact_mod_cast (ne_of_gt sp)
  have one : rne F (1:ℚ) = 1 := by
    have := rne_int hE 1 (by simpa using Nat.one_lt_two_pow (by omega : F.p ≠ 0))
    simpa using this
  unfold s2q
  refine ⟨?_, by simp [rne_zero], ?_⟩
  · have : ¬ (-(S sb) > 0) := by omega
    simp only [this, if_false]
    push_cast
    rw [neg_div, div_self sq, rne_neg, one]
  · simp only [gt_iff_lt, mp, if_true]
    rw [div_self mq, one]

/-- **order** -/
theorem s_mono (x y : ℤ) (hx : -(S sb) ≤ x ∧ x ≤ M sb) (hy : -(S sb) ≤ y ∧ y ≤ M sb) (h : x ≤ y) :
    s2q F sb x ≤ s2q F sb y := by
  obtain ⟨p1, e0, mp, sp, ms, hb, h2⟩ := basics hE
  have mq : (0:ℚ) < (M sb : ℚ) := by exact_mod_cast mp
  have sq : (0:ℚ) < (S sb : ℚ) := by exact_mod_cast sp
  have hq : (x:ℚ) ≤ y := by exact_mod_cast h
  unfold s2q
  split_ifs with a b b
  · exact rne_mono F p1 (div_le_div_of_nonneg_right hq (le_of_lt mq))
  · omega
  · have l : rne F ((x:ℚ) / (S sb : ℚ)) ≤ 0 :=
      rne_nonpos F (div_nonpos_of_nonpos_of_nonneg (by exact_mod_cast (not_lt.mp a)) (le_of_lt sq))
    have r : 0 ≤ rne F ((y:ℚ) / (M sb : ℚ)) :=
      rne_nonneg' F (div_nonneg (by exact_mod_cast (le_of_lt b)) (le_of_lt mq))
    linarith
  · exact rne_mono F p1 (div_le_div_of_nonneg_right hq (le_of_lt sq))

/-- **distinct samples give distinct floats** (strictly increasing), with one spare bit of precision –
in particular float64 for depths up to 32 and float32 for depths up to 16 -/
theorem s_strict (hp2 : sb + 1 ≤ F.p) (x y : ℤ) (hx : -(S sb) ≤ x ∧ x ≤ M sb) (hy : -(S sb) ≤ y ∧ y ≤ M sb)
    (h : x < y) : s2q F sb x < s2q F sb y := by
  obtain ⟨p1, e0, mp, sp, ms, hb, h2⟩ := basics hE
  have mq : (0:ℚ) < (M sb : ℚ) := by exact_mod_cast mp
  have sq : (0:ℚ) < (S sb : ℚ) := by exact_mod_cast sp
  have msq : (M sb : ℚ) < (S sb : ℚ) := by exact_mod_cast (by omega : M sb < S sb)
  have hq : (x:ℚ) + 1 ≤ y := by exact_mod_cast (by omega : x + 1 ≤ y)
  obtain ⟨ax, bx⟩ := s_quot_abs hE x hx
  obtain ⟨ay, by_⟩ := s_quot_abs hE y hy
  unfold s2q
  split_ifs with a b b
  · apply rne_strict hE hp2 (ax a) (ay b)
    have : (x:ℚ) / (M sb : ℚ) + 1 / (M sb : ℚ) ≤ (y:ℚ) / (M sb : ℚ) := by
      rw [← add_div]; exact div_le_div_of_nonneg_right hq (le_of_lt mq)
    have : 1 / (S sb : ℚ) ≤ 1 / (M sb : ℚ) := one_div_le_one_div_of_le mq (le_of_lt msq)
    linarith
  · omega
  · -- x ≤ 0 < y
    have r : 0 < rne F ((y:ℚ) / (M sb : ℚ)) := rne_quot_pos hE b mp (by omega)
    have l : rne F ((x:ℚ) / (S sb : ℚ)) ≤ 0 :=
      rne_nonpos F (div_nonpos_of_nonpos_of_nonneg (by exact_mod_cast (not_lt.mp a)) (le_of_lt sq))
    linarith
  · apply rne_strict hE hp2 (bx a) (by_ b)
    rw [← add_div]; exact div_le_div_of_nonneg_right hq (le_of_lt sq)

/-- **one step**: within 2^−p of amplitude / full scale -/
theorem s_one_step (x : ℤ) (hx : -(S sb) ≤ x ∧ x ≤ M sb) :
    |s2q F sb x - (x:ℚ) / (if 0 < x then (M sb : ℚ) else (S sb : ℚ))| ≤ (2:ℚ)^(-(F.p:ℤ)) := by
  obtain ⟨a, b⟩ := s_quot_abs hE x hx
  unfold s2q
  by_cases h0 : x > 0
  · have h0' : 0 < x := h0
    simp only [h0, h0', if_true]; exact rne_err_unit hE (a h0)
  · have h0' : ¬ 0 < x := h0
    simp only [h0, h0', if_false]; exact rne_err_unit hE (b h0)

/-! ### unsigned sources (the conversion **as coded**) -/

theorem u_quot_abs (x : ℤ) (hx : 0 ≤ x ∧ x ≤ 2 * S sb - 1) :
    (x > 0 → |((x - S sb : ℤ) : ℚ) / (M sb : ℚ)| ≤ 1) ∧ (¬ x > 0 → |((x - S sb : ℤ) : ℚ) / (S sb : ℚ)| ≤ 1) := by
  obtain ⟨p1, e0, mp, sp, ms, hb, h2⟩ := basics hE
  have mq : (0:ℚ) < (M sb : ℚ) := by exact_mod_cast mp
  have sq : (0:ℚ) < (S sb : ℚ) := by exact_mod_cast sp
  constructor
  · intro h0
    have h1 : -(M sb : ℚ) ≤ ((x - S sb : ℤ) : ℚ) := by exact_mod_cast (by omega : -(M sb) ≤ x - S sb)
    have h2 : ((x - S sb : ℤ) : ℚ) ≤ (M sb : ℚ) := by exact_mod_cast (by omega : x - S sb ≤ M sb)
    rw [abs_le]; constructor
    · rw [le_div_iff₀ mq]; linarith
    · rw [div_le_one mq]; exact h2
  · intro h0
    have hx0 : x = 0 := by omega
    subst hx0
    simp only [Int.zero_sub, Int.cast_neg, neg_div, div_self (ne_of_gt sq), abs_neg, abs_one, le_refl]

/-- **`UnsignedAsFloat` computes `u2q`** for every code of the source format -/
theorem u2fK_eq (x : ℤ) (hx : 0 ≤ x ∧ x ≤ 2 * S sb - 1) :
    (u2fK F sb x).toRat? = some (u2q F sb x) := by
  obtain ⟨p1, e0, mp, sp, ms, hb, h2⟩ := basics hE
  obtain ⟨c1, c2⟩ := consts hE
  obtain ⟨qa, qb⟩ := u_quot_abs hE x hx
  have mq : (0:ℚ) < (M sb : ℚ) := by exact_mod_cast mp
  have sq : (0:ℚ) < (S sb : ℚ) := by exact_mod_cast sp
  have hxa : |x| ≤ 2 * S sb - 1 := by rw [abs_le]; constructor <;> omega
  have hsub : (FV.sub F (.fin (x:ℚ)) (.fin (S sb : ℚ))).toRat? = some (((x - S sb : ℤ)) : ℚ) := by
    have hS0 : ((S sb : ℤ) : ℚ) ≠ 0 := ne_of_gt sq
    simp only [FV.sub, FV.neg, hS0, if_false, add_fin]
    have e : (x:ℚ) + -(S sb : ℚ) = ((x - S sb : ℤ) : ℚ) := by push_cast; ring
    rw [e]
    have hfix := rne_int hE (x - S sb) (natAbs_lt hE _ (by rw [abs_le]; constructor <;> omega))
    have := round_toRat F (((x - S sb : ℤ)) : ℚ) ((FV.fin (x:ℚ)).isNeg && (FV.fin (-(S sb : ℚ))).isNeg) (by
      rw [hfix]
      have hb' : |(((x - S sb : ℤ)) : ℚ)| < (2:ℚ)^(F.p) := by
        have : ((x - S sb).natAbs : ℤ) < 2^F.p := by
          exact_mod_cast (natAbs_lt hE (x - S sb) (by rw [abs_le]; constructor <;> omega))
        rw [Int.natCast_natAbs] at this
        exact_mod_cast this
      refine lt_of_lt_of_le hb' ?_
      rw [← zpow_natCast]; exact zpow_le_zpow_right₀ (by norm_num) hE.emax)
    rw [hfix] at this; exact this
  -- the quotient
  have hdiv : ∀ (v : FV) (a b : ℚ), v.toRat? = some a → b ≠ 0 → |a / b| ≤ 1 →
      (FV.div F v (.fin b)).toRat? = some (rne F (a / b)) := by
    intro v a b hv hb hab
    have hov := (rne_unit hE hab).2
    cases v with
    | nan => simp [FV.toRat?] at hv
    | inf n => simp [FV.toRat?] at hv
    | nzero =>
      simp [FV.toRat?] at hv; subst hv
      simp only [FV.div, FV.toRat?, hb, if_false]
      exact round_toRat F _ _ hov
    | fin q =>
      simp [FV.toRat?] at hv; subst hv
      simp only [FV.div, FV.toRat?, hb, if_false]
      exact round_toRat F _ _ hov
  unfold u2fK u2q
  simp only [c1, c2, ofInt_eq hE x hxa]
  by_cases h0 : x > 0
  · simp only [h0, if_true]
    exact hdiv _ _ _ hsub (ne_of_gt mq) (qa h0)
  · simp only [h0, if_false]
    exact hdiv _ _ _ hsub (ne_of_gt sq) (qb h0)

/-- **range** (holds also for the conversion as coded) -/
theorem u_range (x : ℤ) (hx : 0 ≤ x ∧ x ≤ 2 * S sb - 1) : -1 ≤ u2q F sb x ∧ u2q F sb x ≤ 1 := by
  obtain ⟨a, b⟩ := u_quot_abs hE x hx
  unfold u2q
  split_ifs with h0
  · exact abs_le.mp (rne_unit hE (a h0)).1
  · exact abs_le.mp (rne_unit hE (b h0)).1

/-- **endpoints** -/
theorem u_endpoints : u2q F sb 0 = -1 ∧ u2q F sb (S sb) = 0 ∧ u2q F sb (2 * S sb - 1) = 1 := by
  obtain ⟨p1, e0, mp, sp, ms, hb, h2⟩ := basics hE
  have mq : (M sb : ℚ) ≠ 0 := by exact_mod_cast (ne_of_gt mp)
  have sq : (S sb : ℚ) ≠ 0 := by exact_mod_cast (ne_of_gt sp)
  have one : rne F (1:ℚ) = 1 := by
    have := rne_int hE 1 (by simpa using Nat.one_lt_two_pow (by omega : F.p ≠ 0))
    simpa using this
  unfold u2q
  refine ⟨?_, ?_, ?_⟩
  · simp only [gt_iff_lt, lt_self_iff_false, if_false, Int.zero_sub, Int.cast_neg]
    rw [neg_div, div_self sq, rne_neg, one]
  · simp only [gt_iff_lt, sp, if_true, Int.sub_self, Int.cast_zero, zero_div, rne_zero]
  · have h : 2 * S sb - 1 > 0 := by omega
    simp only [h, if_true]
    have : ((2 * S sb - 1 - S sb : ℤ) : ℚ) = (M sb : ℚ) := by rw [← ms]; push_cast; ring
    rw [this, div_self mq, one]

/-- **order** (holds also for the conversion as coded, but not strictly: see below) -/
theorem u_mono (x y : ℤ) (hx : 0 ≤ x ∧ x ≤ 2 * S sb - 1) (hy : 0 ≤ y ∧ y ≤ 2 * S sb - 1) (h : x ≤ y) :
    u2q F sb x ≤ u2q F sb y := by
  obtain ⟨p1, e0, mp, sp, ms, hb, h2⟩ := basics hE
  have mq : (0:ℚ) < (M sb : ℚ) := by exact_mod_cast mp
  rcases eq_or_lt_of_le hx.1 with hx0 | hxp
  · subst hx0
    rw [(u_endpoints hE).1]; exact (u_range hE y hy).1
  · have hyp : y > 0 := by omega
    unfold u2q
    simp only [gt_iff_lt, hxp, hyp, if_true]
    apply rne_mono F p1
    apply div_le_div_of_nonneg_right _ (le_of_lt mq)
    exact_mod_cast (by omega : x - S sb ≤ y - S sb)

/-- the non-zero codes are mapped strictly increasingly: the **only** collision is between 0 and 1 -/
theorem u_strict_partial (hp2 : sb + 1 ≤ F.p) (x y : ℤ) (hx : 1 ≤ x ∧ x ≤ 2 * S sb - 1) (hy : y ≤ 2 * S sb - 1)
    (h : x < y) : u2q F sb x < u2q F sb y := by
  obtain ⟨p1, e0, mp, sp, ms, hb, h2⟩ := basics hE
  have mq : (0:ℚ) < (M sb : ℚ) := by exact_mod_cast mp
  have sq : (0:ℚ) < (S sb : ℚ) := by exact_mod_cast sp
  have msq : (M sb : ℚ) < (S sb : ℚ) := by exact_mod_cast (by omega : M sb < S sb)
  have hxp : x > 0 := by omega
  have hyp : y > 0 := by omega
  obtain ⟨ax, _⟩ := u_quot_abs hE x ⟨by omega, hx.2⟩
  obtain ⟨ay, _⟩ := u_quot_abs hE y ⟨by omega, hy⟩
  unfold u2q
  simp only [hxp, hyp, if_true]
  apply rne_strict hE hp2 (ax hxp) (ay hyp)
  have hq : ((x - S sb : ℤ) : ℚ) + 1 ≤ ((y - S sb : ℤ) : ℚ) := by exact_mod_cast (by omega : x - S sb + 1 ≤ y - S sb)
  have : ((x - S sb : ℤ) : ℚ) / (M sb : ℚ) + 1 / (M sb : ℚ) ≤ ((y - S sb : ℤ) : ℚ) / (M sb : ℚ) := by
    rw [← add_div]; exact div_le_div_of_nonneg_right hq (le_of_lt mq)
  have : 1 / (S sb : ℚ) ≤ 1 / (M sb : ℚ) := one_div_le_one_div_of_le mq (le_of_lt msq)
  linarith

/-- **one step** also holds for the conversion as coded: a code of negative amplitude `a` gives
`rne(a/M)` instead of `rne(a/S)`, and `|a/M − a/S| ≤ 1/S` is one source quantisation step -/
theorem u_one_step (x : ℤ) (hx : 0 ≤ x ∧ x ≤ 2 * S sb - 1) :
    |u2q F sb x - ((x - S sb : ℤ) : ℚ) / (if 0 < x - S sb then (M sb : ℚ) else (S sb : ℚ))| ≤
      1 / (S sb : ℚ) + (2:ℚ)^(-(F.p:ℤ)) := by
  obtain ⟨p1, e0, mp, sp, ms, hb, h2⟩ := basics hE
  have mq : (0:ℚ) < (M sb : ℚ) := by exact_mod_cast mp
  have sq : (0:ℚ) < (S sb : ℚ) := by exact_mod_cast sp
  obtain ⟨qa, qb⟩ := u_quot_abs hE x hx
  have sinv : (0:ℚ) ≤ 1 / (S sb : ℚ) := by positivity
  unfold u2q
  by_cases h0 : x > 0
  · simp only [h0, if_true]
    have err := rne_err_unit hE (qa h0)
    by_cases ha : 0 < x - S sb
    · simp only [ha, if_true]; linarith
    · simp only [ha, if_false]
      -- |a/M − a/S| ≤ 1/S for −M ≤ a ≤ 0
      set a : ℚ := ((x - S sb : ℤ) : ℚ) with had
      have a0 : a ≤ 0 := by rw [had]; exact_mod_cast (by omega : x - S sb ≤ 0)
      have aM : -(M sb : ℚ) ≤ a := by rw [had]; exact_mod_cast (by omega : -(M sb) ≤ x - S sb)
      have hms : (S sb : ℚ) = (M sb : ℚ) + 1 := by rw [← ms]; push_cast; ring
      have hdiff : |a / (M sb : ℚ) - a / (S sb : ℚ)| ≤ 1 / (S sb : ℚ) := by
        have e : a / (M sb : ℚ) - a / (S sb : ℚ) = a / ((M sb : ℚ) * (S sb : ℚ)) := by
          field_simp; rw [hms]; ring
        rw [e, abs_le]
        constructor
        · rw [le_div_iff₀ (by positivity)]
          have : -(1 / (S sb : ℚ)) * ((M sb : ℚ) * (S sb : ℚ)) = -(M sb : ℚ) := by field_simp
          rw [this]; exact aM
        · have : a / ((M sb : ℚ) * (S sb : ℚ)) ≤ 0 := div_nonpos_of_nonpos_of_nonneg a0 (by positivity)
          linarith
      have tri := abs_sub_le (rne F (a / (M sb : ℚ))) (a / (M sb : ℚ)) (a / (S sb : ℚ))
      linarith
  · simp only [h0, if_false]
    have hx0 : x = 0 := by omega
    have ha : ¬ (0 < x - S sb) := by omega
    simp only [ha, if_false]
    have err := rne_err_unit hE (qb h0)
    linarith

/-- codes 0 and 1 collide for **every** depth and float format: injectivity is false of
`UnsignedAsFloat` as coded (known finding C09) -/
theorem u_inj_fails : u2q F sb 0 = u2q F sb 1 := by
  obtain ⟨p1, e0, mp, sp, ms, hb, h2⟩ := basics hE
  have mq : (M sb : ℚ) ≠ 0 := by exact_mod_cast (ne_of_gt mp)
  rw [(u_endpoints hE).1]
  unfold u2q
  have one : rne F (1:ℚ) = 1 := by
    have := rne_int hE 1 (by simpa using Nat.one_lt_two_pow (by omega : F.p ≠ 0))
    simpa using this
  simp only [gt_iff_lt, Int.zero_lt_one, if_true]
  have : ((1 - S sb : ℤ) : ℚ) = -(M sb : ℚ) := by rw [← ms]; push_cast; ring
  rw [this, neg_div, div_self mq, rne_neg, one]

/-! ### the executable predicates of `Spec.C09` hold of the model's outputs -/

theorem tol_ge : (2:ℚ)^(-(F.p:ℤ)) ≤ 1 / (((2:ℤ)^(F.p-1) : ℤ) : ℚ) ∧ 1 / (S sb : ℚ) = 1 / (((2:ℤ)^(sb-1) : ℤ) : ℚ) := by
  obtain ⟨p1, _⟩ := basics hE
  constructor
  · push_cast
    rw [one_div, ← zpow_natCast, ← zpow_neg]
    exact zpow_le_zpow_right₀ (by norm_num) (by omega)
  · rfl

theorem s_rangeOK (x : ℤ) (hx : -(S sb) ≤ x ∧ x ≤ M sb) : C09.rangeOK (s2fK F sb x) = true := by
  rw [s2fK_eq hE x hx]
  obtain ⟨a, b⟩ := s_range hE x hx
  simp [C09.rangeOK, le_fin, a, b]

theorem s_endpointsOK (x : ℤ) (hx : -(S sb) ≤ x ∧ x ≤ M sb) :
    C09.endpointsOK true sb x (s2fK F sb x) = true := by
  rw [s2fK_eq hE x hx]
  obtain ⟨e1, e2, e3⟩ := s_endpoints hE
  unfold C09.endpointsOK loCode hiCode zeroCode
  simp only [if_true, Bool.and_eq_true, Bool.or_eq_true, Bool.not_eq_true', decide_eq_false_iff_not, decide_eq_true_eq]
  refine ⟨⟨?_, ?_⟩, ?_⟩
  · by_cases h : x = -(2:ℤ)^(sb-1)
    · right; rw [h]; have := e1; unfold S at this; rw [this]
    · left; exact h
  · by_cases h : x = (2:ℤ)^(sb-1) - 1
    · right; rw [h]; have := e3; unfold M at this; rw [this]
    · left; exact h
  · by_cases h : x = 0
    · right; rw [h, e2]
    · left; exact h

theorem s_monoOK (x y : ℤ) (hx : -(S sb) ≤ x ∧ x ≤ M sb) (hy : -(S sb) ≤ y ∧ y ≤ M sb) :
    C09.monoOK x y (s2fK F sb x) (s2fK F sb y) = true := by
  rw [s2fK_eq hE x hx, s2fK_eq hE y hy]
  unfold C09.monoOK
  by_cases h : x ≤ y
  · simp [h, le_fin, s_mono hE x y hx hy h]
  · simp [h]

theorem s_injOK (hp2 : sb + 1 ≤ F.p) (x y : ℤ) (hx : -(S sb) ≤ x ∧ x ≤ M sb) (hy : -(S sb) ≤ y ∧ y ≤ M sb) :
    C09.injOK x y (s2fK F sb x) (s2fK F sb y) = true := by
  rw [s2fK_eq hE x hx, s2fK_eq hE y hy]
  unfold C09.injOK
  rcases lt_trichotomy x y with h | h | h
  · have := s_strict hE hp2 x y hx hy h
    have hne : s2q F sb x ≠ s2q F sb y := ne_of_lt this
    simp [hne]
  · simp [h]
  · have := s_strict hE hp2 y x hy hx h
    have hne : s2q F sb x ≠ s2q F sb y := ne_of_gt this
    simp [hne]

theorem s_oneStepOK (x : ℤ) (hx : -(S sb) ≤ x ∧ x ≤ M sb) :
    C09.oneStepOK F true sb x (s2fK F sb x) = true := by
  rw [s2fK_eq hE x hx]
  obtain ⟨t1, t2⟩ := tol_ge hE
  obtain ⟨p1, e0, mp, sp, ms, hb, h2⟩ := basics hE
  have sq : (0:ℚ) < (S sb : ℚ) := by exact_mod_cast sp
  have key := abs_le.mp (s_one_step hE x hx)
  unfold C09.oneStepOK
  simp only [FV.toRat?, Spec.amp, if_true]
  have hfs : (if 0 < x then (((2:ℤ)^(sb-1) - 1 : ℤ) : ℚ) else (((2:ℤ)^(sb-1) : ℤ) : ℚ)) =
      (if 0 < x then (M sb : ℚ) else (S sb : ℚ)) := by simp [M, S]
  rw [hfs]
  have hpos : (0:ℚ) ≤ 1 / (((2:ℤ)^(sb-1) : ℤ) : ℚ) := by rw [← t2]; positivity
  simp only [Bool.and_eq_true, decide_eq_true_eq]
  constructor <;> linarith [key.1, key.2]

end

/-! ### finite tables (evaluated by the kernel on the concrete soft-float) -/

/-- **exact round trip, 8-bit signed through float64**: every one of the 256 codes -/
theorem s_roundtrip_8 : ∀ x : Fin 256, f2sK ⟨8, true⟩ 8 (s2fK f64 8 ((x.val : ℤ) - 128)) = some ((x.val : ℤ) - 128) := by
  decide +kernel

/-- **round trip, 8-bit unsigned through float64, as coded**: every code except 1 -/
theorem u_roundtrip_8_partial : ∀ x : Fin 256, x.val ≠ 1 →
    f2uK ⟨8, false⟩ 8 (u2fK f64 8 (x.val : ℤ)) = some (x.val : ℤ) := by
  decide +kernel

/-- … and code 1 comes back as 0 (known finding C09) -/
theorem u_roundtrip_counterexample : f2uK ⟨8, false⟩ 8 (u2fK f64 8 1) = some 0 := by
  decide +kernel

def within1 (r : Option ℤ) (x : ℤ) : Bool :=
  match r with
  | some z => decide (z - x ≤ 1 ∧ x - z ≤ 1)
  | none => false

/-- **through float32, 8-bit signed**: the round trip is within one step (it is not exact: the
float32 quotient loses the last bit for some codes) -/
theorem s_roundtrip_8_f32 : ∀ x : Fin 256,
    within1 (f2sK ⟨8, true⟩ 8 (s2fK f32 8 ((x.val : ℤ) - 128))) ((x.val : ℤ) - 128) = true := by
  decide +kernel

example : s2fK f64 16 32767 = .fin 1 ∧ s2fK f64 16 (-32768) = .fin (-1) ∧ u2fK f64 8 128 = .fin 0 ∧
    u2fK f64 8 0 = .fin (-1) ∧ u2fK f64 8 1 = .fin (-1) := by
  refine ⟨by decide +kernel, by decide +kernel, by decide +kernel, by decide +kernel, by decide +kernel⟩

end Sig.C09

import SignalProofs.Lemmas.RneSandwich
import SignalProofs.Lemmas.RneSign
set_option linter.unusedVariables false
set_option linter.unusedSimpArgs false
namespace Sig

/-- grid lemma: if x lies on z's rounding grid and z is closer to x than half a grid step, rne z = x -/
theorem rne_eq_of_close (F : Fmt) {z : ℚ} (hz : 0 < z) (x : ℚ) (n : ℤ)
    (hx : x = (n:ℚ) * 2^(expo F z)) (h : |z - x| < 2^(expo F z) / 2) : rne F z = x := by
  have hs : (0:ℚ) < 2^(expo F z) := two_zpow_pos _
  have he := rne_err_pos F hz
  rw [rne_pos_eq F hz] at he ⊢
  set s : ℚ := 2^(expo F z) with hsd
  set r : ℤ := roundEven (z / s) with hr
  -- |r*s - n*s| < s
  have : |(r:ℚ) * s - x| < s := by
    calc |(r:ℚ) * s - x| = |((r:ℚ) * s - z) + (z - x)| := by ring_nf
      _ ≤ |(r:ℚ) * s - z| + |z - x| := abs_add_le _ _
      _ < s / 2 + s / 2 := add_lt_add_of_le_of_lt he h
      _ = s := by ring
  rw [hx] at this ⊢
  have h2 : |((r - n : ℤ) : ℚ)| * s < 1 * s := by
    have : |((r:ℚ) - n) * s| < s := by
      have e : (r:ℚ) * s - (n:ℚ) * s = ((r:ℚ) - n) * s := by ring
      rw [e] at this; exact this
    rw [abs_mul, abs_of_pos hs] at this
    push_cast; linarith
  have h3 : |((r - n : ℤ) : ℚ)| < 1 := lt_of_mul_lt_mul_right h2 (le_of_lt hs)
  have h4 : |r - n| < 1 := by exact_mod_cast h3
  have : r = n := by
    have := abs_lt.mp h4; omega
  rw [this]

end Sig

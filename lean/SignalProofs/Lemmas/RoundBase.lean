import Mathlib.Algebra.Order.Floor.Ring
import Mathlib.Data.Rat.Floor
import Mathlib.Tactic.Linarith
import Mathlib.Tactic.Positivity
import Mathlib.Tactic.NormNum
import Mathlib.Tactic.Ring
import Mathlib.Tactic.FieldSimp
import Mathlib.Tactic.Push
import Mathlib.Algebra.Order.Field.Power
import SignalModel.SoftFloat
set_option linter.unusedVariables false
set_option linter.unusedSimpArgs false

namespace Sig



theorem floor_eq (y : ℚ) : y.floor = ⌊y⌋ := rfl

/-- case characterisation -/
theorem roundEven_cases (y : ℚ) :
    (roundEven y = ⌊y⌋ ∧ y - ⌊y⌋ ≤ 1/2 ∧ (y - ⌊y⌋ = 1/2 → ⌊y⌋ % 2 = 0)) ∨
    (roundEven y = ⌊y⌋ + 1 ∧ 1/2 ≤ y - ⌊y⌋ ∧ (y - ⌊y⌋ = 1/2 → ⌊y⌋ % 2 ≠ 0)) := by
  unfold roundEven
  simp only [floor_eq]
  by_cases h1 : y - ⌊y⌋ < 1/2
  · left; simp only [h1, if_true]; exact ⟨trivial, le_of_lt h1, fun h => absurd h (ne_of_lt h1)⟩
  · by_cases h2 : 1/2 < y - ⌊y⌋
    · right; simp only [h1, h2, if_true, if_false]
      exact ⟨trivial, le_of_lt h2, fun h => absurd h.symm (ne_of_lt h2)⟩
    · have he : y - ⌊y⌋ = 1/2 := le_antisymm (not_lt.mp h2) (not_lt.mp h1)
      by_cases h3 : ⌊y⌋ % 2 = 0
      · left; simp only [h1, h2, h3, if_true, if_false]; exact ⟨trivial, le_of_eq he, fun _ => trivial⟩
      · right; simp only [h1, h2, h3, if_false]; exact ⟨trivial, le_of_eq he.symm, fun _ => h3⟩

theorem roundEven_err (y : ℚ) : |(roundEven y : ℚ) - y| ≤ 1/2 := by
  have h1 := Int.floor_le y
  have h2 := Int.lt_floor_add_one y
  rw [abs_le]
  rcases roundEven_cases y with ⟨e, a, _⟩ | ⟨e, a, _⟩ <;> rw [e] <;> push_cast <;> constructor <;> linarith

theorem roundEven_int (n : ℤ) : roundEven (n : ℚ) = n := by
  unfold roundEven
  simp [floor_eq]

theorem roundEven_mono {x y : ℚ} (h : x ≤ y) : roundEven x ≤ roundEven y := by
  have hf : ⌊x⌋ ≤ ⌊y⌋ := Int.floor_mono h
  rcases lt_or_eq_of_le hf with hlt | heq
  · have : ⌊x⌋ + 1 ≤ ⌊y⌋ := hlt
    rcases roundEven_cases x with ⟨ex, _, _⟩ | ⟨ex, _, _⟩ <;>
    rcases roundEven_cases y with ⟨ey, _, _⟩ | ⟨ey, _, _⟩ <;> omega
  · rcases roundEven_cases x with ⟨ex, ax, bx⟩ | ⟨ex, ax, bx⟩ <;>
    rcases roundEven_cases y with ⟨ey, ay, by'⟩ | ⟨ey, ay, by'⟩
    · omega
    · omega
    · -- x rounds up, y rounds down, same floor: x frac ≥ 1/2, y frac ≤ 1/2, x ≤ y → both = 1/2 → parity contradiction
      rw [heq] at ax bx
      have hxe : x - (⌊y⌋:ℚ) = 1/2 := by linarith
      have hye : y - (⌊y⌋:ℚ) = 1/2 := by linarith
      exact absurd (by' hye) (bx hxe)
    · omega





theorem pow2_eq (e : ℤ) : pow2 e = (2:ℚ)^e := by
  unfold pow2
  split
  · rename_i h
    obtain ⟨n, rfl⟩ := Int.eq_ofNat_of_zero_le h
    simp
  · rename_i h
    push Not at h
    obtain ⟨n, hn⟩ := Int.eq_ofNat_of_zero_le (by omega : 0 ≤ -e)
    have : e = -(n:ℤ) := by omega
    subst this
    simp


theorem ilog2_spec (x : ℚ) (hx : 0 < x) : (2:ℚ)^(ilog2 x) ≤ x ∧ x < (2:ℚ)^(ilog2 x + 1) := by
  have hnum : 0 < x.num := Rat.num_pos.mpr hx
  obtain ⟨n, hn⟩ := Int.eq_ofNat_of_zero_le (le_of_lt hnum)
  have hn0 : n ≠ 0 := by rintro rfl; rw [hn] at hnum; simp at hnum
  have hd0 : x.den ≠ 0 := x.den_nz
  have hxeq : x = (n:ℚ) / (x.den : ℚ) := by
    have := Rat.num_div_den x
    rw [hn, Int.cast_natCast] at this; exact this.symm
  have hdpos : (0:ℚ) < x.den := by exact_mod_cast Nat.pos_of_ne_zero hd0
  -- bounds on n and d
  have n1 : (2:ℚ)^(Nat.log2 n) ≤ n := by exact_mod_cast Nat.log2_self_le hn0
  have n2 : (n:ℚ) < (2:ℚ)^(Nat.log2 n + 1) := by exact_mod_cast (Nat.lt_log2_self (n := n))
  have d1 : (2:ℚ)^(Nat.log2 x.den) ≤ x.den := by exact_mod_cast Nat.log2_self_le hd0
  have d2 : (x.den:ℚ) < (2:ℚ)^(Nat.log2 x.den + 1) := by exact_mod_cast (Nat.lt_log2_self (n := x.den))
  set a := Nat.log2 n with ha
  set b := Nat.log2 x.den with hb
  have hg : ilog2 x = if pow2 ((a:ℤ) - b) ≤ x then (a:ℤ) - b else (a:ℤ) - b - 1 := by
    unfold ilog2; simp only [hn, Int.toNat_natCast]; rfl
  -- x < 2^(a-b+1) and 2^(a-b-1) < x always
  have up : x < (2:ℚ)^((a:ℤ) - b + 1) := by
    rw [hxeq, div_lt_iff₀ hdpos]
    calc (n:ℚ) < 2^(a+1) := n2
      _ = (2:ℚ)^((a:ℤ) - b + 1) * 2^b := by
          rw [← zpow_natCast, ← zpow_natCast, ← zpow_add₀ (by norm_num)]; congr 1; push_cast; ring
      _ ≤ (2:ℚ)^((a:ℤ) - b + 1) * x.den := by
          apply mul_le_mul_of_nonneg_left d1; positivity
  have lo : (2:ℚ)^((a:ℤ) - b - 1) ≤ x := by
    rw [hxeq, le_div_iff₀ hdpos]
    calc (2:ℚ)^((a:ℤ) - b - 1) * x.den ≤ (2:ℚ)^((a:ℤ) - b - 1) * 2^(b+1) := by
          apply mul_le_mul_of_nonneg_left (le_of_lt d2); positivity
      _ = 2^a := by
          rw [← zpow_natCast, ← zpow_natCast, ← zpow_add₀ (by norm_num)]; congr 1; push_cast; ring
      _ ≤ n := n1
  rw [hg]
  split
  · rename_i h; rw [pow2_eq] at h; exact ⟨h, up⟩
  · rename_i h; rw [pow2_eq] at h; push Not at h
    refine ⟨lo, ?_⟩
    have : (a:ℤ) - b - 1 + 1 = (a:ℤ) - b := by ring
    rw [this]; exact h


end Sig

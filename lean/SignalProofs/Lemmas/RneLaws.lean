import SignalProofs.Lemmas.RoundBase
set_option linter.unusedVariables false
set_option linter.unusedSimpArgs false

namespace Sig




theorem two_zpow_pos (e : ℤ) : (0:ℚ) < 2^e := by positivity

theorem ilog2_mono {x y : ℚ} (hx : 0 < x) (h : x ≤ y) : ilog2 x ≤ ilog2 y := by
  have hy : 0 < y := lt_of_lt_of_le hx h
  obtain ⟨x1, _⟩ := ilog2_spec x hx
  obtain ⟨_, y2⟩ := ilog2_spec y hy
  have : (2:ℚ)^(ilog2 x) < 2^(ilog2 y + 1) := lt_of_le_of_lt (le_trans x1 h) y2
  have := (zpow_lt_zpow_iff_right₀ (by norm_num : (1:ℚ) < 2)).mp this
  omega

/-- positive part of rne -/
theorem rne_pos_eq (F : Fmt) {x : ℚ} (hx : 0 < x) :
    rne F x = (roundEven (x / 2^(expo F x)) : ℚ) * 2^(expo F x) := by
  unfold rne
  have h0 : x ≠ 0 := ne_of_gt hx
  have h1 : ¬ x < 0 := not_lt.mpr (le_of_lt hx)
  simp only [h0, h1, if_false, pow2_eq]

theorem rne_nonneg (F : Fmt) {x : ℚ} (hx : 0 < x) : 0 ≤ rne F x := by
  rw [rne_pos_eq F hx]
  apply mul_nonneg _ (le_of_lt (two_zpow_pos _))
  have : roundEven 0 ≤ roundEven (x / 2^(expo F x)) := roundEven_mono (by positivity)
  have h0 : roundEven (0:ℚ) = 0 := by simpa using roundEven_int 0
  rw [h0] at this
  exact_mod_cast this

theorem rne_mono_pos (F : Fmt) (hp : 1 ≤ F.p) {x y : ℚ} (hx : 0 < x) (h : x ≤ y) : rne F x ≤ rne F y := by
  have hy : 0 < y := lt_of_lt_of_le hx h
  rw [rne_pos_eq F hx, rne_pos_eq F hy]
  have hle : expo F x ≤ expo F y := by
    unfold expo; have := ilog2_mono hx h; omega
  rcases lt_or_eq_of_le hle with hlt | heq
  · -- different exponents: go through the binade boundary B = 2^(ilog2 y)
    have hey : expo F y = ilog2 y - ((F.p:ℤ) - 1) := by
      unfold expo at *; omega
    have hxlt : ilog2 x < ilog2 y := by unfold expo at *; omega
    obtain ⟨_, x2⟩ := ilog2_spec x hx
    obtain ⟨y1, _⟩ := ilog2_spec y hy
    set ex := expo F x with hex
    set ey := expo F y with heyd
    -- B
    have hB1 : x < (2:ℚ)^(ilog2 y) :=
      lt_of_lt_of_le x2 (zpow_le_zpow_right₀ (by norm_num) (by omega))
    -- left: roundEven (x/2^ex) ≤ 2^(ilog2 y - ex)
    have hk : 0 ≤ ilog2 y - ex := by omega
    obtain ⟨k, hk'⟩ := Int.eq_ofNat_of_zero_le hk
    have hq : x / 2^ex ≤ (((2:ℤ)^k : ℤ) : ℚ) := by
      rw [div_le_iff₀ (two_zpow_pos _)]
      push_cast
      rw [← zpow_natCast, ← hk', ← zpow_add₀ (by norm_num)]
      have : ilog2 y - ex + ex = ilog2 y := by ring
      rw [this]; exact le_of_lt hB1
    have hL : (roundEven (x / 2^ex) : ℚ) * 2^ex ≤ 2^(ilog2 y) := by
      have := roundEven_mono hq
      rw [roundEven_int] at this
      have hc : (roundEven (x / 2^ex) : ℚ) ≤ (((2:ℤ)^k : ℤ) : ℚ) := by exact_mod_cast this
      calc (roundEven (x / 2^ex) : ℚ) * 2^ex ≤ (((2:ℤ)^k : ℤ) : ℚ) * 2^ex :=
            mul_le_mul_of_nonneg_right hc (le_of_lt (two_zpow_pos _))
        _ = 2^(ilog2 y) := by
            push_cast
            rw [← zpow_natCast, ← hk', ← zpow_add₀ (by norm_num)]
            congr 1; ring
    -- right: 2^(ilog2 y) ≤ roundEven (y/2^ey) * 2^ey
    have hp' : 0 ≤ (F.p:ℤ) - 1 := by omega
    obtain ⟨j, hj⟩ := Int.eq_ofNat_of_zero_le hp'
    have hq2 : (((2:ℤ)^j : ℤ) : ℚ) ≤ y / 2^ey := by
      rw [le_div_iff₀ (two_zpow_pos _)]
      push_cast
      rw [← zpow_natCast, ← hj, ← zpow_add₀ (by norm_num)]
      have : (F.p:ℤ) - 1 + ey = ilog2 y := by omega
      rw [this]; exact y1
    have hR : (2:ℚ)^(ilog2 y) ≤ (roundEven (y / 2^ey) : ℚ) * 2^ey := by
      have := roundEven_mono hq2
      rw [roundEven_int] at this
      have hc : (((2:ℤ)^j : ℤ) : ℚ) ≤ (roundEven (y / 2^ey) : ℚ) := by exact_mod_cast this
      calc (2:ℚ)^(ilog2 y) = (((2:ℤ)^j : ℤ) : ℚ) * 2^ey := by
            push_cast
            rw [← zpow_natCast, ← hj, ← zpow_add₀ (by norm_num)]
            congr 1; omega
        _ ≤ (roundEven (y / 2^ey) : ℚ) * 2^ey :=
            mul_le_mul_of_nonneg_right hc (le_of_lt (two_zpow_pos _))
    exact le_trans hL hR
  · rw [heq]
    apply mul_le_mul_of_nonneg_right _ (le_of_lt (two_zpow_pos _))
    have : x / 2^(expo F y) ≤ y / 2^(expo F y) := by
      apply div_le_div_of_nonneg_right h (le_of_lt (two_zpow_pos _))
    exact_mod_cast roundEven_mono this

/-- representable values are fixed points: x = m * 2^e with |m| < 2^p, e ≥ emin, x>0 -/
theorem rne_fix_pos (F : Fmt) (hp : 1 ≤ F.p) (m : ℕ) (e : ℤ) (hm0 : 0 < m) (hm : m < 2^F.p) (he : F.emin ≤ e) :
    rne F ((m:ℚ) * 2^e) = (m:ℚ) * 2^e := by
  have hx : (0:ℚ) < (m:ℚ) * 2^e := by positivity
  rw [rne_pos_eq F hx]
  -- expo ≤ e: ilog2 x ≤ e + p - 1 since x < 2^(p+e)
  have hlog : ilog2 ((m:ℚ) * 2^e) < (F.p:ℤ) + e := by
    obtain ⟨l1, _⟩ := ilog2_spec _ hx
    have : (m:ℚ) * 2^e < 2^((F.p:ℤ) + e) := by
      rw [zpow_add₀ (by norm_num), zpow_natCast]
      apply mul_lt_mul_of_pos_right _ (two_zpow_pos _)
      exact_mod_cast hm
    have := lt_of_le_of_lt l1 this
    exact (zpow_lt_zpow_iff_right₀ (by norm_num : (1:ℚ) < 2)).mp this
  have hex : expo F ((m:ℚ) * 2^e) ≤ e := by unfold expo; omega
  set ex := expo F ((m:ℚ) * 2^e)
  obtain ⟨k, hk⟩ := Int.eq_ofNat_of_zero_le (by omega : 0 ≤ e - ex)
  have : (m:ℚ) * 2^e / 2^ex = (((m * 2^k : ℕ) : ℤ) : ℚ) := by
    rw [div_eq_iff (ne_of_gt (two_zpow_pos _))]
    push_cast
    rw [mul_assoc, ← zpow_natCast, ← hk, ← zpow_add₀ (by norm_num)]
    congr 2; ring
  rw [this, roundEven_int]
  push_cast
  rw [mul_assoc, ← zpow_natCast, ← hk, ← zpow_add₀ (by norm_num)]
  congr 2; ring

/-- half-ulp error bound for positive x -/
theorem rne_err_pos (F : Fmt) {x : ℚ} (hx : 0 < x) : |rne F x - x| ≤ 2^(expo F x) / 2 := by
  rw [rne_pos_eq F hx]
  have h := roundEven_err (x / 2^(expo F x))
  have hpos := two_zpow_pos (expo F x)
  have : (roundEven (x / 2^(expo F x)) : ℚ) * 2^(expo F x) - x
       = ((roundEven (x / 2^(expo F x)) : ℚ) - x / 2^(expo F x)) * 2^(expo F x) := by
    field_simp
  rw [this, abs_mul, abs_of_pos hpos]
  calc _ ≤ (1/2) * 2^(expo F x) := mul_le_mul_of_nonneg_right h (le_of_lt hpos)
    _ = _ := by ring

end Sig

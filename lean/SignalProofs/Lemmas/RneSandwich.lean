import SignalProofs.Lemmas.RneLaws
set_option linter.unusedVariables false
set_option linter.unusedSimpArgs false
namespace Sig

/-- sandwich: for 0 < y < 2^(p-1) (so that floor+1 is still representable), floor y ≤ rne y ≤ floor y + 1 -/
theorem rne_sandwich (F : Fmt) (hp : 1 ≤ F.p) (he : F.emin ≤ 0) {y : ℚ} (hy : 0 < y)
    (hlt : y < 2^(F.p - 1)) : (⌊y⌋ : ℚ) ≤ rne F y ∧ rne F y ≤ (⌊y⌋ : ℚ) + 1 := by
  have hfl0 : 0 ≤ ⌊y⌋ := Int.floor_nonneg.mpr (le_of_lt hy)
  obtain ⟨m, hm⟩ := Int.eq_ofNat_of_zero_le hfl0
  have h1 := Int.floor_le y
  have h2 := Int.lt_floor_add_one y
  have hmlt : (m:ℚ) < 2^(F.p-1) := by
    have : ((⌊y⌋:ℤ):ℚ) < 2^(F.p-1) := lt_of_le_of_lt h1 hlt
    rw [hm] at this; exact_mod_cast this
  have hmlt' : m < 2^(F.p-1) := by exact_mod_cast hmlt
  have hpow : 2^(F.p-1) * 2 = 2^F.p := by
    rw [← pow_succ]; congr 1; omega
  constructor
  · -- lower
    rw [hm]
    rcases Nat.eq_zero_or_pos m with rfl | hmpos
    · simpa using rne_nonneg F hy
    · have hfix := rne_fix_pos F hp m 0 hmpos (by omega) he
      simp at hfix
      have hmy : (m:ℚ) ≤ y := by rw [hm] at h1; exact_mod_cast h1
      have := rne_mono_pos F hp (by exact_mod_cast hmpos : (0:ℚ) < m) hmy
      rw [hfix] at this; exact_mod_cast this
  · -- upper: y ≤ m+1, m+1 ≤ 2^(p-1) < 2^p representable
    rw [hm]
    have hfix := rne_fix_pos F hp (m+1) 0 (by omega) (by omega) he
    simp at hfix
    have hym : y ≤ ((m:ℚ) + 1) := by rw [hm] at h2; exact_mod_cast le_of_lt h2
    have := rne_mono_pos F hp hy hym
    rw [hfix] at this; exact_mod_cast this

end Sig

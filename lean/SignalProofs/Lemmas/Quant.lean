import SignalModel.Quant
/-!
# Closed forms of the four fixed→fixed kernels, for all 16 width pairs

For in-range inputs the wrapped Go computation equals the mathematical requantisation of the
amplitude: truncated (signed source) or floored (unsigned source) division by 2^k when narrowing,
`upAmp k` when widening.
-/
set_option linter.unusedVariables false
namespace Sig

def W4 (w : Nat) : Prop := w = 8 ∨ w = 16 ∨ w = 32 ∨ w = 64

theorem goDiv_eq (a b : Int) : goDiv a b = truncDiv a b := by
  unfold goDiv truncDiv
  split
  · rename_i h; exact Int.tdiv_eq_ediv_of_nonneg h
  · rename_i h
    have : a = -(-a) := by omega
    rw [this, Int.neg_tdiv, Int.tdiv_eq_ediv_of_nonneg (by omega)]
    simp

theorem sas_closed (sw dw : Nat) (hs : W4 sw) (hd : W4 dw) (x : Int) (hx : inS sw x) :
    sasK ⟨sw, true⟩ ⟨dw, true⟩ sw dw x = if sw ≥ dw then truncDiv x (2^(sw-dw)) else upAmp (dw-sw) x := by
  rcases hs with rfl|rfl|rfl|rfl <;> rcases hd with rfl|rfl|rfl|rfl <;>
    (simp [sasK, scale, IntTy.wrap, upAmp, wrapS, inS, goDiv_eq, truncDiv] at *; try split) <;> (try split) <;> omega

theorem sau_closed (sw dw : Nat) (hs : W4 sw) (hd : W4 dw) (x : Int) (hx : inS sw x) :
    sauK ⟨sw, true⟩ ⟨dw, false⟩ sw dw x - 2^(dw-1) = if sw ≥ dw then truncDiv x (2^(sw-dw)) else upAmp (dw-sw) x := by
  rcases hs with rfl|rfl|rfl|rfl <;> rcases hd with rfl|rfl|rfl|rfl <;>
    (simp [sauK, scale, IntTy.wrap, upAmp, wrapS, wrapU, inS, goDiv_eq, truncDiv, maxSignedValue] at *; try split) <;> (try split) <;> omega

theorem uas_closed (sw dw : Nat) (hs : W4 sw) (hd : W4 dw) (x : Int) (hx : inU sw x) :
    uasK ⟨sw, false⟩ ⟨dw, true⟩ sw dw x = if sw ≥ dw then (x - 2^(sw-1)) / 2^(sw-dw) else upAmp (dw-sw) (x - 2^(sw-1)) := by
  rcases hs with rfl|rfl|rfl|rfl <;> rcases hd with rfl|rfl|rfl|rfl <;>
    (simp [uasK, scale, IntTy.wrap, upAmp, wrapS, wrapU, inU, goDiv_eq, truncDiv, maxSignedValue] at *; try split) <;> (try split) <;> omega

theorem uau_closed (sw dw : Nat) (hs : W4 sw) (hd : W4 dw) (x : Int) (hx : inU sw x) :
    uauK ⟨sw, false⟩ ⟨dw, false⟩ sw dw x - 2^(dw-1) = if sw ≥ dw then (x - 2^(sw-1)) / 2^(sw-dw) else upAmp (dw-sw) (x - 2^(sw-1)) := by
  rcases hs with rfl|rfl|rfl|rfl <;> rcases hd with rfl|rfl|rfl|rfl <;>
    (simp [uauK, scale, IntTy.wrap, upAmp, wrapS, wrapU, inU, goDiv_eq, truncDiv, maxSignedValue] at *; try split) <;> (try split) <;> omega


/-! ## The kernel the library runs for a pair of integer element kinds -/

/-- the fixed→fixed per-sample kernel selected by the signedness of the two kinds, at the bit depths
the library stores for those kinds (their widths) -/
def qkernel (s d : Kind) (x : Int) : Int :=
  match s.isSigned, d.isSigned with
  | true, true => sasK s.intTy d.intTy s.width d.width x
  | true, false => sauK s.intTy d.intTy s.width d.width x
  | false, true => uasK s.intTy d.intTy s.width d.width x
  | false, false => uauK s.intTy d.intTy s.width d.width x

def Kind.isInt (k : Kind) : Prop := k.isFloat = false

theorem w4_of_kind (k : Kind) : W4 k.width := by
  cases k <;> simp [W4, Kind.width]

/-- amplitude of a code of kind `k` -/
def kamp (k : Kind) (x : Int) : Int := if k.isSigned then x else x - 2^(k.width-1)

/-- closed form of every fixed→fixed kernel on amplitudes: truncating (signed source) or flooring
(unsigned source) division when narrowing, `upAmp` when widening -/
theorem qkernel_closed (s d : Kind) (hs : s.isInt) (hd : d.isInt) (x : Int) (hx : s.intTy.inRange x) :
    kamp d (qkernel s d x) =
      if s.width ≥ d.width then
        (if s.isSigned then truncDiv (kamp s x) (2^(s.width - d.width)) else (kamp s x) / 2^(s.width - d.width))
      else upAmp (d.width - s.width) (kamp s x) := by
  have h4s := w4_of_kind s
  have h4d := w4_of_kind d
  unfold qkernel kamp
  cases hss : s.isSigned <;> cases hds : d.isSigned
  · have hsi : s.intTy = ⟨s.width, false⟩ := by simp [Kind.intTy, hss]
    have hdi : d.intTy = ⟨d.width, false⟩ := by simp [Kind.intTy, hds]
    simp only [hsi, hdi] at *
    have := uau_closed s.width d.width h4s h4d x (by simpa [IntTy.inRange] using hx)
    simpa using this
  · have hsi : s.intTy = ⟨s.width, false⟩ := by simp [Kind.intTy, hss]
    have hdi : d.intTy = ⟨d.width, true⟩ := by simp [Kind.intTy, hds]
    simp only [hsi, hdi] at *
    have := uas_closed s.width d.width h4s h4d x (by simpa [IntTy.inRange] using hx)
    simpa using this
  · have hsi : s.intTy = ⟨s.width, true⟩ := by simp [Kind.intTy, hss]
    have hdi : d.intTy = ⟨d.width, false⟩ := by simp [Kind.intTy, hds]
    simp only [hsi, hdi] at *
    have := sau_closed s.width d.width h4s h4d x (by simpa [IntTy.inRange] using hx)
    simpa using this
  · have hsi : s.intTy = ⟨s.width, true⟩ := by simp [Kind.intTy, hss]
    have hdi : d.intTy = ⟨d.width, true⟩ := by simp [Kind.intTy, hds]
    simp only [hsi, hdi] at *
    have := sas_closed s.width d.width h4s h4d x (by simpa [IntTy.inRange] using hx)
    simpa using this


/-! ## The amplitude map and its algebra (all 16 width pairs) -/

/-- what `qkernel` does to an amplitude: `ssigned` is the signedness of the *source* type -/
def amap (ssigned : Bool) (sw dw : Nat) (a : Int) : Int :=
  if sw ≥ dw then (if ssigned then truncDiv a (2^(sw - dw)) else a / 2^(sw - dw))
  else upAmp (dw - sw) a

theorem qkernel_amap (s d : Kind) (hs : s.isInt) (hd : d.isInt) (x : Int) (hx : s.intTy.inRange x) :
    kamp d (qkernel s d x) = amap s.isSigned s.width d.width (kamp s x) := by
  rw [qkernel_closed s d hs hd x hx]; rfl

/-- an amplitude of a `w`-bit format -/
def inAmp (w : Nat) (a : Int) : Prop := -(2^(w-1)) ≤ a ∧ a < 2^(w-1)

theorem kamp_inAmp (k : Kind) (x : Int) (hx : k.intTy.inRange x) : inAmp k.width (kamp k x) := by
  have h4 := w4_of_kind k
  unfold kamp inAmp IntTy.inRange Kind.intTy at *
  cases hk : k.isSigned <;> simp [hk, inS, inU] at * <;>
    rcases h4 with h|h|h|h <;> simp [h] at * <;> omega

theorem amap_mono (sg : Bool) (sw dw : Nat) (hs : W4 sw) (hd : W4 dw) (a b : Int) (h : a ≤ b) :
    amap sg sw dw a ≤ amap sg sw dw b := by
  rcases hs with rfl|rfl|rfl|rfl <;> rcases hd with rfl|rfl|rfl|rfl <;> cases sg <;>
    simp [amap, truncDiv, upAmp] <;> (try split) <;> (try split) <;> omega

theorem amap_lo (sg : Bool) (sw dw : Nat) (hs : W4 sw) (hd : W4 dw) :
    amap sg sw dw (-(2^(sw-1))) = -(2^(dw-1)) := by
  rcases hs with rfl|rfl|rfl|rfl <;> rcases hd with rfl|rfl|rfl|rfl <;> cases sg <;>
    simp [amap, truncDiv, upAmp] <;> omega

theorem amap_hi (sg : Bool) (sw dw : Nat) (hs : W4 sw) (hd : W4 dw) :
    amap sg sw dw (2^(sw-1) - 1) = 2^(dw-1) - 1 := by
  rcases hs with rfl|rfl|rfl|rfl <;> rcases hd with rfl|rfl|rfl|rfl <;> cases sg <;>
    simp [amap, truncDiv, upAmp] <;> omega

theorem amap_zero (sg : Bool) (sw dw : Nat) (hs : W4 sw) (hd : W4 dw) : amap sg sw dw 0 = 0 := by
  rcases hs with rfl|rfl|rfl|rfl <;> rcases hd with rfl|rfl|rfl|rfl <;> cases sg <;>
    simp [amap, truncDiv, upAmp]

/-- narrowing gives one of the two integers neighbouring a / 2^k -/
theorem amap_neighbour (sg : Bool) (sw dw : Nat) (h : dw ≤ sw) (a : Int) :
    amap sg sw dw a = a / 2^(sw-dw) ∨ amap sg sw dw a = -((-a) / 2^(sw-dw)) := by
  unfold amap truncDiv
  simp only [ge_iff_le, h, if_true]
  cases sg
  · left; simp
  · by_cases h0 : 0 ≤ a
    · left; simp [h0]
    · right; simp [h0]

theorem amap_same (sg : Bool) (w : Nat) (a : Int) : amap sg w w a = a := by
  unfold amap truncDiv
  cases sg <;> simp

/-- widening by k bits and narrowing back (with either rounding) is the identity on amplitudes -/
theorem amap_roundtrip (sg1 sg2 : Bool) (sw dw : Nat) (hs : W4 sw) (hd : W4 dw) (h : sw < dw) (a : Int)
    (ha : inAmp sw a) : amap sg2 dw sw (amap sg1 sw dw a) = a := by
  rcases hs with rfl|rfl|rfl|rfl <;> rcases hd with rfl|rfl|rfl|rfl <;> (try omega) <;>
    cases sg1 <;> cases sg2 <;>
    simp [amap, truncDiv, upAmp, inAmp] at * <;> (try split) <;> (try split) <;> omega

theorem wrap_inRange (t : IntTy) (hw : 1 ≤ t.w) (x : Int) : t.inRange (t.wrap x) := by
  unfold IntTy.inRange IntTy.wrap
  have hp : (0:Int) < 2^(t.w-1) := Int.pow_pos (by decide)
  have h2 : (2:Int)^t.w = 2 * 2^(t.w-1) := by
    have : t.w = (t.w - 1) + 1 := by omega
    conv => lhs; rw [this, Int.pow_succ]
    omega
  cases t.signed <;> simp [inS, inU, wrapS, wrapU]
  · constructor
    · exact Int.emod_nonneg _ (by omega)
    · exact Int.emod_lt_of_pos _ (by omega)
  · have a := Int.emod_nonneg (x + 2^(t.w-1)) (b := 2^t.w) (by omega)
    have b := Int.emod_lt_of_pos (x + 2^(t.w-1)) (b := 2^t.w) (by omega)
    omega

theorem qkernel_inRange (s d : Kind) (x : Int) : d.intTy.inRange (qkernel s d x) := by
  have hw : 1 ≤ d.intTy.w := by cases d <;> simp [Kind.intTy, Kind.width]
  unfold qkernel
  cases s.isSigned <;> cases d.isSigned <;> simp only [sasK, sauK, uasK, uauK] <;>
    (repeat' split) <;> exact wrap_inRange _ hw _

theorem kamp_inj (k : Kind) (x y : Int) (h : kamp k x = kamp k y) : x = y := by
  unfold kamp at h; split at h <;> omega

end Sig

import SignalProofs.Lemmas.Heap
/-!
# The copy/convert loop `xferLoop`: heap extension, closed form when reads and writes do not overlap
-/
namespace Sig
set_option linter.unusedVariables false
set_option linter.unusedSimpArgs false

/-- `h'` has every block of `h`, at least as long -/
def Ext (h h' : Heap) : Prop := ∀ b n, hasRoom h b n → hasRoom h' b n

theorem Ext.refl (h : Heap) : Ext h h := fun _ _ x => x
theorem Ext.trans {a b c : Heap} (x : Ext a b) (y : Ext b c) : Ext a c := fun bl n r => y bl n (x bl n r)
theorem ext_store (h : Heap) (b i : Nat) (x : Int) : Ext h (store h b i x) :=
  fun bl n r => hasRoom_store h bl n b i x r
theorem ext_storeList (h : Heap) (b s : Nat) (vs : List Int) : Ext h (storeList h b s vs) :=
  fun bl n r => hasRoom_storeList h bl n b s vs r
theorem ext_push (h : Heap) (blk : List Int) : Ext h (h ++ [blk]) := by
  intro b n ⟨bl, hb, hn⟩
  have hlt : b < h.length := (List.getElem?_eq_some_iff.mp hb).1
  exact ⟨bl, by rw [List.getElem?_append_left hlt]; exact hb, hn⟩
theorem Buf.wf_ext {h h' : Heap} (b : Buf) (e : Ext h h') (w : b.wf h) : b.wf h' := ⟨w.1, e _ _ w.2⟩

/-- the heap carried by a result extends `h` -/
def Res.Extends {α : Type} (h : Heap) : Res α → Prop
  | .ok h' _ => Ext h h'
  | .panic h' _ => Ext h h'
  | .unspec => True

theorem Res.Extends.mono {α : Type} {h0 h : Heap} {r : Res α} (e : Ext h0 h) (x : r.Extends h) : r.Extends h0 := by
  cases r with
  | ok h' v => exact e.trans x
  | panic h' p => exact e.trans x
  | unspec => trivial

/-- whatever the loop does (finish, panic part-way), the heap only has cells overwritten -/
theorem xferLoop_ext (k : Int → Option Int) (src dst : Buf) (shift : Nat) (is : List Nat) (h : Heap) :
    (xferLoop k src dst shift is h).Extends h := by
  induction is generalizing h with
  | nil => exact Ext.refl h
  | cons i is ih =>
    unfold xferLoop
    split
    · exact Ext.refl h
    · split
      · trivial
      · split
        · exact Ext.refl h
        · rename_i h' hs
          unfold Buf.setSample at hs
          split at hs
          · have e := Option.some.inj hs; subst e
            exact Res.Extends.mono (ext_store h _ _ _) (ih _)
          · cases hs

/-- **closed form**: when the cells still to be read are never among the cells written, the loop stores
`k` of the source samples, position by position, and nothing else. -/
theorem xferLoop_closed (k : Int → Option Int) (src dst : Buf) (shift : Nat) (xs ys : List Int) (i0 : Nat)
    (h : Heap)
    (hread : ∀ j, j < xs.length → cell h src.blk (src.off + (i0 + j)) = xs[j]?)
    (hk : xs.mapM k = some ys)
    (hsl : i0 + xs.length ≤ src.len) (hdl : i0 + shift + xs.length ≤ dst.len) (hw : dst.wf h)
    (hdis : src.blk ≠ dst.blk ∨ src.off + (i0 + xs.length) ≤ dst.off + (i0 + shift) ∨
            dst.off + (i0 + shift) + xs.length ≤ src.off + i0) :
    xferLoop k src dst shift (List.range' i0 xs.length) h = .ok (storeList h dst.blk (dst.off + (i0 + shift)) ys) () := by
  induction xs generalizing ys i0 h with
  | nil =>
    simp at hk; subst hk
    simp [xferLoop, storeList]
  | cons x xs ih =>
    simp only [List.length_cons] at *
    rw [List.mapM_cons] at hk
    cases hkx : k x with
    | none => simp [hkx] at hk
    | some y =>
      cases hkr : xs.mapM k with
      | none => simp [hkx, hkr] at hk
      | some ys' =>
        simp [hkx, hkr] at hk; subst hk
        rw [List.range'_succ]
        unfold xferLoop
        have hr0 := hread 0 (by omega)
        simp only [Nat.add_zero, List.getElem?_cons_zero] at hr0
        rw [Buf.sample_eq h src i0 (by omega), hr0]
        simp only [hkx]
        rw [Buf.setSample_eq h dst (i0 + shift) y (by omega)]
        simp only [storeList]
        have hw' : dst.wf (store h dst.blk (dst.off + (i0 + shift)) y) := Buf.wf_store h dst _ _ _ hw
        have := ih ys' (i0 + 1) (store h dst.blk (dst.off + (i0 + shift)) y) ?_ hkr (by omega) (by omega) hw' (by omega)
        · rw [this]; congr 2; omega
        · intro j hj
          have hrj := hread (j + 1) (by omega)
          simp only [List.getElem?_cons_succ] at hrj
          rw [cell_store_of_room h dst.blk (dst.off + (i0 + shift)) src.blk _ y (dst.off + dst.cap) hw.2
            (by have := hw.1; omega)]
          have hne : ¬ (src.blk = dst.blk ∧ src.off + (i0 + 1 + j) = dst.off + (i0 + shift)) := by
            intro ⟨a, b⟩; rcases hdis with d | d | d
            · exact d a
            · omega
            · omega
          rw [if_neg hne, ← hrj]; congr 2; omega

end Sig

import SignalModel.Buffer
import SignalModel.Alloc
/-!
# Heap lemmas: a store changes exactly one cell; sequential stores; well-formed views
-/
namespace Sig
set_option linter.unusedVariables false
set_option linter.unusedSimpArgs false

theorem cell_store (h : Heap) (b i b' i' : Nat) (x : Int)
    (hb : ∃ blk, h[b]? = some blk ∧ i < blk.length) :
    cell (store h b i x) b' i' = if b' = b ∧ i' = i then some x else cell h b' i' := by
  obtain ⟨blk, hblk, hi⟩ := hb
  unfold store cell
  simp only [hblk]
  by_cases hbb : b' = b
  · subst hbb
    have hlt : b' < h.length := (List.getElem?_eq_some_iff.mp hblk).1
    simp [List.getElem?_set, hlt, hblk]
    by_cases hii : i' = i
    · subst hii; simp [hi]
    · have hne : ¬ i = i' := fun e => hii e.symm
      obtain ⟨_, e⟩ := List.getElem?_eq_some_iff.mp hblk
      simp [hne, e]
      intro h'; exact absurd h' hii
  · have hne : ¬ b = b' := fun e => hbb e.symm
    simp [hbb, hne, List.getElem?_set]

/-- a store never changes the number of blocks nor the length of any block -/
theorem store_length (h : Heap) (b i : Nat) (x : Int) : (store h b i x).length = h.length := by
  unfold store; split <;> simp

theorem store_block_length (h : Heap) (b i : Nat) (x : Int) (b' : Nat) :
    ((store h b i x)[b']?).map List.length = (h[b']?).map List.length := by
  unfold store
  split
  · rename_i blk hblk
    by_cases e : b = b'
    · subst e
      obtain ⟨hlt, e⟩ := List.getElem?_eq_some_iff.mp hblk
      simp [hlt, hblk, e]
    · simp [List.getElem?_set, e]
  · rfl

/-- block `b` exists and has at least `n` cells -/
def hasRoom (h : Heap) (b n : Nat) : Prop := ∃ blk, h[b]? = some blk ∧ n ≤ blk.length

theorem hasRoom_store (h : Heap) (b n b' i : Nat) (x : Int) (hr : hasRoom h b n) :
    hasRoom (store h b' i x) b n := by
  obtain ⟨blk, hb, hn⟩ := hr
  have := store_block_length h b' i x b
  rw [hb] at this
  cases hh : (store h b' i x)[b]? with
  | none => simp [hh] at this
  | some blk' => simp [hh] at this; exact ⟨blk', hh, by omega⟩

theorem cell_store_of_room (h : Heap) (b i b' i' : Nat) (x : Int) (n : Nat) (hr : hasRoom h b n) (hi : i < n) :
    cell (store h b i x) b' i' = if b' = b ∧ i' = i then some x else cell h b' i' := by
  obtain ⟨blk, hb, hn⟩ := hr
  exact cell_store h b i b' i' x ⟨blk, hb, by omega⟩

theorem cell_isSome_of_room (h : Heap) (b n i : Nat) (hr : hasRoom h b n) (hi : i < n) :
    ∃ v, cell h b i = some v := by
  obtain ⟨blk, hb, hn⟩ := hr
  have : i < blk.length := by omega
  exact ⟨blk[i], by simp [cell, hb, this]⟩

/-- sequential stores: closed form -/
theorem cell_storeList (h : Heap) (b start : Nat) (vs : List Int) (n : Nat) (hr : hasRoom h b n)
    (hfit : start + vs.length ≤ n) (b' i' : Nat) :
    cell (storeList h b start vs) b' i' =
      if b' = b ∧ start ≤ i' ∧ i' < start + vs.length then vs[i' - start]? else cell h b' i' := by
  induction vs generalizing h start with
  | nil => simp [storeList]; intro _ _ _; omega
  | cons v vs ih =>
    simp only [storeList, List.length_cons] at *
    rw [ih (store h b start v) (start + 1) (hasRoom_store h b n b start v hr) (by omega)]
    rw [cell_store_of_room h b start b' i' v n hr (by omega)]
    by_cases hb : b' = b
    · subst hb
      by_cases h1 : start + 1 ≤ i' ∧ i' < start + 1 + vs.length
      · have : start ≤ i' ∧ i' < start + (vs.length + 1) := by omega
        simp only [h1, this, true_and, and_self, if_true]
        have e : i' - start = (i' - (start + 1)) + 1 := by omega
        rw [e]; simp
      · by_cases h2 : i' = start
        · subst h2; simp; intro hc; omega
        · have : ¬ (start ≤ i' ∧ i' < start + (vs.length + 1)) := by omega
          simp [h1, h2, this]
    · simp [hb]

theorem hasRoom_storeList (h : Heap) (b n b' start : Nat) (vs : List Int) (hr : hasRoom h b n) :
    hasRoom (storeList h b' start vs) b n := by
  induction vs generalizing h start with
  | nil => exact hr
  | cons v vs ih => exact ih _ _ (hasRoom_store h b n b' start v hr)

theorem cell_store_other (hp : Heap) (b i : Nat) (x : Int) (blk j : Nat) (hne : blk ≠ b) :
    cell (store hp b i x) blk j = cell hp blk j := by
  unfold store
  split
  · simp [cell, List.getElem?_set, hne.symm]
  · rfl

theorem cell_storeList_other (hp : Heap) (b st : Nat) (vs : List Int) (blk j : Nat) (hne : blk ≠ b) :
    cell (storeList hp b st vs) blk j = cell hp blk j := by
  induction vs generalizing hp st with
  | nil => rfl
  | cons v vs ih => simp only [storeList]; rw [ih, cell_store_other _ _ _ _ _ _ hne]

/-! ## well-formed views -/

/-- the window `[off, off+cap)` lies inside an existing block and `len ≤ cap` -/
def Buf.wf (h : Heap) (b : Buf) : Prop := b.len ≤ b.cap ∧ hasRoom h b.blk (b.off + b.cap)

theorem Buf.wf_store (h : Heap) (b : Buf) (b' i : Nat) (x : Int) (hw : b.wf h) : b.wf (store h b' i x) :=
  ⟨hw.1, hasRoom_store h _ _ b' i x hw.2⟩

theorem Buf.sample_eq (h : Heap) (b : Buf) (i : Nat) (hi : i < b.len) :
    b.sample h (i : Int) = cell h b.blk (b.off + i) := by
  unfold Buf.sample
  have : (0:Int) ≤ i ∧ (i:Int) < b.len := by omega
  simp [this]

theorem Buf.setSample_eq (h : Heap) (b : Buf) (i : Nat) (v : Int) (hi : i < b.len) :
    b.setSample h (i : Int) v = some (store h b.blk (b.off + i) v) := by
  unfold Buf.setSample
  have : (0:Int) ≤ i ∧ (i:Int) < b.len := by omega
  simp [this]

/-- **visibility**: a store through view `v` at index `i` is seen through view `w` at index `j` iff the
two indices denote the same storage cell; every other sample of every view is unchanged. -/
theorem visible_iff (h : Heap) (v w : Buf) (i j : Nat) (x : Int) (hv : v.wf h) (hi : i < v.len) (hj : j < w.len) :
    ∀ h', v.setSample h (i : Int) x = some h' →
      w.sample h' (j : Int) = if w.blk = v.blk ∧ w.off + j = v.off + i then some x else w.sample h (j : Int) := by
  intro h' hs
  rw [Buf.setSample_eq h v i x hi] at hs
  injection hs with hs; subst hs
  rw [Buf.sample_eq _ w j hj, Buf.sample_eq _ w j hj]
  exact cell_store_of_room h v.blk (v.off + i) w.blk (w.off + j) x (v.off + v.cap) hv.2 (by have := hv.1; omega)

end Sig

import SignalProofs.Lemmas.RneSandwich
import SignalProofs.Lemmas.RneSign
import SignalModel.FloatK
/-!
# From the FV-level operations of the soft-float to rational arithmetic plus `rne`
-/
namespace Sig
set_option linter.unusedVariables false
set_option linter.unusedSimpArgs false

open FV

theorem truncQ_eq (q : ℚ) : FV.truncQ q = if 0 ≤ q then ⌊q⌋ else -⌊-q⌋ := rfl

theorem truncQ_mono {x y : ℚ} (h : x ≤ y) : FV.truncQ x ≤ FV.truncQ y := by
  rw [truncQ_eq, truncQ_eq]
  split_ifs with hx hy hy
  · exact Int.floor_mono h
  · exact absurd (le_trans hx h) hy
  · have : 0 ≤ ⌊-x⌋ := Int.floor_nonneg.mpr (by linarith)
    have : 0 ≤ ⌊y⌋ := Int.floor_nonneg.mpr hy
    omega
  · have := Int.floor_mono (neg_le_neg h); omega

theorem truncQ_int (n : ℤ) : FV.truncQ (n:ℚ) = n := by
  rw [truncQ_eq]; split_ifs with h
  · simp
  · rw [← Int.cast_neg, Int.floor_intCast]; ring

theorem truncQ_neg (q : ℚ) : FV.truncQ (-q) = -FV.truncQ q := by
  rw [truncQ_eq, truncQ_eq]
  rcases lt_trichotomy q 0 with h | h | h
  · have h1 : 0 ≤ -q := by linarith
    have h2 : ¬ 0 ≤ q := by linarith
    simp [h1, h2]
  · subst h; simp
  · have h1 : ¬ 0 ≤ -q := by linarith
    have h2 : 0 ≤ q := by linarith
    simp [h1, h2]

theorem truncQ_nonneg {q : ℚ} (h : 0 ≤ q) : 0 ≤ FV.truncQ q := by
  rw [truncQ_eq, if_pos h]; exact Int.floor_nonneg.mpr h

theorem truncQ_le_of_le_int {q : ℚ} {n : ℤ} (h : q ≤ n) : FV.truncQ q ≤ n := by
  have := truncQ_mono h; rwa [truncQ_int] at this

theorem truncQ_ge_of_ge_int {q : ℚ} {n : ℤ} (h : (n:ℚ) ≤ q) : n ≤ FV.truncQ q := by
  have := truncQ_mono h; rwa [truncQ_int] at this

/-- distance between a rational and its truncation -/
theorem truncQ_near (q : ℚ) : |((FV.truncQ q : ℤ) : ℚ) - q| < 1 := by
  rw [truncQ_eq]
  split_ifs with h
  · have h1 := Int.floor_le q; have h2 := Int.lt_floor_add_one q
    rw [abs_lt]; constructor <;> linarith
  · have h1 := Int.floor_le (-q); have h2 := Int.lt_floor_add_one (-q)
    push_cast; rw [abs_lt]; constructor <;> linarith

theorem abs_eq_ite (r : ℚ) : (if r < 0 then -r else r) = |r| := by
  split_ifs with h
  · exact (abs_of_neg h).symm
  · exact (abs_of_nonneg (not_lt.mp h)).symm

/-- the rational value of a rounded result (when it does not overflow) -/
theorem round_toRat (F : Fmt) (q : ℚ) (nz : Bool) (hlt : |rne F q| < (2:ℚ)^(F.emax + 1)) :
    (FV.round F q nz).toRat? = some (rne F q) := by
  unfold FV.round
  simp only [abs_eq_ite, pow2_eq]
  have : ¬ ((2:ℚ)^(F.emax + 1) ≤ |rne F q|) := not_le.mpr hlt
  simp only [this, if_false]
  have zr : ∀ b : Bool, (FV.zero b).toRat? = some 0 := by
    intro b; cases b <;> simp [FV.zero, FV.toRat?]
  by_cases h0 : rne F q = 0
  · simp only [h0, if_true]; exact zr _
  · simp only [h0, if_false]; rfl

/-- float→int conversion of a value whose truncation is in range -/
theorem toInt_of_toRat (lo hi : ℤ) (v : FV) (r : ℚ) (hv : v.toRat? = some r)
    (hlo : lo ≤ FV.truncQ r) (hhi : FV.truncQ r ≤ hi) : FV.toInt lo hi v = some (FV.truncQ r) := by
  cases v with
  | nan => simp [FV.toRat?] at hv
  | inf n => simp [FV.toRat?] at hv
  | nzero =>
    simp [FV.toRat?] at hv; subst hv
    have : FV.truncQ (0:ℚ) = 0 := by simpa using truncQ_int 0
    simp [FV.toInt, this]
  | fin q =>
    simp [FV.toRat?] at hv; subst hv
    simp [FV.toInt, hlo, hhi]

theorem lt_fin (a b : ℚ) : FV.lt (.fin a) (.fin b) = decide (a < b) := by
  simp [FV.lt, FV.toRat?]

theorem le_fin (a b : ℚ) : FV.le (.fin a) (.fin b) = decide (a ≤ b) := by
  simp [FV.le, FV.toRat?]

theorem mul_fin (F : Fmt) (a b : ℚ) :
    FV.mul F (.fin a) (.fin b) = FV.round F (a * b) ((FV.fin a).isNeg != (FV.fin b).isNeg) := by
  simp [FV.mul, FV.toRat?]

theorem add_fin (F : Fmt) (a b : ℚ) :
    FV.add F (.fin a) (.fin b) = FV.round F (a + b) ((FV.fin a).isNeg && (FV.fin b).isNeg) := by
  simp [FV.add, FV.toRat?]

/-- small integers are representable: rounding them is the identity -/
theorem round_exact (F : Fmt) (hp : 1 ≤ F.p) (he : F.emin ≤ 0) (hmax : (F.p : ℤ) ≤ F.emax + 1) (n : ℤ) (hn0 : n ≠ 0)
    (hn : n.natAbs < 2^F.p) (nz : Bool) : FV.round F (n:ℚ) nz = .fin n := by
  unfold FV.round
  have hfix : rne F (n:ℚ) = n := by
    have := rne_fix F hp n 0 hn he
    simpa using this
  simp only [hfix, abs_eq_ite, pow2_eq]
  have hlt : ¬ ((2:ℚ)^(F.emax + 1) ≤ |(n:ℚ)|) := by
    rw [not_le]
    have h1 : |(n:ℚ)| < (2:ℚ)^(F.p) := by
      have : ((n.natAbs : ℕ) : ℚ) < ((2^F.p : ℕ) : ℚ) := by exact_mod_cast hn
      rw [Nat.cast_natAbs] at this
      push_cast at this; exact this
    have h2 : (2:ℚ)^(F.p) ≤ (2:ℚ)^(F.emax + 1) := by
      rw [← zpow_natCast]; exact zpow_le_zpow_right₀ (by norm_num) hmax
    exact lt_of_lt_of_le h1 h2
  have hne : ¬ ((n:ℚ) = 0) := by exact_mod_cast hn0
  simp only [hlt, hne, if_false]

theorem ofInt_zero (F : Fmt) : FV.ofInt F 0 = .fin 0 := by
  simp [FV.ofInt, FV.round, rne_zero, FV.zero, pow2_eq]
  exact two_zpow_pos _

/-- small integers convert exactly -/
theorem ofInt_exact (F : Fmt) (hp : 1 ≤ F.p) (he : F.emin ≤ 0) (hmax : (F.p : ℤ) ≤ F.emax + 1) (n : ℤ) (hn0 : n ≠ 0)
    (hn : n.natAbs < 2^F.p) : FV.ofInt F n = .fin n := round_exact F hp he hmax n hn0 hn false

/-- `v` is a float64 value: converting it to float64 changes nothing -/
def IsF64 (v : FV) : Prop := FV.conv f64 v = v

end Sig

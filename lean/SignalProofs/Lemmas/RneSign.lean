import SignalProofs.Lemmas.RneLaws
set_option linter.unusedVariables false
set_option linter.unusedSimpArgs false
namespace Sig

theorem roundEven_neg (y : ℚ) : roundEven (-y) = -roundEven y := by
  -- characterise via cases on both sides
  have hy := roundEven_cases y
  have hn := roundEven_cases (-y)
  have f1 := Int.floor_le y
  have f2 := Int.lt_floor_add_one y
  have g1 := Int.floor_le (-y)
  have g2 := Int.lt_floor_add_one (-y)
  by_cases hint : (⌊y⌋ : ℚ) = y
  · -- y integer
    have : y = ((⌊y⌋:ℤ):ℚ) := hint.symm
    rw [this, ← Int.cast_neg, roundEven_int, roundEven_int]
  · have hlt : (⌊y⌋:ℚ) < y := lt_of_le_of_ne f1 hint
    -- floor(-y) = -floor y - 1
    have hfl : ⌊-y⌋ = -⌊y⌋ - 1 := by
      rw [Int.floor_eq_iff]; push_cast; constructor <;> linarith
    rcases hy with ⟨ey, ay, by_⟩ | ⟨ey, ay, by_⟩ <;> rcases hn with ⟨en, an, bn⟩ | ⟨en, an, bn⟩
    · -- y rounds down (frac ≤ 1/2), -y rounds down (frac(-y) ≤ 1/2) → frac y = 1/2 both, parity clash
      rw [hfl] at an bn; push_cast at an bn
      have hy2 : y - (⌊y⌋:ℚ) = 1/2 := by linarith
      have hn2 : -y - (-(⌊y⌋:ℚ) - 1) = 1/2 := by linarith
      have p1 := by_ hy2
      have p2 := bn hn2
      omega
    · rw [en, ey, hfl]; ring
    · rw [en, ey, hfl]; ring
    · rw [hfl] at an bn; push_cast at an bn
      have hy2 : y - (⌊y⌋:ℚ) = 1/2 := by linarith
      have hn2 : -y - (-(⌊y⌋:ℚ) - 1) = 1/2 := by linarith
      have p1 := by_ hy2
      have p2 := bn hn2
      omega

theorem rne_zero (F : Fmt) : rne F 0 = 0 := by simp [rne]

theorem rne_neg (F : Fmt) (x : ℚ) : rne F (-x) = -rne F x := by
  by_cases h0 : x = 0
  · subst h0; simp [rne_zero]
  · unfold rne
    have hn0 : -x ≠ 0 := neg_ne_zero.mpr h0
    simp only [h0, hn0, if_false]
    rcases lt_or_gt_of_ne h0 with hneg | hpos
    · have h1 : ¬ (-x < 0) := by linarith
      simp only [hneg, h1, if_true, if_false, neg_neg]
      rw [neg_div, roundEven_neg]; push_cast; ring
    · have h1 : ¬ (x < 0) := by linarith
      have h2 : -x < 0 := by linarith
      simp only [h1, h2, if_true, if_false, neg_neg]
      rw [neg_div, roundEven_neg]; push_cast; ring

theorem rne_nonneg' (F : Fmt) {x : ℚ} (hx : 0 ≤ x) : 0 ≤ rne F x := by
  rcases eq_or_lt_of_le hx with h | h
  · rw [← h, rne_zero]
  · exact rne_nonneg F h

theorem rne_nonpos (F : Fmt) {x : ℚ} (hx : x ≤ 0) : rne F x ≤ 0 := by
  have := rne_nonneg' F (by linarith : 0 ≤ -x)
  rw [rne_neg] at this; linarith

/-- monotone on all of ℚ -/
theorem rne_mono (F : Fmt) (hp : 1 ≤ F.p) {x y : ℚ} (h : x ≤ y) : rne F x ≤ rne F y := by
  rcases lt_trichotomy x 0 with hx | hx | hx
  · rcases lt_trichotomy y 0 with hy | hy | hy
    · -- both negative: -y ≤ -x positive
      have := rne_mono_pos F hp (by linarith : 0 < -y) (by linarith : -y ≤ -x)
      rw [rne_neg, rne_neg] at this; linarith
    · subst hy; rw [rne_zero]; exact rne_nonpos F (le_of_lt hx)
    · exact le_trans (rne_nonpos F (le_of_lt hx)) (rne_nonneg F hy)
  · subst hx; rw [rne_zero]; exact rne_nonneg' F h
  · exact rne_mono_pos F hp hx h

/-- representable values (either sign) are fixed points -/
theorem rne_fix (F : Fmt) (hp : 1 ≤ F.p) (m : ℤ) (e : ℤ) (hm : m.natAbs < 2^F.p) (he : F.emin ≤ e) :
    rne F ((m:ℚ) * 2^e) = (m:ℚ) * 2^e := by
  rcases lt_trichotomy m 0 with h | h | h
  · obtain ⟨n, hn⟩ := Int.eq_ofNat_of_zero_le (by omega : 0 ≤ -m)
    have hm' : m = -(n:ℤ) := by omega
    subst hm'
    have hn0 : 0 < n := by omega
    have hlt : n < 2^F.p := by simpa using hm
    have := rne_fix_pos F hp n e hn0 hlt he
    push_cast
    rw [neg_mul, rne_neg, this]
  · subst h; simp [rne_zero]
  · obtain ⟨n, hn⟩ := Int.eq_ofNat_of_zero_le (le_of_lt h)
    subst hn
    have hn0 : 0 < n := by exact_mod_cast h
    have hlt : n < 2^F.p := by simpa using hm
    exact_mod_cast rne_fix_pos F hp n e hn0 hlt he

/-- relative error in the normal range: |rne x - x| ≤ 2^-p * |x| -/
theorem rne_relerr_pos (F : Fmt) {x : ℚ} (hx : 0 < x) (hnorm : F.emin ≤ ilog2 x - ((F.p:ℤ) - 1)) :
    |rne F x - x| ≤ 2^(-(F.p:ℤ)) * x := by
  have h := rne_err_pos F hx
  have he : expo F x = ilog2 x - ((F.p:ℤ) - 1) := by unfold expo; omega
  rw [he] at h
  obtain ⟨l1, _⟩ := ilog2_spec x hx
  calc |rne F x - x| ≤ 2^(ilog2 x - ((F.p:ℤ) - 1)) / 2 := h
    _ = 2^(-(F.p:ℤ)) * 2^(ilog2 x) := by
        rw [show ilog2 x - ((F.p:ℤ) - 1) = -(F.p:ℤ) + ilog2 x + 1 by ring,
            zpow_add₀ (by norm_num), zpow_add₀ (by norm_num)]; simp
    _ ≤ 2^(-(F.p:ℤ)) * x := by
        apply mul_le_mul_of_nonneg_left l1; positivity

end Sig

import SignalProofs.Lemmas.FloatOps
import SignalModel.Alloc
/-!
# Every bit pattern of a float32 / float64 cell decodes to a float64 value

This discharges the hypothesis `IsF64 v` of the float-kernel theorems for exactly the values the
driver feeds to the kernels: `cellToFV k x = decodeBits k.fmt x.toNat`.
-/
namespace Sig
set_option linter.unusedVariables false
set_option linter.unusedSimpArgs false
open FV

theorem conv_fin_exact (m : ℕ) (e : ℤ) (neg : Bool) (hm0 : 0 < m) (hm : m < 2^53) (he : -1074 ≤ e)
    (hbig : ((m:ℚ) * 2^e) < 2^(1024:ℤ)) :
    FV.conv f64 (.fin (if neg then -((m:ℚ) * 2^e) else (m:ℚ) * 2^e)) =
      .fin (if neg then -((m:ℚ) * 2^e) else (m:ℚ) * 2^e) := by
  have hpos : (0:ℚ) < (m:ℚ) * 2^e := by positivity
  have hfix : rne f64 ((m:ℚ) * 2^e) = (m:ℚ) * 2^e := by
    have := rne_fix f64 (by decide) (m:ℤ) e (by simpa [f64] using hm) (by simpa [f64] using he)
    simpa using this
  have emax : f64.emax + 1 = 1024 := by decide
  cases neg
  · simp only [Bool.false_eq_true, if_false, FV.conv, FV.round, hfix, abs_eq_ite, pow2_eq, emax]
    rw [abs_of_pos hpos]
    simp only [not_le.mpr hbig, if_false, ne_of_gt hpos]
  · simp only [if_true, FV.conv, FV.round, rne_neg, hfix, abs_eq_ite, pow2_eq, emax, abs_neg]
    rw [abs_of_pos hpos]
    have : ¬ (-((m:ℚ) * 2^e) = 0) := by linarith
    simp only [not_le.mpr hbig, if_false, this]

/-- every bit pattern of a format no wider than binary64 decodes to a float64 value -/
theorem decode_isF64 (F : Fmt) (hp : 1 ≤ F.p) (hp53 : F.p ≤ 53) (he : -1074 ≤ F.emin)
    (hmax : (F.p:ℤ) + ((2^F.ebits : ℕ):ℤ) - 3 + F.emin ≤ 1024) (heb : 2 ≤ F.ebits) (b : ℕ) :
    IsF64 (decodeBits F b) := by
  unfold IsF64 decodeBits
  simp only
  set s := b / 2^(F.ebits + F.mbits) % 2 with hs
  set ex := b / 2^F.mbits % 2^F.ebits with hex
  set fr := b % 2^F.mbits with hfr
  have hfrlt : fr < 2^F.mbits := Nat.mod_lt _ (by positivity)
  have hexlt : ex < 2^F.ebits := Nat.mod_lt _ (by positivity)
  have hmb : F.mbits + 1 = F.p := by unfold Fmt.mbits; omega
  have h2p : 2^F.mbits * 2 = 2^F.p := by rw [← hmb, pow_succ]
  have hp2 : (2:ℕ)^F.p ≤ 2^53 := Nat.pow_le_pow_right (by norm_num) hp53
  by_cases hE : ex = F.expMask
  · simp only [hE, if_true]
    split_ifs <;> simp [FV.conv]
  · simp only [hE, if_false]
    by_cases hx0 : ex = 0
    · -- subnormal or zero
      simp only [hx0, if_true, pow2_eq]
      by_cases hf0 : fr = 0
      · simp only [hf0, Nat.cast_zero, zero_mul, if_true]
        split_ifs
        · simp [FV.conv]
        · simp [FV.conv, FV.round, rne_zero, FV.zero, pow2_eq]; exact two_zpow_pos _
      · have hpos : (0:ℚ) < (fr:ℚ) * 2^F.emin := by
          have : 0 < fr := Nat.pos_of_ne_zero hf0
          positivity
        simp only [ne_of_gt hpos, if_false]
        have := conv_fin_exact fr F.emin (decide (s = 1)) (Nat.pos_of_ne_zero hf0) (by omega) he (by
          have h1 : (fr:ℚ) < 2^(F.p:ℤ) := by
            have : fr < 2^F.p := by omega
            rw [zpow_natCast]; exact_mod_cast this
          have h2 : (2:ℚ)^F.emin ≤ 2^((1024:ℤ) - F.p) := by
            apply zpow_le_zpow_right₀ (by norm_num)
            have : (4:ℕ) ≤ 2^F.ebits := by
              calc (4:ℕ) = 2^2 := by norm_num
                _ ≤ 2^F.ebits := Nat.pow_le_pow_right (by norm_num) heb
            have : (4:ℤ) ≤ ((2^F.ebits : ℕ):ℤ) := by exact_mod_cast this
            omega
          calc (fr:ℚ) * 2^F.emin < 2^(F.p:ℤ) * 2^((1024:ℤ) - F.p) := by
                apply mul_lt_mul h1 h2 (by positivity) (by positivity)
            _ = 2^(1024:ℤ) := by rw [← zpow_add₀ (by norm_num)]; congr 1; ring)
        by_cases hs1 : s = 1 <;> simpa [hs1] using this
    · -- normal
      simp only [hx0, if_false, pow2_eq]
      have hm0 : 0 < fr + 2^F.mbits := by positivity
      have hpos : (0:ℚ) < ((fr + 2^F.mbits : ℕ) : ℚ) * 2^((ex:ℤ) - 1 + F.emin) := by positivity
      simp only [ne_of_gt hpos, if_false]
      have hexm : ex ≤ 2^F.ebits - 2 := by
        unfold Fmt.expMask at hE; omega
      have := conv_fin_exact (fr + 2^F.mbits) ((ex:ℤ) - 1 + F.emin) (decide (s = 1)) hm0 (by omega)
        (by have : 1 ≤ ex := Nat.pos_of_ne_zero hx0; omega) (by
          have h1 : ((fr + 2^F.mbits : ℕ):ℚ) < 2^(F.p:ℤ) := by
            have : fr + 2^F.mbits < 2^F.p := by omega
            rw [zpow_natCast]; exact_mod_cast this
          have h2 : (2:ℚ)^((ex:ℤ) - 1 + F.emin) ≤ 2^((1024:ℤ) - F.p) := by
            apply zpow_le_zpow_right₀ (by norm_num)
            have h2e : (2:ℕ) ≤ 2^F.ebits := by
              calc (2:ℕ) = 2^1 := by norm_num
                _ ≤ 2^F.ebits := Nat.pow_le_pow_right (by norm_num) (by omega)
            have : ((ex:ℕ):ℤ) ≤ ((2^F.ebits : ℕ):ℤ) - 2 := by
              have := Int.ofNat_le.mpr hexm
              rw [Nat.cast_sub h2e] at this
              simpa using this
            omega
          calc ((fr + 2^F.mbits : ℕ):ℚ) * 2^((ex:ℤ) - 1 + F.emin) < 2^(F.p:ℤ) * 2^((1024:ℤ) - F.p) := by
                apply mul_lt_mul h1 h2 (by positivity) (by positivity)
            _ = 2^(1024:ℤ) := by rw [← zpow_add₀ (by norm_num)]; congr 1; ring)
      by_cases hs1 : s = 1 <;> simpa [hs1] using this

/-- every float64 and float32 cell decodes to a float64 value -/
theorem cell_isF64 (k : Kind) (x : Int) : IsF64 (cellToFV k x) := by
  unfold cellToFV Kind.fmt
  split
  · exact decode_isF64 f32 (by decide) (by decide) (by decide) (by decide) (by decide) _
  · exact decode_isF64 f64 (by decide) (by decide) (by decide) (by decide) (by decide) _

end Sig

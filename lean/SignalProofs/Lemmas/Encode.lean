import SignalProofs.Lemmas.Decode
/-!
# `decodeBits ∘ encodeBits = id` on the values of a format

The driver compares *cells* (bit patterns) while the float theorems speak about `FV` values; this
lemma shows that encoding a value of format `F` and decoding the pattern gives the value back, so a
statement about the model's `FV` result is a statement about the cell the model prints.
-/
namespace Sig
set_option linter.unusedVariables false
set_option linter.unusedSimpArgs false
open FV

/-- the IEEE relation between the fields of a format (binary32 and binary64 satisfy it) -/
structure IEEEFmt (F : Fmt) : Prop where
  p2 : 2 ≤ F.p
  eb : 2 ≤ F.ebits
  emin : F.emin = 2 - F.emax - F.p
  emax : F.emax + 1 = ((2^(F.ebits - 1) : ℕ) : ℤ)

theorem ieee_f64 : IEEEFmt f64 := ⟨by decide, by decide, by decide, by decide⟩
theorem ieee_f32 : IEEEFmt f32 := ⟨by decide, by decide, by decide, by decide⟩

/-- a positive fixed point of `rne` is `m·2^e` with `e = expo`, `m < 2^p`, and `m ≥ 2^(p−1)` unless subnormal -/
theorem repr_parts (F : Fmt) (hp : 1 ≤ F.p) (a : ℚ) (ha : 0 < a) (hfix : rne F a = a) :
    ∃ m : ℕ, a = (m:ℚ) * 2^(expo F a) ∧ 0 < m ∧ m < 2^F.p ∧
      (expo F a = F.emin ∨ 2^(F.p-1) ≤ m) ∧ (m < 2^(F.p-1) → expo F a = F.emin) := by
  set e := expo F a with he
  have hs : (0:ℚ) < 2^e := two_zpow_pos e
  obtain ⟨l1, l2⟩ := ilog2_spec a ha
  have hee : ilog2 a - ((F.p:ℤ) - 1) ≤ e := by rw [he]; unfold expo; exact le_max_left _ _
  rw [rne_pos_eq F ha] at hfix
  have hm0 : 0 ≤ roundEven (a / 2^e) := by
    have := roundEven_mono (show (0:ℚ) ≤ a / 2^e by positivity)
    have z : roundEven (0:ℚ) = 0 := by simpa using roundEven_int 0
    rwa [z] at this
  obtain ⟨m, hmv⟩ := Int.eq_ofNat_of_zero_le hm0
  rw [hmv] at hfix
  have ham : a = (m:ℚ) * 2^e := by rw [← hfix]; norm_cast
  have hmpos : 0 < m := by
    rcases Nat.eq_zero_or_pos m with h | h
    · rw [h] at ham; simp at ham; linarith
    · exact h
  have hmq : (m:ℚ) = a / 2^e := by rw [ham]; field_simp
  have hlt : m < 2^F.p := by
    have : (m:ℚ) < 2^(F.p:ℤ) := by
      rw [hmq, div_lt_iff₀ hs, ← zpow_add₀ (by norm_num)]
      exact lt_of_lt_of_le l2 (zpow_le_zpow_right₀ (by norm_num) (by omega))
    rw [zpow_natCast] at this; exact_mod_cast this
  have hcase : e = F.emin ∨ e = ilog2 a - ((F.p:ℤ) - 1) := by
    rw [he]; unfold expo
    rcases le_total (ilog2 a - ((F.p:ℤ) - 1)) F.emin with h | h
    · left; exact max_eq_right h
    · right; exact max_eq_left h
  have hnorm : e = ilog2 a - ((F.p:ℤ) - 1) → 2^(F.p-1) ≤ m := by
    intro h
    have : (2:ℚ)^((F.p:ℤ) - 1) ≤ m := by
      rw [hmq, le_div_iff₀ hs, ← zpow_add₀ (by norm_num)]
      have : (F.p:ℤ) - 1 + e = ilog2 a := by omega
      rw [this]; exact l1
    have e2 : (2:ℚ)^((F.p:ℤ) - 1) = ((2^(F.p-1) : ℕ) : ℚ) := by
      push_cast; rw [← zpow_natCast]; congr 1; omega
    rw [e2] at this; exact_mod_cast this
  refine ⟨m, ham, hmpos, hlt, ?_, ?_⟩
  · rcases hcase with h | h
    · left; exact h
    · right; exact hnorm h
  · intro hsub
    rcases hcase with h | h
    · exact h
    · have := hnorm h; omega

/-- natural-number bit fiddling: splitting `σ·2^(E+M) + x·2^M + r` -/
theorem bits_split (E M σ x r : ℕ) (hσ : σ < 2) (hx : x < 2^E) (hr : r < 2^M) :
    (σ * 2^(E+M) + (x * 2^M + r)) / 2^(E+M) % 2 = σ ∧
    (σ * 2^(E+M) + (x * 2^M + r)) / 2^M % 2^E = x ∧
    (σ * 2^(E+M) + (x * 2^M + r)) % 2^M = r := by
  have hM : 0 < 2^M := by positivity
  have hE : 0 < 2^E := by positivity
  have hbody : x * 2^M + r < 2^(E+M) := by
    rw [pow_add]
    calc x * 2^M + r < x * 2^M + 2^M := by omega
      _ = (x + 1) * 2^M := by ring
      _ ≤ 2^E * 2^M := Nat.mul_le_mul_right _ hx
  refine ⟨?_, ?_, ?_⟩
  · rw [Nat.mul_comm σ, Nat.mul_add_div (by positivity), Nat.div_eq_of_lt hbody, Nat.add_zero]
    exact Nat.mod_eq_of_lt hσ
  · have e1 : σ * 2^(E+M) + (x * 2^M + r) = (σ * 2^E + x) * 2^M + r := by rw [pow_add]; ring
    rw [e1, Nat.mul_comm _ (2^M), Nat.mul_add_div hM, Nat.div_eq_of_lt hr, Nat.add_zero,
      Nat.mul_comm σ, Nat.mul_add_mod]
    exact Nat.mod_eq_of_lt hx
  · have e1 : σ * 2^(E+M) + (x * 2^M + r) = (σ * 2^E + x) * 2^M + r := by rw [pow_add]; ring
    rw [e1, Nat.mul_comm _ (2^M), Nat.mul_add_mod]
    exact Nat.mod_eq_of_lt hr

/-- **finite non-zero values**: encoding `±a` (a positive value of the format below the overflow
threshold) and decoding gives `±a` back -/
theorem decode_encode_fin (F : Fmt) (hF : IEEEFmt F) (a : ℚ) (ha : 0 < a) (hfix : rne F a = a)
    (hbig : a < 2^(F.emax + 1)) (neg : Bool) :
    decodeBits F (encodeBits F (.fin (if neg then -a else a))) = .fin (if neg then -a else a) := by
  obtain ⟨p2, eb, hemin, hemax⟩ := hF
  obtain ⟨m, ham, hmpos, hmlt, hcase, hsub⟩ := repr_parts F (by omega) a ha hfix
  set e := expo F a with he
  have hs : (0:ℚ) < 2^e := two_zpow_pos e
  have hMp : F.mbits + 1 = F.p := by unfold Fmt.mbits; omega
  have h2p : 2^F.mbits * 2 = 2^F.p := by rw [← hMp, pow_succ]
  have hpm : 2^(F.p-1) = 2^F.mbits := by unfold Fmt.mbits; rfl
  -- the value whose bits are taken
  set x : ℚ := if neg then -a else a with hx
  have hx0 : x ≠ 0 := by rw [hx]; split_ifs <;> linarith
  have hxneg : (x < 0) = (neg = true) := by
    rw [hx]; cases neg <;> simp <;> linarith
  have habs : (if x < 0 then -x else x) = a := by
    rw [hx]; cases neg <;> simp <;> [skip; skip]
    · intro h; linarith
    · intro h; linarith
  -- the mantissa computed by encodeBits
  have hmant : (a / pow2 e).floor.toNat = m := by
    rw [pow2_eq, ham, mul_div_assoc, div_self (ne_of_gt hs), mul_one, floor_eq]
    simp
  -- exponent bounds
  obtain ⟨l1, l2⟩ := ilog2_spec a ha
  have hil : ilog2 a ≤ F.emax := by
    have : (2:ℚ)^(ilog2 a) < 2^(F.emax + 1) := lt_of_le_of_lt l1 hbig
    have := (zpow_lt_zpow_iff_right₀ (by norm_num : (1:ℚ) < 2)).mp this
    omega
  have hemine : F.emin ≤ e := by rw [he]; unfold expo; exact le_max_right _ _
  have hele : e ≤ F.emax - F.p + 1 ∨ e = F.emin := by
    rw [he]; unfold expo
    rcases le_total (ilog2 a - ((F.p:ℤ) - 1)) F.emin with h | h
    · right; exact max_eq_right h
    · left; rw [max_eq_left h]; omega
  have hEb : (2:ℕ)^(F.ebits - 1) * 2 = 2^F.ebits := by rw [← pow_succ]; congr 1; omega
  have hE1 : (1:ℕ) ≤ 2^(F.ebits - 1) := Nat.one_le_two_pow
  unfold encodeBits
  simp only [hx0, if_false, habs]
  rw [← he]
  simp only [hmant]
  by_cases hsm : m < 2^F.mbits
  · -- subnormal: exponent field 0
    simp only [hsm, if_true]
    have hee : e = F.emin := hsub (by rw [hpm]; exact hsm)
    have hb := bits_split F.ebits F.mbits (if x < 0 then 1 else 0) 0 m (by split_ifs <;> norm_num) (by positivity) hsm
    have hform : m + (if x < 0 then 2^(F.ebits + F.mbits) else 0) =
        (if x < 0 then 1 else 0) * 2^(F.ebits + F.mbits) + (0 * 2^F.mbits + m) := by split_ifs <;> ring
    rw [hform]
    unfold decodeBits
    simp only [hb.1, hb.2.1, hb.2.2]
    have hmask : ¬ (0 = F.expMask) := by
      unfold Fmt.expMask
      have : 2 ≤ 2^F.ebits := by
        calc 2 = 2^1 := by norm_num
          _ ≤ 2^F.ebits := Nat.pow_le_pow_right (by norm_num) (by omega)
      omega
    simp only [hmask, if_false, if_true, pow2_eq]
    have hmag : (m:ℚ) * 2^F.emin = a := by rw [ham, hee]
    have hmag0 : ¬ ((m:ℚ) * 2^F.emin = 0) := by rw [hmag]; exact ne_of_gt ha
    simp only [hmag0, if_false, hmag]
    rw [hx]
    cases neg
    · have : ¬ a < 0 := by linarith
      simp [this]
      try (intro h; linarith)
    · have : -a < 0 := by linarith
      simp [this]
      try (intro h; linarith)
  · -- normal
    simp only [hsm, if_false]
    have hmge : 2^F.mbits ≤ m := Nat.le_of_not_lt hsm
    have hnormal : e ≠ F.emin ∨ True := Or.inr trivial
    have heN : F.emin ≤ e := hemine
    obtain ⟨E, hE⟩ := Int.eq_ofNat_of_zero_le (show 0 ≤ e - F.emin + 1 by omega)
    have hEpos : 1 ≤ E := by omega
    have hEle : E + 2 ≤ 2^F.ebits := by
      have h1 : e ≤ F.emax - F.p + 1 := by
        rcases hele with h | h
        · exact h
        · -- e = emin, still below the bound because emin ≤ emax − p + 1
          have h2 : (2:ℕ) ≤ 2^(F.ebits - 1) := by
            calc 2 = 2^1 := by norm_num
              _ ≤ 2^(F.ebits - 1) := Nat.pow_le_pow_right (by norm_num) (by omega)
          have h3 : (2:ℤ) ≤ ((2^(F.ebits - 1) : ℕ) : ℤ) := by exact_mod_cast h2
          rw [h, hemin]; omega
      have : (E:ℤ) ≤ 2 * F.emax := by omega
      have : (E:ℤ) + 2 ≤ 2 * (F.emax + 1) := by omega
      rw [hemax] at this
      have : E + 2 ≤ 2 * 2^(F.ebits - 1) := by exact_mod_cast this
      omega
    have hr : m - 2^F.mbits < 2^F.mbits := by omega
    rw [hE]
    simp only [Int.toNat_natCast]
    have hb := bits_split F.ebits F.mbits (if x < 0 then 1 else 0) E (m - 2^F.mbits)
      (by split_ifs <;> norm_num) (by omega) hr
    have hform : E * 2^F.mbits + (m - 2^F.mbits) + (if x < 0 then 2^(F.ebits + F.mbits) else 0) =
        (if x < 0 then 1 else 0) * 2^(F.ebits + F.mbits) + (E * 2^F.mbits + (m - 2^F.mbits)) := by split_ifs <;> ring
    rw [hform]
    unfold decodeBits
    simp only [hb.1, hb.2.1, hb.2.2]
    have hmask : ¬ (E = F.expMask) := by unfold Fmt.expMask; omega
    have hE0 : ¬ (E = 0) := by omega
    simp only [hmask, hE0, if_false, pow2_eq]
    have hmm : m - 2^F.mbits + 2^F.mbits = m := by omega
    have hexp : ((E:ℕ):ℤ) - 1 + F.emin = e := by omega
    have hmag : ((m - 2^F.mbits + 2^F.mbits : ℕ) : ℚ) * 2^(((E:ℕ):ℤ) - 1 + F.emin) = a := by
      rw [hmm, hexp, ← ham]
    have hmag0 : ¬ (((m - 2^F.mbits + 2^F.mbits : ℕ) : ℚ) * 2^(((E:ℕ):ℤ) - 1 + F.emin) = 0) := by
      rw [hmag]; exact ne_of_gt ha
    simp only [hmag0, if_false, hmag]
    rw [hx]
    cases neg
    · have : ¬ a < 0 := by linarith
      simp [this]
      try (intro h; linarith)
    · have : -a < 0 := by linarith
      simp [this]
      try (intro h; linarith)

/-- the pattern of zero decodes to `+0` -/
theorem decode_zero (F : Fmt) (hF : IEEEFmt F) : decodeBits F 0 = .fin 0 := by
  have hmask : ¬ (0 = F.expMask) := by
    unfold Fmt.expMask
    have : 2 ≤ 2^F.ebits := by
      calc 2 = 2^1 := by norm_num
        _ ≤ 2^F.ebits := Nat.pow_le_pow_right (by norm_num) (by have := hF.eb; omega)
    omega
  unfold decodeBits
  simp [hmask]

theorem decode_encode_nzero (F : Fmt) (hF : IEEEFmt F) :
    decodeBits F (encodeBits F .nzero) = .nzero := by
  have hmask : ¬ (0 = F.expMask) := by
    unfold Fmt.expMask
    have : 2 ≤ 2^F.ebits := by
      calc 2 = 2^1 := by norm_num
        _ ≤ 2^F.ebits := Nat.pow_le_pow_right (by norm_num) (by have := hF.eb; omega)
    omega
  have hb := bits_split F.ebits F.mbits 1 0 0 (by norm_num) (by positivity) (by positivity)
  have hform : 2^(F.ebits + F.mbits) = 1 * 2^(F.ebits + F.mbits) + (0 * 2^F.mbits + 0) := by ring
  show decodeBits F (2^(F.ebits + F.mbits)) = _
  rw [hform]
  unfold decodeBits
  simp only [hb.1, hb.2.1, hb.2.2]
  simp [hmask]

theorem decode_encode_inf (F : Fmt) (hF : IEEEFmt F) (n : Bool) :
    decodeBits F (encodeBits F (.inf n)) = .inf n := by
  have hx : F.expMask < 2^F.ebits := by
    unfold Fmt.expMask; have : 0 < 2^F.ebits := by positivity
    omega
  have hb := bits_split F.ebits F.mbits (if n then 1 else 0) F.expMask 0
    (by split_ifs <;> norm_num) hx (by positivity)
  have hform : (if n then 2^(F.ebits + F.mbits) else 0) + F.expMask * 2^F.mbits =
      (if n then 1 else 0) * 2^(F.ebits + F.mbits) + (F.expMask * 2^F.mbits + 0) := by
    split_ifs <;> ring
  show decodeBits F ((if n then 2^(F.ebits + F.mbits) else 0) + F.expMask * 2^F.mbits) = _
  rw [hform]
  unfold decodeBits
  simp only [hb.1, hb.2.1, hb.2.2]
  cases n <;> simp

theorem decode_encode_nan (F : Fmt) (hF : IEEEFmt F) :
    decodeBits F (encodeBits F .nan) = .nan := by
  have hx : F.expMask < 2^F.ebits := by
    unfold Fmt.expMask; have : 0 < 2^F.ebits := by positivity
    omega
  have hm1 : 1 ≤ F.mbits := by unfold Fmt.mbits; have := hF.p2; omega
  have hr : 2^(F.mbits - 1) < 2^F.mbits := Nat.pow_lt_pow_right (by norm_num) (by omega)
  have hb := bits_split F.ebits F.mbits 0 F.expMask (2^(F.mbits - 1)) (by norm_num) hx hr
  have hform : F.expMask * 2^F.mbits + 2^(F.mbits - 1) =
      0 * 2^(F.ebits + F.mbits) + (F.expMask * 2^F.mbits + 2^(F.mbits - 1)) := by ring
  show decodeBits F F.nanBits = _
  unfold Fmt.nanBits
  rw [hform]
  unfold decodeBits
  simp only [hb.1, hb.2.1, hb.2.2]
  have : ¬ (2^(F.mbits - 1) = 0) := by positivity
  simp [this]

/-- a value *of* format `F`: converting it to `F` changes nothing -/
def IsFmt (F : Fmt) (v : FV) : Prop := FV.conv F v = v

/-- **`decodeBits ∘ encodeBits = id` on every value of an IEEE format** - NaN, both infinities,
both zeros, subnormals and normals -/
theorem decode_encode (F : Fmt) (hF : IEEEFmt F) (v : FV) (hv : IsFmt F v) :
    decodeBits F (encodeBits F v) = v := by
  cases v with
  | nan => exact decode_encode_nan F hF
  | inf n => exact decode_encode_inf F hF n
  | nzero => exact decode_encode_nzero F hF
  | fin q =>
    unfold IsFmt FV.conv at hv
    by_cases hq : q = 0
    · subst hq
      have : encodeBits F (.fin 0) = 0 := by unfold encodeBits; simp
      rw [this]; exact decode_zero F hF
    · -- `round F q = fin q`: `rne F q = q` and `|q|` below the overflow threshold
      unfold FV.round at hv
      simp only [] at hv
      by_cases hov : pow2 (F.emax + 1) ≤ (if rne F q < 0 then -rne F q else rne F q)
      · rw [if_pos hov] at hv; cases hv
      · rw [if_neg hov] at hv
        by_cases hr0 : rne F q = 0
        · rw [if_pos hr0] at hv
          have hne : ∀ b : Bool, FV.zero b ≠ .fin q := by
            intro b; unfold FV.zero; cases b
            · intro h; injection h with h; exact hq h.symm
            · intro h; cases h
          exact absurd hv (hne _)
        · rw [if_neg hr0] at hv
          injection hv with hfix
          rw [hfix, pow2_eq] at hov
          rw [not_le] at hov
          rcases lt_or_gt_of_ne hq with hneg | hpos
          · have ha : 0 < -q := by linarith
            have hfa : rne F (-q) = -q := by rw [rne_neg, hfix]
            have hbig : -q < 2^(F.emax + 1) := by rw [if_pos hneg] at hov; exact hov
            have := decode_encode_fin F hF (-q) ha hfa hbig true
            simpa using this
          · have hbig : q < 2^(F.emax + 1) := by
              rw [if_neg (by linarith)] at hov; exact hov
            have := decode_encode_fin F hF q hpos hfix hbig false
            simpa using this

/-- every result of `round` is a value of the format (so every arithmetic result can be encoded) -/
theorem decode_encode_f64 (v : FV) (hv : IsF64 v) : decodeBits f64 (encodeBits f64 v) = v :=
  decode_encode f64 ieee_f64 v hv

end Sig

import SignalGen.Generated
/-!
# Bounded witness search between the regenerated definitions and the model

Run by `./check` (`lake env lean SignalGen/Search.lean`) when an equivalence module of the *structural* kind no
longer checks: a proof script that stops applying says nothing about the function, so the regenerated definition
and the model are evaluated side by side on a small scope (every small header over a ten-cell heap, boundary
values of every format) and the first input on which they differ is printed as a witness.  Each block is a
separate command: a block whose definitions are missing fails alone.  Output: one line
`SEARCH <module> <function> checked=<n> witness=<none | description>` per function.
-/
namespace Sig.Search
open Sig

def resEq {α : Type} [BEq α] : Res α → Res α → Bool
  | .ok h v, .ok h' v' => h == h' && v == v'
  | .panic h _, .panic h' _ => h == h'
  | .unspec, .unspec => true
  | _, _ => false

def report (mod fn : String) (n : Nat) (w : Option String) : IO Unit :=
  IO.println s!"SEARCH {mod} {fn} checked={n} witness={w.getD "none"}"

/-- first element of `xs` on which `bad` holds -/
def firstBad {α : Type} (xs : List α) (bad : α → Bool) (descr : α → String) : Nat × Option String :=
  (xs.length, (xs.find? bad).map descr)

def heap0 : Heap := [[10, 11, 12, 13, 14, 15, 16, 17, 18, 19]]

/-- every header over `heap0` with at most 3 channels, offset ≤ 2, capacity ≤ 7 and len ≤ cap -/
def bufs : List Buf := Id.run do
  let mut out := []
  for ch in [0, 1, 2, 3] do
    for off in [0, 1, 2] do
      for cap in [0, 1, 2, 3, 4, 6, 7] do
        for len in List.range (cap + 1) do
          out := { ch := ch, blk := 0, off := off, len := len, cap := cap, kind := Kind.i16, depth := 16 : Buf } :: out
  return out

def idx : List Int := [-2, -1, 0, 1, 2, 3, 4, 5, 6, 7, 8, 4611686018427387905, 9223372036854775807, -9223372036854775808]
def small : List Int := [-1, 0, 1, 2, 3, 5, 7]

def intTys : List IntTy :=
  [⟨8, true⟩, ⟨16, true⟩, ⟨32, true⟩, ⟨64, true⟩, ⟨8, false⟩, ⟨16, false⟩, ⟨32, false⟩, ⟨64, false⟩]

def boundaryInts (T : IntTy) : List Int :=
  let lo := T.minVal; let hi := T.maxVal; let mid := if T.signed then 0 else 2^(T.w-1)
  [lo, lo + 1, lo + 2, mid - 2, mid - 1, mid, mid + 1, mid + 2, hi - 2, hi - 1, hi, mid + 77, mid - 77]

def fvs : List FV :=
  let q : List Rat := [0, 1, 1/2, 1/4, 3/4, 1/3, 2/3, 1 - 1/16777216, 1 + 1/8388608, 3/2, 2, 5/2, 255/256, 1/256, 1/32768,
    1/2147483648, 1000000, 1/1000000]
  let pos := q.map (fun x => FV.round f64 x)
  pos ++ pos.map FV.neg ++ [FV.inf false, FV.inf true, FV.nzero, FV.round f64 (2^70), FV.neg (FV.round f64 (2^70))]

end Sig.Search

open Sig Sig.Search

-- ------------------------------------------------------------------------------------------- SignalGen.Eq.Buffer
#eval do
  let (n, w) := firstBad bufs (fun b => Gen.Buffer_Cap b != (b.cap : Int) || Gen.Buffer_Len b != (b.len : Int))
    (fun b => s!"header={repr b}")
  report "SignalGen.Eq.Buffer" "Cap/Len" n w
#eval do
  let (n, w) := firstBad bufs (fun b => Gen.Buffer_Capacity b != (b.capacity : Int)) (fun b => s!"header={repr b} gen={Gen.Buffer_Capacity b} model={b.capacity}")
  report "SignalGen.Eq.Buffer" "Capacity" n w
#eval do
  let (n, w) := firstBad bufs (fun b => Gen.Buffer_Length b != some (b.length : Int)) (fun b => s!"header={repr b} gen={Gen.Buffer_Length b} model={b.length}")
  report "SignalGen.Eq.Buffer" "Length" n w
#eval do
  let cases := (bufs.filter (fun (b : Buf) => b.ch ≥ 1)).flatMap fun b => (List.range 4).map fun c => (b, c)
  let (n, w) := firstBad cases (fun (b, c) => Gen.Buffer_channelLength b (c : Int) != some (b.chanLen c : Int))
    (fun (b, c) => s!"header={repr b} channel={c} gen={Gen.Buffer_channelLength b c} model={b.chanLen c}")
  report "SignalGen.Eq.Buffer" "channelLength" n w
#eval do
  let cases := bufs.flatMap fun b => idx.map fun i => (b, i)
  let (n, w) := firstBad cases
    (fun (b, i) => !resEq (Gen.Buffer_Sample heap0 b i) (match Buf.sample heap0 b i with | some v => .ok heap0 (b, v) | none => .panic heap0 .index))
    (fun (b, i) => s!"header={repr b} i={i}")
  report "SignalGen.Eq.Buffer" "Sample" n w
#eval do
  let cases := bufs.flatMap fun b => idx.map fun i => (b, i)
  let (n, w) := firstBad cases
    (fun (b, i) => !resEq (Gen.Buffer_SetSample heap0 b i 99) (match Buf.setSample heap0 b i 99 with | some h' => .ok h' (b, ()) | none => .panic heap0 .index))
    (fun (b, i) => s!"header={repr b} i={i}")
  report "SignalGen.Eq.Buffer" "SetSample" n w

-- ------------------------------------------------------------------------------------------- SignalGen.Eq.AppendSample
#eval do
  let (n, w) := firstBad bufs
    (fun b => !resEq (Gen.Buffer_AppendSample heap0 b 99) (.ok (b.appendSample heap0 99).1 ((b.appendSample heap0 99).2, ())))
    (fun b => s!"header={repr b}")
  report "SignalGen.Eq.AppendSample" "AppendSample" n w

-- ------------------------------------------------------------------------------------------- SignalGen.Eq.Slice
#eval do
  let cases := bufs.flatMap fun b => idx.flatMap fun s => idx.map fun e => (b, s, e)
  let (n, w) := firstBad cases
    (fun (b, s, e) => !resEq (Gen.Buffer_Slice heap0 b s e) (match Buf.slice b s e with | some d => .ok heap0 (b, d) | none => .panic heap0 .other))
    (fun (b, s, e) => s!"header={repr b} start={s} end={e} model={repr (Buf.slice b s e)}")
  report "SignalGen.Eq.Slice" "Slice" n w

-- ------------------------------------------------------------------------------------------- SignalGen.Eq.Chan
#eval do
  let cases := bufs.flatMap fun b => small.flatMap fun c => idx.map fun i => (b, c, i)
  let (n, w) := firstBad cases (fun (b, c, i) => Gen.C_BufferIndex b c 5 i != chanIndex b c i) (fun (b, c, i) => s!"header={repr b} channel={c} i={i}")
  report "SignalGen.Eq.Chan" "C.BufferIndex" n w
#eval do
  let cases := bufs.flatMap fun b => small.flatMap fun c => idx.map fun i => (b, c, i)
  let (n, w) := firstBad cases
    (fun (b, c, i) => !resEq (Gen.C_Sample heap0 b c i) (match chanSample heap0 b c i with | some v => .ok heap0 (b, v) | none => .panic heap0 .index))
    (fun (b, c, i) => s!"header={repr b} channel={c} i={i}")
  report "SignalGen.Eq.Chan" "C.Sample" n w
#eval do
  let cases := bufs.flatMap fun b => small.flatMap fun c => idx.map fun i => (b, c, i)
  let (n, w) := firstBad cases
    (fun (b, c, i) => !resEq (Gen.C_SetSample heap0 b c i 99) (match chanSetSample heap0 b c i 99 with | some h' => .ok h' (b, ()) | none => .panic heap0 .index))
    (fun (b, c, i) => s!"header={repr b} channel={c} i={i}")
  report "SignalGen.Eq.Chan" "C.SetSample" n w
#eval do
  let (n, w) := firstBad bufs
    (fun b => Gen.C_Channels b 0 != 1 || Gen.C_Capacity b 0 != (b.capacity : Int) || Gen.C_Length b 0 != some (b.length : Int))
    (fun b => s!"header={repr b}")
  report "SignalGen.Eq.Chan" "C.Channels/Capacity/Length" n w

-- ------------------------------------------------------------------------------------------- SignalGen.Eq.Alloc
#eval do
  let cases := Kind.all.flatMap fun k => [0, 1, 2, 3, 8].flatMap fun ch => [0, 1, 2, 5].flatMap fun len => [0, 1, 2, 5, 6].map fun cap => (k, ch, len, cap)
  let (n, w) := firstBad cases
    (fun (k, ch, len, cap) => Gen.getBitDepth k != (getBitDepth k false : Int) ||
      !resEq (Gen.Alloc k heap0 (ch : Nat) (len : Nat) (cap : Nat)) (match alloc heap0 k false ch len cap with | some (h', b) => .ok h' b | none => .panic heap0 .other))
    (fun (k, ch, len, cap) => s!"kind={k.toString} ch={ch} len={len} cap={cap}")
  report "SignalGen.Eq.Alloc" "Alloc/getBitDepth" n w

-- ------------------------------------------------------------------------------------------- SignalGen.Eq.Pool
#eval do
  let pools : List Pool := [0, 1, 2, 3].flatMap fun ch => [0, 1, 2, 3, 4, 7].flatMap fun cap => (List.range (cap + 2)).map fun len =>
    ({ kind := Kind.i16, ch := ch, len := len, cap := cap, free := [] } : Pool)
  let cases := pools.flatMap fun p => bufs.map fun b => (p, b)
  let (n, w) := firstBad cases
    (fun (p, b) => !resEq (Gen.PoolAllocator_Put heap0 b (p.ch : Int) (p.len : Int) (p.cap : Int)) ((p.put heap0 b).bind fun h' b' => .ok h' (b', ())))
    (fun (p, b) => s!"pool ch={p.ch} len={p.len} cap={p.cap} header={repr b}")
  report "SignalGen.Eq.Pool" "Put/clear" n w

-- ------------------------------------------------------------------------------------------- SignalGen.Eq.Index / ChanLen
#eval do
  let cases := [0, 1, 2, 3, 5, 32].flatMap fun ch => idx.flatMap fun c => idx.map fun i => (ch, c, i)
  let (n, w) := firstBad cases (fun (ch, c, i) => Gen.channels_BufferIndex (ch : Nat) c i != bufferIndex ch c i) (fun (ch, c, i) => s!"channels={ch} channel={c} idx={i}")
  report "SignalGen.Eq.Index" "BufferIndex" n w
#eval do
  let cases := (List.range 41).flatMap fun (n : Nat) => (List.range 9).map fun (ch : Nat) => ((n : Int), (ch : Int))
  let cases := cases ++ [(9007199254740991, 1), (9007199254740991, 2), (4503599627370497, 4503599627370496), (1048579, 4), (0, 0), (7, 0)]
  let (n, w) := firstBad cases (fun (a, c) => Gen.ChannelLength a c != channelLengthF a c || Gen.min a c != min a c) (fun (a, c) => s!"n={a} channels={c} gen={Gen.ChannelLength a c} model={channelLengthF a c}")
  report "SignalGen.Eq.ChanLen" "ChannelLength/min" n w

-- ------------------------------------------------------------------------------------------- SignalGen.Eq.ScaleAll
#eval do
  let ds : List Nat := [0, 1, 2, 7, 8, 9, 15, 16, 24, 31, 32, 33, 63, 64, 65, 200, 255]
  let cases := intTys.flatMap fun T => ds.flatMap fun h => ds.map fun l => (T, h, l)
  let (n, w) := firstBad cases (fun (T, h, l) => Gen.Scale T (h : Int) (l : Int) != scale T h l) (fun (T, h, l) => s!"T={repr T} high={h} low={l} gen={Gen.Scale T h l} model={scale T h l}")
  report "SignalGen.Eq.ScaleAll" "Scale" n w

-- ------------------------------------------------------------------------------------------- SignalGen.Eq.Freq
#eval do
  let fs : List Rat := [1, 1/2, 5002/5, 44100, 88201/2, 48000, 1000000, 37/10, 1/1000, 8000, 22050, 96000, 11025]
  let ns : List Int := [0, 1, 2, 3, 7, 999, 1000, 1001, 44099, 44100, 44101, 44141, 1300000000, 1000000000, 999999999, 86400000000000, -1, -999, -1300000000, 3600000000000]
  let cases := fs.flatMap fun f => ns.map fun n => (FV.round f64 f, n)
  let (n, w) := firstBad cases (fun (f, k) => Gen.Frequency_Duration f k != duration f k || Gen.Frequency_Events f k != events f k)
    (fun (f, k) => s!"f={repr f} n={k} genDur={Gen.Frequency_Duration f k} modelDur={duration f k} genEv={Gen.Frequency_Events f k} modelEv={events f k}")
  report "SignalGen.Eq.Freq" "Duration/Events" n w

-- ------------------------------------------------------------------------------------------- SignalGen.Eq.F2F / F2I / I2F
#eval do
  let cases := [f32, f64].flatMap fun F => fvs.map fun v => (F, v)
  let (n, w) := firstBad cases (fun (F, v) => Gen.FloatAsFloat_k f64 F 64 F.bits v != some (f2fK F v)) (fun (F, v) => s!"dst-bits={F.bits} v={repr v}")
  report "SignalGen.Eq.F2F" "FloatAsFloat" n w
#eval do
  let cases := (intTys.filter (fun (T : IntTy) => T.signed)).flatMap fun D => fvs.map fun v => (D, v)
  let (n, w) := firstBad cases (fun (D, v) => Gen.FloatAsSigned_k f64 D 64 D.w v != f2sK D D.w v) (fun (D, v) => s!"dst={repr D} v={repr v} gen={Gen.FloatAsSigned_k f64 D 64 D.w v} model={f2sK D D.w v}")
  report "SignalGen.Eq.F2I" "FloatAsSigned" n w
#eval do
  let cases := (intTys.filter (fun (T : IntTy) => !T.signed)).flatMap fun D => fvs.map fun v => (D, v)
  let (n, w) := firstBad cases (fun (D, v) => Gen.FloatAsUnsigned_k f64 D 64 D.w v != f2uK D D.w v) (fun (D, v) => s!"dst={repr D} v={repr v} gen={Gen.FloatAsUnsigned_k f64 D 64 D.w v} model={f2uK D D.w v}")
  report "SignalGen.Eq.F2I" "FloatAsUnsigned" n w
#eval do
  let cases := (intTys.filter (fun (T : IntTy) => T.signed)).flatMap fun S => [f32, f64].flatMap fun F => (boundaryInts S).map fun x => (S, F, x)
  let (n, w) := firstBad cases (fun (S, F, x) => Gen.SignedAsFloat_k S F S.w F.bits x != some (s2fK F S.w x)) (fun (S, F, x) => s!"src={repr S} dst-bits={F.bits} x={x}")
  report "SignalGen.Eq.I2F" "SignedAsFloat" n w
#eval do
  let cases := (intTys.filter (fun (T : IntTy) => !T.signed)).flatMap fun S => [f32, f64].flatMap fun F => (boundaryInts S).map fun x => (S, F, x)
  let (n, w) := firstBad cases (fun (S, F, x) => Gen.UnsignedAsFloat_k S F S.w F.bits x != some (u2fK F S.w x)) (fun (S, F, x) => s!"src={repr S} dst-bits={F.bits} x={x}")
  report "SignalGen.Eq.I2F" "UnsignedAsFloat" n w

-- ------------------------------------------------------------------------------------------- SignalGen.Eq.Xfer
#eval do
  let srcs : List (List Int) := [[], [1], [1, 2], [1, 2, 3], [1, 2, 3, 4, 5], [1, 2, 3, 4, 5, 6, 7, 8], [300, -300, 70000]]
  let kinds : List (Kind × Kind) := [(Kind.i16, Kind.i16), (Kind.i32, Kind.i8), (Kind.u8, Kind.i64)]
  let cases := bufs.flatMap fun b => srcs.flatMap fun s => kinds.map fun k => (b, s, k)
  let (n, w) := firstBad cases
    (fun (b, s, (ks, kd)) => !resEq (Gen.Write ks kd heap0 b s) ((write (cvt ks kd) heap0 s b).bind fun h' n => .ok h' (b, (n : Int))))
    (fun (b, s, (ks, kd)) => s!"Write src={s} dst={repr b} kinds={repr ks},{repr kd}")
  report "SignalGen.Eq.Xfer" "Write" n w
#eval do
  let dsts : List (List Int) := [[], [1], [1, 2], [1, 2, 3], [1, 2, 3, 4, 5], [1, 2, 3, 4, 5, 6, 7, 8]]
  let kinds : List (Kind × Kind) := [(Kind.i16, Kind.i16), (Kind.i32, Kind.i8), (Kind.u8, Kind.i64)]
  let cases := bufs.flatMap fun b => dsts.flatMap fun s => kinds.map fun k => (b, s, k)
  let (n, w) := firstBad cases
    (fun (b, s, (ks, kd)) => !resEq (Gen.Read ks kd heap0 b s) ((read (cvt ks kd) heap0 b s).bind fun h' r => .ok h' (b, (r.1, (r.2 : Int)))))
    (fun (b, s, (ks, kd)) => s!"Read dst={s} src={repr b} kinds={repr ks},{repr kd}")
  report "SignalGen.Eq.Xfer" "Read" n w

-- ------------------------------------------------------------------------------------------- SignalGen.Eq.ConvFn
namespace Sig.Search
def heap2 : Heap := [[10, 11, 12, 13, 14, 15], [1065353216, 3212836864, 1056964608, 0, 2147483648, 1073741824]]
/-- small headers of kind `k` over block `blk` of `heap2` -/
def bufsK (k : Kind) (blk : Nat) : List Buf := Id.run do
  let mut out := []
  for ch in [0, 1, 2] do
    for off in [0, 1] do
      for cap in [0, 2, 3, 4] do
        for len in List.range (cap + 1) do
          out := { ch := ch, blk := blk, off := off, len := len, cap := cap, kind := k, depth := k.width : Buf } :: out
  return out
def convCases (ks kd : Kind) (sblk dblk : Nat) : List (Buf × Buf) :=
  (bufsK ks sblk).flatMap fun s => (bufsK kd dblk).map fun d => (s, d)
def convBad (f : ConvFn) (g : Heap → Buf → Buf → Res (Buf × Int)) : Buf × Buf → Bool :=
  fun (s, d) => !resEq (g heap2 d s) ((convertFn f heap2 s d).bind fun h' n => .ok h' (d, (n : Int)))
end Sig.Search
#eval do
  let cases := convCases Kind.f32 Kind.f64 1 0 ++ convCases Kind.f32 Kind.f32 1 1
  let (n, w) := firstBad cases (fun (s, d) => convBad .floatAsFloat (fun h d s => Gen.FloatAsFloat_fn s.kind.fmt d.kind.fmt h d s) (s, d)) (fun (s, d) => s!"src={repr s} dst={repr d}")
  report "SignalGen.Eq.ConvFn" "FloatAsFloat_fn" n w
#eval do
  let cases := convCases Kind.i8 Kind.f32 0 1 ++ convCases Kind.i16 Kind.f64 0 0
  let (n, w) := firstBad cases (fun (s, d) => convBad .signedAsFloat (fun h d s => Gen.SignedAsFloat_fn s.kind.intTy d.kind.fmt h d s) (s, d)) (fun (s, d) => s!"src={repr s} dst={repr d}")
  report "SignalGen.Eq.ConvFn" "SignedAsFloat_fn" n w
#eval do
  let cases := convCases Kind.u8 Kind.f32 0 1 ++ convCases Kind.u16 Kind.f64 0 0
  let (n, w) := firstBad cases (fun (s, d) => convBad .unsignedAsFloat (fun h d s => Gen.UnsignedAsFloat_fn s.kind.intTy d.kind.fmt h d s) (s, d)) (fun (s, d) => s!"src={repr s} dst={repr d}")
  report "SignalGen.Eq.ConvFn" "UnsignedAsFloat_fn" n w

-- ------------------------------------------------------------------------------------------- SignalGen.Eq.ConvFnF2I
#eval do
  let cases := convCases Kind.f32 Kind.i8 1 0 ++ convCases Kind.f32 Kind.i64 1 0
  let (n, w) := firstBad cases (fun (s, d) => convBad .floatAsSigned (fun h d s => Gen.FloatAsSigned_fn s.kind.fmt d.kind.intTy h d s) (s, d)) (fun (s, d) => s!"src={repr s} dst={repr d}")
  report "SignalGen.Eq.ConvFnF2I" "FloatAsSigned_fn" n w
#eval do
  let cases := convCases Kind.f32 Kind.u8 1 0 ++ convCases Kind.f32 Kind.u32 1 0
  let (n, w) := firstBad cases (fun (s, d) => convBad .floatAsUnsigned (fun h d s => Gen.FloatAsUnsigned_fn s.kind.fmt d.kind.intTy h d s) (s, d)) (fun (s, d) => s!"src={repr s} dst={repr d}")
  report "SignalGen.Eq.ConvFnF2I" "FloatAsUnsigned_fn" n w

-- ------------------------------------------------------------------------------------------- SignalGen.Eq.ConvFnInt
namespace Sig.Search
/-- whole function against the model's skeleton around the regenerated kernel (also at a depth pair with a zero scale) -/
def convBadG (k : IntTy → IntTy → Nat → Nat → Int → Option Int) (g : IntTy → IntTy → Heap → Buf → Buf → Res (Buf × Int)) : Buf × Buf → Bool :=
  fun (s, d) =>
    let dz := decide (s.depth ≥ d.depth) && (Gen.Scale s.kind.intTy (s.depth : Int) (d.depth : Int) == 0)
    let m : Res Nat := if s.ch = d.ch ∧ min s.len d.len ≠ 0 ∧ dz = true then .panic heap2 .divZero
      else convert (k s.kind.intTy d.kind.intTy s.depth d.depth) heap2 s d
    !resEq (g s.kind.intTy d.kind.intTy heap2 d s) (m.bind fun h' n => .ok h' (d, (n : Int)))
def intCases (ks kd : Kind) : List (Buf × Buf) :=
  let base := convCases ks kd 0 0 ++ convCases ks kd 1 0
  base ++ (base.take 600).map fun (s, d) => ({ s with depth := 72 }, { d with depth := 3 })
end Sig.Search
#eval do
  let cases := intCases Kind.i16 Kind.i8 ++ intCases Kind.i8 Kind.i32
  let (n, w) := firstBad cases (convBadG Gen.SignedAsSigned_k Gen.SignedAsSigned_fn) (fun (s, d) => s!"src={repr s} dst={repr d}")
  report "SignalGen.Eq.ConvFnInt" "SignedAsSigned_fn" n w
#eval do
  let cases := intCases Kind.i16 Kind.u8 ++ intCases Kind.i8 Kind.u32
  let (n, w) := firstBad cases (convBadG Gen.SignedAsUnsigned_k Gen.SignedAsUnsigned_fn) (fun (s, d) => s!"src={repr s} dst={repr d}")
  report "SignalGen.Eq.ConvFnInt" "SignedAsUnsigned_fn" n w
#eval do
  let cases := intCases Kind.u16 Kind.i8 ++ intCases Kind.u8 Kind.i32
  let (n, w) := firstBad cases (convBadG Gen.UnsignedAsSigned_k Gen.UnsignedAsSigned_fn) (fun (s, d) => s!"src={repr s} dst={repr d}")
  report "SignalGen.Eq.ConvFnInt" "UnsignedAsSigned_fn" n w
#eval do
  let cases := intCases Kind.u16 Kind.u8 ++ intCases Kind.u8 Kind.u32
  let (n, w) := firstBad cases (convBadG Gen.UnsignedAsUnsigned_k Gen.UnsignedAsUnsigned_fn) (fun (s, d) => s!"src={repr s} dst={repr d}")
  report "SignalGen.Eq.ConvFnInt" "UnsignedAsUnsigned_fn" n w

import SignalModel.Alloc
import SignalGen.Attr
/-!
# Vocabulary of the definitions regenerated from the Go sources (`SignalGen/Generated.lean`)

`harness/go2lean` emits Lean definitions over these few primitives; each is the Go operation named in its comment,
over the same three semantic layers as the hand-written model (wrap after every integer step; `FV` floats;
partial float→int conversion).  Core Lean only.
-/
namespace Sig.Gen
open Sig

/-- Go's predeclared integer types (`int`, `uint`, `uintptr` are 64 bits on the modelled platform) -/
def tI8 : IntTy := ⟨8, true⟩
def tI16 : IntTy := ⟨16, true⟩
def tI32 : IntTy := ⟨32, true⟩
def tI64 : IntTy := ⟨64, true⟩
def tU8 : IntTy := ⟨8, false⟩
def tU16 : IntTy := ⟨16, false⟩
def tU32 : IntTy := ⟨32, false⟩
def tU64 : IntTy := ⟨64, false⟩

/-- `a << s` evaluated at type `T` (the count is unsigned; a count ≥ the width gives 0, as `wrap` does) -/
def shl (T : IntTy) (a s : Int) : Int := T.wrap (a * 2 ^ s.toNat)
/-- `a >> s`: arithmetic (signed) or logical (unsigned, where `a ≥ 0`) right shift = floor division -/
def shr (a s : Int) : Int := a / 2 ^ s.toNat
/-- Go's `%` (remainder of truncated division) -/
def goMod (a b : Int) : Int := Int.tmod a b

/-- `append(b.data, v)` while `len < cap`: in place (store at position `len`, the header grows by one sample). A growing
append is outside the translated fragment (`none`). -/
def append1 (h : Heap) (b : Buf) (v : Int) : Option (Heap × Buf) :=
  if b.len < b.cap then some (store h b.blk (b.off + b.len) v, { b with len := b.len + 1 }) else none

/-- the properties say that a call panics, not with which message: results are compared up to the kind of a panic -/
def Res.eraseKind {α : Type} : Res α → Res α
  | .panic h _ => .panic h .other
  | r => r
/-- `make([]T, n, c)`: a fresh zeroed block of `c` cells and the slice `[0, n)` of it; Go panics unless `0 ≤ n ≤ c`.
(The header's channel count and depth are filled in by the composite literal around it.) -/
def make (h : Heap) (k : Kind) (n c : Int) : Option (Heap × Buf) :=
  if 0 ≤ n ∧ n ≤ c then
    some (h ++ [List.replicate c.toNat 0],
      { ch := 0, blk := h.length, off := 0, len := n.toNat, cap := c.toNat, kind := k, depth := 0 })
  else none

/-- `s[i]` on a caller's slice held as a list: `none` is Go's index panic -/
def listGet (l : List Int) (i : Int) : Option Int := if 0 ≤ i then l[i.toNat]? else none
/-- `s[i] = v` on a caller's slice held as a list: `none` is Go's index panic -/
def listSet (l : List Int) (i v : Int) : Option (List Int) :=
  if 0 ≤ i ∧ i.toNat < l.length then some (l.set i.toNat v) else none
/-- a non-constant integer divisor: `none` is Go's division-by-zero panic -/
def nonZero (x : Int) : Option Int := if x = 0 then none else some x

/-- a float sample read from / stored into a buffer cell: the cell holds the bit pattern of the format -/
def decodeF (F : Fmt) (x : Int) : FV := decodeBits F x.toNat
def encodeF (F : Fmt) (v : FV) : Int := ((encodeBits F v : Nat) : Int)

/-- the iterations `is` of a `for` loop whose body threads the heap, the written buffer's header and the written
caller's slice (the translator admits only bodies that assign no variable declared outside the loop) -/
def forList (body : Int → Heap → Buf → List Int → Res (Buf × List Int)) :
    List Nat → Heap → Buf → List Int → Res (Buf × List Int)
  | [], h, b, l => .ok h (b, l)
  | i :: is, h, b, l => (body (i : Int) h b l).bind fun h' r => forList body is h' r.1 r.2
/-- `for i := 0; i < n; i++ { body }` (no iteration when `n ≤ 0`) -/
def forRange (n : Int) (h : Heap) (b : Buf) (l : List Int)
    (body : Int → Heap → Buf → List Int → Res (Buf × List Int)) : Res (Buf × List Int) :=
  forList body (List.range n.toNat) h b l

end Sig.Gen

namespace Sig
/-- a Go run-time check: `none` is the panic `p`, raised with the heap as it is -/
def Res.ofOption {α : Type} (h : Heap) (p : Panic) : Option α → Res α
  | some v => .ok h v
  | none => .panic h p
/-- a step the language leaves implementation-defined (`none`): no prediction.  (The heap handed to the continuation
is not used by it: pure steps do not change the heap.) -/
def Res.ofUnspec {α : Type} : Option α → Res α
  | some v => .ok [] v
  | none => .unspec
/-- the properties say that a call panics, not with which message: results are compared up to the kind of a panic -/
def Res.eraseKind {α : Type} : Res α → Res α
  | .panic h _ => .panic h .other
  | r => r
end Sig

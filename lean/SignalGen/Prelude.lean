import SignalModel.Alloc
/-!
# Vocabulary of the definitions regenerated from the Go sources (`SignalGen/Generated.lean`)

`harness/go2lean` emits Lean definitions over these few primitives; each is the Go operation named in its comment,
over the same three semantic layers as the hand-written model (wrap after every integer step; `FV` floats;
partial float→int conversion).  Core Lean only.
-/
namespace Sig.Gen
open Sig

/-- Go's predeclared integer types (`int`, `uint`, `uintptr` are 64 bits on the modelled platform) -/
def tI8 : IntTy := ⟨8, true⟩
def tI16 : IntTy := ⟨16, true⟩
def tI32 : IntTy := ⟨32, true⟩
def tI64 : IntTy := ⟨64, true⟩
def tU8 : IntTy := ⟨8, false⟩
def tU16 : IntTy := ⟨16, false⟩
def tU32 : IntTy := ⟨32, false⟩
def tU64 : IntTy := ⟨64, false⟩

/-- `a << s` evaluated at type `T` (the count is unsigned; a count ≥ the width gives 0, as `wrap` does) -/
def shl (T : IntTy) (a s : Int) : Int := T.wrap (a * 2 ^ s.toNat)
/-- `a >> s`: arithmetic (signed) or logical (unsigned, where `a ≥ 0`) right shift = floor division -/
def shr (a s : Int) : Int := a / 2 ^ s.toNat
/-- Go's `%` (remainder of truncated division) -/
def goMod (a b : Int) : Int := Int.tmod a b

end Sig.Gen

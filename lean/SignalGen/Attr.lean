import Lean.Meta.Tactic.Simp.RegisterCommand
/-- every definition regenerated from the Go sources carries this simp attribute, so that the decision-procedure
proofs can unfold all of them whatever helper functions the source is split into -/
register_simp_attr gen

/- all regenerated definitions (see SignalGen/Gen/*.lean, written by harness/go2lean) -/
import SignalGen.Gen.Scalar
import SignalGen.Gen.Kernels
import SignalGen.Gen.Buffer
import SignalGen.Gen.Xfer
import SignalGen.Gen.ConvFn

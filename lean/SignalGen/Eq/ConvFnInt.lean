import SignalGen.Eq.ConvFnF2I
import SignalGen.Gen.Kernels
/-!
# Regenerated tie, C05 / C15 / C20: the four fixed->fixed conversions translated whole are the conversion skeleton around their kernels

For the requantisers the per-sample kernels `Gen.XAsY_k` are tied to the model at the bit depths the library stores and on
in-range samples (`SignalGen/Eq/IntKernels.lean`, `Dispatch.lean`).  What those theorems took on trust was that the whole Go
function *is* the skeleton - guard, `min`, early return, loop over `0 .. length-1` reading `src.Sample(i)` and storing
`dst.SetSample(i, kernel(sample))`, frame count - around that kernel.  Here the whole function is translated
(`Gen.XAsY_fn`) and proved equal, for every heap, header and sample, to the model's skeleton `convertG` around the
regenerated kernel, the division-by-zero panic of a zero `Scale` included.
-/
set_option linter.unusedVariables false
set_option linter.unusedSimpArgs false
namespace Sig.GenEq
open Sig

/-- the model's `convertFn` with the kernel and the zero-divisor condition as parameters -/
def convertG (k : Int → Option Int) (dz : Bool) (h : Heap) (src dst : Buf) : Res Nat :=
  if src.ch = dst.ch ∧ min src.len dst.len ≠ 0 ∧ dz = true then .panic h .divZero else convert k h src dst

theorem convertFn_eq_convertG (f : ConvFn) (h : Heap) (src dst : Buf) :
    convertFn f h src dst = convertG (kernel f src.kind src.depth dst.kind dst.depth)
      (kernelDivZero f src.kind src.depth dst.depth) h src dst := rfl

/-- a loop whose first iteration divides by zero after reading the first sample -/
theorem divzero_frame (h : Heap) (src dst : Buf) (hch : src.ch = dst.ch) (hlen : min src.len dst.len ≠ 0)
    (hcell : (src.sample h (0 : Int)).isSome)
    (body : Int → Heap → Buf → List Int → Res (Buf × List Int))
    (hb : ∀ (h : Heap), (src.sample h (0 : Int)).isSome → body (0 : Int) h dst [] = .panic h .divZero)
    (tail : Heap → Buf × List Int → Res (Buf × Int)) :
    (if (Gen.channels_Channels (src.ch : Int) ≠ Gen.channels_Channels (dst.ch : Int)) then Res.panic h Panic.diffChannels
     else
      if (Gen.min (Gen.Buffer_Len src) (Gen.Buffer_Len dst) = 0) then Res.ok h (dst, 0)
      else (Gen.forRange (Gen.min (Gen.Buffer_Len src) (Gen.Buffer_Len dst)) h dst ([] : List Int) body).bind tail)
    = .panic h .divZero := by
  unfold Gen.channels_Channels
  have hc' : ¬ ((src.ch : Int) ≠ (dst.ch : Int)) := by omega
  rw [if_neg hc']
  have hm : Gen.min (Gen.Buffer_Len src) (Gen.Buffer_Len dst) = ((min src.len dst.len : Nat) : Int) := by
    rw [min_eq, len_eq, len_eq]; omega
  rw [hm]
  have hz' : ¬ (((min src.len dst.len : Nat) : Int) = 0) := by omega
  rw [if_neg hz']
  unfold Gen.forRange
  rw [Int.toNat_natCast]
  obtain ⟨n, hn⟩ : ∃ n, min src.len dst.len = n + 1 := ⟨min src.len dst.len - 1, by omega⟩
  rw [hn, List.range_succ_eq_map, Gen.forList]
  have := hb h hcell
  simp only [Nat.cast_zero] at this ⊢
  rw [this]
  rfl

/-- mismatching channel counts or nothing to transfer: the loop is never entered, whatever its body -/
theorem trivial_frame (k : Int → Option Int) (h : Heap) (src dst : Buf)
    (hx : src.ch ≠ dst.ch ∨ min src.len dst.len = 0)
    (body : Int → Heap → Buf → List Int → Res (Buf × List Int))
    (tail : Heap → Buf × List Int → Res (Buf × Int)) :
    (if (Gen.channels_Channels (src.ch : Int) ≠ Gen.channels_Channels (dst.ch : Int)) then Res.panic h Panic.diffChannels
     else
      if (Gen.min (Gen.Buffer_Len src) (Gen.Buffer_Len dst) = 0) then Res.ok h (dst, 0)
      else (Gen.forRange (Gen.min (Gen.Buffer_Len src) (Gen.Buffer_Len dst)) h dst ([] : List Int) body).bind tail)
    = (convert k h src dst).bind fun h' n => .ok h' (dst, (n : Int)) := by
  unfold Gen.channels_Channels convert
  have hm : Gen.min (Gen.Buffer_Len src) (Gen.Buffer_Len dst) = ((min src.len dst.len : Nat) : Int) := by
    rw [min_eq, len_eq, len_eq]; omega
  rw [hm]
  by_cases hc : src.ch = dst.ch
  · have hz : min src.len dst.len = 0 := by
      rcases hx with hx | hx
      · exact absurd hc hx
      · exact hx
    have hc' : ¬ ((src.ch : Int) ≠ (dst.ch : Int)) := by omega
    have hc'' : ¬ (src.ch ≠ dst.ch) := by omega
    have hz' : ((min src.len dst.len : Nat) : Int) = 0 := by omega
    rw [if_neg hc', if_neg hc'', if_pos hz']
    simp only [hz, if_true, Res.bind]
    rfl
  · have hc' : (src.ch : Int) ≠ (dst.ch : Int) := by omega
    rw [if_pos hc', if_pos hc]
    rfl

theorem nonZero_zero : Gen.nonZero 0 = none := rfl
theorem nonZero_ne (x : Int) (hx : x ≠ 0) : Gen.nonZero x = some x := by unfold Gen.nonZero; rw [if_neg hx]

/-- **`SignedAsSigned`, whole, is the conversion skeleton around its regenerated kernel** (for every pair of integer
types and every pair of stored depths; `hcell`: the source's first sample lies inside its block - every reachable header) -/
theorem signedAsSigned_fn_eq (TS TD : IntTy) (h : Heap) (src dst : Buf)
    (hcell0 : min src.len dst.len ≠ 0 → (src.sample h (0 : Int)).isSome)
    (hs53 : src.ch < 2^53) (hsn : src.len < 2^53) (hd53 : dst.ch < 2^53) (hdn : dst.len < 2^53) :
    Gen.SignedAsSigned_fn TS TD h dst src
      = (convertG (Gen.SignedAsSigned_k TS TD src.depth dst.depth)
          (decide (src.depth ≥ dst.depth) && (Gen.Scale TS (src.depth : Int) (dst.depth : Int) == 0)) h src dst).bind
            fun h' n => .ok h' (dst, (n : Int)) := by
  unfold Gen.SignedAsSigned_fn convertG
  simp only [Gen.bitDepth_BitDepth]
  by_cases hge : (src.depth : Int) ≥ (dst.depth : Int)
  · have hdec : decide (src.depth ≥ dst.depth) = true := by simp; omega
    simp only [hge, if_true, hdec, Bool.true_and]
    by_cases hs0 : Gen.Scale TS (src.depth : Int) (dst.depth : Int) = 0
    · simp only [hs0, beq_self_eq_true, and_true]
      by_cases hg : src.ch = dst.ch ∧ min src.len dst.len ≠ 0
      · rw [if_pos hg]
        refine divzero_frame h src dst hg.1 hg.2 (hcell0 hg.2) _ ?_ _
        intro h2 hc2
        obtain ⟨x, hx⟩ := Option.isSome_iff_exists.mp hc2
        rw [sample_eq, hx]
        simp [ok_bind, nonZero_zero, Res.ofOption, Res.bind]
      · rw [if_neg hg]
        exact trivial_frame _ h src dst (by omega) _ _
    · have hb : (Gen.Scale TS (src.depth : Int) (dst.depth : Int) == 0) = false := by simpa using hs0
      simp only [hb, Bool.false_eq_true, and_false, if_false]
      apply conv_frame _ h src dst hs53 hsn hd53 hdn
      intro i h
      rw [sample_eq]
      unfold stepM
      cases src.sample h (i : Int) with
      | none => simp [Res.bind]
      | some x =>
        simp only [ok_bind, nonZero_ne _ hs0, Res.ofOption, store_tail, Gen.SignedAsSigned_k, hge, if_true]
        first | done | rfl
  · have hdec : decide (src.depth ≥ dst.depth) = false := by simp; omega
    simp only [hge, if_false, hdec, Bool.false_and, Bool.false_eq_true, and_false]
    apply conv_frame _ h src dst hs53 hsn hd53 hdn
    intro i h
    rw [sample_eq]
    unfold stepM
    cases src.sample h (i : Int) with
    | none => simp [Res.bind]
    | some x =>
      simp only [ok_bind, store_tail, Gen.SignedAsSigned_k, hge, if_false]
      by_cases hx : x > 0 <;> simp only [hx, if_true, if_false] <;> first | done | rfl

/-- **`SignedAsUnsigned`, whole, is the conversion skeleton around its regenerated kernel** -/
theorem signedAsUnsigned_fn_eq (TS TD : IntTy) (h : Heap) (src dst : Buf)
    (hcell0 : min src.len dst.len ≠ 0 → (src.sample h (0 : Int)).isSome)
    (hs53 : src.ch < 2^53) (hsn : src.len < 2^53) (hd53 : dst.ch < 2^53) (hdn : dst.len < 2^53) :
    Gen.SignedAsUnsigned_fn TS TD h dst src
      = (convertG (Gen.SignedAsUnsigned_k TS TD src.depth dst.depth)
          (decide (src.depth ≥ dst.depth) && (Gen.Scale TS (src.depth : Int) (dst.depth : Int) == 0)) h src dst).bind
            fun h' n => .ok h' (dst, (n : Int)) := by
  unfold Gen.SignedAsUnsigned_fn convertG
  simp only [Gen.bitDepth_BitDepth]
  by_cases hge : (src.depth : Int) ≥ (dst.depth : Int)
  · have hdec : decide (src.depth ≥ dst.depth) = true := by simp; omega
    simp only [hge, if_true, hdec, Bool.true_and]
    by_cases hs0 : Gen.Scale TS (src.depth : Int) (dst.depth : Int) = 0
    · simp only [hs0, beq_self_eq_true, and_true]
      by_cases hg : src.ch = dst.ch ∧ min src.len dst.len ≠ 0
      · rw [if_pos hg]
        refine divzero_frame h src dst hg.1 hg.2 (hcell0 hg.2) _ ?_ _
        intro h2 hc2
        obtain ⟨x, hx⟩ := Option.isSome_iff_exists.mp hc2
        rw [sample_eq, hx]
        simp [ok_bind, nonZero_zero, Res.ofOption, Res.bind]
      · rw [if_neg hg]
        exact trivial_frame _ h src dst (by omega) _ _
    · have hb : (Gen.Scale TS (src.depth : Int) (dst.depth : Int) == 0) = false := by simpa using hs0
      simp only [hb, Bool.false_eq_true, and_false, if_false]
      apply conv_frame _ h src dst hs53 hsn hd53 hdn
      intro i h
      rw [sample_eq]
      unfold stepM
      cases src.sample h (i : Int) with
      | none => simp [Res.bind]
      | some x =>
        simp only [ok_bind, nonZero_ne _ hs0, Res.ofOption, store_tail, Gen.SignedAsUnsigned_k, hge, if_true]
        first | done | rfl
  · have hdec : decide (src.depth ≥ dst.depth) = false := by simp; omega
    simp only [hge, if_false, hdec, Bool.false_and, Bool.false_eq_true, and_false]
    apply conv_frame _ h src dst hs53 hsn hd53 hdn
    intro i h
    rw [sample_eq]
    unfold stepM
    cases src.sample h (i : Int) with
    | none => simp [Res.bind]
    | some x =>
      simp only [ok_bind, store_tail, Gen.SignedAsUnsigned_k, hge, if_false]
      split <;> rename_i hx <;> simp only [hx, if_true, if_false] <;> first | done | rfl

/-- **`UnsignedAsSigned`, whole, is the conversion skeleton around its regenerated kernel** -/
theorem unsignedAsSigned_fn_eq (TS TD : IntTy) (h : Heap) (src dst : Buf)
    (hcell0 : min src.len dst.len ≠ 0 → (src.sample h (0 : Int)).isSome)
    (hs53 : src.ch < 2^53) (hsn : src.len < 2^53) (hd53 : dst.ch < 2^53) (hdn : dst.len < 2^53) :
    Gen.UnsignedAsSigned_fn TS TD h dst src
      = (convertG (Gen.UnsignedAsSigned_k TS TD src.depth dst.depth)
          (decide (src.depth ≥ dst.depth) && (Gen.Scale TS (src.depth : Int) (dst.depth : Int) == 0)) h src dst).bind
            fun h' n => .ok h' (dst, (n : Int)) := by
  unfold Gen.UnsignedAsSigned_fn convertG
  simp only [Gen.bitDepth_BitDepth]
  by_cases hge : (src.depth : Int) ≥ (dst.depth : Int)
  · have hdec : decide (src.depth ≥ dst.depth) = true := by simp; omega
    simp only [hge, if_true, hdec, Bool.true_and]
    by_cases hs0 : Gen.Scale TS (src.depth : Int) (dst.depth : Int) = 0
    · simp only [hs0, beq_self_eq_true, and_true]
      by_cases hg : src.ch = dst.ch ∧ min src.len dst.len ≠ 0
      · rw [if_pos hg]
        refine divzero_frame h src dst hg.1 hg.2 (hcell0 hg.2) _ ?_ _
        intro h2 hc2
        obtain ⟨x, hx⟩ := Option.isSome_iff_exists.mp hc2
        rw [sample_eq, hx]
        simp [ok_bind, nonZero_zero, Res.ofOption, Res.bind]
      · rw [if_neg hg]
        exact trivial_frame _ h src dst (by omega) _ _
    · have hb : (Gen.Scale TS (src.depth : Int) (dst.depth : Int) == 0) = false := by simpa using hs0
      simp only [hb, Bool.false_eq_true, and_false, if_false]
      apply conv_frame _ h src dst hs53 hsn hd53 hdn
      intro i h
      rw [sample_eq]
      unfold stepM
      cases src.sample h (i : Int) with
      | none => simp [Res.bind]
      | some x =>
        simp only [ok_bind, nonZero_ne _ hs0, Res.ofOption, store_tail, Gen.UnsignedAsSigned_k, hge, if_true]
        first | done | rfl
  · have hdec : decide (src.depth ≥ dst.depth) = false := by simp; omega
    simp only [hge, if_false, hdec, Bool.false_and, Bool.false_eq_true, and_false]
    apply conv_frame _ h src dst hs53 hsn hd53 hdn
    intro i h
    rw [sample_eq]
    unfold stepM
    cases src.sample h (i : Int) with
    | none => simp [Res.bind]
    | some x =>
      simp only [ok_bind, store_tail, Gen.UnsignedAsSigned_k, hge, if_false]
      split <;> rename_i hx <;> simp only [hx, if_true, if_false] <;> first | done | rfl

/-- **`UnsignedAsUnsigned`, whole, is the conversion skeleton around its regenerated kernel** -/
theorem unsignedAsUnsigned_fn_eq (TS TD : IntTy) (h : Heap) (src dst : Buf)
    (hcell0 : min src.len dst.len ≠ 0 → (src.sample h (0 : Int)).isSome)
    (hs53 : src.ch < 2^53) (hsn : src.len < 2^53) (hd53 : dst.ch < 2^53) (hdn : dst.len < 2^53) :
    Gen.UnsignedAsUnsigned_fn TS TD h dst src
      = (convertG (Gen.UnsignedAsUnsigned_k TS TD src.depth dst.depth)
          (decide (src.depth ≥ dst.depth) && (Gen.Scale TS (src.depth : Int) (dst.depth : Int) == 0)) h src dst).bind
            fun h' n => .ok h' (dst, (n : Int)) := by
  unfold Gen.UnsignedAsUnsigned_fn convertG
  simp only [Gen.bitDepth_BitDepth]
  by_cases hge : (src.depth : Int) ≥ (dst.depth : Int)
  · have hdec : decide (src.depth ≥ dst.depth) = true := by simp; omega
    simp only [hge, if_true, hdec, Bool.true_and]
    by_cases hs0 : Gen.Scale TS (src.depth : Int) (dst.depth : Int) = 0
    · simp only [hs0, beq_self_eq_true, and_true]
      by_cases hg : src.ch = dst.ch ∧ min src.len dst.len ≠ 0
      · rw [if_pos hg]
        refine divzero_frame h src dst hg.1 hg.2 (hcell0 hg.2) _ ?_ _
        intro h2 hc2
        obtain ⟨x, hx⟩ := Option.isSome_iff_exists.mp hc2
        rw [sample_eq, hx]
        simp [ok_bind, nonZero_zero, Res.ofOption, Res.bind]
      · rw [if_neg hg]
        exact trivial_frame _ h src dst (by omega) _ _
    · have hb : (Gen.Scale TS (src.depth : Int) (dst.depth : Int) == 0) = false := by simpa using hs0
      simp only [hb, Bool.false_eq_true, and_false, if_false]
      apply conv_frame _ h src dst hs53 hsn hd53 hdn
      intro i h
      rw [sample_eq]
      unfold stepM
      cases src.sample h (i : Int) with
      | none => simp [Res.bind]
      | some x =>
        simp only [ok_bind, nonZero_ne _ hs0, Res.ofOption, store_tail, Gen.UnsignedAsUnsigned_k, hge, if_true]
        first | done | rfl
  · have hdec : decide (src.depth ≥ dst.depth) = false := by simp; omega
    simp only [hge, if_false, hdec, Bool.false_and, Bool.false_eq_true, and_false]
    apply conv_frame _ h src dst hs53 hsn hd53 hdn
    intro i h
    rw [sample_eq]
    unfold stepM
    cases src.sample h (i : Int) with
    | none => simp [Res.bind]
    | some x =>
      simp only [ok_bind, store_tail, Gen.UnsignedAsUnsigned_k, hge, if_false]
      split <;> rename_i hx <;> simp only [hx, if_true, if_false] <;> first | done | rfl

end Sig.GenEq

import SignalGen.Eq.BitDepth
import SignalGen.Gen.Kernels
/-!
# Regenerated tie, C09: `SignedAsFloat` / `UnsignedAsFloat` per sample, as the Go source defines them now, are the model's `s2fK` / `u2fK` for every sample, integer type and float format
-/
set_option linter.unusedVariables false
namespace Sig.GenEq
open Sig

theorem signedAsFloat_k_eq (S : IntTy) (F : Fmt) (sb db : Nat) (hsb : sb < 256) (x : Int) :
    Gen.SignedAsFloat_k S F sb db x = some (s2fK F sb x) := by
  simp only [Gen.SignedAsFloat_k, s2fK, maxSignedValue_eq' sb hsb]
  split <;> rfl

theorem unsignedAsFloat_k_eq (S : IntTy) (F : Fmt) (sb db : Nat) (hsb : sb < 256) (x : Int) :
    Gen.UnsignedAsFloat_k S F sb db x = some (u2fK F sb x) := by
  simp only [Gen.UnsignedAsFloat_k, u2fK, maxSignedValue_eq' sb hsb]
  split <;> rfl

end Sig.GenEq

import SignalGen.Eq.Buffer
/-!
# Regenerated tie, C04 / C12: `Buffer.AppendSample` as the Go source defines it now (`len == cap` guard, `append` within capacity) equals the model's `Buf.appendSample`
-/
set_option linter.unusedVariables false
namespace Sig.GenEq
open Sig

theorem appendSample_eq (h : Heap) (b : Buf) (v : Int) (hwf : b.len ≤ b.cap) :
    Gen.Buffer_AppendSample h b v = .ok (b.appendSample h v).1 ((b.appendSample h v).2, ()) := by
  unfold Gen.Buffer_AppendSample Buf.appendSample Gen.append1
  by_cases hf : b.len = b.cap
  · simp [hf]
  · have hlt : b.len < b.cap := by omega
    have hne : ¬ ((b.len : Int) = (b.cap : Int)) := by omega
    simp [hf, hne, hlt, Res.ofUnspec, Res.bind]

end Sig.GenEq

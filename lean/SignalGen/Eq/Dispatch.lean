import SignalGen.Eq.IntKernels
import SignalGen.Eq.F2F
import SignalGen.Eq.F2I
import SignalGen.Eq.I2F
/-!
# Regenerated tie: the nine per-sample kernels regenerated from the Go source, dispatched on the element kinds
exactly as `Sig.kernel` dispatches the model's, ARE `Sig.kernel` - the function the correspondence driver replays
and the theorems of C05-C09 are stated about - at the bit depths the library stores (the widths of the kinds).
-/
set_option linter.unusedVariables false
namespace Sig.GenEq
open Sig

/-- the regenerated kernels on cells (floats are stored as bit patterns) -/
def genKernel (f : ConvFn) (s : Kind) (sb : Nat) (d : Kind) (db : Nat) (x : Int) : Option Int :=
  match f with
  | .floatAsFloat => (Gen.FloatAsFloat_k s.fmt d.fmt sb db (cellToFV s x)).map (fvToCell d)
  | .floatAsSigned => Gen.FloatAsSigned_k s.fmt d.intTy sb db (cellToFV s x)
  | .floatAsUnsigned => Gen.FloatAsUnsigned_k s.fmt d.intTy sb db (cellToFV s x)
  | .signedAsFloat => (Gen.SignedAsFloat_k s.intTy d.fmt sb db x).map (fvToCell d)
  | .unsignedAsFloat => (Gen.UnsignedAsFloat_k s.intTy d.fmt sb db x).map (fvToCell d)
  | .signedAsSigned => Gen.SignedAsSigned_k s.intTy d.intTy sb db x
  | .signedAsUnsigned => Gen.SignedAsUnsigned_k s.intTy d.intTy sb db x
  | .unsignedAsSigned => Gen.UnsignedAsSigned_k s.intTy d.intTy sb db x
  | .unsignedAsUnsigned => Gen.UnsignedAsUnsigned_k s.intTy d.intTy sb db x

theorem width_lt (k : Kind) : k.width < 256 := by cases k <;> decide

theorem intTy_signed (k : Kind) (h : k.isSigned = true) : k.intTy = ⟨k.width, true⟩ := by
  simp [Kind.intTy, h]
theorem intTy_unsigned (k : Kind) (h : k.isUnsigned = true) : k.intTy = ⟨k.width, false⟩ := by
  cases k <;> simp_all [Kind.intTy, Kind.isUnsigned, Kind.isSigned]

/-- for every one of the nine conversions, every admissible pair of element kinds and every sample of the source
kind, the kernel regenerated from the source equals the model's kernel -/
theorem genKernel_eq (f : ConvFn) (s d : Kind) (h : f.admits s d = true) (x : Int)
    (hx : s.isFloat = false → s.intTy.inRange x) :
    genKernel f s s.width d d.width x = kernel f s s.width d d.width x := by
  have hs4 := w4_of_kind s
  have hd4 := w4_of_kind d
  have hsw := width_lt s
  have hdw := width_lt d
  cases f <;> simp only [ConvFn.admits, Bool.and_eq_true] at h <;> obtain ⟨h1, h2⟩ := h <;>
    simp only [genKernel, kernel]
  · simp [floatAsFloat_k_eq]
  · exact floatAsSigned_k_eq _ _ _ _ hdw _
  · exact floatAsUnsigned_k_eq _ _ _ _ hdw _
  · simp [signedAsFloat_k_eq _ _ _ _ hsw]
  · have hsf : s.isFloat = false := by cases s <;> simp_all [Kind.isSigned, Kind.isFloat]
    have := hx hsf
    rw [intTy_signed s h1, intTy_signed d h2] at *
    exact signedAsSigned_k_eq _ _ hs4 hd4 x (by simpa [IntTy.inRange] using this)
  · have hsf : s.isFloat = false := by cases s <;> simp_all [Kind.isSigned, Kind.isFloat]
    have := hx hsf
    rw [intTy_signed s h1, intTy_unsigned d h2] at *
    exact signedAsUnsigned_k_eq _ _ hs4 hd4 x (by simpa [IntTy.inRange] using this)
  · simp [unsignedAsFloat_k_eq _ _ _ _ hsw]
  · have hsf : s.isFloat = false := by cases s <;> simp_all [Kind.isUnsigned, Kind.isFloat]
    have := hx hsf
    rw [intTy_unsigned s h1, intTy_signed d h2] at *
    exact unsignedAsSigned_k_eq _ _ hs4 hd4 x (by simpa [IntTy.inRange] using this)
  · have hsf : s.isFloat = false := by cases s <;> simp_all [Kind.isUnsigned, Kind.isFloat]
    have := hx hsf
    rw [intTy_unsigned s h1, intTy_unsigned d h2] at *
    exact unsignedAsUnsigned_k_eq _ _ hs4 hd4 x (by simpa [IntTy.inRange] using this)

/-- non-vacuity: a concrete instance (int16 -1 -> int8) evaluates through the regenerated kernel -/
example : genKernel .signedAsSigned .i16 16 .i8 8 (-255) = some 0 := by decide

end Sig.GenEq

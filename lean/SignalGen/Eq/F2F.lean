import SignalGen.Gen.Kernels
/-!
# Regenerated tie, C05: `FloatAsFloat` per sample, as the Go source defines it now, is the model's `f2fK` (one conversion to the destination format: exact when widening, correctly rounded when narrowing, never clipped)
-/
set_option linter.unusedVariables false
namespace Sig.GenEq
open Sig

theorem floatAsFloat_k_eq (FS FD : Fmt) (sb db : Nat) (v : FV) :
    Gen.FloatAsFloat_k FS FD sb db v = some (f2fK FD v) := by
  simp [Gen.FloatAsFloat_k, f2fK]

end Sig.GenEq

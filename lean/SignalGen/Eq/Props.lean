import SignalGen.Eq.Dispatch
import SignalGen.Eq.BitDepth
import SignalProofs.Props.C06
import SignalProofs.Props.C07
import SignalProofs.Props.C16
/-!
# The properties, stated about the code as it is written now

Corollaries that compose the equivalences of this directory with the property theorems of `SignalProofs/Props`: the
statements speak about the definitions *regenerated from the Go source* (`Sig.Gen.*`, `genKernel`), so they are
re-checked against the current source on every run.  C06 and C07 for every pair of integer element kinds and every
sample; C16 for every depth from 1 to 64 and every value.
-/
set_option linter.unusedVariables false
namespace Sig.GenEq
open Sig Sig.Spec

/-- the regenerated fixed→fixed kernels compute `qkernel` -/
theorem genKernel_qkernel (f : ConvFn) (s d : Kind) (hs : s.isInt) (hd : d.isInt) (hadm : f.admits s d = true)
    (x : Int) (hx : s.intTy.inRange x) :
    genKernel f s s.width d d.width x = some (qkernel s d x) := by
  rw [genKernel_eq f s d hadm x (fun _ => hx)]
  exact C06.kernel_eq_qkernel f s d hs hd hadm x

/-- **C06, order** on the regenerated code: a sample that is not above another is not converted to a code above the
other's - every integer kind pair, every pair of samples -/
theorem gen_C06_order (f : ConvFn) (s d : Kind) (hs : s.isInt) (hd : d.isInt) (hadm : f.admits s d = true)
    (x y : Int) (hx : s.intTy.inRange x) (hy : s.intTy.inRange y) :
    ∃ kx ky, genKernel f s s.width d d.width x = some kx ∧ genKernel f s s.width d d.width y = some ky ∧
      Spec.C06.orderOK x y kx ky = true :=
  ⟨_, _, genKernel_qkernel f s d hs hd hadm x hx, genKernel_qkernel f s d hs hd hadm y hy, C06.order s d hs hd x y hx hy⟩

/-- **C06, reference levels** on the regenerated code -/
theorem gen_C06_reference (f : ConvFn) (s d : Kind) (hs : s.isInt) (hd : d.isInt) (hadm : f.admits s d = true)
    (x : Int) (hx : s.intTy.inRange x) :
    ∃ kx, genKernel f s s.width d d.width x = some kx ∧
      Spec.C06.refOK s.isSigned s.width d.isSigned d.width x kx = true :=
  ⟨_, genKernel_qkernel f s d hs hd hadm x hx, C06.reference s d hs hd x hx⟩

/-- **C07, one step when narrowing, identity at equal depth** on the regenerated code -/
theorem gen_C07_neighbour_sameDepth (f : ConvFn) (s d : Kind) (hs : s.isInt) (hd : d.isInt) (hadm : f.admits s d = true)
    (x : Int) (hx : s.intTy.inRange x) :
    ∃ kx, genKernel f s s.width d d.width x = some kx ∧
      Spec.C07.neighbourOK s.isSigned s.width d.isSigned d.width x kx = true ∧
      Spec.C07.sameDepthOK s.isSigned s.width d.isSigned d.width x kx = true :=
  ⟨_, genKernel_qkernel f s d hs hd hadm x hx, C07.neighbour s d hs hd x hx, C07.sameDepth s d hs hd x hx⟩

/-- **C16, bounds** on the regenerated code: for every depth from 1 to 64 the three bounds are `2^(b-1)-1`, `-2^(b-1)`,
`2^b-1` -/
theorem gen_C16_bounds (b : Nat) (h1 : 1 ≤ b) (h64 : b ≤ 64) :
    Gen.BitDepth_MaxSignedValue (b : Int) = 2^(b-1) - 1 ∧ Gen.BitDepth_MinSignedValue (b : Int) = -(2^(b-1)) ∧
    Gen.BitDepth_MaxUnsignedValue (b : Int) = 2^b - 1 := by
  have hb : b < 256 := by omega
  rw [maxSignedValue_eq' b hb, minSignedValue_eq' b hb, maxUnsignedValue_eq' b hb]
  exact C16.bounds b h1 h64

/-- **C16, clipping** on the regenerated code: the value itself when in range, else the nearest bound - hence idempotent
and order-preserving -/
theorem gen_C16_clamp (b : Nat) (h1 : 1 ≤ b) (h64 : b ≤ 64) (v : Int) :
    Gen.BitDepth_SignedValue (b : Int) v
      = (if v < -(2^(b-1)) then -(2^(b-1)) else if v > 2^(b-1) - 1 then 2^(b-1) - 1 else v) ∧
    Gen.BitDepth_UnsignedValue (b : Int) v = (if v > 2^b - 1 then 2^b - 1 else v) := by
  rw [signedValue_eq b h64 v, unsignedValue_eq b h64 v]
  exact ⟨C16.signedValue_clamp b h1 h64 v, C16.unsignedValue_clamp b h1 h64 v⟩

theorem gen_C16_clamp_mono (b : Nat) (h1 : 1 ≤ b) (h64 : b ≤ 64) (v w : Int) (h : v ≤ w) :
    Gen.BitDepth_SignedValue (b : Int) v ≤ Gen.BitDepth_SignedValue (b : Int) w := by
  rw [signedValue_eq b h64 v, signedValue_eq b h64 w]
  exact C16.signedValue_mono b h1 h64 v w h

/-- non-vacuity -/
example : ∃ k, genKernel .signedAsUnsigned .i16 16 .u8 8 (-32768) = some k ∧ k = 0 := ⟨0, by decide, rfl⟩

end Sig.GenEq

import SignalGen.Gen.Scalar
/-!
# Regenerated tie, C01 / C02 / C14: `channels.BufferIndex` (and the two header accessors) as the Go source defines them now are the model's `bufferIndex` in 64-bit `int` arithmetic
-/
set_option linter.unusedVariables false
namespace Sig.GenEq
open Sig

theorem bufferIndex_eq (ch : Nat) (c i : Int) : Gen.channels_BufferIndex (ch : Int) c i = bufferIndex ch c i := by
  simp [Gen.channels_BufferIndex, bufferIndex, wrapI_eq_wrapS, Gen.tI64, IntTy.wrap]

theorem accessors_eq (v : Int) : Gen.bitDepth_BitDepth v = v ∧ Gen.channels_Channels v = v := ⟨rfl, rfl⟩

end Sig.GenEq

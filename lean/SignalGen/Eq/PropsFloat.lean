import SignalGen.Eq.Dispatch
import SignalGen.Eq.Freq
import SignalProofs.Props.C08
import SignalProofs.Props.C17
import SignalProofs.Props.C09Rel
import SignalProofs.Props.Cells
import SignalProofs.Props.C05F
/-!
# C08 and C17, stated about the code as it is written now

The float→fixed kernels regenerated from the Go source clip, map zero to the zero-amplitude code, never invert order
and stay within one step (depths 8, 16, 32; every non-NaN input of either float format); `Frequency.Duration` /
`Frequency.Events` as regenerated compute the rational-level `durQ` / `evQ` and the count → duration → count round trip
returns the count up to 1 MHz and 24 hours.
-/
set_option linter.unusedVariables false
namespace Sig.GenEq
open Sig Sig.Spec

/-- the regenerated `FloatAsSigned` / `FloatAsUnsigned` kernel computes the clipped linear code of the model -/
theorem genKernel_code (s d : Kind) (hs : s.isFloat = true) (hd : d.isFloat = false) (hw : C08.W3 d.width) (x : Int)
    (hn : cellToFV s x ≠ .nan) :
    genKernel (if d.isSigned then .floatAsSigned else .floatAsUnsigned) s s.width d d.width x
      = some (C08.code d.isSigned d.width (cellToFV s x)) := by
  cases hsg : d.isSigned
  · have hu : d.isUnsigned = true := by cases d <;> simp_all [Kind.isSigned, Kind.isUnsigned, Kind.isFloat]
    simp only [Bool.false_eq_true, if_false]
    rw [genKernel_eq .floatAsUnsigned s d (by simp [ConvFn.admits, hs, hu]) x (fun h => by simp [hs] at h)]
    exact C08.kernel_unsigned s d hsg hw s.width x hn
  · simp only [if_true]
    rw [genKernel_eq .floatAsSigned s d (by simp [ConvFn.admits, hs, hsg]) x (fun h => by simp [hs] at h)]
    exact C08.kernel_signed s d hsg hw s.width x hn

/-- **C08** on the regenerated code: clip, zero, one step, range for every input; order for every pair of inputs -/
theorem gen_C08 (s d : Kind) (hs : s.isFloat = true) (hd : d.isFloat = false) (hw : C08.W3 d.width) (x y : Int)
    (hx : cellToFV s x ≠ .nan) (hy : cellToFV s y ≠ .nan) :
    ∃ kx ky,
      genKernel (if d.isSigned then .floatAsSigned else .floatAsUnsigned) s s.width d d.width x = some kx ∧
      genKernel (if d.isSigned then .floatAsSigned else .floatAsUnsigned) s s.width d d.width y = some ky ∧
      Spec.C08.clipOK d.isSigned d.width (cellToFV s x) kx = true ∧
      Spec.C08.zeroOK d.isSigned d.width (cellToFV s x) kx = true ∧
      Spec.C08.oneStepOK d.isSigned d.width (cellToFV s x) kx = true ∧
      Spec.C08.monoOK (cellToFV s x) (cellToFV s y) kx ky = true :=
  ⟨_, _, genKernel_code s d hs hd hw x hx, genKernel_code s d hs hd hw y hy,
    C08.clip _ _ hw _ hx, C08.zero _ _ hw _, C08.oneStep _ _ hw _, C08.mono _ _ hw _ _ hx hy⟩

/-- **C17** on the regenerated code: `Duration` and `Events` compute `durQ` / `evQ` ... -/
theorem gen_C17_eq (q : ℚ) (hq : C17.FreqOK q) (n : ℤ) (hn0 : 0 ≤ n) (hn : n.natAbs < 2^53)
    (h1 : C17.B q n < 2^(62:ℤ)) (h2 : C17.B' q n < 2^(62:ℤ)) :
    Gen.Frequency_Duration (.fin q) n = some (C17.durQ q n) ∧ Gen.Frequency_Events (.fin q) n = some (C17.evQ q n) := by
  rw [duration_eq, events_eq]
  exact ⟨C17.duration_eq q hq n hn0 hn h1, C17.events_eq q hq n hn0 hn h2⟩

/-- ... and converting a count to a duration and back returns the count (rates up to 1 MHz, spans up to 24 h), at the
level of the values the regenerated functions compute -/
theorem gen_C17_roundtrip (q : ℚ) (hq : C17.FreqOK q) (hq6 : q ≤ 1000000) (n : ℤ) (hn0 : 0 ≤ n) (hn : (n:ℚ) ≤ 86400 * q) :
    C17.evQ q (C17.durQ q n) = n := C17.roundtrip q hq hq6 n hn0 hn

end Sig.GenEq

namespace Sig.GenEq
open Sig Sig.Spec

/-- **C09** on the regenerated code, signed sources at the exact (format, depth) pairs: the cell the regenerated
`SignedAsFloat` kernel produces decodes to the value `s2fK` computes, which is in [−1, 1], hits the endpoints, and is
within one step - absolutely and relatively - of amplitude / full scale -/
theorem gen_C09_signed (s d : Kind) (hs : s.isSigned = true) (hd : d.isFloat = true)
    (hE : C09.Exact d.fmt s.width) (x : Int) (hx : -(C09.S s.width) ≤ x ∧ x ≤ C09.M s.width) :
    ∃ c, genKernel .signedAsFloat s s.width d d.width x = some c ∧
      cellToFV d c = s2fK d.fmt s.width x ∧
      Spec.C09.rangeOK (cellToFV d c) = true ∧
      Spec.C09.endpointsOK true s.width x (cellToFV d c) = true ∧
      Spec.C09.oneStepOK d.fmt true s.width x (cellToFV d c) = true ∧
      Spec.C09.oneStepRelOK d.fmt true s.width x (cellToFV d c) = true := by
  have hk : genKernel .signedAsFloat s s.width d d.width x = some (fvToCell d (s2fK d.fmt s.width x)) := by
    simp only [genKernel, signedAsFloat_k_eq _ _ _ _ (width_lt s), Option.map_some]
  refine ⟨_, hk, Cells.s2f_cell d s.width x, ?_, ?_, ?_, ?_⟩ <;> rw [Cells.s2f_cell d s.width x]
  · exact C09.s_rangeOK hE x hx
  · exact C09.s_endpointsOK hE x hx
  · exact C09.s_oneStepOK hE x hx
  · exact C09.s_oneStepRelOK hE x hx

end Sig.GenEq

namespace Sig.GenEq
open Sig Sig.Spec

/-- **C05, float to float** on the regenerated code: the cell the regenerated `FloatAsFloat` kernel produces decodes to
`f2fK` of the source value - the same value when the destination is float64 (from either source format) or when both
are float32 (exact, for every bit pattern), never clipped -/
theorem gen_C05_f2f (s d : Kind) (hs : s.isFloat = true) (hd : d.isFloat = true) (x : Int) :
    ∃ c, genKernel .floatAsFloat s s.width d d.width x = some c ∧
      cellToFV d c = f2fK d.fmt (cellToFV s x) := by
  refine ⟨fvToCell d (f2fK d.fmt (cellToFV s x)), ?_, ?_⟩
  · simp only [genKernel, floatAsFloat_k_eq, Option.map_some]
  · exact Cells.conv_cell s d x

theorem gen_C05_widen_exact (s : Kind) (x : Int) :
    Spec.C05.exactOK (cellToFV s x) (f2fK f64 (cellToFV s x)) = true := C05F.to64_exact s x

theorem gen_C05_f32_exact (x : Int) :
    Spec.C05.exactOK (cellToFV .f32 x) (f2fK f32 (cellToFV .f32 x)) = true := C05F.f32_exact x

end Sig.GenEq

import SignalGen.Gen.Xfer
import SignalGen.Eq.Buffer
import SignalGen.Eq.ChanLen
/-!
# Regenerated tie, C01 / C20: the interleaved writer and reader `Write(src []S, dst)` and `Read(src, dst []D)` as the Go
source defines them now - `length := min(Len, len(slice))`, the `for i := 0; i < length; i++` loop with its checked slice
and buffer accesses and the element conversion `D(x)`, and the returned `ChannelLength(length, Channels())` - equal the
model's `write` / `read` for every heap, header and caller's slice. The loops are translated (`forRange`), not recognised:
the theorems are inductions over the iteration list. Hypotheses are those of every reachable state (below 2^53 samples
for the float64 ceiling the Go code computes the returned count with).
-/
set_option linter.unusedVariables false
set_option linter.unusedSimpArgs false
namespace Sig.GenEq
open Sig

/-- the frame count both functions return -/
theorem chanLen_ret (n ch : Nat) (hch53 : ch < 2^53) (hn : n < 2^53) :
    Gen.ChannelLength (n : Int) (Gen.channels_Channels (ch : Int)) = some ((channelLength n ch : Nat) : Int) := by
  rw [channelLength_eq]
  unfold Gen.channels_Channels
  by_cases h0 : ch = 0
  · subst h0
    simp [channelLengthF, channelLength]
  · exact ChanLen.channelLengthF_eq n ch (by omega) hch53 hn

theorem mapM_cons_opt (f : Int → Option Int) (a : Int) (as : List Int) :
    (a :: as).mapM f = (f a).bind fun y => ((as.mapM f).bind fun ys => some (y :: ys)) := by
  rw [List.mapM_cons]
  cases f a <;> cases as.mapM f <;> rfl

/-- the body of `Write`'s loop, as the translator emits it -/
def writeBody (cv : Int → Option Int) (src : List Int) : Int → Heap → Buf → List Int → Res (Buf × List Int) :=
  fun i h b l =>
    (Res.ofOption h Panic.index (Gen.listGet src i)).bind fun _ s =>
    (Res.ofUnspec (cv s)).bind fun _ t =>
    (Gen.Buffer_SetSample h b i t).bind fun h2 r =>
    Res.ok h2 (r.1, l)

theorem write_loop (cv : Int → Option Int) (src : List Int) (dst : Buf) (l : List Int) :
    ∀ (n k : Nat) (h : Heap), k + n ≤ dst.len → k + n ≤ src.length →
    Gen.forList (writeBody cv src) (List.range' k n) h dst l =
      match ((src.drop k).take n).mapM cv with
      | none => .unspec
      | some vals => .ok (storeList h dst.blk (dst.off + k) vals) (dst, l) := by
  intro n
  induction n with
  | zero => intro k h _ _; simp [Gen.forList, storeList]
  | succ n ih =>
    intro k h h1 h2
    have hk : k < src.length := by omega
    have hd : (src.drop k).take (n + 1) = src[k] :: (src.drop (k + 1)).take n := by
      rw [List.drop_eq_getElem_cons hk, List.take_succ_cons]
    rw [hd, mapM_cons_opt, List.range'_succ, Gen.forList]
    have hg : Gen.listGet src (k : Int) = some src[k] := by
      unfold Gen.listGet
      simp [hk]
    have hs : Gen.Buffer_SetSample h dst (k : Int) = fun v => .ok (store h dst.blk (dst.off + k) v) (dst, ()) := by
      funext v
      rw [setSample_eq]
      unfold Buf.setSample
      have : (0:Int) ≤ (k : Int) ∧ (k : Int) < (dst.len : Int) := by omega
      rw [if_pos this]
      simp
    have hstep : writeBody cv src (k : Int) h dst l =
        match cv src[k] with
        | none => .unspec
        | some y => .ok (store h dst.blk (dst.off + k) y) (dst, l) := by
      unfold writeBody
      rw [hg, hs]
      cases hc : cv src[k] <;> simp_all [Res.ofOption, Res.ofUnspec, Res.bind]
    rw [hstep]
    cases hc : cv src[k] with
    | none => simp [Res.bind]
    | some y =>
      simp only [Res.bind, Option.bind_some]
      rw [ih (k + 1) (store h dst.blk (dst.off + k) y) (by omega) (by omega)]
      cases ((src.drop (k + 1)).take n).mapM cv with
      | none => simp
      | some vals => simp [storeList, Nat.add_assoc]

/-- **`Write` as the source defines it now is the model's `write`** -/
theorem write_eq (TS TD : Kind) (h : Heap) (src : List Int) (dst : Buf)
    (hch53 : dst.ch < 2^53) (hn : dst.len < 2^53) :
    Gen.Write TS TD h dst src = (write (cvt TS TD) h src dst).bind fun h' n => .ok h' (dst, (n : Int)) := by
  unfold Gen.Write write
  have hm : Gen.min (Gen.Buffer_Len dst) ((src.length : Nat) : Int) = ((min dst.len src.length : Nat) : Int) := by
    rw [min_eq, len_eq]; omega
  simp only [hm]
  unfold Gen.forRange
  rw [Int.toNat_natCast, List.range_eq_range']
  have hl := write_loop (cvt TS TD) src dst [] (min dst.len src.length) 0 h (by omega) (by omega)
  unfold writeBody at hl
  rw [hl]
  simp only [List.drop_zero, Nat.add_zero]
  cases ((src.take (min dst.len src.length)).mapM (cvt TS TD)) with
  | none => simp [Res.bind]
  | some vals =>
    simp only [Res.bind]
    rw [chanLen_ret _ _ hch53 (by omega)]
    simp [Res.ofUnspec, Res.bind]

/-- the body of `Read`'s loop, as the translator emits it -/
def readBody (cv : Int → Option Int) : Int → Heap → Buf → List Int → Res (Buf × List Int) :=
  fun i h b l =>
    (Gen.Buffer_Sample h b i).bind fun _ r =>
    (Res.ofUnspec (cv r.2)).bind fun _ t =>
    (Res.ofOption h Panic.index (Gen.listSet l i t)).bind fun _ l2 =>
    Res.ok h (b, l2)

/-- what the model's `read` computes for positions `k .. k+n-1` -/
def readVals (cv : Int → Option Int) (h : Heap) (src : Buf) (k n : Nat) : Option (List Int) :=
  (List.range' k n).mapM (fun (i : Nat) => (src.sample h (i : Int)).bind cv)

theorem mapM_cons_optN (f : Nat → Option Int) (a : Nat) (as : List Nat) :
    (a :: as).mapM f = (f a).bind fun y => ((as.mapM f).bind fun ys => some (y :: ys)) := by
  rw [List.mapM_cons]
  cases f a <;> cases as.mapM f <;> rfl

theorem read_loop (cv : Int → Option Int) (src : Buf) (h : Heap)
    (hcell : ∀ i, i < src.len → (src.sample h (i : Int)).isSome) :
    ∀ (n k : Nat) (pre l : List Int), pre.length = k → k + n ≤ src.len → k + n ≤ pre.length + l.length →
    Gen.forList (readBody cv) (List.range' k n) h src (pre ++ l) =
      match readVals cv h src k n with
      | none => .unspec
      | some vals => .ok h (src, pre ++ vals ++ l.drop n) := by
  intro n
  induction n with
  | zero => intro k pre l _ _ _; simp [Gen.forList, readVals]
  | succ n ih =>
    intro k pre l hp h1 h2
    rw [List.range'_succ, Gen.forList]
    unfold readVals
    rw [List.range'_succ, mapM_cons_optN]
    have hs := hcell k (by omega)
    obtain ⟨x, hx⟩ := Option.isSome_iff_exists.mp hs
    obtain ⟨a, l', rfl⟩ : ∃ a l', l = a :: l' := by
      cases l with
      | nil => simp at h2; omega
      | cons a l' => exact ⟨a, l', rfl⟩
    have hstep : readBody cv (k : Int) h src (pre ++ a :: l') =
        match cv x with
        | none => .unspec
        | some y => .ok h (src, (pre ++ [y]) ++ l') := by
      unfold readBody
      rw [sample_eq, hx]
      cases hc : cv x with
      | none => simp [Res.ofUnspec, Res.bind, hc]
      | some y =>
        have hset : Gen.listSet (pre ++ a :: l') (k : Int) y = some ((pre ++ [y]) ++ l') := by
          unfold Gen.listSet
          have : (0:Int) ≤ (k:Int) ∧ (k:Int).toNat < (pre ++ a :: l').length := by
            simp; omega
          rw [if_pos this]
          simp [← hp]
        simp [Res.ofUnspec, Res.ofOption, Res.bind, hset, hc]
    rw [hstep, hx]
    simp only [Option.bind_some]
    cases hc : cv x with
    | none => simp [Res.bind]
    | some y =>
      simp only [Res.bind, Option.bind_some]
      have := ih (k + 1) (pre ++ [y]) l' (by simp [hp]) (by omega) (by simp at h2 ⊢; omega)
      unfold readVals at this
      rw [this]
      cases (List.range' (k + 1) n).mapM (fun (i : Nat) => (src.sample h (i : Int)).bind cv) with
      | none => simp
      | some vals => simp

/-- **`Read` as the source defines it now is the model's `read`**, for every buffer whose window lies inside its
block (every reachable header: `hcell`) -/
theorem read_eq (TS TD : Kind) (h : Heap) (src : Buf) (dst : List Int)
    (hcell : ∀ i, i < src.len → (src.sample h (i : Int)).isSome)
    (hch53 : src.ch < 2^53) (hn : src.len < 2^53) :
    Gen.Read TS TD h src dst =
      (read (cvt TS TD) h src dst).bind fun h' r => .ok h' (src, (r.1, (r.2 : Int))) := by
  unfold Gen.Read read
  have hm : Gen.min (Gen.Buffer_Len src) ((dst.length : Nat) : Int) = ((min src.len dst.length : Nat) : Int) := by
    rw [min_eq, len_eq]; omega
  simp only [hm]
  unfold Gen.forRange
  rw [Int.toNat_natCast, List.range_eq_range']
  have hl := read_loop (cvt TS TD) src h hcell (min src.len dst.length) 0 [] dst rfl (by omega) (by simp)
  unfold readBody readVals at hl
  simp only [List.nil_append] at hl
  rw [hl, ← List.range_eq_range']
  cases ((List.range (min src.len dst.length)).mapM fun (i : Nat) => (src.sample h (i : Int)).bind (cvt TS TD)) with
  | none => simp [Res.bind]
  | some vals =>
    simp only [Res.bind]
    rw [chanLen_ret _ _ hch53 (by omega)]
    simp [Res.ofUnspec, Res.bind]

end Sig.GenEq

import SignalGen.Generated
/-!
# Regenerated tie, C16: the `BitDepth` methods and `Scale` as the Go source defines them now equal the model's
-/
namespace Sig.GenEq
open Sig

/-- `BitDepth` is a `uint8`: the three bound functions agree with the model on all 256 values -/
theorem maxSignedValue_eq : ∀ b : Fin 256, Gen.BitDepth_MaxSignedValue (b.val : Int) = maxSignedValue b.val := by
  decide +kernel
theorem maxUnsignedValue_eq : ∀ b : Fin 256, Gen.BitDepth_MaxUnsignedValue (b.val : Int) = maxUnsignedValue b.val := by
  decide +kernel
theorem minSignedValue_eq : ∀ b : Fin 256, Gen.BitDepth_MinSignedValue (b.val : Int) = minSignedValue b.val := by
  decide +kernel

theorem maxSignedValue_eq' (b : Nat) (h : b < 256) : Gen.BitDepth_MaxSignedValue (b : Int) = maxSignedValue b :=
  maxSignedValue_eq ⟨b, h⟩
theorem maxUnsignedValue_eq' (b : Nat) (h : b < 256) : Gen.BitDepth_MaxUnsignedValue (b : Int) = maxUnsignedValue b :=
  maxUnsignedValue_eq ⟨b, h⟩
theorem minSignedValue_eq' (b : Nat) (h : b < 256) : Gen.BitDepth_MinSignedValue (b : Int) = minSignedValue b :=
  minSignedValue_eq ⟨b, h⟩

/-- the two clamps, for every depth and every value -/
theorem signedValue_eq (b : Nat) (h : b < 256) (v : Int) : Gen.BitDepth_SignedValue (b : Int) v = signedValue b v := by
  unfold Gen.BitDepth_SignedValue signedValue
  simp only [maxSignedValue_eq' b h, minSignedValue_eq' b h]
  repeat' split
  all_goals omega

theorem unsignedValue_eq (b : Nat) (h : b < 256) (v : Int) : Gen.BitDepth_UnsignedValue (b : Int) v = unsignedValue b v := by
  unfold Gen.BitDepth_UnsignedValue unsignedValue
  simp only [maxUnsignedValue_eq' b h]
  repeat' split
  all_goals omega

/-- `Scale[T](high, low)` for every integer type and every pair of `BitDepth` values -/
theorem scale_eq (T : IntTy) (high low : Nat) :
    Gen.Scale T (high : Int) (low : Int) = scale T high low := by
  unfold Gen.Scale scale Gen.shl
  simp [Gen.tU8, IntTy.wrap, wrapU]

/-- the eight integer types of the library (`int`, `uint`, `uintptr` are 64 bits) -/
def intTys : List IntTy :=
  [⟨8, true⟩, ⟨16, true⟩, ⟨32, true⟩, ⟨64, true⟩, ⟨8, false⟩, ⟨16, false⟩, ⟨32, false⟩, ⟨64, false⟩]
def depths4 : List Nat := [8, 16, 32, 64]

/-- `Scale` and `MaxSignedValue` at the depths the library stores, by evaluation of the regenerated definitions -
independent of how the source spells them; the kernel equivalences use only these -/
theorem scale4 : ∀ T ∈ intTys, ∀ h ∈ depths4, ∀ l ∈ depths4, Gen.Scale T (h : Int) (l : Int) = scale T h l := by
  decide +kernel
theorem msv4 : ∀ b ∈ depths4, Gen.BitDepth_MaxSignedValue (b : Int) = maxSignedValue b := by
  decide +kernel

end Sig.GenEq

import SignalGen.Gen.Scalar
import Mathlib.Tactic.IntervalCases
/-!
# Regenerated tie, C16: the `BitDepth` methods and `Scale` as the Go source defines them now equal the model's
-/
set_option linter.unusedVariables false
set_option linter.unusedSimpArgs false
namespace Sig.GenEq
open Sig

/-- `BitDepth` is a `uint8`: the three bound functions agree with the model on all 256 values -/
theorem maxSignedValue_eq : ∀ b : Fin 256, Gen.BitDepth_MaxSignedValue (b.val : Int) = maxSignedValue b.val := by
  decide +kernel
theorem maxUnsignedValue_eq : ∀ b : Fin 256, Gen.BitDepth_MaxUnsignedValue (b.val : Int) = maxUnsignedValue b.val := by
  decide +kernel
theorem minSignedValue_eq : ∀ b : Fin 256, Gen.BitDepth_MinSignedValue (b.val : Int) = minSignedValue b.val := by
  decide +kernel

theorem maxSignedValue_eq' (b : Nat) (h : b < 256) : Gen.BitDepth_MaxSignedValue (b : Int) = maxSignedValue b :=
  maxSignedValue_eq ⟨b, h⟩
theorem maxUnsignedValue_eq' (b : Nat) (h : b < 256) : Gen.BitDepth_MaxUnsignedValue (b : Int) = maxUnsignedValue b :=
  maxUnsignedValue_eq ⟨b, h⟩
theorem minSignedValue_eq' (b : Nat) (h : b < 256) : Gen.BitDepth_MinSignedValue (b : Int) = minSignedValue b :=
  minSignedValue_eq ⟨b, h⟩

/-- the two clamps, for every depth up to 64 and every value: one decision problem per depth (after the depth is a
literal the bounds are numerals, whatever the source computes them from, and both sides are piecewise-linear in `v`) -/
theorem signedValue_eq (b : Nat) (h : b ≤ 64) (v : Int) : Gen.BitDepth_SignedValue (b : Int) v = signedValue b v := by
  interval_cases b <;>
    (simp [gen, Gen.shl, Gen.shr, Gen.tI8, Gen.tI16, Gen.tI32, Gen.tI64, Gen.tU8, Gen.tU16, Gen.tU32, Gen.tU64,
       signedValue, maxSignedValue, minSignedValue, IntTy.wrap, wrapS, wrapU]
     <;> try ((repeat' split) <;> omega))

theorem unsignedValue_eq (b : Nat) (h : b ≤ 64) (v : Int) : Gen.BitDepth_UnsignedValue (b : Int) v = unsignedValue b v := by
  interval_cases b <;>
    (simp [gen, Gen.shl, Gen.shr, Gen.tI8, Gen.tI16, Gen.tI32, Gen.tI64, Gen.tU8, Gen.tU16, Gen.tU32, Gen.tU64,
       unsignedValue, maxUnsignedValue, IntTy.wrap, wrapS, wrapU]
     <;> try ((repeat' split) <;> omega))

/-- the eight integer types of the library (`int`, `uint`, `uintptr` are 64 bits) -/
def intTys : List IntTy :=
  [⟨8, true⟩, ⟨16, true⟩, ⟨32, true⟩, ⟨64, true⟩, ⟨8, false⟩, ⟨16, false⟩, ⟨32, false⟩, ⟨64, false⟩]
def depths4 : List Nat := [8, 16, 32, 64]

/-- `Scale` and `MaxSignedValue` at the depths the library stores, by evaluation of the regenerated definitions -
independent of how the source spells them; the kernel equivalences use only these -/
theorem scale4 : ∀ T ∈ intTys, ∀ h ∈ depths4, ∀ l ∈ depths4, Gen.Scale T (h : Int) (l : Int) = scale T h l := by
  decide +kernel
theorem msv4 : ∀ b ∈ depths4, Gen.BitDepth_MaxSignedValue (b : Int) = maxSignedValue b := by
  decide +kernel

end Sig.GenEq

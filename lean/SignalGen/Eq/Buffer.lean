import SignalGen.Gen.Buffer
import SignalProofs.Props.ChanLen
/-!
# Regenerated tie, C01 / C12: the accessors of `Buffer[T]` (`Cap`, `Len`, `Capacity`, `Length`, `channelLength`, `Sample`, `SetSample`), as the Go source defines them now (slice primitives, pointer receiver, run-time checks), equal the model's functions for every heap, header and argument. Hypotheses are those of every reachable state: `cap < 2^63` (no Go slice is longer); below 2^53 samples for the float64 ceiling.
-/
set_option linter.unusedVariables false
namespace Sig.GenEq
open Sig

theorem wrap64_of_lt (x : Int) (h0 : 0 ≤ x) (h1 : x < 2^63) : Gen.tI64.wrap x = x := by
  simp [Gen.tI64, IntTy.wrap, wrapS] at *
  omega

theorem cap_eq (b : Buf) : Gen.Buffer_Cap b = (b.cap : Int) := rfl
theorem len_eq (b : Buf) : Gen.Buffer_Len b = (b.len : Int) := rfl

theorem capacity_eq (b : Buf) (hc : (b.cap : Int) < 2^63) : Gen.Buffer_Capacity b = (b.capacity : Int) := by
  unfold Gen.Buffer_Capacity Buf.capacity
  by_cases h0 : b.ch = 0
  · simp [h0]
  · have hz : ¬ ((b.ch : Int) = 0) := by omega
    simp only [hz, h0, if_false]
    have hq : goDiv (b.cap : Int) (b.ch : Int) = ((b.cap / b.ch : Nat) : Int) := by
      unfold goDiv
      rw [Int.tdiv_eq_ediv_of_nonneg (by omega)]
      simp
    rw [hq]
    have h1 : (0:Int) ≤ ((b.cap / b.ch : Nat) : Int) := Int.natCast_nonneg _
    have h2 : ((b.cap / b.ch : Nat) : Int) ≤ (b.cap : Int) := by exact_mod_cast Nat.div_le_self _ _
    exact wrap64_of_lt _ h1 (Int.lt_of_le_of_lt h2 hc)

/-- `Length()` is the float64 ceiling the model calls `channelLengthF` ... -/
theorem length_eqF (b : Buf) : Gen.Buffer_Length b = channelLengthF (b.len : Int) (b.ch : Int) := by
  unfold Gen.Buffer_Length channelLengthF
  split <;> simp [Gen.tI64, int64Ty]

/-- ... hence the integer ceiling `Buf.length` for every buffer below 2^53 samples -/
theorem length_eq (b : Buf) (hch : 1 ≤ b.ch) (hch53 : b.ch < 2^53) (hn : b.len < 2^53) :
    Gen.Buffer_Length b = some (b.length : Int) := by
  rw [length_eqF, ChanLen.length_eq b hch hch53 hn]

/-- `channelLength(c)`: the samples the buffer holds for channel `c` (one less than `Length` for the channels missing in
a partially filled last frame) -/
theorem buffer_channelLength_eq (b : Buf) (c : Nat) (hch : 1 ≤ b.ch) (hch53 : b.ch < 2^53) (hn : b.len < 2^53) :
    Gen.Buffer_channelLength b (c : Int) = some (b.chanLen c : Int) := by
  unfold Gen.Buffer_channelLength
  rw [length_eq b hch hch53 hn]
  have hm : Gen.goMod (b.len : Int) (Gen.channels_Channels (b.ch : Int)) = ((b.len % b.ch : Nat) : Int) := by
    unfold Gen.goMod Gen.channels_Channels
    rw [Int.tmod_eq_emod_of_nonneg (by omega)]
    simp
  simp only [Option.bind_some, hm]
  unfold Buf.chanLen
  have hL : b.len % b.ch ≠ 0 → 1 ≤ b.length := by
    intro hne
    unfold Buf.length channelLength
    have : b.ch ≠ 0 := by omega
    simp only [this, if_false]
    have hpos : 0 < b.len := by
      rcases Nat.eq_zero_or_pos b.len with h0 | h0
      · simp [h0] at hne
      · exact h0
    exact (Nat.le_div_iff_mul_le (by omega)).mpr (by omega)
  by_cases hc : b.len % b.ch ≠ 0 ∧ b.len % b.ch ≤ c
  · have hc' : ((b.len % b.ch : Nat) : Int) ≠ 0 ∧ (c : Int) ≥ ((b.len % b.ch : Nat) : Int) := by
      constructor
      · have := hc.1; omega
      · have := hc.2; omega
    have h1 := hL hc.1
    rw [if_pos hc', if_pos hc]
    have : Gen.tI64.wrap ((b.length : Int) - 1) = (b.length : Int) - 1 := by
      apply wrap64_of_lt
      · omega
      · have hle : b.length ≤ b.len + b.ch - 1 := by
          unfold Buf.length channelLength
          have hne : b.ch ≠ 0 := by omega
          simp only [hne, if_false]
          exact Nat.div_le_self _ _
        have h53 : (2:Int)^53 + 2^53 < 2^63 := by decide
        have h53n : (2:Nat)^53 = 9007199254740992 := by decide
        omega
    simp [this]
    omega
  · have hc' : ¬ (((b.len % b.ch : Nat) : Int) ≠ 0 ∧ (c : Int) ≥ ((b.len % b.ch : Nat) : Int)) := by
      intro ⟨h1, h2⟩
      apply hc
      constructor <;> omega
    rw [if_neg hc', if_neg hc]

theorem sample_eq (h : Heap) (b : Buf) (i : Int) :
    Gen.Buffer_Sample h b i = match Buf.sample h b i with
      | some v => .ok h (b, v)
      | none => .panic h .index := by
  unfold Gen.Buffer_Sample
  cases Buf.sample h b i <;> simp [Res.ofOption, Res.bind]

theorem setSample_eq (h : Heap) (b : Buf) (i v : Int) :
    Gen.Buffer_SetSample h b i v = match Buf.setSample h b i v with
      | some h' => .ok h' (b, ())
      | none => .panic h .index := by
  unfold Gen.Buffer_SetSample
  cases Buf.setSample h b i v <;> simp [Res.ofOption, Res.bind]

end Sig.GenEq

import SignalGen.Gen.Buffer
import SignalGen.Eq.Buffer
/-!
# Regenerated tie, C13: `getBitDepth` and `Alloc` as the Go source defines them now equal the model's: the bit depth is
the size of the element type for all 13 kinds, an allocation is a fresh zeroed block of `channels*capacity` cells with
the requested shape (and `make`'s panic for `length > capacity`).
-/
set_option linter.unusedVariables false
namespace Sig.GenEq
open Sig

theorem getBitDepth_eq : ∀ k ∈ Kind.all, ∀ named : Bool, Gen.getBitDepth k = (getBitDepth k named : Int) := by decide

theorem alloc_eq (k : Kind) (hk : k ∈ Kind.all) (named : Bool) (h : Heap) (ch len cap : Nat)
    (h1 : ch * len < 2^63) (h2 : ch * cap < 2^63) :
    (Gen.Alloc k h (ch : Int) (len : Int) (cap : Int)).eraseKind
      = match alloc h k named ch len cap with
        | some (h', b) => .ok h' b
        | none => .panic h .other := by
  unfold Gen.Alloc alloc Gen.make
  have w1 : Gen.tI64.wrap ((ch : Int) * (len : Int)) = ((ch * len : Nat) : Int) := by
    rw [← Int.natCast_mul]; exact wrap64_of_lt _ (by omega) (by exact_mod_cast h1)
  have w2 : Gen.tI64.wrap ((ch : Int) * (cap : Int)) = ((ch * cap : Nat) : Int) := by
    rw [← Int.natCast_mul]; exact wrap64_of_lt _ (by omega) (by exact_mod_cast h2)
  rw [w1, w2, getBitDepth_eq k hk named]
  by_cases hc : ch * len ≤ ch * cap
  · have hc' : (0:Int) ≤ ((ch * len : Nat) : Int) ∧ ((ch * len : Nat) : Int) ≤ ((ch * cap : Nat) : Int) := by omega
    rw [if_pos hc', if_pos hc]
    have t1 : ((ch : Int) * (cap : Int)).toNat = ch * cap := by
      have e : ((ch : Int) * (cap : Int)) = ((ch * cap : Nat) : Int) := (Int.natCast_mul ch cap).symm
      rw [e]; exact Int.toNat_natCast _
    have t2 : ((ch : Int) * (len : Int)).toNat = ch * len := by
      have e : ((ch : Int) * (len : Int)) = ((ch * len : Nat) : Int) := (Int.natCast_mul ch len).symm
      rw [e]; exact Int.toNat_natCast _
    simp [Res.ofOption, Res.bind, Res.eraseKind, t1, t2]
  · have hc' : ¬ ((0:Int) ≤ ((ch * len : Nat) : Int) ∧ ((ch * len : Nat) : Int) ≤ ((ch * cap : Nat) : Int)) := by omega
    rw [if_neg hc', if_neg hc]
    simp [Res.ofOption, Res.bind, Res.eraseKind]

end Sig.GenEq

import SignalGen.Gen.ConvFn
import SignalGen.Eq.Buffer
import SignalGen.Eq.ChanLen
import SignalGen.Eq.F2F
import SignalGen.Eq.I2F
/-!
# Regenerated tie, C05 / C15 / C20: conversion functions translated whole

`harness/go2lean` translates each `XAsY(src, dst)` as a whole function (`Gen.XAsY_fn`): the `mustSame` guard, `length :=
min(src.Len(), dst.Len())`, the early return, the loop-invariant prologue, every `for` loop with its checked
`src.Sample(i)` / `dst.SetSample(i, ·)` calls (float cells decoded / encoded by their bit patterns) and the returned
`min(src.Length(), dst.Length())`.  Nothing about the skeleton is *recognised* here; the theorems below prove the whole
function equal to the model's `convertFn` (guard, `min`, early return, `xferLoop` of the per-sample kernel, frame
count) for every heap and every pair of headers, by induction over the iterations (`conv_loop`).
-/
set_option linter.unusedVariables false
set_option linter.unusedSimpArgs false
namespace Sig.GenEq
open Sig

/-- one iteration of the model's conversion loop -/
def stepM (k : Int → Option Int) (src dst : Buf) (i : Nat) (h : Heap) : Res (Buf × List Int) :=
  match src.sample h (i : Int) with
  | none => .panic h .index
  | some x =>
    match k x with
    | none => .unspec
    | some y =>
      match dst.setSample h (i : Int) y with
      | none => .panic h .index
      | some h' => .ok h' (dst, [])

/-- a translated loop whose body does, at every index, what one iteration of the model's loop does, is the model's loop -/
theorem conv_loop (k : Int → Option Int) (src dst : Buf)
    (body : Int → Heap → Buf → List Int → Res (Buf × List Int))
    (hstep : ∀ (i : Nat) (h : Heap), body (i : Int) h dst [] = stepM k src dst i h) :
    ∀ (is : List Nat) (h : Heap),
      Gen.forList body is h dst [] = (xferLoop k src dst 0 is h).bind fun h' _ => .ok h' (dst, []) := by
  intro is
  induction is with
  | nil => intro h; simp [Gen.forList, xferLoop, Res.bind]
  | cons i is ih =>
    intro h
    rw [Gen.forList, hstep, xferLoop]
    unfold stepM
    simp only [Nat.add_zero]
    cases hsm : src.sample h (i : Int) with
    | none => simp [Res.bind]
    | some x =>
      cases hk : k x with
      | none => simp [Res.bind, hk]
      | some y =>
        cases hst : dst.setSample h (i : Int) y with
        | none => simp [Res.bind, hk, hst]
        | some h' => simp only [Res.bind, hk, hst]; exact ih h'

/-- `Length()` for every channel count, zero included -/
theorem length_eq' (b : Buf) (hch53 : b.ch < 2^53) (hn : b.len < 2^53) :
    Gen.Buffer_Length b = some ((b.length : Nat) : Int) := by
  by_cases h0 : b.ch = 0
  · rw [length_eqF]
    simp [channelLengthF, h0, Buf.length, channelLength]
  · exact length_eq b (by omega) hch53 hn

/-- the frame count every conversion returns -/
theorem ret_eq (src dst : Buf) (h : Heap) (hs53 : src.ch < 2^53) (hsn : src.len < 2^53)
    (hd53 : dst.ch < 2^53) (hdn : dst.len < 2^53) :
    ((Res.ofUnspec (Gen.Buffer_Length src)).bind fun _ a =>
      (Res.ofUnspec (Gen.Buffer_Length dst)).bind fun _ b => (Res.ok h (dst, Gen.min a b) : Res (Buf × Int)))
      = .ok h (dst, ((min src.length dst.length : Nat) : Int)) := by
  rw [length_eq' src hs53 hsn, length_eq' dst hd53 hdn]
  simp only [Res.ofUnspec, Res.bind, min_eq]
  congr 2
  omega

/-- the guard, the length and the early return, shared by all nine functions: what remains is the loop -/
theorem conv_frame (k : Int → Option Int) (h : Heap) (src dst : Buf)
    (hs53 : src.ch < 2^53) (hsn : src.len < 2^53) (hd53 : dst.ch < 2^53) (hdn : dst.len < 2^53)
    (body : Int → Heap → Buf → List Int → Res (Buf × List Int))
    (hstep : ∀ (i : Nat) (h : Heap), body (i : Int) h dst [] = stepM k src dst i h) :
    (if (Gen.channels_Channels (src.ch : Int) ≠ Gen.channels_Channels (dst.ch : Int)) then Res.panic h Panic.diffChannels
     else
      if (Gen.min (Gen.Buffer_Len src) (Gen.Buffer_Len dst) = 0) then Res.ok h (dst, 0)
      else
        (Gen.forRange (Gen.min (Gen.Buffer_Len src) (Gen.Buffer_Len dst)) h dst ([] : List Int) body).bind fun h2 r =>
        (Res.ofUnspec (Gen.Buffer_Length src)).bind fun _ a =>
        (Res.ofUnspec (Gen.Buffer_Length r.1)).bind fun _ b => Res.ok h2 (r.1, Gen.min a b))
    = (convert k h src dst).bind fun h' n => .ok h' (dst, (n : Int)) := by
  unfold convert Gen.channels_Channels
  by_cases hc : src.ch = dst.ch
  · have hc' : ¬ ((src.ch : Int) ≠ (dst.ch : Int)) := by omega
    have hc'' : ¬ (src.ch ≠ dst.ch) := by omega
    rw [if_neg hc', if_neg hc'']
    have hm : Gen.min (Gen.Buffer_Len src) (Gen.Buffer_Len dst) = ((min src.len dst.len : Nat) : Int) := by
      rw [min_eq, len_eq, len_eq]; omega
    rw [hm]
    by_cases hz : min src.len dst.len = 0
    · have hz' : ((min src.len dst.len : Nat) : Int) = 0 := by omega
      simp only [hz, hz', if_true, Res.bind]
      rfl
    · have hz' : ¬ (((min src.len dst.len : Nat) : Int) = 0) := by omega
      simp only [hz, hz', if_false]
      unfold Gen.forRange
      rw [Int.toNat_natCast, conv_loop k src dst body hstep]
      cases xferLoop k src dst 0 (List.range (min src.len dst.len)) h with
      | ok h2 u =>
        simp only [Res.bind]
        exact ret_eq src dst h2 hs53 hsn hd53 hdn
      | panic h2 p => simp [Res.bind]
      | unspec => simp [Res.bind]
  · have hc' : (src.ch : Int) ≠ (dst.ch : Int) := by omega
    rw [if_pos hc', if_pos hc]
    rfl

/-- **`FloatAsFloat`, the whole function as the source defines it now, is the model's `convertFn .floatAsFloat`** -/
theorem floatAsFloat_fn_eq (h : Heap) (src dst : Buf)
    (hs53 : src.ch < 2^53) (hsn : src.len < 2^53) (hd53 : dst.ch < 2^53) (hdn : dst.len < 2^53) :
    Gen.FloatAsFloat_fn src.kind.fmt dst.kind.fmt h dst src
      = (convertFn .floatAsFloat h src dst).bind fun h' n => .ok h' (dst, (n : Int)) := by
  unfold Gen.FloatAsFloat_fn convertFn
  simp only [kernelDivZero, Bool.false_eq_true, and_false, if_false]
  apply conv_frame _ h src dst hs53 hsn hd53 hdn
  intro i h
  rw [sample_eq]
  unfold stepM
  cases src.sample h (i : Int) with
  | none => simp [Res.bind]
  | some x =>
    simp only [Res.bind, kernel, f2fK]
    rw [setSample_eq]
    have : Gen.encodeF dst.kind.fmt (FV.conv dst.kind.fmt (Gen.decodeF src.kind.fmt x))
        = fvToCell dst.kind (FV.conv dst.kind.fmt (cellToFV src.kind x)) := rfl
    rw [this]
    cases dst.setSample h (i : Int) (fvToCell dst.kind (FV.conv dst.kind.fmt (cellToFV src.kind x))) <;> simp [Res.bind]

/-- **`SignedAsFloat`, whole** (`depth < 256`: the header's bit depth is a `uint8`) -/
theorem signedAsFloat_fn_eq (h : Heap) (src dst : Buf) (hdep : src.depth < 256)
    (hs53 : src.ch < 2^53) (hsn : src.len < 2^53) (hd53 : dst.ch < 2^53) (hdn : dst.len < 2^53) :
    Gen.SignedAsFloat_fn src.kind.intTy dst.kind.fmt h dst src
      = (convertFn .signedAsFloat h src dst).bind fun h' n => .ok h' (dst, (n : Int)) := by
  unfold Gen.SignedAsFloat_fn convertFn
  simp only [kernelDivZero, Bool.false_eq_true, and_false, if_false]
  apply conv_frame _ h src dst hs53 hsn hd53 hdn
  intro i h
  rw [sample_eq]
  unfold stepM
  cases src.sample h (i : Int) with
  | none => simp [Res.bind]
  | some x =>
    simp only [Res.bind, kernel, s2fK, Gen.bitDepth_BitDepth, maxSignedValue_eq' src.depth hdep]
    by_cases hx : x > 0
    · simp only [hx, if_true]
      rw [setSample_eq]
      have : Gen.encodeF dst.kind.fmt (FV.div dst.kind.fmt (FV.ofInt dst.kind.fmt x) (FV.ofInt dst.kind.fmt (maxSignedValue src.depth)))
          = fvToCell dst.kind (FV.div dst.kind.fmt (FV.ofInt dst.kind.fmt x) (FV.ofInt dst.kind.fmt (maxSignedValue src.depth))) := rfl
      rw [this]
      cases dst.setSample h (i : Int) _ <;> simp [Res.bind]
    · simp only [hx, if_false]
      rw [setSample_eq]
      have : Gen.encodeF dst.kind.fmt (FV.div dst.kind.fmt (FV.ofInt dst.kind.fmt x) (FV.add dst.kind.fmt (FV.ofInt dst.kind.fmt (maxSignedValue src.depth)) (FV.fin 1)))
          = fvToCell dst.kind (FV.div dst.kind.fmt (FV.ofInt dst.kind.fmt x) (FV.add dst.kind.fmt (FV.ofInt dst.kind.fmt (maxSignedValue src.depth)) (FV.fin 1))) := rfl
      rw [this]
      cases dst.setSample h (i : Int) _ <;> simp [Res.bind]

theorem encodeF_eq (k : Kind) (v : FV) : Gen.encodeF k.fmt v = fvToCell k v := rfl
theorem decodeF_eq (k : Kind) (x : Int) : Gen.decodeF k.fmt x = cellToFV k x := rfl

/-- **`UnsignedAsFloat`, whole** -/
theorem unsignedAsFloat_fn_eq (h : Heap) (src dst : Buf) (hdep : src.depth < 256)
    (hs53 : src.ch < 2^53) (hsn : src.len < 2^53) (hd53 : dst.ch < 2^53) (hdn : dst.len < 2^53) :
    Gen.UnsignedAsFloat_fn src.kind.intTy dst.kind.fmt h dst src
      = (convertFn .unsignedAsFloat h src dst).bind fun h' n => .ok h' (dst, (n : Int)) := by
  unfold Gen.UnsignedAsFloat_fn convertFn
  simp only [kernelDivZero, Bool.false_eq_true, and_false, if_false]
  apply conv_frame _ h src dst hs53 hsn hd53 hdn
  intro i h
  rw [sample_eq]
  unfold stepM
  cases src.sample h (i : Int) with
  | none => simp [Res.bind]
  | some x =>
    simp only [Res.bind, kernel, u2fK, Gen.bitDepth_BitDepth, maxSignedValue_eq' src.depth hdep]
    by_cases hx : x > 0
    · simp only [hx, if_true]
      rw [setSample_eq, encodeF_eq]
      cases dst.setSample h (i : Int) _ <;> simp [Res.bind]
    · simp only [hx, if_false]
      rw [setSample_eq, encodeF_eq]
      cases dst.setSample h (i : Int) _ <;> simp [Res.bind]

end Sig.GenEq

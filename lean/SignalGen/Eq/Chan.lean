import SignalGen.Eq.Buffer
/-!
# Regenerated tie, C14: the methods of the channel view `C[T]` as the Go source defines them now equal the model's `chanIndex`, `chanSample`, `chanSetSample`, `chanLength`, `chanCapacity`, `chanChannels`
-/
set_option linter.unusedVariables false
namespace Sig.GenEq
open Sig

/-! ## the channel view -/

theorem c_bufferIndex_eq (b : Buf) (c a i : Int) : Gen.C_BufferIndex b c a i = chanIndex b c i := by
  simp [Gen.C_BufferIndex, chanIndex, Gen.channels_BufferIndex, bufferIndex, wrapI_eq_wrapS, Gen.tI64, IntTy.wrap]

theorem c_channels_eq (b : Buf) (c : Int) : Gen.C_Channels b c = (chanChannels b : Int) := rfl

theorem c_capacity_eq (b : Buf) (c : Int) (hc : (b.cap : Int) < 2^63) : Gen.C_Capacity b c = (chanCapacity b : Int) := by
  unfold Gen.C_Capacity chanCapacity
  exact capacity_eq b hc

theorem c_length_eq (b : Buf) (c : Int) (hch : 1 ≤ b.ch) (hch53 : b.ch < 2^53) (hn : b.len < 2^53) :
    Gen.C_Length b c = some (chanLength b : Int) := by
  unfold Gen.C_Length chanLength
  rw [length_eq b hch hch53 hn]; rfl

theorem c_sample_eq (h : Heap) (b : Buf) (c i : Int) :
    Gen.C_Sample h b c i = match chanSample h b c i with
      | some v => .ok h (b, v)
      | none => .panic h .index := by
  unfold Gen.C_Sample chanSample
  rw [sample_eq]
  have : Gen.channels_BufferIndex (b.ch : Int) c i = chanIndex b c i := by
    simp [chanIndex, Gen.channels_BufferIndex, bufferIndex, wrapI_eq_wrapS, Gen.tI64, IntTy.wrap]
  rw [this]
  cases Buf.sample h b (chanIndex b c i) <;> simp [Res.bind]

theorem c_setSample_eq (h : Heap) (b : Buf) (c i v : Int) :
    Gen.C_SetSample h b c i v = match chanSetSample h b c i v with
      | some h' => .ok h' (b, ())
      | none => .panic h .index := by
  unfold Gen.C_SetSample chanSetSample
  rw [setSample_eq]
  have : Gen.channels_BufferIndex (b.ch : Int) c i = chanIndex b c i := by
    simp [chanIndex, Gen.channels_BufferIndex, bufferIndex, wrapI_eq_wrapS, Gen.tI64, IntTy.wrap]
  rw [this]
  cases Buf.setSample h b (chanIndex b c i) v <;> simp [Res.bind]

end Sig.GenEq

import SignalGen.Gen.Scalar
/-!
# Regenerated tie, C16: `Scale[T](high, low)` as the Go source defines it now equals the model's `scale`, for every
integer type and every pair of `BitDepth` values (structural proof; the table `scale4` of `Eq/BitDepth.lean` is the
decision-procedure version at the depths the library stores)
-/
set_option linter.unusedVariables false
namespace Sig.GenEq
open Sig

/-- `Scale[T](high, low)` for every integer type and every pair of `BitDepth` values -/
theorem scale_eq (T : IntTy) (high low : Nat) :
    Gen.Scale T (high : Int) (low : Int) = scale T high low := by
  unfold Gen.Scale scale Gen.shl
  simp [Gen.tU8, IntTy.wrap, wrapU]

end Sig.GenEq

import SignalGen.Eq.Xfer
import SignalProofs.Props.C01
/-!
# C01, stated about the interleaved writer and reader as they are written now

Corollaries that compose `write_eq` / `read_eq` (regenerated `Write` / `Read` = model) with the property theorems of
`SignalProofs/Props/C01.lean`: the statements speak about `Sig.Gen.Write` and `Sig.Gen.Read`, the definitions
regenerated from the Go source on every run, loops included.
-/
set_option linter.unusedVariables false
namespace Sig.GenEq
open Sig

/-- **C01, writer, on the regenerated code**: `Write` returns normally with the header unchanged and the frame count
`ChannelLength(m, channels)`, `m = min(Len, len(src))`; exactly the first `m` interleaved positions of the buffer's
window receive the converted input, in order; every other cell of every block is as it was. -/
theorem gen_C01_write (TS TD : Kind) (h : Heap) (src : List Int) (dst : Buf) (ys : List Int) (hw : dst.wf h)
    (hch53 : dst.ch < 2^53) (hn : dst.len < 2^53)
    (hcv : (src.take (min dst.len src.length)).mapM (cvt TS TD) = some ys) :
    ∃ h', Gen.Write TS TD h dst src = .ok h' (dst, ((channelLength (min dst.len src.length) dst.ch : Nat) : Int)) ∧
      ys.length = min dst.len src.length ∧
      ∀ blk i, cell h' blk i =
        if blk = dst.blk ∧ dst.off ≤ i ∧ i < dst.off + min dst.len src.length then ys[i - dst.off]? else cell h blk i := by
  obtain ⟨e, hl, hc⟩ := C01.write_spec (cvt TS TD) h src dst ys hw hcv
  refine ⟨storeList h dst.blk dst.off ys, ?_, hl, hc⟩
  rw [write_eq TS TD h src dst hch53 hn, e]
  rfl

/-- **C01, reader, on the regenerated code**: `Read` leaves the heap and the header as they are, hands back the caller's
slice with its first `m = min(Len, len(dst))` elements replaced by the converted samples and the remaining elements
untouched, and returns `ChannelLength(m, channels)`. -/
theorem gen_C01_read (TS TD : Kind) (h : Heap) (src : Buf) (dst : List Int) (ys : List Int)
    (hcell : ∀ i, i < src.len → (src.sample h (i : Int)).isSome)
    (hch53 : src.ch < 2^53) (hn : src.len < 2^53)
    (hcv : (List.range (min src.len dst.length)).mapM (fun (i : Nat) => (src.sample h (i : Int)).bind (cvt TS TD)) = some ys) :
    Gen.Read TS TD h src dst =
      .ok h (src, (ys ++ dst.drop (min src.len dst.length), ((channelLength (min src.len dst.length) src.ch : Nat) : Int))) := by
  rw [read_eq TS TD h src dst hcell hch53 hn, C01.read_spec (cvt TS TD) h src dst ys hcv]
  rfl

/-- non-vacuity: a stereo int16 buffer, three samples written from an int8 slice and read back as int32 -/
example :
    let h : Heap := [[0, 0, 0, 0, 9, 9]]
    let b : Buf := { ch := 2, blk := 0, off := 0, len := 4, cap := 6, kind := .i16, depth := 16 }
    (match Gen.Write Kind.i8 Kind.i16 h b [1, -2, 3] with
     | .ok h' r => h' == [[1, -2, 3, 0, 9, 9]] && r.2 == 2
     | _ => false) = true ∧
    (match Gen.Read Kind.i16 Kind.i32 [[1, -2, 3, 0, 9, 9]] b [7, 7, 7, 7, 7, 7] with
     | .ok _ r => r.2.1 == [1, -2, 3, 0, 7, 7] && r.2.2 == 2
     | _ => false) = true := by
  decide +kernel

end Sig.GenEq

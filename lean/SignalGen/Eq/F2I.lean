import SignalGen.Eq.BitDepth
import SignalGen.Gen.Kernels
/-!
# Regenerated tie, C08: `FloatAsSigned` / `FloatAsUnsigned` per sample, as the Go source defines them now, are the model's `f2sK` / `f2uK` for every float value, float format and integer type
-/
set_option linter.unusedVariables false
namespace Sig.GenEq
open Sig

theorem floatAsSigned_k_eq (FS : Fmt) (D : IntTy) (sb db : Nat) (hdb : db < 256) (v : FV) :
    Gen.FloatAsSigned_k FS D sb db v = f2sK D db v := by
  simp only [Gen.FloatAsSigned_k, f2sK, maxSignedValue_eq' db hdb, one64, mone64]
  repeat' split
  all_goals simp_all [Option.bind]
  all_goals (try (split <;> simp_all))

theorem floatAsUnsigned_k_eq (FS : Fmt) (D : IntTy) (sb db : Nat) (hdb : db < 256) (v : FV) :
    Gen.FloatAsUnsigned_k FS D sb db v = f2uK D db v := by
  simp only [Gen.FloatAsUnsigned_k, f2uK, maxSignedValue_eq' db hdb, one64, mone64]
  repeat' split
  all_goals simp_all [Option.bind, Option.map]
  all_goals (try (split <;> simp_all))

end Sig.GenEq

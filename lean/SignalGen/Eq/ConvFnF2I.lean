import SignalGen.Eq.ConvFn
import SignalGen.Eq.F2I
/-!
# Regenerated tie, C05 / C08 / C15 / C20: `FloatAsSigned` and `FloatAsUnsigned` translated whole equal the model's `convertFn`
(clipping branches, the partial float->int conversion - `unspec` on both sides where Go leaves the result implementation-defined).
-/
set_option linter.unusedVariables false
set_option linter.unusedSimpArgs false
namespace Sig.GenEq
open Sig

theorem store_tail (h : Heap) (dst : Buf) (i : Nat) (y : Int) :
    ((Gen.Buffer_SetSample h dst (i : Int) y).bind fun h2 r => (Res.ok h2 (r.1, ([] : List Int)) : Res (Buf × List Int)))
      = match dst.setSample h (i : Int) y with
        | none => .panic h .index
        | some h' => .ok h' (dst, []) := by
  rw [setSample_eq]
  cases dst.setSample h (i : Int) y <;> simp [Res.bind]

theorem ok_bind {α β : Type} (h : Heap) (v : α) (f : Heap → α → Res β) : (Res.ok h v).bind f = f h v := rfl

theorem unspec_tail (o : Option Int) (f : Int → Res (Buf × List Int)) :
    ((Res.ofUnspec o).bind fun _ t => f t) = match o with
      | none => .unspec
      | some y => f y := by
  cases o <;> simp [Res.ofUnspec, Res.bind]

/-- **`FloatAsSigned`, whole** -/
theorem floatAsSigned_fn_eq (h : Heap) (src dst : Buf) (hdep : dst.depth < 256)
    (hs53 : src.ch < 2^53) (hsn : src.len < 2^53) (hd53 : dst.ch < 2^53) (hdn : dst.len < 2^53) :
    Gen.FloatAsSigned_fn src.kind.fmt dst.kind.intTy h dst src
      = (convertFn .floatAsSigned h src dst).bind fun h' n => .ok h' (dst, (n : Int)) := by
  unfold Gen.FloatAsSigned_fn convertFn
  simp only [kernelDivZero, Bool.false_eq_true, and_false, if_false]
  apply conv_frame _ h src dst hs53 hsn hd53 hdn
  intro i h
  rw [sample_eq]
  unfold stepM
  cases src.sample h (i : Int) with
  | none => simp [Res.bind]
  | some x =>
    simp only [ok_bind, kernel, f2sK, Gen.bitDepth_BitDepth, maxSignedValue_eq' dst.depth hdep, decodeF_eq, one64, mone64,
      store_tail, unspec_tail]
    by_cases h1 : FV.lt (FV.fin 0) (FV.conv f64 (cellToFV src.kind x)) = true
    · by_cases h2 : FV.lt (FV.conv f64 (cellToFV src.kind x)) (FV.fin 1) = true
      · simp only [h1, h2, if_true]
        cases toIntTy dst.kind.intTy _ <;> rfl
      · simp only [h1, h2, if_true, if_false]
        first | rfl | done
    · by_cases h3 : FV.lt (FV.fin (-1)) (FV.conv f64 (cellToFV src.kind x)) = true
      · simp only [h1, h3, if_true, if_false]
        cases toIntTy dst.kind.intTy _ <;> rfl
      · simp only [h1, h3, if_false]
        first | done | rfl

/-- **`FloatAsUnsigned`, whole** -/
theorem floatAsUnsigned_fn_eq (h : Heap) (src dst : Buf) (hdep : dst.depth < 256)
    (hs53 : src.ch < 2^53) (hsn : src.len < 2^53) (hd53 : dst.ch < 2^53) (hdn : dst.len < 2^53) :
    Gen.FloatAsUnsigned_fn src.kind.fmt dst.kind.intTy h dst src
      = (convertFn .floatAsUnsigned h src dst).bind fun h' n => .ok h' (dst, (n : Int)) := by
  unfold Gen.FloatAsUnsigned_fn convertFn
  simp only [kernelDivZero, Bool.false_eq_true, and_false, if_false]
  apply conv_frame _ h src dst hs53 hsn hd53 hdn
  intro i h
  rw [sample_eq]
  unfold stepM
  cases src.sample h (i : Int) with
  | none => simp [Res.bind]
  | some x =>
    simp only [ok_bind, kernel, f2uK, Gen.bitDepth_BitDepth, maxSignedValue_eq' dst.depth hdep, decodeF_eq, one64, mone64,
      store_tail, unspec_tail]
    by_cases h1 : FV.lt (FV.fin 0) (FV.conv f64 (cellToFV src.kind x)) = true
    · by_cases h2 : FV.lt (FV.conv f64 (cellToFV src.kind x)) (FV.fin 1) = true
      · simp only [h1, h2, if_true, if_false, Bool.false_eq_true]
        generalize toIntTy dst.kind.intTy _ = o
        cases o <;> rfl
      · simp only [h1, h2, if_true, if_false, Bool.false_eq_true]
        first | done | rfl
    · by_cases h3 : FV.lt (FV.fin (-1)) (FV.conv f64 (cellToFV src.kind x)) = true
      · simp only [h1, h3, if_true, if_false, Bool.false_eq_true]
        generalize toIntTy dst.kind.intTy _ = o
        cases o <;> rfl
      · simp only [h1, h3, if_false, Bool.false_eq_true]
        first | done | rfl

end Sig.GenEq

import SignalGen.Gen.Kernels
import SignalProofs.Lemmas.Quant
/-!
# Regenerated tie, C06 / C07: the four fixed→fixed per-sample kernels as the Go source defines them now
equal the model's kernels, for all 16 width pairs and every in-range sample

The proofs do not depend on how the source spells the computation: after specialising the widths both sides are
piecewise-linear integer terms with `%` and `/` by literals, and `omega` decides their equality.  A rewrite of the
Go code that keeps the function keeps these theorems; a change of the function breaks them.
-/
set_option linter.unusedVariables false
namespace Sig.GenEq
open Sig

macro "kernel_eq_tac" : tactic => `(tactic|
  (simp [gen, Gen.shl, Gen.shr, Gen.goMod, Gen.tI8, Gen.tI16, Gen.tI32, Gen.tI64, Gen.tU8, Gen.tU16, Gen.tU32, Gen.tU64,
         sasK, sauK, uasK, uauK, scale, maxSignedValue,
         IntTy.wrap, wrapS, wrapU, inS, inU, goDiv_eq, truncDiv] at *
   <;> (repeat' split) <;> (try simp only [Option.some.injEq]) <;> omega))

theorem signedAsSigned_k_eq (sw dw : Nat) (hs : W4 sw) (hd : W4 dw) (x : Int) (hx : inS sw x) :
    Gen.SignedAsSigned_k ⟨sw, true⟩ ⟨dw, true⟩ sw dw x = some (sasK ⟨sw, true⟩ ⟨dw, true⟩ sw dw x) := by
  rcases hs with rfl|rfl|rfl|rfl <;> rcases hd with rfl|rfl|rfl|rfl <;> kernel_eq_tac

theorem signedAsUnsigned_k_eq (sw dw : Nat) (hs : W4 sw) (hd : W4 dw) (x : Int) (hx : inS sw x) :
    Gen.SignedAsUnsigned_k ⟨sw, true⟩ ⟨dw, false⟩ sw dw x = some (sauK ⟨sw, true⟩ ⟨dw, false⟩ sw dw x) := by
  rcases hs with rfl|rfl|rfl|rfl <;> rcases hd with rfl|rfl|rfl|rfl <;> kernel_eq_tac

theorem unsignedAsSigned_k_eq (sw dw : Nat) (hs : W4 sw) (hd : W4 dw) (x : Int) (hx : inU sw x) :
    Gen.UnsignedAsSigned_k ⟨sw, false⟩ ⟨dw, true⟩ sw dw x = some (uasK ⟨sw, false⟩ ⟨dw, true⟩ sw dw x) := by
  rcases hs with rfl|rfl|rfl|rfl <;> rcases hd with rfl|rfl|rfl|rfl <;> kernel_eq_tac

theorem unsignedAsUnsigned_k_eq (sw dw : Nat) (hs : W4 sw) (hd : W4 dw) (x : Int) (hx : inU sw x) :
    Gen.UnsignedAsUnsigned_k ⟨sw, false⟩ ⟨dw, false⟩ sw dw x = some (uauK ⟨sw, false⟩ ⟨dw, false⟩ sw dw x) := by
  rcases hs with rfl|rfl|rfl|rfl <;> rcases hd with rfl|rfl|rfl|rfl <;> kernel_eq_tac

end Sig.GenEq

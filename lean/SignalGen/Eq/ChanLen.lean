import SignalGen.Gen.Scalar
/-!
# Regenerated tie, C01 / C04 / C20: `ChannelLength` (the float64 ceiling, with its zero-channel guard) and `min` as the Go source defines them now are the model's
-/
set_option linter.unusedVariables false
namespace Sig.GenEq
open Sig

theorem channelLength_eq (n ch : Int) : Gen.ChannelLength n ch = channelLengthF n ch := by
  simp [Gen.ChannelLength, channelLengthF, Gen.tI64, int64Ty]

theorem min_eq (a b : Int) : Gen.min a b = min a b := by
  unfold Gen.min
  split <;> omega

end Sig.GenEq

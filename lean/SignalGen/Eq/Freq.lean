import SignalGen.Gen.Scalar
/-!
# Regenerated tie, C17: `Frequency.Duration` / `Frequency.Events` as the Go source defines them now are the model's `duration` / `events`
-/
set_option linter.unusedVariables false
namespace Sig.GenEq
open Sig

theorem duration_eq (f : FV) (n : Int) : Gen.Frequency_Duration f n = duration f n := by
  simp [Gen.Frequency_Duration, duration, secondF, Gen.tI64, int64Ty]

theorem events_eq (f : FV) (d : Int) : Gen.Frequency_Events f d = events f d := by
  simp [Gen.Frequency_Events, events, secondF, Gen.tI64, int64Ty]

end Sig.GenEq

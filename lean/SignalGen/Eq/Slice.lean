import SignalGen.Eq.Buffer
/-!
# Regenerated tie, C02 / C12: `Buffer.Slice` as the Go source defines it now (guard, `BufferIndex` scaling in 64-bit `int`, Go slice expression, new header) equals the model's `Buf.slice`; a panic leaves the heap as it is
-/
set_option linter.unusedVariables false
namespace Sig.GenEq
open Sig

theorem reslice_fields (b d : Buf) (s e : Int) (h : Buf.reslice b s e = some d) :
    d.ch = b.ch ∧ d.depth = b.depth := by
  unfold Buf.reslice at h
  split at h
  · cases h; simp
  · cases h

theorem slice_eq (h : Heap) (b : Buf) (s e : Int) (hc : (b.cap : Int) < 2^63) :
    (Gen.Buffer_Slice h b s e).eraseKind = match Buf.slice b s e with
      | some d => .ok h (b, d)
      | none => .panic h .other := by
  unfold Gen.Buffer_Slice Buf.slice
  rw [capacity_eq b hc]
  have hbi : ∀ c i, Gen.channels_BufferIndex (b.ch : Int) c i = bufferIndex b.ch c i := by
    intro c i
    simp [Gen.channels_BufferIndex, bufferIndex, wrapI_eq_wrapS, Gen.tI64, IntTy.wrap]
  simp only [hbi]
  have hz : ((b.ch : Int) ≠ 0) ↔ (b.ch ≠ 0) := by omega
  by_cases hg : b.ch ≠ 0 ∧ (s < 0 ∨ s > e ∨ e > (b.capacity : Int))
  · have hg' : ((b.ch : Int) ≠ 0) ∧ ((s < 0 ∨ s > e) ∨ e > (b.capacity : Int)) := by
      refine ⟨hz.mpr hg.1, ?_⟩
      rcases hg.2 with h1 | h1 | h1
      · exact Or.inl (Or.inl h1)
      · exact Or.inl (Or.inr h1)
      · exact Or.inr h1
    rw [if_pos hg', if_pos hg]
    rfl
  · have hg' : ¬ (((b.ch : Int) ≠ 0) ∧ ((s < 0 ∨ s > e) ∨ e > (b.capacity : Int))) := by
      intro ⟨h1, h2⟩
      apply hg
      refine ⟨hz.mp h1, ?_⟩
      rcases h2 with (h2 | h2) | h2
      · exact Or.inl h2
      · exact Or.inr (Or.inl h2)
      · exact Or.inr (Or.inr h2)
    rw [if_neg hg', if_neg hg]
    cases hr : Buf.reslice b (bufferIndex b.ch 0 s) (bufferIndex b.ch 0 e) with
    | none => simp [Res.ofOption, Res.bind, Res.eraseKind]
    | some d =>
      obtain ⟨h1, h2⟩ := reslice_fields b d _ _ hr
      simp [Res.ofOption, Res.bind, Res.eraseKind, ← h1, ← h2]

/-- non-vacuity: a concrete header and heap -/
example : Gen.Buffer_Slice [[1, 2, 3, 4, 5, 6]] ⟨2, 0, 0, 4, 6, .i16, 16⟩ 1 3
    = .ok [[1, 2, 3, 4, 5, 6]] (⟨2, 0, 0, 4, 6, .i16, 16⟩, ⟨2, 0, 2, 4, 4, .i16, 16⟩) := by
  rfl

end Sig.GenEq

import SignalGen.Eq.Buffer
/-!
# Regenerated tie, C10 / C15: `Buffer.clear` and `PoolAllocator.Put` as the Go source defines them now (capacity guard
first, reslice to the whole capacity, clear, reslice to the allocator's length) equal the model's `Buf.clear` and `Pool.put`:
a rejected buffer leaves the heap as it is, an accepted one is zero over its whole capacity and has the allocator's length.
(Handing the header to `sync.Pool` is the pool machine's step, not part of this function.)
-/
set_option linter.unusedVariables false
namespace Sig.GenEq
open Sig

theorem clear_eq (h : Heap) (b : Buf) : Gen.Buffer_clear h b = .ok (b.clear h) (b, ()) := rfl

theorem reslice_full (b : Buf) : Buf.reslice b 0 (b.cap : Int) = some { b with len := b.cap } := by
  unfold Buf.reslice
  have : (0:Int) ≤ 0 ∧ (0:Int) ≤ (b.cap : Int) ∧ (b.cap : Int) ≤ (b.cap : Int) := by omega
  rw [if_pos this]
  simp

theorem reslice_prefix (b : Buf) (n : Nat) (hn : n ≤ b.cap) : Buf.reslice b 0 (n : Int) = some { b with len := n } := by
  unfold Buf.reslice
  have : (0:Int) ≤ 0 ∧ (0:Int) ≤ (n : Int) ∧ (n : Int) ≤ (b.cap : Int) := by omega
  rw [if_pos this]
  simp

theorem reslice_prefix_none (b : Buf) (n : Nat) (hn : ¬ n ≤ b.cap) : Buf.reslice b 0 (n : Int) = none := by
  unfold Buf.reslice
  have : ¬ ((0:Int) ≤ 0 ∧ (0:Int) ≤ (n : Int) ∧ (n : Int) ≤ (b.cap : Int)) := by omega
  rw [if_neg this]

/-- `Put` for every pool whose products fit an `int` (every pool the library can allocate for) -/
theorem put_eq (p : Pool) (h : Heap) (b : Buf) (h1 : p.cap * p.ch < 2^63) (h2 : p.ch * p.len < 2^63) :
    (Gen.PoolAllocator_Put h b (p.ch : Int) (p.len : Int) (p.cap : Int)).eraseKind
      = ((p.put h b).bind fun h' b' => .ok h' (b', ())).eraseKind := by
  unfold Gen.PoolAllocator_Put Pool.put
  have w1 : Gen.tI64.wrap ((p.cap : Int) * (p.ch : Int)) = ((p.cap * p.ch : Nat) : Int) := by
    rw [← Int.natCast_mul]; exact wrap64_of_lt _ (by omega) (by exact_mod_cast h1)
  have w2 : Gen.tI64.wrap ((p.ch : Int) * (p.len : Int)) = ((p.ch * p.len : Nat) : Int) := by
    rw [← Int.natCast_mul]; exact wrap64_of_lt _ (by omega) (by exact_mod_cast h2)
  rw [w1, w2, cap_eq]
  by_cases hc : p.cap * p.ch ≠ b.cap
  · have hc' : ((p.cap * p.ch : Nat) : Int) ≠ (b.cap : Int) := by omega
    rw [if_pos hc', if_pos hc]
    rfl
  · have hc' : ¬ (((p.cap * p.ch : Nat) : Int) ≠ (b.cap : Int)) := by omega
    rw [if_neg hc', if_neg hc, reslice_full]
    simp only [Res.ofOption, Res.bind, clear_eq]
    by_cases hl : p.ch * p.len ≤ b.cap
    · rw [reslice_prefix _ _ (by simpa using hl)]
      simp [Res.bind, Res.eraseKind, hl]
    · rw [reslice_prefix_none _ _ (by simpa using hl)]
      simp [Res.bind, Res.eraseKind, hl]

end Sig.GenEq
